import Placement.Lemmas.WfBase
/-
  Preservation of `UniqC` and `RI` by the object layer: providers, inventories, traits,
  aggregates, resource classes.  (Allocations and consumers: `WfAlloc.lean`.)
-/
namespace Placement.Wf
variable {R : Type}

/-! ### providers -/

theorem createProvider_ok {db db' : DB R} {uuid name : Nat} {parent : Option Nat} {row : RpRow}
    (h : createProvider db uuid name parent = .ok (db', row)) :
    db' = { db with rps := db.rps ++ [row], nextRp := db.nextRp + 1 } ∧ row.id = db.nextRp ∧
      row.uuid = uuid ∧ row.name = name ∧ ∀ r ∈ db.rps, r.uuid ≠ uuid ∧ r.name ≠ name := by
  have ins : ∀ (par root : Option Nat),
      (if db.rps.any (fun r => r.uuid == uuid || r.name == name) then (Except.error Exc.dbDuplicate : Except Exc (DB R × RpRow))
       else Except.ok ({ db with rps := db.rps ++ [RpRow.mk db.nextRp uuid name 0 par (root.getD db.nextRp)],
                                 nextRp := db.nextRp + 1 },
                 RpRow.mk db.nextRp uuid name 0 par (root.getD db.nextRp))) = .ok (db', row) →
      db' = { db with rps := db.rps ++ [row], nextRp := db.nextRp + 1 } ∧ row.id = db.nextRp ∧
      row.uuid = uuid ∧ row.name = name ∧ ∀ r ∈ db.rps, r.uuid ≠ uuid ∧ r.name ≠ name := by
    intro par root h
    split at h
    · cases h
    · next hn =>
      injection h with h
      injection h with h1 h2
      subst h2
      refine ⟨h1.symm, rfl, rfl, rfl, ?_⟩
      intro r hr
      simp only [List.any_eq_true, not_exists, not_and, Bool.or_eq_true, beq_iff_eq] at hn
      have := hn r hr
      exact ⟨fun e => this (Or.inl e), fun e => this (Or.inr e)⟩
  unfold createProvider at h
  dsimp only at h
  split at h
  · exact ins _ _ h
  · split at h
    · cases h
    · split at h
      · cases h
      · exact ins _ _ h

theorem uniqC_createProvider {db db' : DB R} {uuid name : Nat} {parent : Option Nat} {row : RpRow}
    (hU : UniqC db) (h : createProvider db uuid name parent = .ok (db', row)) : UniqC db' := by
  obtain ⟨rfl, hid, hu, hn, hfresh⟩ := createProvider_ok h
  exact { hU with
    rpId := by
      show ((db.rps ++ [row]).map (·.id)).Nodup
      rw [L.nodup_map_snoc]
      exact ⟨hU.rpId, fun a ha => by have := hU.freshRp a ha; omega⟩
    rpUuid := by
      show ((db.rps ++ [row]).map (·.uuid)).Nodup
      rw [L.nodup_map_snoc]
      exact ⟨hU.rpUuid, fun a ha => by rw [hu]; exact (hfresh a ha).1⟩
    rpName := by
      show ((db.rps ++ [row]).map (·.name)).Nodup
      rw [L.nodup_map_snoc]
      exact ⟨hU.rpName, fun a ha => by rw [hn]; exact (hfresh a ha).2⟩
    freshRp := by
      intro r hr
      show r.id < db.nextRp + 1
      rcases List.mem_append.1 hr with hr | hr
      · have := hU.freshRp r hr; omega
      · simp at hr; subst hr; omega }

theorem ri_createProvider {db db' : DB R} {uuid name : Nat} {parent : Option Nat} {row : RpRow}
    (hR : RI db) (h : createProvider db uuid name parent = .ok (db', row)) : RI db' := by
  obtain ⟨rfl, -⟩ := createProvider_ok h
  exact { hR.of_rps (db.rps ++ [row]) (fun x ⟨r, hr, e⟩ => ⟨r, List.mem_append_left _ hr, e⟩) with }

/-- `updateProvider` rewrites rows in place: ids and uuids stay, only the row `id` gets the new name,
which no other row carries -/
theorem updateProvider_ok {db db' : DB R} {id name : Nat} {parent : Option Nat} {allow : Bool}
    (h : updateProvider db id name parent allow = .ok db') :
    ∃ g : RpRow → RpRow, db' = { db with rps := db.rps.map g } ∧ (∀ r, (g r).id = r.id) ∧
      (∀ r, (g r).uuid = r.uuid) ∧ (∀ r, (g r).name = if r.id = id then name else r.name) ∧
      (∀ r ∈ db.rps, r.id ≠ id → r.name ≠ name) := by
  have fin : ∀ (newParent : Option (Option Nat)) (newRoot : Option Nat) (sub : List Nat),
      (if db.rps.any (fun r => r.id != id && r.name == name) then (.error .dbDuplicate : Except Exc (DB R))
       else .ok { db with rps := db.rps.map (fun r =>
          if r.id == id then
            { r with name := name, parent := newParent.getD r.parent, root := newRoot.getD r.root }
          else if sub.contains r.id then { r with root := newRoot.getD r.root } else r) }) = .ok db' →
      ∃ g : RpRow → RpRow, db' = { db with rps := db.rps.map g } ∧ (∀ r, (g r).id = r.id) ∧
      (∀ r, (g r).uuid = r.uuid) ∧ (∀ r, (g r).name = if r.id = id then name else r.name) ∧
      (∀ r ∈ db.rps, r.id ≠ id → r.name ≠ name) := by
    intro np nr sub h
    split at h
    · cases h
    · next hn =>
      injection h with h
      refine ⟨_, h.symm, ?_, ?_, ?_, ?_⟩
      · intro r; split <;> first | rfl | (split <;> rfl)
      · intro r; split <;> first | rfl | (split <;> rfl)
      · intro r
        by_cases e : r.id = id
        · simp [e]
        · simp [e]; split <;> rfl
      · intro r hr hne e
        simp only [List.any_eq_true, not_exists, not_and, Bool.and_eq_true, bne_iff_ne, beq_iff_eq] at hn
        exact hn r hr hne e
  unfold updateProvider at h
  dsimp only at h
  split at h
  · cases h
  · split at h
    · split at h
      · cases h
      · split at h
        · cases h
        · split at h
          · cases h
          · exact fin _ _ _ h
    · split at h
      · split at h
        · cases h
        · exact fin _ _ _ h
      · exact fin _ _ _ h

theorem uniqC_updateProvider {db db' : DB R} {id name : Nat} {parent : Option Nat} {allow : Bool}
    (hU : UniqC db) (h : updateProvider db id name parent allow = .ok db') : UniqC db' := by
  obtain ⟨g, rfl, hid, huuid, hname, hfree⟩ := updateProvider_ok h
  exact { hU with
    rpId := by
      show ((db.rps.map g).map (·.id)).Nodup
      rw [L.map_map_key _ (fun a _ => hid a)]; exact hU.rpId
    rpUuid := by
      show ((db.rps.map g).map (·.uuid)).Nodup
      rw [L.map_map_key _ (fun a _ => huuid a)]; exact hU.rpUuid
    rpName := by
      show ((db.rps.map g).map (·.name)).Nodup
      rw [List.map_map, L.nodup_map_iff_pairwise]
      have h1 := L.nodup_map_iff_pairwise.1 hU.rpId
      have h2 := L.nodup_map_iff_pairwise.1 hU.rpName
      refine (h1.and h2).imp_of_mem ?_
      intro a b ha hb ⟨hi, hn⟩
      simp only [Function.comp, hname]
      by_cases ea : a.id = id <;> by_cases eb : b.id = id
      · exact absurd (ea.trans eb.symm) hi
      · simp only [ea, eb, if_true, if_false]; exact fun e => hfree b hb eb e.symm
      · simp only [ea, eb, if_true, if_false]; exact fun e => hfree a ha ea e
      · simp only [ea, eb, if_false]; exact hn
    freshRp := by
      intro r hr
      obtain ⟨r0, h0, rfl⟩ := List.mem_map.1 hr
      rw [hid]; exact hU.freshRp r0 h0 }

theorem ri_updateProvider {db db' : DB R} {id name : Nat} {parent : Option Nat} {allow : Bool}
    (hR : RI db) (h : updateProvider db id name parent allow = .ok db') : RI db' := by
  obtain ⟨g, rfl, hid, -⟩ := updateProvider_ok h
  exact hR.map_rps g hid

theorem deleteProvider_ok {db db' : DB R} {id : Nat} (h : deleteProvider db id = .ok db') :
    db' = { db with invs := db.invs.filter (·.rp != id), rpAggs := db.rpAggs.filter (·.1 != id),
                    rpTraits := db.rpTraits.filter (·.1 != id), rps := db.rps.filter (·.id != id) } ∧
    db.hasChildren id = false ∧ (∀ a ∈ db.allocs, a.rp ≠ id) ∧ HasRp db id := by
  unfold deleteProvider at h
  split at h
  · cases h
  · next h1 =>
    split at h
    · cases h
    · next h2 =>
      split at h
      · cases h
      · next h3 =>
        injection h with h
        refine ⟨h.symm, by simpa using h1, ?_, ?_⟩
        · simpa using h2
        · simp at h3
          obtain ⟨r, hr, e⟩ := h3
          exact ⟨r, hr, e⟩

theorem uniqC_deleteProvider {db db' : DB R} {id : Nat} (hU : UniqC db) (h : deleteProvider db id = .ok db') :
    UniqC db' := by
  obtain ⟨rfl, -⟩ := deleteProvider_ok h
  exact { hU with
    rpId := L.nodup_map_filter _ hU.rpId
    rpUuid := L.nodup_map_filter _ hU.rpUuid
    rpName := L.nodup_map_filter _ hU.rpName
    inv := L.nodup_map_filter _ hU.inv
    rpTraits := hU.rpTraits.filter _
    rpAggs := hU.rpAggs.filter _
    freshRp := fun r hr => hU.freshRp r (List.mem_filter.1 hr).1 }

theorem ri_deleteProvider {db db' : DB R} {id : Nat} (hR : RI db) (h : deleteProvider db id = .ok db') :
    RI db' := by
  obtain ⟨rfl, -, hno, -⟩ := deleteProvider_ok h
  have keep : ∀ x, x ≠ id → HasRp db x → ∃ r ∈ db.rps.filter (·.id != id), r.id = x := by
    rintro x hx ⟨r, hr, rfl⟩
    exact ⟨r, List.mem_filter.2 ⟨hr, by simpa using hx⟩, rfl⟩
  exact { hR with
    allocRp := fun a ha => keep _ (hno a ha) (hR.allocRp a ha)
    allocInv := by
      intro a ha
      obtain ⟨i, hi, e1, e2⟩ := hR.allocInv a ha
      exact ⟨i, List.mem_filter.2 ⟨hi, by simpa [e1] using hno a ha⟩, e1, e2⟩
    invRp := by
      intro i hi
      have := List.mem_filter.1 hi
      exact keep _ (by simpa using this.2) (hR.invRp i this.1)
    invRc := fun i hi => hR.invRc i (List.mem_filter.1 hi).1
    traitRp := by
      intro i hi
      have := List.mem_filter.1 hi
      exact keep _ (by simpa using this.2) (hR.traitRp i this.1)
    traitTrait := fun i hi => hR.traitTrait i (List.mem_filter.1 hi).1
    aggRp := by
      intro i hi
      have := List.mem_filter.1 hi
      exact keep _ (by simpa using this.2) (hR.aggRp i this.1)
    aggAgg := fun i hi => hR.aggAgg i (List.mem_filter.1 hi).1 }

end Placement.Wf

namespace Placement.Wf
variable {R : Type}

/-! ### inventories -/

theorem resolveRcs_mem {db : DB R} : ∀ {l : List (InvSpec R)} {these : List (Nat × InvSpec R)},
    resolveRcs db l = .ok these → ∀ p ∈ these, ∃ q ∈ db.rcs, q.1 = p.1
  | [], these, h => by
    simp [resolveRcs] at h; cases h; simp
  | i :: is, these, h => by
    unfold resolveRcs at h
    split at h
    · cases h
    · next id hid =>
      cases hr : resolveRcs db is with
      | error e => simp [hr, Except.map] at h
      | ok t =>
        simp [hr, Except.map] at h
        subst h
        intro p hp
        rcases List.mem_cons.1 hp with rfl | hp
        · exact ⟨_, rcId_some hid, rfl⟩
        · exact resolveRcs_mem hr p hp

def invExisting (db : DB R) (rp : Nat) : List Nat := (db.invs.filter (·.rp == rp)).map (·.rc)

def invToDelete (db : DB R) (rp : Nat) (these : List (Nat × InvSpec R)) : List Nat :=
  (invExisting db rp).filter (fun rc => !(these.map (·.1)).contains rc)

def invUpd (rp : Nat) (these : List (Nat × InvSpec R)) (i : InvRow R) : InvRow R :=
  if i.rp == rp then
    match these.find? (·.1 == i.rc) with
    | some (_, s) => s.toRow rp i.rc
    | none => i
  else i

def invAdded (db : DB R) (rp : Nat) (these : List (Nat × InvSpec R)) : List (InvRow R) :=
  (((these.map (·.1)).filter (fun rc => !(invExisting db rp).contains rc)).eraseDups).filterMap
    (fun rc => (these.find? (·.1 == rc)).map (fun p => p.2.toRow rp rc))

/-- the inventory table after `_set_inventory` -/
def setInvRows (db : DB R) (rp : Nat) (these : List (Nat × InvSpec R)) : List (InvRow R) :=
  (db.invs.filter (fun i => !(i.rp == rp && (invToDelete db rp these).contains i.rc))).map (invUpd rp these)
    ++ invAdded db rp these

theorem setInventory_eq (db : DB R) (rp gen : Nat) (invs : List (InvSpec R)) :
    setInventory db rp gen invs =
      match resolveRcs db invs with
      | .error e => .error e
      | .ok these =>
        if db.allocs.any (fun a => a.rp == rp && (invToDelete db rp these).contains a.rc) then .error .inventoryInUse
        else incRpGen { db with invs := setInvRows db rp these } rp gen := by
  unfold setInventory
  cases hr : resolveRcs db invs with
  | error e => rfl
  | ok these =>
    simp only [bind, Except.bind, throw, throwThe, MonadExceptOf.throw]
    rfl

@[simp] theorem invUpd_rp (rp : Nat) (these : List (Nat × InvSpec R)) (i : InvRow R) :
    (invUpd rp these i).rp = i.rp := by
  unfold invUpd
  split
  · next h => split <;> simp_all [InvSpec.toRow]
  · rfl

@[simp] theorem invUpd_rc (rp : Nat) (these : List (Nat × InvSpec R)) (i : InvRow R) :
    (invUpd rp these i).rc = i.rc := by
  unfold invUpd
  split
  · split <;> simp [InvSpec.toRow]
  · rfl

theorem mem_invExisting {db : DB R} {rp rc : Nat} :
    rc ∈ invExisting db rp ↔ ∃ i ∈ db.invs, i.rp = rp ∧ i.rc = rc := by
  simp [invExisting, and_assoc]

theorem mem_invToDelete {db : DB R} {rp rc : Nat} {these : List (Nat × InvSpec R)} :
    rc ∈ invToDelete db rp these ↔ rc ∈ invExisting db rp ∧ ∀ p ∈ these, p.1 ≠ rc := by
  unfold invToDelete
  rw [List.mem_filter]
  simp only [Bool.not_eq_eq_eq_not, Bool.not_true, List.contains_eq_mem, List.mem_map, decide_eq_false_iff_not,
    not_exists, not_and]

theorem mem_invAdded {db : DB R} {rp : Nat} {these : List (Nat × InvSpec R)} {i : InvRow R}
    (h : i ∈ invAdded db rp these) :
    i.rp = rp ∧ i.rc ∉ invExisting db rp ∧ ∃ p ∈ these, p.1 = i.rc := by
  unfold invAdded at h
  rw [List.mem_filterMap] at h
  obtain ⟨rc, hrc, hf⟩ := h
  rw [List.mem_eraseDups, List.mem_filter] at hrc
  cases hfind : these.find? (·.1 == rc) with
  | none => simp [hfind] at hf
  | some p =>
    simp [hfind] at hf
    subst hf
    refine ⟨rfl, by simpa [InvSpec.toRow] using hrc.2, p, List.mem_of_find?_eq_some hfind, ?_⟩
    simpa [InvSpec.toRow] using List.find?_some hfind

theorem invAdded_keys (db : DB R) (rp : Nat) (these : List (Nat × InvSpec R)) :
    ((invAdded db rp these).map (fun i => (i.rp, i.rc))).Nodup := by
  rw [L.nodup_map_iff_pairwise]
  unfold invAdded
  refine List.Pairwise.filterMap _ ?_ (L.nodup_eraseDups _)
  intro a a' hne b hb b' hb' e
  cases h1 : these.find? (·.1 == a) <;> simp [h1] at hb
  cases h2 : these.find? (·.1 == a') <;> simp [h2] at hb'
  subst hb hb'
  simp [InvSpec.toRow] at e
  exact hne e

theorem setInvRows_keys {db : DB R} (hU : (db.invs.map (fun i => (i.rp, i.rc))).Nodup) (rp : Nat)
    (these : List (Nat × InvSpec R)) : ((setInvRows db rp these).map (fun i => (i.rp, i.rc))).Nodup := by
  unfold setInvRows
  rw [L.nodup_map_append]
  refine ⟨?_, invAdded_keys db rp these, ?_⟩
  · rw [L.map_map_key _ (fun a _ => by simp)]
    exact L.nodup_map_filter _ hU
  · intro a ha b hb e
    obtain ⟨a0, ha0, rfl⟩ := List.mem_map.1 ha
    obtain ⟨h1, h2, -⟩ := mem_invAdded hb
    simp at e
    exact h2 (mem_invExisting.2 ⟨a0, (List.mem_filter.1 ha0).1, e.1.trans h1, e.2⟩)

/-- every row after `_set_inventory` is an old key or a resolved class on `rp` -/
theorem setInvRows_mem {db : DB R} {rp : Nat} {these : List (Nat × InvSpec R)} {i : InvRow R}
    (h : i ∈ setInvRows db rp these) :
    (∃ j ∈ db.invs, j.rp = i.rp ∧ j.rc = i.rc) ∨ (i.rp = rp ∧ ∃ p ∈ these, p.1 = i.rc) := by
  unfold setInvRows at h
  rcases List.mem_append.1 h with h | h
  · obtain ⟨j, hj, rfl⟩ := List.mem_map.1 h
    exact Or.inl ⟨j, (List.mem_filter.1 hj).1, by simp, by simp⟩
  · obtain ⟨h1, -, h3⟩ := mem_invAdded h
    exact Or.inr ⟨h1, h3⟩

/-- a key survives `_set_inventory` unless it is a class of `rp` that the request does not name -/
theorem setInvRows_keep {db : DB R} {rp : Nat} {these : List (Nat × InvSpec R)} {j : InvRow R}
    (hj : j ∈ db.invs) (hk : ¬ (j.rp = rp ∧ j.rc ∈ invToDelete db rp these)) :
    ∃ i ∈ setInvRows db rp these, i.rp = j.rp ∧ i.rc = j.rc := by
  refine ⟨invUpd rp these j, ?_, by simp, by simp⟩
  unfold setInvRows
  refine List.mem_append_left _ (List.mem_map.2 ⟨j, List.mem_filter.2 ⟨hj, ?_⟩, rfl⟩)
  simp only [Bool.not_eq_eq_eq_not, Bool.not_true, Bool.and_eq_false_imp, beq_iff_eq, List.contains_eq_mem,
    decide_eq_false_iff_not]
  exact fun e hm => hk ⟨e, hm⟩

theorem setInventory_ok {db db' : DB R} {rp gen : Nat} {invs : List (InvSpec R)}
    (h : setInventory db rp gen invs = .ok db') :
    ∃ these, resolveRcs db invs = .ok these ∧
      (∀ a ∈ db.allocs, ¬ (a.rp = rp ∧ a.rc ∈ invToDelete db rp these)) ∧
      incRpGen { db with invs := setInvRows db rp these } rp gen = .ok db' := by
  rw [setInventory_eq] at h
  split at h
  · cases h
  · next these hr =>
    split at h
    · cases h
    · next hn =>
      refine ⟨these, hr, ?_, h⟩
      intro a ha hh
      apply hn
      simp only [List.any_eq_true]
      exact ⟨a, ha, by simpa using hh⟩

theorem uniqC_setInventory {db db' : DB R} {rp gen : Nat} {invs : List (InvSpec R)}
    (hU : UniqC db) (h : setInventory db rp gen invs = .ok db') : UniqC db' := by
  obtain ⟨these, -, -, h⟩ := setInventory_ok h
  refine uniqC_incRpGen ?_ h
  exact { hU with inv := setInvRows_keys hU.inv rp these }

theorem ri_setInventory {db db' : DB R} {rp gen : Nat} {invs : List (InvSpec R)}
    (hR : RI db) (h : setInventory db rp gen invs = .ok db') : RI db' := by
  obtain ⟨these, hres, hno, h⟩ := setInventory_ok h
  have hrp : HasRp db rp := (incRpGen_ok h).2
  refine ri_incRpGen ?_ h
  exact { hR with
    allocInv := by
      intro a ha
      obtain ⟨j, hj, e1, e2⟩ := hR.allocInv a ha
      obtain ⟨i, hi, e3, e4⟩ := setInvRows_keep (rp := rp) (these := these) hj (by rw [e1, e2]; exact hno a ha)
      exact ⟨i, hi, e3.trans e1, e4.trans e2⟩
    invRp := by
      intro i hi
      rcases setInvRows_mem hi with ⟨j, hj, e1, -⟩ | ⟨e1, -⟩
      · rw [← e1]; exact hR.invRp j hj
      · rw [e1]; exact hrp
    invRc := by
      intro i hi
      rcases setInvRows_mem hi with ⟨j, hj, -, e2⟩ | ⟨-, p, hp, e2⟩
      · rw [← e2]; exact hR.invRc j hj
      · rw [← e2]; exact resolveRcs_mem hres p hp }

theorem uniqC_addInventory {db db' : DB R} {rp gen : Nat} {inv : InvSpec R}
    (hU : UniqC db) (h : addInventory db rp gen inv = .ok db') : UniqC db' := by
  unfold addInventory at h
  split at h
  · cases h
  · next rc hrc =>
    split at h
    · cases h
    · next hn =>
      refine uniqC_incRpGen ?_ h
      exact { hU with
        inv := by
          show ((db.invs ++ [inv.toRow rp rc]).map (fun i => (i.rp, i.rc))).Nodup
          rw [L.nodup_map_snoc]
          refine ⟨hU.inv, ?_⟩
          intro a ha e
          simp [InvSpec.toRow] at e
          exact invOf_isNone (by simpa using hn) a ha e }

theorem ri_addInventory {db db' : DB R} {rp gen : Nat} {inv : InvSpec R}
    (hR : RI db) (h : addInventory db rp gen inv = .ok db') : RI db' := by
  unfold addInventory at h
  split at h
  · cases h
  · next rc hrc =>
    split at h
    · cases h
    · have hrp : HasRp db rp := (incRpGen_ok h).2
      refine ri_incRpGen ?_ h
      exact { hR with
        allocInv := by
          intro a ha
          obtain ⟨j, hj, e⟩ := hR.allocInv a ha
          exact ⟨j, List.mem_append_left _ hj, e⟩
        invRp := by
          intro i hi
          rcases List.mem_append.1 hi with hi | hi
          · exact hR.invRp i hi
          · simp at hi; subst hi; exact hrp
        invRc := by
          intro i hi
          rcases List.mem_append.1 hi with hi | hi
          · exact hR.invRc i hi
          · simp at hi; subst hi; exact ⟨_, rcId_some hrc, rfl⟩ }

theorem uniqC_updateInventory {db db' : DB R} {rp gen : Nat} {inv : InvSpec R}
    (hU : UniqC db) (h : updateInventory db rp gen inv = .ok db') : UniqC db' := by
  unfold updateInventory at h
  split at h
  · cases h
  · next rc hrc =>
    split at h
    · cases h
    · refine uniqC_incRpGen ?_ h
      exact { hU with
        inv := by
          show ((db.invs.map _).map (fun i : InvRow R => (i.rp, i.rc))).Nodup
          rw [L.map_map_key]
          · exact hU.inv
          · intro a _
            split
            · next hc => simp at hc; simp [InvSpec.toRow, hc]
            · rfl }

theorem ri_updateInventory {db db' : DB R} {rp gen : Nat} {inv : InvSpec R}
    (hR : RI db) (h : updateInventory db rp gen inv = .ok db') : RI db' := by
  unfold updateInventory at h
  split at h
  · cases h
  · next rc hrc =>
    split at h
    · cases h
    · refine ri_incRpGen ?_ h
      have key : ∀ i : InvRow R, ((if i.rp == rp && i.rc == rc then inv.toRow rp rc else i).rp = i.rp) ∧
          ((if i.rp == rp && i.rc == rc then inv.toRow rp rc else i).rc = i.rc) := by
        intro i
        split
        · next hc => simp at hc; simp [InvSpec.toRow, hc]
        · exact ⟨rfl, rfl⟩
      exact { hR with
        allocInv := by
          intro a ha
          obtain ⟨j, hj, e1, e2⟩ := hR.allocInv a ha
          exact ⟨_, List.mem_map.2 ⟨j, hj, rfl⟩, (key j).1.trans e1, (key j).2.trans e2⟩
        invRp := by
          intro i hi
          obtain ⟨j, hj, rfl⟩ := List.mem_map.1 hi
          rw [(key j).1]; exact hR.invRp j hj
        invRc := by
          intro i hi
          obtain ⟨j, hj, rfl⟩ := List.mem_map.1 hi
          rw [(key j).2]; exact hR.invRc j hj }

theorem deleteInventory_ok {db db' : DB R} {rp gen rcName : Nat}
    (h : deleteInventory db rp gen rcName = .ok db') :
    ∃ rc, db.rcId rcName = some rc ∧ (∀ a ∈ db.allocs, ¬ (a.rp = rp ∧ a.rc = rc)) ∧
      incRpGen { db with invs := db.invs.filter (fun i => !(i.rp == rp && i.rc == rc)) } rp gen = .ok db' := by
  unfold deleteInventory at h
  split at h
  · cases h
  · next rc hrc =>
    split at h
    · cases h
    · next hn =>
      split at h
      · cases h
      · refine ⟨rc, hrc, ?_, h⟩
        intro a ha hh
        apply hn
        simp only [List.any_eq_true]
        exact ⟨a, ha, by simpa using hh⟩

theorem uniqC_deleteInventory {db db' : DB R} {rp gen rcName : Nat}
    (hU : UniqC db) (h : deleteInventory db rp gen rcName = .ok db') : UniqC db' := by
  obtain ⟨rc, -, -, h⟩ := deleteInventory_ok h
  refine uniqC_incRpGen ?_ h
  exact { hU with inv := L.nodup_map_filter _ hU.inv }

theorem ri_deleteInventory {db db' : DB R} {rp gen rcName : Nat}
    (hR : RI db) (h : deleteInventory db rp gen rcName = .ok db') : RI db' := by
  obtain ⟨rc, -, hno, h⟩ := deleteInventory_ok h
  refine ri_incRpGen ?_ h
  exact { hR with
    allocInv := by
      intro a ha
      obtain ⟨j, hj, e1, e2⟩ := hR.allocInv a ha
      refine ⟨j, List.mem_filter.2 ⟨hj, ?_⟩, e1, e2⟩
      have := hno a ha
      rw [← e1, ← e2] at this
      simp only [Bool.not_eq_eq_eq_not, Bool.not_true, Bool.and_eq_false_imp, beq_iff_eq, beq_eq_false_iff_ne]
      exact fun e e' => this ⟨e, e'⟩
    invRp := fun i hi => hR.invRp i (List.mem_filter.1 hi).1
    invRc := fun i hi => hR.invRc i (List.mem_filter.1 hi).1 }

end Placement.Wf

namespace Placement.Wf
variable {R : Type}

/-! ### traits -/

theorem mem_traitsOf {db : DB R} {rp t : Nat} : t ∈ db.traitsOf rp ↔ (rp, t) ∈ db.rpTraits := by
  unfold DB.traitsOf
  simp only [List.mem_map, List.mem_filter, beq_iff_eq]
  constructor
  · rintro ⟨⟨a, b⟩, ⟨h1, h2⟩, h3⟩
    simp at h2 h3; subst h2 h3; exact h1
  · intro h; exact ⟨(rp, t), ⟨h, rfl⟩, rfl⟩

theorem mem_aggsOf {db : DB R} {rp t : Nat} : t ∈ db.aggsOf rp ↔ (rp, t) ∈ db.rpAggs := by
  unfold DB.aggsOf
  simp only [List.mem_map, List.mem_filter, beq_iff_eq]
  constructor
  · rintro ⟨⟨a, b⟩, ⟨h1, h2⟩, h3⟩
    simp at h2 h3; subst h2 h3; exact h1
  · intro h; exact ⟨(rp, t), ⟨h, rfl⟩, rfl⟩

/-- `kept ++ new associations` has no duplicates when the new ones were not associated before -/
theorem nodup_assoc {l : List (Nat × Nat)} (hl : l.Nodup) (p : Nat × Nat → Bool) (rp : Nat) (add : List Nat)
    (hadd : add.Nodup) (hnew : ∀ t ∈ add, (rp, t) ∉ l) :
    (l.filter p ++ add.map (fun t => (rp, t))).Nodup := by
  rw [List.nodup_append]
  refine ⟨hl.filter p, ?_, ?_⟩
  · exact List.Pairwise.map _ (fun a b h e => h (by simpa using e)) hadd
  · intro a ha b hb e
    obtain ⟨t, ht, rfl⟩ := List.mem_map.1 hb
    subst e
    exact hnew t ht (List.mem_filter.1 ha).1

theorem setTraits_ok {db db' : DB R} {rp gen : Nat} {traits : List Nat}
    (h : setTraits db rp gen traits = .ok db') :
    db' = db ∨ ∃ (p : Nat × Nat → Bool) (add : List Nat), add.Nodup ∧ (∀ t ∈ add, t ∈ traits ∧ (rp, t) ∉ db.rpTraits) ∧
      incRpGen { db with rpTraits := db.rpTraits.filter p ++ add.map (fun t => (rp, t)) } rp gen = .ok db' := by
  unfold setTraits at h
  dsimp only at h
  split at h
  · injection h with h; exact Or.inl h.symm
  · refine Or.inr ⟨_, _, L.nodup_eraseDups _, ?_, h⟩
    intro t ht
    rw [List.mem_eraseDups, List.mem_filter] at ht
    refine ⟨ht.1, ?_⟩
    rw [← mem_traitsOf]
    simpa using ht.2

theorem uniqC_setTraits {db db' : DB R} {rp gen : Nat} {traits : List Nat}
    (hU : UniqC db) (h : setTraits db rp gen traits = .ok db') : UniqC db' := by
  rcases setTraits_ok h with rfl | ⟨p, add, h1, h2, h⟩
  · exact hU
  · refine uniqC_incRpGen ?_ h
    exact { hU with rpTraits := nodup_assoc hU.rpTraits p rp add h1 (fun t ht => (h2 t ht).2) }

theorem ri_setTraits {db db' : DB R} {rp gen : Nat} {traits : List Nat}
    (hR : RI db) (hT : ∀ t ∈ traits, t ∈ db.traits) (h : setTraits db rp gen traits = .ok db') : RI db' := by
  rcases setTraits_ok h with rfl | ⟨p, add, h1, h2, h⟩
  · exact hR
  · have hrp : HasRp db rp := (incRpGen_ok h).2
    refine ri_incRpGen ?_ h
    exact { hR with
      traitRp := by
        intro q hq
        rcases List.mem_append.1 hq with hq | hq
        · exact hR.traitRp q (List.mem_filter.1 hq).1
        · obtain ⟨t, -, rfl⟩ := List.mem_map.1 hq; exact hrp
      traitTrait := by
        intro q hq
        rcases List.mem_append.1 hq with hq | hq
        · exact hR.traitTrait q (List.mem_filter.1 hq).1
        · obtain ⟨t, ht, rfl⟩ := List.mem_map.1 hq; exact hT t (h2 t ht).1 }

theorem uniqC_createTrait {db db' : DB R} {name : Nat} (hU : UniqC db) (h : createTrait db name = .ok db') :
    UniqC db' := by
  unfold createTrait at h
  split at h
  · cases h
  · next hn =>
    injection h with h; subst h
    exact { hU with
      traits := by
        show (db.traits ++ [name]).Nodup
        rw [List.nodup_append]
        refine ⟨hU.traits, by simp, ?_⟩
        intro a ha b hb e
        simp at hb hn; subst hb e; exact hn ha }

theorem ri_createTrait {db db' : DB R} {name : Nat} (hR : RI db) (h : createTrait db name = .ok db') :
    RI db' := by
  unfold createTrait at h
  split at h
  · cases h
  · injection h with h; subst h
    exact { hR with traitTrait := fun p hp => List.mem_append_left _ (hR.traitTrait p hp) }

theorem deleteTrait_ok {db db' : DB R} {name : Nat} (h : deleteTrait db name = .ok db') :
    db' = { db with traits := db.traits.filter (· != name) } ∧ isCustom name = true ∧
      (∀ p ∈ db.rpTraits, p.2 ≠ name) ∧ name ∈ db.traits := by
  unfold deleteTrait at h
  split at h
  · cases h
  · next h1 =>
    split at h
    · cases h
    · next h2 =>
      split at h
      · cases h
      · next h3 =>
        injection h with h
        refine ⟨h.symm, by simpa using h1, ?_, by simpa using h3⟩
        intro p hp e
        apply h2
        simp only [List.any_eq_true]
        exact ⟨p, hp, by simp [e]⟩

theorem uniqC_deleteTrait {db db' : DB R} {name : Nat} (hU : UniqC db) (h : deleteTrait db name = .ok db') :
    UniqC db' := by
  obtain ⟨rfl, -⟩ := deleteTrait_ok h
  exact { hU with traits := hU.traits.filter _ }

theorem ri_deleteTrait {db db' : DB R} {name : Nat} (hR : RI db) (h : deleteTrait db name = .ok db') :
    RI db' := by
  obtain ⟨rfl, -, hno, -⟩ := deleteTrait_ok h
  exact { hR with
    traitTrait := fun p hp => List.mem_filter.2 ⟨hR.traitTrait p hp, by simpa using hno p hp⟩ }

/-! ### aggregates -/

theorem uniqC_setAggregates {db db' : DB R} {rp gen : Nat} {aggs : List Nat} {incGen : Bool}
    (hU : UniqC db) (h : setAggregates db rp gen aggs incGen = .ok db') : UniqC db' := by
  unfold setAggregates at h
  dsimp only at h
  have hadd : ∀ t ∈ (aggs.filter (fun a => !(db.aggsOf rp).contains a)).eraseDups, (rp, t) ∉ db.rpAggs := by
    intro t ht
    rw [List.mem_eraseDups, List.mem_filter] at ht
    rw [← mem_aggsOf]; simpa using ht.2
  have key : UniqC { db with
      aggs := db.aggs ++ ((aggs.filter (fun a => !(db.aggsOf rp).contains a)).eraseDups).filter (fun a => !db.aggs.contains a)
      rpAggs := db.rpAggs.filter (fun p => !(p.1 == rp && !aggs.contains p.2)) ++
        ((aggs.filter (fun a => !(db.aggsOf rp).contains a)).eraseDups).map (fun a => (rp, a)) } :=
    { hU with
      rpAggs := nodup_assoc hU.rpAggs _ rp _ (L.nodup_eraseDups _) hadd
      aggs := by
        show (db.aggs ++ _).Nodup
        rw [List.nodup_append]
        refine ⟨hU.aggs, (L.nodup_eraseDups _).filter _, ?_⟩
        intro a ha b hb e
        subst e
        have := (List.mem_filter.1 hb).2
        simp at this
        exact this ha }
  split at h
  · exact uniqC_incRpGen key h
  · injection h with h; subst h; exact key

theorem ri_setAggregates {db db' : DB R} {rp gen : Nat} {aggs : List Nat} {incGen : Bool}
    (hR : RI db) (hrp : HasRp db rp) (h : setAggregates db rp gen aggs incGen = .ok db') : RI db' := by
  unfold setAggregates at h
  dsimp only at h
  have key : RI { db with
      aggs := db.aggs ++ ((aggs.filter (fun a => !(db.aggsOf rp).contains a)).eraseDups).filter (fun a => !db.aggs.contains a)
      rpAggs := db.rpAggs.filter (fun p => !(p.1 == rp && !aggs.contains p.2)) ++
        ((aggs.filter (fun a => !(db.aggsOf rp).contains a)).eraseDups).map (fun a => (rp, a)) } :=
    { hR with
      aggRp := by
        intro q hq
        rcases List.mem_append.1 hq with hq | hq
        · exact hR.aggRp q (List.mem_filter.1 hq).1
        · obtain ⟨t, -, rfl⟩ := List.mem_map.1 hq; exact hrp
      aggAgg := by
        intro q hq
        rcases List.mem_append.1 hq with hq | hq
        · exact List.mem_append_left _ (hR.aggAgg q (List.mem_filter.1 hq).1)
        · obtain ⟨t, ht, rfl⟩ := List.mem_map.1 hq
          show t ∈ db.aggs ++ _
          by_cases hm : t ∈ db.aggs
          · exact List.mem_append_left _ hm
          · exact List.mem_append_right _ (List.mem_filter.2 ⟨ht, by simpa using hm⟩) }
  split at h
  · exact ri_incRpGen key h
  · injection h with h; subst h; exact key

/-! ### resource classes -/

theorem le_foldl_max : ∀ (l : List Nat) (init : Nat),
    init ≤ l.foldl max init ∧ ∀ x ∈ l, x ≤ l.foldl max init
  | [], init => by simp
  | a :: l, init => by
    have := le_foldl_max l (max init a)
    simp only [List.foldl_cons, List.mem_cons]
    refine ⟨by omega, ?_⟩
    rintro x (rfl | hx)
    · omega
    · exact this.2 x hx

theorem lt_nextRcId {db : DB R} : ∀ p ∈ db.rcs, p.1 < nextRcId db := by
  intro p hp
  have := (le_foldl_max (db.rcs.map (·.1)) 0).2 p.1 (List.mem_map.2 ⟨p, hp, rfl⟩)
  unfold nextRcId
  dsimp only
  split
  · unfold minCustomRcId at *; omega
  · omega

theorem rcId_isNone {db : DB R} {name : Nat} (h : ¬ (db.rcId name).isSome = true) :
    ∀ p ∈ db.rcs, p.2 ≠ name := by
  unfold DB.rcId at h
  simp at h
  intro p hp e
  exact h p.1 (by rw [← e]; exact hp)

theorem createRc_ok {db db' : DB R} {name : Nat} (h : createRc db name = .ok db') :
    db' = { db with rcs := db.rcs ++ [(nextRcId db, name)] } ∧ isCustom name = true ∧ ∀ p ∈ db.rcs, p.2 ≠ name := by
  unfold createRc at h
  split at h
  · split at h <;> cases h
  · next h1 =>
    split at h
    · cases h
    · next h2 =>
      injection h with h
      exact ⟨h.symm, by simpa using h1, rcId_isNone h2⟩

theorem uniqC_createRc {db db' : DB R} {name : Nat} (hU : UniqC db) (h : createRc db name = .ok db') :
    UniqC db' := by
  obtain ⟨rfl, -, hn⟩ := createRc_ok h
  exact { hU with
    rcId := by
      show ((db.rcs ++ [(nextRcId db, name)]).map (·.1)).Nodup
      rw [L.nodup_map_snoc]
      exact ⟨hU.rcId, fun a ha => by have := lt_nextRcId a ha; simp; omega⟩
    rcName := by
      show ((db.rcs ++ [(nextRcId db, name)]).map (·.2)).Nodup
      rw [L.nodup_map_snoc]
      exact ⟨hU.rcName, fun a ha => hn a ha⟩ }

theorem ri_createRc {db db' : DB R} {name : Nat} (hR : RI db) (h : createRc db name = .ok db') :
    RI db' := by
  obtain ⟨rfl, -⟩ := createRc_ok h
  exact { hR with
    invRc := fun i hi => by
      obtain ⟨p, hp, e⟩ := hR.invRc i hi
      exact ⟨p, List.mem_append_left _ hp, e⟩ }

theorem deleteRc_ok {db db' : DB R} {id : Nat} (h : deleteRc db id = .ok db') :
    db' = { db with rcs := db.rcs.filter (·.1 != id) } ∧ minCustomRcId ≤ id ∧
      (∀ i ∈ db.invs, i.rc ≠ id) ∧ ∃ p ∈ db.rcs, p.1 = id := by
  unfold deleteRc at h
  split at h
  · cases h
  · next h1 =>
    split at h
    · cases h
    · next h2 =>
      split at h
      · cases h
      · next h3 =>
        injection h with h
        refine ⟨h.symm, by omega, by simpa using h2, ?_⟩
        simp only [Bool.not_eq_eq_eq_not, Bool.not_true, Bool.not_eq_false, List.any_eq_true, beq_iff_eq] at h3
        exact h3

theorem uniqC_deleteRc {db db' : DB R} {id : Nat} (hU : UniqC db) (h : deleteRc db id = .ok db') :
    UniqC db' := by
  obtain ⟨rfl, -⟩ := deleteRc_ok h
  exact { hU with rcId := L.nodup_map_filter _ hU.rcId, rcName := L.nodup_map_filter _ hU.rcName }

theorem ri_deleteRc {db db' : DB R} {id : Nat} (hR : RI db) (h : deleteRc db id = .ok db') : RI db' := by
  obtain ⟨rfl, -, hno, -⟩ := deleteRc_ok h
  exact { hR with
    invRc := fun i hi => by
      obtain ⟨p, hp, e⟩ := hR.invRc i hi
      exact ⟨p, List.mem_filter.2 ⟨hp, by simpa [e] using hno i hi⟩, e⟩ }

theorem renameRc_ok {db db' : DB R} {id newName : Nat} (h : renameRc db id newName = .ok db') :
    db' = { db with rcs := db.rcs.map (fun p => if p.1 == id then (id, newName) else p) } ∧
      minCustomRcId ≤ id ∧ ∀ p ∈ db.rcs, p.1 ≠ id → p.2 ≠ newName := by
  unfold renameRc at h
  split at h
  · cases h
  · next h1 =>
    split at h
    · cases h
    · next h2 =>
      injection h with h
      refine ⟨h.symm, by omega, ?_⟩
      intro p hp hne e
      apply h2
      simp only [List.any_eq_true]
      exact ⟨p, hp, by simp [hne, e]⟩

theorem uniqC_renameRc {db db' : DB R} {id newName : Nat} (hU : UniqC db) (h : renameRc db id newName = .ok db') :
    UniqC db' := by
  obtain ⟨rfl, -, hfree⟩ := renameRc_ok h
  have hid : ∀ p : Nat × Nat, (if p.1 == id then (id, newName) else p).1 = p.1 := by
    intro p; split
    · next e => simp at e; simp [e]
    · rfl
  exact { hU with
    rcId := by
      show ((db.rcs.map _).map (fun p : Nat × Nat => p.1)).Nodup
      rw [L.map_map_key _ (fun a _ => hid a)]; exact hU.rcId
    rcName := by
      show ((db.rcs.map _).map (fun p : Nat × Nat => p.2)).Nodup
      rw [List.map_map, L.nodup_map_iff_pairwise]
      have h1 := L.nodup_map_iff_pairwise.1 hU.rcId
      have h2 := L.nodup_map_iff_pairwise.1 hU.rcName
      refine (h1.and h2).imp_of_mem ?_
      intro a b ha hb ⟨hi, hn⟩
      simp only [Function.comp]
      by_cases ea : a.1 = id <;> by_cases eb : b.1 = id
      · exact absurd (ea.trans eb.symm) hi
      · simp only [ea, eb, beq_self_eq_true, if_true, beq_iff_eq, if_false]; exact fun e => hfree b hb eb e.symm
      · simp only [ea, eb, beq_self_eq_true, if_true, beq_iff_eq, if_false]; exact fun e => hfree a ha ea e
      · simp only [ea, eb, beq_iff_eq, if_false]; exact hn }

theorem ri_renameRc {db db' : DB R} {id newName : Nat} (hR : RI db) (h : renameRc db id newName = .ok db') :
    RI db' := by
  obtain ⟨rfl, -⟩ := renameRc_ok h
  exact { hR with
    invRc := fun i hi => by
      obtain ⟨p, hp, e⟩ := hR.invRc i hi
      refine ⟨_, List.mem_map.2 ⟨p, hp, rfl⟩, ?_⟩
      split
      · next hc => simp at hc; simp [← e, hc]
      · exact e }

end Placement.Wf
