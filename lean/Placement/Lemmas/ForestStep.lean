import Placement.Lemmas.Forest
/-
  C09, model level: what the three provider-writing object functions do to the provider table, and
  that each keeps `RpIds ∧ Forest ∧ Roots`.
-/
namespace Placement.Hier
variable {R : Type}

/-- the part of `Uniq` the hierarchy proofs use: ids are unique and below the next fresh id -/
structure RpIds (db : DB R) : Prop where
  nodup : (db.rps.map (·.id)).Nodup
  fresh : ∀ r ∈ db.rps, r.id < db.nextRp

theorem rpIds_of_uniq {db : DB R} (h : Uniq db) : RpIds db := ⟨h.rpId, h.freshRp⟩

theorem RpIds.uniq {db : DB R} (h : RpIds db) : UniqId db.rps := uniqId_of_nodup h.nodup

theorem rpById_some {db : DB R} {i : Nat} {r : RpRow} (h : db.rpById i = some r) : r ∈ db.rps ∧ r.id = i :=
  ⟨List.mem_of_find?_eq_some h, by simpa using List.find?_some h⟩

theorem rpByUuid_some {db : DB R} {u : Nat} {r : RpRow} (h : db.rpByUuid u = some r) :
    r ∈ db.rps ∧ r.uuid = u :=
  ⟨List.mem_of_find?_eq_some h, by simpa using List.find?_some h⟩

/-! ### `_create_in_db` -/

theorem createProvider_ok {db db' : DB R} {uuid name : Nat} {parent : Option Nat} {row : RpRow}
    (h : createProvider db uuid name parent = .ok (db', row)) :
    db' = { db with rps := db.rps ++ [row], nextRp := db.nextRp + 1 } ∧
    row.id = db.nextRp ∧ row.gen = 0 ∧ row.uuid = uuid ∧
    ((parent = none ∧ row.parent = none ∧ row.root = row.id) ∨
     (∃ pu p, parent = some pu ∧ pu ≠ uuid ∧ db.rpByUuid pu = some p ∧
        row.parent = some p.id ∧ row.root = p.root)) := by
  unfold createProvider at h
  dsimp only at h
  split at h
  · split at h
    · cases h
    · simp only [Except.ok.injEq, Prod.mk.injEq] at h
      obtain ⟨h1, h2⟩ := h
      subst h2
      exact ⟨h1.symm, rfl, rfl, rfl, .inl ⟨rfl, rfl, rfl⟩⟩
  · rename_i pu
    split at h
    · cases h
    · rename_i hne
      split at h
      · cases h
      · rename_i p hp
        split at h
        · cases h
        · simp only [Except.ok.injEq, Prod.mk.injEq] at h
          obtain ⟨h1, h2⟩ := h
          subst h2
          exact ⟨h1.symm, rfl, rfl, rfl, .inr ⟨pu, p, rfl, by simpa using hne, hp, rfl, rfl⟩⟩

theorem createProvider_inv {db db' : DB R} {uuid name : Nat} {parent : Option Nat} {row : RpRow}
    (h : createProvider db uuid name parent = .ok (db', row))
    (hI : RpIds db) (hF : Forest db) (hR : Roots db) : RpIds db' ∧ Forest db' ∧ Roots db' := by
  obtain ⟨hdb, hid, -, -, hpar⟩ := createProvider_ok h
  subst hdb
  have hfresh : ∀ r ∈ db.rps, r.id ≠ row.id := fun r hr => by have := hI.fresh r hr; omega
  have hpex : ∀ p, row.parent = some p → ∃ q ∈ db.rps, q.id = p ∧ row.root = q.root := by
    intro p hp
    rcases hpar with ⟨-, hn, -⟩ | ⟨pu, q, -, -, hq, hrp, hroot⟩
    · rw [hn] at hp; cases hp
    · rw [hrp] at hp; cases hp
      exact ⟨q, (rpByUuid_some hq).1, rfl, hroot⟩
  refine ⟨⟨?_, ?_⟩, ?_, ?_⟩
  · show ((db.rps ++ [row]).map (·.id)).Nodup
    rw [List.map_append, List.nodup_append]
    refine ⟨hI.nodup, by simp, ?_⟩
    intro a ha b hb
    obtain ⟨r, hr, rfl⟩ := List.mem_map.mp ha
    simp only [List.map_cons, List.map_nil, List.mem_singleton] at hb
    subst hb; exact hfresh r hr
  · intro r hr
    show r.id < db.nextRp + 1
    rcases List.mem_append.mp hr with hr1 | hr1
    · have := hI.fresh r hr1; omega
    · rw [List.mem_singleton.mp hr1]; omega
  · exact forest_append db.rps row hfresh hF
      (fun p hp => by obtain ⟨q, hq, hqid, _⟩ := hpex p hp; exact ⟨q, hq, hqid⟩)
  · refine roots_append db.rps row hfresh hF hR hI.uniq ?_ hpex
    intro hn
    rcases hpar with ⟨-, -, hroot⟩ | ⟨_, _, -, -, -, hrp, -⟩
    · exact hroot
    · rw [hrp] at hn; cases hn

/-! ### `_update_in_db` -/

/-- membership test in `get_subtree` of `me`, as `_update_in_db` uses it -/
abbrev subOf (db : DB R) (me : RpRow) : Nat → Bool := (subtreeIds db me.root db.rps.length me.id).contains

/-- the three outcomes of a successful `_update_in_db`: (re-)parenting under `p`, detaching, or a
plain rename -/
theorem updateProvider_ok {db db' : DB R} {id name : Nat} {parent : Option Nat} {allow : Bool}
    (h : updateProvider db id name parent allow = .ok db') :
    ∃ me, db.rpById id = some me ∧
      ((∃ pu p, parent = some pu ∧ db.rpByUuid pu = some p ∧
          (me.parent = none ∨ me.parent = some p.id ∨ allow = true) ∧
          (subtreeIds db me.root db.rps.length me.id).contains p.id = false ∧
          db' = { db with rps := db.rps.map (upd id name (some p.id) p.root (subOf db me)) }) ∨
       (parent = none ∧ me.parent.isSome = true ∧ allow = true ∧
          db' = { db with rps := db.rps.map (upd id name none me.id (subOf db me)) }) ∨
       (parent = none ∧ me.parent = none ∧
          db' = { db with rps := db.rps.map (fun r => if r.id = id then { r with name := name } else r) })) := by
  unfold updateProvider at h
  split at h
  · cases h
  · rename_i me hme
    refine ⟨me, hme, ?_⟩
    dsimp only at h
    split at h
    · rename_i pu
      split at h
      · cases h
      · rename_i p hp
        split at h
        · cases h
        · rename_i hmove
          split at h
          · cases h
          · rename_i hsub
            split at h
            · cases h
            · simp only [Except.ok.injEq] at h
              refine .inl ⟨pu, p, rfl, hp, ?_, by simpa using hsub, ?_⟩
              · cases hm : me.parent with
                | none => exact .inl rfl
                | some q =>
                  by_cases hq : q = p.id
                  · exact .inr (.inl (by rw [hq]))
                  · cases allow with
                    | true => exact .inr (.inr rfl)
                    | false => simp [hm, hq] at hmove
              · rw [← h]; congr 1
                apply List.map_congr_left
                intro r _
                unfold upd
                simp only [beq_iff_eq, Option.getD_some]
    · split at h
      · rename_i hsome
        split at h
        · cases h
        · rename_i hallow
          split at h
          · cases h
          · simp only [Except.ok.injEq] at h
            refine .inr (.inl ⟨rfl, hsome, by simpa using hallow, ?_⟩)
            rw [← h]; congr 1
            apply List.map_congr_left
            intro r _
            unfold upd
            simp only [beq_iff_eq, Option.getD_some]
      · rename_i hnone
        split at h
        · cases h
        · simp only [Except.ok.injEq] at h
          refine .inr (.inr ⟨rfl, by simpa using hnone, ?_⟩)
          rw [← h]; congr 1
          apply List.map_congr_left
          intro r _
          simp only [beq_iff_eq, Option.getD_none, List.contains_nil, Bool.false_eq_true, ↓reduceIte]

theorem ids_map_upd (t : Tbl) (x name np nr inSub) :
    (t.map (upd x name np nr inSub)).map (·.id) = t.map (·.id) := by
  rw [List.map_map]; apply List.map_congr_left; intro r _; simp

theorem updateProvider_inv {db db' : DB R} {id name : Nat} {parent : Option Nat} {allow : Bool}
    (h : updateProvider db id name parent allow = .ok db')
    (hI : RpIds db) (hF : Forest db) (hR : Roots db) : RpIds db' ∧ Forest db' ∧ Roots db' := by
  obtain ⟨me, hme, hcase⟩ := updateProvider_ok h
  obtain ⟨hmem, hmeid⟩ := rpById_some hme
  have hu := hI.uniq
  have hsub : ∀ y, (subtreeIds db me.root db.rps.length me.id).contains y = true ↔ Desc db.rps id y := by
    intro y; rw [List.contains_iff_mem, subtree_eq_desc db hu hF hR hmem y, hmeid]
  rcases hcase with ⟨pu, p, -, hp, -, hnot, rfl⟩ | ⟨-, -, -, rfl⟩ | ⟨-, -, rfl⟩
  · obtain ⟨hpm, -⟩ := rpByUuid_some hp
    have hnd : ¬ Desc db.rps id p.id := fun hd => by
      rw [(hsub p.id).mpr hd] at hnot; cases hnot
    refine ⟨⟨?_, ?_⟩, ?_, ?_⟩
    · dsimp only; rw [ids_map_upd]; exact hI.nodup
    · intro r' hr'
      obtain ⟨r, hr, rfl⟩ := mem_map_upd hr'
      simpa using hI.fresh r hr
    · exact forest_reparent db.rps id name p.id p.root _ hu hsub hF ⟨p, hpm, rfl⟩ hnd
    · exact roots_reparent db.rps id name p.id _ p hu hsub hR hpm rfl hnd
  · refine ⟨⟨?_, ?_⟩, ?_, ?_⟩
    · dsimp only; rw [ids_map_upd]; exact hI.nodup
    · intro r' hr'
      obtain ⟨r, hr, rfl⟩ := mem_map_upd hr'
      simpa using hI.fresh r hr
    · exact forest_unparent db.rps id name me.id _ hF
    · rw [hmeid]; exact roots_unparent db.rps id name _ hu hsub hR
  · have hshape : (db.rps.map (fun r => if r.id = id then { r with name := name } else r)).map shape
        = db.rps.map shape := by
      rw [List.map_map]; apply List.map_congr_left; intro r _
      simp only [Function.comp]; split <;> rfl
    have hids : (db.rps.map (fun r => if r.id = id then { r with name := name } else r)).map (·.id)
        = db.rps.map (·.id) := by
      rw [List.map_map]; apply List.map_congr_left; intro r _
      simp only [Function.comp]; split <;> rfl
    refine ⟨⟨?_, ?_⟩, forest_of_shape hshape hF, roots_of_shape hshape hR⟩
    · dsimp only; rw [hids]; exact hI.nodup
    · intro r' hr'
      obtain ⟨r, hr, rfl⟩ := List.mem_map.mp hr'
      have := hI.fresh r hr
      show (if r.id = id then { r with name := name } else r).id < db.nextRp
      split <;> exact this

/-! ### `_delete` -/

theorem deleteProvider_ok {db db' : DB R} {id : Nat} (h : deleteProvider db id = .ok db') :
    db.hasChildren id = false ∧ db.allocs.any (·.rp == id) = false ∧
    db' = { db with invs := db.invs.filter (·.rp != id), rpAggs := db.rpAggs.filter (·.1 != id),
                    rpTraits := db.rpTraits.filter (·.1 != id), rps := db.rps.filter (·.id != id) } := by
  unfold deleteProvider at h
  split at h
  · cases h
  · rename_i h1
    split at h
    · cases h
    · rename_i h2
      split at h
      · cases h
      · simp only [Except.ok.injEq] at h
        exact ⟨by simpa using h1, by simpa using h2, h.symm⟩

theorem deleteProvider_inv {db db' : DB R} {id : Nat} (h : deleteProvider db id = .ok db')
    (hI : RpIds db) (hF : Forest db) (hR : Roots db) : RpIds db' ∧ Forest db' ∧ Roots db' := by
  obtain ⟨hnc, -, rfl⟩ := deleteProvider_ok h
  have hnc' : ∀ r ∈ db.rps, r.parent ≠ some id := by
    intro r hr hp
    have : db.hasChildren id = true := by
      unfold DB.hasChildren; rw [List.any_eq_true]; exact ⟨r, hr, by simp [hp]⟩
    rw [hnc] at this; cases this
  refine ⟨⟨?_, ?_⟩, forest_remove db.rps id hnc' hF, roots_remove db.rps id hR⟩
  · exact hI.nodup.sublist (List.filter_sublist.map _)
  · intro r hr; exact hI.fresh r (List.mem_filter.mp hr).1

end Placement.Hier
