import Placement.Lemmas.GenPost
/-
  C10, part 7: consumer generations after POST /allocations and POST /reshaper.
-/
namespace Placement.Gens
open Placement.Hier
variable {R : Type} [CapOps R]
set_option linter.unusedSectionVars false
set_option linter.unusedSimpArgs false

/-- the consumer table after `incConsGens`: every listed consumer one generation further -/
def bumpAllCons (t : List ConsRow) (keys : List Nat) : List ConsRow :=
  t.map (fun c => if keys.contains c.id then { c with gen := c.gen + 1 } else c)

theorem incConsGens_consumers : ∀ {l : List (Nat × Nat)} {db db' : DB R}, incConsGens db l = .ok db' →
    (db.consumers.map (·.id)).Nodup → (l.map (·.1)).Nodup →
    db'.consumers = bumpAllCons db.consumers (l.map (·.1))
  | [], db, db', h, _, _ => by
    simp only [incConsGens, Except.ok.injEq] at h; subst h
    simp [bumpAllCons]
  | (id, gen) :: rest, db, db', h, hn, hk => by
    simp only [incConsGens, bind, Except.bind] at h
    split at h
    · cases h
    · rename_i db1 h1
      obtain ⟨⟨c0, hc0, hid0, hgen0⟩, rfl⟩ := incConsGen_ok h1
      rw [List.map_cons, List.nodup_cons] at hk
      have hids : (List.map (fun c : ConsRow => if c.id == id then { c with gen := gen + 1 } else c) db.consumers).map (·.id)
          = db.consumers.map (·.id) := by
        simp only [List.map_map]; apply List.map_congr_left; intro r _
        simp only [Function.comp]; split <;> rfl
      have ih1 := incConsGens_consumers h (by show (List.map _ (List.map _ db.consumers)).Nodup; rw [hids]; exact hn) hk.2
      rw [ih1]
      simp only [bumpAllCons, List.map_map, List.map_cons]
      generalize List.map (fun x : Nat × Nat => x.fst) rest = ks at hk ⊢
      apply List.map_congr_left
      intro r hr
      simp only [Function.comp]
      rw [List.contains_cons]
      by_cases hid : r.id = id
      · have : r = c0 := uniqCons_of_nodup hn r hr c0 hc0 (hid.trans hid0.symm)
        subst this
        have hnot : ks.contains id = false := by
          cases hc : ks.contains id with
          | false => rfl
          | true => exact absurd (List.contains_iff_mem.mp hc) hk.1
        have h1 : (r.id == id) = true := by simp [hid]
        simp only [h1, ↓reduceIte, Bool.true_or]
        rw [hid, hnot, hgen0]
        simp
      · have h1 : (r.id == id) = false := by simp [hid]
        simp only [h1, Bool.false_or, Bool.false_eq_true, ↓reduceIte]

/-- consumers after a successful `_set_allocations`: every consumer named by an allocation object is
one generation further; afterwards rows may have been removed -/
theorem setAllocations_consumers_all {db db' : DB R} {allocs : List AllocReq}
    (h : setAllocations db allocs = .ok db') (hn : (db.consumers.map (·.id)).Nodup) :
    ∃ p, db'.consumers =
      (bumpAllCons db.consumers ((firstByKey (allocs.map (fun a => (a.consId, a.consGen)))).map (·.1))).filter p := by
  obtain ⟨db2, db3, db4, hg, h3, h4, rfl⟩ := setAllocations_ok h
  have hc2 : db2.consumers = db.consumers := congrArg GCore.consumers hg
  have hc3 := incRpGens_consumers h3
  have hc4 := incConsGens_consumers h4 (by rw [hc3, hc2]; exact hn) (firstByKey_nodup _)
  refine ⟨?w, ?h⟩
  case h => simp only [deleteConsumersIfNoAllocs, hc4, hc3, hc2]; rfl

theorem ConsAttrOnly.trans {a b c : DB R} (h1 : ConsAttrOnly a b) (h2 : ConsAttrOnly b c) : ConsAttrOnly a c := by
  obtain ⟨f1, hf1, hg1⟩ := h1
  obtain ⟨f2, hf2, hg2⟩ := h2
  refine ⟨f2 ∘ f1, ?_, ?_⟩
  · intro x
    exact ⟨(hf2 (f1 x)).1.trans (hf1 x).1, (hf2 (f1 x)).2.1.trans (hf1 x).2.1, (hf2 (f1 x)).2.2.trans (hf1 x).2.2⟩
  · rw [hg2]
    have e1 : b.rps = a.rps := congrArg GCore.rps hg1
    have e2 : b.nextRp = a.nextRp := congrArg GCore.nextRp hg1
    have e3 : b.consumers = a.consumers.map f1 := congrArg GCore.consumers hg1
    have e4 : b.nextCons = a.nextCons := congrArg GCore.nextCons hg1
    rw [e1, e2, e3, e4, List.map_map]

theorem updateConsumers_attrOnly : ∀ (l : List (ConsumerReq × ConsRow × ReqAttr)) (db : DB R),
    ConsAttrOnly db (updateConsumers db l)
  | [], db => ConsAttrOnly.refl db
  | (_, cons, attr) :: rest, db => by
    rw [updateConsumers]
    exact (updateConsumer_spec db cons attr).trans (updateConsumers_attrOnly rest _)

/-! ### what `inspect_consumers` hands on -/

/-- `db` is the state `db0` at the start of the request plus consumer rows created since (generation 0,
uuids not known to `db0`); every triple collected so far carries the row stored for its consumer and
that row has the generation the consumer had in `db0` (0 if it did not exist) -/
structure InspInv (db0 db : DB R) (acc : List (ConsumerReq × ConsRow × ReqAttr)) : Prop where
  uuid : (db.consumers.map (·.uuid)).Nodup
  ext : ∃ extra, db.consumers = db0.consumers ++ extra
  old : ∀ x ∈ db.consumers, db0.consByUuid x.uuid = some x ∨ (db0.consByUuid x.uuid = none ∧ x.gen = 0)
  trip : ∀ t ∈ acc, t.2.1 ∈ db.consumers ∧ t.2.1.uuid = t.1.uuid ∧
           t.2.1.gen = ((db0.consByUuid t.1.uuid).map (·.gen)).getD 0

theorem find_uuid_of_mem {t : List ConsRow} (hn : (t.map (·.uuid)).Nodup) {x : ConsRow} (hx : x ∈ t) :
    t.find? (·.uuid == x.uuid) = some x := by
  cases h : t.find? (·.uuid == x.uuid) with
  | none => have := List.find?_eq_none.mp h x hx; simp at this
  | some y =>
    have hy := List.mem_of_find?_eq_some h
    have hu : y.uuid = x.uuid := by simpa using List.find?_some h
    rw [eq_of_nodup_uuid hn y hy x hx hu]

theorem InspInv.init {db0 : DB R} (hn : (db0.consumers.map (·.uuid)).Nodup) : InspInv db0 db0 [] :=
  ⟨hn, ⟨[], by simp⟩, fun x hx => .inl (find_uuid_of_mem hn hx), fun t ht => by cases ht⟩

theorem inspectConsumers_inv (cfg : Config) (mv : Nat) (db0 : DB R) :
    ∀ (cs : List ConsumerReq) (db : DB R) acc created {db1 : DB R} {triples created'},
      InspInv db0 db acc → inspectConsumers cfg mv db cs acc created = (db1, .ok (triples, created')) →
      InspInv db0 db1 triples
  | [], db, acc, created, db1, triples, created', hinv, h => by
    simp only [inspectConsumers, Prod.mk.injEq, Except.ok.injEq] at h
    obtain ⟨rfl, rfl, -⟩ := h; exact hinv
  | c :: cs, db, acc, created, db1, triples, created', hinv, h => by
    have hspec := ensureConsumer_spec cfg db mv c
    unfold inspectConsumers at h
    split at h
    · simp only [Prod.mk.injEq, reduceCtorEq, and_false] at h
    · rename_i dbE cons isNew attr heq
      rw [heq] at hspec
      refine inspectConsumers_inv cfg mv db0 cs dbE _ _ ?_ h
      rcases hspec with ⟨hg, hok⟩ | ⟨hnone, row, attr', hok, -, huuid, hgen, hg⟩
      · obtain ⟨-, hfound⟩ := hok cons isNew attr rfl
        have hc : dbE.consumers = db.consumers := congrArg GCore.consumers hg
        obtain ⟨hm, hu⟩ := consByUuid_some hfound
        refine ⟨by rw [hc]; exact hinv.uuid, by rw [hc]; exact hinv.ext, by rw [hc]; exact hinv.old, ?_⟩
        intro t ht
        rcases List.mem_append.mp ht with ht | ht
        · rw [hc]; exact hinv.trip t ht
        · rw [List.mem_singleton.mp ht, hc]
          refine ⟨hm, hu, ?_⟩
          rcases hinv.old cons hm with h0 | ⟨h0, hz⟩
          · rw [← hu, h0]; rfl
          · rw [← hu, h0, hz]; rfl
      · simp only [Except.ok.injEq, Prod.mk.injEq] at hok
        obtain ⟨rfl, -, -⟩ := hok
        have hc : dbE.consumers = db.consumers ++ [cons] := congrArg GCore.consumers hg
        have hfresh : ∀ x ∈ db.consumers, x.uuid ≠ c.uuid := by
          intro x hx hxe
          have := List.find?_eq_none.mp hnone x hx
          simp [hxe] at this
        have h0none : db0.consByUuid c.uuid = none := by
          cases h0 : db0.consByUuid c.uuid with
          | none => rfl
          | some x0 =>
            obtain ⟨hx0, hu0⟩ := consByUuid_some h0
            obtain ⟨extra, he⟩ := hinv.ext
            exact absurd hu0 (hfresh x0 (by rw [he]; exact List.mem_append_left _ hx0))
        refine ⟨?_, ?_, ?_, ?_⟩
        · rw [hc, List.map_append, List.nodup_append]
          refine ⟨hinv.uuid, by simp, ?_⟩
          intro a ha b hb
          obtain ⟨x, hx, rfl⟩ := List.mem_map.mp ha
          simp only [List.map_cons, List.map_nil, List.mem_singleton] at hb
          rw [hb, huuid]; exact hfresh x hx
        · obtain ⟨extra, he⟩ := hinv.ext
          exact ⟨extra ++ [cons], by rw [hc, he, List.append_assoc]⟩
        · intro x hx
          rw [hc] at hx
          rcases List.mem_append.mp hx with hx | hx
          · exact hinv.old x hx
          · rw [List.mem_singleton.mp hx, huuid]; exact .inr ⟨h0none, hgen⟩
        · intro t ht
          rcases List.mem_append.mp ht with ht | ht
          · obtain ⟨h1, h2, h3⟩ := hinv.trip t ht
            exact ⟨by rw [hc]; exact List.mem_append_left _ h1, h2, h3⟩
          · rw [List.mem_singleton.mp ht, hc]
            exact ⟨List.mem_append_right _ (List.mem_singleton.mpr rfl), huuid, by rw [h0none, hgen]; rfl⟩

/-- the common part of POST /allocations and POST /reshaper: from the collected triples through
`update_consumers` and `_set_allocations` to a final removal of consumer rows -/
theorem cons_bump_core {db0 db1 dbX dbY res : DB R} {triples : List (ConsumerReq × ConsRow × ReqAttr)}
    {objs objs' : List AllocReq}
    (hinv : InspInv db0 db1 triples) (hids : (db1.consumers.map (·.id)).Nodup)
    (hX : dbX.consumers = (updateConsumers db1 triples).consumers)
    (hobj : allocObjectsAll db1 triples = .ok objs)
    (hobjs' : objs'.map (fun a => (a.consId, a.consGen)) = objs.map (fun a => (a.consId, a.consGen)))
    (hset : setAllocations dbX objs' = .ok dbY)
    (hres : ∃ q, res.consumers = dbY.consumers.filter q) :
    ∀ t ∈ triples, t.1.allocs ≠ [] →
      res.consByUuid t.1.uuid = none ∨
      ∃ row, res.consByUuid t.1.uuid = some row ∧
        row.gen = (((db0.consByUuid t.1.uuid).map (·.gen)).getD 0) + 1 := by
  intro t ht hne
  obtain ⟨F, hF, hg⟩ := updateConsumers_attrOnly triples db1
  have hc2 : (updateConsumers db1 triples).consumers = db1.consumers.map F := congrArg GCore.consumers hg
  have hidsX : (dbX.consumers.map (·.id)).Nodup := by
    rw [hX, hc2, List.map_map]
    have : ((fun x => x.id) ∘ F) = (fun x : ConsRow => x.id) := funext fun x => (hF x).1
    rw [this]; exact hids
  obtain ⟨p, hY⟩ := setAllocations_consumers_all hset hidsX
  obtain ⟨q, hq⟩ := hres
  obtain ⟨hcm, hcu, hcg⟩ := hinv.trip t ht
  obtain ⟨o, ho, hsub⟩ := allocObjectsAll_mem hobj t ht
  obtain ⟨-, hcons, honil⟩ := allocObjects_nonempty ho hne
  -- the consumer of `t` is among the CAS keys
  have hkey : t.2.1.id ∈ (firstByKey (objs'.map (fun a => (a.consId, a.consGen)))).map (·.1) := by
    rw [firstByKey_keys, hobjs', List.map_map]
    cases o with
    | nil => exact absurd rfl honil
    | cons x rest =>
      have hx : x ∈ x :: rest := List.mem_cons_self ..
      exact List.mem_map.mpr ⟨x, hsub x hx, (hcons x hx).1⟩
  cases hfind : res.consByUuid t.1.uuid with
  | none => exact .inl rfl
  | some row =>
    refine .inr ⟨row, rfl, ?_⟩
    obtain ⟨hm, hu⟩ := consByUuid_some hfind
    rw [hq, hY, hX, hc2] at hm
    have hm2 := (List.mem_filter.mp (List.mem_filter.mp hm).1).1
    simp only [bumpAllCons] at hm2
    obtain ⟨c2, hc2m, rfl⟩ := List.mem_map.mp hm2
    obtain ⟨c1, hc1m, rfl⟩ := List.mem_map.mp hc2m
    have hu1 : c1.uuid = t.1.uuid := by
      rw [← (hF c1).2.2]
      have : (if ((firstByKey (objs'.map (fun a => (a.consId, a.consGen)))).map (·.1)).contains (F c1).id
              then { F c1 with gen := (F c1).gen + 1 } else F c1).uuid = (F c1).uuid := by
        split <;> rfl
      rw [← this]; exact hu
    have : c1 = t.2.1 := eq_of_nodup_uuid hinv.uuid c1 hc1m t.2.1 hcm (hu1.trans hcu.symm)
    subst this
    have hk : ((firstByKey (objs'.map (fun a => (a.consId, a.consGen)))).map (·.1)).contains (F t.2.1).id = true := by
      rw [(hF t.2.1).1]; exact List.contains_iff_mem.mpr hkey
    rw [hk]
    simp only [↓reduceIte]
    rw [(hF t.2.1).2.1, hcg]

/-- After a successful `POST /allocations` every consumer entry with a non-empty body is one
generation further than before (new consumers end at 1), or its record is gone. -/
theorem allocPost_bumps_consumers (cfg : Config) {db : DB R} (hI : Ids db.gcore)
    (hU : (db.consumers.map (·.uuid)).Nodup) {mv : Nat} {cs : List ConsumerReq}
    (h : (hAllocPost cfg db mv cs).2.ok = true) :
    ∀ c ∈ cs, c.allocs ≠ [] →
      (hAllocPost cfg db mv cs).1.consByUuid c.uuid = none ∨
      ∃ row, (hAllocPost cfg db mv cs).1.consByUuid c.uuid = some row ∧
        row.gen = (((db.consByUuid c.uuid).map (·.gen)).getD 0) + 1 := by
  rcases hAllocPost_cases cfg db mv cs with ⟨db1, triples, created, objs, db3, hins, hobj, h3, hres⟩ | hst
  · intro c hc hne
    have hinv := inspectConsumers_inv cfg mv db cs db [] [] (InspInv.init hU) hins
    have fI : Frame db.gcore db1.gcore := by
      have := inspectConsumers_frame cfg mv cs db [] [] hI
      rwa [hins] at this
    obtain ⟨new, hn, hm⟩ := inspectConsumers_triples cfg mv cs db [] [] hins
    rw [List.nil_append] at hn; subst hn
    obtain ⟨t, ht, rfl⟩ : ∃ t ∈ triples, t.1 = c := by
      rw [← hm] at hc; obtain ⟨t, ht, rfl⟩ := List.mem_map.mp hc; exact ⟨t, ht, rfl⟩
    rw [hres]
    exact cons_bump_core hinv fI.ids.consNodup rfl hobj rfl h3 ⟨_, rfl⟩ t ht hne
  · exact ok_false_of_400 h hst

/-! ### reshaper: the inventory phases leave the consumer table alone -/

theorem setInventory_consumers {db db' : DB R} {rp gen : Nat} {invs : List (InvSpec R)}
    (h : setInventory db rp gen invs = .ok db') : db'.consumers = db.consumers := by
  obtain ⟨db0, hg, hc⟩ := setInventory_ok h
  exact (cas_rps hg hc).2.1

theorem reshapeInterim_consumers : ∀ (l : List (Nat × List (InvSpec R))) (gens : List (Nat × Nat))
    {db db' : DB R} {gens' : List (Nat × Nat)},
    reshapeInterim db l gens = .ok (db', gens') → db'.consumers = db.consumers
  | [], gens, db, db', gens', h => by
    simp only [reshapeInterim, Except.ok.injEq, Prod.mk.injEq] at h
    rw [← h.1]
  | (rp, newInvs) :: rest, gens, db, db', gens', h => by
    rw [reshapeInterim] at h
    split at h
    · exact reshapeInterim_consumers rest gens h
    · dsimp only at h
      split at h
      · cases h
      · rename_i db1 h1
        exact (reshapeInterim_consumers rest _ h).trans (setInventory_consumers h1)

theorem reshapeFinal_consumers : ∀ (l : List (Nat × List (InvSpec R))) (gens : List (Nat × Nat))
    {db db' : DB R}, reshapeFinal db l gens = .ok db' → db'.consumers = db.consumers
  | [], gens, db, db', h => by
    simp only [reshapeFinal, Except.ok.injEq] at h
    rw [← h]
  | (rp, newInvs) :: rest, gens, db, db', h => by
    rw [reshapeFinal] at h
    split at h
    · cases h
    · rename_i db1 h1
      exact (reshapeFinal_consumers rest _ h).trans (setInventory_consumers h1)

/-- the same decomposition as `reshapeTxn_ok`, keeping the consumer columns of the allocation objects -/
theorem reshapeTxn_ok' {db db' : DB R} {invs : List (Nat × Nat × List (InvSpec R))} {objs : List AllocReq}
    (h : reshapeTxn db invs objs = .ok db') :
    ∃ (dbA dbB : DB R) (gens0 gens1 gens2 : List (Nat × Nat)) (objs' : List AllocReq),
      reshapeInterim db (invs.map (fun t => (t.1, t.2.2))) gens0 = .ok (dbA, gens1) ∧
      objs'.map (fun a => (a.consId, a.consGen)) = objs.map (fun a => (a.consId, a.consGen)) ∧
      setAllocations dbA objs' = .ok dbB ∧
      reshapeFinal dbB (invs.map (fun t => (t.1, t.2.2))) gens2 = .ok db' := by
  unfold reshapeTxn at h
  simp only [bind, Except.bind] at h
  split at h
  · cases h
  · rename_i v h1
    obtain ⟨dbA, gens1⟩ := v
    dsimp only at h
    split at h
    · cases h
    · rename_i dbB h2
      exact ⟨dbA, dbB, _, gens1, _, _, h1, by simp [List.map_map, Function.comp], h2, h⟩

/-- After a successful `POST /reshaper` every consumer entry with a non-empty body is one generation
further than before, or its record is gone. -/
theorem reshape_bumps_consumers (cfg : Config) {db : DB R} (hI : Ids db.gcore)
    (hU : (db.consumers.map (·.uuid)).Nodup) {mv : Nat} {invs : List (RpInvReq R)} {cs : List ConsumerReq}
    (h : (hReshape cfg db mv invs cs).2.ok = true) :
    ∀ c ∈ cs, c.allocs ≠ [] →
      (hReshape cfg db mv invs cs).1.consByUuid c.uuid = none ∨
      ∃ row, (hReshape cfg db mv invs cs).1.consByUuid c.uuid = some row ∧
        row.gen = (((db.consByUuid c.uuid).map (·.gen)).getD 0) + 1 := by
  rcases hReshape_cases cfg db mv invs cs with ⟨rinvs, db1, triples, created, objs, db3, hins, hobj, h3, hres⟩ | hst
  · intro c hc hne
    have hinv := inspectConsumers_inv cfg mv db cs db [] [] (InspInv.init hU) hins
    have fI : Frame db.gcore db1.gcore := by
      have := inspectConsumers_frame cfg mv cs db [] [] hI
      rwa [hins] at this
    obtain ⟨new, hn, hm⟩ := inspectConsumers_triples cfg mv cs db [] [] hins
    rw [List.nil_append] at hn; subst hn
    obtain ⟨t, ht, rfl⟩ : ∃ t ∈ triples, t.1 = c := by
      rw [← hm] at hc; obtain ⟨t, ht, rfl⟩ := List.mem_map.mp hc; exact ⟨t, ht, rfl⟩
    obtain ⟨dbA, dbB, gens0, gens1, gens2, objs', hA, hobjs', hB, hC⟩ := reshapeTxn_ok' h3
    rw [hres]
    refine cons_bump_core (dbX := dbA) (dbY := dbB) hinv fI.ids.consNodup (reshapeInterim_consumers _ _ hA)
      hobj hobjs' hB ⟨fun c => !(createdEmpty triples created).contains c.id, ?_⟩ t ht hne
    show (db3.consumers.filter _) = _
    rw [reshapeFinal_consumers _ _ hC]
  · exact ok_false_of_400 h hst

end Placement.Gens
