import Placement.Lemmas.WfAllocH
/-
  `Uniq`, `RI`, `AllocPos` hold initially, are preserved by every well-formed request (`step`), hence hold
  in every state reachable by well-formed requests (`ReachWF`).
-/
namespace Placement.Wf
variable {R : Type}

/-! ### the synchronised empty database -/

theorem wfi_init {stdRcs stdTraits : List Nat} (h1 : stdRcs.Nodup) (h2 : stdTraits.Nodup) :
    WFI (initDb stdRcs stdTraits : DB R) := by
  have e1 : ((stdRcs.zipIdx.map (fun (n, i) => (i, n))).map (·.1)) = List.range' 0 stdRcs.length := by
    rw [List.map_map, ← List.zipIdx_map_snd 0 stdRcs]
    exact List.map_congr_left (fun _ _ => rfl)
  have e2 : ((stdRcs.zipIdx.map (fun (n, i) => (i, n))).map (·.2)) = stdRcs := by
    rw [List.map_map]
    conv => rhs; rw [← List.zipIdx_map_fst 0 stdRcs]
    exact List.map_congr_left (fun _ _ => rfl)
  refine ⟨?_, ?_, ?_, ?_⟩
  · exact {
      rpId := List.nodup_nil, rpUuid := List.nodup_nil, rpName := List.nodup_nil, inv := List.nodup_nil
      consId := List.nodup_nil, consUuid := List.nodup_nil
      rcId := by show ((stdRcs.zipIdx.map (fun (n, i) => (i, n))).map (·.1)).Nodup; rw [e1]; exact List.nodup_range'
      rcName := by show ((stdRcs.zipIdx.map (fun (n, i) => (i, n))).map (·.2)).Nodup; rw [e2]; exact h1
      traits := h2, rpTraits := List.nodup_nil, rpAggs := List.nodup_nil, aggs := List.nodup_nil
      freshRp := fun r hr => by simp [initDb] at hr
      freshCons := fun r hr => by simp [initDb] at hr }
  · constructor <;> intro x hx <;> simp [initDb] at hx
  · exact List.nodup_nil
  · intro x hx; simp [initDb] at hx

/-! ### one request -/

variable [CapOps R]

theorem wfi_step {cfg : Config} {db : DB R} (h : WFI db) (op : Op R) (hwf : OpWF op) : WFI (step cfg db op).1 := by
  cases op with
  | rpCreate mv u n p => exact wfi_hRpCreate h mv u n p
  | rpUpdate mv u n p => exact wfi_hRpUpdate h mv u n p
  | rpDelete u => exact wfi_hRpDelete h u
  | invSet mv u g is => exact wfi_hInvSet h mv u g is
  | invAdd mv u i => exact wfi_hInvAdd h mv u i
  | invUpdate mv u g i => exact wfi_hInvUpdate h mv u g i
  | invDelete u rc => exact wfi_hInvDelete h u rc
  | invDeleteAll mv u => exact wfi_hInvDeleteAll h mv u
  | traitPut n => exact wfi_hTraitPut h n
  | traitDelete n => exact wfi_hTraitDelete h n
  | rpTraitsSet u g ts => exact wfi_hRpTraitsSet h u g ts
  | rpTraitsDelete u => exact wfi_hRpTraitsDelete h u
  | rcPost n => exact wfi_hRcPost h n
  | rcPut n => exact wfi_hRcPut h n
  | rcRename o n => exact wfi_hRcRename h o n
  | rcDelete n => exact wfi_hRcDelete h n
  | aggsSet mv u g as => exact wfi_hAggsSet h mv u g as
  | allocPut mv c => exact wfi_hAllocPut h mv c hwf
  | allocPost mv cs => exact wfi_hAllocPost h mv cs hwf
  | allocDelete c => exact wfi_hAllocDelete h c
  | reshape mv invs cs => exact wfi_hReshape h mv invs cs hwf

omit [CapOps R] in
theorem wfi_of {db : DB R} (hU : Uniq db) (hR : RI db) (hP : AllocPos db) : WFI db :=
  ⟨hU.toC, hR, (uniq_iff.1 hU).2, hP⟩

theorem uniq_step {cfg : Config} {db : DB R} (hU : Uniq db) (hR : RI db) (hP : AllocPos db) (op : Op R)
    (hwf : OpWF op) : Uniq (step cfg db op).1 := (wfi_step (wfi_of hU hR hP) op hwf).toUniq

theorem ri_step {cfg : Config} {db : DB R} (hU : Uniq db) (hR : RI db) (hP : AllocPos db) (op : Op R)
    (hwf : OpWF op) : RI (step cfg db op).1 := (wfi_step (wfi_of hU hR hP) op hwf).ri

theorem allocPos_step {cfg : Config} {db : DB R} (hU : Uniq db) (hR : RI db) (hP : AllocPos db) (op : Op R)
    (hwf : OpWF op) : AllocPos (step cfg db op).1 := (wfi_step (wfi_of hU hR hP) op hwf).pos

/-! ### reachability by well-formed requests -/

/-- `Reach` of `Spec/Inv.lean` restricted to requests that are well-formed in the sense of `OpWF`
(what a JSON object that passed the schema can express) -/
inductive ReachWF (cfg : Config) (stdRcs stdTraits : List Nat) : DB R → Prop
  | init : ReachWF cfg stdRcs stdTraits (initDb stdRcs stdTraits)
  | step (db : DB R) (op : Op R) : ReachWF cfg stdRcs stdTraits db → OpWF op →
      ReachWF cfg stdRcs stdTraits (Placement.step cfg db op).1

theorem ReachWF.reach {cfg : Config} {stdRcs stdTraits : List Nat} {db : DB R}
    (h : ReachWF cfg stdRcs stdTraits db) : Reach cfg stdRcs stdTraits db := by
  induction h with
  | init => exact .init
  | step db op _ _ ih => exact .step db op ih

theorem reach_wfi {cfg : Config} {stdRcs stdTraits : List Nat} (h1 : stdRcs.Nodup) (h2 : stdTraits.Nodup)
    {db : DB R} (h : ReachWF cfg stdRcs stdTraits db) : WFI db := by
  induction h with
  | init => exact wfi_init h1 h2
  | step db op _ hwf ih => exact wfi_step ih op hwf

omit [CapOps R] in
theorem uniq_init {stdRcs stdTraits : List Nat} (h1 : stdRcs.Nodup) (h2 : stdTraits.Nodup) :
    Uniq (initDb stdRcs stdTraits : DB R) := (wfi_init h1 h2).toUniq

omit [CapOps R] in
theorem ri_init {stdRcs stdTraits : List Nat} (h1 : stdRcs.Nodup) (h2 : stdTraits.Nodup) :
    RI (initDb stdRcs stdTraits : DB R) := (wfi_init h1 h2).ri

theorem reach_uniq {cfg : Config} {stdRcs stdTraits : List Nat} (h1 : stdRcs.Nodup) (h2 : stdTraits.Nodup)
    {db : DB R} (h : ReachWF cfg stdRcs stdTraits db) : Uniq db := (reach_wfi h1 h2 h).toUniq

theorem reach_ri {cfg : Config} {stdRcs stdTraits : List Nat} (h1 : stdRcs.Nodup) (h2 : stdTraits.Nodup)
    {db : DB R} (h : ReachWF cfg stdRcs stdTraits db) : RI db := (reach_wfi h1 h2 h).ri

theorem reach_allocPos {cfg : Config} {stdRcs stdTraits : List Nat} (h1 : stdRcs.Nodup) (h2 : stdTraits.Nodup)
    {db : DB R} (h : ReachWF cfg stdRcs stdTraits db) : AllocPos db := (reach_wfi h1 h2 h).pos

end Placement.Wf
