import Placement.Lemmas.WfCons
/-
  Well-formed requests (`Op.WF`), the allocation objects built from a request, and the summary
  `AllocTxn` of what the main write transaction (`_set_allocations`, reshape) does to allocations
  and consumers.
-/
namespace Placement.Wf
variable {R : Type}

/-! ### well-formed requests -/

/-- JSON object semantics + schema of one consumer entry: a (provider, class) pair occurs once,
amounts are at least 1 -/
def ConsumerReqWF (c : ConsumerReq) : Prop :=
  (c.allocs.map (fun a => (a.1, a.2.1))).Nodup ∧ ∀ a ∈ c.allocs, 1 ≤ a.2.2

instance (c : ConsumerReq) : Decidable (ConsumerReqWF c) := by unfold ConsumerReqWF; exact inferInstance

/-- well-formedness of a request as far as the invariants need it: consumer uuids are the keys of a
JSON object (POST /allocations, POST /reshaper), each entry is well-formed -/
def OpWF : Op R → Prop
  | .allocPut _ c => ConsumerReqWF c
  | .allocPost _ cs => (cs.map (·.uuid)).Nodup ∧ ∀ c ∈ cs, ConsumerReqWF c
  | .reshape _ _ cs => (cs.map (·.uuid)).Nodup ∧ ∀ c ∈ cs, ConsumerReqWF c
  | _ => True

instance (op : Op R) : Decidable (OpWF op) := by
  cases op <;> unfold OpWF <;> exact inferInstance

/-! ### allocation objects -/

theorem rpByUuid_inj {db : DB R} (hU : UniqC db) {u1 u2 : Nat} {r1 r2 : RpRow}
    (h1 : db.rpByUuid u1 = some r1) (h2 : db.rpByUuid u2 = some r2) (e : r1.id = r2.id) : u1 = u2 := by
  obtain ⟨m1, e1⟩ := hasRp_of_rpByUuid h1
  obtain ⟨m2, e2⟩ := hasRp_of_rpByUuid h2
  have := L.eq_of_key_eq hU.rpId m1 m2 e
  subst this
  exact e1.symm.trans e2

/-- the allocation object of one body entry -/
def objOf (db : DB R) (cons : ConsRow) (a : Nat × Nat × Int) : Option AllocReq :=
  (db.rpByUuid a.1).map (fun rp =>
    { rpId := rp.id, rpGen := rp.gen, rcName := a.2.1, consId := cons.id, consUuid := cons.uuid,
      consGen := cons.gen, used := a.2.2 })

theorem allocObjects_nonempty {db : DB R} {cons : ConsRow} {c : ConsumerReq} {objs : List AllocReq}
    (h : allocObjects db cons c = .ok objs) (hne : c.allocs.isEmpty = false) :
    objs = c.allocs.filterMap (objOf db cons) ∧ (∀ a ∈ c.allocs, (db.rpByUuid a.1).isSome) ∧ objs ≠ [] := by
  unfold allocObjects at h
  rw [hne] at h
  simp only [Bool.false_eq_true, if_false] at h
  split at h
  · cases h
  · next hn =>
    injection h with h
    have hall : ∀ a ∈ c.allocs, (db.rpByUuid a.1).isSome := by
      intro a ha
      simp only [List.any_eq_true, not_exists, not_and] at hn
      have := hn a ha
      cases hh : db.rpByUuid a.1 <;> simp_all
    refine ⟨h.symm, hall, ?_⟩
    subst h
    cases hl : c.allocs with
    | nil => simp [hl] at hne
    | cons a as =>
      have := hall a (by rw [hl]; exact List.mem_cons_self)
      cases hh : db.rpByUuid a.1 with
      | none => simp [hh] at this
      | some rp => simp [hh]

theorem allocObjects_empty {db : DB R} {cons : ConsRow} {c : ConsumerReq} {objs : List AllocReq}
    (h : allocObjects db cons c = .ok objs) (he : c.allocs.isEmpty = true) :
    (∀ o ∈ objs, o.used = 0 ∧ o.consUuid = cons.uuid ∧ ∃ a ∈ db.allocs, a.consumer = cons.uuid) := by
  unfold allocObjects at h
  rw [he] at h
  simp only [if_true] at h
  split at h
  · injection h with h; subst h; simp
  · next cur hcur =>
    injection h with h; subst h
    intro o ho
    obtain ⟨a, ha, hf⟩ := List.mem_filterMap.1 ho
    have ha' := List.mem_filter.1 ha
    split at hf
    · injection hf with hf; subst hf
      exact ⟨rfl, (mem_of_consByUuid hcur).2, a, ha'.1, by simpa using ha'.2⟩
    · cases hf

/-- an existing consumer that holds allocations yields at least one (zero-amount) object for an empty entry -/
theorem allocObjects_empty_ne {db : DB R} {cons : ConsRow} {c : ConsumerReq} {objs : List AllocReq}
    (hR : RI db) (h : allocObjects db cons c = .ok objs) (he : c.allocs.isEmpty = true)
    (hc : ∃ x ∈ db.consumers, x.uuid = cons.uuid) (ha : ∃ a ∈ db.allocs, a.consumer = cons.uuid) : objs ≠ [] := by
  unfold allocObjects at h
  rw [he] at h
  simp only [if_true] at h
  split at h
  · next hn =>
    obtain ⟨x, hx, e⟩ := hc
    exact absurd e (consByUuid_none hn x hx)
  · next cur hcur =>
    injection h with h; subst h
    obtain ⟨a, ha, e⟩ := ha
    obtain ⟨r, hr, er⟩ := hR.allocRp a ha
    obtain ⟨i, hi, ei1, ei2⟩ := hR.allocInv a ha
    obtain ⟨p, hp, ep⟩ := hR.invRc i hi
    have h1 : (db.rpById a.rp).isSome := by
      unfold DB.rpById
      rw [List.find?_isSome]
      exact ⟨r, hr, by simpa using er⟩
    have h2 : (db.rcName a.rc).isSome := by
      unfold DB.rcName
      rw [Option.isSome_map, List.find?_isSome]
      exact ⟨p, hp, by simpa using ep.trans ei2⟩
    intro hnil
    have hm : a ∈ db.allocs.filter (·.consumer == cons.uuid) := List.mem_filter.2 ⟨ha, by simpa using e⟩
    cases h3 : db.rpById a.rp with
    | none => simp [h3] at h1
    | some rp =>
      cases h4 : db.rcName a.rc with
      | none => simp [h4] at h2
      | some n =>
        have := List.filterMap_eq_nil_iff.1 hnil a hm
        simp [h3, h4] at this

theorem allocObjects_consUuid {db : DB R} {cons : ConsRow} {c : ConsumerReq} {objs : List AllocReq}
    (h : allocObjects db cons c = .ok objs) : ∀ o ∈ objs, o.consUuid = cons.uuid := by
  cases he : c.allocs.isEmpty with
  | true => exact fun o ho => (allocObjects_empty h he o ho).2.1
  | false =>
    obtain ⟨rfl, -, -⟩ := allocObjects_nonempty h he
    intro o ho
    obtain ⟨a, -, hf⟩ := List.mem_filterMap.1 ho
    unfold objOf at hf
    cases hh : db.rpByUuid a.1 <;> simp [hh] at hf
    subst hf; rfl

theorem allocObjects_nonneg {db : DB R} {cons : ConsRow} {c : ConsumerReq} {objs : List AllocReq}
    (hwf : ConsumerReqWF c) (h : allocObjects db cons c = .ok objs) : ∀ o ∈ objs, 0 ≤ o.used := by
  cases he : c.allocs.isEmpty with
  | true => exact fun o ho => by rw [(allocObjects_empty h he o ho).1]; exact Int.le_refl 0
  | false =>
    obtain ⟨rfl, -, -⟩ := allocObjects_nonempty h he
    intro o ho
    obtain ⟨a, ha, hf⟩ := List.mem_filterMap.1 ho
    unfold objOf at hf
    cases hh : db.rpByUuid a.1 <;> simp [hh] at hf
    subst hf
    have := hwf.2 a ha
    show 0 ≤ a.2.2
    omega

theorem allocObjects_distinct {db : DB R} {cons : ConsRow} {c : ConsumerReq} {objs : List AllocReq}
    (hU : UniqC db) (hwf : ConsumerReqWF c) (h : allocObjects db cons c = .ok objs) :
    objs.Pairwise (fun a b => a.used ≠ 0 → b.used ≠ 0 →
      (a.rpId, a.rcName, a.consUuid) ≠ (b.rpId, b.rcName, b.consUuid)) := by
  cases he : c.allocs.isEmpty with
  | true =>
    refine List.pairwise_of_forall_mem_list ?_
    intro a ha b _ h0
    exact absurd (allocObjects_empty h he a ha).1 h0
  | false =>
    obtain ⟨rfl, -, -⟩ := allocObjects_nonempty h he
    refine List.Pairwise.filterMap _ ?_ (L.nodup_map_iff_pairwise.1 hwf.1)
    intro a b hab x hx y hy _ _ e
    unfold objOf at hx hy
    cases h1 : db.rpByUuid a.1 <;> simp [h1] at hx
    cases h2 : db.rpByUuid b.1 <;> simp [h2] at hy
    subst hx hy
    simp only [Prod.mk.injEq] at e
    exact hab (by rw [Prod.mk.injEq]; exact ⟨rpByUuid_inj hU h1 h2 e.1, e.2.1⟩)

theorem allocObjectsAll_ok {db : DB R} : ∀ {triples : List (ConsumerReq × ConsRow × ReqAttr)} {objs : List AllocReq},
    allocObjectsAll db triples = .ok objs →
      (∀ o ∈ objs, ∃ t ∈ triples, ∃ os, allocObjects db t.2.1 t.1 = .ok os ∧ o ∈ os) ∧
      (∀ t ∈ triples, ∃ os, allocObjects db t.2.1 t.1 = .ok os ∧ ∀ o ∈ os, o ∈ objs)
  | [], objs, h => by
    simp [allocObjectsAll] at h; subst h; simp
  | (c, cons, attr) :: rest, objs, h => by
    unfold allocObjectsAll at h
    simp only [bind, Except.bind, pure, Except.pure] at h
    split at h
    · cases h
    · next a ha =>
      split at h
      · cases h
      · next b hb =>
        injection h with h; subst h
        obtain ⟨ih1, ih2⟩ := allocObjectsAll_ok hb
        constructor
        · intro o ho
          rcases List.mem_append.1 ho with ho | ho
          · exact ⟨_, List.mem_cons_self, a, ha, ho⟩
          · obtain ⟨t, ht, os, h1, h2⟩ := ih1 o ho
            exact ⟨t, List.mem_cons_of_mem _ ht, os, h1, h2⟩
        · intro t ht
          rcases List.mem_cons.1 ht with rfl | ht
          · exact ⟨a, ha, fun o ho => List.mem_append_left _ ho⟩
          · obtain ⟨os, h1, h2⟩ := ih2 t ht
            exact ⟨os, h1, fun o ho => List.mem_append_right _ (h2 o ho)⟩

theorem allocObjectsAll_distinct {db : DB R} (hU : UniqC db) :
    ∀ {triples : List (ConsumerReq × ConsRow × ReqAttr)} {objs : List AllocReq},
    (∀ t ∈ triples, ConsumerReqWF t.1) → triples.Pairwise (fun s t => s.2.1.uuid ≠ t.2.1.uuid) →
    allocObjectsAll db triples = .ok objs →
      objs.Pairwise (fun a b => a.used ≠ 0 → b.used ≠ 0 →
        (a.rpId, a.rcName, a.consUuid) ≠ (b.rpId, b.rcName, b.consUuid))
  | [], objs, _, _, h => by
    simp [allocObjectsAll] at h; subst h; simp
  | (c, cons, attr) :: rest, objs, hwf, hp, h => by
    unfold allocObjectsAll at h
    simp only [bind, Except.bind, pure, Except.pure] at h
    split at h
    · cases h
    · next a ha =>
      split at h
      · cases h
      · next b hb =>
        injection h with h; subst h
        rw [List.pairwise_cons] at hp
        rw [List.pairwise_append]
        refine ⟨allocObjects_distinct hU (hwf _ List.mem_cons_self) ha,
          allocObjectsAll_distinct hU (fun t ht => hwf t (List.mem_cons_of_mem _ ht)) hp.2 hb, ?_⟩
        intro x hx y hy _ _ e
        obtain ⟨t, ht, os, h1, h2⟩ := (allocObjectsAll_ok hb).1 y hy
        have e1 := allocObjects_consUuid ha x hx
        have e2 := allocObjects_consUuid h1 y h2
        simp only [Prod.mk.injEq] at e
        exact hp.1 t ht (by rw [← e1, ← e2]; exact e.2.2)

theorem allocObjectsAll_nonneg {db : DB R} {triples : List (ConsumerReq × ConsRow × ReqAttr)} {objs : List AllocReq}
    (hwf : ∀ t ∈ triples, ConsumerReqWF t.1) (h : allocObjectsAll db triples = .ok objs) :
    ∀ o ∈ objs, 0 ≤ o.used := by
  intro o ho
  obtain ⟨t, ht, os, h1, h2⟩ := (allocObjectsAll_ok h).1 o ho
  exact allocObjects_nonneg (hwf t ht) h1 o h2


/-! ### what the main write transaction does to allocations and consumers -/

/-- `db'` comes from `db` by replacing the allocations of the consumers named by `objs` with the
non-zero objects, and by removing named consumers that end up without allocations -/
structure AllocTxn (db db' : DB R) (objs : List AllocReq) : Prop where
  consSub : ∀ c' ∈ db'.consumers, ∃ c ∈ db.consumers, c.id = c'.id ∧ c.uuid = c'.uuid ∧
              c.project = c'.project ∧ c.user = c'.user ∧ c.ctype = c'.ctype
  origin : ∀ a ∈ db'.allocs, (a ∈ db.allocs ∧ ∀ o ∈ objs, o.consUuid ≠ a.consumer) ∨
              (∃ o ∈ objs, o.used ≠ 0 ∧ a.consumer = o.consUuid)
  kept : ∀ a ∈ db.allocs, (∀ o ∈ objs, o.consUuid ≠ a.consumer) → a ∈ db'.allocs
  fresh : ∀ o ∈ objs, o.used ≠ 0 → ∃ a ∈ db'.allocs, a.consumer = o.consUuid
  consKept : ∀ c ∈ db.consumers, ((∀ o ∈ objs, o.consUuid ≠ c.uuid) ∨ ∃ a ∈ db'.allocs, a.consumer = c.uuid) →
              ∃ c' ∈ db'.consumers, c'.id = c.id ∧ c'.uuid = c.uuid
  consGone : ∀ c' ∈ db'.consumers, (∃ o ∈ objs, o.consUuid = c'.uuid) → ∃ a ∈ db'.allocs, a.consumer = c'.uuid

variable [CapOps R]

theorem mem_toCheck {allocs : List AllocReq} {u : Nat} :
    u ∈ toCheck allocs ↔ (∃ o ∈ allocs, o.consUuid = u) ∧ ∀ o ∈ allocs, 0 < o.used → o.consUuid ≠ u := by
  unfold toCheck
  rw [List.mem_filter]
  simp only [List.mem_map, Bool.not_eq_eq_eq_not, Bool.not_true, List.contains_eq_mem, List.mem_filter,
    decide_eq_true_eq, decide_eq_false_iff_not, not_exists, not_and, and_imp, gt_iff_lt]

theorem allocTxn_setAllocations {db db' : DB R} {allocs : List AllocReq}
    (h : setAllocations db allocs = .ok db') : AllocTxn db db' allocs := by
  obtain ⟨db3, db4, -, -, h3, h4, rfl⟩ := setAllocations_ok h
  obtain ⟨g, rfl, -⟩ := incRpGens_ok h3
  obtain ⟨g', rfl, hg'⟩ := incConsGens_ok h4
  -- the allocations table of the result
  have hal : ∀ a : AllocRow, a ∈ (clearAllocs db allocs).allocs ++ allocs.filterMap (rowOf db) ↔
      (a ∈ db.allocs ∧ ∀ o ∈ allocs, o.consUuid ≠ a.consumer) ∨
      (∃ o ∈ allocs, o.used ≠ 0 ∧ rowOf db o = some a) := by
    intro a
    rw [List.mem_append]
    constructor
    · rintro (ha | ha)
      · have := List.mem_filter.1 ha
        refine Or.inl ⟨this.1, ?_⟩
        simpa using this.2
      · obtain ⟨o, ho, hf⟩ := List.mem_filterMap.1 ha
        refine Or.inr ⟨o, ho, ?_, hf⟩
        unfold rowOf at hf
        split at hf
        · cases hf
        · next hne => simpa using hne
    · rintro (⟨ha, hn⟩ | ⟨o, ho, -, hf⟩)
      · exact Or.inl (List.mem_filter.2 ⟨ha, by simpa using hn⟩)
      · exact Or.inr (List.mem_filterMap.2 ⟨o, ho, hf⟩)
  have hrow : ∀ o a, rowOf db o = some a → a.consumer = o.consUuid := by
    intro o a hf
    unfold rowOf at hf
    split at hf
    · cases hf
    · injection hf with hf; subst hf; rfl
  have hrow2 : ∀ o, o.used ≠ 0 → ∃ a, rowOf db o = some a := by
    intro o ho
    unfold rowOf
    rw [if_neg (by simpa using ho)]
    exact ⟨_, rfl⟩
  exact {
    consSub := by
      intro c' hc'
      have := (List.mem_filter.1 hc').1
      obtain ⟨c, hc, rfl⟩ := List.mem_map.1 this
      have := hg' c
      exact ⟨c, hc, this.1.symm, this.2.1.symm, this.2.2.1.symm, this.2.2.2.1.symm, this.2.2.2.2.symm⟩
    origin := by
      intro a ha
      rcases (hal a).1 ha with h1 | ⟨o, ho, h0, hf⟩
      · exact Or.inl h1
      · exact Or.inr ⟨o, ho, h0, hrow o a hf⟩
    kept := fun a ha hn => (hal a).2 (Or.inl ⟨ha, hn⟩)
    fresh := by
      intro o ho h0
      obtain ⟨a, hf⟩ := hrow2 o h0
      exact ⟨a, (hal a).2 (Or.inr ⟨o, ho, h0, hf⟩), hrow o a hf⟩
    consKept := by
      intro c hc hor
      refine ⟨g' c, List.mem_filter.2 ⟨List.mem_map.2 ⟨c, hc, rfl⟩, ?_⟩, (hg' c).1, (hg' c).2.1⟩
      simp only [Bool.not_eq_eq_eq_not, Bool.not_true, Bool.and_eq_false_imp, List.contains_eq_mem,
        decide_eq_true_eq, Bool.not_false, List.any_eq_true, beq_iff_eq, (hg' c).2.1]
      intro hm
      rcases hor with hn | ⟨a, ha, e⟩
      · obtain ⟨⟨o, ho, e⟩, -⟩ := mem_toCheck.1 hm
        exact absurd e (hn o ho)
      · exact ⟨a, ha, e⟩
    consGone := by
      intro c' hc' ⟨o, ho, e⟩
      have hq := (List.mem_filter.1 hc').2
      simp only [Bool.not_eq_eq_eq_not, Bool.not_true, Bool.and_eq_false_imp, List.contains_eq_mem,
        decide_eq_true_eq, Bool.not_false, List.any_eq_true, beq_iff_eq] at hq
      by_cases hpos : ∃ o' ∈ allocs, 0 < o'.used ∧ o'.consUuid = c'.uuid
      · obtain ⟨o', ho', hp, e'⟩ := hpos
        obtain ⟨a, hf⟩ := hrow2 o' (by omega)
        exact ⟨a, (hal a).2 (Or.inr ⟨o', ho', by omega, hf⟩), (hrow o' a hf).trans e'⟩
      · exact hq (mem_toCheck.2 ⟨⟨o, ho, e⟩, fun o' ho' hp e' => hpos ⟨o', ho', hp, e'⟩⟩) }


/-! ### reshape -/

omit [CapOps R] in
theorem setInventory_frame {db db' : DB R} {rp gen : Nat} {invs : List (InvSpec R)}
    (h : setInventory db rp gen invs = .ok db') :
    db'.allocs = db.allocs ∧ db'.consumers = db.consumers ∧ db'.rcs = db.rcs := by
  obtain ⟨these, -, -, h⟩ := setInventory_ok h
  rw [(incRpGen_ok h).1]
  exact ⟨rfl, rfl, rfl⟩

omit [CapOps R] in
theorem reshapeInterim_pres (P : DB R → Prop)
    (hP : ∀ (db db' : DB R) rp gen invs, P db → setInventory db rp gen invs = .ok db' → P db') :
    ∀ (l : List (Nat × List (InvSpec R))) (gens : List (Nat × Nat)) (db db' : DB R) (gens' : List (Nat × Nat)),
      reshapeInterim db l gens = .ok (db', gens') → P db → P db'
  | [], gens, db, db', gens', h, hp => by
    simp only [reshapeInterim, Except.ok.injEq, Prod.mk.injEq] at h
    rw [← h.1]; exact hp
  | (rp, newInvs) :: rest, gens, db, db', gens', h, hp => by
    unfold reshapeInterim at h
    split at h
    · exact reshapeInterim_pres P hP rest gens db db' gens' h hp
    · dsimp only at h
      split at h
      · cases h
      · next d hd => exact reshapeInterim_pres P hP rest _ d db' gens' h (hP _ _ _ _ _ hp hd)

omit [CapOps R] in
theorem reshapeFinal_pres (P : DB R → Prop)
    (hP : ∀ (db db' : DB R) rp gen invs, P db → setInventory db rp gen invs = .ok db' → P db') :
    ∀ (l : List (Nat × List (InvSpec R))) (gens : List (Nat × Nat)) (db db' : DB R),
      reshapeFinal db l gens = .ok db' → P db → P db'
  | [], gens, db, db', h, hp => by
    simp only [reshapeFinal, Except.ok.injEq] at h
    rw [← h]; exact hp
  | (rp, newInvs) :: rest, gens, db, db', h, hp => by
    unfold reshapeFinal at h
    split at h
    · cases h
    · next d hd => exact reshapeFinal_pres P hP rest _ d db' h (hP _ _ _ _ _ hp hd)

/-- the predicate carried through the inventory phases of a reshape -/
def InvPhase (db0 db : DB R) : Prop :=
  UniqC db ∧ RI db ∧ db.allocs = db0.allocs ∧ db.consumers = db0.consumers ∧ db.rcs = db0.rcs

omit [CapOps R] in
theorem invPhase_step (db0 db db' : DB R) (rp gen : Nat) (invs : List (InvSpec R))
    (hp : InvPhase db0 db) (h : setInventory db rp gen invs = .ok db') : InvPhase db0 db' := by
  obtain ⟨h1, h2, h3, h4, h5⟩ := hp
  obtain ⟨e1, e2, e3⟩ := setInventory_frame h
  exact ⟨uniqC_setInventory h1 h, ri_setInventory h2 h, e1.trans h3, e2.trans h4, e3.trans h5⟩

omit [CapOps R] in
theorem AllocTxn.congr {a b a' b' : DB R} {objs objs' : List AllocReq} (h : AllocTxn a b objs)
    (ha : a'.allocs = a.allocs) (hc : a'.consumers = a.consumers)
    (hb : b'.allocs = b.allocs) (hbc : b'.consumers = b.consumers)
    (ho : ∀ o : AllocReq, (∃ x ∈ objs, x.consUuid = o.consUuid ∧ x.used = o.used) ↔
               (∃ x ∈ objs', x.consUuid = o.consUuid ∧ x.used = o.used)) :
    AllocTxn a' b' objs' := by
  have hu : ∀ u, (∀ o ∈ objs', o.consUuid ≠ u) ↔ (∀ o ∈ objs, o.consUuid ≠ u) := by
    intro u
    constructor
    · intro hn o hoo e
      obtain ⟨x, hx, e1, -⟩ := (ho o).1 ⟨o, hoo, rfl, rfl⟩
      exact hn x hx (e1.trans e)
    · intro hn o hoo e
      obtain ⟨x, hx, e1, -⟩ := (ho o).2 ⟨o, hoo, rfl, rfl⟩
      exact hn x hx (e1.trans e)
  exact {
    consSub := by rw [hbc, hc]; exact h.consSub
    origin := by
      rw [hb, ha]
      intro x hx
      rcases h.origin x hx with ⟨h1, h2⟩ | ⟨o, hoo, h0, e⟩
      · exact Or.inl ⟨h1, (hu _).2 h2⟩
      · obtain ⟨o', ho', e1, e2⟩ := (ho o).1 ⟨o, hoo, rfl, rfl⟩
        exact Or.inr ⟨o', ho', by rw [e2]; exact h0, by rw [e1]; exact e⟩
    kept := by
      rw [hb, ha]
      exact fun x hx hn => h.kept x hx ((hu _).1 hn)
    fresh := by
      rw [hb]
      intro o hoo h0
      obtain ⟨o', ho', e1, e2⟩ := (ho o).2 ⟨o, hoo, rfl, rfl⟩
      obtain ⟨x, hx, e⟩ := h.fresh o' ho' (by rw [e2]; exact h0)
      exact ⟨x, hx, e.trans e1⟩
    consKept := by
      rw [hb, hbc, hc]
      intro c hc hor
      refine h.consKept c hc ?_
      rcases hor with hn | hx
      · exact Or.inl ((hu _).1 hn)
      · exact Or.inr hx
    consGone := by
      rw [hb, hbc]
      intro c hc ⟨o, hoo, e⟩
      obtain ⟨o', ho', e1, -⟩ := (ho o).2 ⟨o, hoo, rfl, rfl⟩
      exact h.consGone c hc ⟨o', ho', e1.trans e⟩ }

theorem reshapeTxn_ok {db db' : DB R} {invs : List (Nat × Nat × List (InvSpec R))} {objs : List AllocReq}
    (hU : UniqC db) (hR : RI db) (hC : ∀ a ∈ objs, ∃ c ∈ db.consumers, c.uuid = a.consUuid)
    (h : reshapeTxn db invs objs = .ok db') :
    UniqC db' ∧ RI db' ∧ AllocTxn db db' objs ∧
    (AllocKeys db → objs.Pairwise (fun a b => a.used ≠ 0 → b.used ≠ 0 →
            (a.rpId, a.rcName, a.consUuid) ≠ (b.rpId, b.rcName, b.consUuid)) → AllocKeys db') ∧
    (AllocPos db → (∀ a ∈ objs, 0 ≤ a.used) → AllocPos db') := by
  unfold reshapeTxn at h
  simp only [bind, Except.bind] at h
  split at h
  · cases h
  · next v hv =>
    obtain ⟨db1, gens1⟩ := v
    dsimp only at h
    split at h
    · cases h
    · next db2 h2 =>
      obtain ⟨u1, r1, a1, c1, -⟩ :=
        reshapeInterim_pres (InvPhase db) (invPhase_step db) _ _ _ _ _ hv ⟨hU, hR, rfl, rfl, rfl⟩
      have hC' : ∀ a ∈ objs.map (fun a => { a with rpGen := knownGen gens1 a.rpId a.rpGen }),
          ∃ c ∈ db1.consumers, c.uuid = a.consUuid := by
        intro a ha
        obtain ⟨a0, ha0, rfl⟩ := List.mem_map.1 ha
        rw [c1]; exact hC a0 ha0
      have u2 := uniqC_setAllocations u1 h2
      have r2 := ri_setAllocations r1 hC' h2
      obtain ⟨u3, r3, a3, c3, -⟩ :=
        reshapeFinal_pres (InvPhase db2) (invPhase_step db2) _ _ _ _ h ⟨u2, r2, rfl, rfl, rfl⟩
      refine ⟨u3, r3, ?_, ?_, ?_⟩
      · refine (allocTxn_setAllocations h2).congr a1.symm c1.symm a3 c3 ?_
        intro o
        constructor
        · rintro ⟨x, hx, e1, e2⟩
          obtain ⟨x0, hx0, rfl⟩ := List.mem_map.1 hx
          exact ⟨x0, hx0, e1, e2⟩
        · rintro ⟨x, hx, e1, e2⟩
          exact ⟨_, List.mem_map.2 ⟨x, hx, rfl⟩, e1, e2⟩
      · intro hK hd
        unfold AllocKeys
        rw [a3]
        refine allocKeys_setAllocations u1 (by unfold AllocKeys; rw [a1]; exact hK) ?_ h2
        rw [List.pairwise_map]
        exact hd
      · intro hP hpos
        unfold AllocPos
        rw [a3]
        refine allocPos_setAllocations (by unfold AllocPos; rw [a1]; exact hP) ?_ h2
        intro a ha
        obtain ⟨a0, ha0, rfl⟩ := List.mem_map.1 ha
        exact hpos a0 ha0

end Placement.Wf
