/-
  Generic facts about `validate` (shape lemmas) and a sound syntactic test `implies S sh`
  ("schema S guarantees shape sh") with its soundness theorem
      implies S sh = true → validate S j = true → sat sh j = true.
  The per-schema theorems of `Props/C15.lean` instantiate it on the generated schemas by `decide`.
-/
import Placement.Spec.Shape

namespace Placement

open Regex (Re)

/-! ### unfolding `validate` -/

theorem validate_eq (S : Schema) (j : Json) : validate S j =
      (typesOk S.types j && S.checks.all (checkOk j) &&
      validateProps S.props j && validatePats S.pats j &&
      validateAddl S.addl (keyKnown S.props S.pats) j &&
      validateItems S.items j &&
      (S.anyOf.isEmpty || validateAny S.anyOf j) &&
      (S.oneOf.isEmpty || validateCount S.oneOf j == 1) &&
      validateAll S.allOf j &&
      validateNot S.not j) := by
  cases S
  rw [validate]

structure Parts (S : Schema) (j : Json) : Prop where
  types : typesOk S.types j = true
  checks : ∀ c ∈ S.checks, checkOk j c = true
  props : validateProps S.props j = true
  pats : validatePats S.pats j = true
  addl : validateAddl S.addl (keyKnown S.props S.pats) j = true
  items : validateItems S.items j = true
  anyOf : S.anyOf = [] ∨ validateAny S.anyOf j = true

theorem validate_parts {S : Schema} {j : Json} (h : validate S j = true) : Parts S j := by
  rw [validate_eq] at h
  simp only [Bool.and_eq_true, List.all_eq_true, Bool.or_eq_true, List.isEmpty_iff] at h
  obtain ⟨⟨⟨⟨⟨⟨⟨⟨⟨h1, h2⟩, h3⟩, h4⟩, h5⟩, h6⟩, h7⟩, _⟩, _⟩, _⟩ := h
  exact ⟨h1, h2, h3, h4, h5, h6, h7⟩

/-! ### generic shape lemmas -/

theorem validateProps_lookup {props : List (String × Schema)} {j : Json} (h : validateProps props j = true)
    {k : String} {s : Schema} (hs : lookup k props = some s) {v : Json} (hv : lookup k (fieldsOf j) = some v) :
    validate s v = true := by
  induction props with
  | nil => simp [lookup] at hs
  | cons p rest ih =>
    obtain ⟨k', s'⟩ := p
    rw [validateProps] at h
    simp only [Bool.and_eq_true] at h
    unfold lookup at hs
    split at hs
    · rename_i hk; subst hk; cases hs
      have := h.1; rw [hv] at this; simpa using this
    · exact ih h.2 hs

theorem validatePats_mem {pats : List (Re × Schema)} {j : Json} (h : validatePats pats j = true)
    {p : Re × Schema} (hp : p ∈ pats) {k : String} {v : Json} (hm : (k, v) ∈ fieldsOf j)
    (ht : Regex.test p.1 k = true) : validate p.2 v = true := by
  induction pats with
  | nil => cases hp
  | cons q rest ih =>
    obtain ⟨re, s⟩ := q
    rw [validatePats] at h
    simp only [Bool.and_eq_true, List.all_eq_true] at h
    rcases List.mem_cons.mp hp with rfl | hp'
    · have := h.1 (k, v) hm
      simpa [ht] using this
    · exact ih h.2 hp'

theorem isType_of_typesOk {ts allowed : List Ty} {j : Json} (hne : ts.isEmpty = false)
    (hsub : ts.all (fun t => allowed.contains t) = true) (h : typesOk ts j = true) :
    ∃ t, t ∈ allowed ∧ isType j t = true := by
  unfold typesOk at h
  rw [hne] at h
  simp only [Bool.false_or, List.any_eq_true] at h
  obtain ⟨t, ht, hj⟩ := h
  refine ⟨t, ?_, hj⟩
  have := List.all_eq_true.mp hsub t ht
  simpa using this

/-- a schema whose `type` is `object` only accepts objects -/
theorem obj_shape {S : Schema} {j : Json} (ht : S.types = [.object]) (h : validate S j = true) :
    ∃ kvs, j = .obj kvs := by
  have hp := (validate_parts h).types
  rw [ht] at hp
  cases j <;> simp [typesOk, isType] at hp
  exact ⟨_, rfl⟩

/-- a schema whose `type` is `array` only accepts arrays -/
theorem arr_shape {S : Schema} {j : Json} (ht : S.types = [.array]) (h : validate S j = true) :
    ∃ xs, j = .arr xs := by
  have hp := (validate_parts h).types
  rw [ht] at hp
  cases j <;> simp [typesOk, isType] at hp
  exact ⟨_, rfl⟩

/-- a schema whose `type` is `string` only accepts strings -/
theorem str_shape {S : Schema} {j : Json} (ht : S.types = [.string]) (h : validate S j = true) :
    ∃ s, j = .str s := by
  have hp := (validate_parts h).types
  rw [ht] at hp
  cases j <;> simp [typesOk, isType] at hp
  exact ⟨_, rfl⟩

/-- `"type": "integer"`: an int, or a float with zero fraction (Draft 6+), never a bool or a string -/
theorem int_shape {S : Schema} {j : Json} (ht : S.types = [.integer]) (h : validate S j = true) :
    ∃ n, j.intVal? = some n := by
  have hp := (validate_parts h).types
  rw [ht] at hp
  simp [typesOk, isType] at hp
  exact Option.isSome_iff_exists.mp hp

/-- every name listed in `required` is present -/
theorem required_present {S : Schema} {kvs : List (String × Json)} {ks : List String}
    (hr : Check.required ks ∈ S.checks) (h : validate S (.obj kvs) = true) {k : String} (hk : k ∈ ks) :
    ∃ v, lookup k kvs = some v := by
  have := (validate_parts h).checks _ hr
  simp only [checkOk, List.all_eq_true] at this
  exact Option.isSome_iff_exists.mp (this k hk)

/-- a member listed in `properties` validates against its sub-schema -/
theorem validateFields_mem {S : Schema} {kvs : List (String × Json)} (h : validate S (.obj kvs) = true)
    {k : String} {s : Schema} (hs : lookup k S.props = some s) {v : Json} (hv : lookup k kvs = some v) :
    validate s v = true :=
  validateProps_lookup (validate_parts h).props hs (by simpa [fieldsOf] using hv)

/-- with `additionalProperties: false` every key is declared or matches a pattern -/
theorem additional_denied {S : Schema} {kvs : List (String × Json)} (ha : S.addl = .deny)
    (h : validate S (.obj kvs) = true) {k : String} {v : Json} (hm : (k, v) ∈ kvs) :
    keyKnown S.props S.pats k = true := by
  have := (validate_parts h).addl
  rw [ha, validateAddl] at this
  simp only [fieldsOf, List.all_eq_true] at this
  exact this (k, v) hm

/-- elements of an array validate against `items` -/
theorem items_mem {S : Schema} {xs : List Json} {s : Schema} (hi : S.items = some s)
    (h : validate S (.arr xs) = true) {x : Json} (hx : x ∈ xs) : validate s x = true := by
  have := (validate_parts h).items
  rw [hi, validateItems] at this
  simp only [itemsOf, List.all_eq_true] at this
  exact this x hx

/-! ### the syntactic test -/

def typesWithin (S : Schema) (allowed : List Ty) : Bool :=
  !S.types.isEmpty && S.types.all (fun t => allowed.contains t)

def hasMinInt (cs : List Check) (l : Int) : Bool :=
  cs.any (fun c => match c with | .minimum (.fin a 1) => decide (l ≤ a) | _ => false)

def hasMaxInt (cs : List Check) (h : Int) : Bool :=
  cs.any (fun c => match c with | .maximum (.fin a 1) => decide (a ≤ h) | _ => false)

def hasMinimum (cs : List Check) (m : Num) : Bool :=
  cs.any (fun c => match c with | .minimum x => decide (x = m) | _ => false)

def hasMaximum (cs : List Check) (m : Num) : Bool :=
  cs.any (fun c => match c with | .maximum x => decide (x = m) | _ => false)

def hasMinLength (cs : List Check) (n : Nat) : Bool :=
  n == 0 || cs.any (fun c => match c with | .minLength m => decide (n ≤ m) | _ => false)

def hasMaxLength (cs : List Check) (n : Nat) : Bool :=
  cs.any (fun c => match c with | .maxLength m => decide (m ≤ n) | _ => false)

def hasMinItems (cs : List Check) (n : Nat) : Bool :=
  n == 0 || cs.any (fun c => match c with | .minItems m => decide (n ≤ m) | _ => false)

def hasMinProperties (cs : List Check) (n : Nat) : Bool :=
  n == 0 || cs.any (fun c => match c with | .minProperties m => decide (n ≤ m) | _ => false)

def hasUnique (cs : List Check) : Bool :=
  cs.any (fun c => match c with | .uniqueItems => true | _ => false)

def hasPattern (cs : List Check) (re : Re) : Bool :=
  cs.any (fun c => match c with | .pattern r => decide (r = re) | _ => false)

def hasUuid (cs : List Check) : Bool :=
  cs.any (fun c => match c with | .format .uuid => true | _ => false)

def hasRequired (cs : List Check) (k : String) : Bool :=
  cs.any (fun c => match c with | .required ks => ks.contains k | _ => false)

def isDeny : Addl Schema → Bool
  | .deny => true
  | _ => false

/-- a branch `{"type": "null"}` -/
def isNullOnly (S : Schema) : Bool := typesWithin S [.null]

/-- the same schema without `null` among its types -/
def dropNull (S : Schema) : Schema := { S with types := S.types.filter (fun t => t != .null) }

def implies : Schema → Shape → Bool
  | _, .any => true
  | S, .null => typesWithin S [.null]
  | S, .bool => typesWithin S [.boolean]
  | S, .int lo hi =>
    typesWithin S [.integer] && lo.all (hasMinInt S.checks) && hi.all (hasMaxInt S.checks)
  | S, .num lo hi fin =>
    (if fin then typesWithin S [.integer] else typesWithin S [.integer, .number]) &&
    lo.all (hasMinimum S.checks) && hi.all (hasMaximum S.checks)
  | S, .str mn mx =>
    typesWithin S [.string] && hasMinLength S.checks mn && mx.all (hasMaxLength S.checks)
  | S, .strRe re mx =>
    typesWithin S [.string] && hasPattern S.checks re && mx.all (hasMaxLength S.checks)
  | S, .uuid => typesWithin S [.string] && hasUuid S.checks
  | S, .orNull sh =>
    (!S.anyOf.isEmpty && S.anyOf.all (fun b => isNullOnly b || implies b sh)) ||
    (S.types.contains .null && !(dropNull S).types.isEmpty && implies (dropNull S) sh)
  | S, .arr n u elem =>
    typesWithin S [.array] && hasMinItems S.checks n && (!u || hasUnique S.checks) &&
    (match S.items with
     | some s => implies s elem
     | none => false)
  | S, .map n re closed val =>
    typesWithin S [.object] && hasMinProperties S.checks n &&
    (if closed then S.props.isEmpty && isDeny S.addl && S.pats.all (fun p => decide (p.1 = re) && implies p.2 val)
     else S.pats.any (fun p => decide (p.1 = re) && implies p.2 val))
  | S, .objNil allowed =>
    typesWithin S [.object] &&
    (match allowed with
     | none => true
     | some ks => isDeny S.addl && S.pats.isEmpty && S.props.all (fun p => ks.contains p.1))
  | S, .field k req sh rest =>
    typesWithin S [.object] &&
    (match lookup k S.props with
     | some s => implies s sh
     | none => false) &&
    (!req || hasRequired S.checks k) && implies S rest

end Placement
