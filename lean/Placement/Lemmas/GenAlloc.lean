import Placement.Lemmas.GenBump
/-
  C10, part 3: PUT /allocations/{consumer}: provider and consumer generations after a success; what
  an error leaves behind.
-/
namespace Placement.Gens
open Placement.Hier
variable {R : Type}
set_option linter.unusedSectionVars false
set_option linter.unusedSimpArgs false

theorem ensureConsumer_err {cfg : Config} {db : DB R} {mv : Nat} {c : ConsumerReq} {r : Resp}
    (h : (ensureConsumer cfg db mv c).2 = .error r) :
    r = r409 .concurrentUpdate ∧ (ensureConsumer cfg db mv c).1.gcore = db.gcore := by
  rcases ensureConsumer_spec cfg db mv c with ⟨hg, -⟩ | ⟨-, row, attr, hok, -⟩
  · refine ⟨?_, hg⟩
    revert h
    unfold ensureConsumer
    dsimp only
    repeat' split
    all_goals first | (intro h; cases h; rfl) | (intro h; cases h)
  · rw [hok] at h; cases h

theorem allocObjects_err {db : DB R} {cons : ConsRow} {c : ConsumerReq} {r : Resp}
    (h : allocObjects db cons c = .error r) : r = r400 := by
  unfold allocObjects at h
  repeat' split at h
  all_goals first | (cases h; rfl) | cases h

theorem allocErr_status (e : Exc) : 400 ≤ (allocErr e).status := by
  unfold allocErr
  repeat' split
  all_goals simp [r400, r409, r500]

/-- `_new_allocations` for a non-empty entry: one object per body entry, all for this consumer, and
every named provider exists -/
theorem allocObjects_nonempty {db : DB R} {cons : ConsRow} {c : ConsumerReq} {objs : List AllocReq}
    (h : allocObjects db cons c = .ok objs) (hne : c.allocs ≠ []) :
    (∀ a ∈ c.allocs, ∃ rp, db.rpByUuid a.1 = some rp ∧ ∃ o ∈ objs, o.rpId = rp.id) ∧
    (∀ o ∈ objs, o.consId = cons.id ∧ o.consGen = cons.gen ∧ o.consUuid = cons.uuid) ∧ objs ≠ [] := by
  unfold allocObjects at h
  rw [if_neg (by simpa using hne)] at h
  split at h
  · cases h
  · rename_i hall
    simp only [Except.ok.injEq] at h
    subst h
    have hsome : ∀ a ∈ c.allocs, ∃ rp, db.rpByUuid a.1 = some rp := by
      intro a ha
      cases hr : db.rpByUuid a.1 with
      | some rp => exact ⟨rp, rfl⟩
      | none =>
        exfalso; apply hall
        rw [List.any_eq_true]; exact ⟨a, ha, by simp [hr]⟩
    refine ⟨?_, ?_, ?_⟩
    · intro a ha
      obtain ⟨rp, hrp⟩ := hsome a ha
      refine ⟨rp, hrp, _, List.mem_filterMap.mpr ⟨a, ha, by rw [hrp]; rfl⟩, rfl⟩
    · intro o ho
      obtain ⟨a, -, hao⟩ := List.mem_filterMap.mp ho
      cases hr : db.rpByUuid a.1 with
      | none => rw [hr] at hao; cases hao
      | some rp => rw [hr] at hao; simp only [Option.map_some, Option.some.injEq] at hao; subst hao; exact ⟨rfl, rfl, rfl⟩
    · cases hc : c.allocs with
      | nil => exact absurd hc hne
      | cons a rest =>
        obtain ⟨rp, hrp⟩ := hsome a (by rw [hc]; exact List.mem_cons_self ..)
        intro hnil
        have : ∃ o, o ∈ (a :: rest).filterMap (fun a => (db.rpByUuid a.1).map (fun rp =>
            ({ rpId := rp.id, rpGen := rp.gen, rcName := a.2.1, consId := cons.id, consUuid := cons.uuid,
               consGen := cons.gen, used := a.2.2 } : AllocReq))) :=
          ⟨_, List.mem_filterMap.mpr ⟨a, List.mem_cons_self .., by rw [hrp]; rfl⟩⟩
        rw [hnil] at this
        obtain ⟨o, ho⟩ := this
        cases ho

variable [CapOps R]

/-- the outcomes of `PUT /allocations/{consumer}` -/
theorem hAllocPut_cases (cfg : Config) (db : DB R) (mv : Nat) (c : ConsumerReq) :
    (∃ db1 cons created attr objs db3,
        ensureConsumer cfg db mv c = (db1, .ok (cons, created, attr)) ∧
        allocObjects db1 cons c = .ok objs ∧
        setAllocations (updateConsumer db1 cons attr) objs = .ok db3 ∧
        hAllocPut cfg db mv c =
          ((if created && objs.isEmpty then deleteConsumerRows db3 [cons.id] else db3), r204)) ∨
    (400 ≤ (hAllocPut cfg db mv c).2.status ∧
       ((hAllocPut cfg db mv c).1 = db ∨
        (∃ r, (ensureConsumer cfg db mv c).2 = .error r ∧
            (hAllocPut cfg db mv c).1 = (ensureConsumer cfg db mv c).1) ∨
        (∃ cons created attr, (ensureConsumer cfg db mv c).2 = .ok (cons, created, attr) ∧
            (hAllocPut cfg db mv c).1 =
              if created then deleteConsumerRows (ensureConsumer cfg db mv c).1 [cons.id]
              else (ensureConsumer cfg db mv c).1))) := by
  unfold hAllocPut
  split
  · exact .inr ⟨by simp [r400], .inl rfl⟩
  · split
    · rename_i db1 r heq
      have hr := (ensureConsumer_err (by rw [heq] : (ensureConsumer cfg db mv c).2 = .error r)).1
      refine .inr ⟨by rw [hr]; simp [r409], .inr (.inl ⟨r, by rw [heq], by rw [heq]⟩)⟩
    · rename_i db1 cons created attr heq
      split
      · rename_i r hobj
        refine .inr ⟨by rw [allocObjects_err hobj]; simp [r400], .inr (.inr ⟨cons, created, attr, by rw [heq], by rw [heq]⟩)⟩
      · rename_i objs hobj
        dsimp only
        split
        · rename_i db3 h3
          exact .inl ⟨db1, cons, created, attr, objs, db3, heq, hobj, h3, rfl⟩
        · rename_i e _
          exact .inr ⟨allocErr_status e, .inr (.inr ⟨cons, created, attr, by rw [heq], by rw [heq]⟩)⟩

theorem not_ok_of_400 {r : Resp} (h : 400 ≤ r.status) : r.ok = false := by
  simp only [Resp.ok, Bool.and_eq_false_iff, decide_eq_false_iff_not]; omega

theorem deleteConsumerRows_rps (db : DB R) (ids : List Nat) : (deleteConsumerRows db ids).rps = db.rps := rfl

/-- Every provider named in the body of a successful `PUT /allocations/{consumer}` is exactly one
generation further afterwards. -/
theorem allocPut_bumps_providers (cfg : Config) {db : DB R} (hI : Ids db.gcore) {mv : Nat} {c : ConsumerReq}
    (h : (hAllocPut cfg db mv c).2.ok = true) :
    ∀ a ∈ c.allocs, ∃ rp, db.rpByUuid a.1 = some rp ∧
      (hAllocPut cfg db mv c).1.rpByUuid a.1 = some { rp with gen := rp.gen + 1 } := by
  rcases hAllocPut_cases cfg db mv c with ⟨db1, cons, created, attr, objs, db3, he, hobj, h3, hres⟩ | ⟨hst, -⟩
  · intro a ha
    have hne : c.allocs ≠ [] := fun hn => by rw [hn] at ha; cases ha
    have hr1 : db1.rps = db.rps := by
      have : (ensureConsumer cfg db mv c).1.rps = db.rps := by
        rcases ensureConsumer_spec cfg db mv c with ⟨hg, -⟩ | ⟨-, _, _, -, -, -, -, hg⟩
        · exact congrArg GCore.rps hg
        · exact congrArg GCore.rps hg
      rwa [he] at this
    have hr2 : (updateConsumer db1 cons attr).rps = db1.rps := by
      obtain ⟨f, -, hg⟩ := updateConsumer_spec db1 cons attr
      exact congrArg GCore.rps hg
    have hr3 := setAllocations_rps h3 (by rw [hr2, hr1]; exact hI.rpNodup)
    obtain ⟨hprov, -, -⟩ := allocObjects_nonempty hobj hne
    obtain ⟨rp, hrp, o, ho, hoid⟩ := hprov a ha
    have hrp' : db.rpByUuid a.1 = some rp := by
      have : db1.rps.find? (·.uuid == a.1) = some rp := hrp
      rw [hr1] at this; exact this
    refine ⟨rp, hrp', ?_⟩
    have hresr : (hAllocPut cfg db mv c).1.rps = db3.rps := by
      rw [hres]; dsimp only; split <;> rfl
    show (hAllocPut cfg db mv c).1.rps.find? (·.uuid == a.1) = _
    rw [hresr, hr3, hr2, hr1]
    apply mem_bumpAll_keys hrp'
    rw [firstByKey_keys, List.map_map]
    exact List.mem_map.mpr ⟨o, ho, hoid⟩
  · rw [not_ok_of_400 hst] at h; cases h

/-! ### the consumer generation -/

theorem firstByKey_const {l : List (Nat × Nat)} {q : Nat × Nat} (hne : l ≠ []) (hall : ∀ p ∈ l, p = q) :
    firstByKey l = [q] := by
  cases l with
  | nil => exact absurd rfl hne
  | cons p rest =>
    have hp : p = q := hall p (List.mem_cons_self ..)
    subst hp
    obtain ⟨k, v⟩ := p
    simp only [firstByKey, List.cons.injEq, true_and, List.filter_eq_nil_iff]
    intro x hx
    have : x.1 ∈ rest.map (·.1) := (firstByKey_keys rest x.1).mp (List.mem_map.mpr ⟨x, hx, rfl⟩)
    obtain ⟨y, hy, hyx⟩ := List.mem_map.mp this
    have := hall y (List.mem_cons_of_mem _ hy)
    subst this
    simp [← hyx]

theorem incRpGens_consumers : ∀ {l : List (Nat × Nat)} {db db' : DB R}, incRpGens db l = .ok db' →
    db'.consumers = db.consumers
  | [], db, db', h => by simp only [incRpGens, Except.ok.injEq] at h; subst h; rfl
  | (id, gen) :: rest, db, db', h => by
    simp only [incRpGens, bind, Except.bind] at h
    split at h
    · cases h
    · rename_i db1 h1
      obtain ⟨-, rfl⟩ := incRpGen_ok h1
      exact (incRpGens_consumers h).trans rfl

/-- consumers after a successful `_set_allocations` all of whose objects belong to one consumer
`(i, g)`: that consumer's generation is `g + 1`; rows may have been removed -/
theorem setAllocations_consumers {db db' : DB R} {allocs : List AllocReq} {i g : Nat}
    (h : setAllocations db allocs = .ok db') (hne : allocs ≠ [])
    (hall : ∀ o ∈ allocs, o.consId = i ∧ o.consGen = g) :
    ∃ p, db'.consumers =
      (db.consumers.map (fun c => if c.id == i then { c with gen := g + 1 } else c)).filter p := by
  obtain ⟨db2, db3, db4, hg, h3, h4, rfl⟩ := setAllocations_ok h
  have hc2 : db2.consumers = db.consumers := congrArg GCore.consumers hg
  have hc3 := incRpGens_consumers h3
  rw [firstByKey_const (q := (i, g)) (by simpa using hne)
    (by intro p hp; obtain ⟨o, ho, rfl⟩ := List.mem_map.mp hp; rw [(hall o ho).1, (hall o ho).2])] at h4
  simp only [incConsGens, bind, Except.bind] at h4
  split at h4
  · cases h4
  · rename_i db4' h4'
    simp only [Except.ok.injEq] at h4
    subst h4
    obtain ⟨-, rfl⟩ := incConsGen_ok h4'
    refine ⟨?w, ?h⟩
    case h => simp only [deleteConsumersIfNoAllocs, hc3, hc2]; rfl

theorem consByUuid_some {db : DB R} {u : Nat} {c : ConsRow} (h : db.consByUuid u = some c) :
    c ∈ db.consumers ∧ c.uuid = u :=
  ⟨List.mem_of_find?_eq_some h, by simpa using List.find?_some h⟩

theorem eq_of_nodup_uuid : ∀ {t : List ConsRow}, (t.map (·.uuid)).Nodup → ∀ a ∈ t, ∀ b ∈ t, a.uuid = b.uuid → a = b
  | [], _ => by intro a ha; cases ha
  | c :: t, h => by
    rw [List.map_cons, List.nodup_cons] at h
    intro a ha b hb hab
    have hc : ∀ z ∈ t, z.uuid ≠ c.uuid := fun z hz he => h.1 (List.mem_map.mpr ⟨z, hz, he⟩)
    rcases List.mem_cons.mp ha with ha1 | ha1 <;> rcases List.mem_cons.mp hb with hb1 | hb1
    · rw [ha1, hb1]
    · rw [ha1] at hab; exact absurd hab.symm (hc b hb1)
    · rw [hb1] at hab; exact absurd hab (hc a ha1)
    · exact eq_of_nodup_uuid h.2 a ha1 b hb1 hab

/-- After a successful `PUT /allocations/{consumer}` with a non-empty body the consumer is one
generation further than before (a new consumer starts at 0, so it ends at 1), or its record is gone. -/
theorem allocPut_bumps_consumer (cfg : Config) {db : DB R} (hU : (db.consumers.map (·.uuid)).Nodup)
    {mv : Nat} {c : ConsumerReq} (h : (hAllocPut cfg db mv c).2.ok = true) (hne : c.allocs ≠ []) :
    (hAllocPut cfg db mv c).1.consByUuid c.uuid = none ∨
    ∃ row, (hAllocPut cfg db mv c).1.consByUuid c.uuid = some row ∧
      row.gen = (((db.consByUuid c.uuid).map (·.gen)).getD 0) + 1 := by
  rcases hAllocPut_cases cfg db mv c with ⟨db1, cons, created, attr, objs, db3, he, hobj, h3, hres⟩ | ⟨hst, -⟩
  · obtain ⟨-, hcons, hobjs⟩ := allocObjects_nonempty hobj hne
    have hres' : (hAllocPut cfg db mv c).1 = db3 := by
      rw [hres]; dsimp only
      have : objs.isEmpty = false := by cases objs with | nil => exact absurd rfl hobjs | cons _ _ => rfl
      rw [this, Bool.and_false]; rfl
    rw [hres']
    -- the consumer the request works with, its generation, and uniqueness of its uuid in `db1`
    have hkey : cons.gen = ((db.consByUuid c.uuid).map (·.gen)).getD 0 ∧
        ∀ c1 ∈ db1.consumers, c1.uuid = c.uuid → c1 = cons := by
      rcases ensureConsumer_spec cfg db mv c with ⟨hg, hok⟩ | ⟨hnone, row, attr', hok, -, huuid, hgen, hg⟩
      · rw [he] at hg hok
        obtain ⟨-, hfound⟩ := hok cons created attr rfl
        have hc1 : db1.consumers = db.consumers := congrArg GCore.consumers hg
        obtain ⟨hm, hu⟩ := consByUuid_some hfound
        refine ⟨by rw [hfound]; rfl, ?_⟩
        intro c1 hc1m hc1u
        rw [hc1] at hc1m
        exact eq_of_nodup_uuid hU c1 hc1m cons hm (hc1u.trans hu.symm)
      · rw [he] at hg hok
        simp only [Except.ok.injEq, Prod.mk.injEq] at hok
        obtain ⟨rfl, -, -⟩ := hok
        have hc1 : db1.consumers = db.consumers ++ [cons] := congrArg GCore.consumers hg
        refine ⟨by rw [hnone, hgen]; rfl, ?_⟩
        intro c1 hc1m hc1u
        rw [hc1] at hc1m
        rcases List.mem_append.mp hc1m with hm | hm
        · have := List.find?_eq_none.mp hnone c1 hm
          simp [hc1u] at this
        · exact List.mem_singleton.mp hm
    obtain ⟨f, hf, hg2⟩ := updateConsumer_spec db1 cons attr
    have hc2 : (updateConsumer db1 cons attr).consumers = db1.consumers.map f := congrArg GCore.consumers hg2
    obtain ⟨p, hc3⟩ := setAllocations_consumers (i := cons.id) (g := cons.gen) h3 hobjs
      (fun o ho => ⟨(hcons o ho).1, (hcons o ho).2.1⟩)
    cases hfind : db3.consByUuid c.uuid with
    | none => exact .inl rfl
    | some row =>
      refine .inr ⟨row, rfl, ?_⟩
      obtain ⟨hm, hu⟩ := consByUuid_some hfind
      rw [hc3, hc2] at hm
      obtain ⟨c2, hc2m, rfl⟩ := List.mem_map.mp (List.mem_filter.mp hm).1
      obtain ⟨c1, hc1m, rfl⟩ := List.mem_map.mp hc2m
      have hu1 : c1.uuid = c.uuid := by
        rw [← (hf c1).2.2]
        have : (if (f c1).id == cons.id then { f c1 with gen := cons.gen + 1 } else f c1).uuid = (f c1).uuid := by
          split <;> rfl
        rw [← this]; exact hu
      have : c1 = cons := hkey.2 c1 hc1m hu1
      subst this
      rw [← hkey.1]
      simp [(hf c1).1]
  · rw [not_ok_of_400 hst] at h; cases h

end Placement.Gens
