import Placement.Lemmas.WfObj
/-
  Preservation of `UniqC`, `RI`, `AllocKeys`, `AllocPos` by `_set_allocations`, `delete_all` and the
  consumer helpers of the handlers (`ensure_consumer`, `update_consumers`, clean-up of created consumers).
-/
namespace Placement.Wf
variable {R : Type}

/-! ### generation bumps in a loop -/

theorem incRpGens_ok {db db' : DB R} : ∀ {l : List (Nat × Nat)}, incRpGens db l = .ok db' →
    ∃ g : RpRow → RpRow, db' = { db with rps := db.rps.map g } ∧
      ∀ r, (g r).id = r.id ∧ (g r).uuid = r.uuid ∧ (g r).name = r.name ∧ (g r).parent = r.parent ∧ (g r).root = r.root := by
  intro l
  induction l generalizing db with
  | nil =>
    intro h
    simp [incRpGens] at h
    cases h
    exact ⟨id, by simp, fun r => ⟨rfl, rfl, rfl, rfl, rfl⟩⟩
  | cons p rest ih =>
    intro h
    obtain ⟨i, gen⟩ := p
    unfold incRpGens at h
    simp only [bind, Except.bind] at h
    split at h
    · cases h
    · next d hd =>
      obtain ⟨g, rfl, hg⟩ := ih h
      rw [(incRpGen_ok hd).1]
      refine ⟨g ∘ bumpRow i gen, ?_, ?_⟩
      · simp [DB.setRp, bumpRow, List.map_map]
      · intro r
        have := hg (bumpRow i gen r)
        simp only [Function.comp]
        simp_all

theorem incConsGens_ok {db db' : DB R} : ∀ {l : List (Nat × Nat)}, incConsGens db l = .ok db' →
    ∃ g : ConsRow → ConsRow, db' = { db with consumers := db.consumers.map g } ∧
      ∀ c, (g c).id = c.id ∧ (g c).uuid = c.uuid ∧ (g c).project = c.project ∧ (g c).user = c.user ∧
        (g c).ctype = c.ctype := by
  intro l
  induction l generalizing db with
  | nil =>
    intro h
    simp [incConsGens] at h
    cases h
    exact ⟨id, by simp, fun r => ⟨rfl, rfl, rfl, rfl, rfl⟩⟩
  | cons p rest ih =>
    intro h
    obtain ⟨i, gen⟩ := p
    unfold incConsGens at h
    simp only [bind, Except.bind] at h
    split at h
    · cases h
    · next d hd =>
      obtain ⟨g, rfl, hg⟩ := ih h
      rw [incConsGen_ok hd]
      refine ⟨g ∘ (fun c => if c.id == i then { c with gen := gen + 1 } else c), ?_, ?_⟩
      · simp [List.map_map]
      · intro c
        simp only [Function.comp]
        split
        · have := hg { c with gen := gen + 1 }; simp_all
        · exact hg c

/-! ### frame lemmas for the consumers table -/

theorem UniqC.map_consumers {db : DB R} (h : UniqC db) (g : ConsRow → ConsRow)
    (hid : ∀ c, (g c).id = c.id) (huuid : ∀ c, (g c).uuid = c.uuid) :
    UniqC { db with consumers := db.consumers.map g } :=
  { h with
    consId := by
      show ((db.consumers.map g).map (·.id)).Nodup
      rw [L.map_map_key _ (fun a _ => hid a)]; exact h.consId
    consUuid := by
      show ((db.consumers.map g).map (·.uuid)).Nodup
      rw [L.map_map_key _ (fun a _ => huuid a)]; exact h.consUuid
    freshCons := by
      intro r hr
      obtain ⟨r0, h0, rfl⟩ := List.mem_map.1 hr
      rw [hid]; exact h.freshCons r0 h0 }

theorem _root_.Placement.RI.map_consumers {db : DB R} (h : RI db) (g : ConsRow → ConsRow)
    (huuid : ∀ c, (g c).uuid = c.uuid)
    (hp : ∀ c ∈ db.consumers, (g c).project ∈ db.projects)
    (hu : ∀ c ∈ db.consumers, (g c).user ∈ db.users)
    (ht : ∀ c ∈ db.consumers, ∀ t, (g c).ctype = some t → t ∈ db.ctypes) :
    RI { db with consumers := db.consumers.map g } :=
  { h with
    allocCons := by
      intro a ha
      obtain ⟨c, hc, e⟩ := h.allocCons a ha
      exact ⟨g c, List.mem_map.2 ⟨c, hc, rfl⟩, (huuid c).trans e⟩
    consProject := by
      intro c hc; obtain ⟨c0, h0, rfl⟩ := List.mem_map.1 hc; exact hp c0 h0
    consUser := by
      intro c hc; obtain ⟨c0, h0, rfl⟩ := List.mem_map.1 hc; exact hu c0 h0
    consType := by
      intro c hc; obtain ⟨c0, h0, rfl⟩ := List.mem_map.1 hc; exact ht c0 h0 }

theorem UniqC.filter_consumers {db : DB R} (h : UniqC db) (p : ConsRow → Bool) :
    UniqC { db with consumers := db.consumers.filter p } :=
  { h with
    consId := L.nodup_map_filter _ h.consId
    consUuid := L.nodup_map_filter _ h.consUuid
    freshCons := fun c hc => h.freshCons c (List.mem_filter.1 hc).1 }

/-- removing consumer rows is harmless as long as no allocation names a removed row -/
theorem _root_.Placement.RI.filter_consumers {db : DB R} (h : RI db) (p : ConsRow → Bool)
    (hp : ∀ c ∈ db.consumers, p c = false → ∀ a ∈ db.allocs, a.consumer ≠ c.uuid) :
    RI { db with consumers := db.consumers.filter p } :=
  { h with
    allocCons := by
      intro a ha
      obtain ⟨c, hc, e⟩ := h.allocCons a ha
      refine ⟨c, List.mem_filter.2 ⟨hc, ?_⟩, e⟩
      cases hpc : p c with
      | true => rfl
      | false => exact absurd e.symm (hp c hc hpc a ha)
    consProject := fun c hc => h.consProject c (List.mem_filter.1 hc).1
    consUser := fun c hc => h.consUser c (List.mem_filter.1 hc).1
    consType := fun c hc => h.consType c (List.mem_filter.1 hc).1 }

theorem uniqC_deleteConsumersIfNoAllocs {db : DB R} (h : UniqC db) (us : List Nat) :
    UniqC (deleteConsumersIfNoAllocs db us) := h.filter_consumers _

theorem ri_deleteConsumersIfNoAllocs {db : DB R} (h : RI db) (us : List Nat) :
    RI (deleteConsumersIfNoAllocs db us) := by
  refine h.filter_consumers _ ?_
  intro c hc hp a ha e
  simp at hp
  exact hp.2 a ha e

theorem uniqC_deleteConsumerRows {db : DB R} (h : UniqC db) (ids : List Nat) :
    UniqC (deleteConsumerRows db ids) := h.filter_consumers _

/-- the rows named by `ids` carry no allocations -/
def CreatedOK (db : DB R) (ids : List Nat) : Prop :=
  ∀ c ∈ db.consumers, c.id ∈ ids → ∀ a ∈ db.allocs, a.consumer ≠ c.uuid

theorem ri_deleteConsumerRows {db : DB R} (h : RI db) {ids : List Nat} (hc : CreatedOK db ids) :
    RI (deleteConsumerRows db ids) := by
  refine h.filter_consumers _ ?_
  intro c hcm hp
  exact hc c hcm (by simpa using hp)

theorem uniqC_incRpGens {db db' : DB R} {l : List (Nat × Nat)} (hU : UniqC db) (h : incRpGens db l = .ok db') :
    UniqC db' := by
  obtain ⟨g, rfl, hg⟩ := incRpGens_ok h
  exact hU.map_rps g (fun r => (hg r).1) (fun r => (hg r).2.1) (fun r => (hg r).2.2.1)

theorem ri_incRpGens {db db' : DB R} {l : List (Nat × Nat)} (hR : RI db) (h : incRpGens db l = .ok db') :
    RI db' := by
  obtain ⟨g, rfl, hg⟩ := incRpGens_ok h
  exact hR.map_rps g (fun r => (hg r).1)

theorem uniqC_incConsGens {db db' : DB R} {l : List (Nat × Nat)} (hU : UniqC db) (h : incConsGens db l = .ok db') :
    UniqC db' := by
  obtain ⟨g, rfl, hg⟩ := incConsGens_ok h
  exact hU.map_consumers g (fun r => (hg r).1) (fun r => (hg r).2.1)

theorem ri_incConsGens {db db' : DB R} {l : List (Nat × Nat)} (hR : RI db) (h : incConsGens db l = .ok db') :
    RI db' := by
  obtain ⟨g, rfl, hg⟩ := incConsGens_ok h
  refine hR.map_consumers g (fun r => (hg r).2.1) ?_ ?_ ?_
  · intro c hc; rw [(hg c).2.2.1]; exact hR.consProject c hc
  · intro c hc; rw [(hg c).2.2.2.1]; exact hR.consUser c hc
  · intro c hc t; rw [(hg c).2.2.2.2]; exact hR.consType c hc t

end Placement.Wf

namespace Placement.Wf
variable {R : Type}

/-! ### `_set_allocations` -/

def clearAllocs (db : DB R) (allocs : List AllocReq) : DB R :=
  { db with allocs := db.allocs.filter (fun a => !(allocs.map (·.consUuid)).contains a.consumer) }

/-- class id an allocation object resolves to -/
def rcOf (db : DB R) (a : AllocReq) : Nat := (db.rcId a.rcName).getD 0

def rowOf (db : DB R) (a : AllocReq) : Option AllocRow :=
  if a.used == 0 then none
  else some { rp := a.rpId, rc := rcOf db a, consumer := a.consUuid, used := a.used }

def toCheck (allocs : List AllocReq) : List Nat :=
  (allocs.map (·.consUuid)).filter
    (fun u => !((allocs.filter (fun a => a.used > 0)).map (·.consUuid)).contains u)

theorem resolveAllocRcs_ok {db : DB R} : ∀ {allocs : List AllocReq} {res : List (Nat × Nat × Int)},
    resolveAllocRcs db allocs = .ok res →
      res = allocs.map (fun a => (a.rpId, rcOf db a, a.used)) ∧ ∀ a ∈ allocs, db.rcId a.rcName = some (rcOf db a)
  | [], res, h => by
    simp [resolveAllocRcs] at h; cases h; simp
  | a :: as, res, h => by
    unfold resolveAllocRcs at h
    split at h
    · cases h
    · next id hid =>
      cases hr : resolveAllocRcs db as with
      | error e => simp [hr, Except.map] at h
      | ok t =>
        simp [hr, Except.map] at h
        subst h
        obtain ⟨h1, h2⟩ := resolveAllocRcs_ok hr
        have : rcOf db a = id := by simp [rcOf, hid]
        refine ⟨by simp [this, ← h1], ?_⟩
        intro x hx
        rcases List.mem_cons.1 hx with rfl | hx
        · rw [this]; exact hid
        · exact h2 x hx

theorem allocRows_eq (db : DB R) : ∀ (allocs : List AllocReq),
    (allocs.zip (allocs.map (fun a => (a.rpId, rcOf db a, a.used)))).filterMap
      (fun x => if x.1.used == 0 then none
        else some ({ rp := x.1.rpId, rc := x.2.2.1, consumer := x.1.consUuid, used := x.1.used } : AllocRow))
    = allocs.filterMap (rowOf db)
  | [] => rfl
  | a :: as => by
    simp only [List.map_cons, List.zip_cons_cons, List.filterMap_cons]
    rw [allocRows_eq db as]
    by_cases h0 : (a.used == 0) = true <;> simp [rowOf, h0]

/-- distinct class names resolve to distinct class ids -/
theorem rcId_inj {db : DB R} (hU : UniqC db) {n1 n2 id : Nat} (h1 : db.rcId n1 = some id) (h2 : db.rcId n2 = some id) :
    n1 = n2 := by
  have := L.eq_of_key_eq hU.rcId (rcId_some h1) (rcId_some h2) rfl
  simpa using this

variable [CapOps R]

theorem checkLoop_inv {db : DB R} : ∀ {rest seen : List (Nat × Nat × Int)},
    checkLoop db seen rest = .ok () → ∀ x ∈ rest, x.2.2 ≠ 0 → ∃ i ∈ db.invs, i.rp = x.1 ∧ i.rc = x.2.1
  | [], _, _ => by simp
  | (rp, rc, amount) :: rest, seen, h => by
    unfold checkLoop at h
    intro x hx hne
    split at h
    · next h0 =>
      rcases List.mem_cons.1 hx with rfl | hx
      · simp at h0; exact absurd h0 hne
      · exact checkLoop_inv h x hx hne
    · split at h
      · cases h
      · next i hi =>
        dsimp only at h
        split at h
        · cases h
        · split at h
          · cases h
          · rcases List.mem_cons.1 hx with rfl | hx
            · obtain ⟨h1, h2, h3⟩ := invOf_some hi
              exact ⟨i, h1, h2, h3⟩
            · exact checkLoop_inv h x hx hne

theorem checkCapacity_ok {db : DB R} {allocs : List AllocReq} (h : checkCapacity db allocs = .ok ()) :
    ∀ a ∈ allocs, HasRp db a.rpId ∧ (a.used ≠ 0 → ∃ i ∈ db.invs, i.rp = a.rpId ∧ i.rc = rcOf db a) := by
  unfold checkCapacity at h
  simp only [bind, Except.bind, throw, throwThe, MonadExceptOf.throw] at h
  split at h
  · cases h
  · next res hres =>
    obtain ⟨rfl, -⟩ := resolveAllocRcs_ok hres
    split at h
    · cases h
    · next hn =>
      intro a ha
      constructor
      · simp only [List.any_eq_true, not_exists, not_and] at hn
        have := hn (a.rpId, rcOf db a, a.used) (List.mem_map.2 ⟨a, ha, rfl⟩)
        simp at this
        obtain ⟨r, hr, e⟩ := this.2
        exact ⟨r, hr, e⟩
      · intro hne
        exact checkLoop_inv h (a.rpId, rcOf db a, a.used) (List.mem_map.2 ⟨a, ha, rfl⟩) hne

theorem setAllocations_ok {db db' : DB R} {allocs : List AllocReq} (h : setAllocations db allocs = .ok db') :
    ∃ db3 db4, checkCapacity (clearAllocs db allocs) allocs = .ok () ∧
      (∀ a ∈ allocs, db.rcId a.rcName = some (rcOf db a)) ∧
      incRpGens { clearAllocs db allocs with
        allocs := (clearAllocs db allocs).allocs ++ allocs.filterMap (rowOf db) }
        (firstByKey (allocs.map (fun a => (a.rpId, a.rpGen)))) = .ok db3 ∧
      incConsGens db3 (firstByKey (allocs.map (fun a => (a.consId, a.consGen)))) = .ok db4 ∧
      db' = deleteConsumersIfNoAllocs db4 (toCheck allocs) := by
  unfold setAllocations at h
  simp only [bind, Except.bind, pure, Except.pure] at h
  split at h
  · cases h
  · next hcc =>
    split at h
    · cases h
    · next res hres =>
      obtain ⟨rfl, hrc⟩ := resolveAllocRcs_ok hres
      split at h
      · cases h
      · next db3 h3 =>
        split at h
        · cases h
        · next db4 h4 =>
          injection h with h
          refine ⟨db3, db4, hcc, hrc, ?_, h4, h.symm⟩
          rw [← allocRows_eq db allocs]
          exact h3

/-- the allocations table after a successful `_set_allocations` -/
theorem setAllocations_allocs {db db' : DB R} {allocs : List AllocReq} (h : setAllocations db allocs = .ok db') :
    db'.allocs = (clearAllocs db allocs).allocs ++ allocs.filterMap (rowOf db) := by
  obtain ⟨db3, db4, -, -, h3, h4, rfl⟩ := setAllocations_ok h
  obtain ⟨g, rfl, -⟩ := incRpGens_ok h3
  obtain ⟨g', rfl, -⟩ := incConsGens_ok h4
  rfl

theorem uniqC_setAllocations {db db' : DB R} {allocs : List AllocReq}
    (hU : UniqC db) (h : setAllocations db allocs = .ok db') : UniqC db' := by
  obtain ⟨db3, db4, -, -, h3, h4, rfl⟩ := setAllocations_ok h
  refine uniqC_deleteConsumersIfNoAllocs (uniqC_incConsGens (uniqC_incRpGens ?_ h3) h4) _
  exact { hU with }

theorem ri_setAllocations {db db' : DB R} {allocs : List AllocReq}
    (hR : RI db) (hC : ∀ a ∈ allocs, ∃ c ∈ db.consumers, c.uuid = a.consUuid)
    (h : setAllocations db allocs = .ok db') : RI db' := by
  obtain ⟨db3, db4, hcc, -, h3, h4, rfl⟩ := setAllocations_ok h
  refine ri_deleteConsumersIfNoAllocs (ri_incConsGens (ri_incRpGens ?_ h3) h4) _
  have hcap := checkCapacity_ok hcc
  have hrow : ∀ x ∈ allocs.filterMap (rowOf db), ∃ a ∈ allocs, a.used ≠ 0 ∧ x.rp = a.rpId ∧
      x.rc = rcOf db a ∧ x.consumer = a.consUuid := by
    intro x hx
    obtain ⟨a, ha, hf⟩ := List.mem_filterMap.1 hx
    unfold rowOf at hf
    split at hf
    · cases hf
    · next hne =>
      injection hf with hf; subst hf
      exact ⟨a, ha, by simpa using hne, rfl, rfl, rfl⟩
  exact { hR with
    allocRp := by
      intro x hx
      rcases List.mem_append.1 hx with hx | hx
      · exact hR.allocRp x (List.mem_filter.1 hx).1
      · obtain ⟨a, ha, -, e, -⟩ := hrow x hx
        rw [e]; exact (hcap a ha).1
    allocInv := by
      intro x hx
      rcases List.mem_append.1 hx with hx | hx
      · exact hR.allocInv x (List.mem_filter.1 hx).1
      · obtain ⟨a, ha, hne, e1, e2, -⟩ := hrow x hx
        rw [e1, e2]; exact (hcap a ha).2 hne
    allocCons := by
      intro x hx
      rcases List.mem_append.1 hx with hx | hx
      · exact hR.allocCons x (List.mem_filter.1 hx).1
      · obtain ⟨a, ha, -, -, -, e⟩ := hrow x hx
        rw [e]; exact hC a ha }

theorem allocKeys_setAllocations {db db' : DB R} {allocs : List AllocReq}
    (hU : UniqC db) (hK : AllocKeys db)
    (hd : allocs.Pairwise (fun a b => a.used ≠ 0 → b.used ≠ 0 →
            (a.rpId, a.rcName, a.consUuid) ≠ (b.rpId, b.rcName, b.consUuid)))
    (h : setAllocations db allocs = .ok db') : AllocKeys db' := by
  unfold AllocKeys
  rw [setAllocations_allocs h]
  obtain ⟨-, -, -, hrc, -⟩ := setAllocations_ok h
  rw [L.nodup_map_append]
  refine ⟨L.nodup_map_filter _ hK, ?_, ?_⟩
  · rw [L.nodup_map_iff_pairwise]
    refine List.Pairwise.filterMap _ ?_ (List.Pairwise.and_mem.1 hd)
    intro a b ⟨ha, hb, hab⟩ x hx y hy e
    unfold rowOf at hx hy
    split at hx
    · cases hx
    · next ha0 =>
      split at hy
      · cases hy
      · next hb0 =>
        injection hx with hx; injection hy with hy
        subst hx hy
        simp only [Prod.mk.injEq] at e
        refine hab (by simpa using ha0) (by simpa using hb0) ?_
        have hn : a.rcName = b.rcName :=
          rcId_inj hU (hrc a ha) (by rw [e.2.1]; exact hrc b hb)
        simp [e.1, e.2.2, hn]
  · intro x hx y hy e
    have hx2 := (List.mem_filter.1 hx).2
    obtain ⟨a, ha, hf⟩ := List.mem_filterMap.1 hy
    unfold rowOf at hf
    split at hf
    · cases hf
    · injection hf with hf; subst hf
      simp only [Prod.mk.injEq] at e
      simp only [Bool.not_eq_eq_eq_not, Bool.not_true, List.contains_eq_mem, List.mem_map,
        decide_eq_false_iff_not, not_exists, not_and] at hx2
      exact hx2 a ha e.2.2.symm

theorem allocPos_setAllocations {db db' : DB R} {allocs : List AllocReq}
    (hP : AllocPos db) (hpos : ∀ a ∈ allocs, 0 ≤ a.used)
    (h : setAllocations db allocs = .ok db') : AllocPos db' := by
  unfold AllocPos
  rw [setAllocations_allocs h]
  intro x hx
  rcases List.mem_append.1 hx with hx | hx
  · exact hP x (List.mem_filter.1 hx).1
  · obtain ⟨a, ha, hf⟩ := List.mem_filterMap.1 hx
    unfold rowOf at hf
    split at hf
    · cases hf
    · next hne =>
      injection hf with hf; subst hf
      have := hpos a ha
      simp at hne
      show 0 < a.used
      omega

end Placement.Wf
