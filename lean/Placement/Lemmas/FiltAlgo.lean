import Placement.Spec.Filters
/-
  Lemmas relating the id-set algorithm of `Spec/Filters.lean` to the declarative predicates
  (used by `Props/C13.lean`).
-/
namespace Placement.Spec

variable {R : Type}

/-! ### lists -/

theorem eq_of_nodup_map {α β : Type} (f : α → β) : ∀ {l : List α}, (l.map f).Nodup → ∀ {a b : α}, a ∈ l → b ∈ l → f a = f b → a = b
  | [], _, _, _, ha, _, _ => by cases ha
  | x :: xs, h, a, b, ha, hb, hab => by
    rw [List.map_cons, List.nodup_cons] at h
    rcases List.mem_cons.mp ha with rfl | ha'
    · rcases List.mem_cons.mp hb with rfl | hb'
      · rfl
      · exact absurd (hab ▸ List.mem_map_of_mem (f := f) hb') h.1
    · rcases List.mem_cons.mp hb with rfl | hb'
      · exact absurd (hab ▸ List.mem_map_of_mem (f := f) ha') h.1
      · exact eq_of_nodup_map f h.2 ha' hb' hab

theorem isEmpty_eq_true_iff {α : Type} (l : List α) : l.isEmpty = true ↔ l = [] := by
  cases l <;> simp

theorem mem_runStages {p : RpRow} : ∀ (ss : List Stage) (rows : List RpRow),
    p ∈ runStages ss rows ↔ p ∈ rows ∧ ∀ s ∈ ss, s.holds p
  | [], rows => by simp [runStages]
  | .empty :: rest, rows => by simp [runStages, Stage.holds]
  | .clause f :: rest, rows => by
    simp only [runStages, mem_runStages rest, List.mem_filter, List.forall_mem_cons, Stage.holds]
    constructor
    · rintro ⟨⟨h1, h2⟩, h3⟩; exact ⟨h1, h2, h3⟩
    · rintro ⟨h1, h2, h3⟩; exact ⟨⟨h1, h2⟩, h3⟩

/-! ### the id sets -/

theorem reqPred_iff (db : DB R) (p : Nat) (req : List (List Nat)) :
    req.all (fun s => s.any (fun t => db.rpTraits.contains (p, t))) = true ↔ hasReq db p req := by
  simp [hasReq, hasTrait, List.all_eq_true, List.any_eq_true]

theorem mem_idsMatchingRequiredTraits (db : DB R) (req : List (List Nat)) {p : RpRow} (hp : p ∈ db.rps) :
    (idsMatchingRequiredTraits db req).contains p.id = true ↔ hasReq db p.id req := by
  simp only [idsMatchingRequiredTraits, List.contains_iff_mem, List.mem_map, List.mem_filter]
  constructor
  · rintro ⟨q, ⟨_, hq⟩, hid⟩
    rw [← hid]; exact (reqPred_iff db q.id req).mp hq
  · intro h; exact ⟨p, ⟨hp, (reqPred_iff db p.id req).mpr h⟩, rfl⟩

theorem mem_idsHavingAnyTrait (db : DB R) (ts : List Nat) (p : Nat) :
    (idsHavingAnyTrait db ts).contains p = true ↔ hasForb db p ts := by
  simp only [idsHavingAnyTrait, List.contains_iff_mem, List.mem_map, List.mem_filter, hasForb, hasTrait]
  constructor
  · rintro ⟨x, ⟨hx, ht⟩, rfl⟩; exact ⟨x.2, ht, hx⟩
  · rintro ⟨t, ht, hx⟩; exact ⟨(p, t), ⟨hx, ht⟩, rfl⟩

/-- every stored association names an aggregate of the aggregates table (part of `RI`, C08) -/
def AggsKnown (db : DB R) : Prop := ∀ x ∈ db.rpAggs, x.2 ∈ db.aggs

theorem knownAny_iff (db : DB R) (hk : AggsKnown db) (p : Nat) (l : List Nat) :
    (l.filter (fun a => db.aggs.contains a)).any (fun a => db.rpAggs.contains (p, a)) = true ↔ ∃ a ∈ l, inAgg db p a := by
  simp only [List.any_eq_true, List.mem_filter, List.contains_iff_mem, inAgg]
  constructor
  · rintro ⟨a, ⟨ha, _⟩, hm⟩; exact ⟨a, ha, hm⟩
  · rintro ⟨a, ha, hm⟩; exact ⟨a, ⟨ha, hk _ hm⟩, hm⟩

theorem aggPred_iff (db : DB R) (hk : AggsKnown db) (p : Nat) (m : List (List Nat)) :
    m.all (fun l => (l.filter (fun a => db.aggs.contains a)).any (fun a => db.rpAggs.contains (p, a))) = true ↔
      inAggs db p m := by
  simp only [List.all_eq_true, inAggs]
  constructor
  · intro h l hl; exact (knownAny_iff db hk p l).mp (h l hl)
  · intro h l hl; exact (knownAny_iff db hk p l).mpr (h l hl)

theorem mem_idsMatchingAggregates (db : DB R) (hk : AggsKnown db) (m : List (List Nat)) {p : RpRow} (hp : p ∈ db.rps) :
    (idsMatchingAggregates db m).contains p.id = true ↔ inAggs db p.id m := by
  unfold idsMatchingAggregates
  split
  · rename_i hshort
    simp only [List.any_eq_true, isEmpty_eq_true_iff] at hshort
    obtain ⟨l, hl, hempty⟩ := hshort
    simp only [List.contains_iff_mem, List.not_mem_nil, false_iff]
    intro h
    obtain ⟨a, ha, hm⟩ := h l hl
    have : a ∈ l.filter (fun a => db.aggs.contains a) := by
      simp only [List.mem_filter, List.contains_iff_mem]; exact ⟨ha, hk _ hm⟩
    rw [hempty] at this; cases this
  · simp only [List.contains_iff_mem, List.mem_map, List.mem_filter]
    constructor
    · rintro ⟨q, ⟨_, hq⟩, hid⟩
      rw [← hid]; exact (aggPred_iff db hk q.id m).mp hq
    · intro h; exact ⟨p, ⟨hp, (aggPred_iff db hk p.id m).mpr h⟩, rfl⟩

theorem inAggs_singleton (db : DB R) (p : Nat) (l : List Nat) : inAggs db p [l] ↔ inBad db p l := by
  simp [inAggs, inBad]

/-! ### the stages -/

theorem stageName_holds (f : Filters) (p : RpRow) : (stageName f).holds p ↔ whenSome f.name (fun n => p.name = n) := by
  unfold stageName whenSome
  cases f.name <;> simp [Stage.holds]

theorem stageUuid_holds (f : Filters) (p : RpRow) : (stageUuid f).holds p ↔ whenSome f.uuid (fun u => p.uuid = u) := by
  unfold stageUuid whenSome
  cases f.uuid <;> simp [Stage.holds]

theorem rpByUuid_some {db : DB R} (hu : (db.rps.map (·.uuid)).Nodup) {u : Nat} {t : RpRow} :
    db.rpByUuid u = some t ↔ t ∈ db.rps ∧ t.uuid = u := by
  unfold DB.rpByUuid
  constructor
  · intro h
    have h1 := List.find?_some h
    exact ⟨List.mem_of_find?_eq_some h, by simpa using h1⟩
  · rintro ⟨ht, htu⟩
    cases hfind : db.rps.find? (fun r => r.uuid == u) with
    | none =>
      have := List.find?_eq_none.mp hfind t ht
      simp [htu] at this
    | some t' =>
      have h1 := List.find?_some hfind
      have h2 := List.mem_of_find?_eq_some hfind
      have : t'.uuid = t.uuid := by simp at h1; rw [h1, htu]
      rw [eq_of_nodup_map (·.uuid) hu h2 ht this]

theorem rpByUuid_none {db : DB R} {u : Nat} : db.rpByUuid u = none ↔ ∀ t ∈ db.rps, t.uuid ≠ u := by
  unfold DB.rpByUuid
  rw [List.find?_eq_none]
  simp

theorem stageInTree_holds (db : DB R) (hu : (db.rps.map (·.uuid)).Nodup) (f : Filters) (p : RpRow) :
    (stageInTree db f).holds p ↔ whenSome f.inTree (fun u => inTreeOf db u p) := by
  unfold stageInTree whenSome
  cases hf : f.inTree with
  | none => simp [Stage.holds]
  | some u =>
    simp only
    cases hr : db.rpByUuid u with
    | none =>
      simp only [Stage.holds, false_iff, inTreeOf]
      rintro ⟨t, ht, htu, _⟩
      exact rpByUuid_none.mp hr t ht htu
    | some t =>
      have ⟨ht, htu⟩ := (rpByUuid_some hu).mp hr
      simp only [Stage.holds, beq_iff_eq, inTreeOf]
      constructor
      · intro h; exact ⟨t, ht, htu, h⟩
      · rintro ⟨t', ht', htu', h⟩
        have : t' = t := eq_of_nodup_map (·.uuid) hu ht' ht (by rw [htu', htu])
        rw [← this]; exact h

theorem stageRequired_holds (db : DB R) (f : Filters) {p : RpRow} (hp : p ∈ db.rps) :
    (stageRequired db f).holds p ↔ hasReq db p.id f.required := by
  unfold stageRequired
  split
  · rename_i h
    rw [isEmpty_eq_true_iff] at h
    simp [Stage.holds, hasReq, h]
  · simp only
    split
    · rename_i h
      rw [isEmpty_eq_true_iff] at h
      simp only [Stage.holds, false_iff]
      intro hr
      have := (mem_idsMatchingRequiredTraits db f.required hp).mpr hr
      rw [h] at this; simp at this
    · simp only [Stage.holds]
      exact mem_idsMatchingRequiredTraits db f.required hp

theorem stageForbidden_holds (db : DB R) (f : Filters) (p : RpRow) :
    (stageForbidden db f).holds p ↔ ¬ hasForb db p.id f.forbidden := by
  unfold stageForbidden
  split
  · rename_i h
    rw [isEmpty_eq_true_iff] at h
    simp [Stage.holds, hasForb, h]
  · simp only
    split
    · rename_i h
      rw [isEmpty_eq_true_iff] at h
      simp only [Stage.holds, true_iff]
      intro hr
      have := (mem_idsHavingAnyTrait db f.forbidden p.id).mpr hr
      rw [h] at this; simp at this
    · simp only [Stage.holds, Bool.not_eq_true', ← Bool.not_eq_true]
      exact not_congr (mem_idsHavingAnyTrait db f.forbidden p.id)

theorem stageMemberOf_holds (db : DB R) (hk : AggsKnown db) (f : Filters) {p : RpRow} (hp : p ∈ db.rps) :
    (stageMemberOf db f).holds p ↔ inAggs db p.id f.memberOf := by
  unfold stageMemberOf
  split
  · rename_i h
    rw [isEmpty_eq_true_iff] at h
    simp [Stage.holds, inAggs, h]
  · simp only
    split
    · rename_i h
      rw [isEmpty_eq_true_iff] at h
      simp only [Stage.holds, false_iff]
      intro hr
      have := (mem_idsMatchingAggregates db hk f.memberOf hp).mpr hr
      rw [h] at this; simp at this
    · simp only [Stage.holds]
      exact mem_idsMatchingAggregates db hk f.memberOf hp

theorem stageForbiddenAggs_holds (db : DB R) (hk : AggsKnown db) (f : Filters) {p : RpRow} (hp : p ∈ db.rps) :
    (stageForbiddenAggs db f).holds p ↔ ¬ inBad db p.id f.forbiddenAggs := by
  unfold stageForbiddenAggs
  split
  · rename_i h
    rw [isEmpty_eq_true_iff] at h
    simp [Stage.holds, inBad, h]
  · simp only
    split
    · rename_i h
      rw [isEmpty_eq_true_iff] at h
      simp only [Stage.holds, true_iff]
      intro hr
      have := (mem_idsMatchingAggregates db hk [f.forbiddenAggs] hp).mpr ((inAggs_singleton db p.id _).mpr hr)
      rw [h] at this; simp at this
    · simp only [Stage.holds, Bool.not_eq_true', ← Bool.not_eq_true]
      exact not_congr ((mem_idsMatchingAggregates db hk [f.forbiddenAggs] hp).trans (inAggs_singleton db p.id _))

variable [CapOps R]

theorem mem_idsWithResource (db : DB R) (rc : Nat) (n : Int) (p : Nat) :
    (idsWithResource db rc n).contains p = true ↔ room db p rc n := by
  simp only [idsWithResource, List.contains_iff_mem, List.mem_map, List.mem_filter, room, capacityClause,
    Bool.and_eq_true, beq_iff_eq, Bool.not_eq_true', decide_eq_true_eq, ge_iff_le]
  constructor
  · rintro ⟨i, ⟨hi, hrc, ⟨⟨hc, hmin⟩, hmax⟩, hstep⟩, hrp⟩
    subst hrp; subst hrc
    exact ⟨i, hi, rfl, rfl, hc, hmin, hmax, hstep⟩
  · rintro ⟨i, hi, hrp, hrc, hc, hmin, hmax, hstep⟩
    subst hrp; subst hrc
    exact ⟨i, ⟨hi, rfl, ⟨⟨hc, hmin⟩, hmax⟩, hstep⟩, rfl⟩

theorem stagesResources_holds (db : DB R) (f : Filters) (p : RpRow) :
    (∀ s ∈ stagesResources db f, s.holds p) ↔ ∀ e ∈ f.resources, room db p.id e.1 e.2 := by
  unfold stagesResources
  simp only [List.mem_map, forall_exists_index, and_imp, forall_apply_eq_imp_iff₂, Stage.holds]
  constructor
  · intro h e he; exact (mem_idsWithResource db e.1 e.2 p.id).mp (h e he)
  · intro h e he; exact (mem_idsWithResource db e.1 e.2 p.id).mpr (h e he)

theorem runStages_empty {ss : List Stage} (h : Stage.empty ∈ ss) : ∀ rows, runStages ss rows = [] := by
  induction ss with
  | nil => cases h
  | cons s rest ih =>
    intro rows
    cases s with
    | empty => simp [runStages]
    | clause g =>
      simp only [runStages]
      exact ih (by simpa using h) _

omit [CapOps R] in
theorem resolveResources_none (db : DB R) {res : List (Nat × Int)} {n : Nat} {a : Int} (hm : (n, a) ∈ res)
    (hn : db.rcId n = none) : resolveResources db res = none := by
  induction res with
  | nil => cases hm
  | cons e rest ih =>
    obtain ⟨n', a'⟩ := e
    rcases List.mem_cons.mp hm with h | h
    · cases h
      simp [resolveResources, hn]
    · simp only [resolveResources, ih h]
      cases db.rcId n' <;> rfl

end Placement.Spec
