import Placement.Lemmas.SyncL2
/-
  C19, part 3: the six requests that write the tables `rcs` / `traits` (exact effect and status of each), the
  rows with non-custom names are never touched by any request (`stdSame_step`), the invariants of
  `SyncL2.lean` are kept by every request, by `sync` and by `dropStd`, hence hold in every state of a history
  that interleaves the three (`ReachSync`).
-/
set_option linter.unusedSectionVars false
namespace Placement.SyncL
open Placement Placement.Wf
variable {R : Type}

/-! ### the six handlers: status and effect -/

theorem min_le_nextRcId (db : DB R) : minCustomRcId ≤ nextRcId db := by
  unfold nextRcId
  dsimp only
  split <;> omega

theorem rcId_eq_none {db : DB R} {n : Nat} (h : db.rcId n = none) : ∀ p ∈ db.rcs, p.2 ≠ n :=
  rcId_isNone (by rw [h]; simp)

theorem rcId_isSome_iff {db : DB R} {n : Nat} : (db.rcId n).isSome = true ↔ ∃ p ∈ db.rcs, p.2 = n := by
  constructor
  · intro h
    obtain ⟨id, hid⟩ := Option.isSome_iff_exists.1 h
    exact ⟨(id, n), rcId_some hid, rfl⟩
  · rintro ⟨p, hp, e⟩
    cases h : db.rcId n with
    | some _ => rfl
    | none => exact absurd e (rcId_eq_none h p hp)

/-- PUT /traits/{name}: 400 for a non-custom name; 204 and nothing changes for an existing name; otherwise 201
and the name is appended -/
theorem hTraitPut_spec (db : DB R) (n : Nat) :
    (hTraitPut db n = (db, r400) ∧ isCustom n = false) ∨
    (hTraitPut db n = (db, r204) ∧ isCustom n = true ∧ n ∈ db.traits) ∨
    (hTraitPut db n = ({ db with traits := db.traits ++ [n] }, r201) ∧ isCustom n = true ∧ n ∉ db.traits) := by
  unfold hTraitPut createTrait
  cases hc : isCustom n with
  | false => exact .inl ⟨by simp, rfl⟩
  | true =>
    by_cases hm : n ∈ db.traits
    · exact .inr (.inl ⟨by simp [hm], rfl, hm⟩)
    · exact .inr (.inr ⟨by simp [hm], rfl, hm⟩)

/-- POST /resource_classes: 400 for a non-custom name; 409 and nothing changes for an existing name; otherwise
201 and the row `(nextRcId db, name)` is appended -/
theorem hRcPost_spec (db : DB R) (n : Nat) :
    (hRcPost db n = (db, r400) ∧ isCustom n = false) ∨
    (hRcPost db n = (db, r409) ∧ isCustom n = true ∧ (db.rcId n).isSome = true) ∨
    (hRcPost db n = ({ db with rcs := db.rcs ++ [(nextRcId db, n)] }, r201) ∧ isCustom n = true ∧
      db.rcId n = none) := by
  unfold hRcPost createRc
  cases hc : isCustom n with
  | false => exact .inl ⟨by simp, rfl⟩
  | true =>
    cases hm : db.rcId n with
    | some id => exact .inr (.inl ⟨by simp, rfl, rfl⟩)
    | none => exact .inr (.inr ⟨by simp, rfl, rfl⟩)

/-- PUT /resource_classes/{name} (1.7+): as POST, but an existing name is 204 -/
theorem hRcPut_spec (db : DB R) (n : Nat) :
    (hRcPut db n = (db, r400) ∧ isCustom n = false) ∨
    (hRcPut db n = (db, r204) ∧ isCustom n = true ∧ (db.rcId n).isSome = true) ∨
    (hRcPut db n = ({ db with rcs := db.rcs ++ [(nextRcId db, n)] }, r201) ∧ isCustom n = true ∧
      db.rcId n = none) := by
  unfold hRcPut createRc
  cases hc : isCustom n with
  | false => exact .inl ⟨by simp, rfl⟩
  | true =>
    cases hm : db.rcId n with
    | some id => exact .inr (.inl ⟨by simp, rfl, rfl⟩)
    | none => exact .inr (.inr ⟨by simp, rfl, rfl⟩)

/-- DELETE /traits/{name} changes the state only for a custom name, by removing it -/
theorem hTraitDelete_spec (db : DB R) (n : Nat) :
    (hTraitDelete db n).1 = db ∨
    (isCustom n = true ∧ (hTraitDelete db n).1 = { db with traits := db.traits.filter (· != n) }) := by
  rcases hTraitDelete_cases db n with h | ⟨db', h1, h2⟩
  · exact .inl h
  · obtain ⟨rfl, hc, -⟩ := deleteTrait_ok h1
    exact .inr ⟨hc, h2⟩

/-- DELETE /resource_classes/{name} changes the state only by removing the rows of an id >= 10000 -/
theorem hRcDelete_spec (db : DB R) (n : Nat) :
    (hRcDelete db n).1 = db ∨
    ∃ id, minCustomRcId ≤ id ∧ (hRcDelete db n).1 = { db with rcs := db.rcs.filter (·.1 != id) } := by
  rcases hRcDelete_cases db n with h | ⟨id, db', _, h1, h2⟩
  · exact .inl h
  · obtain ⟨rfl, hc, -⟩ := deleteRc_ok h1
    exact .inr ⟨id, hc, h2⟩

/-- PUT /resource_classes/{name} (1.2 - 1.6, rename) changes the state only by renaming the rows of an id
>= 10000 to a custom name that no other row has -/
theorem hRcRename_spec (db : DB R) (o n : Nat) :
    (hRcRename db o n).1 = db ∨
    ∃ id, minCustomRcId ≤ id ∧ isCustom n = true ∧ (∀ p ∈ db.rcs, p.1 ≠ id → p.2 ≠ n) ∧
      (hRcRename db o n).1 = { db with rcs := db.rcs.map (fun p => if p.1 == id then (id, n) else p) } := by
  unfold hRcRename
  split
  · exact .inl rfl
  · next hc =>
    split
    · exact .inl rfl
    · next id hid =>
      split
      · next db' hr =>
        obtain ⟨rfl, h1, h2⟩ := renameRc_ok hr
        exact .inr ⟨id, h1, by simpa using hc, h2, rfl⟩
      all_goals exact .inl rfl

/-! ### rows with non-custom names are never touched -/

/-- the rows with non-custom names of both tables are the same, in the same order -/
def StdSame (db db' : DB R) : Prop :=
  db'.rcs.filter (fun p => !isCustom p.2) = db.rcs.filter (fun p => !isCustom p.2) ∧
  db'.traits.filter (fun t => !isCustom t) = db.traits.filter (fun t => !isCustom t)

theorem StdSame.refl (db : DB R) : StdSame db db := ⟨rfl, rfl⟩
theorem StdSame.of_eq {db db' : DB R} (h : db' = db) : StdSame db db' := h ▸ StdSame.refl db
theorem StdSame.of_symEq {db db' : DB R} (h : SymEq db db') : StdSame db db' := by
  unfold StdSame; rw [h.1, h.2]; exact ⟨rfl, rfl⟩

theorem stdSame_snoc_rc (db : DB R) {q : Nat × Nat} (h : isCustom q.2 = true) :
    StdSame db { db with rcs := db.rcs ++ [q] } := by
  refine ⟨?_, rfl⟩
  show (db.rcs ++ [q]).filter _ = _
  rw [List.filter_append]
  simp [h]

theorem stdSame_snoc_trait (db : DB R) {t : Nat} (h : isCustom t = true) :
    StdSame db { db with traits := db.traits ++ [t] } := by
  refine ⟨rfl, ?_⟩
  show (db.traits ++ [t]).filter _ = _
  rw [List.filter_append]
  simp [h]

theorem stdSame_hTraitPut (db : DB R) (n : Nat) : StdSame db (hTraitPut db n).1 := by
  rcases hTraitPut_spec db n with ⟨h, _⟩ | ⟨h, _⟩ | ⟨h, hc, _⟩
  · rw [h]; exact .refl _
  · rw [h]; exact .refl _
  · rw [h]; exact stdSame_snoc_trait db hc

theorem stdSame_hRcPost (db : DB R) (n : Nat) : StdSame db (hRcPost db n).1 := by
  rcases hRcPost_spec db n with ⟨h, _⟩ | ⟨h, _⟩ | ⟨h, hc, _⟩
  · rw [h]; exact .refl _
  · rw [h]; exact .refl _
  · rw [h]; exact stdSame_snoc_rc db hc

theorem stdSame_hRcPut (db : DB R) (n : Nat) : StdSame db (hRcPut db n).1 := by
  rcases hRcPut_spec db n with ⟨h, _⟩ | ⟨h, _⟩ | ⟨h, hc, _⟩
  · rw [h]; exact .refl _
  · rw [h]; exact .refl _
  · rw [h]; exact stdSame_snoc_rc db hc

theorem stdSame_hTraitDelete (db : DB R) (n : Nat) : StdSame db (hTraitDelete db n).1 := by
  rcases hTraitDelete_spec db n with h | ⟨hc, h⟩
  · rw [h]; exact .refl _
  · rw [h]
    refine ⟨rfl, ?_⟩
    show (db.traits.filter (· != n)).filter _ = _
    rw [List.filter_filter]
    apply List.filter_congr
    intro t _
    cases ht : isCustom t with
    | true => simp
    | false =>
      have : t ≠ n := by intro e; rw [e, hc] at ht; cases ht
      simp [this]

theorem stdSame_hRcDelete {db : DB R} (hL : StdIdsLow db) (n : Nat) : StdSame db (hRcDelete db n).1 := by
  rcases hRcDelete_spec db n with h | ⟨id, hid, h⟩
  · rw [h]; exact .refl _
  · rw [h]
    refine ⟨?_, rfl⟩
    show (db.rcs.filter (·.1 != id)).filter _ = _
    rw [List.filter_filter]
    apply List.filter_congr
    intro p hp
    cases hc : isCustom p.2 with
    | true => simp
    | false =>
      have := hL p hp hc
      have : p.1 ≠ id := by omega
      simp [this]

theorem stdSame_hRcRename {db : DB R} (hL : StdIdsLow db) (o n : Nat) : StdSame db (hRcRename db o n).1 := by
  rcases hRcRename_spec db o n with h | ⟨id, hid, hn, -, h⟩
  · rw [h]; exact .refl _
  · rw [h]
    refine ⟨?_, rfl⟩
    show (db.rcs.map _).filter _ = _
    apply filter_map_eq_filter
    intro p hp
    constructor
    · intro hq
      have hc : isCustom p.2 = false := by simpa using hq
      have := hL p hp hc
      have : p.1 ≠ id := by omega
      simp [this]
    · intro hq
      by_cases e : p.1 = id
      · simp [e, hn]
      · simp only [beq_iff_eq, e, if_false]; exact hq

section
variable [CapOps R]

/-- **no request creates, deletes or renames a row with a non-custom name** (given that such class rows have
ids < 10000; `deleteRc` / `renameRc` decide "standard" by the id) -/
theorem stdSame_step (cfg : Config) {db : DB R} (hL : StdIdsLow db) (op : Op R) : StdSame db (step cfg db op).1 := by
  cases ht : touchesSym op with
  | false => exact .of_symEq (step_sym cfg db op ht)
  | true =>
    cases op with
    | traitPut n => exact stdSame_hTraitPut db n
    | traitDelete n => exact stdSame_hTraitDelete db n
    | rcPost n => exact stdSame_hRcPost db n
    | rcPut n => exact stdSame_hRcPut db n
    | rcRename o n => exact stdSame_hRcRename hL o n
    | rcDelete n => exact stdSame_hRcDelete hL n
    | _ => cases ht

end

/-! ### consequences of `StdSame` -/

theorem mem_rcs_of_stdSame {db db' : DB R} (h : StdSame db db') {p : Nat × Nat} (hp : p ∈ db'.rcs)
    (hc : isCustom p.2 = false) : p ∈ db.rcs := by
  have : p ∈ db'.rcs.filter (fun p => !isCustom p.2) := List.mem_filter.2 ⟨hp, by simp [hc]⟩
  rw [h.1] at this
  exact (List.mem_filter.1 this).1

theorem mem_traits_of_stdSame {db db' : DB R} (h : StdSame db db') {t : Nat} (ht : t ∈ db'.traits)
    (hc : isCustom t = false) : t ∈ db.traits := by
  have : t ∈ db'.traits.filter (fun t => !isCustom t) := List.mem_filter.2 ⟨ht, by simp [hc]⟩
  rw [h.2] at this
  exact (List.mem_filter.1 this).1

theorem StdSame.symm {db db' : DB R} (h : StdSame db db') : StdSame db' db := ⟨h.1.symm, h.2.symm⟩

theorem stdOk_of_stdSame {stdRcs stdTraits : List Nat} {db db' : DB R} (h : StdSame db db')
    (hS : StdOk stdRcs stdTraits db) : StdOk stdRcs stdTraits db' :=
  ⟨fun p hp hc => hS.1 p (mem_rcs_of_stdSame h hp hc) hc,
   fun t ht hc => hS.2 t (mem_traits_of_stdSame h ht hc) hc⟩

theorem stdIdsLow_of_stdSame {db db' : DB R} (h : StdSame db db') (hS : StdIdsLow db) : StdIdsLow db' :=
  fun p hp hc => hS p (mem_rcs_of_stdSame h hp hc) hc

theorem synced_of_stdSame {stdRcs stdTraits : List Nat} (hR : AllStd stdRcs) (hT : AllStd stdTraits)
    {db db' : DB R} (h : StdSame db db') (hS : Synced stdRcs stdTraits db) : Synced stdRcs stdTraits db' :=
  ⟨fun t ht => mem_traits_of_stdSame h.symm (hS.1 t ht) (hT t ht),
   fun p hp => mem_rcs_of_stdSame (p := (p.2, p.1)) h.symm (hS.2 p hp) (hR p.1 (List.fst_mem_of_mem_zipIdx hp))⟩

/-! ### `CustomIdsOk` and `RcT` under the six handlers -/

theorem customIdsOk_snoc {db : DB R} (h : CustomIdsOk db) (n : Nat) :
    CustomIdsOk { db with rcs := db.rcs ++ [(nextRcId db, n)] } := by
  intro p hp hc
  rcases List.mem_append.1 hp with hp | hp
  · exact h p hp hc
  · rw [List.mem_singleton.1 hp]; exact min_le_nextRcId db

theorem rcT_snoc_rc {db : DB R} (h : RcT db) {n : Nat} (hn : db.rcId n = none) :
    RcT { db with rcs := db.rcs ++ [(nextRcId db, n)] } :=
  ⟨by
    show ((db.rcs ++ [(nextRcId db, n)]).map (·.1)).Nodup
    rw [L.nodup_map_snoc]
    exact ⟨h.rcId, fun a ha => by have := lt_nextRcId a ha; simp; omega⟩,
   by
    show ((db.rcs ++ [(nextRcId db, n)]).map (·.2)).Nodup
    rw [L.nodup_map_snoc]
    exact ⟨h.rcName, fun a ha => rcId_eq_none hn a ha⟩,
   h.traits⟩

theorem rcT_snoc_trait {db : DB R} (h : RcT db) {n : Nat} (hn : n ∉ db.traits) :
    RcT { db with traits := db.traits ++ [n] } :=
  ⟨h.rcId, h.rcName, by
    show (db.traits ++ [n]).Nodup
    rw [List.nodup_append]
    refine ⟨h.traits, by simp, ?_⟩
    intro a ha b hb e
    rw [List.mem_singleton.1 hb] at e
    exact hn (e ▸ ha)⟩

theorem rcT_rename {db : DB R} (h : RcT db) {id n : Nat} (hfree : ∀ p ∈ db.rcs, p.1 ≠ id → p.2 ≠ n) :
    RcT { db with rcs := db.rcs.map (fun p => if p.1 == id then (id, n) else p) } := by
  have hid : ∀ p : Nat × Nat, (if p.1 == id then (id, n) else p).1 = p.1 := by
    intro p; split
    · next e => simp at e; simp [e]
    · rfl
  refine ⟨?_, ?_, h.traits⟩
  · show ((db.rcs.map _).map (fun p : Nat × Nat => p.1)).Nodup
    rw [L.map_map_key _ (fun a _ => hid a)]; exact h.rcId
  · show ((db.rcs.map _).map (fun p : Nat × Nat => p.2)).Nodup
    rw [List.map_map, L.nodup_map_iff_pairwise]
    have h1 := L.nodup_map_iff_pairwise.1 h.rcId
    have h2 := L.nodup_map_iff_pairwise.1 h.rcName
    refine (h1.and h2).imp_of_mem ?_
    intro a b ha hb ⟨hi, hn⟩
    simp only [Function.comp]
    by_cases ea : a.1 = id <;> by_cases eb : b.1 = id
    · exact absurd (ea.trans eb.symm) hi
    · simp only [ea, eb, beq_self_eq_true, if_true, beq_iff_eq, if_false]; exact fun e => hfree b hb eb e.symm
    · simp only [ea, eb, beq_self_eq_true, if_true, beq_iff_eq, if_false]; exact fun e => hfree a ha ea e
    · simp only [ea, eb, beq_iff_eq, if_false]; exact hn

theorem customIdsOk_rename {db : DB R} (h : CustomIdsOk db) {id : Nat} (hid : minCustomRcId ≤ id) (n : Nat) :
    CustomIdsOk { db with rcs := db.rcs.map (fun p => if p.1 == id then (id, n) else p) } := by
  intro p hp hc
  obtain ⟨q, hq, rfl⟩ := List.mem_map.1 hp
  by_cases e : q.1 = id
  · simp [e]; exact hid
  · simp only [beq_iff_eq, e, if_false] at hc ⊢
    exact h q hq hc

section
variable [CapOps R]

/-- custom classes keep ids >= 10000 under every request (no hypothesis) -/
theorem customIdsOk_step (cfg : Config) {db : DB R} (h : CustomIdsOk db) (op : Op R) :
    CustomIdsOk (step cfg db op).1 := by
  cases ht : touchesSym op with
  | false =>
    have e := (step_sym cfg db op ht).1
    intro p hp; rw [e] at hp; exact h p hp
  | true =>
    cases op with
    | traitPut n =>
      show CustomIdsOk (hTraitPut db n).1
      rcases hTraitPut_spec db n with ⟨e, _⟩ | ⟨e, _⟩ | ⟨e, _⟩ <;> rw [e] <;> exact h
    | traitDelete n =>
      show CustomIdsOk (hTraitDelete db n).1
      rcases hTraitDelete_spec db n with e | ⟨_, e⟩ <;> rw [e] <;> exact h
    | rcPost n =>
      show CustomIdsOk (hRcPost db n).1
      rcases hRcPost_spec db n with ⟨e, _⟩ | ⟨e, _⟩ | ⟨e, _⟩ <;> rw [e]
      · exact h
      · exact h
      · exact customIdsOk_snoc h n
    | rcPut n =>
      show CustomIdsOk (hRcPut db n).1
      rcases hRcPut_spec db n with ⟨e, _⟩ | ⟨e, _⟩ | ⟨e, _⟩ <;> rw [e]
      · exact h
      · exact h
      · exact customIdsOk_snoc h n
    | rcRename o n =>
      show CustomIdsOk (hRcRename db o n).1
      rcases hRcRename_spec db o n with e | ⟨id, hid, _, _, e⟩ <;> rw [e]
      · exact h
      · exact customIdsOk_rename h hid n
    | rcDelete n =>
      show CustomIdsOk (hRcDelete db n).1
      rcases hRcDelete_spec db n with e | ⟨id, _, e⟩ <;> rw [e]
      · exact h
      · exact fun p hp hc => h p (List.mem_filter.1 hp).1 hc
    | _ => cases ht

/-- ids, class names and trait names stay unique under every request (no hypothesis on the request) -/
theorem rcT_step (cfg : Config) {db : DB R} (h : RcT db) (op : Op R) : RcT (step cfg db op).1 := by
  cases ht : touchesSym op with
  | false => exact h.of_symEq (step_sym cfg db op ht)
  | true =>
    cases op with
    | traitPut n =>
      show RcT (hTraitPut db n).1
      rcases hTraitPut_spec db n with ⟨e, _⟩ | ⟨e, _⟩ | ⟨e, _, hn⟩ <;> rw [e]
      · exact h
      · exact h
      · exact rcT_snoc_trait h hn
    | traitDelete n =>
      show RcT (hTraitDelete db n).1
      rcases hTraitDelete_spec db n with e | ⟨_, e⟩ <;> rw [e]
      · exact h
      · exact ⟨h.rcId, h.rcName, h.traits.filter _⟩
    | rcPost n =>
      show RcT (hRcPost db n).1
      rcases hRcPost_spec db n with ⟨e, _⟩ | ⟨e, _⟩ | ⟨e, _, hn⟩ <;> rw [e]
      · exact h
      · exact h
      · exact rcT_snoc_rc h hn
    | rcPut n =>
      show RcT (hRcPut db n).1
      rcases hRcPut_spec db n with ⟨e, _⟩ | ⟨e, _⟩ | ⟨e, _, hn⟩ <;> rw [e]
      · exact h
      · exact h
      · exact rcT_snoc_rc h hn
    | rcRename o n =>
      show RcT (hRcRename db o n).1
      rcases hRcRename_spec db o n with e | ⟨id, _, _, hf, e⟩ <;> rw [e]
      · exact h
      · exact rcT_rename h hf
    | rcDelete n =>
      show RcT (hRcDelete db n).1
      rcases hRcDelete_spec db n with e | ⟨id, _, e⟩ <;> rw [e]
      · exact h
      · exact ⟨L.nodup_map_filter _ h.rcId, L.nodup_map_filter _ h.rcName, h.traits⟩
    | _ => cases ht

end

/-! ### the bundled invariant and histories -/

/-- assumptions on the two library lists -/
structure Params (stdRcs stdTraits : List Nat) : Prop where
  rcsStd : AllStd stdRcs
  traitsStd : AllStd stdTraits
  rcsNodup : stdRcs.Nodup
  traitsNodup : stdTraits.Nodup
  rcsLen : stdRcs.length ≤ minCustomRcId

/-- the C19 invariant of the two tables -/
structure Inv (stdRcs stdTraits : List Nat) (db : DB R) : Prop where
  std : StdOk stdRcs stdTraits db
  custom : CustomIdsOk db
  uniq : RcT db

theorem Inv.idsLow {stdRcs stdTraits : List Nat} (hP : Params stdRcs stdTraits) {db : DB R}
    (h : Inv stdRcs stdTraits db) : StdIdsLow db := stdIdsLow_of_stdRcsOk hP.rcsLen h.std.1

theorem inv_init {stdRcs stdTraits : List Nat} (hP : Params stdRcs stdTraits) :
    Inv stdRcs stdTraits (initDb stdRcs stdTraits : DB R) :=
  ⟨stdOk_init _ _, customIdsOk_init hP.rcsStd _, rcT_init hP.rcsNodup hP.traitsNodup⟩

theorem inv_empty (stdRcs stdTraits : List Nat) : Inv stdRcs stdTraits ({} : DB R) :=
  ⟨stdOk_empty _ _, customIdsOk_empty, rcT_empty⟩

theorem inv_sync {stdRcs stdTraits : List Nat} (hP : Params stdRcs stdTraits) {db : DB R}
    (h : Inv stdRcs stdTraits db) : Inv stdRcs stdTraits (sync stdRcs stdTraits db) :=
  ⟨stdOk_sync h.std, customIdsOk_sync hP.rcsStd h.custom,
   rcT_sync hP.rcsStd hP.traitsStd hP.rcsNodup hP.rcsLen h.std.1 h.custom h.uniq⟩

theorem inv_dropStd {stdRcs stdTraits : List Nat} {db : DB R} (rcNames traitNames : List Nat)
    (h : Inv stdRcs stdTraits db) : Inv stdRcs stdTraits (dropStd rcNames traitNames db) :=
  ⟨stdOk_dropStd _ _ h.std, customIdsOk_dropStd _ _ h.custom, rcT_dropStd _ _ h.uniq⟩

section
variable [CapOps R]

theorem inv_step {stdRcs stdTraits : List Nat} (hP : Params stdRcs stdTraits) (cfg : Config) {db : DB R}
    (h : Inv stdRcs stdTraits db) (op : Op R) : Inv stdRcs stdTraits (step cfg db op).1 :=
  ⟨stdOk_of_stdSame (stdSame_step cfg (h.idsLow hP) op) h.std, customIdsOk_step cfg h.custom op,
   rcT_step cfg h.uniq op⟩

theorem synced_step {stdRcs stdTraits : List Nat} (hP : Params stdRcs stdTraits) (cfg : Config) {db : DB R}
    (h : Inv stdRcs stdTraits db) (hS : Synced stdRcs stdTraits db) (op : Op R) :
    Synced stdRcs stdTraits (step cfg db op).1 :=
  synced_of_stdSame hP.rcsStd hP.traitsStd (stdSame_step cfg (h.idsLow hP) op) hS

/-- histories that interleave API requests with the start-up synchronisation and with the harness-only SQL
deletion of standard rows, from the empty or the synchronised empty database -/
inductive ReachSync (cfg : Config) (stdRcs stdTraits : List Nat) : DB R → Prop
  | empty : ReachSync cfg stdRcs stdTraits {}
  | init : ReachSync cfg stdRcs stdTraits (initDb stdRcs stdTraits)
  | step (db : DB R) (op : Op R) : ReachSync cfg stdRcs stdTraits db →
      ReachSync cfg stdRcs stdTraits (Placement.step cfg db op).1
  | sync (db : DB R) : ReachSync cfg stdRcs stdTraits db →
      ReachSync cfg stdRcs stdTraits (Placement.sync stdRcs stdTraits db)
  | dropStd (db : DB R) (rcNames traitNames : List Nat) : ReachSync cfg stdRcs stdTraits db →
      ReachSync cfg stdRcs stdTraits (Placement.dropStd rcNames traitNames db)

theorem ReachSync.of_reach {cfg : Config} {stdRcs stdTraits : List Nat} {db : DB R}
    (h : Reach cfg stdRcs stdTraits db) : ReachSync cfg stdRcs stdTraits db := by
  induction h with
  | init => exact .init
  | step db op _ ih => exact .step db op ih

theorem reachSync_inv {cfg : Config} {stdRcs stdTraits : List Nat} (hP : Params stdRcs stdTraits) {db : DB R}
    (h : ReachSync cfg stdRcs stdTraits db) : Inv stdRcs stdTraits db := by
  induction h with
  | empty => exact inv_empty _ _
  | init => exact inv_init hP
  | step db op _ ih => exact inv_step hP cfg ih op
  | sync db _ ih => exact inv_sync hP ih
  | dropStd db a b _ ih => exact inv_dropStd a b ih

/-- states reached from a `sync` by API requests and further `sync`s only (no deletion in between) -/
inductive SinceSync (cfg : Config) (stdRcs stdTraits : List Nat) : DB R → Prop
  | sync (db : DB R) : ReachSync cfg stdRcs stdTraits db →
      SinceSync cfg stdRcs stdTraits (Placement.sync stdRcs stdTraits db)
  | init : SinceSync cfg stdRcs stdTraits (initDb stdRcs stdTraits)
  | step (db : DB R) (op : Op R) : SinceSync cfg stdRcs stdTraits db →
      SinceSync cfg stdRcs stdTraits (Placement.step cfg db op).1
  | again (db : DB R) : SinceSync cfg stdRcs stdTraits db →
      SinceSync cfg stdRcs stdTraits (Placement.sync stdRcs stdTraits db)

theorem SinceSync.reach {cfg : Config} {stdRcs stdTraits : List Nat} {db : DB R}
    (h : SinceSync cfg stdRcs stdTraits db) : ReachSync cfg stdRcs stdTraits db := by
  induction h with
  | sync db h => exact .sync db h
  | init => exact .init
  | step db op _ ih => exact .step db op ih
  | again db _ ih => exact .sync db ih

theorem sinceSync_synced {cfg : Config} {stdRcs stdTraits : List Nat} (hP : Params stdRcs stdTraits) {db : DB R}
    (h : SinceSync cfg stdRcs stdTraits db) : Synced stdRcs stdTraits db := by
  induction h with
  | sync db h => exact synced_sync hP.rcsNodup (reachSync_inv hP h).std.1
  | init => exact synced_init _ _
  | step db op h ih => exact synced_step hP cfg (reachSync_inv hP h.reach) ih op
  | again db h _ => exact synced_sync hP.rcsNodup (reachSync_inv hP h.reach).std.1

end

end Placement.SyncL
