import Placement.Lemmas.AllocStep
/-
  Helper lemmas for C01, part 7: the parts of the state invariants that C01 uses (`StateOK`, plus
  "fresh provider ids are above every id in use") are preserved by every request, so the step
  theorems lift to histories.
-/
set_option linter.unusedSectionVars false
set_option linter.unusedSimpArgs false
namespace Placement
variable {R : Type} [CapOps R]

/-! ### provider ids and class ids -/

/-- provider ids are unique and below the next fresh id -/
def RpOK (db : DB R) : Prop := RpIdsNodup db ∧ ∀ r ∈ db.rps, r.id < db.nextRp

/-- no provider id appears, the fresh-id counter does not decrease, classes untouched -/
def Stable (db db' : DB R) : Prop :=
  (db'.rps.map (·.id)).Sublist (db.rps.map (·.id)) ∧ db.nextRp ≤ db'.nextRp ∧ db'.rcs = db.rcs

theorem Stable.refl (db : DB R) : Stable db db := ⟨List.Sublist.refl _, Nat.le_refl _, rfl⟩
theorem Stable.trans {a b c : DB R} (h1 : Stable a b) (h2 : Stable b c) : Stable a c :=
  ⟨h2.1.trans h1.1, Nat.le_trans h1.2.1 h2.2.1, h2.2.2.trans h1.2.2⟩

theorem Stable.rpOK {db db' : DB R} (h : Stable db db') (hr : RpOK db) : RpOK db' := by
  refine ⟨List.Nodup.sublist h.1 hr.1, ?_⟩
  intro r hm
  have : r.id ∈ db.rps.map (·.id) := h.1.subset (List.mem_map_of_mem hm)
  obtain ⟨r0, hr0, e⟩ := List.mem_map.mp this
  have := hr.2 r0 hr0
  have := h.2.1
  omega

theorem Stable.rcIds {db db' : DB R} (h : Stable db db') (hr : RcIdsNodup db) : RcIdsNodup db' := by
  simp only [RcIdsNodup, h.2.2]; exact hr

theorem ConsOnly.stable {db d : DB R} (h : ConsOnly db d) : Stable db d :=
  ⟨by rw [h.1]; exact List.Sublist.refl _, Nat.le_of_eq h.2.2.2.2.symm, h.2.2.2.1⟩

theorem stable_of_map {db db' : DB R} (f : RpRow → RpRow) (hf : ∀ r, (f r).id = r.id)
    (h1 : db'.rps = db.rps.map f) (h2 : db'.nextRp = db.nextRp) (h3 : db'.rcs = db.rcs) :
    Stable db db' := by
  refine ⟨?_, Nat.le_of_eq h2.symm, h3⟩
  rw [h1, List.map_map]
  have : ((fun r : RpRow => r.id) ∘ f) = (fun r => r.id) := by funext r; exact hf r
  rw [this]; exact List.Sublist.refl _

theorem incRpGen_stable {db db' : DB R} {id gen : Nat} (h : incRpGen db id gen = .ok db') :
    Stable db db' := by
  unfold incRpGen at h
  split at h
  · cases h
    refine stable_of_map (fun r => if r.id == id then { r with gen := gen + 1 } else r) ?_ rfl rfl rfl
    intro r; split <;> rfl
  · cases h

theorem incConsGen_stable {db db' : DB R} {id gen : Nat} (h : incConsGen db id gen = .ok db') :
    Stable db db' := by
  unfold incConsGen at h
  split at h
  · cases h; exact ⟨List.Sublist.refl _, Nat.le_refl _, rfl⟩
  · cases h

theorem incRpGens_stable {db db' : DB R} {l : List (Nat × Nat)} (h : incRpGens db l = .ok db') :
    Stable db db' := by
  induction l generalizing db with
  | nil => cases h; exact Stable.refl _
  | cons p l ih =>
    obtain ⟨id, gen⟩ := p
    unfold incRpGens at h
    obtain ⟨d, h1, h2⟩ := bind_ok h
    exact (incRpGen_stable h1).trans (ih h2)

theorem incConsGens_stable {db db' : DB R} {l : List (Nat × Nat)} (h : incConsGens db l = .ok db') :
    Stable db db' := by
  induction l generalizing db with
  | nil => cases h; exact Stable.refl _
  | cons p l ih =>
    obtain ⟨id, gen⟩ := p
    unfold incConsGens at h
    obtain ⟨d, h1, h2⟩ := bind_ok h
    exact (incConsGen_stable h1).trans (ih h2)

theorem updateProvider_stable {db db' : DB R} {id n : Nat} {p : Option Nat} {b : Bool}
    (h : updateProvider db id n p b = .ok db') : Stable db db' := by
  unfold updateProvider at h
  dsimp only at h
  repeat' split at h
  all_goals first
    | (cases h
       refine stable_of_map _ ?_ rfl rfl rfl
       intro r; repeat' split
       all_goals rfl)
    | cases h

theorem deleteProvider_stable {db db' : DB R} {id : Nat} (h : deleteProvider db id = .ok db') :
    Stable db db' := by
  unfold deleteProvider at h
  repeat' split at h
  all_goals (first | cases h)
  exact ⟨List.Sublist.map _ List.filter_sublist, Nat.le_refl _, rfl⟩

theorem setInventory_stable {db db' : DB R} {rp gen : Nat} {L : List (InvSpec R)}
    (h : setInventory db rp gen L = .ok db') : Stable db db' := by
  unfold setInventory at h
  obtain ⟨T, _, h⟩ := bind_ok h
  dsimp only at h
  split at h
  · cases h
  · have := incRpGen_stable h; exact this

theorem addInventory_stable {db db' : DB R} {rp gen : Nat} {inv : InvSpec R}
    (h : addInventory db rp gen inv = .ok db') : Stable db db' := by
  unfold addInventory at h
  repeat' split at h
  all_goals (first | cases h | skip)
  have := incRpGen_stable h; exact this

theorem updateInventory_stable {db db' : DB R} {rp gen : Nat} {inv : InvSpec R}
    (h : updateInventory db rp gen inv = .ok db') : Stable db db' := by
  unfold updateInventory at h
  repeat' split at h
  all_goals (first | cases h | skip)
  have := incRpGen_stable h; exact this

theorem deleteInventory_stable {db db' : DB R} {rp gen rcn : Nat}
    (h : deleteInventory db rp gen rcn = .ok db') : Stable db db' := by
  unfold deleteInventory at h
  repeat' split at h
  all_goals (first | cases h | skip)
  have := incRpGen_stable h; exact this

theorem setTraits_stable {db db' : DB R} {rp gen : Nat} {ts : List Nat}
    (h : setTraits db rp gen ts = .ok db') : Stable db db' := by
  unfold setTraits at h
  dsimp only at h
  split at h
  · cases h; exact Stable.refl _
  · have := incRpGen_stable h; exact this

theorem setAggregates_stable {db db' : DB R} {rp gen : Nat} {as : List Nat} {b : Bool}
    (h : setAggregates db rp gen as b = .ok db') : Stable db db' := by
  unfold setAggregates at h
  dsimp only at h
  split at h
  · have := incRpGen_stable h; exact this
  · cases h; exact Stable.refl _

theorem createTrait_stable {db db' : DB R} {n : Nat} (h : createTrait db n = .ok db') :
    Stable db db' := by
  unfold createTrait at h
  split at h
  · cases h
  · cases h; exact Stable.refl _

theorem deleteTrait_stable {db db' : DB R} {n : Nat} (h : deleteTrait db n = .ok db') :
    Stable db db' := by
  unfold deleteTrait at h
  repeat' split at h
  all_goals (first | (cases h; exact Stable.refl _) | cases h)

theorem setAllocations_stable {db db' : DB R} {allocs : List AllocReq}
    (h : setAllocations db allocs = .ok db') : Stable db db' := by
  unfold setAllocations at h
  obtain ⟨_, _, h⟩ := bind_ok h
  obtain ⟨res, _, h⟩ := bind_ok h
  obtain ⟨d3, h3, h⟩ := bind_ok h
  obtain ⟨d4, h4, h⟩ := bind_ok h
  cases h
  have s3 := incRpGens_stable h3
  have s4 := incConsGens_stable h4
  exact (Stable.trans (by exact s3) s4 : Stable db d4)

/-! ### handlers: `Stable` -/

theorem hRpUpdate_stable (db : DB R) (mv u n : Nat) (p : Option (Option Nat)) :
    Stable db (hRpUpdate db mv u n p).1 := by
  unfold hRpUpdate
  dsimp only
  repeat' split
  all_goals first | exact Stable.refl _ | (rename_i h; exact updateProvider_stable h)

theorem hRpDelete_stable (db : DB R) (u : Nat) : Stable db (hRpDelete db u).1 := by
  unfold hRpDelete
  repeat' split
  all_goals first | exact Stable.refl _ | (rename_i h; exact deleteProvider_stable h)

theorem hInvSet_stable (db : DB R) (mv u g : Nat) (is : List (InvSpec R)) :
    Stable db (hInvSet db mv u g is).1 := by
  unfold hInvSet
  repeat' split
  all_goals first | exact Stable.refl _ | (rename_i h; exact setInventory_stable h)

theorem hInvAdd_stable (db : DB R) (mv u : Nat) (i : InvSpec R) :
    Stable db (hInvAdd db mv u i).1 := by
  unfold hInvAdd
  repeat' split
  all_goals first | exact Stable.refl _ | (rename_i h; exact addInventory_stable h)

theorem hInvUpdate_stable (db : DB R) (mv u g : Nat) (i : InvSpec R) :
    Stable db (hInvUpdate db mv u g i).1 := by
  unfold hInvUpdate
  repeat' split
  all_goals first | exact Stable.refl _ | (rename_i h; exact updateInventory_stable h)

theorem hInvDelete_stable (db : DB R) (u rc : Nat) : Stable db (hInvDelete db u rc).1 := by
  unfold hInvDelete
  repeat' split
  all_goals first | exact Stable.refl _ | (rename_i h; exact deleteInventory_stable h)

theorem hInvDeleteAll_stable (db : DB R) (mv u : Nat) : Stable db (hInvDeleteAll db mv u).1 := by
  unfold hInvDeleteAll
  repeat' split
  all_goals first | exact Stable.refl _ | (rename_i h; exact setInventory_stable h)

theorem hTraitPut_stable (db : DB R) (n : Nat) : Stable db (hTraitPut db n).1 := by
  unfold hTraitPut
  repeat' split
  all_goals first | exact Stable.refl _ | (rename_i h; exact createTrait_stable h)

theorem hTraitDelete_stable (db : DB R) (n : Nat) : Stable db (hTraitDelete db n).1 := by
  unfold hTraitDelete
  repeat' split
  all_goals first | exact Stable.refl _ | (rename_i h; exact deleteTrait_stable h)

theorem hRpTraitsSet_stable (db : DB R) (u g : Nat) (ts : List Nat) :
    Stable db (hRpTraitsSet db u g ts).1 := by
  unfold hRpTraitsSet
  repeat' split
  all_goals first | exact Stable.refl _ | (rename_i h; exact setTraits_stable h)

theorem hRpTraitsDelete_stable (db : DB R) (u : Nat) : Stable db (hRpTraitsDelete db u).1 := by
  unfold hRpTraitsDelete
  repeat' split
  all_goals first | exact Stable.refl _ | (rename_i h; exact setTraits_stable h)

theorem hAggsSet_stable (db : DB R) (mv u : Nat) (g : Option Nat) (as : List Nat) :
    Stable db (hAggsSet db mv u g as).1 := by
  unfold hAggsSet
  dsimp only
  repeat' split
  all_goals first | exact Stable.refl _ | (rename_i h; exact setAggregates_stable h)

theorem hAllocPut_stable (cfg : Config) (db : DB R) (mv : Nat) (c : ConsumerReq) :
    Stable db (hAllocPut cfg db mv c).1 := by
  rcases hAllocPut_cases cfg db mv c with ⟨hf, _⟩ | ⟨d1, d2, d3, cons, objs, h1, h2, ho, hs, h3⟩
  · exact hf.stable
  · exact (h2.stable.trans (setAllocations_stable hs)).trans h3.stable

theorem hAllocPost_stable (cfg : Config) (db : DB R) (mv : Nat) (cs : List ConsumerReq) :
    Stable db (hAllocPost cfg db mv cs).1 := by
  rcases hAllocPost_cases cfg db mv cs with
    ⟨hf, _⟩ | ⟨d1, d2, d3, triples, objs, h1, h2, ht, ho, hs, h3⟩
  · exact hf.stable
  · exact (h2.stable.trans (setAllocations_stable hs)).trans h3.stable

theorem hAllocDelete_stable (db : DB R) (c : Nat) : Stable db (hAllocDelete db c).1 := by
  unfold hAllocDelete
  split
  · exact ⟨List.Sublist.refl _, Nat.le_refl _, rfl⟩
  · exact Stable.refl _

theorem reshapeInterim_stable {db db1 : DB R} {byRp : List (Nat × List (InvSpec R))}
    {gens gens1 : List (Nat × Nat)} (h : reshapeInterim db byRp gens = .ok (db1, gens1)) :
    Stable db db1 := by
  induction byRp generalizing db gens with
  | nil => cases h; exact Stable.refl _
  | cons p rest ih =>
    obtain ⟨rp, L⟩ := p
    unfold reshapeInterim at h
    split at h
    · exact ih h
    · dsimp only at h
      split at h
      · cases h
      · rename_i db' hset
        exact (setInventory_stable hset).trans (ih h)

theorem reshapeFinal_stable {db db3 : DB R} {byRp : List (Nat × List (InvSpec R))}
    {gens : List (Nat × Nat)} (h : reshapeFinal db byRp gens = .ok db3) : Stable db db3 := by
  induction byRp generalizing db gens with
  | nil => cases h; exact Stable.refl _
  | cons p rest ih =>
    obtain ⟨rp, L⟩ := p
    unfold reshapeFinal at h
    split at h
    · cases h
    · rename_i db' hset
      exact (setInventory_stable hset).trans (ih h)

theorem reshapeInterim_allocs {db db1 : DB R} {byRp : List (Nat × List (InvSpec R))}
    {gens gens1 : List (Nat × Nat)} (h : reshapeInterim db byRp gens = .ok (db1, gens1)) :
    db1.allocs = db.allocs := by
  induction byRp generalizing db gens with
  | nil => cases h; rfl
  | cons p rest ih =>
    obtain ⟨rp, L⟩ := p
    unfold reshapeInterim at h
    split at h
    · exact ih h
    · dsimp only at h
      split at h
      · cases h
      · rename_i db' hset
        exact (ih h).trans (setInventory_frame hset).1

theorem reshapeFinal_allocs {db db3 : DB R} {byRp : List (Nat × List (InvSpec R))}
    {gens : List (Nat × Nat)} (h : reshapeFinal db byRp gens = .ok db3) :
    db3.allocs = db.allocs := by
  induction byRp generalizing db gens with
  | nil => cases h; rfl
  | cons p rest ih =>
    obtain ⟨rp, L⟩ := p
    unfold reshapeFinal at h
    split at h
    · cases h
    · rename_i db' hset
      exact (ih h).trans (setInventory_frame hset).1

/-- the three phases of `reshape`, for the invariants -/
theorem reshapeTxn_phases {d db3 : DB R} {rinvs : List (Nat × Nat × List (InvSpec R))}
    {objs : List AllocReq} (h : reshapeTxn d rinvs objs = .ok db3) :
    ∃ db1 db2 objs', Stable d db1 ∧ db1.allocs = d.allocs ∧
      (∀ a' ∈ objs', ∃ a ∈ objs, a'.used = a.used) ∧
      setAllocations db1 objs' = .ok db2 ∧ Stable db2 db3 ∧ db3.allocs = db2.allocs := by
  unfold reshapeTxn at h
  obtain ⟨x, h1, h⟩ := bind_ok h
  obtain ⟨db1, gens1⟩ := x
  dsimp only at h
  obtain ⟨db2, h2, h⟩ := bind_ok h
  refine ⟨db1, db2, _, reshapeInterim_stable h1, reshapeInterim_allocs h1, ?_, h2,
    reshapeFinal_stable h, reshapeFinal_allocs h⟩
  intro a' ha'
  obtain ⟨a, ha, rfl⟩ := List.mem_map.mp ha'
  exact ⟨a, ha, rfl⟩

/-! ### the invariant -/

/-- what C01 needs of the state, closed under every request -/
structure C01Inv (db : DB R) : Prop where
  invKeys : InvKeysNodup db
  rcIds : RcIdsNodup db
  rp : RpOK db
  allocNonneg : AllocNonneg db

theorem C01Inv.stateOK {db : DB R} (h : C01Inv db) : StateOK db :=
  ⟨h.invKeys, h.rcIds, h.rp.1, h.allocNonneg⟩

theorem C01Inv.of_uniq {db : DB R} (hu : Uniq db) (hp : AllocPos db) : C01Inv db :=
  ⟨hu.inv, hu.rcId, ⟨hu.rpId, hu.freshRp⟩, hp.nonneg⟩

theorem C01Inv.step_of {db db' : DB R} (h : C01Inv db) (hs : Stable db db')
    (hk : InvKeysNodup db') (ha : AllocNonneg db') : C01Inv db' :=
  ⟨hk, hs.rcIds h.rcIds, hs.rpOK h.rp, ha⟩

theorem C01Inv.of_noIA {db db' : DB R} (h : C01Inv db) (hs : Stable db db') (hn : NoIA db db') :
    C01Inv db' :=
  h.step_of hs (by simp only [InvKeysNodup, hn.1]; exact h.invKeys)
    (by simp only [AllocNonneg, hn.2]; exact h.allocNonneg)

theorem invKeys_of_sublist {db db' : DB R} (h : db'.invs.Sublist db.invs) (hu : InvKeysNodup db) :
    InvKeysNodup db' :=
  List.Nodup.sublist (List.Sublist.map _ h) hu

theorem allocNonneg_congr {db db' : DB R} (h : db'.allocs = db.allocs) (ha : AllocNonneg db) :
    AllocNonneg db' := by simp only [AllocNonneg, h]; exact ha

/-! ### inventory keys -/

theorem deleteProvider_keys {db db' : DB R} {id : Nat} (h : deleteProvider db id = .ok db')
    (hu : InvKeysNodup db) : InvKeysNodup db' := by
  unfold deleteProvider at h
  repeat' split at h
  all_goals (first | cases h)
  exact invKeys_of_sublist List.filter_sublist hu

theorem deleteInventory_keys {db db' : DB R} {rp gen rcn : Nat}
    (h : deleteInventory db rp gen rcn = .ok db') (hu : InvKeysNodup db) : InvKeysNodup db' := by
  unfold deleteInventory at h
  repeat' split at h
  all_goals (first | cases h | skip)
  have hs := incRpGen_same h
  simp only [InvKeysNodup, hs.1]
  exact invKeys_of_sublist (db := db) (db' := { db with invs := _ }) List.filter_sublist hu

theorem updateInventory_keys {db db' : DB R} {rp gen : Nat} {inv : InvSpec R}
    (h : updateInventory db rp gen inv = .ok db') (hu : InvKeysNodup db) : InvKeysNodup db' := by
  unfold updateInventory at h
  split at h
  · cases h
  · rename_i rc hrc
    split at h
    · cases h
    · have hs := incRpGen_same h
      simp only [InvKeysNodup, hs.1, List.map_map]
      have : ((fun i : InvRow R => (i.rp, i.rc)) ∘
          fun i => if (i.rp == rp && i.rc == rc) = true then inv.toRow rp rc else i)
          = fun i => (i.rp, i.rc) := by
        funext i
        simp only [Function.comp]
        split
        · rename_i hc
          simp only [Bool.and_eq_true, beq_iff_eq] at hc
          simp [InvSpec.toRow, hc.1, hc.2]
        · rfl
      rw [this]; exact hu

theorem addInventory_keys {db db' : DB R} {rp gen : Nat} {inv : InvSpec R}
    (h : addInventory db rp gen inv = .ok db') (hu : InvKeysNodup db) : InvKeysNodup db' := by
  unfold addInventory at h
  split at h
  · cases h
  · rename_i rc hrc
    split at h
    · cases h
    · rename_i hnone
      have hs := incRpGen_same h
      simp only [InvKeysNodup, hs.1, List.map_append, List.map_cons, List.map_nil]
      rw [List.nodup_append]
      refine ⟨hu, by simp, ?_⟩
      intro a ha b hb
      simp only [List.mem_singleton] at hb
      subst hb
      intro e
      obtain ⟨i, hi, rfl⟩ := List.mem_map.mp ha
      simp only [InvSpec.toRow, Prod.mk.injEq] at e
      apply hnone
      unfold DB.invOf
      cases hf : db.invs.find? (fun i => i.rp == rp && i.rc == rc) with
      | some j => rfl
      | none =>
        have := List.find?_eq_none.mp hf i hi
        simp [e.1, e.2] at this

/-! ### stored amounts -/

theorem setAllocations_nonneg {db db' : DB R} {allocs : List AllocReq}
    (h : setAllocations db allocs = .ok db') (hnn : ∀ a ∈ allocs, 0 ≤ a.used)
    (ha : AllocNonneg db) : AllocNonneg db' := by
  intro r hr
  rw [(setAllocations_ok h).2.2.2.2] at hr
  rcases List.mem_append.mp hr with hr | hr
  · exact ha r (List.mem_filter.mp hr).1
  · unfold rowsOf at hr
    obtain ⟨a, ham, hrow⟩ := List.mem_filterMap.mp hr
    split at hrow
    · cases hrow
    · cases hrow; exact hnn a ham

/-! ### classes -/

theorem le_foldl_max (l : List Nat) (z : Nat) : z ≤ l.foldl max z ∧ ∀ x ∈ l, x ≤ l.foldl max z := by
  induction l generalizing z with
  | nil => simp
  | cons a l ih =>
    simp only [List.foldl_cons]
    obtain ⟨h1, h2⟩ := ih (max z a)
    refine ⟨by omega, ?_⟩
    intro x hx
    rcases List.mem_cons.mp hx with rfl | hx
    · omega
    · exact h2 x hx

theorem nextRcId_fresh (db : DB R) : nextRcId db ∉ db.rcs.map (·.1) := by
  intro hm
  have := (le_foldl_max (db.rcs.map (·.1)) 0).2 _ hm
  unfold nextRcId at this hm
  dsimp only at this hm
  split at this <;> omega

/-- a request that only touches `resource_classes` -/
def RcOnly (db db' : DB R) : Prop :=
  NoIA db db' ∧ db'.rps = db.rps ∧ db'.nextRp = db.nextRp ∧ (RcIdsNodup db → RcIdsNodup db')

theorem RcOnly.refl (db : DB R) : RcOnly db db := ⟨NoIA.refl _, rfl, rfl, id⟩

theorem RcOnly.inv {db db' : DB R} (h : RcOnly db db') (hi : C01Inv db) : C01Inv db' := by
  refine ⟨by simp only [InvKeysNodup, h.1.1]; exact hi.invKeys, h.2.2.2 hi.rcIds, ?_,
    allocNonneg_congr h.1.2 hi.allocNonneg⟩
  simp only [RpOK, RpIdsNodup, h.2.1, h.2.2.1]; exact hi.rp

theorem createRc_rcOnly {db db' : DB R} {n : Nat} (h : createRc db n = .ok db') : RcOnly db db' := by
  unfold createRc at h
  repeat' split at h
  all_goals (first | cases h)
  refine ⟨⟨rfl, rfl⟩, rfl, rfl, ?_⟩
  intro hn
  simp only [RcIdsNodup, List.map_append, List.map_cons, List.map_nil]
  rw [List.nodup_append]
  refine ⟨hn, by simp, ?_⟩
  intro a ha b hb
  simp only [List.mem_singleton] at hb
  subst hb
  intro e; subst e
  exact nextRcId_fresh db ha

theorem deleteRc_rcOnly {db db' : DB R} {n : Nat} (h : deleteRc db n = .ok db') : RcOnly db db' := by
  unfold deleteRc at h
  repeat' split at h
  all_goals (first | cases h)
  exact ⟨⟨rfl, rfl⟩, rfl, rfl, fun hn => List.Nodup.sublist (List.Sublist.map _ List.filter_sublist) hn⟩

theorem renameRc_rcOnly {db db' : DB R} {i n : Nat} (h : renameRc db i n = .ok db') : RcOnly db db' := by
  unfold renameRc at h
  repeat' split at h
  all_goals (first | cases h)
  refine ⟨⟨rfl, rfl⟩, rfl, rfl, ?_⟩
  intro hn
  simp only [RcIdsNodup, List.map_map]
  have : ((fun p : Nat × Nat => p.1) ∘ fun p => if (p.1 == i) = true then (i, n) else p) = fun p => p.1 := by
    funext p
    simp only [Function.comp]
    split
    · rename_i hc; simp only [beq_iff_eq] at hc; exact hc.symm
    · rfl
  rw [this]; exact hn

theorem hRcPost_rcOnly (db : DB R) (n : Nat) : RcOnly db (hRcPost db n).1 := by
  unfold hRcPost
  repeat' split
  all_goals first | exact RcOnly.refl _ | (rename_i h; exact createRc_rcOnly h)

theorem hRcPut_rcOnly (db : DB R) (n : Nat) : RcOnly db (hRcPut db n).1 := by
  unfold hRcPut
  repeat' split
  all_goals first | exact RcOnly.refl _ | (rename_i h; exact createRc_rcOnly h)

theorem hRcRename_rcOnly (db : DB R) (o n : Nat) : RcOnly db (hRcRename db o n).1 := by
  unfold hRcRename
  repeat' split
  all_goals first | exact RcOnly.refl _ | (rename_i h; exact renameRc_rcOnly h)

theorem hRcDelete_rcOnly (db : DB R) (n : Nat) : RcOnly db (hRcDelete db n).1 := by
  unfold hRcDelete
  repeat' split
  all_goals first | exact RcOnly.refl _ | (rename_i h; exact deleteRc_rcOnly h)

/-! ### creating a provider -/

theorem createProvider_inv {db : DB R} {u n : Nat} {p : Option Nat} {r : DB R × RpRow}
    (h : createProvider db u n p = .ok r) (hi : C01Inv db) : C01Inv r.1 := by
  have key : ∀ row : RpRow, row.id = db.nextRp →
      C01Inv ({ db with rps := db.rps ++ [row], nextRp := db.nextRp + 1 } : DB R) := by
    intro row hrow
    refine ⟨hi.invKeys, hi.rcIds, ⟨?_, ?_⟩, hi.allocNonneg⟩
    · simp only [RpIdsNodup, List.map_append, List.map_cons, List.map_nil]
      rw [List.nodup_append]
      refine ⟨hi.rp.1, by simp, ?_⟩
      intro a ha b hb
      simp only [List.mem_singleton] at hb
      subst hb
      obtain ⟨r0, hr0, rfl⟩ := List.mem_map.mp ha
      have := hi.rp.2 r0 hr0
      omega
    · intro r0 hr0
      show r0.id < db.nextRp + 1
      rcases List.mem_append.mp hr0 with hr0 | hr0
      · have := hi.rp.2 r0 hr0; omega
      · simp only [List.mem_singleton] at hr0; subst hr0; omega
  unfold createProvider at h
  dsimp only at h
  repeat' split at h
  all_goals (first | (cases h; exact key _ rfl) | cases h)

theorem hRpCreate_inv (db : DB R) (mv u n : Nat) (p : Option Nat) (hi : C01Inv db) :
    C01Inv (hRpCreate db mv u n p).1 := by
  unfold hRpCreate
  repeat' split
  all_goals first | exact hi | (rename_i h _; exact createProvider_inv h hi)

/-! ### every request preserves the invariant -/

theorem hRpDelete_keys (db : DB R) (u : Nat) (hu : InvKeysNodup db) :
    InvKeysNodup (hRpDelete db u).1 := by
  unfold hRpDelete
  repeat' split
  all_goals first | exact hu | (rename_i h; exact deleteProvider_keys h hu)

theorem hInvSet_keys (db : DB R) (mv u g : Nat) (is : List (InvSpec R)) (hu : InvKeysNodup db) :
    InvKeysNodup (hInvSet db mv u g is).1 := by
  unfold hInvSet
  repeat' split
  all_goals first | exact hu | (rename_i h; exact setInventory_invKeys h hu)

theorem hInvAdd_keys (db : DB R) (mv u : Nat) (i : InvSpec R) (hu : InvKeysNodup db) :
    InvKeysNodup (hInvAdd db mv u i).1 := by
  unfold hInvAdd
  repeat' split
  all_goals first | exact hu | (rename_i h; exact addInventory_keys h hu)

theorem hInvUpdate_keys (db : DB R) (mv u g : Nat) (i : InvSpec R) (hu : InvKeysNodup db) :
    InvKeysNodup (hInvUpdate db mv u g i).1 := by
  unfold hInvUpdate
  repeat' split
  all_goals first | exact hu | (rename_i h; exact updateInventory_keys h hu)

theorem hInvDelete_keys (db : DB R) (u rc : Nat) (hu : InvKeysNodup db) :
    InvKeysNodup (hInvDelete db u rc).1 := by
  unfold hInvDelete
  repeat' split
  all_goals first | exact hu | (rename_i h; exact deleteInventory_keys h hu)

theorem hInvDeleteAll_keys (db : DB R) (mv u : Nat) (hu : InvKeysNodup db) :
    InvKeysNodup (hInvDeleteAll db mv u).1 := by
  unfold hInvDeleteAll
  repeat' split
  all_goals first | exact hu | (rename_i h; exact setInventory_invKeys h hu)

theorem ConsOnly.inv {db d : DB R} (h : ConsOnly db d) (hi : C01Inv db) : C01Inv d :=
  hi.of_noIA h.stable h.noIA

theorem setAllocations_inv {db db' : DB R} {allocs : List AllocReq}
    (h : setAllocations db allocs = .ok db') (hnn : ∀ a ∈ allocs, 0 ≤ a.used) (hi : C01Inv db) :
    C01Inv db' :=
  hi.step_of (setAllocations_stable h)
    (by simp only [InvKeysNodup, (setAllocations_ok h).2.2.1]; exact hi.invKeys)
    (setAllocations_nonneg h hnn hi.allocNonneg)

theorem hAllocPut_inv (cfg : Config) (db : DB R) (mv : Nat) (c : ConsumerReq)
    (hnn : ∀ x ∈ c.allocs, 0 ≤ x.2.2) (hi : C01Inv db) : C01Inv (hAllocPut cfg db mv c).1 := by
  rcases hAllocPut_cases cfg db mv c with ⟨hf, _⟩ | ⟨d1, d2, d3, cons, objs, h1, h2, ho, hs, h3⟩
  · exact hf.inv hi
  · refine h3.inv (setAllocations_inv hs ?_ (h2.inv hi))
    intro a ha
    rcases (allocObjects_ok ho).2 a ha with h0 | ⟨y, hy, e⟩
    · omega
    · rw [e]; exact hnn y hy

theorem hAllocPost_inv (cfg : Config) (db : DB R) (mv : Nat) (cs : List ConsumerReq)
    (hnn : ∀ c ∈ cs, ∀ x ∈ c.allocs, 0 ≤ x.2.2) (hi : C01Inv db) :
    C01Inv (hAllocPost cfg db mv cs).1 := by
  rcases hAllocPost_cases cfg db mv cs with
    ⟨hf, _⟩ | ⟨d1, d2, d3, triples, objs, h1, h2, ht, ho, hs, h3⟩
  · exact hf.inv hi
  · refine h3.inv (setAllocations_inv hs ?_ (h2.inv hi))
    intro a ha
    rcases (allocObjectsAll_ok ho).2 a ha with h0 | ⟨t', ht', y, hy, e⟩
    · omega
    · rw [e]; exact hnn t'.1 (by rw [← ht]; exact List.mem_map_of_mem ht') y hy

theorem hAllocDelete_inv (db : DB R) (c : Nat) (hi : C01Inv db) : C01Inv (hAllocDelete db c).1 := by
  obtain ⟨h1, p, h2⟩ := hAllocDelete_frame db c
  refine hi.step_of (hAllocDelete_stable db c) (by simp only [InvKeysNodup, h1]; exact hi.invKeys) ?_
  intro a ha
  rw [h2] at ha
  exact hi.allocNonneg a (List.mem_filter.mp ha).1

theorem hReshape_inv (cfg : Config) (db : DB R) (mv : Nat) (invs : List (RpInvReq R))
    (cs : List ConsumerReq) (hwf : ReshapeWF invs) (hnn : ∀ c ∈ cs, ∀ x ∈ c.allocs, 0 ≤ x.2.2)
    (hi : C01Inv db) : C01Inv (hReshape cfg db mv invs cs).1 := by
  rcases hReshape_cases cfg db mv invs cs with
    ⟨hf, _⟩ | ⟨rinvs, d1, d2, d3, triples, objs, hr, h1, h2, ht, ho, hs, h3⟩
  · exact hf.inv hi
  · have hi2 := h2.inv hi
    obtain ⟨n1, _⟩ := resolveReshapeRps_ok hr hi.rp.1 hwf
    have facts := reshapeTxn_ok hs n1 hi2.invKeys hi2.rcIds
    obtain ⟨db1, db2, objs', s1, a1, hobjs, hset, s3, a3⟩ := reshapeTxn_phases hs
    have hnn' : ∀ a ∈ objs, 0 ≤ a.used := by
      intro a ha
      rcases (allocObjectsAll_ok ho).2 a ha with h0 | ⟨t', ht', y, hy, e⟩
      · omega
      · rw [e]; exact hnn t'.1 (by rw [← ht]; exact List.mem_map_of_mem ht') y hy
    have hnn2 : ∀ a' ∈ objs', 0 ≤ a'.used := by
      intro a' ha'
      obtain ⟨a, ha, e⟩ := hobjs a' ha'
      rw [e]; exact hnn' a ha
    have ha2 : AllocNonneg db2 :=
      setAllocations_nonneg hset hnn2 (allocNonneg_congr a1 hi2.allocNonneg)
    refine h3.inv (hi2.step_of ((s1.trans (setAllocations_stable hset)).trans s3) facts.keys
      (allocNonneg_congr a3 ha2))

theorem step_inv (cfg : Config) (db : DB R) (op : Op R) (hwf : op.WF) (hi : C01Inv db) :
    C01Inv (step cfg db op).1 := by
  have hnn := hwf.nonneg
  cases op with
  | rpCreate mv u n p => exact hRpCreate_inv db mv u n p hi
  | rpUpdate mv u n p => exact hi.of_noIA (hRpUpdate_stable db mv u n p) (hRpUpdate_noIA db mv u n p)
  | rpDelete u =>
    exact hi.step_of (hRpDelete_stable db u) (hRpDelete_keys db u hi.invKeys)
      (allocNonneg_congr (hRpDelete_frame db u).1 hi.allocNonneg)
  | invSet mv u g is =>
    exact hi.step_of (hInvSet_stable db mv u g is) (hInvSet_keys db mv u g is hi.invKeys)
      (allocNonneg_congr (hInvSet_frame db mv u g is).allocs hi.allocNonneg)
  | invAdd mv u i =>
    exact hi.step_of (hInvAdd_stable db mv u i) (hInvAdd_keys db mv u i hi.invKeys)
      (allocNonneg_congr (hInvAdd_frame db mv u i).allocs hi.allocNonneg)
  | invUpdate mv u g i =>
    exact hi.step_of (hInvUpdate_stable db mv u g i) (hInvUpdate_keys db mv u g i hi.invKeys)
      (allocNonneg_congr (hInvUpdate_frame db mv u g i).allocs hi.allocNonneg)
  | invDelete u rc =>
    exact hi.step_of (hInvDelete_stable db u rc) (hInvDelete_keys db u rc hi.invKeys)
      (allocNonneg_congr (hInvDelete_frame db u rc).1 hi.allocNonneg)
  | invDeleteAll mv u =>
    exact hi.step_of (hInvDeleteAll_stable db mv u) (hInvDeleteAll_keys db mv u hi.invKeys)
      (allocNonneg_congr (hInvDeleteAll_frame db mv u).1 hi.allocNonneg)
  | traitPut n => exact hi.of_noIA (hTraitPut_stable db n) (hTraitPut_noIA db n)
  | traitDelete n => exact hi.of_noIA (hTraitDelete_stable db n) (hTraitDelete_noIA db n)
  | rpTraitsSet u g ts => exact hi.of_noIA (hRpTraitsSet_stable db u g ts) (hRpTraitsSet_noIA db u g ts)
  | rpTraitsDelete u => exact hi.of_noIA (hRpTraitsDelete_stable db u) (hRpTraitsDelete_noIA db u)
  | rcPost n => exact (hRcPost_rcOnly db n).inv hi
  | rcPut n => exact (hRcPut_rcOnly db n).inv hi
  | rcRename o n => exact (hRcRename_rcOnly db o n).inv hi
  | rcDelete n => exact (hRcDelete_rcOnly db n).inv hi
  | aggsSet mv u g as => exact hi.of_noIA (hAggsSet_stable db mv u g as) (hAggsSet_noIA db mv u g as)
  | allocPut mv c => exact hAllocPut_inv cfg db mv c hnn hi
  | allocPost mv cs =>
    exact hAllocPost_inv cfg db mv cs (fun c hc x hx => hnn x (List.mem_flatMap.mpr ⟨c, hc, hx⟩)) hi
  | allocDelete c => exact hAllocDelete_inv db c hi
  | reshape mv invs cs =>
    exact hReshape_inv cfg db mv invs cs hwf.1
      (fun c hc x hx => hnn x (List.mem_flatMap.mpr ⟨c, hc, hx⟩)) hi

/-! ### histories -/

theorem run_nil (cfg : Config) (db : DB R) : run cfg db [] = (db, []) := rfl

theorem run_cons_fst (cfg : Config) (db : DB R) (op : Op R) (ops : List (Op R)) :
    (run cfg db (op :: ops)).1 = (run cfg (step cfg db op).1 ops).1 := rfl

theorem run_append_fst (cfg : Config) (db : DB R) (pre post : List (Op R)) :
    (run cfg db (pre ++ post)).1 = (run cfg (run cfg db pre).1 post).1 := by
  induction pre generalizing db with
  | nil => rfl
  | cons op pre ih => rw [List.cons_append, run_cons_fst, run_cons_fst, ih]

theorem run_inv (cfg : Config) (db : DB R) (ops : List (Op R)) (hwf : ∀ op ∈ ops, op.WF)
    (hi : C01Inv db) : C01Inv (run cfg db ops).1 := by
  induction ops generalizing db with
  | nil => exact hi
  | cons op ops ih =>
    rw [run_cons_fst]
    exact ih _ (fun o ho => hwf o (List.mem_cons_of_mem _ ho))
      (step_inv cfg db op (hwf op List.mem_cons_self) hi)

/-- while a pair stays over-committed along a history, its usage never grows -/
theorem run_usage_le (cfg : Config) (db : DB R) (ops : List (Op R)) (hwf : ∀ op ∈ ops, op.WF)
    (hi : C01Inv db) {rp rc : Nat}
    (hoc : ∀ k < ops.length, OverCommitted (run cfg db (ops.take (k + 1))).1 rp rc) :
    (run cfg db ops).1.usage rp rc ≤ db.usage rp rc := by
  induction ops generalizing db with
  | nil => exact Int.le_refl _
  | cons op ops ih =>
    have hwf1 := hwf op List.mem_cons_self
    have h0 : OverCommitted (step cfg db op).1 rp rc := hoc 0 (by simp)
    have hle := step_usage_le cfg db op hi.stateOK hwf1 h0
    have ih' := ih (step cfg db op).1 (fun o ho => hwf o (List.mem_cons_of_mem _ ho))
      (step_inv cfg db op hwf1 hi) (fun k hk => by
        have := hoc (k + 1) (by simp; omega)
        rwa [List.take_succ_cons, run_cons_fst] at this)
    rw [run_cons_fst]
    omega

/-- a pair that is over-committed at the end of a history but not at its start became so by a
request that changes the inventory of that provider -/
theorem run_oc_cause [MonoCapOps R] (cfg : Config) (db : DB R) (ops : List (Op R))
    (hwf : ∀ op ∈ ops, op.WF) (hi : C01Inv db) {rp rc : Nat} (h0 : ¬ OverCommitted db rp rc)
    (h1 : OverCommitted (run cfg db ops).1 rp rc) :
    ∃ pre op post, ops = pre ++ op :: post ∧
      ¬ OverCommitted (run cfg db pre).1 rp rc ∧
      OverCommitted (step cfg (run cfg db pre).1 op).1 rp rc ∧
      op.changesInventoryOf (run cfg db pre).1 rp := by
  induction ops generalizing db with
  | nil => exact absurd h1 h0
  | cons op ops ih =>
    have hwf1 := hwf op List.mem_cons_self
    by_cases hs : OverCommitted (step cfg db op).1 rp rc
    · refine ⟨[], op, ops, rfl, h0, hs, ?_⟩
      false_or_by_contra
      rename_i hn
      exact h0 (step_oc_back cfg db op hi.stateOK hwf1 hs hn)
    · obtain ⟨pre, o, post, e, a, b, c⟩ := ih (step cfg db op).1
        (fun o ho => hwf o (List.mem_cons_of_mem _ ho)) (step_inv cfg db op hwf1 hi) hs
        (by rwa [run_cons_fst] at h1)
      exact ⟨op :: pre, o, post, by rw [e]; rfl, by rwa [run_cons_fst], by rwa [run_cons_fst],
        by rwa [run_cons_fst]⟩

end Placement
