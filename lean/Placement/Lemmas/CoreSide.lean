import Placement.Lemmas.CoreWrite
/-
  C11, history theorem, part 1: the object-layer functions and handlers that neither read nor write the
  consumer-side columns (`consumers`, `projects`, `users`, `ctypes`, `nextCons`) commute with replacing
  those columns (`putSide`).
-/
namespace Placement.Core
variable {R : Type}
set_option linter.unusedSimpArgs false

structure Side where
  consumers : List ConsRow
  projects : List Nat
  users : List Nat
  ctypes : List Nat
  nextCons : Nat

def side (db : DB R) : Side := ⟨db.consumers, db.projects, db.users, db.ctypes, db.nextCons⟩

def putSide (s : Side) (db : DB R) : DB R :=
  { db with consumers := s.consumers, projects := s.projects, users := s.users, ctypes := s.ctypes,
            nextCons := s.nextCons }

section simps
variable (s : Side) (db : DB R)
@[simp] theorem putSide_rps : (putSide s db).rps = db.rps := rfl
@[simp] theorem putSide_invs : (putSide s db).invs = db.invs := rfl
@[simp] theorem putSide_allocs : (putSide s db).allocs = db.allocs := rfl
@[simp] theorem putSide_rcs : (putSide s db).rcs = db.rcs := rfl
@[simp] theorem putSide_traits : (putSide s db).traits = db.traits := rfl
@[simp] theorem putSide_rpTraits : (putSide s db).rpTraits = db.rpTraits := rfl
@[simp] theorem putSide_aggs : (putSide s db).aggs = db.aggs := rfl
@[simp] theorem putSide_rpAggs : (putSide s db).rpAggs = db.rpAggs := rfl
@[simp] theorem putSide_nextRp : (putSide s db).nextRp = db.nextRp := rfl
@[simp] theorem putSide_consumers : (putSide s db).consumers = s.consumers := rfl
@[simp] theorem putSide_projects : (putSide s db).projects = s.projects := rfl
@[simp] theorem putSide_users : (putSide s db).users = s.users := rfl
@[simp] theorem putSide_ctypes : (putSide s db).ctypes = s.ctypes := rfl
@[simp] theorem putSide_nextCons : (putSide s db).nextCons = s.nextCons := rfl
@[simp] theorem putSide_rpByUuid (u : Nat) : (putSide s db).rpByUuid u = db.rpByUuid u := rfl
@[simp] theorem putSide_rpById (u : Nat) : (putSide s db).rpById u = db.rpById u := rfl
@[simp] theorem putSide_rpByName (u : Nat) : (putSide s db).rpByName u = db.rpByName u := rfl
@[simp] theorem putSide_rcId (u : Nat) : (putSide s db).rcId u = db.rcId u := rfl
@[simp] theorem putSide_rcName (u : Nat) : (putSide s db).rcName u = db.rcName u := rfl
@[simp] theorem putSide_invOf (a b : Nat) : (putSide s db).invOf a b = db.invOf a b := rfl
@[simp] theorem putSide_usage (a b : Nat) : (putSide s db).usage a b = db.usage a b := rfl
@[simp] theorem putSide_hasChildren (a : Nat) : (putSide s db).hasChildren a = db.hasChildren a := rfl
@[simp] theorem putSide_traitsOf (a : Nat) : (putSide s db).traitsOf a = db.traitsOf a := rfl
@[simp] theorem putSide_aggsOf (a : Nat) : (putSide s db).aggsOf a = db.aggsOf a := rfl
@[simp] theorem putSide_setRp (i : Nat) (f : RpRow → RpRow) : (putSide s db).setRp i f = putSide s (db.setRp i f) := rfl
end simps

theorem map_ite {α β ε : Type} (f : α → β) (c : Prop) [Decidable c] (a b : Except ε α) :
    Except.map f (if c then a else b) = if c then Except.map f a else Except.map f b := by
  split <;> rfl
@[simp] theorem map_ok {α β ε : Type} (f : α → β) (a : α) : Except.map f (.ok a : Except ε α) = .ok (f a) := rfl
@[simp] theorem map_error {α β ε : Type} (f : α → β) (e : ε) : Except.map f (.error e : Except ε α) = .error e := rfl
theorem map_bind {α β γ ε : Type} (f : β → γ) (x : Except ε α) (g : α → Except ε β) :
    Except.map f (x >>= g) = x >>= fun a => Except.map f (g a) := by
  cases x <;> rfl

/-- split an `if` and rewrite the other occurrences of its condition -/
macro "isplit" : tactic =>
  `(tactic| (split <;> rename_i hc <;> (try simp only [hc, Bool.false_eq_true, ↓reduceIte, map_ok, map_error])))

macro "side_tac" : tactic =>
  `(tactic| (repeat' (first | rfl | (split <;> try simp only [*, map_ok, map_error]))))

theorem incRpGen_side (s : Side) (db : DB R) (id gen : Nat) :
    incRpGen (putSide s db) id gen = (incRpGen db id gen).map (putSide s) := by
  unfold incRpGen
  simp only [putSide_rps, putSide_setRp]
  side_tac

theorem createProvider_side (s : Side) (db : DB R) (u n : Nat) (p : Option Nat) :
    createProvider (putSide s db) u n p = (createProvider db u n p).map (fun x => (putSide s x.1, x.2)) := by
  unfold createProvider
  simp only [putSide_rps, putSide_rpByUuid, putSide_nextRp, map_ite]
  side_tac

theorem subtreeIds_side (s : Side) (db : DB R) (root : Nat) : ∀ (fuel x : Nat),
    subtreeIds (putSide s db) root fuel x = subtreeIds db root fuel x
  | 0, _ => rfl
  | fuel + 1, x => by
    simp only [subtreeIds, putSide_rps]
    congr 1
    rw [List.flatMap_def, List.flatMap_def]
    congr 1
    exact List.map_congr_left (fun y _ => subtreeIds_side s db root fuel y)

theorem updateProvider_side (s : Side) (db : DB R) (id n : Nat) (p : Option Nat) (al : Bool) :
    updateProvider (putSide s db) id n p al = (updateProvider db id n p al).map (putSide s) := by
  unfold updateProvider
  simp only [putSide_rps, putSide_rpByUuid, putSide_rpById, subtreeIds_side, map_ite]
  side_tac

theorem deleteProvider_side (s : Side) (db : DB R) (id : Nat) :
    deleteProvider (putSide s db) id = (deleteProvider db id).map (putSide s) := by
  unfold deleteProvider
  simp only [putSide_rps, putSide_allocs, putSide_hasChildren, map_ite]
  side_tac

theorem resolveRcs_side (s : Side) (db : DB R) : ∀ (is : List (InvSpec R)),
    resolveRcs (putSide s db) is = resolveRcs db is
  | [] => rfl
  | i :: is => by simp only [resolveRcs, putSide_rcId, resolveRcs_side s db is]

theorem setInventory_side (s : Side) (db : DB R) (rp gen : Nat) (invs : List (InvSpec R)) :
    setInventory (putSide s db) rp gen invs = (setInventory db rp gen invs).map (putSide s) := by
  unfold setInventory
  simp only [resolveRcs_side, putSide_invs, putSide_allocs, map_bind, bind, Except.bind]
  cases resolveRcs db invs with
  | error e => rfl
  | ok these =>
    simp only []
    split <;> rename_i hc <;> simp only [hc, Bool.false_eq_true, ↓reduceIte]
    · rfl
    · exact incRpGen_side s { db with invs := _ } rp gen

theorem addInventory_side (s : Side) (db : DB R) (rp gen : Nat) (inv : InvSpec R) :
    addInventory (putSide s db) rp gen inv = (addInventory db rp gen inv).map (putSide s) := by
  unfold addInventory
  simp only [putSide_rcId, putSide_invOf, putSide_invs, map_ite]
  cases db.rcId inv.rcName with
  | none => rfl
  | some rc =>
    simp only []
    repeat' (first | rfl | exact incRpGen_side s { db with invs := _ } rp gen | isplit)

theorem updateInventory_side (s : Side) (db : DB R) (rp gen : Nat) (inv : InvSpec R) :
    updateInventory (putSide s db) rp gen inv = (updateInventory db rp gen inv).map (putSide s) := by
  unfold updateInventory
  simp only [putSide_rcId, putSide_invOf, putSide_invs, map_ite]
  cases db.rcId inv.rcName with
  | none => rfl
  | some rc =>
    simp only []
    repeat' (first | rfl | exact incRpGen_side s { db with invs := _ } rp gen | isplit)

theorem deleteInventory_side (s : Side) (db : DB R) (rp gen rcName : Nat) :
    deleteInventory (putSide s db) rp gen rcName = (deleteInventory db rp gen rcName).map (putSide s) := by
  unfold deleteInventory
  simp only [putSide_rcId, putSide_invOf, putSide_invs, putSide_allocs, map_ite]
  cases db.rcId rcName with
  | none => rfl
  | some rc =>
    simp only []
    repeat' (first | rfl | exact incRpGen_side s { db with invs := _ } rp gen | isplit)

theorem setTraits_side (s : Side) (db : DB R) (rp gen : Nat) (ts : List Nat) :
    setTraits (putSide s db) rp gen ts = (setTraits db rp gen ts).map (putSide s) := by
  unfold setTraits
  simp only [putSide_traitsOf, putSide_rpTraits, map_ite]
  repeat' (first | rfl | exact incRpGen_side s { db with rpTraits := _ } rp gen | isplit)

theorem setAggregates_side (s : Side) (db : DB R) (rp gen : Nat) (as : List Nat) (inc : Bool) :
    setAggregates (putSide s db) rp gen as inc = (setAggregates db rp gen as inc).map (putSide s) := by
  unfold setAggregates
  simp only [putSide_aggsOf, putSide_rpAggs, putSide_aggs, map_ite]
  repeat' (first | rfl | exact incRpGen_side s { db with aggs := _, rpAggs := _ } rp gen | isplit)

theorem createTrait_side (s : Side) (db : DB R) (n : Nat) :
    createTrait (putSide s db) n = (createTrait db n).map (putSide s) := by
  unfold createTrait
  simp only [putSide_traits, map_ite]
  rfl

theorem deleteTrait_side (s : Side) (db : DB R) (n : Nat) :
    deleteTrait (putSide s db) n = (deleteTrait db n).map (putSide s) := by
  unfold deleteTrait
  simp only [putSide_traits, putSide_rpTraits, map_ite]
  rfl

theorem nextRcId_side (s : Side) (db : DB R) : nextRcId (putSide s db) = nextRcId db := rfl

theorem createRc_side (s : Side) (db : DB R) (n : Nat) :
    createRc (putSide s db) n = (createRc db n).map (putSide s) := by
  unfold createRc
  simp only [putSide_rcId, putSide_rcs, nextRcId_side, map_ite]
  rfl

theorem deleteRc_side (s : Side) (db : DB R) (i : Nat) :
    deleteRc (putSide s db) i = (deleteRc db i).map (putSide s) := by
  unfold deleteRc
  simp only [putSide_invs, putSide_rcs, map_ite]
  rfl

theorem renameRc_side (s : Side) (db : DB R) (i n : Nat) :
    renameRc (putSide s db) i n = (renameRc db i n).map (putSide s) := by
  unfold renameRc
  simp only [putSide_rcs, map_ite]
  rfl

/-! ### allocations: the part of `_set_allocations` before the consumer generations -/

variable [CapOps R]

theorem checkLoop_side (s : Side) (db : DB R) : ∀ (rest seen : List (Nat × Nat × Int)),
    checkLoop (putSide s db) seen rest = checkLoop db seen rest
  | [], _ => rfl
  | (rp, rc, amount) :: rest, seen => by
    simp only [checkLoop, putSide_invOf, putSide_usage, checkLoop_side s db rest]

theorem resolveAllocRcs_side (s : Side) (db : DB R) : ∀ (as : List AllocReq),
    resolveAllocRcs (putSide s db) as = resolveAllocRcs db as
  | [] => rfl
  | a :: as => by simp only [resolveAllocRcs, putSide_rcId, resolveAllocRcs_side s db as]

theorem checkCapacity_side (s : Side) (db : DB R) (as : List AllocReq) :
    checkCapacity (putSide s db) as = checkCapacity db as := by
  unfold checkCapacity
  simp only [resolveAllocRcs_side, putSide_invs, putSide_rps, checkLoop_side]

theorem incRpGens_side (s : Side) : ∀ (l : List (Nat × Nat)) (db : DB R),
    incRpGens (putSide s db) l = (incRpGens db l).map (putSide s)
  | [], _ => rfl
  | (id, gen) :: rest, db => by
    simp only [incRpGens, incRpGen_side, bind, Except.bind]
    cases incRpGen db id gen with
    | error e => rfl
    | ok d => exact incRpGens_side s rest d

/-! ### reshaper -/

omit [CapOps R] in
theorem invRowToSpec_side (s : Side) (db : DB R) (i : InvRow R) :
    invRowToSpec (putSide s db) i = invRowToSpec db i := rfl

omit [CapOps R] in
theorem reshapeInterim_side (s : Side) : ∀ (l : List (Nat × List (InvSpec R))) (db : DB R) (gens : List (Nat × Nat)),
    reshapeInterim (putSide s db) l gens = (reshapeInterim db l gens).map (fun x => (putSide s x.1, x.2))
  | [], _, _ => rfl
  | (rp, newInvs) :: rest, db, gens => by
    unfold reshapeInterim
    split
    · exact reshapeInterim_side s rest db gens
    · simp only [putSide_invs, setInventory_side]
      have : invRowToSpec (putSide s db) = invRowToSpec db := funext (invRowToSpec_side s db)
      rw [this]
      cases setInventory db rp (knownGen gens rp 0) _ with
      | error e => rfl
      | ok d => exact reshapeInterim_side s rest d _

omit [CapOps R] in
theorem reshapeFinal_side (s : Side) : ∀ (l : List (Nat × List (InvSpec R))) (db : DB R) (gens : List (Nat × Nat)),
    reshapeFinal (putSide s db) l gens = (reshapeFinal db l gens).map (putSide s)
  | [], _, _ => rfl
  | (rp, newInvs) :: rest, db, gens => by
    unfold reshapeFinal
    simp only [setInventory_side]
    cases setInventory db rp (knownGen gens rp 0) newInvs with
    | error e => rfl
    | ok d => exact reshapeFinal_side s rest d _

omit [CapOps R] in
theorem resolveReshapeRps_side (s : Side) (db : DB R) : ∀ (l : List (RpInvReq R)),
    resolveReshapeRps (putSide s db) l = resolveReshapeRps db l
  | [] => rfl
  | r :: rest => by simp only [resolveReshapeRps, putSide_rpByUuid, resolveReshapeRps_side s db rest]

end Placement.Core
