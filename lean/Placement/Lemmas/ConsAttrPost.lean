import Placement.Lemmas.ConsAttr
/-
  C12, attributes of the consumer records after a successful POST /allocations or POST /reshaper
  (several consumers in one request).
-/
namespace Placement.Wf
variable {R : Type}

theorem updRow_other (cons : ConsRow) (p u : Nat) (t : Option Nat) {r : ConsRow} (h : r.id ≠ cons.id) :
    updRow cons p u t r = r := by
  simp [updRow, h]

/-- `update_consumers` for one consumer rewrites rows in place and leaves rows with another id alone -/
theorem updateConsumer_shape (db : DB R) (cons : ConsRow) (a : ReqAttr) :
    ∃ G : ConsRow → ConsRow, updateConsumer db cons a = { db with consumers := db.consumers.map G } ∧
      ∀ r, (G r).id = r.id ∧ (r.id ≠ cons.id → G r = r) := by
  rw [updateConsumer_eq]
  have one : ∀ (d : DB R) (p u : Nat) (t : Option Nat),
      ∃ G : ConsRow → ConsRow, updCons d cons p u t = { d with consumers := d.consumers.map G } ∧
        ∀ r, (G r).id = r.id ∧ (r.id ≠ cons.id → G r = r) :=
    fun d p u t => ⟨updRow cons p u t, rfl, fun r => ⟨by simp, updRow_other cons p u t⟩⟩
  have idm : ∀ d : DB R, ∃ G : ConsRow → ConsRow, d = { d with consumers := d.consumers.map G } ∧
        ∀ r, (G r).id = r.id ∧ (r.id ≠ cons.id → G r = r) :=
    fun d => ⟨id, by simp, fun r => ⟨rfl, fun _ => rfl⟩⟩
  have comp : ∀ {d1 d2 d3 : DB R},
      (∃ G : ConsRow → ConsRow, d2 = { d1 with consumers := d1.consumers.map G } ∧
        ∀ r, (G r).id = r.id ∧ (r.id ≠ cons.id → G r = r)) →
      (∃ G : ConsRow → ConsRow, d3 = { d2 with consumers := d2.consumers.map G } ∧
        ∀ r, (G r).id = r.id ∧ (r.id ≠ cons.id → G r = r)) →
      (∃ G : ConsRow → ConsRow, d3 = { d1 with consumers := d1.consumers.map G } ∧
        ∀ r, (G r).id = r.id ∧ (r.id ≠ cons.id → G r = r)) := by
    rintro d1 d2 d3 ⟨G1, rfl, h1⟩ ⟨G2, rfl, h2⟩
    refine ⟨G2 ∘ G1, by simp [List.map_map], fun r => ⟨?_, ?_⟩⟩
    · simp only [Function.comp]; rw [(h2 _).1, (h1 _).1]
    · intro hne
      simp only [Function.comp]
      rw [(h1 r).2 hne, (h2 r).2 hne]
  have h1 : ∃ G : ConsRow → ConsRow,
      (if (a.project != cons.project || a.user != cons.user) = true
        then updCons db cons a.project a.user cons.ctype else db) = { db with consumers := db.consumers.map G } ∧
        ∀ r, (G r).id = r.id ∧ (r.id ≠ cons.id → G r = r) := by
    split
    · exact one db _ _ _
    · exact idm db
  split
  · split
    · exact comp h1 (one _ _ _ _)
    · exact h1
  · exact h1

/-- after `update_consumers` over the triples of a request (distinct consumer rows), the row of each
triple carries the requested attributes -/
theorem updateConsumers_row : ∀ (triples : List (ConsumerReq × ConsRow × ReqAttr)) {db : DB R}, UniqC db →
    (∀ t ∈ triples, t.2.1 ∈ db.consumers) → (triples.map (fun t => t.2.1.id)).Nodup →
    ∀ t ∈ triples, ∀ c2 ∈ (updateConsumers db triples).consumers, c2.id = t.2.1.id →
      c2.project = t.2.2.project ∧ c2.user = t.2.2.user ∧ c2.ctype = typeAfter t.2.2 t.2.1
  | [], _, _, _, _, t, ht => by simp at ht
  | (c, cons, a) :: rest, db, hU, hmem, hnd, t, ht => by
    intro c2 hc2 hid
    unfold updateConsumers at hc2
    rw [List.map_cons, List.nodup_cons] at hnd
    obtain ⟨G, eG, hG⟩ := updateConsumer_shape db cons a
    have hU' : UniqC (updateConsumer db cons a) := (consMap_updateConsumer db cons a).uniqC hU
    have hmem' : ∀ t ∈ rest, t.2.1 ∈ (updateConsumer db cons a).consumers := by
      intro t' ht'
      rw [eG]
      have hne : t'.2.1.id ≠ cons.id := fun e => hnd.1 (List.mem_map.2 ⟨t', ht', e⟩)
      exact List.mem_map.2 ⟨t'.2.1, hmem t' (List.mem_cons_of_mem _ ht'), (hG _).2 hne⟩
    rcases List.mem_cons.1 ht with rfl | ht
    · -- the head: updated now, untouched by the rest
      obtain ⟨g, eg, hg⟩ := consMap_updateConsumers (updateConsumer db cons a) rest
      -- rows with an id not among the rest are unchanged by the rest
      have hrest : ∀ (l : List (ConsumerReq × ConsRow × ReqAttr)) (d : DB R) (x : ConsRow),
          x ∈ (updateConsumers d l).consumers → (∀ t ∈ l, t.2.1.id ≠ x.id) → x ∈ d.consumers := by
        intro l
        induction l with
        | nil => intro d x hx _; exact hx
        | cons hd tl ih =>
          intro d x hx hn
          obtain ⟨c', cons', a'⟩ := hd
          unfold updateConsumers at hx
          have := ih _ x hx (fun t ht => hn t (List.mem_cons_of_mem _ ht))
          obtain ⟨G', eG', hG'⟩ := updateConsumer_shape d cons' a'
          rw [eG'] at this
          obtain ⟨x0, hx0, rfl⟩ := List.mem_map.1 this
          have hne : x0.id ≠ cons'.id := by
            have := hn _ List.mem_cons_self
            rw [(hG' x0).1] at this
            exact fun e => this e.symm
          rw [(hG' x0).2 hne]; exact hx0
      have hc2' : c2 ∈ (updateConsumer db cons a).consumers := by
        refine hrest rest _ c2 hc2 ?_
        intro t' ht' e
        exact hnd.1 (List.mem_map.2 ⟨t', ht', e.trans hid⟩)
      exact updateConsumer_row hU (hmem _ List.mem_cons_self) a c2 hc2' hid
    · exact updateConsumers_row rest hU' hmem' hnd.2 t ht c2 hc2 hid

section
variable {cfg : Config} {mv : Nat} {db0 db1 : DB R} {triples : List (ConsumerReq × ConsRow × ReqAttr)}
  {created : List Nat}

/-- shared by POST /allocations and POST /reshaper: the rows of the consumers named by the request carry
the requested attributes after the write transaction -/
theorem Insp.attrs_final (I : Insp cfg mv db0 db1 triples created)
    (hn : (triples.map (fun t => t.2.1.uuid)).Nodup) {objs : List AllocReq} {db3 : DB R}
    (hT : AllocTxn (updateConsumers db1 triples) db3 objs) :
    ∀ t ∈ triples, ∀ row ∈ db3.consumers, row.uuid = t.1.uuid →
      row.project = reqProject cfg t.1 ∧ row.user = reqUser cfg t.1 ∧ row.ctype = typeAfterPut db0 mv t.1 := by
  intro t ht row hrow eu
  obtain ⟨tm, tu, -, tattr⟩ := I.acc t ht
  -- distinct uuids of rows of one table are distinct ids
  have hids : (triples.map (fun t => t.2.1.id)).Nodup := by
    rw [L.nodup_map_iff_pairwise]
    refine (List.Pairwise.and_mem.1 (L.nodup_map_iff_pairwise.1 hn)).imp ?_
    rintro a b ⟨ha, hb, hne⟩ e
    exact hne (by rw [L.eq_of_key_eq I.uniq.consId (I.acc a ha).1 (I.acc b hb).1 e])
  obtain ⟨c2, hc2, i2, u2, p2, us2, t2⟩ := hT.consSub row hrow
  have hid : c2.id = t.2.1.id := by
    obtain ⟨g, e, hg⟩ := consMap_updateConsumers db1 triples
    rw [e] at hc2
    obtain ⟨c1, hc1, rfl⟩ := List.mem_map.1 hc2
    have : c1 = t.2.1 := L.eq_of_key_eq I.uniq.consUuid hc1 tm (by rw [← (hg c1).2.1, u2, eu, tu])
    rw [(hg c1).1, this]
  obtain ⟨e1, e2, e3⟩ := updateConsumers_row triples I.uniq (fun t ht => (I.acc t ht).1) hids t ht c2 hc2 hid
  rw [tattr] at e1 e2 e3
  refine ⟨p2.symm.trans e1, us2.symm.trans e2, t2.symm.trans (e3.trans ?_)⟩
  unfold typeAfter typeAfterPut
  show (match reqType mv t.1 with | some x => some x | none => t.2.1.ctype) = _
  cases hrt : reqType mv t.1 with
  | some x => rfl
  | none =>
    dsimp only
    rcases I.split _ tm with ⟨hold, -⟩ | ⟨hcr, hnone⟩
    · -- `consByUuid db0` finds the same row: rows of db0 are rows of db1 and uuids are unique there
      have hfind : db0.consByUuid t.1.uuid = some t.2.1 := by
        cases hc : db0.consByUuid t.1.uuid with
        | none => exact absurd tu (consByUuid_none hc _ hold)
        | some x =>
          obtain ⟨hx, ex⟩ := mem_of_consByUuid hc
          rw [L.eq_of_key_eq I.uniq.consUuid (I.old x hx) tm (ex.trans tu.symm)]
      rw [hfind]; rfl
    · obtain ⟨t', ht', et, -, -, ect⟩ := I.fromAcc _ tm hcr
      have : t' = t := L.eq_of_key_eq hn ht' ht (by rw [et])
      subst this
      have hnone' : db0.consByUuid t'.1.uuid = none := by
        cases hc : db0.consByUuid t'.1.uuid with
        | none => rfl
        | some x =>
          obtain ⟨hx, ex⟩ := mem_of_consByUuid hc
          exact absurd (ex.trans tu.symm) (hnone x hx)
      rw [hnone', ect, tattr]
      simp [reqAttr, hrt]

end


variable [CapOps R]

omit [CapOps R] in
theorem inspect_error_status {cfg : Config} {mv : Nat} : ∀ (cs : List ConsumerReq) {db d : DB R}
    {acc : List (ConsumerReq × ConsRow × ReqAttr)} {created : List Nat} {e : Resp},
    inspectConsumers cfg mv db cs acc created = (d, .error e) → e.status = 204 → False
  | [], db, d, acc, created, e, h, _ => by simp [inspectConsumers] at h
  | c :: cs, db, d, acc, created, e, h, hs => by
    unfold inspectConsumers at h
    generalize hE : ensureConsumer cfg db mv c = p at h
    obtain ⟨db1, r1⟩ := p
    have hc := ensureConsumer_cases hE
    cases r1 with
    | error r =>
      cases hc
      simp only [Prod.mk.injEq, Except.error.injEq] at h
      rw [← h.2] at hs
      simp [r409] at hs
    | ok v =>
      obtain ⟨cons, isNew, attr⟩ := v
      exact inspect_error_status cs h hs

omit [CapOps R] in
theorem allocObjects_error_status {db : DB R} {cons : ConsRow} {c : ConsumerReq} {e : Resp}
    (he : allocObjects db cons c = .error e) (hs : e.status = 204) : False := by
  unfold allocObjects at he
  split at he
  · split at he <;> cases he
  · split at he
    · injection he with he; subst he; simp [r400] at hs
    · cases he

omit [CapOps R] in
theorem allocObjectsAll_error_status {db : DB R} : ∀ {triples : List (ConsumerReq × ConsRow × ReqAttr)} {e : Resp},
    allocObjectsAll db triples = .error e → e.status = 204 → False
  | [], e, h, _ => by simp [allocObjectsAll] at h
  | (c, cons, attr) :: rest, e, h, hs => by
    unfold allocObjectsAll at h
    simp only [bind, Except.bind, pure, Except.pure] at h
    split at h
    · next e' he' =>
      injection h with h; subst h
      exact allocObjects_error_status he' hs
    · split at h
      · next e' he' =>
        injection h with h; subst h
        exact allocObjectsAll_error_status he' hs
      · cases h

/-- **attributes after POST /allocations**: every consumer named by a successful request carries the
requested project and user (placeholders when none is named) and type -/
theorem post_attrs {cfg : Config} {db db' : DB R} (hW : WFI db) {mv : Nat} {cs : List ConsumerReq} {r : Resp}
    (hwf : OpWF (.allocPost mv cs : Op R)) (h : step cfg db (.allocPost mv cs) = (db', r)) (hs : r.status = 204) :
    ∀ c ∈ cs, ∀ row ∈ db'.consumers, row.uuid = c.uuid →
      row.project = reqProject cfg c ∧ row.user = reqUser cfg c ∧ row.ctype = typeAfterPut db mv c := by
  obtain ⟨hn, -⟩ := hwf
  have h : hAllocPost cfg db mv cs = (db', r) := h
  unfold hAllocPost at h
  split at h
  · simp only [Prod.mk.injEq] at h; rw [← h.2] at hs; simp [r404] at hs
  · generalize hI : inspectConsumers cfg mv db cs [] [] = p at h
    obtain ⟨db1, res⟩ := p
    have hsp := inspectConsumers_spec cs (Insp.init hW.uniq hW.ri) hI
    cases res with
    | error e =>
      -- the only failure of `inspect_consumers` is the generation conflict
      exfalso
      dsimp only at h
      simp only [Prod.mk.injEq] at h
      rw [← h.2] at hs
      exact inspect_error_status cs hI hs
    | ok v =>
      obtain ⟨triples, created⟩ := v
      obtain ⟨I, hm⟩ := hsp
      simp only [List.map_nil, List.nil_append] at hm
      dsimp only at h
      split at h
      · next e he =>
        exfalso
        simp only [Prod.mk.injEq] at h
        rw [← h.2] at hs
        exact allocObjectsAll_error_status he hs
      · next objs hO =>
        split at h
        · next db3 h3 =>
          simp only [Prod.mk.injEq] at h
          obtain ⟨rfl, -⟩ := h
          intro c hc row hrow eu
          obtain ⟨t, ht, rfl⟩ : ∃ t ∈ triples, t.1 = c := by
            rw [← hm] at hc; obtain ⟨t, ht, e⟩ := List.mem_map.1 hc; exact ⟨t, ht, e⟩
          exact I.attrs_final (I.uuids_nodup hm hn) (allocTxn_setAllocations h3) t ht row
            (List.mem_filter.1 hrow).1 eu
        · exfalso
          simp only [Prod.mk.injEq] at h
          rw [← h.2] at hs
          exact allocErr_status _ hs


omit [CapOps R] in
theorem reshapeErr_status (e : Exc) : (reshapeErr e).status ≠ 204 := by
  unfold reshapeErr
  repeat' split
  all_goals simp [r400, r409, r500]

omit [CapOps R] in
theorem resolveReshapeRps_error_status {db : DB R} : ∀ {l : List (RpInvReq R)} {e : Resp},
    resolveReshapeRps db l = .error e → e.status = 204 → False
  | [], e, h, _ => by simp [resolveReshapeRps] at h
  | x :: rest, e, h, hs => by
    unfold resolveReshapeRps at h
    split at h
    · injection h with h; subst h; simp at hs
    · split at h
      · injection h with h; subst h; simp [r409] at hs
      · cases hr : resolveReshapeRps db rest with
        | error e' =>
          simp [hr, Except.map] at h
          subst h
          exact resolveReshapeRps_error_status hr hs
        | ok v => simp [hr, Except.map] at h

/-- **attributes after POST /reshaper** -/
theorem reshape_attrs {cfg : Config} {db db' : DB R} (hW : WFI db) {mv : Nat} {invs : List (RpInvReq R)}
    {cs : List ConsumerReq} {r : Resp}
    (hwf : OpWF (.reshape mv invs cs : Op R)) (h : step cfg db (.reshape mv invs cs) = (db', r))
    (hs : r.status = 204) :
    ∀ c ∈ cs, ∀ row ∈ db'.consumers, row.uuid = c.uuid →
      row.project = reqProject cfg c ∧ row.user = reqUser cfg c ∧ row.ctype = typeAfterPut db mv c := by
  obtain ⟨hn, -⟩ := hwf
  have h : hReshape cfg db mv invs cs = (db', r) := h
  unfold hReshape at h
  split at h
  · simp only [Prod.mk.injEq] at h; rw [← h.2] at hs; simp [r404] at hs
  · split at h
    · next e he =>
      exfalso
      simp only [Prod.mk.injEq] at h
      rw [← h.2] at hs
      exact resolveReshapeRps_error_status he hs
    · next rinvs _ =>
      generalize hI : inspectConsumers cfg mv db cs [] [] = p at h
      obtain ⟨db1, res⟩ := p
      have hsp := inspectConsumers_spec cs (Insp.init hW.uniq hW.ri) hI
      cases res with
      | error e =>
        exfalso
        dsimp only at h
        simp only [Prod.mk.injEq] at h
        rw [← h.2] at hs
        exact inspect_error_status cs hI hs
      | ok v =>
        obtain ⟨triples, created⟩ := v
        obtain ⟨I, hm⟩ := hsp
        simp only [List.map_nil, List.nil_append] at hm
        dsimp only at h
        split at h
        · next e he =>
          exfalso
          simp only [Prod.mk.injEq] at h
          rw [← h.2] at hs
          exact allocObjectsAll_error_status he hs
        · next objs hO =>
          split at h
          · next db3 h3 =>
            simp only [Prod.mk.injEq] at h
            obtain ⟨rfl, -⟩ := h
            have hM := consMap_updateConsumers db1 triples
            have h2 := I.wfi_updated hW
            obtain ⟨-, -, hT, -, -⟩ := reshapeTxn_ok h2.uniq h2.ri (I.objs_cons hO hM) h3
            intro c hc row hrow eu
            obtain ⟨t, ht, rfl⟩ : ∃ t ∈ triples, t.1 = c := by
              rw [← hm] at hc; obtain ⟨t, ht, e⟩ := List.mem_map.1 hc; exact ⟨t, ht, e⟩
            exact I.attrs_final (I.uuids_nodup hm hn) hT t ht row (List.mem_filter.1 hrow).1 eu
          · exfalso
            simp only [Prod.mk.injEq] at h
            rw [← h.2] at hs
            exact reshapeErr_status _ hs

end Placement.Wf
