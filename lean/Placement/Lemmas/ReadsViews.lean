import Placement.Lemmas.ReadsBase
import Placement.Spec.ReadViews
/-
  Characterisation of what the two allocation listings report, in terms of the stored rows.
-/
namespace Placement
namespace ReadsL
open Placement.C11Reads

variable {R : Type}

theorem fld?_cons_self (f : Fld) (x : Body R) (rest : List (Key × Body R)) :
    (Body.obj ((Key.fld f, x) :: rest)).fld? f = some x := by
  simp [Body.fld?, Body.get?]

theorem fld?_cons_ne (k : Key) (f : Fld) (x : Body R) (rest : List (Key × Body R)) (h : k ≠ Key.fld f) :
    (Body.obj ((k, x) :: rest)).fld? f = (Body.obj rest).fld? f := by
  simp [Body.fld?, Body.get?, h]

theorem mem_rpAllocRows {db : DB R} {rp : Nat} {a : AllocRow} {cr : ConsRow} :
    (a, cr) ∈ rpAllocRows db rp ↔ a ∈ db.allocs ∧ a.rp = rp ∧ db.consByUuid a.consumer = some cr := by
  unfold rpAllocRows
  rw [List.mem_filterMap]
  constructor
  · rintro ⟨a', ha', h⟩
    rw [List.mem_filter] at ha'
    cases hc : db.consByUuid a'.consumer with
    | none => simp [hc] at h
    | some c =>
      simp only [hc, Option.map_some, Option.some.injEq, Prod.mk.injEq] at h
      obtain ⟨rfl, rfl⟩ := h
      exact ⟨ha'.1, by simpa using ha'.2, hc⟩
  · rintro ⟨ha, hrp, hc⟩
    exact ⟨a, List.mem_filter.mpr ⟨ha, by simp [hrp]⟩, by simp [hc]⟩

theorem mem_consAllocRows {db : DB R} {c : Nat} {a : AllocRow} {p : RpRow} {cr : ConsRow} :
    (a, p, cr) ∈ consAllocRows db c ↔
      a ∈ db.allocs ∧ a.consumer = c ∧ db.rpById a.rp = some p ∧ db.consByUuid c = some cr := by
  unfold consAllocRows
  rw [List.mem_filterMap]
  constructor
  · rintro ⟨a', ha', h⟩
    rw [List.mem_filter] at ha'
    cases hp : db.rpById a'.rp with
    | none => simp [hp] at h
    | some p' =>
      cases hc : db.consByUuid c with
      | none => simp [hp, hc] at h
      | some c' =>
        simp only [hp, hc, Option.some.injEq, Prod.mk.injEq] at h
        obtain ⟨rfl, rfl, rfl⟩ := h
        exact ⟨ha'.1, by simpa using ha'.2, hp, rfl⟩
  · rintro ⟨ha, hcons, hp, hc⟩
    exact ⟨a, List.mem_filter.mpr ⟨ha, by simp [hcons]⟩, by simp [hp, hc]⟩

/-- the triples of a listing built by grouping `rows` under the duplicate-free keys of `key` -/
theorem mem_grouped {ρ κ : Type} [DecidableEq κ] (db : DB R) (rows : List ρ) (key : ρ → κ) (nmOf : κ → Nat)
    (alloc : ρ → AllocRow) (t : Nat × Nat × Int) :
    t ∈ ((rows.map key).eraseDups.map (fun k =>
          (nmOf k, resourcesObj db ((rows.filter (fun r => key r == k)).map alloc)))).flatMap
        (fun e => (e.2.namedInts).map (fun p => (e.1, p.1, p.2))) ↔
      ∃ r ∈ rows, nmOf (key r) = t.1 ∧ db.rcName (alloc r).rc = some t.2.1 ∧ (alloc r).used = t.2.2 := by
  obtain ⟨k0, n0, x0⟩ := t
  constructor
  · intro h
    rw [List.mem_flatMap] at h
    obtain ⟨e, he, ht⟩ := h
    rw [List.mem_map] at he
    obtain ⟨k, _, rfl⟩ := he
    simp only [namedInts_resourcesObj, List.mem_map, List.mem_filterMap, List.mem_filter,
      Option.map_eq_some_iff, Prod.mk.injEq] at ht
    obtain ⟨p, ⟨a, ⟨r, ⟨hr, hkr⟩, rfl⟩, m, hm, rfl⟩, rfl, rfl, rfl⟩ := ht
    have hk' : key r = k := by simpa using hkr
    exact ⟨r, hr, by rw [hk'], hm, rfl⟩
  · rintro ⟨r, hr, hk, hm, hx⟩
    simp only at hk hm hx
    rw [List.mem_flatMap]
    refine ⟨(nmOf (key r), resourcesObj db ((rows.filter (fun r' => key r' == key r)).map alloc)),
      List.mem_map.mpr ⟨key r, List.mem_eraseDups.mpr (List.mem_map_of_mem hr), rfl⟩, ?_⟩
    simp only [namedInts_resourcesObj, List.mem_map, List.mem_filterMap, List.mem_filter,
      Option.map_eq_some_iff, Prod.mk.injEq]
    exact ⟨(n0, (alloc r).used), ⟨alloc r, ⟨r, ⟨hr, by simp⟩, rfl⟩, n0, hm, rfl⟩, hk, rfl, hx⟩

/-- what `GET /resource_providers/{u}/allocations` lists -/
theorem mem_allocTriples_rp (mv : Nat) (db : DB R) (u : Nat) (v : RpView) (hp : provider db u = some v)
    (c n : Nat) (x : Int) :
    (c, n, x) ∈ allocTriples (getRpAllocations mv db u).2 ↔
      ∃ a ∈ db.allocs, a.rp = v.row.id ∧ a.consumer = c ∧ (db.consByUuid c).isSome ∧
        db.rcName a.rc = some n ∧ a.used = x := by
  have hshape : allocTriples (getRpAllocations mv db u).2 =
      (((rpAllocRows db v.row.id).map (·.2)).eraseDups.map (fun k =>
          (k.uuid, resourcesObj db (((rpAllocRows db v.row.id).filter (fun r => r.2 == k)).map (·.1))))).flatMap
        (fun e => (e.2.namedInts).map (fun p => (e.1, p.1, p.2))) := by
    simp only [getRpAllocations, hp, allocTriples]
    rw [fld?_cons_self]
    simp only [Option.getD_some]
    rw [named_map]
    simp only [List.flatMap_map]
    congr 1
  rw [hshape, mem_grouped]
  constructor
  · rintro ⟨⟨a, cr⟩, hr, hk, hn, hx⟩
    rw [mem_rpAllocRows] at hr
    have hcu := (consByUuid_mem hr.2.2).2
    simp only at hk hn hx
    have hac : a.consumer = c := by rw [← hcu, hk]
    exact ⟨a, hr.1, hr.2.1, hac, by rw [← hac, hr.2.2]; rfl, hn, hx⟩
  · rintro ⟨a, ha, hrp, hac, hcs, hn, hx⟩
    cases hc : db.consByUuid c with
    | none => simp [hc] at hcs
    | some cr =>
      refine ⟨(a, cr), mem_rpAllocRows.mpr ⟨ha, hrp, by rw [hac, hc]⟩, ?_, hn, hx⟩
      exact (consByUuid_mem hc).2

/-- what `GET /allocations/{c}` lists -/
theorem mem_allocTriples_cons (mv : Nat) (db : DB R) (c : Nat) (pu n : Nat) (x : Int) :
    (pu, n, x) ∈ allocTriples (getAllocations mv db c).2 ↔
      ∃ a ∈ db.allocs, a.consumer = c ∧ (∃ p, db.rpById a.rp = some p ∧ p.uuid = pu) ∧
        (db.consByUuid c).isSome ∧ db.rcName a.rc = some n ∧ a.used = x := by
  have hshape : allocTriples (getAllocations mv db c).2 =
      (((consAllocRows db c).map (·.2.1)).eraseDups.map (fun k =>
          (k.uuid, resourcesObj db (((consAllocRows db c).filter (fun r => r.2.1 == k)).map (·.1))))).flatMap
        (fun e => (e.2.namedInts).map (fun p => (e.1, p.1, p.2))) := by
    simp only [getAllocations, allocTriples, List.cons_append, List.nil_append]
    rw [fld?_cons_self]
    simp only [Option.getD_some]
    rw [named_map]
    simp only [List.flatMap_map]
    congr 1
  rw [hshape, mem_grouped]
  constructor
  · rintro ⟨⟨a, p, cr⟩, hr, hk, hn, hx⟩
    rw [mem_consAllocRows] at hr
    simp only at hk hn hx
    exact ⟨a, hr.1, hr.2.1, ⟨p, hr.2.2.1, hk⟩, by rw [hr.2.2.2]; rfl, hn, hx⟩
  · rintro ⟨a, ha, hac, ⟨p, hp, hpu⟩, hcs, hn, hx⟩
    cases hc : db.consByUuid c with
    | none => simp [hc] at hcs
    | some cr => exact ⟨(a, p, cr), mem_consAllocRows.mpr ⟨ha, hac, hp, hc⟩, hpu, hn, hx⟩

end ReadsL
end Placement
