import Placement.Lemmas.ReadsViews
import Placement.Spec.Inv
/-
  `GET /usages` against the per-consumer listings: sums.
-/
namespace Placement
namespace ReadsL
open Placement.C11Reads

variable {R : Type}

/-- `Σ used` over the rows satisfying `p` -/
def sumWhere (l : List AllocRow) (p : AllocRow → Bool) : Int := ((l.filter p).map (·.used)).sum

theorem sumWhere_congr (l : List AllocRow) (p q : AllocRow → Bool) (h : ∀ a ∈ l, p a = q a) :
    sumWhere l p = sumWhere l q := by
  unfold sumWhere; rw [List.filter_congr h]

theorem sumWhere_nil (p : AllocRow → Bool) : sumWhere [] p = 0 := rfl

theorem sumWhere_cons (a : AllocRow) (l : List AllocRow) (p : AllocRow → Bool) :
    sumWhere (a :: l) p = (if p a then a.used else 0) + sumWhere l p := by
  unfold sumWhere
  by_cases h : p a <;> simp [h]

theorem sumWhere_filter (l : List AllocRow) (p q : AllocRow → Bool) :
    sumWhere (l.filter p) q = sumWhere l (fun a => p a && q a) := by
  unfold sumWhere; rw [List.filter_filter]
  congr 2
  apply List.filter_congr
  intro a _; exact Bool.and_comm ..

theorem sum_flatMap {α : Type} (l : List α) (f : α → List Int) :
    (l.flatMap f).sum = (l.map (fun x => (f x).sum)).sum := by
  induction l with
  | nil => simp
  | cons a as ih => simp [List.flatMap_cons, List.sum_append, ih]

/-- partition of `sumWhere` by a key over a duplicate-free cover of the keys that occur -/
theorem sumWhere_by_key (key : AllocRow → Nat) (ks : List Nat) (hnd : ks.Nodup) (l : List AllocRow)
    (p : AllocRow → Bool) (hc : ∀ a ∈ l, p a = true → key a ∈ ks) :
    sumWhere l p = (ks.map (fun k => sumWhere l (fun a => p a && key a == k))).sum := by
  unfold sumWhere
  rw [sum_by_key key (·.used) ks hnd (l.filter p) (fun a ha => hc a (List.mem_filter.mp ha).1 (List.mem_filter.mp ha).2)]
  apply sum_map_congr
  intro k _
  rw [List.filter_filter]
  congr 2
  apply List.filter_congr
  intro a _; exact Bool.and_comm ..

/-! ### the per-consumer listing as a sum -/

/-- the amounts one group of a listing reports for the class named `n` -/
theorem group_sum (db : DB R) (k0 n : Nat) (as : List AllocRow) :
    ((((resourcesObj db as).namedInts.map (fun p => (k0, p.1, p.2))).filter (fun t => t.2.1 == n)).map (·.2.2)).sum
      = sumWhere as (fun a => db.rcName a.rc == some n) := by
  rw [namedInts_resourcesObj]
  induction as with
  | nil => rfl
  | cons a as ih =>
    rw [sumWhere_cons, ← ih]
    cases hm : db.rcName a.rc with
    | none => simp [hm]
    | some m =>
      by_cases hmn : m = n
      · simp [hm, hmn]
      · have : (some m == some n) = false := by simp [hmn]
        simp [hm, hmn]

/-- a listing built by grouping `rows` under their distinct keys reports, for the class named `n`,
in total the sum over all rows of that class -/
theorem sum_grouped {ρ κ : Type} [DecidableEq κ] (db : DB R) (rows : List ρ) (key : ρ → κ) (nmOf : κ → Nat)
    (alloc : ρ → AllocRow) (n : Nat) :
    (((((rows.map key).eraseDups.map (fun k =>
          (nmOf k, resourcesObj db ((rows.filter (fun r => key r == k)).map alloc)))).flatMap
        (fun e => (e.2.namedInts).map (fun p => (e.1, p.1, p.2)))).filter (fun t => t.2.1 == n)).map (·.2.2)).sum
      = sumWhere (rows.map alloc) (fun a => db.rcName a.rc == some n) := by
  rw [List.filter_flatMap, List.map_flatMap, sum_flatMap, List.map_map]
  have hg : ∀ k, ((fun x : Nat × Body R => (((x.2.namedInts.map (fun p => (x.1, p.1, p.2))).filter
        (fun t => t.2.1 == n)).map (·.2.2)).sum) ∘
      (fun k => (nmOf k, resourcesObj db ((rows.filter (fun r => key r == k)).map alloc)))) k
      = ((rows.filter (fun r => key r == k)).map
          (fun r => if db.rcName (alloc r).rc == some n then (alloc r).used else 0)).sum := by
    intro k
    simp only [Function.comp]
    rw [group_sum]
    generalize rows.filter (fun r => key r == k) = l
    induction l with
    | nil => rfl
    | cons r rs ih => rw [List.map_cons, sumWhere_cons, ih]; simp
  rw [show ((fun x : Nat × Body R => (((x.2.namedInts.map (fun p => (x.1, p.1, p.2))).filter
        (fun t => t.2.1 == n)).map (·.2.2)).sum) ∘
      (fun k => (nmOf k, resourcesObj db ((rows.filter (fun r => key r == k)).map alloc))))
      = (fun k => ((rows.filter (fun r => key r == k)).map
          (fun r => if db.rcName (alloc r).rc == some n then (alloc r).used else 0)).sum) from funext hg]
  rw [← sum_by_key_eraseDups key (fun r => if db.rcName (alloc r).rc == some n then (alloc r).used else 0) rows]
  generalize rows = l
  induction l with
  | nil => rfl
  | cons r rs ih => rw [List.map_cons, List.map_cons, sumWhere_cons, List.sum_cons, ih]

theorem allocTriples_cons_shape (mv : Nat) (db : DB R) (c : Nat) :
    allocTriples (getAllocations mv db c).2 =
      (((consAllocRows db c).map (·.2.1)).eraseDups.map (fun k =>
          (k.uuid, resourcesObj db (((consAllocRows db c).filter (fun r => r.2.1 == k)).map (·.1))))).flatMap
        (fun e => (e.2.namedInts).map (fun p => (e.1, p.1, p.2))) := by
  simp only [getAllocations, allocTriples, List.cons_append, List.nil_append]
  rw [fld?_cons_self]
  simp only [Option.getD_some]
  rw [named_map]
  simp only [List.flatMap_map]
  congr 1

/-- under referential integrity, the join of `GET /allocations/{c}` keeps every row of an existing
consumer -/
theorem consAllocRows_allocs (db : DB R) (hRI : RI db) (c : ConsRow) (hc : db.consByUuid c.uuid = some c) :
    (consAllocRows db c.uuid).map (·.1) = db.allocs.filter (·.consumer == c.uuid) := by
  unfold consAllocRows
  rw [hc]
  have : ∀ (l : List AllocRow), (∀ a ∈ l, a ∈ db.allocs) →
      (l.filterMap (fun a => match db.rpById a.rp, some c with
        | some p, some cr => some (a, p, cr)
        | _, _ => none)).map (·.1) = l := by
    intro l
    induction l with
    | nil => intro _; rfl
    | cons a as ih =>
      intro h
      obtain ⟨r, hr, hri⟩ := hRI.allocRp a (h a (List.mem_cons_self ..))
      have hsome : ∃ p, db.rpById a.rp = some p := by
        unfold DB.rpById
        cases hf : db.rps.find? (·.id == a.rp) with
        | none => rw [List.find?_eq_none] at hf; exact absurd (hf r hr) (by simp [hri])
        | some p => exact ⟨p, rfl⟩
      obtain ⟨p, hp⟩ := hsome
      rw [List.filterMap_cons]
      simp only [hp, List.map_cons]
      rw [ih (fun b hb => h b (List.mem_cons_of_mem _ hb))]
  exact this _ (fun a ha => (List.mem_filter.mp ha).1)

/-- what `GET /allocations/{c}` reports in total for the class named `n` is the sum of the stored
rows of `c` of that class -/
theorem consumerViewAmount_eq (db : DB R) (hRI : RI db) (c : ConsRow) (hc : db.consByUuid c.uuid = some c) (n : Nat) :
    consumerViewAmount db c.uuid n =
      sumWhere db.allocs (fun a => a.consumer == c.uuid && db.rcName a.rc == some n) := by
  unfold consumerViewAmount
  rw [allocTriples_cons_shape, sum_grouped, consAllocRows_allocs db hRI c hc, sumWhere_filter]

/-! ### the total -/

/-- the join condition of the usage queries, on one allocation row -/
def joins (db : DB R) (project : Nat) (user : Option Nat) (tp : Option Nat → Bool) (a : AllocRow) : Bool :=
  match db.consByUuid a.consumer with
  | some c => usageMatch project user tp c
  | none => false

theorem totalRows_sum (db : DB R) (project : Nat) (user : Option Nat) (tp : Option Nat → Bool) (rc : Nat) :
    (((totalRows db project user tp).filter (fun r => r.1.rc == rc)).map (fun r => r.1.used)).sum
      = sumWhere db.allocs (fun a => joins db project user tp a && a.rc == rc) := by
  unfold totalRows
  generalize db.allocs = l
  induction l with
  | nil => rfl
  | cons a as ih =>
    rw [sumWhere_cons, ← ih, List.filterMap_cons]
    unfold joins
    cases hc : db.consByUuid a.consumer with
    | none => simp
    | some c =>
      by_cases hp : usageMatch project user tp c = true
      · simp only [hp, if_true]
        by_cases hrc : a.rc = rc
        · simp [hrc]
        · simp [hrc]
      · have hp' : usageMatch project user tp c = false := by simpa using hp
        simp [hp']

theorem rcName_inj (db : DB R) (hN : (db.rcs.map (·.2)).Nodup) {i j n : Nat}
    (hi : db.rcName i = some n) (hj : db.rcName j = some n) : i = j := by
  unfold DB.rcName at hi hj
  cases hfi : db.rcs.find? (·.1 == i) with
  | none => simp [hfi] at hi
  | some pi =>
    cases hfj : db.rcs.find? (·.1 == j) with
    | none => simp [hfj] at hj
    | some pj =>
      simp only [hfi, hfj, Option.map_some, Option.some.injEq] at hi hj
      have h1 : pi.1 = i := by simpa using List.find?_some hfi
      have h2 : pj.1 = j := by simpa using List.find?_some hfj
      have := eq_of_nodup_map (·.2) db.rcs hN pi (List.mem_of_find?_eq_some hfi) pj (List.mem_of_find?_eq_some hfj)
        (by rw [hi, hj])
      rw [← h1, ← h2, this]

/-- `SUM(used)` of the usage query for class `rc` (named `n`) is the sum, over the consumers of
the project (and user, and type condition), of what `GET /allocations/{c}` reports for `n` -/
theorem total_eq_sum_views (db : DB R) (hU : Uniq db) (hRI : RI db) (project : Nat) (user : Option Nat)
    (tp : Option Nat → Bool) (rc n : Nat) (hn : db.rcName rc = some n) :
    sumWhere db.allocs (fun a => joins db project user tp a && a.rc == rc)
      = ((consumersOfT db project user tp).map (fun c => consumerViewAmount db c.uuid n)).sum := by
  have hsub : ((consumersOfT db project user tp).map (·.uuid)).Nodup :=
    List.Nodup.sublist (List.Sublist.map _ List.filter_sublist) hU.consUuid
  rw [sumWhere_by_key (·.consumer) _ hsub db.allocs _ (fun a _ hp => by
    simp only [Bool.and_eq_true] at hp
    unfold joins at hp
    cases hc : db.consByUuid a.consumer with
    | none => simp [hc] at hp
    | some c =>
      obtain ⟨hcm, hcu⟩ := consByUuid_mem hc
      simp only [hc] at hp
      exact List.mem_map.mpr ⟨c, List.mem_filter.mpr ⟨hcm, hp.1⟩, hcu⟩)]
  rw [List.map_map]
  apply sum_map_congr
  intro c hcmem
  obtain ⟨hcm, hpred⟩ := List.mem_filter.mp hcmem
  have hc : db.consByUuid c.uuid = some c := consByUuid_of_mem hU.consUuid hcm
  simp only [Function.comp]
  rw [consumerViewAmount_eq db hRI c hc]
  apply sumWhere_congr
  intro a _
  by_cases hac : a.consumer = c.uuid
  · have hj : joins db project user tp a = true := by
      unfold joins; rw [hac, hc]; exact hpred
    by_cases hrc : a.rc = rc
    · simp [hj, hac, hrc, hn]
    · have hne : ¬ db.rcName a.rc = some n := fun h => hrc (rcName_inj db hU.rcName h hn)
      have h1 : (a.rc == rc) = false := by simpa using hrc
      have h2 : (db.rcName a.rc == some n) = false := by simpa using hne
      simp [h1, h2]
  · have h1 : (a.consumer == c.uuid) = false := by simpa using hac
    simp [h1]

/-- what `sumByClass` reports -/
theorem mem_sumByClass (db : DB R) (hU : Uniq db) (hRI : RI db) (project : Nat) (user : Option Nat)
    (tp : Option Nat → Bool) (n : Nat) (x : Int)
    (h : (n, x) ∈ (Body.obj (sumByClass (R := R) db (totalRows db project user tp))).namedInts) :
    x = ((consumersOfT db project user tp).map (fun c => consumerViewAmount db c.uuid n)).sum := by
  unfold sumByClass at h
  rw [namedInts_filterMap (R := R) _ (fun rc => db.rcName rc)
    (fun rc => (((totalRows db project user tp).filter (fun r => r.1.rc == rc)).map (fun r => r.1.used)).sum)] at h
  simp only [List.mem_filterMap, Option.map_eq_some_iff, Prod.mk.injEq] at h
  obtain ⟨rc, _, m, hm, rfl, rfl⟩ := h
  rw [totalRows_sum, total_eq_sum_views db hU hRI project user tp rc m hm]

/-- restricting the joined rows to one consumer type is the join with that type condition -/
theorem totalRows_filter_type (db : DB R) (project : Nat) (user : Option Nat) (t : Option Nat) :
    (totalRows db project user (fun _ => true)).filter (fun r => r.2.ctype == t)
      = totalRows db project user (fun t' => t' == t) := by
  unfold totalRows
  generalize db.allocs = l
  induction l with
  | nil => rfl
  | cons a as ih =>
    rw [List.filterMap_cons, List.filterMap_cons]
    cases hc : db.consByUuid a.consumer with
    | none => simpa using ih
    | some c =>
      simp only
      by_cases hct : c.ctype = t
      · have e : usageMatch project user (fun t' => t' == t) c = usageMatch project user (fun _ => true) c := by
          simp [usageMatch, hct]
        rw [e]
        by_cases hm : usageMatch project user (fun _ => true) c = true
        · simp [hm, hct, ih]
        · have hm' : usageMatch project user (fun _ => true) c = false := by simpa using hm
          simp [hm', ih]
      · have hb : (c.ctype == t) = false := by simpa using hct
        have e : usageMatch project user (fun t' => t' == t) c = false := by
          simp [usageMatch, hb]
        rw [e]
        by_cases hm : usageMatch project user (fun _ => true) c = true
        · simp [hm, hb, ih]
        · have hm' : usageMatch project user (fun _ => true) c = false := by simpa using hm
          simp [hm', ih]

/-- one group of the 1.38 format: key, per-class sums, consumer count -/
theorem mem_usageGroup (db : DB R) (key : Key) (rows : List (AllocRow × ConsRow)) (k : Key) (g : Body R)
    (h : (k, g) ∈ usageGroup db key rows) :
    k = key ∧ g.namedInts = (Body.obj (sumByClass (R := R) db rows)).namedInts ∧
      g.fld? .consumerCount = some (.int (consumerCount rows)) := by
  unfold usageGroup at h
  by_cases he : (sumByClass (R := R) db rows).isEmpty = true
  · simp [he] at h
  · simp only [he, Bool.false_eq_true, if_false, List.mem_singleton, Prod.mk.injEq] at h
    obtain ⟨rfl, rfl⟩ := h
    refine ⟨rfl, namedInts_append_fld _ _ _, ?_⟩
    simp only [Body.fld?, Body.get?, fields_obj]
    rw [List.find?_append]
    have hnone : (sumByClass (R := R) db rows).find? (fun kv => kv.1 == Key.fld Fld.consumerCount) = none := by
      rw [List.find?_eq_none]
      intro kv hkv
      unfold sumByClass at hkv
      rw [List.mem_filterMap] at hkv
      obtain ⟨rc, _, hrc⟩ := hkv
      cases hn : db.rcName rc with
      | none => simp [hn] at hrc
      | some n => simp only [hn, Option.map_some, Option.some.injEq] at hrc; rw [← hrc]; simp
    rw [hnone]
    simp

/-- the distinct consumers counted by `consumer_count` are exactly the matching consumers that
hold allocations -/
theorem mem_counted (db : DB R) (project : Nat) (user : Option Nat) (tp : Option Nat → Bool) (u : Nat) :
    u ∈ ((totalRows db project user tp).map (·.1.consumer)).eraseDups ↔
      ∃ c ∈ consumersOfT db project user tp, db.consByUuid u = some c ∧ ∃ a ∈ db.allocs, a.consumer = u := by
  rw [List.mem_eraseDups, List.mem_map]
  unfold totalRows consumersOfT
  constructor
  · rintro ⟨⟨a, c⟩, hr, rfl⟩
    rw [List.mem_filterMap] at hr
    obtain ⟨a', ha', h⟩ := hr
    cases hc : db.consByUuid a'.consumer with
    | none => simp [hc] at h
    | some c' =>
      simp only [hc] at h
      by_cases hm : usageMatch project user tp c' = true
      · simp only [hm, if_true, Option.some.injEq, Prod.mk.injEq] at h
        obtain ⟨rfl, rfl⟩ := h
        exact ⟨c', List.mem_filter.mpr ⟨(consByUuid_mem hc).1, hm⟩, hc, a', ha', rfl⟩
      · simp [hm] at h
  · rintro ⟨c, hc, hcu, a, ha, rfl⟩
    refine ⟨(a, c), ?_, rfl⟩
    rw [List.mem_filterMap]
    exact ⟨a, ha, by simp [hcu, (List.mem_filter.mp hc).2]⟩

end ReadsL
end Placement
