import Placement.Lemmas.CandEnum
/-
  Amounts of an allocation request: `consolidate` adds up what the groups place on one (provider, class),
  keeps every key once (sorted), and preserves every sum over keys (used by `Props/C02.lean`).
-/
namespace Placement.Spec

abbrev Amounts := List ((Nat × Nat) × Int)

/-- the sum of the amounts stored under the keys selected by `f` -/
def sumBy (f : Nat × Nat → Bool) (l : Amounts) : Int := ((l.filter (fun x => f x.1)).map (·.2)).sum

/-- the amount placed on one (provider, class) -/
def amountAt (l : Amounts) (k : Nat × Nat) : Int := sumBy (fun k' => k' == k) l

/-- the amount of one class placed over all providers -/
def classTotal (l : Amounts) (rc : Nat) : Int := sumBy (fun k => k.2 == rc) l

/-- every (class, amount) the query asks for, over all groups -/
def Query.allRes (q : Query) : List (Nat × Int) := q.groups.flatMap (·.resources) ++ q.unsuffRes

/-- the total requested of one class over all groups -/
def requestedTotal (q : Query) (rc : Nat) : Int := ((q.allRes.filter (fun e => e.1 == rc)).map (·.2)).sum

theorem sumBy_nil (f : Nat × Nat → Bool) : sumBy f [] = 0 := rfl

theorem sumBy_cons (f : Nat × Nat → Bool) (x : (Nat × Nat) × Int) (l : Amounts) :
    sumBy f (x :: l) = (if f x.1 then x.2 else 0) + sumBy f l := by
  unfold sumBy
  by_cases h : f x.1 <;> simp [h]

theorem sumBy_append (f : Nat × Nat → Bool) (l m : Amounts) : sumBy f (l ++ m) = sumBy f l + sumBy f m := by
  induction l with
  | nil => simp [sumBy_nil]
  | cons x xs ih => simp only [List.cons_append, sumBy_cons, ih]; omega

theorem sumBy_addAmount (f : Nat × Nat → Bool) (k : Nat × Nat) (n : Int) :
    ∀ l : Amounts, sumBy f (addAmount k n l) = sumBy f l + (if f k then n else 0)
  | [] => by simp [addAmount, sumBy_cons, sumBy_nil]
  | (k', m) :: rest => by
    unfold addAmount
    split
    · rename_i h
      subst h
      simp only [sumBy_cons]
      split <;> omega
    · split
      · simp only [sumBy_cons]; omega
      · simp only [sumBy_cons, sumBy_addAmount f k n rest]; omega

theorem sumBy_consolidate (f : Nat × Nat → Bool) : ∀ l : Amounts, sumBy f (consolidate l) = sumBy f l
  | [] => rfl
  | (k, n) :: rest => by
    simp only [consolidate, sumBy_addAmount, sumBy_consolidate f rest, sumBy_cons]; omega

/-! ### keys -/

theorem keyLt_irrefl (a : Nat × Nat) : keyLt a a = false := by simp [keyLt]

theorem keyLt_trans {a b c : Nat × Nat} (h1 : keyLt a b = true) (h2 : keyLt b c = true) : keyLt a c = true := by
  simp only [keyLt, Bool.or_eq_true, decide_eq_true_eq, Bool.and_eq_true, beq_iff_eq] at *
  omega

theorem keyLt_of_not {a b : Nat × Nat} (hne : a ≠ b) (h : ¬ keyLt a b = true) : keyLt b a = true := by
  simp only [keyLt, Bool.or_eq_true, decide_eq_true_eq, Bool.and_eq_true, beq_iff_eq] at *
  have : a.1 ≠ b.1 ∨ a.2 ≠ b.2 := by
    by_cases h1 : a.1 = b.1
    · right; intro h2; exact hne (Prod.ext h1 h2)
    · left; exact h1
  omega

/-- keys strictly increasing -/
def KeySorted (l : Amounts) : Prop := l.Pairwise (fun a b => keyLt a.1 b.1 = true)

theorem mem_addAmount_key (k : Nat × Nat) (n : Int) : ∀ (l : Amounts) (k' : Nat × Nat),
    k' ∈ (addAmount k n l).map (·.1) ↔ k' = k ∨ k' ∈ l.map (·.1)
  | [], k' => by simp [addAmount]
  | (k0, m) :: rest, k' => by
    unfold addAmount
    split
    · rename_i h; subst h
      simp only [List.map_cons, List.mem_cons]
      constructor
      · rintro (h | h); exact Or.inl h; exact Or.inr (Or.inr h)
      · rintro (h | h | h); exact Or.inl h; exact Or.inl h; exact Or.inr h
    · split
      · simp [List.map_cons, List.mem_cons]
      · simp only [List.map_cons, List.mem_cons, mem_addAmount_key k n rest k']
        constructor
        · rintro (h | h | h); exact Or.inr (Or.inl h); exact Or.inl h; exact Or.inr (Or.inr h)
        · rintro (h | h | h); exact Or.inr (Or.inl h); exact Or.inl h; exact Or.inr (Or.inr h)

theorem addAmount_sorted (k : Nat × Nat) (n : Int) : ∀ l : Amounts, KeySorted l → KeySorted (addAmount k n l)
  | [], _ => by simp [addAmount, KeySorted]
  | (k0, m) :: rest, h => by
    unfold KeySorted at h
    rw [List.pairwise_cons] at h
    unfold addAmount
    split
    · rename_i hk; subst hk
      unfold KeySorted
      rw [List.pairwise_cons]
      exact ⟨h.1, h.2⟩
    · rename_i hne
      split
      · rename_i hlt
        unfold KeySorted
        rw [List.pairwise_cons, List.pairwise_cons]
        refine ⟨?_, h.1, h.2⟩
        intro b hb
        rcases List.mem_cons.mp hb with rfl | hb
        · exact hlt
        · exact keyLt_trans hlt (h.1 b hb)
      · rename_i hnlt
        unfold KeySorted
        rw [List.pairwise_cons]
        refine ⟨?_, addAmount_sorted k n rest h.2⟩
        intro b hb
        have hkey : b.1 ∈ (addAmount k n rest).map (·.1) := List.mem_map_of_mem hb
        rcases (mem_addAmount_key k n rest b.1).mp hkey with hbk | hbr
        · rw [hbk]; exact keyLt_of_not hne hnlt
        · obtain ⟨b', hb', hb'k⟩ := List.mem_map.mp hbr
          rw [← hb'k]; exact h.1 b' hb'

theorem consolidate_sorted : ∀ l : Amounts, KeySorted (consolidate l)
  | [] => by simp [consolidate, KeySorted]
  | (k, n) :: rest => by
    simp only [consolidate]
    exact addAmount_sorted k n _ (consolidate_sorted rest)

theorem KeySorted.nodup_keys {l : Amounts} (h : KeySorted l) : (l.map (·.1)).Nodup := by
  unfold KeySorted at h
  induction l with
  | nil => simp
  | cons x xs ih =>
    rw [List.pairwise_cons] at h
    rw [List.map_cons, List.nodup_cons]
    refine ⟨?_, ih h.2⟩
    intro hx
    obtain ⟨y, hy, hyk⟩ := List.mem_map.mp hx
    have := h.1 y hy
    rw [hyk, keyLt_irrefl] at this
    cases this

theorem mem_consolidate_key : ∀ (l : Amounts) (k : Nat × Nat), k ∈ (consolidate l).map (·.1) ↔ k ∈ l.map (·.1)
  | [], k => by simp [consolidate]
  | (k0, n) :: rest, k => by
    simp only [consolidate, mem_addAmount_key, mem_consolidate_key rest k, List.map_cons, List.mem_cons]

/-- in a list with distinct keys the entry stored under a key is the amount at that key -/
theorem amountAt_of_mem {l : Amounts} (hn : (l.map (·.1)).Nodup) {x : (Nat × Nat) × Int} (hx : x ∈ l) :
    amountAt l x.1 = x.2 := by
  induction l with
  | nil => cases hx
  | cons y ys ih =>
    rw [List.map_cons, List.nodup_cons] at hn
    unfold amountAt at *
    rw [sumBy_cons]
    rcases List.mem_cons.mp hx with rfl | hx'
    · have : sumBy (fun k' => k' == x.1) ys = 0 := by
        unfold sumBy
        have : ys.filter (fun z => z.1 == x.1) = [] := by
          rw [List.filter_eq_nil_iff]
          intro z hz hzk
          exact hn.1 (by rw [← (beq_iff_eq.mp hzk)]; exact List.mem_map_of_mem hz)
        rw [this]; rfl
      simp [this]
    · have hne : (y.1 == x.1) = false := by
        rw [beq_eq_false_iff_ne]
        intro h
        exact hn.1 (by rw [h]; exact List.mem_map_of_mem hx')
      rw [hne]
      simp [ih hn.2 hx']

/-- every entry of the consolidated request is the sum of what was placed under its key -/
theorem consolidate_entry {l : Amounts} {x : (Nat × Nat) × Int} (hx : x ∈ consolidate l) :
    x.2 = amountAt l x.1 := by
  have h1 := amountAt_of_mem (consolidate_sorted l).nodup_keys hx
  unfold amountAt at *
  rw [sumBy_consolidate] at h1
  exact h1.symm

/-! ### what is placed is what is asked -/

theorem map_fst_zip_of_length_eq {α β : Type} : ∀ (l : List α) (m : List β), l.length = m.length → (l.zip m).map (·.1) = l
  | [], _, _ => by simp
  | a :: as, [], h => by simp at h
  | a :: as, b :: bs, h => by
    simp only [List.zip_cons_cons, List.map_cons]
    rw [map_fst_zip_of_length_eq as bs (by simpa using h)]

theorem flatMap_zip_fst {α β γ : Type} (f : α → List γ) : ∀ (l : List α) (m : List β), l.length = m.length →
    (l.zip m).flatMap (fun x => f x.1) = l.flatMap f
  | [], _, _ => by simp
  | a :: as, [], h => by simp at h
  | a :: as, b :: bs, h => by
    simp only [List.zip_cons_cons, List.flatMap_cons]
    rw [flatMap_zip_fst f as bs (by simpa using h)]

/-- the (class, amount) pairs of the placements are those of the query, group by group -/
theorem placements_classes (q : Query) (ps us : List RpRow) (h1 : q.groups.length = ps.length)
    (h2 : q.unsuffRes.length = us.length) :
    (placements q ps us).map (fun x => (x.1.2, x.2)) = q.allRes := by
  unfold placements Query.allRes
  rw [List.map_append, List.map_flatMap, List.map_map]
  congr 1
  · have : ∀ gp : Group × RpRow, List.map (fun x : (Nat × Nat) × Int => (x.1.2, x.2))
        (gp.1.resources.map (fun e => ((gp.2.id, e.1), e.2))) = gp.1.resources := by
      intro gp; rw [List.map_map]; simp [Function.comp_def]
    simp only [this]
    exact flatMap_zip_fst (·.resources) q.groups ps h1
  · have : ((fun x : (Nat × Nat) × Int => (x.1.2, x.2)) ∘ fun eu : (Nat × Int) × RpRow => ((eu.2.id, eu.1.1), eu.1.2)) =
        fun eu => eu.1 := by funext eu; rfl
    rw [this]
    exact map_fst_zip_of_length_eq _ _ h2

theorem classTotal_eq_of_classes (l : Amounts) (rc : Nat) :
    classTotal l rc = (((l.map (fun x => (x.1.2, x.2))).filter (fun e => e.1 == rc)).map (·.2)).sum := by
  unfold classTotal sumBy
  induction l with
  | nil => rfl
  | cons x xs ih =>
    simp only [List.filter_cons, List.map_cons]
    by_cases h : x.1.2 == rc
    · simp only [h, if_true, List.map_cons, List.sum_cons, ih]
    · simp only [h, Bool.false_eq_true, if_false, ih]

end Placement.Spec
