/-
  C16: the expected defaults written as checks, and the finite facts about the generated tables that the
  theorems of `Props/C16.lean` rest on (all decided by kernel evaluation).
-/
import Placement.Gen.Policies
import Placement.Lemmas.Policy

namespace Placement.Props.C16
open Placement.Policy Placement.Gen.Policies

/-- The version document (`GET /`, also routed under the empty path) is the only handler without a rule. -/
def home : Name := n!"root.home"

/-! ## What the property text says the defaults are (this tree: new defaults only, scope enforced) -/

def adminOrService : Check := .or (.role n!"admin") (.role n!"service")
def serviceOnly : Check := .role n!"service"
def adminServiceOrProjectReader : Check :=
  .or adminOrService (.and (.role n!"reader") (.generic n!"project_id" (.target n!"project_id")))

def isReshaper (r : Route) : Bool := r.method == n!"POST" && r.path == n!"/reshaper"
def isTotalUsages (r : Route) : Bool := r.method == n!"GET" && r.path == n!"/usages"

/-- Expected default check of an operation, as a reference-free check. -/
def specCheck (r : Route) : Check :=
  if isReshaper r then serviceOnly
  else if isTotalUsages r then adminServiceOrProjectReader
  else adminOrService

/-- Expected target of an operation: the queried project for `GET /usages`, the caller's own otherwise. -/
def specTarget (r : Route) : TargetSpec :=
  if isTotalUsages r then .queryParam n!"project_id" else .default

/-! ## Finite part: every routed operation, checked against the generated tables by evaluation -/

def defaultRules : Rules := table.effectiveRules []

/-- Operation `r` has a registered project-scoped rule whose inlined default is equivalent to `specCheck r`
and builds its target as `specTarget r`. -/
def opMatchesSpec (r : Route) : Bool :=
  match pipeline.opInfo r with
  | none => false
  | some (rule, tgt) =>
    match table.find rule with
    | none => false
    | some d =>
      d.scopeTypes == [n!"project"] && tgt == specTarget r &&
        equivChecks (inlineRule defaultRules (fuelFor defaultRules) rule) (specCheck r)

theorem ops_match_spec : ∀ r ∈ routes, r.handler ≠ home → opMatchesSpec r = true := by decide +kernel

/-- No cyclic `rule:` references: the fuel of the evaluator is never exhausted. -/
theorem fuel_sufficient : fuelSufficient defaultRules = true := by decide +kernel

/-! ## Single-rule overrides -/

def projectScoped (c : Creds) : Bool := decide (tokenScope c = n!"project")

/-- Rules that document operations (the five generic rules of `policies/base.py` document none). -/
def documentedRules : List RuleDef := ruleDefs.filter (fun d => !d.ops.isEmpty)

def documentedUnder (d : RuleDef) (r : Route) : Bool := d.ops.contains (r.method, r.path)

def overrideOk (d : RuleDef) (x : Check) (r : Route) : Bool :=
  match pipeline.opInfo r with
  | none => false
  | some (rule, _) =>
    if documentedUnder d r then
      rule == d.name && ((table.find rule).map (·.scopeTypes) == some [n!"project"])
    else
      inlineRule (table.effectiveRules [(d.name, x)]) (fuelFor (table.effectiveRules [(d.name, x)])) rule
        == inlineRule defaultRules (fuelFor defaultRules) rule

theorem overrides_ok :
    ∀ d ∈ documentedRules, ∀ x ∈ [Check.tt, Check.ff], ∀ r ∈ routes, r.handler ≠ home →
      overrideOk d x r = true := by decide +kernel

end Placement.Props.C16
