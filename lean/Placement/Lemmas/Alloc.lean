import Placement.Spec.Inv
/-
  Helper lemmas for C01, part 1: the running-sum loop of `_check_capacity_exceeded` and
  `_set_allocations` (object layer).  Nothing here assumes a law about the float operation: the
  accepted total IS the argument of the test that passed.
-/
set_option linter.unusedSectionVars false
set_option linter.unusedSimpArgs false
namespace Placement
variable {R : Type}

/-! ### sums per (provider, class) -/

/-- the amounts a resolved allocation list `(rp, rc, amount)` places on one (provider, class) -/
def sumKey (rp rc : Nat) (l : List (Nat × Nat × Int)) : Int :=
  ((l.filter (fun s => s.1 == rp && s.2.1 == rc)).map (·.2.2)).sum

@[simp] theorem sumKey_nil (rp rc : Nat) : sumKey rp rc [] = 0 := rfl

theorem sumKey_cons (rp rc : Nat) (x : Nat × Nat × Int) (l : List (Nat × Nat × Int)) :
    sumKey rp rc (x :: l) = (if x.1 = rp ∧ x.2.1 = rc then x.2.2 else 0) + sumKey rp rc l := by
  unfold sumKey
  by_cases h : x.1 = rp ∧ x.2.1 = rc
  · have : (x.1 == rp && x.2.1 == rc) = true := by simp [h.1, h.2]
    simp [List.filter_cons, this, h]
  · have : (x.1 == rp && x.2.1 == rc) = false := by
      simp only [Bool.and_eq_false_iff, beq_eq_false_iff_ne]
      by_cases h1 : x.1 = rp
      · right; intro h2; exact h ⟨h1, h2⟩
      · left; exact h1
    simp [List.filter_cons, this, h]

theorem sumKey_append (rp rc : Nat) (xs ys : List (Nat × Nat × Int)) :
    sumKey rp rc (xs ++ ys) = sumKey rp rc xs + sumKey rp rc ys := by
  unfold sumKey
  rw [List.filter_append, List.map_append, List.sum_append_int]

theorem sumKey_zero (rp rc : Nat) (xs : List (Nat × Nat × Int))
    (h : ∀ c ∈ xs, c.1 = rp → c.2.1 = rc → c.2.2 = 0) : sumKey rp rc xs = 0 := by
  induction xs with
  | nil => rfl
  | cons c xs ih =>
    rw [sumKey_cons, ih (fun x hx => h x (List.mem_cons_of_mem _ hx))]
    split
    · rename_i hk; rw [h c List.mem_cons_self hk.1 hk.2]; rfl
    · rfl

theorem sumKey_nonneg (rp rc : Nat) (xs : List (Nat × Nat × Int))
    (h : ∀ c ∈ xs, 0 ≤ c.2.2) : 0 ≤ sumKey rp rc xs := by
  induction xs with
  | nil => simp
  | cons c xs ih =>
    rw [sumKey_cons]
    have h1 := ih (fun x hx => h x (List.mem_cons_of_mem _ hx))
    have h2 := h c List.mem_cons_self
    split <;> omega

/-- the running sum the model's loop computes is `sumKey` -/
theorem running_eq (rp rc : Nat) (seen : List (Nat × Nat × Int)) :
    ((seen.filter (fun s => s.1 == rp && s.2.1 == rc)).map (·.2.2)).sum = sumKey rp rc seen := rfl

/-- usage is additive in the allocation table -/
theorem usage_allocs_append (db : DB R) (rows : List AllocRow) (rp rc : Nat) :
    ({ db with allocs := db.allocs ++ rows } : DB R).usage rp rc
      = db.usage rp rc + ((rows.filter (fun a => a.rp == rp && a.rc == rc)).map (·.used)).sum := by
  simp [DB.usage, List.filter_append, List.sum_append_int]

/-! ### the loop -/

variable [CapOps R]

/-- What acceptance of one entry means: an inventory exists, the unit constraints hold, and the
total `tot` fits. -/
def FitsRow (i : InvRow R) (n tot : Int) : Prop :=
  i.minUnit ≤ n ∧ n ≤ i.maxUnit ∧ n % i.stepSize = 0 ∧
    CapOps.capLt (i.total - i.reserved) i.ratio tot = false

theorem not_unitViolated {i : InvRow R} {n : Int} (h : ¬ unitViolated i n = true) :
    i.minUnit ≤ n ∧ n ≤ i.maxUnit ∧ n % i.stepSize = 0 := by
  simp only [unitViolated, Bool.or_eq_true, decide_eq_true_eq, bne_iff_ne, ne_eq, not_or,
    Decidable.not_not] at h
  omega

/-- Soundness of the loop of `_check_capacity_exceeded`: every positive entry has an inventory,
satisfies the unit constraints, and the *total* (already used + everything in the request on that
(provider, class)) is not above capacity. -/
theorem checkLoop_sound_aux (db : DB R) (seen rest : List (Nat × Nat × Int))
    (hnn : ∀ a ∈ rest, 0 ≤ a.2.2) (h : checkLoop db seen rest = .ok ()) :
    ∀ a ∈ rest, 0 < a.2.2 →
      ∃ i, db.invOf a.1 a.2.1 = some i ∧
        FitsRow i a.2.2 (db.usage a.1 a.2.1 + sumKey a.1 a.2.1 (seen ++ rest)) := by
  induction rest generalizing seen with
  | nil => intro a ha; cases ha
  | cons b rest ih =>
    obtain ⟨brp, brc, bn⟩ := b
    intro a ha hpos
    have hnn' : ∀ a ∈ rest, 0 ≤ a.2.2 := fun x hx => hnn x (List.mem_cons_of_mem _ hx)
    unfold checkLoop at h
    by_cases hb0 : bn = 0
    · subst hb0
      simp only [beq_self_eq_true, ↓reduceIte] at h
      rcases List.mem_cons.mp ha with rfl | ha'
      · simp at hpos
      · have := ih (seen ++ [(brp, brc, 0)]) hnn' h a ha' hpos
        simpa [List.append_assoc] using this
    · have hb0' : (bn == 0) = false := by simpa using hb0
      simp only [hb0', Bool.false_eq_true, ↓reduceIte] at h
      split at h
      · cases h
      · rename_i i hi
        split at h
        · cases h
        · rename_i hunit
          split at h
          · cases h
          · rename_i hcap
            have hunit' := not_unitViolated hunit
            simp only [capacityExceeded, Bool.or_eq_true, not_or, Bool.not_eq_true] at hcap
            have hrec := ih (seen ++ [(brp, brc, bn)]) hnn' h
            rcases List.mem_cons.mp ha with rfl | ha'
            · -- the head: either a later positive entry on the same key exists, or not
              by_cases hex : ∃ c ∈ rest, 0 < c.2.2 ∧ c.1 = brp ∧ c.2.1 = brc
              · obtain ⟨c, hc, hcpos, hck1, hck2⟩ := hex
                obtain ⟨j, hj, _, _, _, hcapj⟩ := hrec c hc hcpos
                rw [hck1, hck2] at hj hcapj
                rw [hi] at hj; cases hj
                exact ⟨i, hi, hunit'.1, hunit'.2.1, hunit'.2.2,
                  by simpa [List.append_assoc] using hcapj⟩
              · have hz : sumKey brp brc rest = 0 := by
                  apply sumKey_zero
                  intro c hc hk1 hk2
                  have h0 := hnn' c hc
                  by_cases hc0 : c.2.2 = 0
                  · exact hc0
                  · exact absurd ⟨c, hc, by omega, hk1, hk2⟩ hex
                refine ⟨i, hi, hunit'.1, hunit'.2.1, hunit'.2.2, ?_⟩
                have e : sumKey brp brc (seen ++ (brp, brc, bn) :: rest)
                    = sumKey brp brc seen + bn := by
                  rw [sumKey_append, sumKey_cons, hz]; simp
                have h2 := hcap.2
                rw [running_eq] at h2
                show CapOps.capLt _ _ (db.usage brp brc + sumKey brp brc (seen ++ (brp, brc, bn) :: rest)) = false
                rw [e]; exact h2
            · have := hrec a ha' hpos
              simpa [List.append_assoc] using this

/-! ### `_set_allocations` -/

theorem bind_ok {ε α β : Type} {x : Except ε α} {f : α → Except ε β} {b : β}
    (h : (x >>= f) = .ok b) : ∃ a, x = .ok a ∧ f a = .ok b := by
  cases x with
  | error e => cases h
  | ok a => exact ⟨a, rfl, h⟩

/-- class id an allocation object resolves to (total version of `rc_cache.id_from_string`) -/
def rcOf (db : DB R) (a : AllocReq) : Nat := (db.rcId a.rcName).getD 0

/-- the request as `_check_capacity_exceeded` sees it -/
def resolved (db : DB R) (allocs : List AllocReq) : List (Nat × Nat × Int) :=
  allocs.map (fun a => (a.rpId, rcOf db a, a.used))

/-- state after `_delete_allocations_for_consumer` for every consumer of the request -/
def delCons (db : DB R) (allocs : List AllocReq) : DB R :=
  { db with allocs := db.allocs.filter (fun a => !(allocs.map (·.consUuid)).contains a.consumer) }

/-- the rows `_set_allocations` inserts -/
def rowsOf (db : DB R) (allocs : List AllocReq) : List AllocRow :=
  allocs.filterMap (fun a =>
    if a.used == 0 then none
    else some { rp := a.rpId, rc := rcOf db a, consumer := a.consUuid, used := a.used })

theorem resolveAllocRcs_ok {db : DB R} {allocs : List AllocReq} {res : List (Nat × Nat × Int)}
    (h : resolveAllocRcs db allocs = .ok res) :
    res = resolved db allocs ∧ ∀ a ∈ allocs, db.rcId a.rcName = some (rcOf db a) := by
  induction allocs generalizing res with
  | nil => simp [resolveAllocRcs] at h; simp [h, resolved]
  | cons a as ih =>
    unfold resolveAllocRcs at h
    split at h
    · cases h
    · rename_i rc hrc
      cases hr : resolveAllocRcs db as with
      | error e => rw [hr] at h; cases h
      | ok r =>
        rw [hr] at h
        simp only [Except.map] at h
        cases h
        obtain ⟨e1, e2⟩ := ih hr
        have : rcOf db a = rc := by simp [rcOf, hrc]
        constructor
        · simp [e1, this, resolved]
        · intro x hx
          rcases List.mem_cons.mp hx with rfl | hx
          · rw [this]; exact hrc
          · exact e2 x hx

theorem zip_resolved (db : DB R) (allocs : List AllocReq) :
    allocs.zip (resolved db allocs) = allocs.map (fun a => (a, (a.rpId, rcOf db a, a.used))) := by
  induction allocs with
  | nil => rfl
  | cons a as ih => simp [resolved] at ih ⊢; exact ih

theorem rows_eq (db : DB R) (allocs : List AllocReq) :
    (allocs.zip (resolved db allocs)).filterMap (fun (a, r) =>
      if a.used == 0 then none
      else some ({ rp := a.rpId, rc := r.2.1, consumer := a.consUuid, used := a.used } : AllocRow))
    = rowsOf db allocs := by
  rw [zip_resolved, List.filterMap_map]; rfl

theorem rowsOf_sum (db : DB R) (allocs : List AllocReq) (rp rc : Nat) :
    (((rowsOf db allocs).filter (fun a => a.rp == rp && a.rc == rc)).map (·.used)).sum
      = sumKey rp rc (resolved db allocs) := by
  induction allocs with
  | nil => rfl
  | cons a as ih =>
    have e : resolved db (a :: as) = (a.rpId, rcOf db a, a.used) :: resolved db as := rfl
    rw [e, sumKey_cons, ← ih]
    unfold rowsOf
    rw [List.filterMap_cons]
    by_cases h0 : a.used = 0
    · simp [h0]
    · have h0' : (a.used == 0) = false := by simpa using h0
      simp only [h0', Bool.false_eq_true, ↓reduceIte, List.filter_cons]
      by_cases hk : a.rpId = rp ∧ rcOf db a = rc
      · simp [hk.1, hk.2]
      · have : (a.rpId == rp && rcOf db a == rc) = false := by
          simp only [Bool.and_eq_false_iff, beq_eq_false_iff_ne]
          by_cases h1 : a.rpId = rp
          · right; intro h2; exact hk ⟨h1, h2⟩
          · left; exact h1
        simp [this, hk]

/-- what the generation bumps and the consumer clean-up leave alone -/
def SameIA (db db' : DB R) : Prop :=
  db'.invs = db.invs ∧ db'.allocs = db.allocs ∧ db'.rcs = db.rcs

theorem SameIA.refl (db : DB R) : SameIA db db := ⟨rfl, rfl, rfl⟩
theorem SameIA.trans {a b c : DB R} (h1 : SameIA a b) (h2 : SameIA b c) : SameIA a c :=
  ⟨h2.1.trans h1.1, h2.2.1.trans h1.2.1, h2.2.2.trans h1.2.2⟩

theorem incRpGen_same {db db' : DB R} {id gen : Nat} (h : incRpGen db id gen = .ok db') :
    SameIA db db' := by
  unfold incRpGen at h
  split at h
  · cases h; exact ⟨rfl, rfl, rfl⟩
  · cases h

theorem incConsGen_same {db db' : DB R} {id gen : Nat} (h : incConsGen db id gen = .ok db') :
    SameIA db db' ∧ db'.rps = db.rps := by
  unfold incConsGen at h
  split at h
  · cases h; exact ⟨⟨rfl, rfl, rfl⟩, rfl⟩
  · cases h

theorem incRpGens_same {db db' : DB R} {l : List (Nat × Nat)} (h : incRpGens db l = .ok db') :
    SameIA db db' := by
  induction l generalizing db with
  | nil => cases h; exact SameIA.refl _
  | cons p l ih =>
    obtain ⟨id, gen⟩ := p
    unfold incRpGens at h
    obtain ⟨d, h1, h2⟩ := bind_ok h
    exact (incRpGen_same h1).trans (ih h2)

theorem incConsGens_same {db db' : DB R} {l : List (Nat × Nat)} (h : incConsGens db l = .ok db') :
    SameIA db db' ∧ db'.rps = db.rps := by
  induction l generalizing db with
  | nil => cases h; exact ⟨SameIA.refl _, rfl⟩
  | cons p l ih =>
    obtain ⟨id, gen⟩ := p
    unfold incConsGens at h
    obtain ⟨d, h1, h2⟩ := bind_ok h
    have a := incConsGen_same h1
    have b := ih h2
    exact ⟨a.1.trans b.1, b.2.trans a.2⟩

theorem checkCapacity_ok {db : DB R} {allocs : List AllocReq} (h : checkCapacity db allocs = .ok ()) :
    checkLoop db [] (resolved db allocs) = .ok () ∧
      ∀ a ∈ allocs, db.rcId a.rcName = some (rcOf db a) := by
  unfold checkCapacity at h
  obtain ⟨res, h1, h2⟩ := bind_ok h
  obtain ⟨e1, e2⟩ := resolveAllocRcs_ok h1
  subst e1
  refine ⟨?_, e2⟩
  dsimp only at h2
  split at h2
  · cases h2
  · exact h2

/-- inversion of an accepted `_set_allocations` -/
theorem setAllocations_ok {db db' : DB R} {allocs : List AllocReq}
    (h : setAllocations db allocs = .ok db') :
    checkLoop (delCons db allocs) [] (resolved db allocs) = .ok () ∧
    (∀ a ∈ allocs, db.rcId a.rcName = some (rcOf db a)) ∧
    db'.invs = db.invs ∧ db'.rcs = db.rcs ∧
    db'.allocs = (delCons db allocs).allocs ++ rowsOf db allocs := by
  unfold setAllocations at h
  obtain ⟨_, h1, h⟩ := bind_ok h
  obtain ⟨res, h2, h⟩ := bind_ok h
  obtain ⟨d3, h3, h⟩ := bind_ok h
  obtain ⟨d4, h4, h⟩ := bind_ok h
  cases h
  obtain ⟨c1, c2⟩ := checkCapacity_ok h1
  obtain ⟨e1, _⟩ := resolveAllocRcs_ok h2
  have s3 := incRpGens_same h3
  have s4 := (incConsGens_same h4).1
  have s := s3.trans s4
  refine ⟨c1, c2, s.1, s.2.2, ?_⟩
  show d4.allocs = _
  rw [s.2.1]
  show _ ++ _ = _
  rw [e1]
  show _ ++ List.filterMap _ (allocs.zip (resolved db allocs)) = _
  rw [rows_eq]; rfl

/-! ### uniqueness of inventory rows -/

/-- unique index `uniq_inventories0resource_provider_resource_class` -/
def InvKeysNodup (db : DB R) : Prop := (db.invs.map (fun i => (i.rp, i.rc))).Nodup

theorem eq_of_nodup_map {α β : Type} {f : α → β} {l : List α} (h : (l.map f).Nodup) {x y : α}
    (hx : x ∈ l) (hy : y ∈ l) (e : f x = f y) : x = y := by
  induction l with
  | nil => cases hx
  | cons c l ih =>
    rw [List.map_cons, List.nodup_cons] at h
    rcases List.mem_cons.mp hx with rfl | hx' <;> rcases List.mem_cons.mp hy with rfl | hy'
    · rfl
    · exact absurd (e ▸ List.mem_map_of_mem hy') h.1
    · exact absurd (e ▸ List.mem_map_of_mem hx') h.1
    · exact ih h.2 hx' hy'

theorem invOf_some {db : DB R} {rp rc : Nat} {i : InvRow R} (h : db.invOf rp rc = some i) :
    i ∈ db.invs ∧ i.rp = rp ∧ i.rc = rc := by
  unfold DB.invOf at h
  have h1 := List.mem_of_find?_eq_some h
  have h2 := List.find?_some h
  simp only [Bool.and_eq_true, beq_iff_eq] at h2
  exact ⟨h1, h2.1, h2.2⟩

theorem invOf_unique {db : DB R} (hu : InvKeysNodup db) {rp rc : Nat} {i j : InvRow R}
    (h : db.invOf rp rc = some i) (hj : j ∈ db.invs) (h1 : j.rp = rp) (h2 : j.rc = rc) : j = i := by
  obtain ⟨hi, e1, e2⟩ := invOf_some h
  exact eq_of_nodup_map hu hj hi (by simp [h1, h2, e1, e2])

theorem invOf_of_mem {db : DB R} (hu : InvKeysNodup db) {i : InvRow R} (hi : i ∈ db.invs) :
    db.invOf i.rp i.rc = some i := by
  cases h : db.invOf i.rp i.rc with
  | none =>
    unfold DB.invOf at h
    have := List.find?_eq_none.mp h i hi
    simp at this
  | some j => rw [invOf_unique hu h hi rfl rfl]

/-! ### `_set_allocations` is safe -/

/-- the usage after an accepted `_set_allocations`: what the other consumers hold plus everything
the request places -/
theorem setAllocations_usage {db db' : DB R} {allocs : List AllocReq}
    (h : setAllocations db allocs = .ok db') (rp rc : Nat) :
    db'.usage rp rc = (delCons db allocs).usage rp rc + sumKey rp rc (resolved db allocs) := by
  obtain ⟨_, _, _, _, ha⟩ := setAllocations_ok h
  rw [← rowsOf_sum, ← usage_allocs_append]
  simp only [DB.usage, ha]

/-- **`_set_allocations` never over-commits**: after an accepted call, every (provider, class) on
which the call placed a positive amount has an inventory row, the amount respects that row's unit
constraints, and the total then used there by ALL consumers is not above the row's capacity. -/
theorem setAllocations_safe {db db' : DB R} {allocs : List AllocReq}
    (h : setAllocations db allocs = .ok db') (hnn : ∀ a ∈ allocs, 0 ≤ a.used) :
    ∀ a ∈ allocs, 0 < a.used → ∀ rc, db.rcId a.rcName = some rc →
      ∃ i, db'.invOf a.rpId rc = some i ∧ FitsRow i a.used (db'.usage a.rpId rc) := by
  intro a ha hpos rc hrc
  obtain ⟨hloop, hres, hinv, _, _⟩ := setAllocations_ok h
  have hrc' : rcOf db a = rc := by simp [rcOf, hrc]
  have hmem : (a.rpId, rc, a.used) ∈ resolved db allocs := by
    rw [← hrc']; exact List.mem_map_of_mem (f := fun a => (a.rpId, rcOf db a, a.used)) ha
  have hnn' : ∀ x ∈ resolved db allocs, 0 ≤ x.2.2 := by
    intro x hx
    obtain ⟨b, hb, rfl⟩ := List.mem_map.mp hx
    exact hnn b hb
  obtain ⟨i, hi, hfit⟩ := checkLoop_sound_aux (delCons db allocs) [] _ hnn' hloop _ hmem hpos
  refine ⟨i, ?_, ?_⟩
  · have : db'.invOf a.rpId rc = (delCons db allocs).invOf a.rpId rc := by
      simp only [DB.invOf, hinv, delCons]
    rw [this]; exact hi
  · rw [setAllocations_usage h]
    simpa using hfit

/-- with unique inventory rows: every row of the pair fits, i.e. the pair is not over-committed -/
theorem setAllocations_safe_all {db db' : DB R} {allocs : List AllocReq}
    (h : setAllocations db allocs = .ok db') (hnn : ∀ a ∈ allocs, 0 ≤ a.used)
    (hu : InvKeysNodup db) :
    ∀ a ∈ allocs, 0 < a.used → ∀ rc, db.rcId a.rcName = some rc →
      (∃ i ∈ db'.invs, i.rp = a.rpId ∧ i.rc = rc) ∧
      ∀ i ∈ db'.invs, i.rp = a.rpId → i.rc = rc → FitsRow i a.used (db'.usage a.rpId rc) := by
  intro a ha hpos rc hrc
  obtain ⟨i, hi, hfit⟩ := setAllocations_safe h hnn a ha hpos rc hrc
  have hu' : InvKeysNodup db' := by
    have := (setAllocations_ok h).2.2.1
    simp only [InvKeysNodup, this]; exact hu
  refine ⟨⟨i, (invOf_some hi).1, (invOf_some hi).2⟩, ?_⟩
  intro j hj h1 h2
  rw [invOf_unique hu' hi hj h1 h2]; exact hfit

theorem not_overCommitted_of_fits {db : DB R} {rp rc : Nat}
    (h : ∀ i ∈ db.invs, i.rp = rp → i.rc = rc →
      CapOps.capLt (i.total - i.reserved) i.ratio (db.usage rp rc) = false) :
    ¬ OverCommitted db rp rc := by
  rintro ⟨i, hi, h1, h2, h3⟩
  rw [h i hi h1 h2] at h3; cases h3

end Placement
