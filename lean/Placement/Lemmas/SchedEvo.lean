import Placement.Lemmas.SchedBase
import Placement.Lemmas.FrameStep
import Placement.Model.Txn
/-
  `EvoG N a b`: what ONE TRANSACTION of any request other than a provider create/update/delete does
  to the provider and consumer tables: `Frame` of C10 (provider rows keep every column but the
  generation, which never decreases; consumer rows keep their id, generations never decrease, new
  rows get fresh ids, rows may disappear) plus: consumer rows keep their uuid, and a new consumer row
  has a uuid in `N` (the uuids the request is allowed to create).

  Object layer first (including the partial effects of `setAllocationsP` / `replaceAll`), the
  transaction stages of `Model/Txn.lean` in `SchedEvoTxn.lean`.
-/
namespace Placement.Sched
open Placement Placement.Gens Placement.Hier
variable {R : Type}
set_option linter.unusedSectionVars false

/-- a 2xx answer -/
def okR (r : Resp) : Prop := r.ok = true

instance (r : Resp) : Decidable (okR r) := by unfold okR; exact inferInstance

/-- consumer rows keep their uuid; new rows carry a uuid of `N` -/
def ConsU (N : Nat → Prop) (a b : GCore) : Prop :=
  ∀ c' ∈ b.consumers, (a.nextCons ≤ c'.id ∧ N c'.uuid) ∨ ∃ c ∈ a.consumers, c.id = c'.id ∧ c.uuid = c'.uuid

structure EvoG (N : Nat → Prop) (a b : GCore) : Prop where
  frame : Frame a b
  consU : ConsU N a b

theorem EvoG.ids {N : Nat → Prop} {a b : GCore} (h : EvoG N a b) : Ids b := h.frame.ids

theorem EvoG.refl {N : Nat → Prop} {a : GCore} (h : Ids a) : EvoG N a a :=
  ⟨Frame.refl h, fun c hc => .inr ⟨c, hc, rfl, rfl⟩⟩

theorem EvoG.of_eq {N : Nat → Prop} {a b : GCore} (h : Ids a) (e : b = a) : EvoG N a b := by
  subst e; exact EvoG.refl h

theorem EvoG.trans {N : Nat → Prop} {a b c : GCore} (h1 : EvoG N a b) (h2 : EvoG N b c) : EvoG N a c := by
  refine ⟨h1.frame.trans h2.frame, ?_⟩
  intro c'' hc''
  rcases h2.consU c'' hc'' with ⟨h, hn⟩ | ⟨c', hc', hid, hu⟩
  · exact .inl ⟨Nat.le_trans h1.frame.nextCons h, hn⟩
  · rcases h1.consU c' hc' with ⟨h, hn⟩ | ⟨c0, hc0, hid0, hu0⟩
    · exact .inl ⟨hid ▸ h, hu ▸ hn⟩
    · exact .inr ⟨c0, hc0, hid0.trans hid, hu0.trans hu⟩

theorem EvoG.mono {N N' : Nat → Prop} (h : ∀ u, N u → N' u) {a b : GCore} (e : EvoG N a b) : EvoG N' a b :=
  ⟨e.frame, fun c hc => (e.consU c hc).imp (fun ⟨h1, h2⟩ => ⟨h1, h _ h2⟩) id⟩

/-- the consumer table is untouched -/
theorem EvoG.of_frame {N : Nat → Prop} {a b : GCore} (f : Frame a b) (e : b.consumers = a.consumers) : EvoG N a b :=
  ⟨f, fun c hc => .inr ⟨c, e ▸ hc, rfl, rfl⟩⟩

theorem EvoG.consFilter {N : Nat → Prop} {a : GCore} (h : Ids a) (p : ConsRow → Bool) :
    EvoG N a ⟨a.rps, a.nextRp, a.consumers.filter p, a.nextCons⟩ :=
  ⟨Frame.consFilter h p, fun c hc => .inr ⟨c, (List.mem_filter.mp hc).1, rfl, rfl⟩⟩

theorem EvoG.consMap {N : Nat → Prop} {a : GCore} (h : Ids a) (f : ConsRow → ConsRow)
    (hid : ∀ c, (f c).id = c.id) (hu : ∀ c, (f c).uuid = c.uuid) (hgen : ∀ c ∈ a.consumers, c.gen ≤ (f c).gen) :
    EvoG N a ⟨a.rps, a.nextRp, a.consumers.map f, a.nextCons⟩ := by
  refine ⟨Frame.consMap h f hid hgen, ?_⟩
  intro c' hc'
  obtain ⟨c, hc, rfl⟩ := List.mem_map.mp hc'
  exact .inr ⟨c, hc, (hid c).symm, (hu c).symm⟩

theorem EvoG.consAppend {N : Nat → Prop} {a : GCore} (h : Ids a) (row : ConsRow) (hrow : row.id = a.nextCons)
    (hn : N row.uuid) : EvoG N a ⟨a.rps, a.nextRp, a.consumers ++ [row], a.nextCons + 1⟩ := by
  refine ⟨Frame.consAppend h row hrow, ?_⟩
  intro c hc
  rcases List.mem_append.mp hc with hc1 | hc1
  · exact .inr ⟨c, hc1, rfl, rfl⟩
  · rw [List.mem_singleton.mp hc1]; exact .inl ⟨Nat.le_of_eq hrow.symm, hn⟩

/-- the relation on states that every transaction of a non-provider request satisfies -/
def QEvo (N : Nat → Prop) (s s' : DB R) : Prop := Ids s.gcore → EvoG N s.gcore s'.gcore

theorem QEvo.refl (N : Nat → Prop) (s : DB R) : QEvo N s s := fun h => EvoG.refl h

theorem QEvo.of_gcore {N : Nat → Prop} {s s' : DB R} (e : s'.gcore = s.gcore) : QEvo N s s' :=
  fun h => EvoG.of_eq h e

/-! ### object layer -/

theorem cas_evo {N : Nat → Prop} {db db0 db' : DB R} {rp gen : Nat} (hg : db0.gcore = db.gcore)
    (h : incRpGen db0 rp gen = .ok db') (hI : Ids db.gcore) : EvoG N db.gcore db'.gcore := by
  refine EvoG.of_frame (frame_of_cas hg h hI) ?_
  obtain ⟨-, rfl⟩ := incRpGen_ok h
  show db0.gcore.consumers = _
  exact congrArg GCore.consumers hg

theorem incRpGen_evo {N : Nat → Prop} {db db' : DB R} {rp gen : Nat}
    (h : incRpGen db rp gen = .ok db') (hI : Ids db.gcore) : EvoG N db.gcore db'.gcore := cas_evo rfl h hI

theorem incConsGen_evo {N : Nat → Prop} {db db' : DB R} {id gen : Nat} (h : incConsGen db id gen = .ok db')
    (hI : Ids db.gcore) : EvoG N db.gcore db'.gcore := by
  obtain ⟨⟨c0, hc0, hid0, hgen0⟩, rfl⟩ := incConsGen_ok h
  refine EvoG.consMap hI _ (fun c => by split <;> rfl) (fun c => by split <;> rfl) ?_
  intro c hc
  by_cases hid : c.id = id
  · have : c = c0 := uniqCons_of_nodup hI.consNodup c hc c0 hc0 (hid.trans hid0.symm)
    subst this; simp [hid, hgen0]
  · simp [hid]

theorem setInventory_evo {N : Nat → Prop} {db db' : DB R} {rp gen : Nat} {invs : List (InvSpec R)}
    (h : setInventory db rp gen invs = .ok db') (hI : Ids db.gcore) : EvoG N db.gcore db'.gcore := by
  obtain ⟨db0, hg, hc⟩ := setInventory_ok h; exact cas_evo hg hc hI

theorem addInventory_evo {N : Nat → Prop} {db db' : DB R} {rp gen : Nat} {inv : InvSpec R}
    (h : addInventory db rp gen inv = .ok db') (hI : Ids db.gcore) : EvoG N db.gcore db'.gcore := by
  obtain ⟨db0, hg, hc⟩ := addInventory_ok h; exact cas_evo hg hc hI

theorem updateInventory_evo {N : Nat → Prop} {db db' : DB R} {rp gen : Nat} {inv : InvSpec R}
    (h : updateInventory db rp gen inv = .ok db') (hI : Ids db.gcore) : EvoG N db.gcore db'.gcore := by
  obtain ⟨db0, hg, hc⟩ := updateInventory_ok h; exact cas_evo hg hc hI

theorem deleteInventory_evo {N : Nat → Prop} {db db' : DB R} {rp gen rcName : Nat}
    (h : deleteInventory db rp gen rcName = .ok db') (hI : Ids db.gcore) : EvoG N db.gcore db'.gcore := by
  obtain ⟨db0, hg, hc⟩ := deleteInventory_ok h; exact cas_evo hg hc hI

theorem setTraits_evo {N : Nat → Prop} {db db' : DB R} {rp gen : Nat} {traits : List Nat}
    (h : setTraits db rp gen traits = .ok db') (hI : Ids db.gcore) : EvoG N db.gcore db'.gcore := by
  rcases setTraits_ok h with ⟨-, rfl⟩ | ⟨-, db0, hg, hc⟩
  · exact EvoG.refl hI
  · exact cas_evo hg hc hI

theorem setAggregates_evo {N : Nat → Prop} {db db' : DB R} {rp gen : Nat} {aggs : List Nat} {incGen : Bool}
    (h : setAggregates db rp gen aggs incGen = .ok db') (hI : Ids db.gcore) : EvoG N db.gcore db'.gcore := by
  rcases setAggregates_ok h with ⟨-, hg⟩ | ⟨-, db0, hg, hc⟩
  · exact EvoG.of_eq hI hg
  · exact cas_evo hg hc hI

theorem deleteConsumerRows_evo {N : Nat → Prop} (db : DB R) (ids : List Nat) (hI : Ids db.gcore) :
    EvoG N db.gcore (deleteConsumerRows db ids).gcore := EvoG.consFilter hI _

theorem deleteConsumersIfNoAllocs_evo {N : Nat → Prop} (db : DB R) (uuids : List Nat) (hI : Ids db.gcore) :
    EvoG N db.gcore (deleteConsumersIfNoAllocs db uuids).gcore := EvoG.consFilter hI _

theorem deleteAllocations_evo {N : Nat → Prop} (db : DB R) (c : Nat) (hI : Ids db.gcore) :
    EvoG N db.gcore (deleteAllocations db c).gcore := EvoG.consFilter hI _

theorem updateConsumer_evo {N : Nat → Prop} (db : DB R) (cons : ConsRow) (a : ReqAttr) (hI : Ids db.gcore) :
    EvoG N db.gcore (updateConsumer db cons a).gcore := by
  obtain ⟨f, hf, hg⟩ := updateConsumer_spec db cons a
  rw [hg]
  exact EvoG.consMap hI f (fun c => (hf c).1) (fun c => (hf c).2.2)
    (fun c _ => by rw [(hf c).2.1]; exact Nat.le_refl _)

theorem updateConsumers_evo {N : Nat → Prop} : ∀ (l : List (ConsumerReq × ConsRow × ReqAttr)) (db : DB R),
    Ids db.gcore → EvoG N db.gcore (updateConsumers db l).gcore
  | [], db, hI => EvoG.refl hI
  | (_, cons, attr) :: rest, db, hI => by
    have f1 := updateConsumer_evo (N := N) db cons attr hI
    exact f1.trans (updateConsumers_evo rest _ f1.ids)

/-! ### the compare-and-swap loops with partial effects -/

theorem incRpGensP_evo {N : Nat → Prop} : ∀ (l : List (Nat × Nat)) (db : DB R), Ids db.gcore →
    EvoG N db.gcore (incRpGensP db l).1.gcore
  | [], db, hI => EvoG.refl hI
  | (id, gen) :: rest, db, hI => by
    unfold incRpGensP
    split
    · rename_i db1 h1
      have f1 := incRpGen_evo (N := N) h1 hI
      exact f1.trans (incRpGensP_evo rest db1 f1.ids)
    · exact EvoG.refl hI

theorem incConsGensP_evo {N : Nat → Prop} : ∀ (l : List (Nat × Nat)) (db : DB R), Ids db.gcore →
    EvoG N db.gcore (incConsGensP db l).1.gcore
  | [], db, hI => EvoG.refl hI
  | (id, gen) :: rest, db, hI => by
    unfold incConsGensP
    split
    · rename_i db1 h1
      have f1 := incConsGen_evo (N := N) h1 hI
      exact f1.trans (incConsGensP_evo rest db1 f1.ids)
    · exact EvoG.refl hI

variable [CapOps R]

/-- one attempt of `_set_allocations`, whatever its outcome -/
theorem setAllocationsP_evo {N : Nat → Prop} (db : DB R) (allocs : List AllocReq) (hI : Ids db.gcore) :
    EvoG N db.gcore (setAllocationsP db allocs).1.gcore := by
  unfold setAllocationsP
  dsimp only
  split
  · exact EvoG.of_eq hI rfl
  · exact EvoG.of_eq hI rfl
  · rename_i res _ _
    generalize hdb2 : ({ db with allocs := _ } : DB R) = db2
    have hg2 : db2.gcore = db.gcore := by subst hdb2; rfl
    have hI2 : Ids db2.gcore := hg2 ▸ hI
    have f3 := incRpGensP_evo (N := N) (firstByKey (allocs.map (fun a => (a.rpId, a.rpGen)))) db2 hI2
    rw [hg2] at f3
    split
    · rename_i db3 e h3
      rw [h3] at f3; exact f3
    · rename_i db3 h3
      rw [h3] at f3
      have f4 := incConsGensP_evo (N := N) (firstByKey (allocs.map (fun a => (a.consId, a.consGen)))) db3 f3.ids
      split
      · rename_i db4 e h4
        rw [h4] at f4; exact f3.trans f4
      · rename_i db4 h4
        rw [h4] at f4
        exact (f3.trans f4).trans (deleteConsumersIfNoAllocs_evo db4 _ f4.ids)

/-- `replace_all` with its server-side retries -/
theorem replaceAll_evo {N : Nat → Prop} (committed : DB R) : ∀ (n : Nat) (db : DB R) (objs : List AllocReq) {db' : DB R},
    replaceAll committed n db objs = .ok db' → Ids db.gcore → EvoG N db.gcore db'.gcore
  | 0, _, _, _, h, _ => by simp [replaceAll] at h
  | n + 1, db, objs, db', h, hI => by
    have f1 := setAllocationsP_evo (N := N) db objs hI
    unfold replaceAll at h
    split at h
    · rename_i db1 h1
      rw [h1] at f1
      simp only [Except.ok.injEq] at h
      exact h ▸ f1
    · rename_i db1 h1
      rw [h1] at f1
      split at h
      · cases h
      · exact f1.trans (replaceAll_evo committed n db1 _ h f1.ids)
    · cases h

theorem reshapeInterim_evo {N : Nat → Prop} : ∀ (l : List (Nat × List (InvSpec R))) (gens : List (Nat × Nat))
    {db db' : DB R} {gens' : List (Nat × Nat)},
    reshapeInterim db l gens = .ok (db', gens') → Ids db.gcore → EvoG N db.gcore db'.gcore
  | [], gens, db, db', gens', h, hI => by
    simp only [reshapeInterim, Except.ok.injEq, Prod.mk.injEq] at h
    rw [← h.1]; exact EvoG.refl hI
  | (rp, newInvs) :: rest, gens, db, db', gens', h, hI => by
    rw [reshapeInterim] at h
    split at h
    · exact reshapeInterim_evo rest gens h hI
    · dsimp only at h
      split at h
      · cases h
      · rename_i db1 h1
        have f1 := setInventory_evo (N := N) h1 hI
        exact f1.trans (reshapeInterim_evo rest _ h f1.ids)

theorem reshapeFinal_evo {N : Nat → Prop} : ∀ (l : List (Nat × List (InvSpec R))) (gens : List (Nat × Nat))
    {db db' : DB R}, reshapeFinal db l gens = .ok db' → Ids db.gcore → EvoG N db.gcore db'.gcore
  | [], gens, db, db', h, hI => by
    simp only [reshapeFinal, Except.ok.injEq] at h
    rw [← h]; exact EvoG.refl hI
  | (rp, newInvs) :: rest, gens, db, db', h, hI => by
    rw [reshapeFinal] at h
    split at h
    · cases h
    · rename_i db1 h1
      have f1 := setInventory_evo (N := N) h1 hI
      exact f1.trans (reshapeFinal_evo rest _ h f1.ids)

theorem reshapeTxnR_evo {N : Nat → Prop} {db db' : DB R} {invs : List (Nat × Nat × List (InvSpec R))}
    {objs : List AllocReq} (h : reshapeTxnR db invs objs = .ok db') (hI : Ids db.gcore) :
    EvoG N db.gcore db'.gcore := by
  unfold reshapeTxnR at h
  simp only [bind, Except.bind] at h
  split at h
  · cases h
  · rename_i v h1
    obtain ⟨db1, gens1⟩ := v
    dsimp only at h
    split at h
    · cases h
    · rename_i db2 h2
      have f1 := reshapeInterim_evo (N := N) _ _ h1 hI
      have f2 := replaceAll_evo (N := N) _ _ _ _ h2 f1.ids
      have f3 := reshapeFinal_evo (N := N) _ _ h f2.ids
      exact (f1.trans f2).trans f3

end Placement.Sched
