import Placement.Lemmas.CoreRenH
/-
  C11, history theorem, part 7: one request on two related states (`SimDB`), and histories.
-/
namespace Placement.Core
variable {R : Type} [CapOps R]
set_option linter.unusedSimpArgs false
set_option linter.unusedSectionVars false
set_option linter.unusedVariables false
open Placement.Gens (Ids)

/-- Two states that the API cannot tell apart: they agree on every column except the name registries
`projects` / `users` / `ctypes` and the fresh consumer id, and their consumer tables agree up to an
(injective) renaming of the INTERNAL consumer ids; in both, consumer ids are unique and below the fresh id. -/
structure SimDB (a b : DB R) : Prop where
  rest : rest b = rest a
  ren : ∃ ρ, b.consumers = a.consumers.map (renC ρ) ∧ InjOn ρ (a.consumers.map (·.id))
  idsA : Ids a.gcore
  idsB : Ids b.gcore

theorem SimDB.refl {a : DB R} (h : Ids a.gcore) : SimDB a a :=
  ⟨rfl, ⟨id, by
    show a.consumers = a.consumers.map (fun c => { c with id := c.id })
    exact (List.map_id _).symm, fun i _ j _ e => e⟩, h, h⟩

theorem SimDB.isim {a b : DB R} (h : SimDB a b) : ∃ ρ, ISim ρ (a.consumers.map (·.id)) a b := by
  obtain ⟨ρ, hc, hinj⟩ := h.ren
  refine ⟨ρ, ⟨h.rest, hc, fun c hcm => List.mem_map.mpr ⟨c, hcm, rfl⟩⟩, hinj, ?_, ?_⟩
  · intro i hi
    obtain ⟨c, hcm, rfl⟩ := List.mem_map.mp hi
    exact h.idsA.consFresh c hcm
  · intro i hi
    obtain ⟨c, hcm, rfl⟩ := List.mem_map.mp hi
    have : renC ρ c ∈ b.consumers := by rw [hc]; exact List.mem_map.mpr ⟨c, hcm, rfl⟩
    exact h.idsB.consFresh _ this

theorem SimDB.of_sim {ρ : Nat → Nat} {dom : List Nat} {a b : DB R} (h : Sim ρ dom a b) (hinj : InjOn ρ dom)
    (hA : Ids a.gcore) (hB : Ids b.gcore) : SimDB a b :=
  ⟨h.rest, ⟨ρ, h.cons, fun i hi j hj e => by
    obtain ⟨c, hc, rfl⟩ := List.mem_map.mp hi
    obtain ⟨d, hd, rfl⟩ := List.mem_map.mp hj
    exact hinj _ (h.ids c hc) _ (h.ids d hd) e⟩, hA, hB⟩

/-- the consumer tables and the other columns did not change on either side -/
theorem SimDB.of_same {a b a' b' : DB R} (h : SimDB a b) (ra : Core.rest a' = Core.rest a)
    (ca : a'.consumers = a.consumers) (rb : Core.rest b' = Core.rest b) (cb : b'.consumers = b.consumers) (hA : Ids a'.gcore) (hB : Ids b'.gcore) :
    SimDB a' b' := by
  obtain ⟨ρ, hc, hinj⟩ := h.ren
  exact ⟨rb.trans (h.rest.trans ra.symm), ⟨ρ, by rw [cb, ca]; exact hc, by rw [ca]; exact hinj⟩, hA, hB⟩

/-- handlers that do not touch the consumer-side columns -/
theorem SimDB.of_side {a b : DB R} (h : SimDB a b) (f : DB R → DB R × Resp)
    (hf : ∀ s db, f (putSide s db) = sideRes s (f db)) (hA : Ids (f a).1.gcore) (hB : Ids (f b).1.gcore) :
    (f a).2 = (f b).2 ∧ SimDB (f a).1 (f b).1 := by
  have hb := eq_putSide_of_rest h.rest
  have e1 : f b = sideRes (side b) (f a) := by rw [hb, hf]; rfl
  have e2 : f a = sideRes (side a) (f a) := by
    have := hf (side a) a
    rwa [putSide_self] at this
  have ca : (f a).1.consumers = a.consumers := by rw [e2]; rfl
  have cb : (f b).1.consumers = b.consumers := by rw [e1]; rfl
  have rb : Core.rest (f b).1 = Core.rest (f a).1 := by rw [e1]; rfl
  refine ⟨by rw [e1]; rfl, ?_⟩
  obtain ⟨ρ, hc, hinj⟩ := h.ren
  exact ⟨rb, ⟨ρ, by rw [cb, ca]; exact hc, by rw [ca]; exact hinj⟩, hA, hB⟩

/-- handlers that write allocations -/
theorem SimDB.of_hrel {a b : DB R} (h : SimDB a b) {x y : DB R × Resp} (hr : HRel x y)
    (hok : x.2.ok = true ∨ 400 ≤ x.2.status)
    (hresA : 400 ≤ x.2.status → Residue a x.1) (hresB : 400 ≤ y.2.status → Residue b y.1)
    (hA : Ids x.1.gcore) (hB : Ids y.1.gcore) : x.2 = y.2 ∧ SimDB x.1 y.1 := by
  refine ⟨hr.1, ?_⟩
  rcases hok with hok | herr
  · obtain ⟨ρ', dom', hs, hinj⟩ := hr.2 hok
    exact SimDB.of_sim hs hinj hA hB
  · have ra := hresA herr
    have rb := hresB (hr.1 ▸ herr)
    exact h.of_same ra.rest ra.consumers rb.rest rb.consumers hA hB

/-- **one request on two indistinguishable states**: same response, indistinguishable states again -/
theorem step_sim (cfg : Config) {a b : DB R} (h : SimDB a b) (op : Op R) :
    (step cfg a op).2 = (step cfg b op).2 ∧ SimDB (step cfg a op).1 (step cfg b op).1 := by
  have hA := (Gens.step_genLe cfg h.idsA op).ids
  have hB := (Gens.step_genLe cfg h.idsB op).ids
  obtain ⟨ρ, hI⟩ := h.isim
  cases op with
  | rpCreate mv u n p => exact h.of_side (fun d => hRpCreate d mv u n p) (fun s d => hRpCreate_side s d mv u n p) hA hB
  | rpUpdate mv u n p => exact h.of_side (fun d => hRpUpdate d mv u n p) (fun s d => hRpUpdate_side s d mv u n p) hA hB
  | rpDelete u => exact h.of_side (fun d => hRpDelete d u) (fun s d => hRpDelete_side s d u) hA hB
  | invSet mv u g is => exact h.of_side (fun d => hInvSet d mv u g is) (fun s d => hInvSet_side s d mv u g is) hA hB
  | invAdd mv u i => exact h.of_side (fun d => hInvAdd d mv u i) (fun s d => hInvAdd_side s d mv u i) hA hB
  | invUpdate mv u g i => exact h.of_side (fun d => hInvUpdate d mv u g i) (fun s d => hInvUpdate_side s d mv u g i) hA hB
  | invDelete u rc => exact h.of_side (fun d => hInvDelete d u rc) (fun s d => hInvDelete_side s d u rc) hA hB
  | invDeleteAll mv u => exact h.of_side (fun d => hInvDeleteAll d mv u) (fun s d => hInvDeleteAll_side s d mv u) hA hB
  | traitPut n => exact h.of_side (fun d => hTraitPut d n) (fun s d => hTraitPut_side s d n) hA hB
  | traitDelete n => exact h.of_side (fun d => hTraitDelete d n) (fun s d => hTraitDelete_side s d n) hA hB
  | rpTraitsSet u g ts => exact h.of_side (fun d => hRpTraitsSet d u g ts) (fun s d => hRpTraitsSet_side s d u g ts) hA hB
  | rpTraitsDelete u => exact h.of_side (fun d => hRpTraitsDelete d u) (fun s d => hRpTraitsDelete_side s d u) hA hB
  | rcPost n => exact h.of_side (fun d => hRcPost d n) (fun s d => hRcPost_side s d n) hA hB
  | rcPut n => exact h.of_side (fun d => hRcPut d n) (fun s d => hRcPut_side s d n) hA hB
  | rcRename o n => exact h.of_side (fun d => hRcRename d o n) (fun s d => hRcRename_side s d o n) hA hB
  | rcDelete n => exact h.of_side (fun d => hRcDelete d n) (fun s d => hRcDelete_side s d n) hA hB
  | aggsSet mv u g as => exact h.of_side (fun d => hAggsSet d mv u g as) (fun s d => hAggsSet_side s d mv u g as) hA hB
  | allocPut mv c =>
    exact h.of_hrel (hAllocPut_sim hI cfg mv c) (step_ok_or_err cfg h.idsA.consFresh (.allocPut mv c))
      (fun e => hAllocPut_err cfg h.idsA.consFresh e) (fun e => hAllocPut_err cfg h.idsB.consFresh e) hA hB
  | allocPost mv cs =>
    exact h.of_hrel (hAllocPost_sim hI cfg mv cs) (step_ok_or_err cfg h.idsA.consFresh (.allocPost mv cs))
      (fun e => hAllocPost_err cfg h.idsA.consFresh e) (fun e => hAllocPost_err cfg h.idsB.consFresh e) hA hB
  | allocDelete c =>
    exact h.of_hrel (hAllocDelete_sim hI.sim hI.inj c) (step_ok_or_err cfg h.idsA.consFresh (.allocDelete c))
      (fun e => Residue.of_eq (hAllocDelete_err e)) (fun e => Residue.of_eq (hAllocDelete_err e)) hA hB
  | reshape mv invs cs =>
    exact h.of_hrel (hReshape_sim hI cfg mv invs cs) (step_ok_or_err cfg h.idsA.consFresh (.reshape mv invs cs))
      (fun e => hReshape_err cfg h.idsA.consFresh e) (fun e => hReshape_err cfg h.idsB.consFresh e) hA hB

/-- a rejected request leaves an indistinguishable state -/
theorem SimDB.rejected (cfg : Config) {a b : DB R} (h : SimDB a b) (op : Op R)
    (herr : 400 ≤ (step cfg a op).2.status) : SimDB (step cfg a op).1 b := by
  have r := step_err_residue cfg h.idsA.consFresh op herr
  exact h.of_same r.rest r.consumers rfl rfl (Gens.step_genLe cfg h.idsA op).ids h.idsB

/-! ### histories -/

/-- the requests of a history that are answered with success (2xx), in order -/
def successes (cfg : Config) : DB R → List (Op R) → List (Op R)
  | _, [] => []
  | db, op :: ops =>
    if (step cfg db op).2.ok then op :: successes cfg (step cfg db op).1 ops
    else successes cfg (step cfg db op).1 ops

theorem run_cons_snd (cfg : Config) (db : DB R) (op : Op R) (ops : List (Op R)) :
    (run cfg db (op :: ops)).2 = (step cfg db op).2 :: (run cfg (step cfg db op).1 ops).2 := by
  simp only [run]

theorem run_successes (cfg : Config) : ∀ (ops : List (Op R)) {a b : DB R}, SimDB a b →
    (run cfg b (successes cfg a ops)).2 = (run cfg a ops).2.filter (·.ok) ∧
    SimDB (run cfg a ops).1 (run cfg b (successes cfg a ops)).1
  | [], a, b, h => ⟨rfl, h⟩
  | op :: ops, a, b, h => by
    rw [Gens.run_cons, run_cons_snd]
    by_cases hok : (step cfg a op).2.ok = true
    · have hs : successes cfg a (op :: ops) = op :: successes cfg (step cfg a op).1 ops := by
        simp only [successes, hok, ↓reduceIte]
      rw [hs, Gens.run_cons, run_cons_snd]
      obtain ⟨hr, hsim⟩ := step_sim cfg h op
      obtain ⟨ih1, ih2⟩ := run_successes cfg ops hsim
      refine ⟨?_, ih2⟩
      rw [List.filter_cons, if_pos hok, ih1, hr]
    · have hs : successes cfg a (op :: ops) = successes cfg (step cfg a op).1 ops := by
        simp only [successes, hok, Bool.false_eq_true, ↓reduceIte]
      rw [hs]
      have herr : 400 ≤ (step cfg a op).2.status := by
        rcases step_ok_or_err cfg h.idsA.consFresh op with h1 | h1
        · exact absurd h1 hok
        · exact h1
      obtain ⟨ih1, ih2⟩ := run_successes cfg ops (h.rejected cfg op herr)
      refine ⟨?_, ih2⟩
      rw [List.filter_cons, if_neg hok, ih1]

/-! ### what the API can observe of a state -/

/-- a consumer as the API reports it (the internal id is never reported) -/
structure ConsView where
  uuid : Nat
  project : Nat
  user : Nat
  ctype : Option Nat
  gen : Nat
deriving DecidableEq, Repr

def ConsRow.view (c : ConsRow) : ConsView := ⟨c.uuid, c.project, c.user, c.ctype, c.gen⟩

/-- `core` with the internal consumer ids erased -/
structure ApiState (R : Type) where
  rps : List RpRow
  invs : List (InvRow R)
  allocs : List AllocRow
  consumers : List ConsView
  rpTraits : List (Nat × Nat)
  rpAggs : List (Nat × Nat)
  rcs : List (Nat × Nat)
  traits : List Nat
deriving DecidableEq

def apiState (db : DB R) : ApiState R :=
  ⟨db.rps, db.invs, db.allocs, db.consumers.map ConsRow.view, db.rpTraits, db.rpAggs, db.rcs, db.traits⟩

omit [CapOps R] in
theorem SimDB.apiState {a b : DB R} (h : SimDB a b) : apiState b = apiState a := by
  obtain ⟨ρ, hc, -⟩ := h.ren
  have h1 := h.rest
  simp only [Core.rest, RestState.mk.injEq] at h1
  obtain ⟨e1, e2, e3, e4, e5, e6, e7, -, -⟩ := h1
  simp only [Core.apiState, e1, e2, e3, e4, e5, e6, e7, hc, List.map_map]
  rfl

end Placement.Core
