import Placement.Lemmas.CoreStep
/-
  C04, part 3: the multi-entity writes are all-or-nothing: either an error status with `Residue`, or
  a success status and the state produced by the single object-layer transaction function applied to
  the state "original plus ensured consumers".
-/
namespace Placement.Core
variable {R : Type}
set_option linter.unusedSectionVars false
set_option linter.unusedSimpArgs false
set_option linter.unusedVariables false

/-- `d` is `db` with project, user and type changed in some consumer rows (what `update_consumers`
does at the start of the main write transaction) -/
def UpdOnly (db d : DB R) : Prop :=
  ∃ f : ConsRow → ConsRow, (∀ c, (f c).id = c.id ∧ (f c).uuid = c.uuid ∧ (f c).gen = c.gen) ∧
    d = { db with consumers := db.consumers.map f }

theorem UpdOnly.refl (db : DB R) : UpdOnly db db :=
  ⟨id, fun _ => ⟨rfl, rfl, rfl⟩, by simp⟩

theorem UpdOnly.trans {a b c : DB R} (h1 : UpdOnly a b) (h2 : UpdOnly b c) : UpdOnly a c := by
  obtain ⟨f, hf, rfl⟩ := h1
  obtain ⟨g, hg, rfl⟩ := h2
  refine ⟨g ∘ f, fun c => ?_, by simp [List.map_map]⟩
  simp only [Function.comp]
  exact ⟨(hg _).1.trans (hf c).1, (hg _).2.1.trans (hf c).2.1, (hg _).2.2.trans (hf c).2.2⟩

theorem UpdOnly.upd (d : DB R) (cons : ConsRow) (p u : Nat) (t : Option Nat) :
    UpdOnly d (Gens.updCons cons p u t d) :=
  ⟨_, fun c => by split <;> exact ⟨rfl, rfl, rfl⟩, rfl⟩

theorem updateConsumer_updOnly (db : DB R) (cons : ConsRow) (a : ReqAttr) :
    UpdOnly db (updateConsumer db cons a) := by
  unfold updateConsumer
  dsimp only
  repeat' split
  all_goals first
    | exact UpdOnly.refl _
    | exact UpdOnly.upd _ cons _ _ _
    | exact (UpdOnly.upd _ cons _ _ _).trans (UpdOnly.upd _ cons _ _ _)

theorem updateConsumers_updOnly : ∀ (l : List (ConsumerReq × ConsRow × ReqAttr)) (db : DB R),
    UpdOnly db (updateConsumers db l)
  | [], db => UpdOnly.refl db
  | (_, cons, attr) :: rest, db =>
    (updateConsumer_updOnly db cons attr).trans (updateConsumers_updOnly rest _)

theorem UpdOnly.rest {db d : DB R} (h : UpdOnly db d) : rest d = rest db := by
  obtain ⟨f, -, rfl⟩ := h; rfl

variable [CapOps R]

/-- the consumers of the request have been ensured: `db1` is `db` plus names plus the rows created for
this request (ids `created`, all fresh) -/
def Ensured (cfg : Config) (mv : Nat) (db : DB R) (cs : List ConsumerReq) (db1 : DB R)
    (triples : List (ConsumerReq × ConsRow × ReqAttr)) (created : List Nat) : Prop :=
  inspectConsumers cfg mv db cs [] [] = (db1, .ok (triples, created)) ∧ Ext db db1 created

theorem hAllocPut_atomic (cfg : Config) {db : DB R} (hf : ∀ b ∈ db.consumers, b.id < db.nextCons) (mv : Nat)
    (c : ConsumerReq) :
    (400 ≤ (hAllocPut cfg db mv c).2.status ∧ Residue db (hAllocPut cfg db mv c).1) ∨
    (∃ db1 cons created attr objs db3,
        ensureConsumer cfg db mv c = (db1, .ok (cons, created, attr)) ∧
        Ext db db1 (if created then [cons.id] else []) ∧
        allocObjects db1 cons c = .ok objs ∧
        setAllocations (updateConsumer db1 cons attr) objs = .ok db3 ∧
        hAllocPut cfg db mv c =
          ((if created && objs.isEmpty then deleteConsumerRows db3 [cons.id] else db3), r204)) := by
  rcases Gens.hAllocPut_cases cfg db mv c with ⟨db1, cons, created, attr, objs, db3, he, hobj, h3, hres⟩ | ⟨hst, -⟩
  · right
    have hE := (Ext.refl db).ensure cfg mv c
    rw [he] at hE
    exact ⟨db1, cons, created, attr, objs, db3, he, by simpa using hE, hobj, h3, hres⟩
  · exact .inl ⟨hst, hAllocPut_err cfg hf hst⟩

theorem hAllocPost_atomic (cfg : Config) {db : DB R} (hf : ∀ b ∈ db.consumers, b.id < db.nextCons) (mv : Nat)
    (cs : List ConsumerReq) :
    (400 ≤ (hAllocPost cfg db mv cs).2.status ∧ Residue db (hAllocPost cfg db mv cs).1) ∨
    (∃ db1 triples created objs db3,
        Ensured cfg mv db cs db1 triples created ∧
        allocObjectsAll db1 triples = .ok objs ∧
        setAllocations (updateConsumers db1 triples) objs = .ok db3 ∧
        hAllocPost cfg db mv cs = (deleteConsumerRows db3 (createdEmpty triples created), r204)) := by
  rcases Gens.hAllocPost_cases cfg db mv cs with ⟨db1, triples, created, objs, db3, he, hobj, h3, hres⟩ | hst
  · right
    have hE := inspectConsumers_ext cfg mv hf cs db [] [] (Ext.refl db)
    rw [he] at hE
    exact ⟨db1, triples, created, objs, db3, ⟨he, hE⟩, hobj, h3, hres⟩
  · exact .inl ⟨hst, hAllocPost_err cfg hf hst⟩

theorem hReshape_atomic (cfg : Config) {db : DB R} (hf : ∀ b ∈ db.consumers, b.id < db.nextCons) (mv : Nat)
    (invs : List (RpInvReq R)) (cs : List ConsumerReq) :
    (400 ≤ (hReshape cfg db mv invs cs).2.status ∧ Residue db (hReshape cfg db mv invs cs).1) ∨
    (∃ rinvs db1 triples created objs db3,
        resolveReshapeRps db invs = .ok rinvs ∧
        Ensured cfg mv db cs db1 triples created ∧
        allocObjectsAll db1 triples = .ok objs ∧
        reshapeTxn (updateConsumers db1 triples) rinvs objs = .ok db3 ∧
        hReshape cfg db mv invs cs = (deleteConsumerRows db3 (createdEmpty triples created), r204)) := by
  by_cases hst : 400 ≤ (hReshape cfg db mv invs cs).2.status
  · exact .inl ⟨hst, hReshape_err cfg hf hst⟩
  · right
    have hE := inspectConsumers_ext cfg mv hf cs db [] [] (Ext.refl db)
    revert hst
    unfold hReshape
    split
    · intro h; simp [r404] at h
    · split
      · rename_i r hres
        intro h; exact absurd (Gens.resolveReshapeRps_err hres) h
      · rename_i rinvs hres
        split
        · rename_i db1 r heq
          intro h
          rw [Gens.inspectConsumers_err_status cfg mv _ _ _ _ _ _ heq] at h; simp [r409] at h
        · rename_i db1 triples created heq
          rw [heq] at hE
          split
          · rename_i r hobj
            intro h
            rw [Gens.allocObjectsAll_err _ _ hobj] at h; simp [r400] at h
          · rename_i objs hobj
            dsimp only
            split
            · rename_i db3 h3
              intro _
              exact ⟨rinvs, db1, triples, created, objs, db3, hres, ⟨heq, hE⟩, hobj, h3, rfl⟩
            · rename_i e _
              intro h
              exact absurd (by unfold reshapeErr; repeat' split
                               all_goals simp [r400, r409, r500]) h

/-- the rows removed at the end of a successful multi-consumer write are rows created by this request -/
theorem createdEmpty_subset (triples : List (ConsumerReq × ConsRow × ReqAttr)) (created : List Nat) :
    ∀ i ∈ createdEmpty triples created, i ∈ created := by
  intro i hi
  unfold createdEmpty at hi
  obtain ⟨t, ht, rfl⟩ := List.mem_map.mp hi
  have := (List.mem_filter.mp ht).2
  simp only [Bool.and_eq_true] at this
  exact List.contains_iff_mem.mp this.1

/-- every response is a success (2xx) or an error (>= 400) -/
theorem step_ok_or_err (cfg : Config) {db : DB R} (hf : ∀ b ∈ db.consumers, b.id < db.nextCons) (op : Op R) :
    (step cfg db op).2.ok = true ∨ 400 ≤ (step cfg db op).2.status := by
  cases op with
  | allocPut mv c =>
    rcases hAllocPut_atomic cfg hf mv c with ⟨h, -⟩ | ⟨_, _, _, _, _, _, -, -, -, -, h⟩
    · exact .inr h
    · left; show (hAllocPut cfg db mv c).2.ok = true; rw [h]; rfl
  | allocPost mv cs =>
    rcases hAllocPost_atomic cfg hf mv cs with ⟨h, -⟩ | ⟨_, _, _, _, _, -, -, -, h⟩
    · exact .inr h
    · left; show (hAllocPost cfg db mv cs).2.ok = true; rw [h]; rfl
  | reshape mv invs cs =>
    rcases hReshape_atomic cfg hf mv invs cs with ⟨h, -⟩ | ⟨_, _, _, _, _, _, -, -, -, -, h⟩
    · exact .inr h
    · left; show (hReshape cfg db mv invs cs).2.ok = true; rw [h]; rfl
  | rpCreate mv u n p =>
    show (hRpCreate db mv u n p).2.ok = true ∨ 400 ≤ (hRpCreate db mv u n p).2.status
    unfold hRpCreate; repeat' split
    all_goals simp [Resp.ok, r200, r201, r204, r400, r404, r409, r500]
  | rpUpdate mv u n p =>
    show (hRpUpdate db mv u n p).2.ok = true ∨ 400 ≤ (hRpUpdate db mv u n p).2.status
    unfold hRpUpdate; dsimp only; repeat' split
    all_goals simp [Resp.ok, r200, r201, r204, r400, r404, r409, r500]
  | rpDelete u =>
    show (hRpDelete db u).2.ok = true ∨ 400 ≤ (hRpDelete db u).2.status
    unfold hRpDelete; repeat' split
    all_goals simp [Resp.ok, r200, r201, r204, r400, r404, r409, r500]
  | invSet mv u g is =>
    show (hInvSet db mv u g is).2.ok = true ∨ 400 ≤ (hInvSet db mv u g is).2.status
    unfold hInvSet; repeat' split
    all_goals simp [Resp.ok, r200, r201, r204, r400, r404, r409, r500]
  | invAdd mv u i =>
    show (hInvAdd db mv u i).2.ok = true ∨ 400 ≤ (hInvAdd db mv u i).2.status
    unfold hInvAdd; repeat' split
    all_goals simp [Resp.ok, r200, r201, r204, r400, r404, r409, r500]
  | invUpdate mv u g i =>
    show (hInvUpdate db mv u g i).2.ok = true ∨ 400 ≤ (hInvUpdate db mv u g i).2.status
    unfold hInvUpdate; repeat' split
    all_goals simp [Resp.ok, r200, r201, r204, r400, r404, r409, r500]
  | invDelete u rc =>
    show (hInvDelete db u rc).2.ok = true ∨ 400 ≤ (hInvDelete db u rc).2.status
    unfold hInvDelete; repeat' split
    all_goals simp [Resp.ok, r200, r201, r204, r400, r404, r409, r500]
  | invDeleteAll mv u =>
    show (hInvDeleteAll db mv u).2.ok = true ∨ 400 ≤ (hInvDeleteAll db mv u).2.status
    unfold hInvDeleteAll; repeat' split
    all_goals simp [Resp.ok, r200, r201, r204, r400, r404, r409, r500]
  | traitPut n =>
    show (hTraitPut db n).2.ok = true ∨ 400 ≤ (hTraitPut db n).2.status
    unfold hTraitPut; repeat' split
    all_goals simp [Resp.ok, r200, r201, r204, r400, r404, r409, r500]
  | traitDelete n =>
    show (hTraitDelete db n).2.ok = true ∨ 400 ≤ (hTraitDelete db n).2.status
    unfold hTraitDelete; repeat' split
    all_goals simp [Resp.ok, r200, r201, r204, r400, r404, r409, r500]
  | rpTraitsSet u g ts =>
    show (hRpTraitsSet db u g ts).2.ok = true ∨ 400 ≤ (hRpTraitsSet db u g ts).2.status
    unfold hRpTraitsSet; repeat' split
    all_goals simp [Resp.ok, r200, r201, r204, r400, r404, r409, r500]
  | rpTraitsDelete u =>
    show (hRpTraitsDelete db u).2.ok = true ∨ 400 ≤ (hRpTraitsDelete db u).2.status
    unfold hRpTraitsDelete; repeat' split
    all_goals simp [Resp.ok, r200, r201, r204, r400, r404, r409, r500]
  | rcPost n =>
    show (hRcPost db n).2.ok = true ∨ 400 ≤ (hRcPost db n).2.status
    unfold hRcPost; repeat' split
    all_goals simp [Resp.ok, r200, r201, r204, r400, r404, r409, r500]
  | rcPut n =>
    show (hRcPut db n).2.ok = true ∨ 400 ≤ (hRcPut db n).2.status
    unfold hRcPut; repeat' split
    all_goals simp [Resp.ok, r200, r201, r204, r400, r404, r409, r500]
  | rcRename o n =>
    show (hRcRename db o n).2.ok = true ∨ 400 ≤ (hRcRename db o n).2.status
    unfold hRcRename; repeat' split
    all_goals simp [Resp.ok, r200, r201, r204, r400, r404, r409, r500]
  | rcDelete n =>
    show (hRcDelete db n).2.ok = true ∨ 400 ≤ (hRcDelete db n).2.status
    unfold hRcDelete; repeat' split
    all_goals simp [Resp.ok, r200, r201, r204, r400, r404, r409, r500]
  | aggsSet mv u g as =>
    show (hAggsSet db mv u g as).2.ok = true ∨ 400 ≤ (hAggsSet db mv u g as).2.status
    unfold hAggsSet; dsimp only; repeat' split
    all_goals simp [Resp.ok, r200, r201, r204, r400, r404, r409, r500]
  | allocDelete c =>
    show (hAllocDelete db c).2.ok = true ∨ 400 ≤ (hAllocDelete db c).2.status
    unfold hAllocDelete; repeat' split
    all_goals simp [Resp.ok, r200, r201, r204, r400, r404, r409, r500]

end Placement.Core
