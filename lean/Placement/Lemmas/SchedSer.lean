import Placement.Lemmas.SchedBase
/-
  Generic optimistic-concurrency serializability over `Prog` (`occ_serializable`).

  `Ser W ok fuel p0 p`: `p` is a residual of the request `p0` such that, on states satisfying the
  environment-stable condition `W`, every transaction of `p` either
    * leaves the state unchanged and does not finish the request with an `ok` answer, or
    * finishes the request with an `ok` answer `a`, and running the WHOLE request `p0` alone
      (`Prog.runSeq`) on the state this transaction ran on gives exactly the same state and answer
      (the commit validated everything the earlier reads contributed).

  Then for every schedule: the state after the schedule is the state after running the requests
  that finished `ok`, in the order in which they finished, one after another from the start state;
  each of them answers `ok` in that serial execution; every other step of the schedule (in
  particular every step of a request that is answered with an error) leaves the state unchanged.
-/
namespace Placement.Sched
open Placement
variable {σ α : Type}

/-- the transaction run on `s` finishes the request `ok`, reproducibly by a serial run of `p0` -/
def FinOk (ok : α → Bool) (fuel : Nat) (p0 : Prog σ α) (f : σ → σ × Prog σ α) (s : σ) : Prop :=
  ∃ a, (f s).2 = .done a ∧ ok a = true ∧ Prog.runSeq fuel p0 s = ((f s).1, some a)

inductive Ser (W : σ → Prop) (ok : α → Bool) (fuel : Nat) (p0 : Prog σ α) : Prog σ α → Prop
  | done (a : α) : Ser W ok fuel p0 (.done a)
  | txn (l : Lbl) (f : σ → σ × Prog σ α) :
      (∀ s, W s → ¬ FinOk ok fuel p0 f s → (f s).1 = s ∧ ∀ a, (f s).2 = .done a → ok a = false) →
      (∀ s, W s → ¬ FinOk ok fuel p0 f s → Ser W ok fuel p0 (f s).2) →
      Ser W ok fuel p0 (.txn l f)

theorem Ser.step {W : σ → Prop} {ok : α → Bool} {fuel : Nat} {p0 : Prog σ α} {l : Lbl} {f : σ → σ × Prog σ α}
    (h : Ser W ok fuel p0 (.txn l f)) {s : σ} (hw : W s) :
    ((f s).1 = s ∧ Ser W ok fuel p0 (f s).2 ∧ ∀ a, (f s).2 = .done a → ok a = false) ∨
    (∃ a, (f s).2 = .done a ∧ ok a = true ∧ Prog.runSeq fuel p0 s = ((f s).1, some a)) := by
  cases h with
  | txn _ _ h1 h2 =>
    by_cases hf : FinOk ok fuel p0 f s
    · exact .inr hf
    · exact .inl ⟨(h1 s hw hf).1, h2 s hw hf, (h1 s hw hf).2⟩

/-- introduction rule with the case split made explicit -/
theorem Ser.txn' {W : σ → Prop} {ok : α → Bool} {fuel : Nat} {p0 : Prog σ α} (l : Lbl) (f : σ → σ × Prog σ α)
    (h : ∀ s, W s →
      ((f s).1 = s ∧ Ser W ok fuel p0 (f s).2 ∧ ∀ a, (f s).2 = .done a → ok a = false) ∨
      (∃ a, (f s).2 = .done a ∧ ok a = true ∧ Prog.runSeq fuel p0 s = ((f s).1, some a))) :
    Ser W ok fuel p0 (.txn l f) :=
  .txn l f (fun s hw hn => ((h s hw).resolve_right hn).imp_right (·.2))
    (fun s hw hn => ((h s hw).resolve_right hn).2.1)

/-- request `j` has a transaction to run -/
def pending (ps : List (Prog σ α)) (j : Nat) : Bool := ((ps[j]?).bind Prog.next?).isSome

/-- the scheduling step of `j` on `(s, ps)` finishes request `j` with an `ok` answer -/
def finishesOk (ok : α → Bool) (ps : List (Prog σ α)) (j : Nat) (s : σ) : Bool :=
  pending ps j && (match (Prog.stepAt ps j s).2[j]? with
                   | some (.done a) => ok a
                   | _ => false)

/-- the requests that finish `ok`, in the order in which they finish -/
def okOrder (ok : α → Bool) : List Nat → σ → List (Prog σ α) → List Nat
  | [], _, _ => []
  | j :: rest, s, ps =>
    if finishesOk ok ps j s then j :: okOrder ok rest (Prog.stepAt ps j s).1 (Prog.stepAt ps j s).2
    else okOrder ok rest (Prog.stepAt ps j s).1 (Prog.stepAt ps j s).2

/-- run the listed requests one after another, each alone -/
def serial (fuel : Nat) (p0 : Nat → Prog σ α) : List Nat → σ → σ
  | [], s => s
  | i :: is, s => serial fuel p0 is (Prog.runSeq fuel (p0 i) s).1

/-- ... and each of them answers `ok` -/
def SerialOk (fuel : Nat) (p0 : Nat → Prog σ α) (ok : α → Bool) : List Nat → σ → Prop
  | [], _ => True
  | i :: is, s => (∃ a, (Prog.runSeq fuel (p0 i) s).2 = some a ∧ ok a = true) ∧
                  SerialOk fuel p0 ok is (Prog.runSeq fuel (p0 i) s).1

/-- every step of the schedule that does not finish a request `ok` leaves the state unchanged -/
def QuietElse (ok : α → Bool) : List Nat → σ → List (Prog σ α) → Prop
  | [], _, _ => True
  | j :: rest, s, ps =>
    (finishesOk ok ps j s = false → (Prog.stepAt ps j s).1 = s) ∧
    QuietElse ok rest (Prog.stepAt ps j s).1 (Prog.stepAt ps j s).2

theorem finishesOk_of_idle {ok : α → Bool} {ps : List (Prog σ α)} {j : Nat} {s : σ}
    (h : ∀ l f, ps[j]? ≠ some (.txn l f)) : finishesOk ok ps j s = false := by
  unfold finishesOk pending
  cases hj : ps[j]? with
  | none => simp
  | some p =>
    cases p with
    | done a => simp [Prog.next?]
    | txn l f => exact absurd hj (h l f)

/-- **occ_serializable.** -/
theorem occ_serializable {W : σ → Prop} {ok : α → Bool} {fuel : Nat} (p0 : Nat → Prog σ α)
    (hW : ∀ (i : Nat) (s : σ), W s → W (Prog.runSeq fuel (p0 i) s).1) :
    ∀ (sched : List Nat) (s : σ) (ps : List (Prog σ α)), W s →
      (∀ i p, ps[i]? = some p → Ser W ok fuel (p0 i) p) →
      (Prog.runSched sched s ps).1 = serial fuel p0 (okOrder ok sched s ps) s ∧
      SerialOk fuel p0 ok (okOrder ok sched s ps) s ∧ QuietElse ok sched s ps
  | [], _, _, _, _ => ⟨rfl, trivial, trivial⟩
  | j :: rest, s, ps, hw, hps => by
    rw [runSched_cons]
    rcases stepAt_cases ps j s with ⟨e, hno⟩ | ⟨l, f, hj, e⟩
    · have hfin : finishesOk ok ps j s = false := finishesOk_of_idle hno
      have ih := occ_serializable p0 hW rest s ps hw hps
      have ho : okOrder ok (j :: rest) s ps = okOrder ok rest s ps := by
        show (if _ then _ else _) = _
        rw [hfin, e]; rfl
      rw [ho, e]
      exact ⟨ih.1, ih.2.1, ⟨(fun _ => by rw [e]), by rw [e]; exact ih.2.2⟩⟩
    · have hjlt : j < ps.length := (List.getElem?_eq_some_iff.mp hj).1
      have hpend : pending ps j = true := by unfold pending; rw [hj]; rfl
      have hset : (Prog.stepAt ps j s).2[j]? = some (f s).2 := by rw [e]; exact List.getElem?_set_self hjlt
      rcases (hps j _ hj).step hw with ⟨hsame, hser, hnok⟩ | ⟨a, hdone, hoka, hrun⟩
      · have hfin : finishesOk ok ps j s = false := by
          unfold finishesOk
          rw [hpend, hset]
          cases hq : (f s).2 with
          | done a => simp [hnok a hq]
          | txn _ _ => simp
        have hps' : ∀ i p, (ps.set j (f s).2)[i]? = some p → Ser W ok fuel (p0 i) p := by
          intro i p hp
          by_cases hij : j = i
          · subst hij; rw [List.getElem?_set_self hjlt] at hp; cases hp; exact hser
          · rw [List.getElem?_set_ne hij] at hp; exact hps i p hp
        have ih := occ_serializable p0 hW rest (f s).1 (ps.set j (f s).2) (by rw [hsame]; exact hw) hps'
        have ho : okOrder ok (j :: rest) s ps = okOrder ok rest (f s).1 (ps.set j (f s).2) := by
          show (if _ then _ else _) = _
          rw [hfin, e]; rfl
        rw [ho, e]
        have ih1 := ih.1
        have ih2 := ih.2.1
        generalize okOrder ok rest (f s).1 (ps.set j (f s).2) = X at ih1 ih2 ⊢
        have hser : serial fuel p0 X (f s).1 = serial fuel p0 X s := by rw [hsame]
        have hsok : SerialOk fuel p0 ok X (f s).1 = SerialOk fuel p0 ok X s := by rw [hsame]
        exact ⟨ih1.trans hser, hsok ▸ ih2, ⟨(fun _ => by rw [e]; exact hsame), by rw [e]; exact ih.2.2⟩⟩
      · have hfin : finishesOk ok ps j s = true := by
          unfold finishesOk
          rw [hpend, hset, hdone]; simpa using hoka
        have hps' : ∀ i p, (ps.set j (f s).2)[i]? = some p → Ser W ok fuel (p0 i) p := by
          intro i p hp
          by_cases hij : j = i
          · subst hij; rw [List.getElem?_set_self hjlt] at hp; cases hp; rw [hdone]; exact .done a
          · rw [List.getElem?_set_ne hij] at hp; exact hps i p hp
        have hst : (f s).1 = (Prog.runSeq fuel (p0 j) s).1 := by rw [hrun]
        have hw' : W (f s).1 := hst ▸ hW j s hw
        have ih := occ_serializable p0 hW rest (f s).1 (ps.set j (f s).2) hw' hps'
        have ho : okOrder ok (j :: rest) s ps = j :: okOrder ok rest (f s).1 (ps.set j (f s).2) := by
          show (if _ then _ else _) = _
          rw [hfin, e]; rfl
        rw [ho, e]
        refine ⟨?_, ⟨⟨a, by rw [hrun], hoka⟩, ?_⟩, ⟨(fun h => by rw [hfin] at h; cases h), by rw [e]; exact ih.2.2⟩⟩
        · show _ = serial fuel p0 _ (Prog.runSeq fuel (p0 j) s).1
          rw [← hst]; exact ih.1
        · rw [← hst]; exact ih.2.1

/-- a request is answered `ok` exactly if it occurs in the order of `ok` finishes, and then once -/
theorem okOrder_spec {ok : α → Bool} : ∀ (sched : List Nat) (s : σ) (ps : List (Prog σ α)) (i : Nat),
    (i ∈ okOrder ok sched s ps → ∃ a, (Prog.runSched sched s ps).2[i]? = some (.done a) ∧ ok a = true)
  | [], _, _, _, h => by cases h
  | j :: rest, s, ps, i, h => by
    rw [runSched_cons]
    unfold okOrder at h
    split at h
    · rename_i hfin
      rcases List.mem_cons.mp h with e | h'
      · subst e
        unfold finishesOk at hfin
        simp only [Bool.and_eq_true] at hfin
        obtain ⟨-, hm⟩ := hfin
        split at hm
        · rename_i a ha
          exact ⟨a, runSched_done rest _ ha, hm⟩
        · cases hm
      · exact okOrder_spec rest _ _ i h'
    · exact okOrder_spec rest _ _ i h

/-- conversely: a request that starts with a transaction still to run and ends with an `ok` answer
is in the order -/
theorem mem_okOrder {ok : α → Bool} : ∀ (sched : List Nat) (s : σ) (ps : List (Prog σ α)) (i : Nat) (a : α),
    pending ps i = true → (Prog.runSched sched s ps).2[i]? = some (.done a) → ok a = true →
    i ∈ okOrder ok sched s ps
  | [], _, ps, i, a, hp, hfin, _ => by
    exfalso
    unfold pending at hp
    have : ps[i]? = some (.done a) := hfin
    rw [this] at hp
    simp [Prog.next?] at hp
  | j :: rest, s, ps, i, a, hp, hfin, hok => by
    rw [runSched_cons] at hfin
    unfold okOrder
    by_cases hpend' : pending (Prog.stepAt ps j s).2 i = true
    · have := mem_okOrder rest _ _ i a hpend' hfin hok
      split
      · exact List.mem_cons_of_mem _ this
      · exact this
    · -- request `i` finished at this very step
      have hji : j = i := by
        apply Classical.byContradiction
        intro hne
        apply hpend'
        rcases stepAt_cases ps j s with ⟨e, -⟩ | ⟨l, f, hj, e⟩
        · rw [e]; exact hp
        · rw [e]; unfold pending; show (((ps.set j (f s).2)[i]?).bind Prog.next?).isSome = true
          rw [List.getElem?_set_ne hne]; exact hp
      subst hji
      have hdone : ∃ b, (Prog.stepAt ps j s).2[j]? = some (.done b) := by
        have hlen : j < (Prog.stepAt ps j s).2.length := by
          rw [stepAt_length]
          unfold pending at hp
          cases hj : ps[j]? with
          | none => rw [hj] at hp; simp at hp
          | some _ => exact (List.getElem?_eq_some_iff.mp hj).1
        cases hq : (Prog.stepAt ps j s).2[j]? with
        | none => exact absurd hlen (by simpa using hq)
        | some q =>
          cases q with
          | done b => exact ⟨b, rfl⟩
          | txn l f =>
            exfalso; apply hpend'
            unfold pending; rw [hq]; rfl
      obtain ⟨b, hb⟩ := hdone
      have hab : a = b := by
        have := runSched_done rest (Prog.stepAt ps j s).1 hb
        rw [this] at hfin
        cases hfin; rfl
      subst hab
      have : finishesOk ok ps j s = true := by
        unfold finishesOk
        rw [hp, hb]; simpa using hok
      rw [if_pos this]
      exact List.mem_cons_self

theorem pending_stepAt_of_not {ps : List (Prog σ α)} {i : Nat} (j : Nat) (s : σ) (h : pending ps i = false) :
    pending (Prog.stepAt ps j s).2 i = false := by
  rcases stepAt_cases ps j s with ⟨e, -⟩ | ⟨l, f, hj, e⟩
  · rw [e]; exact h
  · rw [e]
    by_cases hji : j = i
    · subst hji
      unfold pending at h
      rw [hj] at h
      simp [Prog.next?] at h
    · unfold pending
      show (((ps.set j (f s).2)[i]?).bind Prog.next?).isSome = false
      rw [List.getElem?_set_ne hji]; exact h

theorem not_mem_okOrder_of_not_pending {ok : α → Bool} : ∀ (sched : List Nat) (s : σ) (ps : List (Prog σ α)) (i : Nat),
    pending ps i = false → i ∉ okOrder ok sched s ps
  | [], _, _, _, _ => by simp [okOrder]
  | j :: rest, s, ps, i, h => by
    have ih := not_mem_okOrder_of_not_pending (ok := ok) rest (Prog.stepAt ps j s).1 (Prog.stepAt ps j s).2 i
      (pending_stepAt_of_not j s h)
    unfold okOrder
    split
    · rename_i hfin
      intro hm
      rcases List.mem_cons.mp hm with e | h'
      · subst e
        unfold finishesOk at hfin
        rw [h] at hfin
        simp at hfin
      · exact ih h'
    · exact ih

/-- no request finishes twice -/
theorem okOrder_nodup {ok : α → Bool} : ∀ (sched : List Nat) (s : σ) (ps : List (Prog σ α)),
    (okOrder ok sched s ps).Nodup
  | [], _, _ => by simp [okOrder]
  | j :: rest, s, ps => by
    have ih := okOrder_nodup (ok := ok) rest (Prog.stepAt ps j s).1 (Prog.stepAt ps j s).2
    unfold okOrder
    split
    · rename_i hfin
      refine List.nodup_cons.mpr ⟨?_, ih⟩
      apply not_mem_okOrder_of_not_pending
      unfold finishesOk at hfin
      simp only [Bool.and_eq_true] at hfin
      obtain ⟨-, hm⟩ := hfin
      unfold pending
      split at hm
      · rename_i a ha
        rw [ha]; rfl
      · cases hm
    · exact ih

/-- `QuietElse` at a given step of the schedule -/
theorem quietElse_split {ok : α → Bool} : ∀ (pre : List Nat) (j : Nat) (post : List Nat) (s : σ) (ps : List (Prog σ α)),
    QuietElse ok (pre ++ j :: post) s ps →
    finishesOk ok (Prog.runSched pre s ps).2 j (Prog.runSched pre s ps).1 = false →
    (Prog.runSched (pre ++ [j]) s ps).1 = (Prog.runSched pre s ps).1
  | [], j, post, s, ps, h, hf => h.1 hf
  | i :: pre, j, post, s, ps, h, hf => quietElse_split pre j post _ _ h.2 hf

end Placement.Sched
