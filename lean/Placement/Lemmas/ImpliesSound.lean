/-
  Soundness of the syntactic test `implies`.
-/
import Placement.Lemmas.SchemaShape

namespace Placement

open Regex (Re)

theorem intVal_num {j : Json} {n : Int} (h : j.intVal? = some n) :
    ∃ a b, j.num? = some (.fin a b) ∧ 0 < (b : Int) ∧ a = n * (b : Int) := by
  cases j <;> simp [Json.intVal?] at h
  · rename_i m; subst h; exact ⟨m, 1, rfl, by decide, by simp⟩
  · rename_i a b
    obtain ⟨⟨hb, hm⟩, hn⟩ := h
    refine ⟨a, b, rfl, by omega, ?_⟩
    subst hn
    exact (Int.ediv_mul_cancel (Int.dvd_of_emod_eq_zero hm)).symm

theorem hasMinInt_sound {cs : List Check} {l : Int} (h : hasMinInt cs l = true) {j : Json}
    (hc : ∀ c ∈ cs, checkOk j c = true) {n : Int} (hn : j.intVal? = some n) : l ≤ n := by
  unfold hasMinInt at h
  obtain ⟨c, hcm, hcl⟩ := List.any_eq_true.mp h
  have hck := hc c hcm
  obtain ⟨a, b, hnum, hb, hab⟩ := intVal_num hn
  split at hcl
  · rename_i m
    simp only [decide_eq_true_eq] at hcl
    simp only [checkOk, hnum, Num.lt, Bool.not_eq_true', decide_eq_false_iff_not, Int.not_lt] at hck
    subst hab
    have h1 : m * (b : Int) ≤ n * (b : Int) := by simpa using hck
    have := Int.le_of_mul_le_mul_right h1 hb
    omega
  · cases hcl

theorem hasMaxInt_sound {cs : List Check} {u : Int} (h : hasMaxInt cs u = true) {j : Json}
    (hc : ∀ c ∈ cs, checkOk j c = true) {n : Int} (hn : j.intVal? = some n) : n ≤ u := by
  unfold hasMaxInt at h
  obtain ⟨c, hcm, hcl⟩ := List.any_eq_true.mp h
  have hck := hc c hcm
  obtain ⟨a, b, hnum, hb, hab⟩ := intVal_num hn
  split at hcl
  · rename_i m
    simp only [decide_eq_true_eq] at hcl
    simp only [checkOk, hnum, Num.lt, Bool.not_eq_true', decide_eq_false_iff_not, Int.not_lt] at hck
    subst hab
    have h1 : n * (b : Int) ≤ m * (b : Int) := by simpa using hck
    have := Int.le_of_mul_le_mul_right h1 hb
    omega
  · cases hcl

theorem hasMinimum_sound {cs : List Check} {m : Num} (h : hasMinimum cs m = true) {j : Json}
    (hc : ∀ c ∈ cs, checkOk j c = true) {x : Num} (hx : j.num? = some x) : Num.lt x m = false := by
  unfold hasMinimum at h
  obtain ⟨c, hcm, hcl⟩ := List.any_eq_true.mp h
  have hck := hc c hcm
  split at hcl
  · simp only [decide_eq_true_eq] at hcl; subst hcl
    simpa [checkOk, hx] using hck
  · cases hcl

theorem hasMaximum_sound {cs : List Check} {m : Num} (h : hasMaximum cs m = true) {j : Json}
    (hc : ∀ c ∈ cs, checkOk j c = true) {x : Num} (hx : j.num? = some x) : Num.lt m x = false := by
  unfold hasMaximum at h
  obtain ⟨c, hcm, hcl⟩ := List.any_eq_true.mp h
  have hck := hc c hcm
  split at hcl
  · simp only [decide_eq_true_eq] at hcl; subst hcl
    simpa [checkOk, hx] using hck
  · cases hcl

theorem hasMinLength_sound {cs : List Check} {n : Nat} (h : hasMinLength cs n = true) {s : String}
    (hc : ∀ c ∈ cs, checkOk (.str s) c = true) : n ≤ s.toList.length := by
  unfold hasMinLength at h
  rcases Bool.or_eq_true_iff.mp h with h0 | h1
  · simp at h0; omega
  · obtain ⟨c, hcm, hcl⟩ := List.any_eq_true.mp h1
    have hck := hc c hcm
    split at hcl
    · simp only [decide_eq_true_eq] at hcl
      simp only [checkOk, decide_eq_true_eq] at hck
      omega
    · cases hcl

theorem hasMaxLength_sound {cs : List Check} {n : Nat} (h : hasMaxLength cs n = true) {s : String}
    (hc : ∀ c ∈ cs, checkOk (.str s) c = true) : s.toList.length ≤ n := by
  unfold hasMaxLength at h
  obtain ⟨c, hcm, hcl⟩ := List.any_eq_true.mp h
  have hck := hc c hcm
  split at hcl
  · simp only [decide_eq_true_eq] at hcl
    simp only [checkOk, decide_eq_true_eq] at hck
    omega
  · cases hcl

theorem hasMinItems_sound {cs : List Check} {n : Nat} (h : hasMinItems cs n = true) {xs : List Json}
    (hc : ∀ c ∈ cs, checkOk (.arr xs) c = true) : n ≤ xs.length := by
  unfold hasMinItems at h
  rcases Bool.or_eq_true_iff.mp h with h0 | h1
  · simp at h0; omega
  · obtain ⟨c, hcm, hcl⟩ := List.any_eq_true.mp h1
    have hck := hc c hcm
    split at hcl
    · simp only [decide_eq_true_eq] at hcl
      simp only [checkOk, decide_eq_true_eq] at hck
      omega
    · cases hcl

theorem hasMinProperties_sound {cs : List Check} {n : Nat} (h : hasMinProperties cs n = true)
    {kvs : List (String × Json)} (hc : ∀ c ∈ cs, checkOk (.obj kvs) c = true) : n ≤ kvs.length := by
  unfold hasMinProperties at h
  rcases Bool.or_eq_true_iff.mp h with h0 | h1
  · simp at h0; omega
  · obtain ⟨c, hcm, hcl⟩ := List.any_eq_true.mp h1
    have hck := hc c hcm
    split at hcl
    · simp only [decide_eq_true_eq] at hcl
      simp only [checkOk, decide_eq_true_eq] at hck
      omega
    · cases hcl

theorem hasUnique_sound {cs : List Check} (h : hasUnique cs = true) {xs : List Json}
    (hc : ∀ c ∈ cs, checkOk (.arr xs) c = true) : Json.uniq xs = true := by
  unfold hasUnique at h
  obtain ⟨c, hcm, hcl⟩ := List.any_eq_true.mp h
  have hck := hc c hcm
  split at hcl
  · simpa [checkOk] using hck
  · cases hcl

theorem hasPattern_sound {cs : List Check} {re : Re} (h : hasPattern cs re = true) {s : String}
    (hc : ∀ c ∈ cs, checkOk (.str s) c = true) : Regex.test re s = true := by
  unfold hasPattern at h
  obtain ⟨c, hcm, hcl⟩ := List.any_eq_true.mp h
  have hck := hc c hcm
  split at hcl
  · simp only [decide_eq_true_eq] at hcl; subst hcl
    simpa [checkOk] using hck
  · cases hcl

theorem hasUuid_sound {cs : List Check} (h : hasUuid cs = true) {s : String}
    (hc : ∀ c ∈ cs, checkOk (.str s) c = true) : isUuidLike s.toList = true := by
  unfold hasUuid at h
  obtain ⟨c, hcm, hcl⟩ := List.any_eq_true.mp h
  have hck := hc c hcm
  split at hcl
  · simpa [checkOk] using hck
  · cases hcl

theorem hasRequired_sound {cs : List Check} {k : String} (h : hasRequired cs k = true)
    {kvs : List (String × Json)} (hc : ∀ c ∈ cs, checkOk (.obj kvs) c = true) :
    (lookup k kvs).isSome = true := by
  unfold hasRequired at h
  obtain ⟨c, hcm, hcl⟩ := List.any_eq_true.mp h
  have hck := hc c hcm
  split at hcl
  · rename_i ks
    simp only [checkOk, List.all_eq_true] at hck
    exact hck k (by simpa using hcl)
  · cases hcl

theorem typesWithin_sound {S : Schema} {allowed : List Ty} (h : typesWithin S allowed = true) {j : Json}
    (ht : typesOk S.types j = true) : ∃ t, t ∈ allowed ∧ isType j t = true := by
  unfold typesWithin at h
  simp only [Bool.and_eq_true, Bool.not_eq_true'] at h
  exact isType_of_typesOk h.1 h.2 ht

theorem dropNull_validate {S : Schema} {j : Json} (h : validate S j = true) (hj : j ≠ .null) :
    validate (dropNull S) j = true := by
  rw [validate_eq] at h ⊢
  simp only [Bool.and_eq_true] at h ⊢
  obtain ⟨⟨⟨⟨⟨⟨⟨⟨⟨h1, h2⟩, h3⟩, h4⟩, h5⟩, h6⟩, h7⟩, h8⟩, h9⟩, h10⟩ := h
  refine ⟨⟨⟨⟨⟨⟨⟨⟨⟨?_, h2⟩, h3⟩, h4⟩, h5⟩, h6⟩, h7⟩, h8⟩, h9⟩, h10⟩
  simp only [dropNull]
  unfold typesOk at h1 ⊢
  rcases Bool.or_eq_true_iff.mp h1 with he | ha
  · have : S.types = [] := by simpa using he
    simp [this]
  · obtain ⟨t, ht, hjt⟩ := List.any_eq_true.mp ha
    apply Bool.or_eq_true_iff.mpr; right
    apply List.any_eq_true.mpr
    refine ⟨t, ?_, hjt⟩
    simp only [List.mem_filter, bne_iff_ne, ne_eq]
    refine ⟨ht, ?_⟩
    intro htn; subst htn
    cases j <;> simp [isType] at hjt
    exact hj rfl

theorem validateAny_mem {bs : List Schema} {j : Json} (h : validateAny bs j = true) :
    ∃ b, b ∈ bs ∧ validate b j = true := by
  induction bs with
  | nil => simp [validateAny] at h
  | cons b rest ih =>
    rw [validateAny] at h
    rcases Bool.or_eq_true_iff.mp h with h1 | h2
    · exact ⟨b, List.mem_cons_self, h1⟩
    · obtain ⟨b', hb', hv⟩ := ih h2
      exact ⟨b', List.mem_cons_of_mem _ hb', hv⟩

/-- **Soundness of `implies`.** -/
theorem implies_sound (sh : Shape) : ∀ (S : Schema) (j : Json),
    implies S sh = true → validate S j = true → sat sh j = true := by
  induction sh with
  | any => intro S j _ _; rfl
  | null =>
    intro S j hi hv
    obtain ⟨t, ht, hj⟩ := typesWithin_sound (by simpa [implies] using hi) (validate_parts hv).types
    simp at ht; subst ht
    cases j <;> simp_all [isType, sat]
  | bool =>
    intro S j hi hv
    obtain ⟨t, ht, hj⟩ := typesWithin_sound (by simpa [implies] using hi) (validate_parts hv).types
    simp at ht; subst ht
    cases j <;> simp_all [isType, sat]
  | int lo hi =>
    intro S j hi' hv
    simp only [implies, Bool.and_eq_true] at hi'
    obtain ⟨⟨h1, h2⟩, h3⟩ := hi'
    have hp := validate_parts hv
    obtain ⟨t, ht, hj⟩ := typesWithin_sound h1 hp.types
    simp at ht; subst ht
    simp only [isType] at hj
    obtain ⟨n, hn⟩ := Option.isSome_iff_exists.mp hj
    rw [sat_int_iff]
    refine ⟨n, hn, ?_, ?_⟩
    · intro l hl; subst hl
      exact hasMinInt_sound (by simpa using h2) hp.checks hn
    · intro u hu; subst hu
      exact hasMaxInt_sound (by simpa using h3) hp.checks hn
  | num lo hi fin =>
    intro S j hi' hv
    simp only [implies, Bool.and_eq_true] at hi'
    obtain ⟨⟨h1, h2⟩, h3⟩ := hi'
    have hp := validate_parts hv
    have hx : ∃ x, j.num? = some x ∧ (fin = true → x.isFinite = true) := by
      cases fin with
      | true =>
        simp only [if_true] at h1
        obtain ⟨t, ht, hj⟩ := typesWithin_sound h1 hp.types
        simp at ht; subst ht
        simp only [isType] at hj
        obtain ⟨n, hn⟩ := Option.isSome_iff_exists.mp hj
        obtain ⟨a, b, hnum, _, _⟩ := intVal_num hn
        exact ⟨_, hnum, fun _ => rfl⟩
      | false =>
        simp only [Bool.false_eq_true, if_false] at h1
        obtain ⟨t, ht, hj⟩ := typesWithin_sound h1 hp.types
        simp at ht
        rcases ht with rfl | rfl
        · simp only [isType] at hj
          obtain ⟨n, hn⟩ := Option.isSome_iff_exists.mp hj
          obtain ⟨a, b, hnum, _, _⟩ := intVal_num hn
          exact ⟨_, hnum, fun h => by cases h⟩
        · simp only [isType] at hj
          obtain ⟨x, hx⟩ := Option.isSome_iff_exists.mp hj
          exact ⟨x, hx, fun h => by cases h⟩
    obtain ⟨x, hx, hfin⟩ := hx
    simp only [sat, hx, Bool.and_eq_true, Bool.or_eq_true, Bool.not_eq_true']
    refine ⟨⟨?_, ?_⟩, ?_⟩
    · cases lo with
      | none => rfl
      | some l => simpa using hasMinimum_sound (by simpa using h2) hp.checks hx
    · cases hi with
      | none => rfl
      | some u => simpa using hasMaximum_sound (by simpa using h3) hp.checks hx
    · cases fin with
      | true => right; exact hfin rfl
      | false => left; rfl
  | str mn mx =>
    intro S j hi hv
    simp only [implies, Bool.and_eq_true] at hi
    obtain ⟨⟨h1, h2⟩, h3⟩ := hi
    have hp := validate_parts hv
    obtain ⟨t, ht, hj⟩ := typesWithin_sound h1 hp.types
    simp at ht; subst ht
    cases j <;> simp [isType] at hj
    rename_i s
    simp only [sat, Bool.and_eq_true, decide_eq_true_eq]
    refine ⟨hasMinLength_sound h2 hp.checks, ?_⟩
    cases mx with
    | none => rfl
    | some m => simpa using hasMaxLength_sound (by simpa using h3) hp.checks
  | strRe re mx =>
    intro S j hi hv
    simp only [implies, Bool.and_eq_true] at hi
    obtain ⟨⟨h1, h2⟩, h3⟩ := hi
    have hp := validate_parts hv
    obtain ⟨t, ht, hj⟩ := typesWithin_sound h1 hp.types
    simp at ht; subst ht
    cases j <;> simp [isType] at hj
    rename_i s
    simp only [sat, Bool.and_eq_true]
    refine ⟨hasPattern_sound h2 hp.checks, ?_⟩
    cases mx with
    | none => rfl
    | some m => simpa using hasMaxLength_sound (by simpa using h3) hp.checks
  | uuid =>
    intro S j hi hv
    simp only [implies, Bool.and_eq_true] at hi
    have hp := validate_parts hv
    obtain ⟨t, ht, hj⟩ := typesWithin_sound hi.1 hp.types
    simp at ht; subst ht
    cases j <;> simp [isType] at hj
    simp only [sat]
    exact hasUuid_sound hi.2 hp.checks
  | orNull sh ih =>
    intro S j hi hv
    by_cases hj : j = .null
    · subst hj; simp [sat]
    · have hs : sat sh j = true := by
        simp only [implies, Bool.or_eq_true, Bool.and_eq_true, Bool.not_eq_true', List.all_eq_true] at hi
        rcases hi with ⟨hne, hall⟩ | ⟨⟨_, _⟩, h3⟩
        · have hp := validate_parts hv
          rcases hp.anyOf with he | ha
          · simp [he] at hne
          · obtain ⟨b, hb, hvb⟩ := validateAny_mem ha
            rcases hall b hb with hnull | himp
            · exfalso
              obtain ⟨t, ht, hjt⟩ := typesWithin_sound hnull (validate_parts hvb).types
              simp at ht; subst ht
              cases j <;> simp [isType] at hjt
              exact hj rfl
            · exact ih b j himp hvb
        · exact ih _ j h3 (dropNull_validate hv hj)
      cases j <;> simp_all [sat]
  | arr n u elem ih =>
    intro S j hi hv
    simp only [implies, Bool.and_eq_true] at hi
    obtain ⟨⟨⟨h1, h2⟩, h3⟩, h4⟩ := hi
    have hp := validate_parts hv
    obtain ⟨t, ht, hj⟩ := typesWithin_sound h1 hp.types
    simp at ht; subst ht
    cases j <;> simp [isType] at hj
    rename_i xs
    rw [sat_arr_iff]
    refine ⟨xs, rfl, hasMinItems_sound h2 hp.checks, ?_, ?_⟩
    · intro hu; subst hu
      exact hasUnique_sound (by simpa using h3) hp.checks
    · intro x hx
      split at h4
      · rename_i s hs
        exact ih s x h4 (items_mem hs hv hx)
      · cases h4
  | map n re closed val ih =>
    intro S j hi hv
    simp only [implies, Bool.and_eq_true] at hi
    obtain ⟨⟨h1, h2⟩, h3⟩ := hi
    have hp := validate_parts hv
    obtain ⟨t, ht, hj⟩ := typesWithin_sound h1 hp.types
    simp at ht; subst ht
    cases j <;> simp [isType] at hj
    rename_i kvs
    simp only [sat, Bool.and_eq_true, decide_eq_true_eq, List.all_eq_true]
    refine ⟨hasMinProperties_sound h2 hp.checks, ?_⟩
    rintro ⟨k, v⟩ hm
    cases closed with
    | true =>
      simp only [if_true, Bool.and_eq_true, List.all_eq_true, decide_eq_true_eq, List.isEmpty_iff] at h3
      obtain ⟨⟨hprops, hdeny⟩, hall⟩ := h3
      have hd : S.addl = .deny := by
        cases h : S.addl <;> simp [h, isDeny] at hdeny; rfl
      have hk := additional_denied hd hv hm
      simp only [keyKnown, hprops, lookup, Option.isSome_none, Bool.false_or, List.any_eq_true] at hk
      obtain ⟨p, hpm, hpt⟩ := hk
      obtain ⟨hpe, hpi⟩ := hall p hpm
      have hvp := validatePats_mem hp.pats hpm (by simpa [fieldsOf] using hm) hpt
      subst hpe
      simp [hpt, ih p.2 v hpi hvp]
    | false =>
      simp only [Bool.false_eq_true, if_false, List.any_eq_true, Bool.and_eq_true, decide_eq_true_eq] at h3
      obtain ⟨p, hpm, hpe, hpi⟩ := h3
      subst hpe
      split
      · rename_i hpt
        exact ih p.2 v hpi (validatePats_mem hp.pats hpm (by simpa [fieldsOf] using hm) hpt)
      · rfl
  | objNil allowed =>
    intro S j hi hv
    simp only [implies, Bool.and_eq_true] at hi
    have hp := validate_parts hv
    obtain ⟨t, ht, hj⟩ := typesWithin_sound hi.1 hp.types
    simp at ht; subst ht
    cases j <;> simp [isType] at hj
    rename_i kvs
    cases allowed with
    | none => simp [sat]
    | some ks =>
      have h2 := hi.2
      simp only [Bool.and_eq_true, List.all_eq_true, List.isEmpty_iff] at h2
      obtain ⟨⟨hdeny, hpats⟩, hprops⟩ := h2
      have hd : S.addl = .deny := by
        cases h : S.addl <;> simp [h, isDeny] at hdeny; rfl
      simp only [sat, List.all_eq_true]
      rintro ⟨k, v⟩ hm
      have hk := additional_denied hd hv hm
      simp only [keyKnown, hpats, List.any_nil, Bool.or_false] at hk
      obtain ⟨s, hs⟩ := Option.isSome_iff_exists.mp hk
      exact hprops (k, s) (lookup_mem hs)
  | field k req sh rest ih1 ih2 =>
    intro S j hi hv
    simp only [implies, Bool.and_eq_true] at hi
    obtain ⟨⟨⟨h0, h1⟩, h2⟩, h3⟩ := hi
    have hrest := ih2 S j h3 hv
    have hp := validate_parts hv
    obtain ⟨t, ht, hj⟩ := typesWithin_sound h0 hp.types
    simp at ht; subst ht
    cases j <;> simp [isType] at hj
    rename_i kvs
    rw [sat_field_iff]
    refine ⟨kvs, rfl, hrest, ?_, ?_⟩
    · intro v hlv
      split at h1
      · rename_i s hs
        exact ih1 s v h1 (validateFields_mem hv hs hlv)
      · cases h1
    · intro hr; subst hr
      exact hasRequired_sound (by simpa using h2) hp.checks

end Placement
