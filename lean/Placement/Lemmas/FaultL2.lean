import Placement.Lemmas.FaultL
import Placement.Lemmas.Alloc
/-
  Helper lemmas for C17, part 2: the statement list of `_set_allocations` (`setAllocStmts` of
  `Model/Fault.lean`) run without a fault is `setAllocations` of `Model/Objects.lean`.

    * named statements `delStmt`, `checkStmt`, `insStmt`, `rpIncStmt`, `consIncStmt`, `cleanupStmt`
      and `setAllocStmts_eq` (the list of the model is their concatenation, by `rfl`);
    * `runBody_dels` (one DELETE per distinct consumer uuid = one filter), `runBody_inserts`
      (INSERTs in request order = `++ rows`; class ids resolved at each INSERT = resolved once, the
      class table is not written), `runBody_rpIncs` / `runBody_consIncs` (compare-and-swap with the
      generation the Python object carries = `incRpGens` / `incConsGens` over `firstByKey`, when the
      objects carry the generations of the request), `firstByKey_keys_nodup`;
    * `runBody_setAllocStmts_ok`, `mainTxn_faultfree_ok`.
-/
namespace Placement.FaultL
open Placement Placement.Fault
set_option linter.unusedSectionVars false

variable {R : Type}

/-! ### object generations -/

theorem firstByKey_keys_nodup : ∀ (l : List (Nat × Nat)), ((firstByKey l).map (·.1)).Nodup
  | [] => by simp [firstByKey]
  | (k, v) :: rest => by
    rw [firstByKey, List.map_cons, List.nodup_cons]
    refine ⟨?_, Wf.L.nodup_map_filter _ (firstByKey_keys_nodup rest)⟩
    intro hm
    obtain ⟨p, hp, e⟩ := List.mem_map.1 hm
    have := (List.mem_filter.1 hp).2
    simp at this
    exact this e

theorem getGen_of_mem {m : List (Nat × Nat)} (h : (m.map (·.1)).Nodup) {p : Nat × Nat} (hp : p ∈ m) :
    getGen m p.1 = p.2 := by
  unfold getGen
  rw [Wf.L.find?_key_of_mem (f := fun x : Nat × Nat => x.1) h hp]
  rfl

theorem getGen_setGen_ne (id g j : Nat) (hj : j ≠ id) : ∀ (m : List (Nat × Nat)),
    getGen (setGen m id g) j = getGen m j
  | [] => rfl
  | q :: m => by
    have ih := getGen_setGen_ne id g j hj m
    unfold getGen setGen at ih ⊢
    rw [List.map_cons, List.find?_cons, List.find?_cons]
    by_cases h1 : q.1 = id
    · have h4 : (q.1 == id) = true := by simp [h1]
      have h2 : (q.1 == j) = false := by rw [h1]; simpa using fun e => hj e.symm
      have h3 : (id == j) = false := by simpa using fun e => hj e.symm
      simp only [h4, ↓reduceIte, h3, h2]
      exact ih
    · have h2 : (q.1 == id) = false := by simpa using h1
      simp only [h2, Bool.false_eq_true, ↓reduceIte]
      cases h3 : (q.1 == j)
      · exact ih
      · rfl

/-! ### the statements of `_set_allocations`, named -/

variable [CapOps R]

/-- replace the allocation table -/
def setAllocsFS (s : FS R) (l : List AllocRow) : FS R := { s with db := { s.db with allocs := l } }

def delStmt (u : Nat) : Stmt (FS R) := fun s =>
  .ok { s with db := { s.db with allocs := s.db.allocs.filter (·.consumer != u) } }

def checkStmt (allocs : List AllocReq) : Stmt (FS R) := fun s =>
  match checkCapacity s.db allocs with
  | .ok _ => .ok s
  | .error e => .error e

def insStmt (a : AllocReq) : Stmt (FS R) := fun s =>
  match s.db.rcId a.rcName with
  | none => .error .rcNotFound
  | some rc =>
    let row : AllocRow := { rp := a.rpId, rc := rc, consumer := a.consUuid, used := a.used }
    .ok { s with db := { s.db with allocs := s.db.allocs ++ [row] } }

def rpIncStmt (p : Nat × Nat) : Stmt (FS R) := fun s =>
  let g := getGen s.rpGen p.1
  match incRpGen s.db p.1 g with
  | .ok db' => .ok { s with db := db', rpGen := setGen s.rpGen p.1 (g + 1) }
  | .error e => .error e

def consIncStmt (p : Nat × Nat) : Stmt (FS R) := fun s =>
  let g := getGen s.consGen p.1
  match incConsGen s.db p.1 g with
  | .ok db' => .ok { s with db := db', consGen := setGen s.consGen p.1 (g + 1) }
  | .error e => .error e

def cleanupStmt (allocs : List AllocReq) : Stmt (FS R) := fun s =>
  let consUuids := (allocs.map (·.consUuid)).eraseDups
  let withAllocs := (allocs.filter (fun a => a.used > 0)).map (·.consUuid)
  .ok { s with db := deleteConsumersIfNoAllocs s.db (consUuids.filter (fun u => !withAllocs.contains u)) }

def rpPairs (allocs : List AllocReq) : List (Nat × Nat) := firstByKey (allocs.map (fun a => (a.rpId, a.rpGen)))
def consPairs (allocs : List AllocReq) : List (Nat × Nat) := firstByKey (allocs.map (fun a => (a.consId, a.consGen)))

/-- DELETEs, capacity check, INSERTs: the statements before the first generation increment -/
def writeStmts (allocs : List AllocReq) : List (Stmt (FS R)) :=
  ((allocs.map (·.consUuid)).eraseDups.map delStmt ++ [checkStmt allocs])
    ++ (allocs.filter (·.used != 0)).map insStmt

/-- generation increments and the consumer clean-up -/
def genStmts (allocs : List AllocReq) : List (Stmt (FS R)) :=
  (rpPairs allocs).map rpIncStmt ++ (consPairs allocs).map consIncStmt ++ [cleanupStmt allocs]

theorem setAllocStmts_eq (allocs : List AllocReq) :
    setAllocStmts (R := R) allocs = writeStmts allocs ++ genStmts allocs := by
  unfold setAllocStmts writeStmts genStmts rpPairs consPairs
  simp only [List.append_assoc]
  rfl

/-- position of the first generation-increment statement -/
def firstIncPos (allocs : List AllocReq) : Nat :=
  (allocs.map (·.consUuid)).eraseDups.length + 1 + (allocs.filter (·.used != 0)).length

theorem writeStmts_length (allocs : List AllocReq) :
    (writeStmts (R := R) allocs).length = firstIncPos allocs := by
  unfold writeStmts firstIncPos
  simp only [List.length_append, List.length_map, List.length_cons, List.length_nil]

/-! ### DELETEs -/

theorem contains_eraseDups (l : List Nat) (x : Nat) : l.eraseDups.contains x = l.contains x := by
  rw [Bool.eq_iff_iff]
  simp [List.mem_eraseDups]

theorem runBody_dels : ∀ (us : List Nat) (s : FS R),
    runBody (us.map delStmt) s none =
      .done (setAllocsFS s (s.db.allocs.filter (fun a => !us.contains a.consumer)))
  | [], s => by
    simp only [List.map_nil, runBody_nil, List.contains_nil, Bool.not_false]
    rw [List.filter_eq_self.2 (fun _ _ => rfl)]
    rfl
  | u :: us, s => by
    rw [List.map_cons, runBody_cons_none]
    show runBody (us.map delStmt) (setAllocsFS s _) none = _
    rw [runBody_dels us]
    unfold setAllocsFS
    dsimp only
    rw [List.filter_filter]
    congr 4
    funext a
    by_cases h : a.consumer = u <;> simp [h, Bool.and_comm]

/-! ### INSERTs -/

theorem resolveAllocRcs_rcs {db db' : DB R} (h : db'.rcs = db.rcs) : ∀ (l : List AllocReq),
    resolveAllocRcs db' l = resolveAllocRcs db l
  | [] => rfl
  | a :: l => by
    unfold resolveAllocRcs DB.rcId
    rw [h, resolveAllocRcs_rcs h l]

/-- the rows `setAllocations` appends -/
def rowsOf (allocs : List AllocReq) (res : List (Nat × Nat × Int)) : List AllocRow :=
  (allocs.zip res).filterMap (fun (a, r) =>
    if a.used == 0 then none
    else some ({ rp := a.rpId, rc := r.2.1, consumer := a.consUuid, used := a.used } : AllocRow))

theorem runBody_inserts : ∀ (allocs : List AllocReq) (res : List (Nat × Nat × Int)) (s : FS R),
    resolveAllocRcs s.db allocs = .ok res →
    runBody ((allocs.filter (·.used != 0)).map insStmt) s none =
      .done (setAllocsFS s (s.db.allocs ++ rowsOf allocs res))
  | [], res, s, h => by
    simp only [resolveAllocRcs, Except.ok.injEq] at h
    subst h
    simp [rowsOf, setAllocsFS]
  | a :: as, res, s, h => by
    unfold resolveAllocRcs at h
    cases hrc : s.db.rcId a.rcName with
    | none => rw [hrc] at h; cases h
    | some rc =>
      rw [hrc] at h
      cases hres : resolveAllocRcs s.db as with
      | error e => rw [hres] at h; cases h
      | ok res' =>
        rw [hres] at h
        simp only [Except.map, Except.ok.injEq] at h
        subst h
        by_cases hu : a.used = 0
        · have hf : (a.used != 0) = false := by simp [hu]
          rw [List.filter_cons, hf]
          simp only [Bool.false_eq_true, ↓reduceIte]
          rw [runBody_inserts as res' s hres]
          simp [rowsOf, hu]
        · have hf : (a.used != 0) = true := by simp [hu]
          rw [List.filter_cons, hf]
          simp only [↓reduceIte, List.map_cons]
          rw [runBody_cons_none]
          have hst : insStmt a s = .ok (setAllocsFS s (s.db.allocs ++
              [{ rp := a.rpId, rc := rc, consumer := a.consUuid, used := a.used }])) := by
            unfold insStmt; rw [hrc]; rfl
          rw [hst]
          dsimp only
          have hres2 : resolveAllocRcs (setAllocsFS s (s.db.allocs ++
              [{ rp := a.rpId, rc := rc, consumer := a.consUuid, used := a.used }])).db as = .ok res' := by
            rw [← hres]; apply resolveAllocRcs_rcs; rfl
          rw [runBody_inserts as res' _ hres2]
          simp [rowsOf, setAllocsFS, hu]

/-! ### generation increments -/

theorem runBody_rpIncs : ∀ (l : List (Nat × Nat)) (s : FS R) (db' : DB R),
    (l.map (·.1)).Nodup → (∀ p ∈ l, getGen s.rpGen p.1 = p.2) → incRpGens s.db l = .ok db' →
    ∃ m, runBody (l.map rpIncStmt) s none = .done { s with db := db', rpGen := m }
  | [], s, db', _, _, h => by
    simp only [incRpGens, Except.ok.injEq] at h
    subst h
    exact ⟨s.rpGen, by simp⟩
  | (id, gen) :: l, s, db', hn, hg, h => by
    unfold incRpGens at h
    obtain ⟨db1, h1, h2⟩ := bind_ok h
    rw [List.map_cons, List.nodup_cons] at hn
    have hg0 : getGen s.rpGen id = gen := hg (id, gen) List.mem_cons_self
    have hst : rpIncStmt (id, gen) s = .ok { s with db := db1, rpGen := setGen s.rpGen id (gen + 1) } := by
      unfold rpIncStmt
      dsimp only
      rw [hg0, h1]
    have hg' : ∀ p ∈ l, getGen (setGen s.rpGen id (gen + 1)) p.1 = p.2 := by
      intro p hp
      have hne : p.1 ≠ id := fun e => hn.1 (List.mem_map.2 ⟨p, hp, e⟩)
      rw [getGen_setGen_ne id (gen + 1) p.1 hne]
      exact hg p (List.mem_cons_of_mem _ hp)
    obtain ⟨m, hm⟩ := runBody_rpIncs l { s with db := db1, rpGen := setGen s.rpGen id (gen + 1) } db' hn.2 hg' h2
    refine ⟨m, ?_⟩
    rw [List.map_cons, runBody_cons_none, hst]
    exact hm

theorem runBody_consIncs : ∀ (l : List (Nat × Nat)) (s : FS R) (db' : DB R),
    (l.map (·.1)).Nodup → (∀ p ∈ l, getGen s.consGen p.1 = p.2) → incConsGens s.db l = .ok db' →
    ∃ m, runBody (l.map consIncStmt) s none = .done { s with db := db', consGen := m }
  | [], s, db', _, _, h => by
    simp only [incConsGens, Except.ok.injEq] at h
    subst h
    exact ⟨s.consGen, by simp⟩
  | (id, gen) :: l, s, db', hn, hg, h => by
    unfold incConsGens at h
    obtain ⟨db1, h1, h2⟩ := bind_ok h
    rw [List.map_cons, List.nodup_cons] at hn
    have hg0 : getGen s.consGen id = gen := hg (id, gen) List.mem_cons_self
    have hst : consIncStmt (id, gen) s = .ok { s with db := db1, consGen := setGen s.consGen id (gen + 1) } := by
      unfold consIncStmt
      dsimp only
      rw [hg0, h1]
    have hg' : ∀ p ∈ l, getGen (setGen s.consGen id (gen + 1)) p.1 = p.2 := by
      intro p hp
      have hne : p.1 ≠ id := fun e => hn.1 (List.mem_map.2 ⟨p, hp, e⟩)
      rw [getGen_setGen_ne id (gen + 1) p.1 hne]
      exact hg p (List.mem_cons_of_mem _ hp)
    obtain ⟨m, hm⟩ := runBody_consIncs l { s with db := db1, consGen := setGen s.consGen id (gen + 1) } db' hn.2 hg' h2
    refine ⟨m, ?_⟩
    rw [List.map_cons, runBody_cons_none, hst]
    exact hm

/-! ### the whole body -/

theorem deleteConsumersIfNoAllocs_congr (db : DB R) {l l' : List Nat} (h : ∀ u, l.contains u = l'.contains u) :
    deleteConsumersIfNoAllocs db l = deleteConsumersIfNoAllocs db l' := by
  unfold deleteConsumersIfNoAllocs
  dsimp only
  congr 1
  apply List.filter_congr
  intro c _
  rw [h]

theorem contains_filter_eraseDups (l : List Nat) (p : Nat → Bool) (u : Nat) :
    (l.eraseDups.filter p).contains u = (l.filter p).contains u := by
  rw [Bool.eq_iff_iff]
  simp [List.mem_eraseDups]

/-- **`setAllocStmts` without a fault is `setAllocations`** when the provider / consumer objects carry
the generations of the request (`FS.ofRequest`): same database, some object generations -/
theorem runBody_setAllocStmts_ok (allocs : List AllocReq) (s : FS R) (db' : DB R)
    (hr : s.rpGen = rpPairs allocs) (hc : s.consGen = consPairs allocs)
    (h : setAllocations s.db allocs = .ok db') :
    ∃ m c, runBody (setAllocStmts allocs) s none = .done { db := db', rpGen := m, consGen := c } := by
  unfold setAllocations at h
  obtain ⟨_, h1, h⟩ := bind_ok h
  obtain ⟨res, h2, h⟩ := bind_ok h
  obtain ⟨d3, h3, h⟩ := bind_ok h
  obtain ⟨d4, h4, h⟩ := bind_ok h
  simp only [pure, Except.pure, Except.ok.injEq] at h
  rw [setAllocStmts_eq]
  unfold writeStmts genStmts
  -- DELETEs
  have e1 := runBody_dels (R := R) (allocs.map (·.consUuid)).eraseDups s
  have ef : (s.db.allocs.filter (fun a => !(allocs.map (·.consUuid)).eraseDups.contains a.consumer)) =
      s.db.allocs.filter (fun a => !(allocs.map (·.consUuid)).contains a.consumer) := by
    apply List.filter_congr
    intro a _
    rw [contains_eraseDups]
  rw [ef] at e1
  generalize hs1 : setAllocsFS s (s.db.allocs.filter (fun a => !(allocs.map (·.consUuid)).contains a.consumer)) = s1 at e1
  have hdb1 : s1.db = { s.db with allocs := s.db.allocs.filter (fun a => !(allocs.map (·.consUuid)).contains a.consumer) } := by
    subst hs1; rfl
  rw [← hdb1] at h1 h2 h3
  -- check
  have e2 : runBody [checkStmt allocs] s1 none = .done s1 := by
    rw [runBody_cons_none]
    unfold checkStmt
    rw [h1]
    simp
  -- INSERTs
  have e3 := runBody_inserts allocs res s1 h2
  generalize hs2 : setAllocsFS s1 (s1.db.allocs ++ rowsOf allocs res) = s2 at e3
  have hdb2 : s2.db = { s1.db with allocs := s1.db.allocs ++ rowsOf allocs res } := by subst hs2; rfl
  have hr2 : s2.rpGen = rpPairs allocs := by subst hs2; subst hs1; exact hr
  have hc2 : s2.consGen = consPairs allocs := by subst hs2; subst hs1; exact hc
  have h3' : incRpGens s2.db (rpPairs allocs) = .ok d3 := by rw [hdb2]; exact h3
  -- provider generations
  obtain ⟨m, e4⟩ := runBody_rpIncs (rpPairs allocs) s2 d3 (firstByKey_keys_nodup _)
    (fun p hp => by rw [hr2]; exact getGen_of_mem (firstByKey_keys_nodup _) hp) h3'
  -- consumer generations
  obtain ⟨c, e5⟩ := runBody_consIncs (consPairs allocs) { s2 with db := d3, rpGen := m } d4
    (firstByKey_keys_nodup _)
    (fun p hp => by
      show getGen s2.consGen p.1 = p.2
      rw [hc2]; exact getGen_of_mem (firstByKey_keys_nodup _) hp) h4
  refine ⟨m, c, ?_⟩
  rw [runBody_append_done (runBody_append_done (runBody_append_done e1 |>.trans e2) |>.trans e3)]
  rw [runBody_append_done (runBody_append_done e4 |>.trans e5)]
  rw [runBody_cons_none]
  unfold cleanupStmt
  dsimp only
  rw [runBody_nil]
  congr 2
  rw [← h]
  exact deleteConsumersIfNoAllocs_congr _ (contains_filter_eraseDups _ _)

/-! ### the main transaction of `PUT /allocations/{c}` without a fault -/

/-- the state `_set_allocations` starts from: `update_consumers` applied, objects as the request read them -/
def preState (db : DB R) (cons : ConsRow) (attr : ReqAttr) (allocs : List AllocReq) : FS R :=
  { FS.ofRequest db allocs with db := updateConsumer db cons attr }

theorem mainTxn_none (db : DB R) (cons : ConsRow) (attr : ReqAttr) (allocs : List AllocReq) :
    mainTxnWithFault db cons attr allocs none =
      finishOuter (FS.ofRequest db allocs)
        (reloadLoop db (setAllocStmts allocs) retryCount (preState db cons attr allocs)) := by
  unfold mainTxnWithFault finishOuter
  dsimp only
  generalize h : reloadLoop db (setAllocStmts allocs) retryCount _ = o
  have h' : reloadLoop db (setAllocStmts allocs) retryCount (preState db cons attr allocs) = o := h
  rw [h']
  cases o <;> rfl

theorem reloadLoop_done {committed : DB R} {body : List (Stmt (FS R))} {n : Nat} {s s' : FS R}
    (h : runBody body s none = .done s') : reloadLoop committed body (n + 1) s = .done s' := by
  unfold reloadLoop
  rw [h]

/-- **the fault-free run is the sequential handler's main transaction**: when `setAllocations` after
`updateConsumer` succeeds, so does the statement-level run (at the first attempt), with the same database -/
theorem mainTxn_faultfree_ok (db : DB R) (cons : ConsRow) (attr : ReqAttr) (allocs : List AllocReq) (db' : DB R)
    (h : setAllocations (updateConsumer db cons attr) allocs = .ok db') :
    (mainTxnWithFault db cons attr allocs none).state.db = db' ∧
    (mainTxnWithFault db cons attr allocs none).error = none ∧
    (mainTxnWithFault db cons attr allocs none).faulted = false := by
  obtain ⟨m, c, e⟩ := runBody_setAllocStmts_ok allocs (preState db cons attr allocs) db' rfl rfl h
  rw [mainTxn_none, show retryCount = 9 + 1 from rfl, reloadLoop_done e]
  exact ⟨rfl, rfl, rfl⟩

end Placement.FaultL
