import Placement.Lemmas.GenAlloc
/-
  C10, part 4: a request answered with an error (status >= 400) leaves the provider table and the
  consumer table exactly as they were (a consumer record created on the way is removed again).
-/
namespace Placement.Gens
open Placement.Hier
variable {R : Type}
set_option linter.unusedSectionVars false
set_option linter.unusedSimpArgs false

/-- removing the rows created by this request gives back the table the request started with -/
theorem filter_created {base extra : List ConsRow} {n0 : Nat} (hb : ∀ b ∈ base, b.id < n0)
    (he : ∀ e ∈ extra, n0 ≤ e.id) :
    (base ++ extra).filter (fun c => !(extra.map (·.id)).contains c.id) = base := by
  rw [List.filter_append]
  have h1 : base.filter (fun c => !(extra.map (·.id)).contains c.id) = base := by
    rw [List.filter_eq_self]
    intro b hbm
    cases hc : (extra.map (·.id)).contains b.id with
    | false => rfl
    | true =>
      obtain ⟨e, hem, heid⟩ := List.mem_map.mp (List.contains_iff_mem.mp hc)
      have := hb b hbm; have := he e hem; omega
  have h2 : extra.filter (fun c => !(extra.map (·.id)).contains c.id) = [] := by
    rw [List.filter_eq_nil_iff]
    intro e hem
    have : (extra.map (·.id)).contains e.id = true := List.contains_iff_mem.mpr (List.mem_map.mpr ⟨e, hem, rfl⟩)
    rw [this]; decide
  rw [h1, h2, List.append_nil]

/-- the consumer table while `inspect_consumers` runs: the table at the start plus the rows created
so far (`created` lists their ids), all with fresh ids -/
def ExtC (base : List ConsRow) (n0 : Nat) (db : DB R) (created : List Nat) : Prop :=
  n0 ≤ db.nextCons ∧
  ∃ extra, db.consumers = base ++ extra ∧ created = extra.map (·.id) ∧ ∀ e ∈ extra, n0 ≤ e.id

theorem ExtC.delete {base : List ConsRow} {n0 : Nat} {db : DB R} {created : List Nat}
    (h : ExtC base n0 db created) (hb : ∀ b ∈ base, b.id < n0) :
    (deleteConsumerRows db created).consumers = base := by
  obtain ⟨-, extra, hc, rfl, he⟩ := h
  simp only [deleteConsumerRows, hc]
  exact filter_created hb he

theorem inspectConsumers_ext (cfg : Config) (mv : Nat) (base : List ConsRow) (n0 : Nat)
    (hb : ∀ b ∈ base, b.id < n0) :
    ∀ (cs : List ConsumerReq) (db : DB R) acc created, ExtC base n0 db created →
      (inspectConsumers cfg mv db cs acc created).1.rps = db.rps ∧
      match (inspectConsumers cfg mv db cs acc created).2 with
      | .error _ => (inspectConsumers cfg mv db cs acc created).1.consumers = base
      | .ok (_, created') => ExtC base n0 (inspectConsumers cfg mv db cs acc created).1 created'
  | [], db, acc, created, h => by unfold inspectConsumers; exact ⟨rfl, h⟩
  | c :: cs, db, acc, created, h => by
    have hspec := ensureConsumer_spec cfg db mv c
    unfold inspectConsumers
    split
    · rename_i db1 r heq
      rw [heq] at hspec
      rcases hspec with ⟨hg, -⟩ | ⟨-, _, _, hok, -⟩
      · dsimp only
        have h1 : ExtC base n0 db1 created := by
          obtain ⟨hn, extra, hc, hcr, he⟩ := h
          exact ⟨by rw [show db1.nextCons = db.nextCons from congrArg GCore.nextCons hg]; exact hn,
                 extra, by rw [show db1.consumers = db.consumers from congrArg GCore.consumers hg]; exact hc, hcr, he⟩
        exact ⟨congrArg GCore.rps hg, h1.delete hb⟩
      · cases hok
    · rename_i db1 cons isNew attr heq
      rw [heq] at hspec
      have h1 : db1.rps = db.rps ∧ ExtC base n0 db1 (if isNew then created ++ [cons.id] else created) := by
        rcases hspec with ⟨hg, hok⟩ | ⟨-, row, attr', hok, hid, -, -, hg⟩
        · obtain ⟨rfl, -⟩ := hok cons isNew attr rfl
          obtain ⟨hn, extra, hc, hcr, he⟩ := h
          exact ⟨congrArg GCore.rps hg,
                 by rw [show db1.nextCons = db.nextCons from congrArg GCore.nextCons hg]; exact hn,
                 extra, by rw [show db1.consumers = db.consumers from congrArg GCore.consumers hg]; exact hc,
                 by simpa using hcr, he⟩
        · simp only [Except.ok.injEq, Prod.mk.injEq] at hok
          obtain ⟨rfl, rfl, -⟩ := hok
          obtain ⟨hn, extra, hc, hcr, he⟩ := h
          refine ⟨congrArg GCore.rps hg, ?_, extra ++ [cons], ?_, ?_, ?_⟩
          · rw [show db1.nextCons = db.nextCons + 1 from congrArg GCore.nextCons hg]; omega
          · rw [show db1.consumers = db.consumers ++ [cons] from congrArg GCore.consumers hg, hc,
              List.append_assoc]
          · simp [hcr]
          · intro e hem
            rcases List.mem_append.mp hem with h2 | h2
            · exact he e h2
            · rw [List.mem_singleton.mp h2, hid]; exact hn
      have ih := inspectConsumers_ext cfg mv base n0 hb cs db1 (acc ++ [(c, cons, attr)])
        (if isNew then created ++ [cons.id] else created) h1.2
      exact ⟨ih.1.trans h1.1, ih.2⟩

theorem updateConsumers_rps : ∀ (l : List (ConsumerReq × ConsRow × ReqAttr)) (db : DB R),
    (updateConsumers db l).rps = db.rps
  | [], _ => rfl
  | (_, cons, attr) :: rest, db => by
    rw [updateConsumers, updateConsumers_rps rest]
    obtain ⟨f, -, hg⟩ := updateConsumer_spec db cons attr
    exact congrArg GCore.rps hg

variable [CapOps R]

section handlers
variable {db : DB R} (hI : Ids db.gcore)
include hI

theorem hRpCreate_err {mv uuid name : Nat} {parent : Option Nat}
    (h : 400 ≤ (hRpCreate db mv uuid name parent).2.status) : (hRpCreate db mv uuid name parent).1 = db := by
  revert h
  unfold hRpCreate
  repeat' split
  all_goals first | (intro _; rfl) | (intro h; simp [r200, r201] at h)

theorem hRpUpdate_err {mv uuid name : Nat} {parent : Option (Option Nat)}
    (h : 400 ≤ (hRpUpdate db mv uuid name parent).2.status) : (hRpUpdate db mv uuid name parent).1 = db := by
  revert h
  unfold hRpUpdate
  dsimp only
  repeat' split
  all_goals first | (intro _; rfl) | (intro h; simp [r200, r201] at h)

theorem hRpDelete_err {uuid : Nat} (h : 400 ≤ (hRpDelete db uuid).2.status) : (hRpDelete db uuid).1 = db := by
  revert h
  unfold hRpDelete
  repeat' split
  all_goals first | (intro _; rfl) | (intro h; simp [r204] at h)

theorem hAllocDelete_err {c : Nat} (h : 400 ≤ (hAllocDelete db c).2.status) : (hAllocDelete db c).1 = db := by
  revert h
  unfold hAllocDelete
  split
  · intro h; simp [r204] at h
  · intro _; rfl

theorem hAllocPut_err (cfg : Config) {mv : Nat} {c : ConsumerReq} (h : 400 ≤ (hAllocPut cfg db mv c).2.status) :
    (hAllocPut cfg db mv c).1.rps = db.rps ∧ (hAllocPut cfg db mv c).1.consumers = db.consumers := by
  rcases hAllocPut_cases cfg db mv c with ⟨_, _, _, _, _, _, -, -, -, hres⟩ | ⟨-, hc⟩
  · rw [hres] at h; simp [r204] at h
  · rcases hc with h1 | ⟨r, herr, h1⟩ | ⟨cons, created, attr, hok, h1⟩
    · rw [h1]; exact ⟨rfl, rfl⟩
    · rw [h1]
      have hg := (ensureConsumer_err herr).2
      exact ⟨congrArg GCore.rps hg, congrArg GCore.consumers hg⟩
    · rw [h1]
      rcases ensureConsumer_spec cfg db mv c with ⟨hg, hf⟩ | ⟨-, row, attr', hok', hid, -, -, hg⟩
      · obtain ⟨rfl, -⟩ := hf cons created attr hok
        exact ⟨congrArg GCore.rps hg, congrArg GCore.consumers hg⟩
      · rw [hok'] at hok
        simp only [Except.ok.injEq, Prod.mk.injEq] at hok
        obtain ⟨rfl, rfl, -⟩ := hok
        refine ⟨congrArg GCore.rps hg, ?_⟩
        have hc : (ensureConsumer cfg db mv c).1.consumers = db.consumers ++ [row] := congrArg GCore.consumers hg
        simp only [↓reduceIte, deleteConsumerRows, hc]
        exact filter_created (extra := [row]) (n0 := db.nextCons) hI.consFresh
          (fun e he => by rw [List.mem_singleton.mp he, hid]; exact Nat.le_refl _)

theorem hAllocPost_err (cfg : Config) {mv : Nat} {cs : List ConsumerReq}
    (h : 400 ≤ (hAllocPost cfg db mv cs).2.status) :
    (hAllocPost cfg db mv cs).1.rps = db.rps ∧ (hAllocPost cfg db mv cs).1.consumers = db.consumers := by
  have hext := inspectConsumers_ext cfg mv db.consumers db.nextCons hI.consFresh cs db [] []
    ⟨Nat.le_refl _, [], by simp, rfl, by simp⟩
  revert h
  unfold hAllocPost
  split
  · intro _; exact ⟨rfl, rfl⟩
  · split
    · rename_i db1 r heq
      rw [heq] at hext
      intro _; exact hext
    · rename_i db1 triples created heq
      rw [heq] at hext
      obtain ⟨hr, he⟩ := hext
      dsimp only at hr he
      split
      · intro _; exact ⟨hr, he.delete hI.consFresh⟩
      · dsimp only
        split
        · intro h; simp [r204] at h
        · intro _; exact ⟨hr, he.delete hI.consFresh⟩

theorem hReshape_err (cfg : Config) {mv : Nat} {invs : List (RpInvReq R)} {cs : List ConsumerReq}
    (h : 400 ≤ (hReshape cfg db mv invs cs).2.status) :
    (hReshape cfg db mv invs cs).1.rps = db.rps ∧ (hReshape cfg db mv invs cs).1.consumers = db.consumers := by
  have hext := inspectConsumers_ext cfg mv db.consumers db.nextCons hI.consFresh cs db [] []
    ⟨Nat.le_refl _, [], by simp, rfl, by simp⟩
  revert h
  unfold hReshape
  split
  · intro _; exact ⟨rfl, rfl⟩
  · split
    · intro _; exact ⟨rfl, rfl⟩
    · split
      · rename_i db1 r heq
        rw [heq] at hext
        intro _; exact hext
      · rename_i db1 triples created heq
        rw [heq] at hext
        obtain ⟨hr, he⟩ := hext
        dsimp only at hr he
        split
        · intro _; exact ⟨hr, he.delete hI.consFresh⟩
        · dsimp only
          split
          · intro h; simp [r204] at h
          · intro _; exact ⟨hr, he.delete hI.consFresh⟩

end handlers

theorem eq_of_gcore {a b : DB R} (h : a.gcore = b.gcore) : a.rps = b.rps ∧ a.consumers = b.consumers :=
  ⟨congrArg GCore.rps h, congrArg GCore.consumers h⟩

theorem left_400 {P : Prop} {r : Resp} {s : Nat} (hs : r.status = s) (hlt : s < 400) (h : 400 ≤ r.status) : P := by
  omega

/-- A request answered with an error changes neither the provider table nor the consumer table. -/
theorem step_error_keeps (cfg : Config) {db : DB R} (hI : Ids db.gcore) (op : Op R)
    (h : 400 ≤ (step cfg db op).2.status) :
    (step cfg db op).1.rps = db.rps ∧ (step cfg db op).1.consumers = db.consumers := by
  cases op with
  | rpCreate mv u n p => have := hRpCreate_err hI h; exact ⟨congrArg DB.rps this, congrArg DB.consumers this⟩
  | rpUpdate mv u n p => have := hRpUpdate_err hI h; exact ⟨congrArg DB.rps this, congrArg DB.consumers this⟩
  | rpDelete u => have := hRpDelete_err hI h; exact ⟨congrArg DB.rps this, congrArg DB.consumers this⟩
  | invSet mv u g is =>
    rcases hInvSet_cases db mv u g is with ⟨_, _, -, -, -, hres⟩ | ⟨h1, -⟩
    · exact left_400 (s := 200) (by show (hInvSet db mv u g is).2.status = 200; rw [hres]; rfl) (by decide) h
    · exact ⟨congrArg DB.rps h1, congrArg DB.consumers h1⟩
  | invAdd mv u i =>
    rcases hInvAdd_cases db mv u i with ⟨_, _, -, -, hres⟩ | ⟨h1, -⟩
    · exact left_400 (s := 201) (by show (hInvAdd db mv u i).2.status = 201; rw [hres]; rfl) (by decide) h
    · exact ⟨congrArg DB.rps h1, congrArg DB.consumers h1⟩
  | invUpdate mv u g i =>
    rcases hInvUpdate_cases db mv u g i with ⟨_, _, -, -, -, hres⟩ | ⟨h1, -⟩
    · exact left_400 (s := 200) (by show (hInvUpdate db mv u g i).2.status = 200; rw [hres]; rfl) (by decide) h
    · exact ⟨congrArg DB.rps h1, congrArg DB.consumers h1⟩
  | invDelete u rc =>
    rcases hInvDelete_cases db u rc with ⟨_, _, -, -, hres⟩ | ⟨h1, -⟩
    · exact left_400 (s := 204) (by show (hInvDelete db u rc).2.status = 204; rw [hres]; rfl) (by decide) h
    · exact ⟨congrArg DB.rps h1, congrArg DB.consumers h1⟩
  | invDeleteAll mv u =>
    rcases hInvDeleteAll_cases db mv u with ⟨_, _, -, -, hres⟩ | ⟨h1, -⟩
    · exact left_400 (s := 204) (by show (hInvDeleteAll db mv u).2.status = 204; rw [hres]; rfl) (by decide) h
    · exact ⟨congrArg DB.rps h1, congrArg DB.consumers h1⟩
  | traitPut n => exact eq_of_gcore (by
      show (hTraitPut db n).1.gcore = db.gcore
      unfold hTraitPut; repeat' split
      all_goals first | rfl | exact createTrait_gcore (by assumption))
  | traitDelete n => exact eq_of_gcore (by
      show (hTraitDelete db n).1.gcore = db.gcore
      unfold hTraitDelete; repeat' split
      all_goals first | rfl | exact deleteTrait_gcore (by assumption))
  | rpTraitsSet u g ts =>
    rcases hRpTraitsSet_cases db u g ts with ⟨_, _, -, -, -, hres⟩ | ⟨h1, -⟩
    · exact left_400 (s := 200) (by show (hRpTraitsSet db u g ts).2.status = 200; rw [hres]; rfl) (by decide) h
    · exact ⟨congrArg DB.rps h1, congrArg DB.consumers h1⟩
  | rpTraitsDelete u =>
    rcases hRpTraitsDelete_cases db u with ⟨_, _, -, -, hres⟩ | ⟨h1, -⟩
    · exact left_400 (s := 204) (by show (hRpTraitsDelete db u).2.status = 204; rw [hres]; rfl) (by decide) h
    · exact ⟨congrArg DB.rps h1, congrArg DB.consumers h1⟩
  | rcPost n => exact eq_of_gcore (by
      show (hRcPost db n).1.gcore = db.gcore
      unfold hRcPost; repeat' split
      all_goals first | rfl | exact createRc_gcore (by assumption))
  | rcPut n => exact eq_of_gcore (by
      show (hRcPut db n).1.gcore = db.gcore
      unfold hRcPut; repeat' split
      all_goals first | rfl | exact createRc_gcore (by assumption))
  | rcRename o n => exact eq_of_gcore (by
      show (hRcRename db o n).1.gcore = db.gcore
      unfold hRcRename; repeat' split
      all_goals first | rfl | exact renameRc_gcore (by assumption))
  | rcDelete n => exact eq_of_gcore (by
      show (hRcDelete db n).1.gcore = db.gcore
      unfold hRcDelete; repeat' split
      all_goals first | rfl | exact deleteRc_gcore (by assumption))
  | aggsSet mv u g as =>
    rcases hAggsSet_cases db mv u g as with ⟨_, _, -, -, -, hres⟩ | ⟨h1, -⟩
    · exact left_400 (s := 200) (by show (hAggsSet db mv u g as).2.status = 200; rw [hres]; rfl) (by decide) h
    · exact ⟨congrArg DB.rps h1, congrArg DB.consumers h1⟩
  | allocPut mv c => exact hAllocPut_err hI cfg h
  | allocPost mv cs => exact hAllocPost_err hI cfg h
  | allocDelete c => have := hAllocDelete_err hI h; exact ⟨congrArg DB.rps this, congrArg DB.consumers this⟩
  | reshape mv invs cs => exact hReshape_err hI cfg h

end Placement.Gens
