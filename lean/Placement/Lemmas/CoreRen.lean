import Placement.Lemmas.CoreSideH
/-
  C11, history theorem, part 3: two states that agree on everything but the consumer-side name
  registries, the fresh consumer id and the INTERNAL ids of the consumer rows (`Sim ρ dom a b`: the
  consumer rows of `b` are those of `a` with ids renamed by `ρ`, injective on `dom`) are treated alike
  by the object-layer functions that read or write the consumer table.
-/
namespace Placement.Core
variable {R : Type}
set_option linter.unusedSimpArgs false
set_option linter.unusedSectionVars false
set_option linter.unusedVariables false

def renC (ρ : Nat → Nat) (c : ConsRow) : ConsRow := { c with id := ρ c.id }
def renO (ρ : Nat → Nat) (o : AllocReq) : AllocReq := { o with consId := ρ o.consId }
def renT (ρ : Nat → Nat) (t : ConsumerReq × ConsRow × ReqAttr) : ConsumerReq × ConsRow × ReqAttr :=
  (t.1, renC ρ t.2.1, t.2.2)
def renK (ρ : Nat → Nat) (p : Nat × Nat) : Nat × Nat := (ρ p.1, p.2)

def InjOn (ρ : Nat → Nat) (dom : List Nat) : Prop := ∀ i ∈ dom, ∀ j ∈ dom, ρ i = ρ j → i = j

theorem InjOn.beq {ρ : Nat → Nat} {dom : List Nat} (h : InjOn ρ dom) {i j : Nat} (hi : i ∈ dom) (hj : j ∈ dom) :
    (ρ i == ρ j) = (i == j) := by
  by_cases e : i = j
  · subst e; simp
  · have : ρ i ≠ ρ j := fun e2 => e (h i hi j hj e2)
    rw [beq_eq_false_iff_ne.mpr this, beq_eq_false_iff_ne.mpr e]

theorem InjOn.contains {ρ : Nat → Nat} {dom : List Nat} (h : InjOn ρ dom) {i : Nat} {l : List Nat}
    (hi : i ∈ dom) (hl : ∀ j ∈ l, j ∈ dom) : (l.map ρ).contains (ρ i) = l.contains i := by
  induction l with
  | nil => rfl
  | cons j l ih =>
    simp only [List.map_cons, List.contains_cons]
    rw [h.beq hi (hl j (List.mem_cons_self ..)), ih (fun k hk => hl k (List.mem_cons_of_mem _ hk))]

/-- relation between two results of an object-layer function -/
def RelE {α β ε : Type} (P : α → β → Prop) : Except ε α → Except ε β → Prop
  | .ok a, .ok b => P a b
  | .error e, .error e' => e = e'
  | _, _ => False

structure Sim (ρ : Nat → Nat) (dom : List Nat) (a b : DB R) : Prop where
  rest : rest b = rest a
  cons : b.consumers = a.consumers.map (renC ρ)
  ids : ∀ c ∈ a.consumers, c.id ∈ dom

theorem eq_putSide_of_rest {a b : DB R} (h : rest b = rest a) : b = putSide (side b) a := by
  simp only [Core.rest, RestState.mk.injEq] at h
  obtain ⟨e1, e2, e3, e4, e5, e6, e7, e8, e9⟩ := h
  cases b; cases a
  simp only at e1 e2 e3 e4 e5 e6 e7 e8 e9
  simp only [putSide, side, e1, e2, e3, e4, e5, e6, e7, e8, e9]

theorem putSide_self (a : DB R) : putSide (side a) a = a := rfl

section fields
variable {ρ : Nat → Nat} {dom : List Nat} {a b : DB R} (h : Sim ρ dom a b)
include h
theorem Sim.rps : b.rps = a.rps := congrArg RestState.rps h.rest
theorem Sim.invs : b.invs = a.invs := congrArg RestState.invs h.rest
theorem Sim.allocs : b.allocs = a.allocs := congrArg RestState.allocs h.rest
theorem Sim.rcs : b.rcs = a.rcs := congrArg RestState.rcs h.rest
theorem Sim.rpById (i : Nat) : b.rpById i = a.rpById i := by unfold DB.rpById; rw [h.rps]
theorem Sim.rpByUuid (i : Nat) : b.rpByUuid i = a.rpByUuid i := by unfold DB.rpByUuid; rw [h.rps]
theorem Sim.rcName (i : Nat) : b.rcName i = a.rcName i := by unfold DB.rcName; rw [h.rcs]
theorem Sim.consByUuid (u : Nat) : b.consByUuid u = (a.consByUuid u).map (renC ρ) := by
  unfold DB.consByUuid
  rw [h.cons, List.find?_map]
  rfl
end fields

/-- functions that commute with replacing the consumer-side columns respect `Sim` -/
theorem Sim.side_fn {ρ : Nat → Nat} {dom : List Nat} {a b : DB R} (h : Sim ρ dom a b)
    (F : DB R → Except Exc (DB R)) (hF : ∀ s db, F (putSide s db) = (F db).map (putSide s)) :
    RelE (Sim ρ dom) (F a) (F b) := by
  have hb := eq_putSide_of_rest h.rest
  have ha := hF (side a) a
  rw [putSide_self] at ha
  rw [hb, hF]
  cases hfa : F a with
  | error e => exact rfl
  | ok a' =>
    rw [hfa] at ha
    simp only [map_ok, Except.ok.injEq] at ha
    have hc : a'.consumers = a.consumers := by rw [ha]; rfl
    exact ⟨rfl, by show b.consumers = _; rw [hc]; exact h.cons, by rw [hc]; exact h.ids⟩

/-- a row-wise change of the consumer table that commutes with the renaming -/
theorem Sim.mapCons {ρ : Nat → Nat} {dom : List Nat} {a b : DB R} (h : Sim ρ dom a b) (ga gb : ConsRow → ConsRow)
    (hid : ∀ c, (ga c).id = c.id) (hcomm : ∀ c ∈ a.consumers, gb (renC ρ c) = renC ρ (ga c)) :
    Sim ρ dom { a with consumers := a.consumers.map ga } { b with consumers := b.consumers.map gb } := by
  refine ⟨h.rest, ?_, ?_⟩
  · show b.consumers.map gb = (a.consumers.map ga).map (renC ρ)
    rw [h.cons, List.map_map, List.map_map]
    exact List.map_congr_left (fun c hc => hcomm c hc)
  · intro c hc
    obtain ⟨c0, hc0, rfl⟩ := List.mem_map.mp hc
    rw [hid]; exact h.ids c0 hc0

/-- a removal of consumer rows by predicates that agree up to the renaming -/
theorem Sim.filterCons {ρ : Nat → Nat} {dom : List Nat} {a b : DB R} (h : Sim ρ dom a b) (pa pb : ConsRow → Bool)
    (hcomm : ∀ c ∈ a.consumers, pb (renC ρ c) = pa c) :
    Sim ρ dom { a with consumers := a.consumers.filter pa } { b with consumers := b.consumers.filter pb } := by
  refine ⟨h.rest, ?_, ?_⟩
  · show b.consumers.filter pb = (a.consumers.filter pa).map (renC ρ)
    rw [h.cons, List.filter_map]
    congr 1
    exact List.filter_congr (fun c hc => hcomm c hc)
  · intro c hc
    exact h.ids c (List.mem_filter.mp hc).1

theorem filterMap_congr_mem {α β : Type} {f g : α → Option β} : ∀ {l : List α}, (∀ x ∈ l, f x = g x) →
    l.filterMap f = l.filterMap g
  | [], _ => rfl
  | x :: l, h => by
    simp only [List.filterMap_cons, h x (List.mem_cons_self ..)]
    rw [filterMap_congr_mem (fun y hy => h y (List.mem_cons_of_mem _ hy))]

theorem find?_congr_mem {α : Type} {p q : α → Bool} : ∀ {l : List α}, (∀ x ∈ l, p x = q x) →
    l.find? p = l.find? q
  | [], _ => rfl
  | x :: l, h => by
    simp only [List.find?_cons, h x (List.mem_cons_self ..)]
    rw [find?_congr_mem (fun y hy => h y (List.mem_cons_of_mem _ hy))]

/-! ### consumer generations -/

theorem incConsGen_sim {ρ : Nat → Nat} {dom : List Nat} {a b : DB R} (h : Sim ρ dom a b) (hinj : InjOn ρ dom)
    {id : Nat} (hid : id ∈ dom) (gen : Nat) :
    RelE (Sim ρ dom) (incConsGen a id gen) (incConsGen b (ρ id) gen) := by
  unfold incConsGen
  have hf : b.consumers.find? (fun c => c.id == ρ id && c.gen == gen) =
      (a.consumers.find? (fun c => c.id == id && c.gen == gen)).map (renC ρ) := by
    rw [h.cons, List.find?_map]
    congr 1
    apply find?_congr_mem
    intro c hc
    show ((ρ c.id == ρ id) && (c.gen == gen)) = _
    rw [hinj.beq (h.ids c hc) hid]
  rw [hf]
  cases a.consumers.find? (fun c => c.id == id && c.gen == gen) with
  | none => exact rfl
  | some c0 =>
    exact h.mapCons _ _ (fun c => by split <;> rfl) (fun c hc => by
      show (if (ρ c.id == ρ id) = true then _ else _) = _
      rw [hinj.beq (h.ids c hc) hid]
      split <;> rfl)

theorem incConsGens_sim {ρ : Nat → Nat} {dom : List Nat} (hinj : InjOn ρ dom) :
    ∀ (l : List (Nat × Nat)) {a b : DB R}, Sim ρ dom a b → (∀ p ∈ l, p.1 ∈ dom) →
      RelE (Sim ρ dom) (incConsGens a l) (incConsGens b (l.map (renK ρ)))
  | [], a, b, h, _ => h
  | (id, gen) :: rest, a, b, h, hl => by
    have h1 := incConsGen_sim h hinj (hl (id, gen) (List.mem_cons_self ..)) gen
    simp only [List.map_cons, renK, incConsGens, bind, Except.bind]
    cases ha : incConsGen a id gen with
    | error e =>
      rw [ha] at h1
      cases hb : incConsGen b (ρ id) gen with
      | error e' => rw [hb] at h1; exact h1
      | ok b' => rw [hb] at h1; exact h1.elim
    | ok a' =>
      rw [ha] at h1
      cases hb : incConsGen b (ρ id) gen with
      | error e' => rw [hb] at h1; exact h1.elim
      | ok b' =>
        rw [hb] at h1
        exact incConsGens_sim hinj rest h1 (fun p hp => hl p (List.mem_cons_of_mem _ hp))

theorem firstByKey_sub : ∀ (l : List (Nat × Nat)) p, p ∈ firstByKey l → p ∈ l
  | [], _, h => by simp [firstByKey] at h
  | (k, v) :: rest, p, h => by
    simp only [firstByKey, List.mem_cons] at h
    rcases h with rfl | h
    · exact List.mem_cons_self ..
    · exact List.mem_cons_of_mem _ (firstByKey_sub rest p (List.mem_filter.mp h).1)

theorem firstByKey_ren {ρ : Nat → Nat} {dom : List Nat} (hinj : InjOn ρ dom) :
    ∀ (l : List (Nat × Nat)), (∀ p ∈ l, p.1 ∈ dom) →
      firstByKey (l.map (renK ρ)) = (firstByKey l).map (renK ρ)
  | [], _ => rfl
  | (k, v) :: rest, hl => by
    have hk : k ∈ dom := hl (k, v) (List.mem_cons_self ..)
    have hrest : ∀ p ∈ rest, p.1 ∈ dom := fun p hp => hl p (List.mem_cons_of_mem _ hp)
    have ih := firstByKey_ren hinj rest hrest
    show (ρ k, v) :: (firstByKey (rest.map (renK ρ))).filter (fun p => p.1 != ρ k) =
      (ρ k, v) :: ((firstByKey rest).filter (fun p => p.1 != k)).map (renK ρ)
    congr 1
    rw [ih, List.filter_map]
    congr 1
    apply List.filter_congr
    intro p hp
    have hp' := hrest p (firstByKey_sub rest p hp)
    show (ρ p.1 != ρ k) = (p.1 != k)
    simp only [bne, hinj.beq hp' hk]

/-! ### removal of consumer rows -/

theorem deleteConsumersIfNoAllocs_sim {ρ : Nat → Nat} {dom : List Nat} {a b : DB R} (h : Sim ρ dom a b)
    (uuids : List Nat) : Sim ρ dom (deleteConsumersIfNoAllocs a uuids) (deleteConsumersIfNoAllocs b uuids) := by
  unfold deleteConsumersIfNoAllocs
  exact h.filterCons _ _ (fun c _ => by rw [h.allocs]; rfl)

theorem deleteConsumerRows_sim {ρ : Nat → Nat} {dom : List Nat} {a b : DB R} (h : Sim ρ dom a b)
    (hinj : InjOn ρ dom) {ids : List Nat} (hids : ∀ i ∈ ids, i ∈ dom) :
    Sim ρ dom (deleteConsumerRows a ids) (deleteConsumerRows b (ids.map ρ)) := by
  unfold deleteConsumerRows
  exact h.filterCons _ _ (fun c hc => by
    show (!(ids.map ρ).contains (ρ c.id)) = _
    rw [hinj.contains (h.ids c hc) hids])

/-! ### `update_consumers` -/

theorem updCons_sim {ρ : Nat → Nat} {dom : List Nat} {a b : DB R} (h : Sim ρ dom a b) (hinj : InjOn ρ dom)
    {cons : ConsRow} (hid : cons.id ∈ dom) (p u : Nat) (t : Option Nat) :
    Sim ρ dom (Gens.updCons cons p u t a) (Gens.updCons (renC ρ cons) p u t b) := by
  unfold Gens.updCons
  exact h.mapCons _ _ (fun c => by split <;> rfl) (fun c hc => by
    show (if ((ρ c.id == ρ cons.id) && (c.gen == cons.gen)) = true then _ else _) = _
    rw [hinj.beq (h.ids c hc) hid]
    split <;> rfl)

theorem updateConsumer_eq (db : DB R) (cons : ConsRow) (a : ReqAttr) :
    updateConsumer db cons a =
      (let db1 := if a.project != cons.project || a.user != cons.user
                  then Gens.updCons cons a.project a.user cons.ctype db else db
       match a.ctype with
       | some t => if some t != cons.ctype then Gens.updCons cons a.project a.user (some t) db1 else db1
       | none => db1) := rfl

theorem updateConsumer_sim {ρ : Nat → Nat} {dom : List Nat} {a b : DB R} (h : Sim ρ dom a b) (hinj : InjOn ρ dom)
    {cons : ConsRow} (hid : cons.id ∈ dom) (attr : ReqAttr) :
    Sim ρ dom (updateConsumer a cons attr) (updateConsumer b (renC ρ cons) attr) := by
  rw [updateConsumer_eq, updateConsumer_eq]
  have h1 : Sim ρ dom
      (if attr.project != cons.project || attr.user != cons.user
        then Gens.updCons cons attr.project attr.user cons.ctype a else a)
      (if attr.project != (renC ρ cons).project || attr.user != (renC ρ cons).user
        then Gens.updCons (renC ρ cons) attr.project attr.user (renC ρ cons).ctype b else b) := by
    show Sim ρ dom _ (if attr.project != cons.project || attr.user != cons.user
        then Gens.updCons (renC ρ cons) attr.project attr.user cons.ctype b else b)
    split
    · exact updCons_sim h hinj hid _ _ _
    · exact h
  dsimp only
  cases attr.ctype with
  | none => exact h1
  | some t =>
    show Sim ρ dom (if some t != cons.ctype then _ else _) (if some t != cons.ctype then _ else _)
    split
    · exact updCons_sim h1 hinj hid _ _ _
    · exact h1

theorem updateConsumers_sim {ρ : Nat → Nat} {dom : List Nat} (hinj : InjOn ρ dom) :
    ∀ (l : List (ConsumerReq × ConsRow × ReqAttr)) {a b : DB R}, Sim ρ dom a b → (∀ t ∈ l, t.2.1.id ∈ dom) →
      Sim ρ dom (updateConsumers a l) (updateConsumers b (l.map (renT ρ)))
  | [], _, _, h, _ => h
  | (c, cons, attr) :: rest, a, b, h, hl => by
    simp only [List.map_cons, renT, updateConsumers]
    exact updateConsumers_sim hinj rest
      (updateConsumer_sim h hinj (hl (c, cons, attr) (List.mem_cons_self ..)) attr)
      (fun t ht => hl t (List.mem_cons_of_mem _ ht))

/-! ### allocation objects -/

theorem allocObjects_sim {ρ : Nat → Nat} {dom : List Nat} {a b : DB R} (h : Sim ρ dom a b) (cons : ConsRow)
    (c : ConsumerReq) :
    allocObjects b (renC ρ cons) c = (allocObjects a cons c).map (List.map (renO ρ)) := by
  unfold allocObjects
  split
  · show (match b.consByUuid cons.uuid with | none => _ | some cur => _) = _
    rw [h.consByUuid, h.allocs]
    cases a.consByUuid cons.uuid with
    | none => rfl
    | some cur =>
      simp only [Option.map_some, map_ok, List.map_filterMap]
      congr 1
      apply filterMap_congr_mem
      intro x _
      rw [h.rpById, h.rcName]
      cases a.rpById x.rp <;> cases a.rcName x.rc <;> rfl
  · have : (fun x : Nat × Nat × Int => (b.rpByUuid x.1).isNone) = (fun x => (a.rpByUuid x.1).isNone) :=
      funext (fun x => by rw [h.rpByUuid])
    rw [this]
    split
    · rfl
    · simp only [map_ok, List.map_filterMap]
      congr 1
      apply filterMap_congr_mem
      intro x _
      rw [h.rpByUuid]
      cases a.rpByUuid x.1 <;> rfl

theorem allocObjectsAll_sim {ρ : Nat → Nat} {dom : List Nat} {a b : DB R} (h : Sim ρ dom a b) :
    ∀ (l : List (ConsumerReq × ConsRow × ReqAttr)),
      allocObjectsAll b (l.map (renT ρ)) = (allocObjectsAll a l).map (List.map (renO ρ))
  | [] => rfl
  | (c, cons, attr) :: rest => by
    simp only [List.map_cons, renT, allocObjectsAll, bind, Except.bind, allocObjects_sim h,
      allocObjectsAll_sim h rest]
    cases allocObjects a cons c with
    | error e => rfl
    | ok x =>
      cases allocObjectsAll a rest with
      | error e => rfl
      | ok y => simp [pure, Except.pure, Except.map]

theorem allocObjects_ids {db : DB R} {cons : ConsRow} {c : ConsumerReq} {objs : List AllocReq}
    (h : allocObjects db cons c = .ok objs) :
    ∀ o ∈ objs, o.consId = cons.id ∨ ∃ cur ∈ db.consumers, o.consId = cur.id := by
  unfold allocObjects at h
  split at h
  · split at h
    · cases h; intro o ho; cases ho
    · rename_i cur hcur
      cases h
      intro o ho
      obtain ⟨x, _, hx⟩ := List.mem_filterMap.mp ho
      split at hx
      · cases hx; exact .inr ⟨cur, List.mem_of_find?_eq_some hcur, rfl⟩
      · cases hx
  · split at h
    · cases h
    · cases h
      intro o ho
      obtain ⟨x, _, hx⟩ := List.mem_filterMap.mp ho
      cases hrp : db.rpByUuid x.1 with
      | none => rw [hrp] at hx; cases hx
      | some rp => rw [hrp] at hx; cases hx; exact .inl rfl

theorem allocObjectsAll_ids {db : DB R} : ∀ {l : List (ConsumerReq × ConsRow × ReqAttr)} {objs : List AllocReq},
    allocObjectsAll db l = .ok objs →
    ∀ o ∈ objs, (∃ t ∈ l, o.consId = t.2.1.id) ∨ ∃ cur ∈ db.consumers, o.consId = cur.id
  | [], objs, h => by
    simp only [allocObjectsAll, Except.ok.injEq] at h
    subst h; intro o ho; cases ho
  | (c, cons, attr) :: rest, objs, h => by
    simp only [allocObjectsAll, bind, Except.bind] at h
    cases ha : allocObjects db cons c with
    | error e => rw [ha] at h; cases h
    | ok x =>
      rw [ha] at h
      cases hb : allocObjectsAll db rest with
      | error e => rw [hb] at h; cases h
      | ok y =>
        rw [hb] at h
        simp only [pure, Except.pure, Except.ok.injEq] at h
        subst h
        intro o ho
        rcases List.mem_append.mp ho with ho | ho
        · rcases allocObjects_ids ha o ho with e | e
          · exact .inl ⟨_, List.mem_cons_self .., e⟩
          · exact .inr e
        · rcases allocObjectsAll_ids hb o ho with ⟨t, ht, e⟩ | e
          · exact .inl ⟨t, List.mem_cons_of_mem _ ht, e⟩
          · exact .inr e

end Placement.Core
