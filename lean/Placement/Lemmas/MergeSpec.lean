import Placement.Props.C02Merge
import Placement.Lemmas.CandAmounts
/-
  Bridge between the model of the code's merge stage (`Model/Merge.lean`) and the specification of allocation
  candidates (`Spec/Candidates.lean`), for combinations of the shape the per-group searches hand over: one
  allocation request per request group, for a suffixed group the request `groupAreq` (all its resources on ONE
  provider, mapping suffix ↦ {provider}), for the unsuffixed group `unsuffAreq`.

  * `groupPolicy_iff`     `_satisfies_group_policy` accepts the combination  ⇔  item 5 of `Spec.Joint` (isolate:
                          the providers of the suffixed groups are pairwise distinct)
  * `sumKey_eq_amountAt`  the amount the code's consolidation stores under a (provider, class) = the amount the
                          specification's `consolidate` stores there (`Spec.amountAt` of the placements)
-/
namespace Placement.MergeSpec
open Placement Placement.Spec Placement.Merge

/-! ### `dedupNat` -/

theorem mem_dedupNat {x : Nat} : ∀ {l : List Nat}, x ∈ dedupNat l ↔ x ∈ l
  | [] => by simp [dedupNat]
  | y :: ys => by
    simp only [dedupNat]
    split
    · rename_i h
      have hy : y ∈ ys := mem_dedupNat.mp (by simpa using h)
      rw [mem_dedupNat (l := ys), List.mem_cons]
      constructor
      · exact fun h' => .inr h'
      · rintro (rfl | h')
        · exact hy
        · exact h'
    · rw [List.mem_cons, List.mem_cons, mem_dedupNat (l := ys)]

theorem dedupNat_length_le : ∀ l : List Nat, (dedupNat l).length ≤ l.length
  | [] => by simp [dedupNat]
  | y :: ys => by
    simp only [dedupNat]
    split
    · exact Nat.le_succ_of_le (dedupNat_length_le ys)
    · simpa using dedupNat_length_le ys

theorem dedupNat_length_eq_iff : ∀ l : List Nat, (dedupNat l).length = l.length ↔ l.Nodup
  | [] => by simp [dedupNat]
  | y :: ys => by
    simp only [dedupNat, List.nodup_cons]
    split
    · rename_i h
      have hy : y ∈ ys := mem_dedupNat.mp (by simpa using h)
      have := dedupNat_length_le ys
      constructor
      · intro h'; simp only [List.length_cons] at h'; omega
      · intro h'; exact absurd hy h'.1
    · rename_i h
      have hy : y ∉ ys := fun h' => h (by simpa using mem_dedupNat.mpr h')
      simp only [List.length_cons, Nat.add_right_cancel_iff, dedupNat_length_eq_iff ys]
      exact ⟨fun h' => ⟨hy, h'⟩, fun h' => h'.2⟩

/-! ### the shape of the per-group allocation requests -/

/-- the request the single-provider path builds for suffixed group `g` on provider `p` (objects `ids`) -/
def groupAreq (anchor : Nat) (g : Group) (p : RpRow) (ids : List Nat) : Areq :=
  { anchor := anchor, useSame := true, arrs := ids, maps := [(g.suffix, [p.id])] }

/-- a request of the unsuffixed group: its classes on the providers `us` -/
def unsuffAreq (anchor : Nat) (g : Group) (us : List RpRow) (ids : List Nat) : Areq :=
  { anchor := anchor, useSame := false, arrs := ids, maps := [(g.suffix, sortDedup (us.map (·.id)))] }

/-- one combination: the unsuffixed group's request (if the query has that group) and one request per suffixed
group, in the order of the query -/
def specCombo (anchor : Nat) (q : Query) (ps us : List RpRow) (idsU : List Nat) (idsG : List (List Nat)) : List Areq :=
  (match q.unsuff with
   | some g => [unsuffAreq anchor g us idsU]
   | none => []) ++
  (q.groups.zip (ps.zip idsG)).map (fun x => groupAreq anchor x.1 x.2.1 x.2.2)

theorem granular_of_groupAreqs (anchor : Nat) :
    ∀ (gs : List Group) (ps : List RpRow) (idsG : List (List Nat)), gs.length = ps.length → idsG.length = ps.length →
      (((gs.zip (ps.zip idsG)).map (fun x => groupAreq anchor x.1 x.2.1 x.2.2)).filter (·.useSame)).flatMap
        (fun a => (a.maps.headD (0, [])).2) = ps.map (·.id)
  | [], [], _, _, _ => by simp
  | [], _ :: _, _, h, _ => by simp at h
  | _ :: _, [], _, h, _ => by simp at h
  | _ :: _, _ :: _, [], _, h => by simp at h
  | g :: gs, p :: ps, i :: is, h1, h2 => by
    simp only [List.zip_cons_cons, List.map_cons, groupAreq, List.filter_cons_of_pos, List.flatMap_cons,
      List.headD_cons, List.map_cons, List.cons_append, List.nil_append, List.cons.injEq, true_and]
    exact granular_of_groupAreqs anchor gs ps is (by simpa using h1) (by simpa using h2)

theorem granularProviders_specCombo (anchor : Nat) (q : Query) (ps us : List RpRow) (idsU : List Nat)
    (idsG : List (List Nat)) (h1 : q.groups.length = ps.length) (h2 : idsG.length = ps.length) :
    granularProviders (specCombo anchor q ps us idsU idsG) = dedupNat (ps.map (·.id)) := by
  unfold granularProviders specCombo
  congr 1
  rw [List.filter_append, List.flatMap_append]
  have hu : ((match q.unsuff with
      | some g => [unsuffAreq anchor g us idsU]
      | none => []).filter (fun a : Areq => a.useSame)) = [] := by
    cases q.unsuff <;> simp [unsuffAreq]
  rw [hu, List.flatMap_nil, List.nil_append]
  exact granular_of_groupAreqs anchor q.groups ps idsG h1 h2

/-- **`_satisfies_group_policy` = item 5 of the specification** on combinations of that shape -/
theorem groupPolicy_iff (ctx : Ctx) (anchor : Nat) (q : Query) (ps us : List RpRow) (idsU : List Nat)
    (idsG : List (List Nat)) (h1 : q.groups.length = ps.length) (h2 : idsG.length = ps.length)
    (hnum : ctx.numGranular = q.groups.length) (hiso : ctx.isolate = q.isolate) :
    Merge.groupPolicyOk ctx (specCombo anchor q ps us idsU idsG) = true ↔
      (q.isolate = true → (ps.map (·.id)).Nodup) := by
  unfold Merge.groupPolicyOk
  rw [granularProviders_specCombo anchor q ps us idsU idsG h1 h2, hnum, hiso, ← dedupNat_length_eq_iff]
  unfold Gen.groupPolicyOk
  cases q.isolate
  · simp
  · simp only [Bool.not_true, Bool.false_eq_true, if_false, true_implies, List.length_map]
    constructor
    · intro h
      split at h
      · rename_i he; simp only [beq_iff_eq] at he; rw [← he, h1]
      · cases h
    · intro h
      rw [if_pos (by simp only [beq_iff_eq]; rw [h, h1])]

/-! ### same_subtree -/

/-- the parent map the code reads (`parent_uuid_by_rp_uuid`) taken from the provider table -/
def parentsOf {R : Type} (db : DB R) : List (Nat × Option Nat) := db.rps.map (fun r => (r.id, r.parent))

theorem parentOf_eq {R : Type} (db : DB R) (ctx : Ctx) (h : ctx.parents = parentsOf db) (p : Nat) :
    parentOf ctx p = (db.rpById p).bind (·.parent) := by
  unfold parentOf DB.rpById
  rw [h]; unfold parentsOf
  induction db.rps with
  | nil => rfl
  | cons r rs ih =>
    simp only [List.map_cons, List.find?_cons]
    cases hh : (r.id == p)
    · simpa using ih
    · simp

theorem ancestors_eq {R : Type} (db : DB R) (ctx : Ctx) (h : ctx.parents = parentsOf db) :
    ∀ (fuel p : Nat), Merge.ancestors ctx fuel p = Spec.ancestors db fuel p
  | 0, p => rfl
  | fuel + 1, p => by
    simp only [Merge.ancestors, Spec.ancestors, parentOf_eq db ctx h]
    cases (db.rpById p).bind (·.parent) with
    | none => rfl
    | some q => simp only [ancestors_eq db ctx h fuel q]

/-- **`_check_same_subtree` = "one of them is an ancestor-or-self of all"** (item 6 of the specification), for the
parent map of the provider table -/
theorem checkSameSubtree_iff {R : Type} (db : DB R) (ctx : Ctx) (h : ctx.parents = parentsOf db) (l : List Nat) :
    checkSameSubtree ctx l = true ↔ ∃ a ∈ l, ∀ b ∈ l, isAncOrSelf db a b := by
  have hlen : ctx.parents.length = db.rps.length := by rw [h]; simp [parentsOf]
  unfold checkSameSubtree Gen.sameSubtreeOk isAncOrSelf
  simp only [hlen, ancestors_eq db ctx h]
  constructor
  · intro hc
    split at hc
    · rename_i h1
      simp only [beq_iff_eq] at h1
      match l, h1 with
      | [a], _ =>
        refine ⟨a, List.mem_singleton.mpr rfl, fun b hb => ?_⟩
        rw [List.mem_singleton.mp hb]
        cases db.rps.length <;> simp [Spec.ancestors]
    · simp only [bne_iff_ne, ne_eq, List.length_eq_zero_iff] at hc
      obtain ⟨a, ha⟩ := List.exists_mem_of_ne_nil _ hc
      simp only [List.mem_filter, List.all_eq_true, List.contains_iff_mem] at ha
      exact ⟨a, ha.1, ha.2⟩
  · rintro ⟨a, ha, hall⟩
    split
    · rfl
    · simp only [bne_iff_ne, ne_eq, List.length_eq_zero_iff]
      intro hnil
      have : a ∈ l.filter (fun c => l.all (fun p => (Spec.ancestors db db.rps.length p).contains c)) := by
        simp only [List.mem_filter, List.all_eq_true, List.contains_iff_mem]
        exact ⟨ha, hall⟩
      rw [hnil] at this; cases this

theorem subtree_of_groupAreqs (anchor : Nat) (s : List Nat) :
    ∀ (gs : List Group) (ps : List RpRow) (idsG : List (List Nat)), gs.length = ps.length → idsG.length = ps.length →
      ((gs.zip (ps.zip idsG)).map (fun x => groupAreq anchor x.1 x.2.1 x.2.2)).flatMap
        (fun a => (a.maps.filter (fun sp => s.contains sp.1)).flatMap (·.2)) =
      ((gs.zip ps).filter (fun gp => s.contains gp.1.suffix)).map (·.2.id)
  | [], [], _, _, _ => by simp
  | [], _ :: _, _, h, _ => by simp at h
  | _ :: _, [], _, h, _ => by simp at h
  | _ :: _, _ :: _, [], _, h => by simp at h
  | g :: gs, p :: ps, i :: is, h1, h2 => by
    have ih := subtree_of_groupAreqs anchor s gs ps is (by simpa using h1) (by simpa using h2)
    simp only [List.zip_cons_cons, List.map_cons, List.flatMap_cons, List.filter_cons]
    rw [ih]
    cases hc : s.contains g.suffix
    · have hm : ¬ g.suffix ∈ s := by simpa using hc
      simp [groupAreq, hm]
    · have hm : g.suffix ∈ s := by simpa using hc
      simp [groupAreq, hm]

theorem subtreeProviders_specCombo (anchor : Nat) (q : Query) (ps us : List RpRow) (idsU : List Nat)
    (idsG : List (List Nat)) (h1 : q.groups.length = ps.length) (h2 : idsG.length = ps.length) (s : List Nat)
    (hs : ∀ g, q.unsuff = some g → s.contains g.suffix = false) :
    Merge.subtreeProviders (specCombo anchor q ps us idsU idsG) s = dedupNat (Spec.subtreeProviders q s ps) := by
  unfold Merge.subtreeProviders specCombo Spec.subtreeProviders
  congr 1
  rw [List.flatMap_append, subtree_of_groupAreqs anchor s q.groups ps idsG h1 h2]
  cases hq : q.unsuff with
  | none => simp
  | some g =>
    have hm : ¬ g.suffix ∈ s := by simpa using hs g hq
    simp [unsuffAreq, hm]

/-- **`_satisfies_same_subtree` = item 6 of the specification** on combinations of that shape (the suffix of the
unsuffixed group is not a legal member of `same_subtree`) -/
theorem sameSubtree_iff {R : Type} (db : DB R) (ctx : Ctx) (anchor : Nat) (q : Query) (ps us : List RpRow)
    (idsU : List Nat) (idsG : List (List Nat)) (h1 : q.groups.length = ps.length) (h2 : idsG.length = ps.length)
    (hpar : ctx.parents = parentsOf db) (hss : ctx.sameSubtrees = q.sameSubtree)
    (hs : ∀ s ∈ q.sameSubtree, ∀ g, q.unsuff = some g → s.contains g.suffix = false) :
    Merge.sameSubtreeOk ctx (specCombo anchor q ps us idsU idsG) = true ↔
      ∀ s ∈ q.sameSubtree, ∃ a ∈ Spec.subtreeProviders q s ps, ∀ b ∈ Spec.subtreeProviders q s ps, isAncOrSelf db a b := by
  unfold Merge.sameSubtreeOk
  rw [hss, List.all_eq_true]
  constructor
  · intro h s hsm
    have := h s hsm
    rw [subtreeProviders_specCombo anchor q ps us idsU idsG h1 h2 s (hs s hsm), checkSameSubtree_iff db ctx hpar] at this
    obtain ⟨a, ha, hall⟩ := this
    exact ⟨a, mem_dedupNat.mp ha, fun b hb => hall b (mem_dedupNat.mpr hb)⟩
  · intro h s hsm
    rw [subtreeProviders_specCombo anchor q ps us idsU idsG h1 h2 s (hs s hsm), checkSameSubtree_iff db ctx hpar]
    obtain ⟨a, ha, hall⟩ := h s hsm
    exact ⟨a, mem_dedupNat.mpr ha, fun b hb => hall b (mem_dedupNat.mp hb)⟩

/-! ### capacity -/

/-- **`exceeds_capacity` on a provider summary = item 7 of the specification** (`limitOk`): the summary's capacity is
`int((total - reserved) * allocation_ratio)`; for a capacity that is not negative, "used + amount > capacity or
amount > max_unit" is false exactly when the float comparison of the specification holds and max_unit is respected -/
theorem summary_ok_iff {R : Type} [LawfulCapOps R] (a : Int) (r : R) (used amount maxUnit : Int)
    (hnn : CapOps.capLt a r 0 = false) :
    Gen.summaryExceeded used amount (CapOps.capTrunc a r) maxUnit = false ↔
      (CapOps.capLt a r (used + amount) = false ∧ amount ≤ maxUnit) := by
  have h := LawfulCapOps.trunc_spec a r (used + amount) hnn
  simp only [Gen.summaryExceeded, Bool.or_eq_false_iff, decide_eq_false_iff_not, Int.not_lt, gt_iff_lt]
  rw [h]

/-- the provider summaries the merge stage reads (`psum_res_by_rp_rc`) are built from the inventories: used = the
usage of the key, capacity = `int((total - reserved) * allocation_ratio)`, max_unit -/
def LimitsFrom {R : Type} [CapOps R] (db : DB R) (ctx : Ctx) (k : Nat × Nat) : Prop :=
  ∃ inv ∈ db.invs, inv.rp = k.1 ∧ inv.rc = k.2 ∧
    limitOf ctx k = (db.usage k.1 k.2, CapOps.capTrunc (inv.total - inv.reserved) inv.ratio, inv.maxUnit) ∧
    CapOps.capLt (inv.total - inv.reserved) inv.ratio 0 = false ∧
    ∀ inv' ∈ db.invs, inv'.rp = k.1 → inv'.rc = k.2 → inv' = inv

/-- **`exceeds_capacity` on a merged request = item 7 of the specification for each of its entries** -/
theorem exceeds_iff_limitOk {R : Type} [LawfulCapOps R] (db : DB R) (ctx : Ctx) (st : Store) (a : Areq)
    (hlim : ∀ i ∈ a.arrs, LimitsFrom db ctx ((getArr st i).rp, (getArr st i).rc)) :
    exceeds ctx st a = false ↔
      ∀ i ∈ a.arrs, limitOk db (((getArr st i).rp, (getArr st i).rc), (getArr st i).amount) := by
  unfold exceeds
  rw [List.any_eq_false]
  constructor
  · intro h i hi
    obtain ⟨inv, hinv, hrp, hrc, hl, hnn, _⟩ := hlim i hi
    have := h i hi
    simp only [hl, Bool.not_eq_true] at this
    have h2 := (summary_ok_iff (inv.total - inv.reserved) inv.ratio _ _ _ hnn).mp this
    exact ⟨inv, hinv, hrp, hrc, h2.1, h2.2⟩
  · intro h i hi
    obtain ⟨inv, hinv, hrp, hrc, hl, hnn, huniq⟩ := hlim i hi
    obtain ⟨inv', hinv', hrp', hrc', hcap, hmax⟩ := h i hi
    have he : inv' = inv := huniq inv' hinv' hrp' hrc'
    subst he
    simp only [hl, Bool.not_eq_true]
    exact (summary_ok_iff (inv'.total - inv'.reserved) inv'.ratio _ _ _ hnn).mpr ⟨hcap, hmax⟩

/-! ### amounts -/

/-- the placements of the specification as resource objects -/
def toArr (x : (Nat × Nat) × Int) : Arr := ⟨x.1.1, x.1.2, x.2⟩

theorem getArr_append_range (st : Store) (l : List ((Nat × Nat) × Int)) (i : Nat) (hi : i < l.length) :
    getArr (st ++ l.map toArr) (st.length + i) = toArr (l.getD i default) := by
  simp [getArr, List.getD, hi]

/-- the sum the code computes for key `k` over the objects `base, base+1, ...` holding the placements `l`
is the specification's amount at `k` -/
theorem sumKey_eq_amountAt (st : Store) (k : Nat × Nat) :
    ∀ (l : List ((Nat × Nat) × Int)) (pre : List ((Nat × Nat) × Int)),
      sumKey (st ++ (pre ++ l).map toArr) k (List.range' (st.length + pre.length) l.length) = amountAt l k
  | [], pre => by simp [sumKey, amountAt, sumBy_nil]
  | x :: xs, pre => by
    have hget : getArr (st ++ (pre ++ x :: xs).map toArr) (st.length + pre.length) = toArr x := by
      have := getArr_append_range st (pre ++ x :: xs) pre.length (by simp)
      rw [this]; simp [List.getD]
    have ih := sumKey_eq_amountAt st k xs (pre ++ [x])
    simp only [List.append_assoc, List.cons_append, List.nil_append, List.length_append, List.length_cons,
      List.length_nil] at ih
    simp only [List.length_cons, List.range'_succ, sumKey, hget]
    rw [show st.length + pre.length + 1 = st.length + (pre.length + 0 + 1) by omega, ih]
    unfold amountAt
    rw [sumBy_cons]
    simp only [keyOf, toArr]
    by_cases hk : x.1 = k
    · simp [hk]
    · simp [hk]

/-- how often the code sees key `k` among those objects = how often the placements name it -/
theorem countKey_eq_count (st : Store) (k : Nat × Nat) :
    ∀ (l : List ((Nat × Nat) × Int)) (pre : List ((Nat × Nat) × Int)),
      countKey (st ++ (pre ++ l).map toArr) k (List.range' (st.length + pre.length) l.length) = (l.map (·.1)).count k
  | [], pre => by simp [countKey]
  | x :: xs, pre => by
    have hget : getArr (st ++ (pre ++ x :: xs).map toArr) (st.length + pre.length) = toArr x := by
      have := getArr_append_range st (pre ++ x :: xs) pre.length (by simp)
      rw [this]; simp [List.getD]
    have ih := countKey_eq_count st k xs (pre ++ [x])
    simp only [List.append_assoc, List.cons_append, List.nil_append, List.length_append, List.length_cons,
      List.length_nil] at ih
    simp only [List.length_cons, List.range'_succ, countKey, hget]
    rw [show st.length + pre.length + 1 = st.length + (pre.length + 0 + 1) by omega, ih]
    simp only [keyOf, toArr, List.map_cons, List.count_cons]
    by_cases hk : x.1 = k
    · simp [hk]; omega
    · simp [hk]

/-- **the code's consolidation computes the specification's `consolidate`.**  The placements `l` of one combination
(what `Spec.placements` lists: one entry per group resource on the group's provider, one per unsuffixed resource),
held by fresh objects at the end of the store; every key named twice is of a class in `multi_group_rcs`.  Then the
(key, amount) pairs `_consolidate_allocation_requests` returns are exactly the entries of `Spec.consolidate l`, and no
object that existed before is touched. -/
theorem consolidate_is_spec (ctx : Ctx) (st : Store) (l : List ((Nat × Nat) × Int))
    (hmulti : ∀ k, 2 ≤ (l.map (·.1)).count k → ctx.multiRcs.contains k.2 = true) :
    let r := consolidateArrs ctx (st ++ l.map toArr) [] (List.range' st.length l.length)
    (∀ n, n < st.length + l.length → getArr r.1 n = getArr (st ++ l.map toArr) n) ∧
    (∀ k n, (∃ e ∈ r.2, e.1 = k ∧ (getArr r.1 e.2).amount = n) ↔ (k, n) ∈ Spec.consolidate l) := by
  have hc := fun k => countKey_eq_count st k l []
  have hs := fun k => sumKey_eq_amountAt st k l []
  simp only [List.nil_append, List.length_nil, Nat.add_zero] at hc hs
  rw [consolidateArrs_eq]
  have h := consArrs_spec (fun rc => Gen.copyArrNeeded ctx.policyNone ctx.isolate (ctx.multiRcs.contains rc))
    (st ++ l.map toArr)
    (List.range' st.length l.length)
    (by intro i hi; simp only [List.mem_range'_1] at hi; simp; omega)
    (by intro k hk; rw [hc] at hk; show Gen.copyArrNeeded _ _ _ = true; rw [hmulti k hk]
        exact Placement.Props.C02Merge.copy_rule_covers_every_policy _ _)
  refine ⟨fun n hn => h.1 n (by simpa using hn), fun k n => ⟨?_, ?_⟩⟩
  · rintro ⟨e, he, rfl, rfl⟩
    have h2 := h.2.1 e he
    rw [h2.2.1, hs]
    have hcnt : 1 ≤ (l.map (·.1)).count e.1 := by rw [← hc]; exact h2.2.2
    have hmem : e.1 ∈ (Spec.consolidate l).map (·.1) :=
      (mem_consolidate_key l e.1).mpr (List.count_pos_iff.mp hcnt)
    obtain ⟨x, hx, hxk⟩ := List.mem_map.mp hmem
    have := consolidate_entry hx
    rw [hxk] at this
    rw [← this, ← hxk]; exact hx
  · intro hx
    have hn := consolidate_entry hx
    have hmem : k ∈ l.map (·.1) := (mem_consolidate_key l k).mp (List.mem_map.mpr ⟨_, hx, rfl⟩)
    have hcnt : 1 ≤ countKey (st ++ l.map toArr) k (List.range' st.length l.length) := by
      rw [hc]; exact List.count_pos_iff.mpr hmem
    obtain ⟨e, he, hek⟩ := h.2.2.2 k hcnt
    refine ⟨e, he, hek, ?_⟩
    rw [(h.2.1 e he).2.1, hek, hs]; exact hn.symm

/-! ### the order in which the groups' resources are handed over does not matter -/

theorem mem_consolidate_iff (l : List ((Nat × Nat) × Int)) (k : Nat × Nat) (n : Int) :
    (k, n) ∈ Spec.consolidate l ↔ k ∈ l.map (·.1) ∧ n = amountAt l k := by
  constructor
  · intro h
    exact ⟨(mem_consolidate_key l k).mp (List.mem_map.mpr ⟨_, h, rfl⟩), consolidate_entry h⟩
  · rintro ⟨hk, rfl⟩
    obtain ⟨x, hx, hxk⟩ := List.mem_map.mp ((mem_consolidate_key l k).mpr hk)
    have := consolidate_entry hx
    rw [hxk] at this
    rw [← this, ← hxk]
    exact hx

theorem amountAt_append_comm (a b : List ((Nat × Nat) × Int)) (k : Nat × Nat) :
    amountAt (a ++ b) k = amountAt (b ++ a) k := by
  unfold amountAt
  rw [sumBy_append, sumBy_append, Int.add_comm]

/-- the consolidated request has the same entries whichever of the two parts comes first -/
theorem mem_consolidate_append_comm (a b : List ((Nat × Nat) × Int)) (k : Nat × Nat) (n : Int) :
    (k, n) ∈ Spec.consolidate (a ++ b) ↔ (k, n) ∈ Spec.consolidate (b ++ a) := by
  rw [mem_consolidate_iff, mem_consolidate_iff, amountAt_append_comm a b k]
  simp only [List.map_append, List.mem_append]
  constructor
  · rintro ⟨h | h, e⟩
    · exact ⟨.inr h, e⟩
    · exact ⟨.inl h, e⟩
  · rintro ⟨h | h, e⟩
    · exact ⟨.inr h, e⟩
    · exact ⟨.inl h, e⟩

/-- the two halves of `Spec.placements` -/
def groupPlacements (q : Query) (ps : List RpRow) : List ((Nat × Nat) × Int) :=
  (q.groups.zip ps).flatMap (fun gp => gp.1.resources.map (fun e => ((gp.2.id, e.1), e.2)))
def unsuffPlacements (q : Query) (us : List RpRow) : List ((Nat × Nat) × Int) :=
  (q.unsuffRes.zip us).map (fun eu => ((eu.2.id, eu.1.1), eu.1.2))

theorem placements_eq (q : Query) (ps us : List RpRow) :
    placements q ps us = groupPlacements q ps ++ unsuffPlacements q us := rfl

/-- the object identities of the per-group requests when the objects sit in the store in the order in which the code
walks them (unsuffixed group first): consecutive ranges -/
def idsOfGroups : Nat → List Group → List (List Nat)
  | _, [] => []
  | base, g :: gs => List.range' base g.resources.length :: idsOfGroups (base + g.resources.length) gs

theorem idsOfGroups_length : ∀ (base : Nat) (gs : List Group), (idsOfGroups base gs).length = gs.length
  | _, [] => rfl
  | base, g :: gs => by simp [idsOfGroups, idsOfGroups_length]

theorem arrs_of_groupAreqs (anchor : Nat) :
    ∀ (gs : List Group) (ps : List RpRow) (base : Nat), gs.length = ps.length →
      ((gs.zip (ps.zip (idsOfGroups base gs))).map (fun x => groupAreq anchor x.1 x.2.1 x.2.2)).flatMap (·.arrs) =
        List.range' base ((gs.zip ps).flatMap (fun gp => gp.1.resources.map (fun e => ((gp.2.id, e.1), e.2)))).length
  | [], [], base, _ => by simp [idsOfGroups]
  | [], _ :: _, _, h => by simp at h
  | _ :: _, [], _, h => by simp at h
  | g :: gs, p :: ps, base, h => by
    have ih := arrs_of_groupAreqs anchor gs ps (base + g.resources.length) (by simpa using h)
    simp only [idsOfGroups, List.zip_cons_cons, List.map_cons, List.flatMap_cons, List.length_append,
      List.length_map]
    rw [ih, ← List.range'_append_1]
    rfl

/-- **amounts of an accepted combination = `Spec.build`'s `alloc`** (item 4, complete): the objects of the per-group
requests are fresh objects holding the placements, in the order the code walks them.  The pairs (key, amount) the
consolidation returns are exactly the entries of `(build q ps us).alloc`. -/
theorem consolidate_specCombo_is_build (ctx : Ctx) (st : Store) (anchor : Nat) (q : Query) (ps us : List RpRow)
    (h1 : q.groups.length = ps.length)
    (hmulti : ∀ k, 2 ≤ ((placements q ps us).map (·.1)).count k → ctx.multiRcs.contains k.2 = true) :
    let lU := unsuffPlacements q us
    let lG := groupPlacements q ps
    let st0 := st ++ (lU ++ lG).map toArr
    let combo := specCombo anchor q ps us (List.range' st.length lU.length)
      (idsOfGroups (st.length + lU.length) q.groups)
    let r := consolidateArrs ctx st0 [] (combo.flatMap (·.arrs))
    (∀ n, n < st0.length → getArr r.1 n = getArr st0 n) ∧
    (∀ k n, (∃ e ∈ r.2, e.1 = k ∧ (getArr r.1 e.2).amount = n) ↔ (k, n) ∈ (build q ps us).alloc) := by
  intro lU lG st0 combo r
  have harrs : combo.flatMap (·.arrs) = List.range' st.length (lU ++ lG).length := by
    show (specCombo anchor q ps us _ _).flatMap (·.arrs) = _
    unfold specCombo
    rw [List.flatMap_append, arrs_of_groupAreqs anchor q.groups ps _ h1, List.length_append, ← List.range'_append_1]
    congr 1
    cases hq : q.unsuff with
    | none =>
      have : lU = [] := by show unsuffPlacements q us = []; simp [unsuffPlacements, Query.unsuffRes, hq]
      simp [this]
    | some g => simp [unsuffAreq]
  have hm : ∀ k, 2 ≤ ((lU ++ lG).map (·.1)).count k → ctx.multiRcs.contains k.2 = true := by
    intro k hk
    apply hmulti k
    rw [placements_eq]
    simpa [List.count_append, Nat.add_comm] using hk
  have h := consolidate_is_spec ctx st (lU ++ lG) hm
  have hr : r = consolidateArrs ctx (st ++ (lU ++ lG).map toArr) [] (List.range' st.length (lU ++ lG).length) := by
    show consolidateArrs ctx st0 [] (combo.flatMap (·.arrs)) = _
    rw [harrs]
  rw [hr]
  refine ⟨fun n hn => h.1 n (by simpa [st0] using hn), fun k n => ?_⟩
  rw [h.2 k n]
  show (k, n) ∈ Spec.consolidate (lU ++ lG) ↔ (k, n) ∈ Spec.consolidate (placements q ps us)
  rw [placements_eq]
  exact mem_consolidate_append_comm lU lG k n

/-! ### mappings -/

/-- strictly ascending -/
def Asc (l : List Nat) : Prop := l.Pairwise (· < ·)

theorem insertSorted_eq_insertUniq (x : Nat) : ∀ l : List Nat, insertSorted x l = insertUniq x l
  | [] => rfl
  | y :: ys => by simp only [insertSorted, insertUniq, insertSorted_eq_insertUniq x ys]

theorem insertSorted_append_last (x : Nat) : ∀ acc : List Nat, (∀ y ∈ acc, y < x) → insertSorted x acc = acc ++ [x]
  | [], _ => rfl
  | y :: ys, h => by
    have hy : y < x := h y List.mem_cons_self
    simp only [insertSorted]
    rw [if_neg (by omega), if_neg (by omega), insertSorted_append_last x ys (fun z hz => h z (List.mem_cons_of_mem _ hz))]
    rfl

theorem foldl_insertSorted_asc : ∀ (s acc : List Nat), Asc (acc ++ s) →
    s.foldl (fun a x => insertSorted x a) acc = acc ++ s
  | [], acc, _ => by simp
  | x :: xs, acc, h => by
    have hlt : ∀ y ∈ acc, y < x := by
      intro y hy
      have := List.pairwise_append.mp h
      exact this.2.2 y hy x List.mem_cons_self
    simp only [List.foldl_cons]
    rw [insertSorted_append_last x acc hlt, foldl_insertSorted_asc xs (acc ++ [x]) (by simpa [Asc] using h)]
    simp

theorem unionSorted_nil_of_asc (s : List Nat) (h : Asc s) : unionSorted s [] = s := by
  unfold unionSorted
  rw [foldl_insertSorted_asc s [] (by simpa using h)]
  rfl

theorem mem_insertUniq {x z : Nat} : ∀ {l : List Nat}, z ∈ insertUniq x l ↔ z = x ∨ z ∈ l
  | [] => by simp [insertUniq]
  | y :: ys => by
    simp only [insertUniq]
    split
    · rename_i h; subst h; simp
    · split
      · simp
      · simp only [List.mem_cons, mem_insertUniq (l := ys)]
        constructor
        · rintro (h | h | h)
          · exact .inr (.inl h)
          · exact .inl h
          · exact .inr (.inr h)
        · rintro (h | h | h)
          · exact .inr (.inl h)
          · exact .inl h
          · exact .inr (.inr h)

theorem insertUniq_asc (x : Nat) : ∀ l : List Nat, Asc l → Asc (insertUniq x l)
  | [], _ => by simp [insertUniq, Asc]
  | y :: ys, h => by
    have hc := List.pairwise_cons.mp h
    simp only [insertUniq]
    split
    · exact h
    · split
      · rename_i hne hlt
        refine List.pairwise_cons.mpr ⟨fun z hz => ?_, h⟩
        rcases List.mem_cons.mp hz with rfl | hz
        · exact hlt
        · exact Nat.lt_trans hlt (hc.1 z hz)
      · rename_i hne hnlt
        refine List.pairwise_cons.mpr ⟨fun z hz => ?_, insertUniq_asc x ys hc.2⟩
        rcases mem_insertUniq.mp hz with rfl | hz
        · omega
        · exact hc.1 z hz

theorem sortDedup_asc : ∀ l : List Nat, Asc (sortDedup l)
  | [] => by simp [sortDedup, Asc]
  | x :: xs => by simp only [sortDedup]; exact insertUniq_asc x _ (sortDedup_asc xs)

/-- a suffix that is not yet in the table is appended -/
theorem addMapping_fresh (sfx : Nat) (ps : List Nat) : ∀ m : List (Nat × List Nat), sfx ∉ m.map (·.1) →
    addMapping m sfx ps = m ++ [(sfx, unionSorted ps [])]
  | [], _ => rfl
  | (s, qs) :: rest, h => by
    simp only [List.map_cons, List.mem_cons, not_or] at h
    simp only [addMapping]
    rw [if_neg (fun e => h.1 e.symm), addMapping_fresh sfx ps rest h.2]
    rfl

theorem mergeMappings_groupAreqs (anchor : Nat) :
    ∀ (gs : List Group) (ps : List RpRow) (idsG : List (List Nat)) (m : List (Nat × List Nat)),
      gs.length = ps.length → idsG.length = ps.length →
      ((m.map (·.1)) ++ gs.map (·.suffix)).Nodup →
      ((gs.zip (ps.zip idsG)).map (fun x => groupAreq anchor x.1 x.2.1 x.2.2)).foldl
        (fun m a => a.maps.foldl (fun m' sp => addMapping m' sp.1 sp.2) m) m =
      m ++ (gs.zip ps).map (fun gp => (gp.1.suffix, [gp.2.id]))
  | [], [], _, m, _, _, _ => by simp
  | [], _ :: _, _, _, h, _, _ => by simp at h
  | _ :: _, [], _, _, h, _, _ => by simp at h
  | _ :: _, _ :: _, [], _, _, h, _ => by simp at h
  | g :: gs, p :: ps, i :: is, m, h1, h2, hn => by
    have hfresh : g.suffix ∉ m.map (·.1) := by
      intro hm
      have := (List.nodup_append.mp hn).2.2 _ hm _ (List.mem_map.mpr ⟨g, List.mem_cons_self, rfl⟩)
      exact this rfl
    simp only [List.zip_cons_cons, List.map_cons, List.foldl_cons, groupAreq, List.foldl_nil]
    rw [addMapping_fresh g.suffix [p.id] m hfresh]
    have hu : unionSorted [p.id] [] = [p.id] := rfl
    rw [hu]
    have := mergeMappings_groupAreqs anchor gs ps is (m ++ [(g.suffix, [p.id])]) (by simpa using h1) (by simpa using h2)
      (by simpa [List.map_append, List.append_assoc] using hn)
    simp only [groupAreq] at this
    rw [this]
    simp

/-- **the mappings the code builds for a combination are the specification's** (item 4, second half): suffixes are
pairwise distinct (they are the names of the request groups) -/
theorem mergeMappings_is_spec (anchor : Nat) (q : Query) (ps us : List RpRow) (idsU : List Nat) (idsG : List (List Nat))
    (h1 : q.groups.length = ps.length) (h2 : idsG.length = ps.length)
    (hs : ((match q.unsuff with | some g => [g.suffix] | none => []) ++ q.groups.map (·.suffix)).Nodup) :
    mergeMappings (specCombo anchor q ps us idsU idsG) = Spec.mappings q ps us := by
  unfold mergeMappings specCombo Spec.mappings
  rw [List.foldl_append]
  cases hq : q.unsuff with
  | none =>
    simp only [hq] at hs
    have := mergeMappings_groupAreqs anchor q.groups ps idsG [] h1 h2 (by simpa using hs)
    simpa using this
  | some g =>
    simp only [hq] at hs
    simp only [List.foldl_cons, List.foldl_nil, unsuffAreq]
    have hu : addMapping [] g.suffix (sortDedup (us.map (·.id))) = [(g.suffix, sortDedup (us.map (·.id)))] := by
      show [(g.suffix, unionSorted (sortDedup (us.map (·.id))) [])] = _
      rw [unionSorted_nil_of_asc _ (sortDedup_asc _)]
    rw [hu]
    exact mergeMappings_groupAreqs anchor q.groups ps idsG [(g.suffix, sortDedup (us.map (·.id)))] h1 h2 (by simpa using hs)

end Placement.MergeSpec
