import Placement.Lemmas.ReadsTotals
/-
  A concrete state for the `example`s of `Props/C11Reads.lean` (ratios are natural numbers; reads
  never compute with them).

  Providers: 1 (uuid 100, generation 4) is the parent of 2 (uuid 101, generation 7); root of both is 1.
  Classes: id 0 named 10 ("VCPU"), id 1 named 12 ("MEMORY_MB"), custom id 10000 named 11.
  Inventories: provider 1 has classes 0 and 1, provider 2 has class 0 and the custom class.
  Consumers: 500 (project 7, user 8, type 30, generation 2), 501 (project 7, user 9, no type, generation 1),
  502 (project 6, user 8, type 30, generation 5).
  Allocations: 500 holds 2 of class 0 and 64 of class 1 on provider 1 and 1 of class 0 on provider 2;
  501 holds 3 of class 0 on provider 1; 502 holds 5 of the custom class on provider 2.
-/
namespace Placement.C11Reads.Ex
open Placement

def db : DB Nat :=
  { rps := [{ id := 1, uuid := 100, name := 200, gen := 4, parent := none, root := 1 },
            { id := 2, uuid := 101, name := 201, gen := 7, parent := some 1, root := 1 }],
    invs := [{ rp := 1, rc := 0, total := 8, reserved := 0, minUnit := 1, maxUnit := 8, stepSize := 1, ratio := 2 },
             { rp := 1, rc := 1, total := 1024, reserved := 0, minUnit := 1, maxUnit := 1024, stepSize := 1, ratio := 1 },
             { rp := 2, rc := 0, total := 4, reserved := 0, minUnit := 1, maxUnit := 4, stepSize := 1, ratio := 1 },
             { rp := 2, rc := 10000, total := 8, reserved := 0, minUnit := 1, maxUnit := 8, stepSize := 1, ratio := 1 }],
    allocs := [{ rp := 1, rc := 0, consumer := 500, used := 2 },
               { rp := 1, rc := 1, consumer := 500, used := 64 },
               { rp := 2, rc := 0, consumer := 500, used := 1 },
               { rp := 1, rc := 0, consumer := 501, used := 3 },
               { rp := 2, rc := 10000, consumer := 502, used := 5 }],
    consumers := [{ id := 1, uuid := 500, project := 7, user := 8, ctype := some 30, gen := 2 },
                  { id := 2, uuid := 501, project := 7, user := 9, ctype := none, gen := 1 },
                  { id := 3, uuid := 502, project := 6, user := 8, ctype := some 30, gen := 5 }],
    projects := [7, 6], users := [8, 9], ctypes := [30],
    rcs := [(0, 10), (1, 12), (10000, 11)],
    traits := [4, 13],
    rpTraits := [(2, 13)],
    aggs := [900], rpAggs := [(1, 900)],
    nextRp := 3, nextCons := 4 }

theorem uniq_db : Uniq db :=
  ⟨by decide, by decide, by decide, by decide, by decide, by decide, by decide, by decide, by decide,
   by decide, by decide, by decide, by decide, by decide, by decide⟩

theorem ri_db : RI db :=
  ⟨by decide, by decide, by decide, by decide, by decide, by decide, by decide, by decide, by decide,
   by decide, by decide, by decide⟩

/-- the provider rows as the queries see them -/
def v1 : RpView := { row := { id := 1, uuid := 100, name := 200, gen := 4, parent := none, root := 1 },
                     rootUuid := 100, parentUuid := none }
def v2 : RpView := { row := { id := 2, uuid := 101, name := 201, gen := 7, parent := some 1, root := 1 },
                     rootUuid := 100, parentUuid := some 100 }

theorem provider_100 : provider db 100 = some v1 := by decide
theorem provider_101 : provider db 101 = some v2 := by decide

end Placement.C11Reads.Ex
