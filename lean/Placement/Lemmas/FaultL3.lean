import Placement.Lemmas.FaultL2
/-
  Helper lemmas for C17, part 3: one injected fault in the main transaction of an allocation write
  (`mainTxnWithFault`: `update_consumers`, then `replace_all` { retry-decorated `_set_allocations` }
  inside the handler's outer writer scope).

    * `mainTxn_other`: a non-retryable fault that fires => nothing committed, fault answered;
    * `mainTxn_not_reached`: a fault position that is never reached => the fault-free result;
    * `Early`, `early_at_fault`, `runBody_early`: a fault before the first generation increment fires in
      a state that differs from the start only in allocation rows of the request's consumers, and
      re-running the body from there is re-running it from the start (the DELETEs come first);
    * `mainTxn_deadlock_early`, `mainTxn_rollback_early`.
-/
namespace Placement.FaultL
open Placement Placement.Fault
set_option linter.unusedSectionVars false

variable {R : Type} [CapOps R]

/-! ### non-retryable fault; fault not reached -/

theorem reloadLoop_exc_rp {committed : DB R} {body : List (Stmt (FS R))} {n : Nat} {s s' : FS R}
    (h : runBody body s none = .exc s' .rpConcurrentUpdate) :
    reloadLoop committed body (n + 1) s =
      reloadLoop committed body n
        { s' with rpGen := s'.rpGen.map (fun p => (p.1, ((committed.rpById p.1).map (·.gen)).getD p.2)) } := by
  conv => lhs; unfold reloadLoop
  rw [h]

theorem reloadLoop_exc_other {committed : DB R} {body : List (Stmt (FS R))} {n : Nat} {s s' : FS R} {e : Exc}
    (h : runBody body s none = .exc s' e) (he : e ≠ .rpConcurrentUpdate) :
    reloadLoop committed body (n + 1) s = .exc s' e := by
  conv => lhs; unfold reloadLoop
  rw [h]
  cases e <;> first | rfl | exact absurd rfl he

/-- what `mainTxnWithFault` does with the outcome of the first attempt under a fault at position `k` -/
def faultStep (db : DB R) (allocs : List AllocReq) (kind : Kind) : Out (FS R) → Res (FS R)
  | .fault sk =>
    match kind with
    | .other => { state := FS.ofRequest db allocs, error := none, faulted := true }
    | .deadlock false =>
      finishOuter (FS.ofRequest db allocs) (reloadLoop db (setAllocStmts allocs) retryCount sk)
    | .deadlock true =>
      finishOuter (FS.ofRequest db allocs)
        (reloadLoop db (setAllocStmts allocs) retryCount (FS.rollback (FS.ofRequest db allocs) sk))
  | .exc s' e =>
    if e = .rpConcurrentUpdate then
      finishOuter (FS.ofRequest db allocs) (reloadLoop db (setAllocStmts allocs) (retryCount - 1)
        { s' with rpGen := s'.rpGen.map (fun p => (p.1, ((db.rpById p.1).map (·.gen)).getD p.2)) })
    else { state := FS.ofRequest db allocs, error := some e }
  | .done s => { state := s, error := none }

theorem mainTxn_some (db : DB R) (cons : ConsRow) (attr : ReqAttr) (allocs : List AllocReq) (k : Nat) (kind : Kind) :
    mainTxnWithFault db cons attr allocs (some (k, kind)) =
      faultStep db allocs kind (runBody (setAllocStmts allocs) (preState db cons attr allocs) (some k)) := by
  unfold mainTxnWithFault
  dsimp only
  generalize hr : runBody (setAllocStmts (R := R) allocs) _ (some k) = o
  have hr' : runBody (setAllocStmts allocs) (preState db cons attr allocs) (some k) = o := hr
  rw [hr']
  cases o with
  | done s => rfl
  | fault sk =>
    unfold faultStep finishOuter
    cases kind with
    | other => rfl
    | deadlock b =>
      cases b
      · dsimp only
        generalize reloadLoop db (setAllocStmts allocs) _ _ = o2
        cases o2 <;> rfl
      · dsimp only
        generalize reloadLoop db (setAllocStmts allocs) _ _ = o2
        cases o2 <;> rfl
  | exc s e =>
    unfold faultStep finishOuter
    dsimp only
    by_cases he : e = .rpConcurrentUpdate
    · subst he
      simp only [↓reduceIte]
      generalize reloadLoop db (setAllocStmts allocs) _ _ = o2
      cases o2 <;> rfl
    · rw [if_neg he]
      cases e <;> first | rfl | exact absurd rfl he

theorem mainTxn_other (db : DB R) (cons : ConsRow) (attr : ReqAttr) (allocs : List AllocReq) (k : Nat) (sk : FS R)
    (h : runBody (setAllocStmts allocs) (preState db cons attr allocs) (some k) = .fault sk) :
    mainTxnWithFault db cons attr allocs (some (k, .other)) =
      { state := FS.ofRequest db allocs, error := none, faulted := true } := by
  rw [mainTxn_some, h]
  rfl

theorem mainTxn_not_reached (db : DB R) (cons : ConsRow) (attr : ReqAttr) (allocs : List AllocReq) (k : Nat)
    (kind : Kind)
    (h : ∀ sk, runBody (setAllocStmts allocs) (preState db cons attr allocs) (some k) ≠ .fault sk) :
    mainTxnWithFault db cons attr allocs (some (k, kind)) = mainTxnWithFault db cons attr allocs none := by
  rw [mainTxn_none, mainTxn_some]
  cases hr : runBody (setAllocStmts allocs) (preState db cons attr allocs) (some k) with
  | fault sk => exact absurd hr (h sk)
  | done s =>
    have := runBody_some_done _ _ _ _ hr
    rw [show retryCount = 9 + 1 from rfl, reloadLoop_done this]
    rfl
  | exc s e =>
    have := runBody_some_exc _ _ _ _ _ hr
    unfold faultStep
    dsimp only
    by_cases he : e = .rpConcurrentUpdate
    · subst he
      rw [show retryCount = 9 + 1 from rfl, reloadLoop_exc_rp this]
      rfl
    · rw [show retryCount = 9 + 1 from rfl, reloadLoop_exc_other this he, if_neg he]
      rfl

/-! ### a fault before the first generation increment -/

/-- `sk` differs from `s` only in allocation rows of the consumers `us` -/
def Early (us : List Nat) (s sk : FS R) : Prop :=
  ∃ l, sk = setAllocsFS s l ∧
    l.filter (fun a => !us.contains a.consumer) = s.db.allocs.filter (fun a => !us.contains a.consumer)

theorem Early.refl (us : List Nat) (s : FS R) : Early us s s := ⟨s.db.allocs, rfl, rfl⟩

theorem early_del {us : List Nat} {s1 s s' : FS R} {u : Nat} (hu : u ∈ us) (h : Early us s1 s)
    (e : delStmt u s = .ok s') : Early us s1 s' := by
  obtain ⟨l, rfl, hl⟩ := h
  simp only [delStmt, Except.ok.injEq] at e
  subst e
  refine ⟨l.filter (·.consumer != u), rfl, ?_⟩
  rw [← hl, List.filter_filter]
  apply List.filter_congr
  intro a _
  by_cases ha : a.consumer = u
  · simp [ha, hu]
  · simp [ha]

theorem early_check {us : List Nat} {s1 s s' : FS R} {allocs : List AllocReq} (h : Early us s1 s)
    (e : checkStmt allocs s = .ok s') : Early us s1 s' := by
  unfold checkStmt at e
  split at e
  · cases e; exact h
  · cases e

theorem early_ins {us : List Nat} {s1 s s' : FS R} {a : AllocReq} (hu : a.consUuid ∈ us) (h : Early us s1 s)
    (e : insStmt a s = .ok s') : Early us s1 s' := by
  obtain ⟨l, rfl, hl⟩ := h
  unfold insStmt at e
  split at e
  · cases e
  · rename_i rc _
    simp only [Except.ok.injEq] at e
    subst e
    refine ⟨l ++ [{ rp := a.rpId, rc := rc, consumer := a.consUuid, used := a.used }], rfl, ?_⟩
    rw [List.filter_append, hl]
    simp [hu]

/-- every statement before the first generation increment keeps `Early` -/
theorem early_writeStmts (allocs : List AllocReq) (s1 : FS R) :
    ∀ st ∈ writeStmts (R := R) allocs, ∀ s s', Early (allocs.map (·.consUuid)).eraseDups s1 s → st s = .ok s' →
      Early (allocs.map (·.consUuid)).eraseDups s1 s' := by
  intro st hst s s' hs e
  unfold writeStmts at hst
  rw [List.mem_append, List.mem_append] at hst
  rcases hst with (hd | hc) | hi
  · obtain ⟨u, hu, rfl⟩ := List.mem_map.1 hd
    exact early_del hu hs e
  · rw [List.mem_singleton] at hc
    subst hc
    exact early_check hs e
  · obtain ⟨a, ha, rfl⟩ := List.mem_map.1 hi
    refine early_ins ?_ hs e
    rw [List.mem_eraseDups]
    exact List.mem_map.2 ⟨a, (List.mem_filter.1 ha).1, rfl⟩

/-- the state in which a fault at a position `k ≤ firstIncPos` fires -/
theorem early_at_fault (allocs : List AllocReq) (s1 sk : FS R) (k : Nat) (hk : k ≤ firstIncPos allocs)
    (h : runBody (setAllocStmts allocs) s1 (some k) = .fault sk) :
    Early (allocs.map (·.consUuid)).eraseDups s1 sk := by
  rw [setAllocStmts_eq] at h
  exact runBody_fault_inv (Early (allocs.map (·.consUuid)).eraseDups s1) _ _ s1 sk k
    (early_writeStmts allocs s1) (by rw [writeStmts_length]; exact hk) (Early.refl _ _) h

/-- **re-running on top of early partial effects is re-running from the start**: the body begins by
deleting every allocation row of the request's consumers -/
theorem runBody_early (allocs : List AllocReq) (s1 sk : FS R)
    (h : Early (allocs.map (·.consUuid)).eraseDups s1 sk) :
    runBody (setAllocStmts allocs) sk none = runBody (setAllocStmts allocs) s1 none := by
  obtain ⟨l, rfl, hl⟩ := h
  rw [setAllocStmts_eq]
  unfold writeStmts
  simp only [List.append_assoc]
  rw [runBody_append_done (runBody_dels _ _), runBody_append_done (runBody_dels _ _)]
  have : setAllocsFS (setAllocsFS s1 l)
      ((setAllocsFS s1 l).db.allocs.filter (fun a => !(allocs.map (·.consUuid)).eraseDups.contains a.consumer)) =
      setAllocsFS s1 (s1.db.allocs.filter (fun a => !(allocs.map (·.consUuid)).eraseDups.contains a.consumer)) := by
    show setAllocsFS s1 (l.filter _) = _
    rw [hl]
  rw [this]

theorem reloadLoop_congr {committed : DB R} {body : List (Stmt (FS R))} {s s' : FS R}
    (h : runBody body s none = runBody body s' none) (n : Nat) :
    reloadLoop committed body (n + 1) s = reloadLoop committed body (n + 1) s' := by
  unfold reloadLoop
  rw [h]

/-- **deadlock without rollback before the first generation increment**: exactly once -/
theorem mainTxn_deadlock_early (db : DB R) (cons : ConsRow) (attr : ReqAttr) (allocs : List AllocReq) (k : Nat)
    (sk : FS R) (hk : k ≤ firstIncPos allocs)
    (h : runBody (setAllocStmts allocs) (preState db cons attr allocs) (some k) = .fault sk) :
    mainTxnWithFault db cons attr allocs (some (k, .deadlock false)) =
      mainTxnWithFault db cons attr allocs none := by
  have he := runBody_early allocs _ sk (early_at_fault allocs _ sk k hk h)
  rw [mainTxn_none, mainTxn_some, h]
  unfold faultStep
  dsimp only
  rw [show retryCount = 9 + 1 from rfl, reloadLoop_congr he 9]

/-- **deadlock with server-side rollback before the first generation increment**: the request is
applied exactly once, but WITHOUT `update_consumers` - the result is the fault-free result of the same
request carrying any attributes `attr'` that `update_consumers` would not have written -/
theorem mainTxn_rollback_early (db : DB R) (cons : ConsRow) (attr attr' : ReqAttr) (allocs : List AllocReq) (k : Nat)
    (sk : FS R) (hpre : updateConsumer db cons attr' = db) (hk : k ≤ firstIncPos allocs)
    (h : runBody (setAllocStmts allocs) (preState db cons attr allocs) (some k) = .fault sk) :
    mainTxnWithFault db cons attr allocs (some (k, .deadlock true)) =
      mainTxnWithFault db cons attr' allocs none := by
  obtain ⟨l, hl, -⟩ := early_at_fault allocs _ sk k hk h
  have hs1 : preState db cons attr' allocs = FS.ofRequest db allocs := by
    unfold preState; rw [hpre]; rfl
  have hrb : FS.rollback (FS.ofRequest db allocs) sk = preState db cons attr' allocs := by
    rw [hl, hs1]; rfl
  rw [mainTxn_none, mainTxn_some, h]
  unfold faultStep
  dsimp only
  rw [hrb]

/-- attributes equal to the stored ones: `update_consumers` writes nothing -/
def keepAttr (cons : ConsRow) : ReqAttr := { project := cons.project, user := cons.user, ctype := none }

theorem updateConsumer_keepAttr (db : DB R) (cons : ConsRow) : updateConsumer db cons (keepAttr cons) = db := by
  unfold updateConsumer keepAttr
  simp

end Placement.FaultL
