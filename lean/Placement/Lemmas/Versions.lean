/-
  Helper lemmas for Props/C14.lean: finite checks of the generated tables (by kernel evaluation) and
  the general facts about `availability` derived from them.
-/
import Placement.Model.Versions

namespace Placement.Versions
open Placement.Gen

/-- VERSIONS is exactly 1.0 … 1.39, in order. -/
theorem versionMinors_eq_range : versionMinors = List.range 40 := by decide

theorem maxMinor_eq : maxMinor = 39 := by decide
theorem minMinor_eq : minMinor = 0 := by decide

theorem mem_versionMinors {v : Nat} : v ∈ versionMinors ↔ v ≤ maxMinor := by
  rw [versionMinors_eq_range, maxMinor_eq, List.mem_range]; omega

/-- an ascending chain of windows without holes that ends at the maximum version -/
def chainOk : List Window → Bool
  | [] => false
  | [w] => decide (w.lo ≤ w.hi) && decide (w.hi = maxMinor)
  | w :: w' :: rest => decide (w.lo ≤ w.hi) && decide (w.hi + 1 = w'.lo) && chainOk (w' :: rest)

def firstLo : List Window → Nat
  | [] => maxMinor + 1
  | w :: _ => w.lo

/-- such a chain serves exactly the versions from its first `lo` up to the maximum (all versions, by
induction on the chain) -/
theorem chain_cover : ∀ (ws : List Window), chainOk ws = true → ∀ v, v ≤ maxMinor →
    (ws.any (fun w => inWindow w v) = true ↔ firstLo ws ≤ v)
  | [], h, _, _ => by simp [chainOk] at h
  | [w], h, v, hv => by
      simp [chainOk] at h
      simp [inWindow, firstLo]
      omega
  | w :: w' :: rest, h, v, hv => by
      simp [chainOk] at h
      have ih := chain_cover (w' :: rest) h.2 v hv
      rw [List.any_cons, Bool.or_eq_true, ih]
      simp [inWindow, firstLo]
      omega

/-- table check: the windows registered for the handler of every versioned route form such a chain
(the generated list is ordered by handler and `lo`), and `introducedAt` is the chain's first version -/
theorem windows_chain_table :
    ∀ r ∈ routes, r.versioned = true →
      chainOk (windowsOf r.hid) = true ∧ introducedAt r.hid = firstLo (windowsOf r.hid) := by
  decide +kernel

theorem inSomeWindow_iff {r : Route} (hr : r ∈ routes) (hver : r.versioned = true) {v : Nat}
    (hv : v ≤ maxMinor) : inSomeWindow r.hid v = true ↔ introducedAt r.hid ≤ v := by
  obtain ⟨hc, hi⟩ := windows_chain_table r hr hver
  rw [hi]
  exact chain_cover _ hc v hv

theorem findRoute_mem {p m : String} {r : Route} (hf : findRoute p m = some r) : r ∈ routes := by
  unfold findRoute at hf
  exact List.mem_of_find?_eq_some hf

theorem statusAvail_ne_ok (s : Nat) : statusAvail s ≠ .ok := by
  unfold statusAvail; split <;> simp

theorem availability_none {p m : String} {v : Nat} (hf : findRoute p m = none) :
    availability p m v = if pathDeclared p then .notAllowed405 else .notFound404 := by
  unfold availability; rw [hf]

theorem availability_some {p m : String} {v : Nat} {r : Route} (hf : findRoute p m = some r) :
    availability p m v =
      if r.versioned then (if inSomeWindow r.hid v then .ok else statusAvail r.missStatus) else .ok := by
  unfold availability; rw [hf]

theorem availability_none_ne_ok {p m : String} {v : Nat} (hf : findRoute p m = none) :
    availability p m v ≠ .ok := by
  rw [availability_none hf]; split <;> simp

/-- `availability` answers `ok` exactly for a declared (path, method) that is unversioned or whose
first window has started. -/
theorem availability_ok_iff {p m : String} {v : Nat} (hv : v ≤ maxMinor) :
    availability p m v = .ok ↔
      ∃ r, findRoute p m = some r ∧ (r.versioned = false ∨ introducedAt r.hid ≤ v) := by
  cases hf : findRoute p m with
  | none =>
    constructor
    · intro h; exact absurd h (availability_none_ne_ok hf)
    · rintro ⟨r, hr, _⟩; simp at hr
  | some r =>
    have hmem := findRoute_mem hf
    rw [availability_some hf]
    by_cases hver : r.versioned = true
    · by_cases hw : inSomeWindow r.hid v = true
      · have hi := (inSomeWindow_iff hmem hver hv).mp hw
        simp [hver, hw, hi]
      · have hi : ¬ introducedAt r.hid ≤ v := fun h => hw ((inSomeWindow_iff hmem hver hv).mpr h)
        simp [hver, hw, hi, statusAvail_ne_ok]
    · simp at hver
      simp [hver]

end Placement.Versions
