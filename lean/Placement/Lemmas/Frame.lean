import Placement.Lemmas.ForestStep
/-
  What every request that is not a provider create/update/delete does to the provider and consumer
  tables, as far as C09 and C10 care: provider rows keep every column except `gen`, which can only
  grow (`GenStep`); consumer rows keep their ids, generations only grow, new rows get fresh ids, rows
  may disappear (`Frame`).  Object layer first, then the handlers.
-/
namespace Placement.Gens
open Placement.Hier
variable {R : Type}

/-- the columns the generation / hierarchy invariants read -/
structure GCore where
  rps : List RpRow
  nextRp : Nat
  consumers : List ConsRow
  nextCons : Nat

def _root_.Placement.DB.gcore (db : DB R) : GCore := ⟨db.rps, db.nextRp, db.consumers, db.nextCons⟩

/-- ids are unique and below the next fresh id (part of `Uniq`) -/
structure Ids (c : GCore) : Prop where
  rpNodup : (c.rps.map (·.id)).Nodup
  rpFresh : ∀ r ∈ c.rps, r.id < c.nextRp
  consNodup : (c.consumers.map (·.id)).Nodup
  consFresh : ∀ x ∈ c.consumers, x.id < c.nextCons

theorem ids_of_uniq {db : DB R} (h : Uniq db) : Ids db.gcore := ⟨h.rpId, h.freshRp, h.consId, h.freshCons⟩
theorem Ids.rpIds {db : DB R} (h : Ids db.gcore) : RpIds db := ⟨h.rpNodup, h.rpFresh⟩

def UniqCons (t : List ConsRow) : Prop := ∀ a ∈ t, ∀ b ∈ t, a.id = b.id → a = b

theorem uniqCons_of_nodup {t : List ConsRow} (h : (t.map (·.id)).Nodup) : UniqCons t := by
  induction t with
  | nil => intro a ha; cases ha
  | cons c t ih =>
    rw [List.map_cons, List.nodup_cons] at h
    intro a ha b hb hab
    have hc : ∀ z ∈ t, z.id ≠ c.id := fun z hz he => h.1 (List.mem_map.mpr ⟨z, hz, he⟩)
    rcases List.mem_cons.mp ha with ha1 | ha1 <;> rcases List.mem_cons.mp hb with hb1 | hb1
    · rw [ha1, hb1]
    · rw [ha1] at hab; exact absurd hab.symm (hc b hb1)
    · rw [hb1] at hab; exact absurd hab (hc a ha1)
    · exact ih h.2 a ha1 b hb1 hab

/-- `t'` is `t` with some generations raised; nothing else differs -/
def GenStep (t t' : List RpRow) : Prop :=
  ∃ g : RpRow → Nat, (∀ r ∈ t, r.gen ≤ g r) ∧ t' = t.map (fun r => { r with gen := g r })

theorem GenStep.refl (t : List RpRow) : GenStep t t :=
  ⟨(·.gen), fun _ _ => Nat.le_refl _, by simp⟩

theorem GenStep.trans {t t1 t2 : List RpRow} (h1 : GenStep t t1) (h2 : GenStep t1 t2) : GenStep t t2 := by
  obtain ⟨g, hg, rfl⟩ := h1
  obtain ⟨g', hg', rfl⟩ := h2
  refine ⟨fun r => g' { r with gen := g r }, ?_, ?_⟩
  · intro r hr
    have := hg' _ (List.mem_map.mpr ⟨r, hr, rfl⟩)
    have := hg r hr
    simp only at *; omega
  · rw [List.map_map]; rfl

theorem GenStep.ids {t t' : List RpRow} (h : GenStep t t') : t'.map (·.id) = t.map (·.id) := by
  obtain ⟨g, -, rfl⟩ := h; rw [List.map_map]; rfl

theorem GenStep.shape {t t' : List RpRow} (h : GenStep t t') : t'.map shape = t.map shape := by
  obtain ⟨g, -, rfl⟩ := h; rw [List.map_map]; rfl

theorem GenStep.mem {t t' : List RpRow} (h : GenStep t t') {r' : RpRow} (hr' : r' ∈ t') :
    ∃ r ∈ t, r.id = r'.id ∧ r.uuid = r'.uuid ∧ r.gen ≤ r'.gen := by
  obtain ⟨g, hg, rfl⟩ := h
  obtain ⟨r, hr, rfl⟩ := List.mem_map.mp hr'
  exact ⟨r, hr, rfl, rfl, hg r hr⟩

/-- relation between the state before and after (part of) a request -/
structure Frame (a b : GCore) : Prop where
  rps : GenStep a.rps b.rps
  nextRp : b.nextRp = a.nextRp
  nextCons : a.nextCons ≤ b.nextCons
  cons : ∀ c' ∈ b.consumers, a.nextCons ≤ c'.id ∨ ∃ c ∈ a.consumers, c.id = c'.id ∧ c.gen ≤ c'.gen
  ids : Ids b

theorem Frame.refl {a : GCore} (h : Ids a) : Frame a a :=
  ⟨GenStep.refl _, rfl, Nat.le_refl _, fun c hc => .inr ⟨c, hc, rfl, Nat.le_refl _⟩, h⟩

theorem Frame.trans {a b c : GCore} (h1 : Frame a b) (h2 : Frame b c) : Frame a c := by
  refine ⟨h1.rps.trans h2.rps, h2.nextRp.trans h1.nextRp, Nat.le_trans h1.nextCons h2.nextCons, ?_, h2.ids⟩
  intro c'' hc''
  rcases h2.cons c'' hc'' with h | ⟨c', hc', hid, hle⟩
  · exact .inl (Nat.le_trans h1.nextCons h)
  · rcases h1.cons c' hc' with h | ⟨c0, hc0, hid0, hle0⟩
    · exact .inl (hid ▸ h)
    · exact .inr ⟨c0, hc0, hid0.trans hid, Nat.le_trans hle0 hle⟩

/-- only the consumer table changes, by a filter -/
theorem Frame.consFilter {a : GCore} (h : Ids a) (p : ConsRow → Bool) :
    Frame a ⟨a.rps, a.nextRp, a.consumers.filter p, a.nextCons⟩ := by
  refine ⟨GenStep.refl _, rfl, Nat.le_refl _, ?_, h.rpNodup, h.rpFresh, ?_, ?_⟩
  · intro c hc; exact .inr ⟨c, (List.mem_filter.mp hc).1, rfl, Nat.le_refl _⟩
  · exact h.consNodup.sublist (List.filter_sublist.map _)
  · intro c hc; exact h.consFresh c (List.mem_filter.mp hc).1

/-- only the consumer table changes, by a map that keeps id and does not lower gen -/
theorem Frame.consMap {a : GCore} (h : Ids a) (f : ConsRow → ConsRow) (hid : ∀ c, (f c).id = c.id)
    (hgen : ∀ c ∈ a.consumers, c.gen ≤ (f c).gen) :
    Frame a ⟨a.rps, a.nextRp, a.consumers.map f, a.nextCons⟩ := by
  refine ⟨GenStep.refl _, rfl, Nat.le_refl _, ?_, h.rpNodup, h.rpFresh, ?_, ?_⟩
  · intro c' hc'
    obtain ⟨c, hc, rfl⟩ := List.mem_map.mp hc'
    exact .inr ⟨c, hc, (hid c).symm, hgen c hc⟩
  · show ((a.consumers.map f).map (·.id)).Nodup
    rw [List.map_map]
    have : ((fun x => x.id) ∘ f) = (fun x : ConsRow => x.id) := funext hid
    rw [this]; exact h.consNodup
  · intro c' hc'
    obtain ⟨c, hc, rfl⟩ := List.mem_map.mp hc'
    rw [hid]; exact h.consFresh c hc

/-- a consumer row with the next fresh id is appended -/
theorem Frame.consAppend {a : GCore} (h : Ids a) (row : ConsRow) (hrow : row.id = a.nextCons) :
    Frame a ⟨a.rps, a.nextRp, a.consumers ++ [row], a.nextCons + 1⟩ := by
  refine ⟨GenStep.refl _, rfl, Nat.le_succ _, ?_, h.rpNodup, h.rpFresh, ?_, ?_⟩
  · intro c hc
    rcases List.mem_append.mp hc with hc1 | hc1
    · exact .inr ⟨c, hc1, rfl, Nat.le_refl _⟩
    · rw [List.mem_singleton.mp hc1, hrow]; exact .inl (Nat.le_refl _)
  · show ((a.consumers ++ [row]).map (·.id)).Nodup
    rw [List.map_append, List.nodup_append]
    refine ⟨h.consNodup, by simp, ?_⟩
    intro x hx y hy
    obtain ⟨c, hc, rfl⟩ := List.mem_map.mp hx
    simp only [List.map_cons, List.map_nil, List.mem_singleton] at hy
    have := h.consFresh c hc
    omega
  · intro c hc
    show c.id < a.nextCons + 1
    rcases List.mem_append.mp hc with hc1 | hc1
    · have := h.consFresh c hc1; omega
    · rw [List.mem_singleton.mp hc1]; omega

/-- only provider generations change -/
theorem Frame.ofGenStep {a : GCore} (h : Ids a) {t' : List RpRow} (hg : GenStep a.rps t') :
    Frame a ⟨t', a.nextRp, a.consumers, a.nextCons⟩ := by
  refine ⟨hg, rfl, Nat.le_refl _, fun c hc => .inr ⟨c, hc, rfl, Nat.le_refl _⟩, ?_, ?_, h.consNodup, h.consFresh⟩
  · show (t'.map (·.id)).Nodup
    rw [hg.ids]; exact h.rpNodup
  · intro r' hr'
    obtain ⟨r, hr, hid, -, -⟩ := hg.mem hr'
    rw [← hid]; exact h.rpFresh r hr

/-! ### compare-and-swap increments -/

theorem incRpGen_ok {db db' : DB R} {id gen : Nat} (h : incRpGen db id gen = .ok db') :
    (∃ r0 ∈ db.rps, r0.id = id ∧ r0.gen = gen) ∧ db' = db.setRp id (fun r => { r with gen := gen + 1 }) := by
  unfold incRpGen at h
  split at h
  · rename_i r0 hr0
    have := List.find?_some hr0
    simp only [Bool.and_eq_true, beq_iff_eq] at this
    exact ⟨⟨r0, List.mem_of_find?_eq_some hr0, this.1, this.2⟩, by simpa using h.symm⟩
  · cases h

theorem incRpGen_error {db : DB R} {id gen : Nat} {e : Exc} (h : incRpGen db id gen = .error e) :
    e = .rpConcurrentUpdate := by
  unfold incRpGen at h
  split at h
  · cases h
  · cases h; rfl

theorem setRp_genStep {t : List RpRow} (hu : UniqId t) {id gen : Nat} (h0 : ∃ r0 ∈ t, r0.id = id ∧ r0.gen = gen) :
    GenStep t (t.map (fun r => if r.id == id then { r with gen := gen + 1 } else r)) := by
  obtain ⟨r0, hr0, hid0, hgen0⟩ := h0
  refine ⟨fun r => if r.id == id then gen + 1 else r.gen, ?_, ?_⟩
  · intro r hr
    by_cases hid : r.id = id
    · have : r = r0 := hu r hr r0 hr0 (hid.trans hid0.symm)
      subst this; simp [hid, hgen0]
    · simp [hid]
  · apply List.map_congr_left; intro r _
    by_cases hid : r.id = id <;> simp [hid]

theorem incRpGen_frame {db db' : DB R} {id gen : Nat} (h : incRpGen db id gen = .ok db')
    (hI : Ids db.gcore) : Frame db.gcore db'.gcore := by
  obtain ⟨h0, rfl⟩ := incRpGen_ok h
  exact Frame.ofGenStep hI (setRp_genStep (uniqId_of_nodup hI.rpNodup) h0)

theorem incConsGen_ok {db db' : DB R} {id gen : Nat} (h : incConsGen db id gen = .ok db') :
    (∃ c0 ∈ db.consumers, c0.id = id ∧ c0.gen = gen) ∧
    db' = { db with consumers := db.consumers.map (fun c => if c.id == id then { c with gen := gen + 1 } else c) } := by
  unfold incConsGen at h
  split at h
  · rename_i c0 hc0
    have := List.find?_some hc0
    simp only [Bool.and_eq_true, beq_iff_eq] at this
    exact ⟨⟨c0, List.mem_of_find?_eq_some hc0, this.1, this.2⟩, by simpa using h.symm⟩
  · cases h

theorem incConsGen_frame {db db' : DB R} {id gen : Nat} (h : incConsGen db id gen = .ok db')
    (hI : Ids db.gcore) : Frame db.gcore db'.gcore := by
  obtain ⟨⟨c0, hc0, hid0, hgen0⟩, rfl⟩ := incConsGen_ok h
  refine Frame.consMap hI _ (fun c => by split <;> rfl) ?_
  intro c hc
  by_cases hid : c.id = id
  · have : c = c0 := uniqCons_of_nodup hI.consNodup c hc c0 hc0 (hid.trans hid0.symm)
    subst this; simp [hid, hgen0]
  · simp [hid]

theorem incRpGens_frame : ∀ {l : List (Nat × Nat)} {db db' : DB R}, incRpGens db l = .ok db' →
    Ids db.gcore → Frame db.gcore db'.gcore
  | [], db, db', h, hI => by simp only [incRpGens, Except.ok.injEq] at h; subst h; exact Frame.refl hI
  | (id, gen) :: rest, db, db', h, hI => by
    simp only [incRpGens, bind, Except.bind] at h
    split at h
    · cases h
    · rename_i db1 h1
      have f1 := incRpGen_frame h1 hI
      exact f1.trans (incRpGens_frame h f1.ids)

theorem incConsGens_frame : ∀ {l : List (Nat × Nat)} {db db' : DB R}, incConsGens db l = .ok db' →
    Ids db.gcore → Frame db.gcore db'.gcore
  | [], db, db', h, hI => by simp only [incConsGens, Except.ok.injEq] at h; subst h; exact Frame.refl hI
  | (id, gen) :: rest, db, db', h, hI => by
    simp only [incConsGens, bind, Except.bind] at h
    split at h
    · cases h
    · rename_i db1 h1
      have f1 := incConsGen_frame h1 hI
      exact f1.trans (incConsGens_frame h f1.ids)

/-! ### inventories, traits, aggregates: some table other than providers/consumers changes, then one CAS -/

theorem setInventory_ok {db db' : DB R} {rp gen : Nat} {invs : List (InvSpec R)}
    (h : setInventory db rp gen invs = .ok db') :
    ∃ db0 : DB R, db0.gcore = db.gcore ∧ incRpGen db0 rp gen = .ok db' := by
  unfold setInventory at h
  simp only [bind, Except.bind] at h
  split at h
  · cases h
  · split at h
    · cases h
    · exact ⟨_, by rfl, h⟩

theorem addInventory_ok {db db' : DB R} {rp gen : Nat} {inv : InvSpec R}
    (h : addInventory db rp gen inv = .ok db') :
    ∃ db0 : DB R, db0.gcore = db.gcore ∧ incRpGen db0 rp gen = .ok db' := by
  unfold addInventory at h
  split at h
  · cases h
  · split at h
    · cases h
    · exact ⟨_, by rfl, h⟩

theorem updateInventory_ok {db db' : DB R} {rp gen : Nat} {inv : InvSpec R}
    (h : updateInventory db rp gen inv = .ok db') :
    ∃ db0 : DB R, db0.gcore = db.gcore ∧ incRpGen db0 rp gen = .ok db' := by
  unfold updateInventory at h
  split at h
  · cases h
  · split at h
    · cases h
    · exact ⟨_, by rfl, h⟩

theorem deleteInventory_ok {db db' : DB R} {rp gen rcName : Nat}
    (h : deleteInventory db rp gen rcName = .ok db') :
    ∃ db0 : DB R, db0.gcore = db.gcore ∧ incRpGen db0 rp gen = .ok db' := by
  unfold deleteInventory at h
  split at h
  · cases h
  · split at h
    · cases h
    · split at h
      · cases h
      · exact ⟨_, by rfl, h⟩

/-- `_set_traits` returns early when the trait set does not change -/
def traitsUnchanged (db : DB R) (rp : Nat) (traits : List Nat) : Bool :=
  ((traits.filter (fun t => !(db.traitsOf rp).contains t)).eraseDups).isEmpty &&
  ((db.traitsOf rp).filter (fun t => !traits.contains t)).isEmpty

theorem setTraits_ok {db db' : DB R} {rp gen : Nat} {traits : List Nat}
    (h : setTraits db rp gen traits = .ok db') :
    (traitsUnchanged db rp traits = true ∧ db' = db) ∨
    (traitsUnchanged db rp traits = false ∧ ∃ db0 : DB R, db0.gcore = db.gcore ∧ incRpGen db0 rp gen = .ok db') := by
  unfold setTraits at h
  dsimp only at h
  split at h
  · rename_i hc
    simp only [Except.ok.injEq] at h
    exact .inl ⟨hc, h.symm⟩
  · rename_i hc
    refine .inr ⟨by simpa [traitsUnchanged] using hc, _, ?_, h⟩; rfl

theorem setAggregates_ok {db db' : DB R} {rp gen : Nat} {aggs : List Nat} {incGen : Bool}
    (h : setAggregates db rp gen aggs incGen = .ok db') :
    (incGen = false ∧ db'.gcore = db.gcore) ∨
    (incGen = true ∧ ∃ db0 : DB R, db0.gcore = db.gcore ∧ incRpGen db0 rp gen = .ok db') := by
  unfold setAggregates at h
  dsimp only at h
  split at h
  · rename_i hc
    refine .inr ⟨hc, _, ?_, h⟩; rfl
  · rename_i hc
    simp only [Except.ok.injEq] at h
    subst h
    exact .inl ⟨by simpa using hc, rfl⟩

theorem frame_of_cas {db db0 db' : DB R} {rp gen : Nat} (hg : db0.gcore = db.gcore)
    (h : incRpGen db0 rp gen = .ok db') (hI : Ids db.gcore) : Frame db.gcore db'.gcore := by
  have := incRpGen_frame h (hg ▸ hI)
  rwa [hg] at this

theorem setInventory_frame {db db' : DB R} {rp gen : Nat} {invs : List (InvSpec R)}
    (h : setInventory db rp gen invs = .ok db') (hI : Ids db.gcore) : Frame db.gcore db'.gcore := by
  obtain ⟨db0, hg, hc⟩ := setInventory_ok h; exact frame_of_cas hg hc hI

theorem addInventory_frame {db db' : DB R} {rp gen : Nat} {inv : InvSpec R}
    (h : addInventory db rp gen inv = .ok db') (hI : Ids db.gcore) : Frame db.gcore db'.gcore := by
  obtain ⟨db0, hg, hc⟩ := addInventory_ok h; exact frame_of_cas hg hc hI

theorem updateInventory_frame {db db' : DB R} {rp gen : Nat} {inv : InvSpec R}
    (h : updateInventory db rp gen inv = .ok db') (hI : Ids db.gcore) : Frame db.gcore db'.gcore := by
  obtain ⟨db0, hg, hc⟩ := updateInventory_ok h; exact frame_of_cas hg hc hI

theorem deleteInventory_frame {db db' : DB R} {rp gen rcName : Nat}
    (h : deleteInventory db rp gen rcName = .ok db') (hI : Ids db.gcore) : Frame db.gcore db'.gcore := by
  obtain ⟨db0, hg, hc⟩ := deleteInventory_ok h; exact frame_of_cas hg hc hI

theorem setTraits_frame {db db' : DB R} {rp gen : Nat} {traits : List Nat}
    (h : setTraits db rp gen traits = .ok db') (hI : Ids db.gcore) : Frame db.gcore db'.gcore := by
  rcases setTraits_ok h with ⟨-, rfl⟩ | ⟨-, db0, hg, hc⟩
  · exact Frame.refl hI
  · exact frame_of_cas hg hc hI

theorem setAggregates_frame {db db' : DB R} {rp gen : Nat} {aggs : List Nat} {incGen : Bool}
    (h : setAggregates db rp gen aggs incGen = .ok db') (hI : Ids db.gcore) : Frame db.gcore db'.gcore := by
  rcases setAggregates_ok h with ⟨-, hg⟩ | ⟨-, db0, hg, hc⟩
  · rw [hg]; exact Frame.refl hI
  · exact frame_of_cas hg hc hI

/-! ### traits and classes: other tables only -/

theorem createTrait_gcore {db db' : DB R} {n : Nat} (h : createTrait db n = .ok db') : db'.gcore = db.gcore := by
  unfold createTrait at h; split at h
  · cases h
  · cases h; rfl

theorem deleteTrait_gcore {db db' : DB R} {n : Nat} (h : deleteTrait db n = .ok db') : db'.gcore = db.gcore := by
  unfold deleteTrait at h
  repeat' split at h
  all_goals first | (cases h; done) | (cases h; rfl)

theorem createRc_gcore {db db' : DB R} {n : Nat} (h : createRc db n = .ok db') : db'.gcore = db.gcore := by
  unfold createRc at h
  repeat' split at h
  all_goals first | (cases h; done) | (cases h; rfl)

theorem deleteRc_gcore {db db' : DB R} {n : Nat} (h : deleteRc db n = .ok db') : db'.gcore = db.gcore := by
  unfold deleteRc at h
  repeat' split at h
  all_goals first | (cases h; done) | (cases h; rfl)

theorem renameRc_gcore {db db' : DB R} {i n : Nat} (h : renameRc db i n = .ok db') : db'.gcore = db.gcore := by
  unfold renameRc at h
  repeat' split at h
  all_goals first | (cases h; done) | (cases h; rfl)

/-! ### allocations -/

theorem deleteConsumersIfNoAllocs_frame (db : DB R) (uuids : List Nat) (hI : Ids db.gcore) :
    Frame db.gcore (deleteConsumersIfNoAllocs db uuids).gcore :=
  Frame.consFilter hI _

theorem deleteConsumerRows_frame (db : DB R) (ids : List Nat) (hI : Ids db.gcore) :
    Frame db.gcore (deleteConsumerRows db ids).gcore :=
  Frame.consFilter hI _

theorem deleteAllocations_frame (db : DB R) (c : Nat) (hI : Ids db.gcore) :
    Frame db.gcore (deleteAllocations db c).gcore :=
  Frame.consFilter hI _

variable [CapOps R]

/-- the parts of `_set_allocations`: allocation rows are replaced (no generation involved), then the
provider CAS loop, the consumer CAS loop and the removal of consumers left without allocations -/
theorem setAllocations_ok {db db' : DB R} {allocs : List AllocReq} (h : setAllocations db allocs = .ok db') :
    ∃ db2 db3 db4 : DB R, db2.gcore = db.gcore ∧
      incRpGens db2 (firstByKey (allocs.map (fun a => (a.rpId, a.rpGen)))) = .ok db3 ∧
      incConsGens db3 (firstByKey (allocs.map (fun a => (a.consId, a.consGen)))) = .ok db4 ∧
      db' = deleteConsumersIfNoAllocs db4 ((allocs.map (·.consUuid)).filter (fun u =>
              !((allocs.filter (fun a => a.used > 0)).map (·.consUuid)).contains u)) := by
  unfold setAllocations at h
  simp only [bind, Except.bind] at h
  split at h
  · cases h
  · split at h
    · cases h
    · split at h
      · cases h
      · rename_i db3 h3
        split at h
        · cases h
        · rename_i db4 h4
          simp only [pure, Except.pure, Except.ok.injEq] at h
          refine ⟨_, db3, db4, ?_, h3, h4, h.symm⟩; rfl

theorem setAllocations_frame {db db' : DB R} {allocs : List AllocReq} (h : setAllocations db allocs = .ok db')
    (hI : Ids db.gcore) : Frame db.gcore db'.gcore := by
  obtain ⟨db2, db3, db4, hg, h3, h4, rfl⟩ := setAllocations_ok h
  have f3 := incRpGens_frame h3 (hg ▸ hI)
  have f4 := incConsGens_frame h4 f3.ids
  have f5 := deleteConsumersIfNoAllocs_frame db4 ((allocs.map (·.consUuid)).filter (fun u =>
              !((allocs.filter (fun a => a.used > 0)).map (·.consUuid)).contains u)) f4.ids
  rw [hg] at f3
  exact (f3.trans f4).trans f5

end Placement.Gens
