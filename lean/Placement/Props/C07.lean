/-
  C07  Concurrent claims are serializable and never jointly over-commit
       (every interleaving at database-transaction granularity, any number of requests).

  * `occ_serializable` (Lemmas/SchedSer.lean) is the generic optimistic-concurrency lemma over
    `Prog`: if every request of the pool is `Ser` - each of its transactions either leaves the state
    unchanged without finishing the request successfully, or finishes it successfully in a way that
    the whole request run alone on that state reproduces - then, for EVERY schedule, the final state
    is the one obtained by running the successfully answered requests one after another, in the order
    in which they finished, and each of them succeeds in that serial execution; every other step
    leaves the state unchanged.
  * `guarded_updates_serializable`: FULL instantiation for pools of generation-guarded inventory and
    aggregate updates (PUT inventories, PUT one inventory, PUT aggregates >= 1.19) on arbitrary
    providers: the serial execution is `Placement.run` of the handlers (`Model/Handlers.lean`).
  * `no_joint_overcommit_guarded`: nothing is over-committed after the concurrent run that is not
    over-committed after that serial execution.
  * `errors_have_no_effect_alloc_writes`: pools of PUT / POST allocation writes whose entries carry
    consumer generations (nobody creates a consumer): every step that does not finish a request with
    2xx leaves the state unchanged - "every request answered with an error has no effect".
  * `C07_witness_transient_consumer` / `C07_full_false`: with allocation writes for a consumer that
    does not exist in the start state serializability FAILS (known findings I, C): the consumer
    created by one request's `ensure_consumer` transaction is visible to the others, and a failing
    creator deletes it unconditionally.
  * `C07_alloc_writes_existing`: the statement for allocation writes on consumers that exist in the
    start state, with every named project / user / consumer type existing.  NOT PROVED (see the end
    of the file for what is missing).
-/
import Placement.Lemmas.GuardTie
import Placement.Lemmas.SchedSerRp
import Placement.Lemmas.SchedQuiet
import Placement.Lemmas.WfExample

namespace Placement.Props.C07
open Placement Placement.Hier Placement.Gens Placement.Sched
variable {R : Type} [CapOps R]
set_option linter.unusedSectionVars false

/-! `guardedUpdate op` (Lemmas/SchedSerRp.lean): PUT inventories, PUT one inventory, PUT aggregates >= 1.19
with a generation.  `opsAt ops order`: the requests of the pool listed in `order`.  `okOrder`: the
requests that finish with a 2xx answer, in the order in which they finish (Lemmas/SchedSer.lean). -/

/-- **guarded_updates_serializable.**  Any number of generation-guarded inventory / aggregate updates
in flight together on arbitrary providers, any schedule.  Let `order` be the successfully answered
requests in the order in which they finished.  Then
1. the final state (every table) is that of the handlers executing `order` one after another from the
   start state (`Placement.run`),
2. every request answers 2xx in that serial execution,
3. a request is answered 2xx by the concurrent run iff it occurs in `order`, and it occurs once,
4. every scheduling step that does not finish a request successfully - in particular every step of a
   request answered with an error - leaves the state unchanged. -/
theorem guarded_updates_serializable (cfg : Config) (ops : List (Op R))
    (hops : ∀ op ∈ ops, guardedUpdate op = true) (db : DB R) (hU : Uniq db) (sched : List Nat) :
    let pool := ops.map (prog cfg)
    let fin := Prog.runSched sched db pool
    let order := okOrder Resp.ok sched db pool
    fin.1 = (run cfg db (opsAt ops order)).1 ∧
    (∀ r ∈ (run cfg db (opsAt ops order)).2, r.ok = true) ∧
    (order.Nodup ∧ ∀ i a, fin.2[i]? = some (.done a) → (a.ok = true ↔ i ∈ order)) ∧
    (∀ pre j post, sched = pre ++ j :: post →
      finishesOk Resp.ok (Prog.runSched pre db pool).2 j (Prog.runSched pre db pool).1 = false →
      (Prog.runSched (pre ++ [j]) db pool).1 = (Prog.runSched pre db pool).1) := by
  intro pool fin order
  have hpoolEvo : ∀ op ∈ ops, All (QEvo (R := R) (fun _ => True)) (prog cfg op) := fun op hop =>
    prog_evo cfg op (guardedUpdate_not_provider (hops op hop)) (fun _ _ => trivial)
  let o : Nat → Option Nat := fun u => rpIdOf db u
  have hw : WAll o db := ⟨ids_of_uniq hU, fun _ => rfl⟩
  have hW : ∀ (i : Nat) (s : DB R), WAll o s → WAll o (Prog.runSeq serFuel (progAt cfg ops i) s).1 := by
    intro i s hs
    have hall : All (QEvo (R := R) (fun _ => True)) (progAt cfg ops i) := by
      unfold progAt
      rw [List.getElem?_map]
      cases hg : ops[i]? with
      | none => exact .done _
      | some op => exact hpoolEvo op (List.mem_of_getElem? hg)
    exact All.runSeq_inv (WAll o) (fun s s' q h => h.evo q) serFuel hall s hs
  have hser : ∀ i p, pool[i]? = some p → Ser (WAll o) Resp.ok serFuel (progAt cfg ops i) p := by
    intro i p hp
    have hp' : progAt cfg ops i = p := by unfold progAt; rw [show (ops.map (prog cfg))[i]? = some p from hp]; rfl
    rw [hp']
    rw [List.getElem?_map] at hp
    cases hg : ops[i]? with
    | none => rw [hg] at hp; cases hp
    | some op =>
      rw [hg] at hp
      cases hp
      exact guardedUpdate_ser cfg (hops op (List.mem_of_getElem? hg)) o
  obtain ⟨h1, h2, h3⟩ := occ_serializable (progAt cfg ops) hW sched db pool hw hser
  have hlt : ∀ i ∈ order, i < ops.length := by
    intro i hi
    obtain ⟨a, ha, -⟩ := okOrder_spec sched db pool i hi
    have := (List.getElem?_eq_some_iff.mp ha).1
    rw [runSched_length, List.length_map] at this
    exact this
  obtain ⟨e1, e2⟩ := serial_eq_run cfg ops hops order db hlt
  refine ⟨h1.trans e1, e2 h2, ⟨okOrder_nodup sched db pool, ?_⟩, ?_⟩
  · intro i a hia
    constructor
    · intro hok
      have hi : i < ops.length := by
        have := (List.getElem?_eq_some_iff.mp hia).1
        rw [runSched_length, List.length_map] at this
        exact this
      exact mem_okOrder sched db pool i a (pending_pool cfg ops hops hi) hia hok
    · intro hi
      obtain ⟨b, hb, hokb⟩ := okOrder_spec sched db pool i hi
      have : a = b := by
        have := hia.symm.trans hb
        cases this; rfl
      rw [this]; exact hokb
  · intro pre j post hs hf
    exact quietElse_split pre j post db pool (hs ▸ h3) hf

/-- **no_joint_overcommit_guarded.**  After any concurrent run of guarded updates an inventory is
over-committed exactly if it is over-committed after the serial execution of the successful requests
in their finishing order. -/
theorem no_joint_overcommit_guarded (cfg : Config) (ops : List (Op R))
    (hops : ∀ op ∈ ops, guardedUpdate op = true) (db : DB R) (hU : Uniq db) (sched : List Nat) (rp rc : Nat) :
    OverCommitted (Prog.runSched sched db (ops.map (prog cfg))).1 rp rc ↔
    OverCommitted (run cfg db (opsAt ops (okOrder Resp.ok sched db (ops.map (prog cfg))))).1 rp rc := by
  rw [(guarded_updates_serializable cfg ops hops db hU sched).1]

/-- **errors_have_no_effect_alloc_writes.**  Any number of PUT /allocations/{c} and POST /allocations
requests (>= 1.28) in flight together, for ANY consumers, each entry carrying a consumer generation
(so that no request creates a consumer) and naming projects, users and consumer types that exist in the
start state (`allocWriteAux`, Lemmas/SchedQuiet.lean).  Under every schedule, every scheduling step
that does not finish a request with a 2xx answer leaves the whole state unchanged: a request answered
with an error (stale consumer or provider generation, capacity exceeded, unknown provider, ...) has
no effect, and the reads of the successful requests have none either. -/
theorem errors_have_no_effect_alloc_writes (cfg : Config) (ops : List (Op R)) (Ps Us Ts : List Nat)
    (hops : ∀ op ∈ ops, allocWriteAux cfg Ps Us Ts op) (db : DB R)
    (hdb : (∀ p ∈ Ps, p ∈ db.projects) ∧ (∀ u ∈ Us, u ∈ db.users) ∧ (∀ t ∈ Ts, t ∈ db.ctypes)) (sched : List Nat) :
    ∀ pre j post, sched = pre ++ j :: post →
      finishesOk Resp.ok (Prog.runSched pre db (ops.map (prog cfg))).2 j (Prog.runSched pre db (ops.map (prog cfg))).1 = false →
      (Prog.runSched (pre ++ [j]) db (ops.map (prog cfg))).1 = (Prog.runSched pre db (ops.map (prog cfg))).1 := by
  intro pre j post hs hf
  have hq := quo_quietElse (W := WAux (R := R) Ps Us Ts) (ok := Resp.ok) sched db (ops.map (prog cfg)) hdb (by
    intro i p hp
    rw [List.getElem?_map] at hp
    cases hg : ops[i]? with
    | none => rw [hg] at hp; cases hp
    | some op =>
      rw [hg] at hp
      cases hp
      exact allocWriteAux_qa cfg (hops op (List.mem_of_getElem? hg)))
  exact quietElse_split pre j post db _ (hs ▸ hq) hf

/-! ## The hypotheses are satisfiable -/

section examples
open Placement.Wf

def exInv (total : Int) : InvSpec Nat :=
  { rcName := 0, total := total, reserved := 0, minUnit := 1, maxUnit := 8, stepSize := 1, ratio := 1 }

/-- two PUT inventories and a PUT inventory on provider 101 (generation 3), a PUT aggregates on
provider 102 (generation 1) and a stale PUT inventories on provider 102 -/
def exPool : List (Op Nat) :=
  [.invSet 39 101 3 [exInv 10], .invSet 39 101 3 [exInv 12], .invUpdate 39 101 3 (exInv 14),
   .aggsSet 39 102 (some 1) [900, 901], .invSet 39 102 0 []]

example : ∀ op ∈ exPool, guardedUpdate op = true := by decide

/-- all read first, then the writes in the order 3, 1, 0, 2, 4: requests 3 and 1 succeed, in that order -/
example : okOrder Resp.ok [0, 1, 2, 3, 4, 3, 1, 0, 2] exDb (exPool.map (prog exCfg)) = [3, 1] := by decide

def exW (n : Int) : ConsumerReq :=
  { uuid := 500, project := some 7, user := some 8, ctype := none, gen := some 1, allocs := [(101, 0, n)] }

/-- three writes to consumer 500 (one of them beyond capacity) -/
def exPoolA : List (Op Nat) := [.allocPut 39 (exW 3), .allocPut 39 (exW 9), .allocPost 39 [exW 4]]

example : ∀ op ∈ exPoolA, allocWriteAux exCfg [7] [8] [] op := by
  intro op hop
  simp only [exPoolA, List.mem_cons, List.mem_nil_iff, or_false] at hop
  rcases hop with rfl | rfl | rfl
  · exact ⟨by decide, rfl, by decide, by decide, fun t h => by cases h⟩
  · exact ⟨by decide, rfl, by decide, by decide, fun t h => by cases h⟩
  · refine ⟨by decide, fun c hc => ?_⟩
    rw [List.mem_singleton.mp hc]
    exact ⟨rfl, by decide, by decide, fun t h => by cases h⟩
example : (∀ p ∈ [7], p ∈ exDb.projects) ∧ (∀ u ∈ [8], u ∈ exDb.users) ∧ (∀ t ∈ ([] : List Nat), t ∈ exDb.ctypes) := by
  decide
/-- request 1 is refused (capacity), request 0 wins, request 2 loses the consumer generation -/
example : (Prog.runSched [1, 1, 1, 1, 1, 0, 0, 0, 2, 2, 2, 0, 0, 2, 2] exDb (exPoolA.map (prog exCfg))).2.map Prog.result? =
    [some r204, some r409, some (r409 .concurrentUpdate)] := by decide

end examples

/-! ## What is false: consumers that do not exist in the start state -/

/-- the property for arbitrary pools of allocation writes and guarded updates: there is an order of
the successfully answered requests whose serial execution by the handlers, from the start state,
gives the final state of the concurrent run with every request succeeding -/
def C07_full : Prop :=
  ∀ (cfg : Config) (ops : List (Op Nat)) (db : DB Nat) (sched : List Nat),
    (∀ op ∈ ops, Wf.OpWF op) → Uniq db → RI db → AllocPos db →
    let fin := Prog.runSched sched db (ops.map (prog cfg))
    (∀ i < ops.length, ∃ a, fin.2[i]? = some (.done a)) →
    ∃ order : List Nat, order.Nodup ∧
      (∀ i, i ∈ order ↔ ∃ a, fin.2[i]? = some (.done a) ∧ a.ok = true) ∧
      (∀ r ∈ (run cfg db (opsAt ops order)).2, r.ok = true) ∧
      (run cfg db (opsAt ops order)).1.allocs = fin.1.allocs ∧
      (run cfg db (opsAt ops order)).1.consumers = fin.1.consumers

def exBig : ConsumerReq :=
  { uuid := 501, project := some 7, user := some 8, ctype := none, gen := none, allocs := [(101, 0, 7)] }
def exSmall : ConsumerReq :=
  { uuid := 501, project := some 7, user := some 8, ctype := none, gen := some 0, allocs := [(101, 0, 2)] }

def transientPool : List (Op Nat) := [.allocPut 39 exBig, .allocPut 39 exSmall]

/-- request 0 creates consumer 501 (its own committed transaction); request 1, carrying generation 0,
finds it, runs completely and writes 2 units (204); request 0 then fails on capacity (2 + 2 + 7 > 8)
and deletes "its" consumer -/
def transientSched : List Nat := [0, 0, 0, 0, 1, 1, 1, 1, 1, 0, 0, 0]

/-- **C07_witness_transient_consumer.**  Answers 409 / 204; the final state holds allocations of
consumer 501 but no consumer 501.  No serial execution of the successful request (request 1 alone:
generation 0 for a consumer that does not exist is refused with 409) produces that. -/
theorem C07_witness_transient_consumer :
    let fin := Prog.runSched transientSched Wf.exDb (transientPool.map (prog Wf.exCfg))
    fin.2.map Prog.result? = [some (r409 .undefined), some r204] ∧
    fin.1.allocs.filter (·.consumer == 501) = [{ rp := 2, rc := 0, consumer := 501, used := 2 }] ∧
    fin.1.consumers.filter (·.uuid == 501) = [] ∧
    (step Wf.exCfg Wf.exDb (.allocPut 39 exSmall)).2 = r409 .concurrentUpdate := by
  decide

theorem C07_full_false : ¬ C07_full := by
  intro h
  obtain ⟨order, hnd, hmem, hok, -, -⟩ := h Wf.exCfg transientPool Wf.exDb transientSched (by decide) Wf.uniq_exDb
    Wf.ri_exDb Wf.allocPos_exDb (by
      intro i hi
      have : i = 0 ∨ i = 1 := by simp [transientPool] at hi; omega
      rcases this with rfl | rfl
      · exact ⟨r409 .undefined, rfl⟩
      · exact ⟨r204, rfl⟩)
  -- the only successful request is request 1, so `order = [1]` up to repetition; alone it is refused
  have h1 : 1 ∈ order := (hmem 1).mpr ⟨r204, rfl, by decide⟩
  have h0 : 0 ∉ order := fun h0 => by
    obtain ⟨a, ha, hoka⟩ := (hmem 0).mp h0
    have : a = r409 .undefined := by
      have e : (Prog.runSched transientSched Wf.exDb (transientPool.map (prog Wf.exCfg))).2[0]? =
          some (.done (r409 .undefined)) := rfl
      rw [e] at ha; cases ha; rfl
    rw [this] at hoka; exact absurd hoka (by decide)
  have hsub : ∀ i ∈ order, i = 1 := by
    intro i hi
    obtain ⟨a, ha, -⟩ := (hmem i).mp hi
    have hlt := (List.getElem?_eq_some_iff.mp ha).1
    rw [runSched_length] at hlt
    have : i = 0 ∨ i = 1 := by simp [transientPool] at hlt; omega
    rcases this with rfl | rfl
    · exact absurd hi h0
    · rfl
  have horder : order = [1] := by
    cases order with
    | nil => cases h1
    | cons x xs =>
      have hx := hsub x List.mem_cons_self
      subst hx
      cases xs with
      | nil => rfl
      | cons y ys =>
        have hy := hsub y (by simp)
        subst hy
        simp at hnd
  subst horder
  have := hok (r409 .concurrentUpdate) (by decide)
  exact absurd this (by decide)

/-! ## Allocation writes on existing consumers: stated, not proved -/

/-- an allocation write all of whose consumers exist in `db`, at a microversion with consumer
generations, whose projects / users / consumer types exist (so that `ensure_consumer` creates nothing) -/
def allocWriteOnExisting (cfg : Config) (db : DB R) : Op R → Prop
  | .allocPut mv c => mv ≥ 28 ∧ (db.consByUuid c.uuid).isSome ∧ reqProject cfg c ∈ db.projects ∧
      reqUser cfg c ∈ db.users ∧ ∀ t, c.ctype = some t → t ∈ db.ctypes
  | .allocPost mv cs => mv ≥ 28 ∧ ∀ c ∈ cs, (db.consByUuid c.uuid).isSome ∧ reqProject cfg c ∈ db.projects ∧
      reqUser cfg c ∈ db.users ∧ ∀ t, c.ctype = some t → t ∈ db.ctypes
  | _ => False

/-- the C07 statement for pools of allocation writes on existing consumers and guarded updates.
Not proved.  Missing: the validation lemma `Ser` for `aNext`/`aMain`, i.e. that a successful main
transaction (provider compare-and-swaps with the server-side retry of `replace_all` on refreshed
provider generations, consumer compare-and-swaps, capacity check on the committed usage) is
reproduced by the whole request run alone on the same state: needs (i) `replaceAll` with partial
effects = `setAllocations` on refreshed objects when it succeeds, (ii) consumer attributes
(`updateConsumers`) on the validated rows = on the re-read rows, (iii) `Wf` of the request for the
object lists.  `consumer_write_sees_generation` (C06) and `guarded_write_sees_generation` (C05) are
the compare-and-swap halves of that lemma. -/
def C07_alloc_writes_existing : Prop :=
  ∀ (cfg : Config) (ops : List (Op Nat)) (db : DB Nat) (sched : List Nat),
    (∀ op ∈ ops, Wf.OpWF op ∧ (guardedUpdate op = true ∨ allocWriteOnExisting cfg db op)) →
    Uniq db → RI db → AllocPos db →
    let fin := Prog.runSched sched db (ops.map (prog cfg))
    let order := okOrder Resp.ok sched db (ops.map (prog cfg))
    (run cfg db (opsAt ops order)).1.rps = fin.1.rps ∧
    (run cfg db (opsAt ops order)).1.invs = fin.1.invs ∧
    (run cfg db (opsAt ops order)).1.allocs = fin.1.allocs ∧
    (run cfg db (opsAt ops order)).1.consumers = fin.1.consumers ∧
    (∀ r ∈ (run cfg db (opsAt ops order)).2, r.ok = true)

/-! ### the server-side retry of allocation writes (generated control flow) -/

/-- `replace_all` returns normally ONLY after an attempt of `_set_allocations` succeeded (an attempt that loses the
provider compare-and-swap never lets the request through, however many were allowed); otherwise it raises the
conflict (409).  Proved of `Gen.replaceAllLoop`, the loop as the source has it today. -/
theorem allocation_write_succeeds_only_by_a_successful_attempt (attempt : Nat → Bool) (r i : Nat) :
    (∃ k, Gen.replaceAllLoop attempt r i = .succeeded k ∧ attempt k = true) ∨
    (Gen.replaceAllLoop attempt r i = .raisedConflict ∧ ∀ j, i ≤ j → j < i + r → attempt j = false) := by
  cases h : Gen.replaceAllLoop attempt r i with
  | succeeded k => exact .inl ⟨k, rfl, (GuardTie.retry_loop_succeeded attempt r i k h).1⟩
  | raisedConflict => exact .inr ⟨rfl, (GuardTie.retry_loop_raises_iff attempt r i).mp h⟩
  | raisedOther => exact absurd h (GuardTie.retry_loop_never_silent attempt r i).2
  | leftWithoutSuccess => exact absurd h (GuardTie.retry_loop_never_silent attempt r i).1

end Placement.Props.C07
