/-
  C12  Consumers exist exactly while they hold allocations.

  "After every completed request a consumer record exists if and only if the consumer holds at least one
  allocation: it is created by its first successful allocation write with the given project, user and
  (from 1.38) consumer type, or with the configured placeholder project and user below 1.8; it is updated
  when a later successful write names a different project, user or type; and it is removed when its last
  allocation is removed by an empty PUT/POST entry, by DELETE, or by a reshape. A consumer that was
  removed, or whose first write was rejected, can again be created by a write carrying
  consumer_generation null."

  Statements over the hand-written model (`Placement.Model.Handlers`, sequential semantics: `step` is one
  completed request).  `ConsIff` is defined in `Placement.Spec.Inv`.  The model mirrors the tree with the
  repairs `fix: delete auto-created consumers when an allocation write names an unknown provider` and
  `fix: do not keep a consumer created for an empty set of allocations`; with them the invariant holds for
  every request, without exclusions.  Requests are well-formed in the sense of `Wf.OpWF` (a consumer uuid
  is a key of the JSON object of POST /allocations and /reshaper, so it occurs once).
  Helper lemmas: `Placement.Lemmas.{ConsIff,ConsAttr}` (one lemma per handler).
-/
import Placement.Lemmas.GuardTie
import Placement.Lemmas.ConsAttrPost
import Placement.Lemmas.WfExample

namespace Placement.Props.C12
open Placement Placement.Wf

variable {R : Type} [CapOps R]

/-! ## the invariant -/

omit [CapOps R] in
theorem consIff_init {stdRcs stdTraits : List Nat} : ConsIff (initDb stdRcs stdTraits : DB R) := Wf.consIff_init

/-- one completed request keeps "a consumer record exists iff the consumer holds an allocation";
all 21 operations, all microversions, every configuration -/
theorem consIff_step {cfg : Config} {db : DB R} (hU : Uniq db) (hR : RI db) (hP : AllocPos db)
    (hC : ConsIff db) (op : Op R) (hwf : OpWF op) : ConsIff (step cfg db op).1 :=
  Wf.consIff_step (wfi_of hU hR hP) hC op hwf

/-- **C12, first clause**: after every completed request of any history of well-formed requests from
the synchronised empty database, a consumer record exists iff the consumer holds an allocation. -/
theorem reach_consIff {cfg : Config} {stdRcs stdTraits : List Nat} (h1 : stdRcs.Nodup) (h2 : stdTraits.Nodup)
    {db : DB R} (h : ReachWF cfg stdRcs stdTraits db) : ConsIff db := Wf.reach_consIff h1 h2 h

/-! ## creation and update of the record -/

/-- project, user and type a request asks for: the configured placeholders when the body names no
project (microversions below 1.8), the type only from 1.38 -/
theorem requested_attributes (cfg : Config) (mv : Nat) (c : ConsumerReq) :
    (c.project = none → reqProject cfg c = cfg.incompleteProject ∧ reqUser cfg c = cfg.incompleteUser) ∧
    (∀ p u, c.project = some p → c.user = some u → reqProject cfg c = p ∧ reqUser cfg c = u) ∧
    (mv < 38 → reqType mv c = none) ∧ (38 ≤ mv → reqType mv c = c.ctype) := by
  refine ⟨?_, ?_, ?_, ?_⟩
  · intro h; simp [reqProject, reqUser, h]
  · intro p u h1 h2; simp [reqProject, reqUser, h1, h2]
  · intro h; have : ¬ mv ≥ 38 := by omega
    simp [reqType, this]
  · intro h; simp [reqType, h]

/-- the first successful write of a consumer creates its record with the requested attributes -/
theorem first_write_creates_consumer {cfg : Config} {db db' : DB R} (hU : Uniq db) (hR : RI db) (hP : AllocPos db)
    {mv : Nat} {c : ConsumerReq} {r : Resp} (hwf : ConsumerReqWF c) (hne : c.allocs.isEmpty = false)
    (hnew : db.consByUuid c.uuid = none)
    (h : step cfg db (.allocPut mv c) = (db', r)) (hs : r.status = 204) :
    (∃ row ∈ db'.consumers, row.uuid = c.uuid) ∧
    ∀ row ∈ db'.consumers, row.uuid = c.uuid →
      row.project = reqProject cfg c ∧ row.user = reqUser cfg c ∧ row.ctype = reqType mv c := by
  refine ⟨put_creates (wfi_of hU hR hP) hwf hne h hs, ?_⟩
  intro row hrow e
  obtain ⟨e1, e2, e3⟩ := put_attrs (wfi_of hU hR hP) h hs row hrow e
  refine ⟨e1, e2, e3.trans ?_⟩
  unfold typeAfterPut
  rw [hnew]
  cases reqType mv c <;> rfl

/-- a later successful write sets project and user to the requested ones and the type to the requested
one (from 1.38; below, the type stays) -/
theorem later_write_updates_consumer {cfg : Config} {db db' : DB R} (hU : Uniq db) (hR : RI db) (hP : AllocPos db)
    {mv : Nat} {c : ConsumerReq} {r : Resp} {cons : ConsRow} (hold : db.consByUuid c.uuid = some cons)
    (h : step cfg db (.allocPut mv c) = (db', r)) (hs : r.status = 204) :
    ∀ row ∈ db'.consumers, row.uuid = c.uuid →
      row.project = reqProject cfg c ∧ row.user = reqUser cfg c ∧
      row.ctype = (match reqType mv c with | some t => some t | none => cons.ctype) := by
  intro row hrow e
  obtain ⟨e1, e2, e3⟩ := put_attrs (wfi_of hU hR hP) h hs row hrow e
  refine ⟨e1, e2, e3.trans ?_⟩
  unfold typeAfterPut
  rw [hold]; rfl

/-- the same for every consumer entry of a successful POST /allocations: project and user as requested
(placeholders when none is named), type as requested from 1.38, else what the record had
(`typeAfterPut`: `none` for a consumer that did not exist) -/
theorem post_sets_attributes {cfg : Config} {db db' : DB R} (hU : Uniq db) (hR : RI db) (hP : AllocPos db)
    {mv : Nat} {cs : List ConsumerReq} {r : Resp} (hwf : OpWF (.allocPost mv cs : Op R))
    (h : step cfg db (.allocPost mv cs) = (db', r)) (hs : r.status = 204) :
    ∀ c ∈ cs, ∀ row ∈ db'.consumers, row.uuid = c.uuid →
      row.project = reqProject cfg c ∧ row.user = reqUser cfg c ∧
      row.ctype = (match reqType mv c with
                   | some t => some t
                   | none => (db.consByUuid c.uuid).bind (·.ctype)) :=
  post_attrs (wfi_of hU hR hP) hwf h hs

/-- ... and of a successful POST /reshaper -/
theorem reshape_sets_attributes {cfg : Config} {db db' : DB R} (hU : Uniq db) (hR : RI db) (hP : AllocPos db)
    {mv : Nat} {invs : List (RpInvReq R)} {cs : List ConsumerReq} {r : Resp}
    (hwf : OpWF (.reshape mv invs cs : Op R))
    (h : step cfg db (.reshape mv invs cs) = (db', r)) (hs : r.status = 204) :
    ∀ c ∈ cs, ∀ row ∈ db'.consumers, row.uuid = c.uuid →
      row.project = reqProject cfg c ∧ row.user = reqUser cfg c ∧
      row.ctype = (match reqType mv c with
                   | some t => some t
                   | none => (db.consByUuid c.uuid).bind (·.ctype)) :=
  reshape_attrs (wfi_of hU hR hP) hwf h hs

/-! ## removal, and re-creation with `consumer_generation: null` -/

/-- whenever a completed request leaves a consumer without allocations (DELETE, an empty PUT/POST entry,
a reshape that moves its last allocation away ...) its record is gone, and a following write with
generation null passes the consumer-generation check: `ensure_consumer` creates the record anew -/
theorem recreate_after_removal {cfg : Config} {db : DB R} (hU : Uniq db) (hR : RI db) (hP : AllocPos db)
    (hC : ConsIff db) (op : Op R) (hwf : OpWF op) {u : Nat}
    (hgone : ∀ a ∈ (step cfg db op).1.allocs, a.consumer ≠ u)
    (mv : Nat) (c : ConsumerReq) (hu : c.uuid = u) (hg : c.gen = none) :
    (step cfg db op).1.consByUuid u = none ∧
    ∃ d row attr, ensureConsumer cfg (step cfg db op).1 mv c = (d, .ok (row, true, attr)) := by
  have hn := no_allocs_no_consumer (consIff_step hU hR hP hC op hwf) hgone
  subst hu
  obtain ⟨d, hd⟩ := gen_null_accepted (cfg := cfg) (mv := mv) hn hg
  exact ⟨hn, d, _, _, hd⟩

/-- DELETE /allocations/{u} removes the last allocations of `u` -/
theorem delete_removes_allocations {cfg : Config} (db : DB R) (u : Nat) :
    ∀ a ∈ (step cfg db (.allocDelete u)).1.allocs, a.consumer ≠ u := delete_no_allocs db u

/-- a successful PUT with an empty `allocations` object removes the allocations of the consumer -/
theorem empty_put_removes_allocations {cfg : Config} {db db' : DB R} (hU : Uniq db) (hR : RI db) (hP : AllocPos db)
    {mv : Nat} {c : ConsumerReq} {r : Resp} (he : c.allocs.isEmpty = true)
    (h : step cfg db (.allocPut mv c) = (db', r)) (hs : r.status = 204) :
    ∀ a ∈ db'.allocs, a.consumer ≠ c.uuid := empty_put_no_allocs (wfi_of hU hR hP) he h hs

/-- a consumer whose first write was rejected has no record afterwards, and a following write with
generation null passes the consumer-generation check -/
theorem recreate_after_rejected_first_write {cfg : Config} {db : DB R} (hU : Uniq db) (hR : RI db)
    (hP : AllocPos db) (hC : ConsIff db) {mv : Nat} {c : ConsumerReq} (hwf : ConsumerReqWF c)
    (hnew : db.consByUuid c.uuid = none) (hrej : (step cfg db (.allocPut mv c)).2.status ≠ 204)
    (mv' : Nat) (c' : ConsumerReq) (hu : c'.uuid = c.uuid) (hg : c'.gen = none) :
    (step cfg db (.allocPut mv c)).1.consByUuid c.uuid = none ∧
    ∃ d row attr, ensureConsumer cfg (step cfg db (.allocPut mv c)).1 mv' c' = (d, .ok (row, true, attr)) := by
  refine recreate_after_removal hU hR hP hC (.allocPut mv c) hwf ?_ mv' c' hu hg
  rw [rejected_put_allocs (wfi_of hU hR hP) hrej]
  intro a ha e
  obtain ⟨x, hx, ex⟩ := hR.allocCons a ha
  exact consByUuid_none hnew x hx (ex.trans e)


/-! ## the hypotheses are satisfiable (concrete state `Wf.exDb`: consumer 500 holds 2 of class 0 on provider 101) -/

/-- a new consumer 501 claims 1 of class 0 on provider 101, with project 70, user 80, type 90 (1.38) -/
def exFirst : ConsumerReq :=
  { uuid := 501, project := some 70, user := some 80, ctype := some 90, gen := none, allocs := [(101, 0, 1)] }

/-- consumer 500 (generation 1) replaces its allocations and names another project and user (1.28) -/
def exLater : ConsumerReq :=
  { uuid := 500, project := some 71, user := some 81, ctype := none, gen := some 1, allocs := [(101, 0, 3)] }

/-- consumer 500 empties its allocations -/
def exEmpty : ConsumerReq :=
  { uuid := 500, project := some 7, user := some 8, ctype := none, gen := some 1, allocs := [] }

/-- a new consumer 502 names a provider that does not exist -/
def exBad : ConsumerReq :=
  { uuid := 502, project := some 7, user := some 8, ctype := none, gen := none, allocs := [(999, 0, 1)] }

example : ConsIff exDb := consIff_exDb

example : ConsIff (step exCfg exDb (.allocPut 38 exFirst)).1 :=
  consIff_step uniq_exDb ri_exDb allocPos_exDb consIff_exDb _ (by decide)

example : ConsIff (step exCfg (initDb [0, 2] [4] : DB Nat) (.rpCreate 39 100 200 none)).1 :=
  reach_consIff (cfg := exCfg) (stdRcs := [0, 2]) (stdTraits := [4]) (by decide) (by decide) (.step _ _ .init trivial)

example : (step exCfg exDb (.allocPut 38 exFirst)).2 = r204 := by decide

example : ∃ row ∈ (step exCfg exDb (.allocPut 38 exFirst)).1.consumers, row.uuid = 501 :=
  (first_write_creates_consumer (cfg := exCfg) (mv := 38) uniq_exDb ri_exDb allocPos_exDb (c := exFirst) (by decide) rfl (by decide) rfl
    (by decide)).1

example : ∀ row ∈ (step exCfg exDb (.allocPut 38 exFirst)).1.consumers, row.uuid = 501 →
    row.project = 70 ∧ row.user = 80 ∧ row.ctype = some 90 :=
  (first_write_creates_consumer (cfg := exCfg) (mv := 38) uniq_exDb ri_exDb allocPos_exDb (c := exFirst) (by decide) rfl (by decide) rfl
    (by decide)).2

example : ∀ row ∈ (step exCfg exDb (.allocPut 28 exLater)).1.consumers, row.uuid = 500 →
    row.project = 71 ∧ row.user = 81 ∧ row.ctype = none :=
  later_write_updates_consumer (cfg := exCfg) (mv := 28) uniq_exDb ri_exDb allocPos_exDb (c := exLater)
    (cons := { id := 1, uuid := 500, project := 7, user := 8, ctype := none, gen := 1 }) (by decide) rfl (by decide)

example : (step exCfg exDb (.allocDelete 500)).1.consByUuid 500 = none :=
  (recreate_after_removal (cfg := exCfg) uniq_exDb ri_exDb allocPos_exDb consIff_exDb (.allocDelete 500) trivial
    (delete_removes_allocations exDb 500) 28 { exFirst with uuid := 500 } rfl rfl).1

example : (step exCfg exDb (.allocPut 28 exEmpty)).1.consByUuid 500 = none :=
  (recreate_after_removal (cfg := exCfg) uniq_exDb ri_exDb allocPos_exDb consIff_exDb (.allocPut 28 exEmpty) (by decide)
    (empty_put_removes_allocations (cfg := exCfg) (mv := 28) uniq_exDb ri_exDb allocPos_exDb (c := exEmpty) rfl rfl (by decide))
    28 { exFirst with uuid := 500 } rfl rfl).1

example : (step exCfg exDb (.allocPut 28 exBad)).2 = r400 := by decide

example : (step exCfg exDb (.allocPut 28 exBad)).1.consByUuid 502 = none :=
  (recreate_after_rejected_first_write (cfg := exCfg) (mv := 28) uniq_exDb ri_exDb allocPos_exDb consIff_exDb (c := exBad) (by decide)
    (by decide) (by decide) 28 { exFirst with uuid := 502 } rfl rfl).1


example : (step exCfg exDb (.allocPost 38 [exFirst, exLater])).2 = r204 := by decide

example : ∀ row ∈ (step exCfg exDb (.allocPost 38 [exFirst, exLater])).1.consumers, row.uuid = 500 →
    row.project = 71 ∧ row.user = 81 ∧ row.ctype = none :=
  post_sets_attributes (cfg := exCfg) (mv := 38) uniq_exDb ri_exDb allocPos_exDb (cs := [exFirst, exLater])
    (by decide) rfl (by decide) exLater (by simp)

/-- a reshape that moves the 2 units of consumer 500 from provider 101 to provider 102 (new inventory of
class 0 there), naming a new project for the consumer -/
def exReshapeInvs : List (RpInvReq Nat) :=
  [{ uuid := 102, gen := 1, invs := [{ rcName := 0, total := 4, reserved := 0, minUnit := 1, maxUnit := 4,
                                         stepSize := 1, ratio := 1 }] }]

def exMoved : ConsumerReq :=
  { uuid := 500, project := some 72, user := some 8, ctype := some 90, gen := some 1, allocs := [(102, 0, 2)] }

example : (step exCfg exDb (.reshape 38 exReshapeInvs [exMoved])).2 = r204 := by decide

example : ∀ row ∈ (step exCfg exDb (.reshape 38 exReshapeInvs [exMoved])).1.consumers, row.uuid = 500 →
    row.project = 72 ∧ row.user = 8 ∧ row.ctype = some 90 :=
  reshape_sets_attributes (cfg := exCfg) (mv := 38) uniq_exDb ri_exDb allocPos_exDb (invs := exReshapeInvs)
    (cs := [exMoved])
    (by decide) rfl (by decide) exMoved (by simp)


/-- removal by a reshape whose entry for consumer 500 is empty, and by an empty POST entry -/
example : (step exCfg exDb (.reshape 38 [] [exEmpty])).1.consByUuid 500 = none :=
  (recreate_after_removal (cfg := exCfg) uniq_exDb ri_exDb allocPos_exDb consIff_exDb (.reshape 38 [] [exEmpty])
    (by decide) (by decide) 38 { exFirst with uuid := 500 } rfl rfl).1

example : (step exCfg exDb (.allocPost 28 [exEmpty])).1.consByUuid 500 = none :=
  (recreate_after_removal (cfg := exCfg) uniq_exDb ri_exDb allocPos_exDb consIff_exDb (.allocPost 28 [exEmpty])
    (by decide) (by decide) 38 { exFirst with uuid := 500 } rfl rfl).1

end Placement.Props.C12
