import Placement.Spec.Limit
import Placement.Lemmas.CandBase
import Placement.Gen.Guards
/-
  C20  "For any query, GET /allocation_candidates with limit=N returns exactly min(N, M) distinct allocation requests,
  every one of which belongs to the M returned without a limit, together with provider summaries covering every
  provider those requests name.  With randomize_allocation_candidates disabled, repeating an identical request on
  unchanged state returns the identical ordered list; with it enabled the unlimited result is a permutation of the same
  set and a limited one a subset of it."

  `full` is the list returned without a limit (M = `full.length`; by C03 it is `Spec.candidates db q` up to order, in
  particular duplicate-free), `sel` any implementation of `random.sample` / `random.shuffle` meeting their contracts.
  Determinism of the ORDER of `full` itself is not a theorem: it is observed (harness/props/c20.py), see the finding on
  PYTHONHASHSEED.
-/
namespace Placement.Spec

variable {R : Type}

/-- exactly min(N, M) requests -/
theorem limit_length (sel : Selection) (randomize : Bool) (n : Nat) (hn : n ≠ 0) (full : List Candidate) :
    (limitRequests sel randomize (some n) full).length = min n full.length := by
  unfold limitRequests limiting
  by_cases h : n < full.length
  · have hb : (n != 0 && decide (n < full.length)) = true := by simp [hn, h]
    simp only [hb, if_true, Option.getD_some]
    cases randomize
    · simp only [Bool.false_eq_true, if_false, List.length_take]
    · simp only [if_true]
      obtain ⟨ys, hp, he⟩ := sel.sample_spec full n (Nat.le_of_lt h)
      rw [he, List.length_take, hp.length_eq]
  · have hb : (n != 0 && decide (n < full.length)) = false := by simp [h]
    simp only [hb, Bool.false_eq_true, if_false]
    cases randomize
    · simp only [Bool.false_eq_true, if_false]; omega
    · simp only [if_true, (sel.shuffle_spec full).length_eq]; omega

/-- every returned request belongs to the unlimited result -/
theorem limit_subset_of_full (sel : Selection) (randomize : Bool) (limit : Option Nat) (full : List Candidate)
    (c : Candidate) (hc : c ∈ limitRequests sel randomize limit full) : c ∈ full := by
  unfold limitRequests at hc
  split at hc
  · rename_i hl
    split at hc
    · have hle : limit.getD 0 ≤ full.length := by
        unfold limiting at hl
        cases limit with
        | none => simp at hl
        | some n => simp at hl; simp; omega
      obtain ⟨ys, hp, he⟩ := sel.sample_spec full _ hle
      rw [he] at hc
      exact hp.mem_iff.mp (List.mem_of_mem_take hc)
    · exact List.mem_of_mem_take hc
  · split at hc
    · exact (sel.shuffle_spec full).mem_iff.mp hc
    · exact hc

/-- the returned requests are distinct -/
theorem limit_nodup (sel : Selection) (randomize : Bool) (limit : Option Nat) (full : List Candidate)
    (hf : full.Nodup) : (limitRequests sel randomize limit full).Nodup := by
  unfold limitRequests
  split
  · rename_i hl
    split
    · have hle : limit.getD 0 ≤ full.length := by
        unfold limiting at hl
        cases limit with
        | none => simp at hl
        | some n => simp at hl; simp; omega
      obtain ⟨ys, hp, he⟩ := sel.sample_spec full _ hle
      rw [he]
      exact (List.take_sublist _ _).nodup (hp.nodup_iff.mpr hf)
    · exact (List.take_sublist _ _).nodup hf
  · split
    · exact (sel.shuffle_spec full).nodup_iff.mpr hf
    · exact hf

/-- the kept summaries cover every provider the kept requests name (that the full summaries cover): pruning by
root keeps them -/
theorem limit_summaries_cover (db : DB R) (limit : Option Nat) (full kept : List Candidate) (sums : List Summary)
    (c : Candidate) (hc : c ∈ kept) (x : (Nat × Nat) × Int) (hx : x ∈ c.alloc)
    (hs : ∃ s ∈ sums, s.rp = x.1.1) : ∃ s ∈ limitSummaries db limit full kept sums, s.rp = x.1.1 := by
  obtain ⟨s, hs, hrp⟩ := hs
  refine ⟨s, ?_, hrp⟩
  unfold limitSummaries
  split
  · rw [List.mem_filter]
    refine ⟨hs, ?_⟩
    rw [List.contains_iff_mem, List.mem_map]
    refine ⟨x.1.1, ?_, by rw [hrp]⟩
    unfold namedProviders
    rw [List.mem_flatMap]
    exact ⟨c, hc, List.mem_map_of_mem hx⟩
  · exact hs

/-- nothing but the summaries of the full response is returned -/
theorem limit_summaries_subset (db : DB R) (limit : Option Nat) (full kept : List Candidate) (sums : List Summary)
    (s : Summary) (h : s ∈ limitSummaries db limit full kept sums) : s ∈ sums := by
  unfold limitSummaries at h
  split at h
  · exact (List.mem_filter.mp h).1
  · exact h

/-- randomisation without a (cutting) limit returns a permutation of the same set -/
theorem no_limit_randomised_is_permutation (sel : Selection) (full : List Candidate) :
    (limitRequests sel true none full).Perm full := by
  unfold limitRequests limiting
  simpa using sel.shuffle_spec full

/-- with randomisation disabled the limited list is the prefix of the unlimited list (hence identical for identical
unlimited orders), and without a limit the list itself -/
theorem deterministic_limit_is_prefix_of_unlimited_order (sel : Selection) (limit : Option Nat) (full : List Candidate) :
    limitRequests sel false limit full = match limit with
      | some n => if n = 0 then full else full.take n
      | none => full := by
  unfold limitRequests limiting
  cases limit with
  | none => simp
  | some n =>
    by_cases h0 : n = 0
    · simp [h0]
    · by_cases h : n < full.length
      · simp [h0, h]
      · simp only [h0, if_false]
        have : full.take n = full := List.take_of_length_le (by omega)
        simp [h, this]

/-! ### tie to the source: the two tests of `limit_results` are the generated ones

`Gen.limitApplies` / `Gen.shuffleWhenUnlimited` are translated from the `if` / `elif` of `limit_results` on every run
(a request without `limit` has `limit = 0`, which like `None` is false in the code's `if self._limit and ...`); the
translator also refuses to run when the list expressions of the function (what is sampled, sliced, shuffled, walked for
the root uuids, returned) are not the ones `limitRequests` / `limitSummaries` were written for. -/

theorem limiting_is_generated (limit : Option Nat) (full : List Candidate) (nSummaries : Nat) :
    limiting limit full = Gen.limitApplies (limit.getD 0) full.length nSummaries := by
  cases limit with
  | none => simp [limiting, Gen.limitApplies]
  | some n => simp [limiting, Gen.limitApplies]

theorem unlimited_branch_is_generated (sel : Selection) (randomize : Bool) (limit : Option Nat) (full : List Candidate)
    (h : limiting limit full = false) :
    limitRequests sel randomize limit full = if Gen.shuffleWhenUnlimited randomize then sel.shuffle full else full := by
  simp only [limitRequests, h, Gen.shuffleWhenUnlimited, Bool.false_eq_true, if_false]
  cases randomize <;> rfl

/-! ### example: a selection that meets the contracts (reverse, then prefix), on a three-element result -/

def revSelection : Selection where
  sample xs n := xs.reverse.take n
  shuffle xs := xs.reverse
  sample_spec xs _ _ := ⟨xs.reverse, List.reverse_perm xs, rfl⟩
  shuffle_spec xs := List.reverse_perm xs

def c1 : Candidate := { alloc := [((2, 0), 4)], maps := [(0, [2]), (1, [2])] }
def c2 : Candidate := { alloc := [((2, 0), 2), ((3, 0), 2)], maps := [(0, [3]), (1, [2])] }
def c3 : Candidate := { alloc := [((2, 0), 2), ((3, 0), 2)], maps := [(0, [2]), (1, [3])] }

example : limitRequests revSelection false (some 2) [c1, c2, c3] = [c1, c2] := by decide
example : limitRequests revSelection true (some 2) [c1, c2, c3] = [c3, c2] := by decide
example : limitRequests revSelection true (some 5) [c1, c2, c3] = [c3, c2, c1] := by decide
example : [c1, c2, c3].Nodup := by decide

end Placement.Spec
