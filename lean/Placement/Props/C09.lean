/-
  C09  The provider hierarchy is always a forest with correct root pointers.

  `Forest db` (Spec/Inv.lean): every parent exists and some rank strictly decreases towards parents
  (so no provider is its own ancestor); `Roots db`: a provider without parent is its own root, a child
  has its parent's root.  `root_is_top` shows that together they say "root_provider_uuid is the provider
  reached by following parent links to the top".

  * `forest_roots_step`, `reach_forest_roots`: kept by EVERY request, hence true in every reachable state;
  * `root_is_top`, `top_unique`, `no_self_ancestor`, `parent_exists`: what the invariants mean;
  * the rejections named by the property change nothing and answer 400 / 409;
    first-time parenting is accepted from 1.14 on;
  * beyond sequences (`forest_roots_every_schedule`): requests are transaction programs (`prog`, Model/Txn.lean:
    PUT / DELETE of a provider = the look-up transaction, then the write transaction, as in the code); for ANY
    number of requests in flight and ANY interleaving of their transactions the invariants hold after every
    transaction, because the write transactions re-read everything but the row id; run alone the programs are the
    handlers (`update_program_is_handler`, `delete_program_is_handler`).
-/
import Placement.Lemmas.ForestReach
import Placement.Lemmas.SchedProv

namespace Placement.Props.C09
open Placement Placement.Hier Placement.Gens
variable {R : Type} [CapOps R]
set_option linter.unusedSectionVars false

/-  `Anc db r t` (Lemmas/ForestReach.lean): following parent links from row `r` zero or more times
    reaches row `t`:
      inductive Anc (db : DB R) : RpRow → RpRow → Prop
        | refl (r) : r ∈ db.rps → Anc db r r
        | step (r q t) : r ∈ db.rps → q ∈ db.rps → r.parent = some q.id → Anc db q t → Anc db r t -/

/-! ## A concrete state for the `example`s: the tree 1 ← 2 ← 3 and the single provider 4
(uuid = id + 10, name = id + 20). -/

attribute [local instance] natCapOps

def exDb : DB Nat :=
  { rps := [ { id := 1, uuid := 11, name := 21, gen := 0, parent := none, root := 1 },
             { id := 2, uuid := 12, name := 22, gen := 3, parent := some 1, root := 1 },
             { id := 3, uuid := 13, name := 23, gen := 0, parent := some 2, root := 1 },
             { id := 4, uuid := 14, name := 24, gen := 1, parent := none, root := 4 } ],
    nextRp := 5 }

def exCfg : Config := { incompleteProject := 0, incompleteUser := 0 }

theorem exDb_uniq : Uniq exDb := by
  constructor <;> simp [exDb]

theorem exDb_forest : Forest exDb :=
  ⟨by simp [exDb], fun i => i, by simp [exDb]⟩

theorem exDb_roots : Roots exDb := by simp [Roots, exDb]

/-! ## The invariant is kept by every request -/

/-- Every request (all 21 kinds, any microversion, accepted or rejected) keeps the hierarchy a forest
with correct root pointers. -/
theorem forest_roots_step (cfg : Config) (db : DB R) (op : Op R) :
    Uniq db → Forest db → Roots db → Forest (step cfg db op).1 ∧ Roots (step cfg db op).1 := by
  intro hU hF hR
  have := step_hinv cfg ⟨ids_of_uniq hU, hF, hR⟩ op
  exact ⟨this.forest, this.roots⟩

example : Uniq exDb ∧ Forest exDb ∧ Roots exDb := ⟨exDb_uniq, exDb_forest, exDb_roots⟩

/-- ... so it holds after every history of requests from the synchronised empty database. -/
theorem reach_forest_roots {cfg : Config} {stdRcs stdTraits : List Nat} {db : DB R}
    (h : Reach cfg stdRcs stdTraits db) : Forest db ∧ Roots db :=
  ⟨(reach_hinv h).forest, (reach_hinv h).roots⟩

example : Reach exCfg [0, 2] [4] ((step exCfg (initDb [0, 2] [4]) (.rpCreate 39 11 21 none)).1 : DB Nat) :=
  .step _ _ .init

/-- provider ids stay unique and below the next fresh id in every reachable state (the part of `Uniq`
the hierarchy proofs use) -/
theorem reach_rp_ids {cfg : Config} {stdRcs stdTraits : List Nat} {db : DB R}
    (h : Reach cfg stdRcs stdTraits db) : (db.rps.map (·.id)).Nodup ∧ ∀ r ∈ db.rps, r.id < db.nextRp :=
  ⟨(reach_hinv h).ids.rpNodup, (reach_hinv h).ids.rpFresh⟩

/-! ## What the invariant means -/

/-- every parent exists -/
theorem parent_exists {db : DB R} (hF : Forest db) {r : RpRow} (hr : r ∈ db.rps) {p : Nat}
    (hp : r.parent = some p) : ∃ q ∈ db.rps, q.id = p := hF.1 r hr p hp

/-- The stored root of every provider is the provider reached by following parent links to the top. -/
theorem root_is_top {db : DB R} (hF : Forest db) (hR : Roots db) :
    ∀ r ∈ db.rps, ∃ t, Anc db r t ∧ t.parent = none ∧ r.root = t.id := by
  obtain ⟨hpar, rank, hrank⟩ := hF
  suffices h : ∀ n, ∀ r ∈ db.rps, rank r.id ≤ n → ∃ t, Anc db r t ∧ t.parent = none ∧ r.root = t.id from
    fun r hr => h (rank r.id) r hr (Nat.le_refl _)
  intro n
  induction n with
  | zero =>
    intro r hr hle
    cases hp : r.parent with
    | none => exact ⟨r, .refl r hr, hp, (hR r hr).1 hp⟩
    | some p => have := hrank r hr p hp; omega
  | succ n ih =>
    intro r hr hle
    cases hp : r.parent with
    | none => exact ⟨r, .refl r hr, hp, (hR r hr).1 hp⟩
    | some p =>
      obtain ⟨q, hq, hqid⟩ := hpar r hr p hp
      have hlt := hrank r hr p hp
      obtain ⟨t, ht, htp, htr⟩ := ih q hq (by rw [hqid]; omega)
      exact ⟨t, .step r q t hr hq (hqid ▸ hp) ht, htp, ((hR r hr).2 p hp q hq hqid).trans htr⟩

example : Forest exDb ∧ Roots exDb := ⟨exDb_forest, exDb_roots⟩

/-- ... and that provider is unique (provider ids are unique). -/
theorem top_unique {db : DB R} (hU : Uniq db) {r t t' : RpRow} (h : Anc db r t) (h' : Anc db r t')
    (ht : t.parent = none) (ht' : t'.parent = none) : t = t' := by
  have hu := (rpIds_of_uniq hU).uniq
  induction h with
  | refl r hr =>
    cases h' with
    | refl => rfl
    | step _ q _ _ _ hp _ => rw [ht] at hp; cases hp
  | step r q t hr hq hp _ ih =>
    cases h' with
    | refl => rw [ht'] at hp; cases hp
    | step _ q' _ _ hq' hp' hanc' =>
      have : q' = q := hu q' hq' q hq (by rw [hp] at hp'; exact (Option.some.inj hp').symm)
      subst this
      exact ih hanc' ht

/-- No provider is its own (proper) ancestor. -/
theorem no_self_ancestor {db : DB R} (hF : Forest db) {r q : RpRow} (hr : r ∈ db.rps)
    (hp : r.parent = some q.id) : ¬ Anc db q r := by
  intro h
  obtain ⟨_, rank, hrank⟩ := hF
  have h1 := rank_desc hrank (desc_of_anc h)
  have h2 := hrank r hr q.id hp
  omega

example : Forest exDb ∧ (⟨2, 12, 22, 3, some 1, 1⟩ : RpRow) ∈ exDb.rps := ⟨exDb_forest, by simp [exDb]⟩

/-! ## Rejections: the state is unchanged and the status is 400 / 409 -/

/-- Moving a provider under itself or under one of its descendants is rejected (any microversion). -/
theorem loop_rejected_400 (cfg : Config) {db : DB R} (hU : Uniq db) (hF : Forest db) (hR : Roots db)
    {mv uuid name pu : Nat} {me p : RpRow}
    (hme : db.rpByUuid uuid = some me) (hp : db.rpByUuid pu = some p) (hloop : Anc db p me) :
    step cfg db (.rpUpdate mv uuid name (some (some pu))) = (db, r400) := by
  have hu := (rpIds_of_uniq hU).uniq
  have hin : subOf db me p.id = true := by
    rw [subOf, List.contains_iff_mem, subtree_eq_desc db hu hF hR (rpByUuid_some hme).1]
    exact desc_of_anc hloop
  show hRpUpdate db mv uuid name (some (some pu)) = (db, r400)
  unfold hRpUpdate
  rw [hme]; simp only [Option.getD_some]
  split
  · rfl
  · rw [updateProvider_loop (rpById_of_uuid hU hme) hp hin]

example : exDb.rpByUuid 11 = some ⟨1, 11, 21, 0, none, 1⟩ ∧ exDb.rpByUuid 13 = some ⟨3, 13, 23, 0, some 2, 1⟩ ∧
    Anc exDb ⟨3, 13, 23, 0, some 2, 1⟩ ⟨1, 11, 21, 0, none, 1⟩ :=
  ⟨rfl, rfl, .step _ ⟨2, 12, 22, 3, some 1, 1⟩ _ (by simp [exDb]) (by simp [exDb]) rfl
    (.step _ ⟨1, 11, 21, 0, none, 1⟩ _ (by simp [exDb]) (by simp [exDb]) rfl (.refl _ (by simp [exDb])))⟩

/-- Creating a provider under a parent that does not exist is rejected. -/
theorem missing_parent_create_400 (cfg : Config) {db : DB R} {mv uuid name pu : Nat}
    (hp : db.rpByUuid pu = none) : step cfg db (.rpCreate mv uuid name (some pu)) = (db, r400) := by
  show hRpCreate db mv uuid name (some pu) = (db, r400)
  have hc : createProvider db uuid name (some pu) = .error .objectAction := by
    unfold createProvider
    dsimp only
    split
    · rfl
    · rw [hp]
  unfold hRpCreate
  rw [hc]
  split <;> rfl

example : exDb.rpByUuid 99 = none := rfl

/-- Naming a parent that does not exist in an update is rejected. -/
theorem missing_parent_update_400 (cfg : Config) {db : DB R} {mv uuid name pu : Nat} {me : RpRow}
    (hme : db.rpByUuid uuid = some me) (hp : db.rpByUuid pu = none) :
    step cfg db (.rpUpdate mv uuid name (some (some pu))) = (db, r400) := by
  show hRpUpdate db mv uuid name (some (some pu)) = (db, r400)
  unfold hRpUpdate
  rw [hme]; simp only [Option.getD_some]
  split
  · rfl
  · cases hid : db.rpById me.id with
    | none =>
      have := List.find?_eq_none.mp hid me (rpByUuid_some hme).1
      simp at this
    | some me' => rw [updateProvider_missing hid hp]

example : exDb.rpByUuid 14 = some ⟨4, 14, 24, 1, none, 4⟩ ∧ exDb.rpByUuid 99 = none := ⟨rfl, rfl⟩

/-- A provider cannot be created as its own parent. -/
theorem parent_is_self_400 (cfg : Config) (db : DB R) (mv uuid name : Nat) :
    step cfg db (.rpCreate mv uuid name (some uuid)) = (db, r400) := by
  show hRpCreate db mv uuid name (some uuid) = (db, r400)
  have hc : createProvider db uuid name (some uuid) = .error .objectAction := by
    unfold createProvider
    simp
  unfold hRpCreate
  rw [hc]
  split <;> rfl

/-- A provider that still has children cannot be deleted. -/
theorem delete_with_children_409 (cfg : Config) {db : DB R} {uuid : Nat} {me child : RpRow}
    (hme : db.rpByUuid uuid = some me) (hc : child ∈ db.rps) (hcp : child.parent = some me.id) :
    step cfg db (.rpDelete uuid) = (db, r409 .cannotDeleteParent) := by
  show hRpDelete db uuid = (db, r409 .cannotDeleteParent)
  have hch : db.hasChildren me.id = true := by
    unfold DB.hasChildren; rw [List.any_eq_true]; exact ⟨child, hc, by simp [hcp]⟩
  unfold hRpDelete
  rw [hme]; dsimp only
  unfold deleteProvider
  rw [if_pos hch]

example : exDb.rpByUuid 12 = some ⟨2, 12, 22, 3, some 1, 1⟩ ∧ (⟨3, 13, 23, 0, some 2, 1⟩ : RpRow) ∈ exDb.rps :=
  ⟨rfl, by simp [exDb]⟩

/-- Before 1.37 a provider that already has a parent cannot be moved to another parent. -/
theorem reparent_before_137_400 (cfg : Config) {db : DB R} (hU : Uniq db) {mv uuid name pu q : Nat} {me p : RpRow}
    (hmv : mv < 37) (hme : db.rpByUuid uuid = some me) (hq : me.parent = some q)
    (hp : db.rpByUuid pu = some p) (hne : p.id ≠ q) :
    step cfg db (.rpUpdate mv uuid name (some (some pu))) = (db, r400) := by
  show hRpUpdate db mv uuid name (some (some pu)) = (db, r400)
  unfold hRpUpdate
  rw [hme]; simp only [Option.getD_some]
  split
  · rfl
  · have : decide (mv ≥ 37) = false := by simp; omega
    rw [this, updateProvider_move_forbidden (rpById_of_uuid hU hme) hp hq (Ne.symm hne)]

example : Uniq exDb ∧ exDb.rpByUuid 13 = some ⟨3, 13, 23, 0, some 2, 1⟩ ∧
    exDb.rpByUuid 14 = some ⟨4, 14, 24, 1, none, 4⟩ ∧ (4 : Nat) ≠ 2 := ⟨exDb_uniq, rfl, rfl, by decide⟩

/-- Before 1.37 a provider that has a parent cannot be detached (`parent_provider_uuid: null`). -/
theorem unparent_before_137_400 (cfg : Config) {db : DB R} (hU : Uniq db) {mv uuid name q : Nat} {me : RpRow}
    (hmv : mv < 37) (hme : db.rpByUuid uuid = some me) (hq : me.parent = some q) :
    step cfg db (.rpUpdate mv uuid name (some none)) = (db, r400) := by
  show hRpUpdate db mv uuid name (some none) = (db, r400)
  unfold hRpUpdate
  rw [hme]; simp only [Option.getD_some]
  split
  · rfl
  · have : decide (mv ≥ 37) = false := by simp; omega
    rw [this, updateProvider_detach_forbidden (rpById_of_uuid hU hme) hq]

example : Uniq exDb ∧ exDb.rpByUuid 13 = some ⟨3, 13, 23, 0, some 2, 1⟩ := ⟨exDb_uniq, rfl⟩

/-- From 1.14 on (in particular at 1.14 – 1.36) a provider without parent can be given one, unless
that would make a loop or the new name is taken: the answer is 200, the provider hangs under the
new parent and carries the new parent's root. -/
theorem first_parenting_allowed (cfg : Config) {db : DB R} (hU : Uniq db) (hF : Forest db) (hR : Roots db)
    {mv uuid name pu : Nat} {me p : RpRow} (hmv : 14 ≤ mv)
    (hme : db.rpByUuid uuid = some me) (hnp : me.parent = none) (hp : db.rpByUuid pu = some p)
    (hnl : ¬ Anc db p me) (hname : ∀ r ∈ db.rps, r.name = name → r.id = me.id) :
    (step cfg db (.rpUpdate mv uuid name (some (some pu)))).2 = r200 ∧
    ∃ r' ∈ (step cfg db (.rpUpdate mv uuid name (some (some pu)))).1.rps,
      r'.id = me.id ∧ r'.parent = some p.id ∧ r'.root = p.root := by
  have hu := (rpIds_of_uniq hU).uniq
  obtain ⟨hmem, -⟩ := rpByUuid_some hme
  obtain ⟨hpm, -⟩ := rpByUuid_some hp
  have hout : (subtreeIds db me.root db.rps.length me.id).contains p.id = false := by
    cases hc : (subtreeIds db me.root db.rps.length me.id).contains p.id with
    | false => rfl
    | true =>
      rw [List.contains_iff_mem, subtree_eq_desc db hu hF hR hmem] at hc
      exact absurd (anc_of_desc hU hF hc me hmem rfl p hpm rfl) hnl
  have hnodup : (db.rps.any fun r => r.id != me.id && r.name == name) = false := by
    rw [List.any_eq_false]
    intro r hr
    by_cases hn : r.name = name
    · simp [hname r hr hn]
    · simp [hn]
  show (hRpUpdate db mv uuid name (some (some pu))).2 = r200 ∧
    ∃ r' ∈ (hRpUpdate db mv uuid name (some (some pu))).1.rps, _
  unfold hRpUpdate
  rw [hme]; simp only [Option.getD_some]
  have hv : (decide (mv < 14) && (some (some pu) : Option (Option Nat)).isSome) = false := by simp; omega
  rw [if_neg (by rw [hv]; simp)]
  unfold updateProvider
  rw [rpById_of_uuid hU hme]; dsimp only
  rw [hp]; dsimp only
  rw [if_neg (by simp [hnp]), if_neg (by rw [hout]; simp), if_neg (by rw [hnodup]; simp)]
  refine ⟨rfl, _, List.mem_map.mpr ⟨me, hmem, rfl⟩, ?_⟩
  simp

example : Uniq exDb ∧ Forest exDb ∧ Roots exDb ∧ exDb.rpByUuid 14 = some ⟨4, 14, 24, 1, none, 4⟩ ∧
    exDb.rpByUuid 13 = some ⟨3, 13, 23, 0, some 2, 1⟩ ∧
    ¬ Anc exDb ⟨3, 13, 23, 0, some 2, 1⟩ ⟨4, 14, 24, 1, none, 4⟩ ∧
    (∀ r ∈ exDb.rps, r.name = 24 → r.id = 4) := by
  refine ⟨exDb_uniq, exDb_forest, exDb_roots, rfl, rfl, ?_, by simp [exDb]⟩
  intro h
  have h1 := desc_root (rpIds_of_uniq exDb_uniq).uniq exDb_forest exDb_roots
    (me := ⟨4, 14, 24, 1, none, 4⟩) (by simp [exDb]) (desc_of_anc h) ⟨3, 13, 23, 0, some 2, 1⟩ (by simp [exDb]) rfl
  simp at h1

/-- the same on the concrete state, by evaluation: at 1.14 provider 4 moves under provider 3 -/
example : (step exCfg exDb (.rpUpdate 14 14 24 (some (some 13)))).2.status = 200 ∧
    ((step exCfg exDb (.rpUpdate 14 14 24 (some (some 13)))).1.rps.map (fun r => (r.id, r.parent, r.root)))
      = [(1, none, 1), (2, some 1, 1), (3, some 2, 1), (4, some 3, 1)] := by decide

/-- at 1.37 the subtree below 2 is detached and becomes a tree of its own -/
example : ((step exCfg exDb (.rpUpdate 37 12 22 (some none))).1.rps.map (fun r => (r.id, r.parent, r.root)))
      = [(1, none, 1), (2, none, 2), (3, some 2, 2), (4, none, 4)] := by decide

/-! ## Beyond sequences: every schedule -/

/-- **forest_roots_every_schedule.**  Any pool of requests (of any kind), any schedule of their database
transactions: provider ids stay unique, the parent links a forest, the root pointers correct.  In particular a
`POST` under a parent that is being moved or deleted, or two moves that would close a loop together, cannot
break the hierarchy, whatever the interleaving. -/
theorem forest_roots_every_schedule (cfg : Config) (ops : List (Op R)) (sched : List Nat) {db : DB R}
    (hI : Ids db.gcore) (hF : Forest db) (hR : Roots db) :
    let s := (Prog.runSched sched db (ops.map (prog cfg))).1
    Ids s.gcore ∧ Forest s ∧ Roots s := by
  have := Sched.pool_hinv cfg ops sched (db := db) ⟨hI, hF, hR⟩
  exact ⟨this.ids, this.forest, this.roots⟩

/-- run alone, the two-transaction program of PUT /resource_providers/{u} is the handler -/
theorem update_program_is_handler (cfg : Config) (s : DB R) (mv u n : Nat) (p : Option (Option Nat)) :
    Prog.runSeq 2 (prog cfg (.rpUpdate mv u n p)) s = ((step cfg s (.rpUpdate mv u n p)).1, some (step cfg s (.rpUpdate mv u n p)).2) :=
  Sched.pRpUpdate_runSeq s mv u n p

/-- run alone, the two-transaction program of DELETE /resource_providers/{u} is the handler -/
theorem delete_program_is_handler (cfg : Config) (s : DB R) (u : Nat) :
    Prog.runSeq 2 (prog cfg (.rpDelete u)) s = ((step cfg s (.rpDelete u)).1, some (step cfg s (.rpDelete u)).2) :=
  Sched.pRpDelete_runSeq s u

/-- the hypotheses are met by the example state; two moves that would close a loop together (2 under 4, 4 under 3),
interleaved look-up / look-up / write / write: the second write is refused, the forest stays -/
example :
    let ops : List (Op Nat) := [.rpUpdate 39 12 22 (some (some 14)), .rpUpdate 39 14 24 (some (some 13))]
    let out := Prog.runSched [0, 1, 0, 1] exDb (ops.map (prog exCfg))
    out.2.map Prog.result? = [some r200, some r400] ∧ Forest out.1 ∧ Roots out.1 := by
  refine ⟨by decide, ?_, ?_⟩
  · exact (forest_roots_every_schedule exCfg _ [0, 1, 0, 1] (Gens.ids_of_uniq exDb_uniq) exDb_forest exDb_roots).2.1
  · exact (forest_roots_every_schedule exCfg _ [0, 1, 0, 1] (Gens.ids_of_uniq exDb_uniq) exDb_forest exDb_roots).2.2

end Placement.Props.C09
