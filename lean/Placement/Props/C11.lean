/-
  C11  What the API reports is the result of applying, in order, precisely the successful requests.

  "At any moment what the API reports - a provider's name, parent, root, inventories, traits,
  aggregates, usages and allocations; a consumer's allocations, project, user, type and generation;
  usage totals per project, user and consumer type - equals the result of applying, in order,
  precisely the requests answered with success, each with its documented meaning, and every request is
  answered with the status that meaning prescribes in that state. In particular a provider's usage of a
  class equals the sum of all consumers' allocations of that class on it, and the per-consumer and
  per-provider views of allocations agree."

  The hand-written model (`Placement.Model.Handlers`: `step`, `run`) IS the reference model of the API
  (it is compared with the real service request by request by the harness).  What is proved here:

  1. status prescriptions: the status (and error code) the documented meaning prescribes in a state,
     one theorem per clause, directly from the handler definitions;
  2. view agreement at the level of the stored rows (`DB.usage` is the sum over consumers; regrouping the
     allocation rows by consumer or by provider gives the same rows); the serialised read views are the
     subject of `Props/C11Reads.lean`;
  3. `history_eq_successes`: the requests answered with an error can be dropped from a history without
     changing what the API reports afterwards nor any later response (see the section for the exact
     statement and the relation used).
-/
import Placement.Lemmas.GuardTie
import Placement.Lemmas.CoreStatus
import Placement.Lemmas.CoreViews
import Placement.Lemmas.CoreHist

namespace Placement.Props.C11
open Placement Placement.Wf Placement.Core

variable {R : Type} [CapOps R]

/-! ## 1. status prescriptions -/

/-! ### providers -/

theorem create_provider_parent_before_1_14_400 (cfg : Config) (db : DB R) {mv u n p : Nat} (h : mv < 14) :
    step cfg db (.rpCreate mv u n (some p)) = (db, r400) := by
  simp [step, hRpCreate, h]

theorem create_provider_duplicate_name_409 (cfg : Config) {db : DB R} {mv u n : Nat}
    (h : ∃ r ∈ db.rps, r.uuid = u ∨ r.name = n) :
    step cfg db (.rpCreate mv u n none) = (db, r409 .duplicateName) := by
  have : db.rps.any (fun r => r.uuid == u || r.name == n) = true := by
    obtain ⟨r, hr, h⟩ := h
    exact List.any_eq_true.mpr ⟨r, hr, by simpa using h⟩
  simp [step, hRpCreate, createProvider, this]

theorem create_provider_201_before_1_20_then_200 (cfg : Config) {db : DB R} {mv u n : Nat}
    (h : ∀ r ∈ db.rps, r.uuid ≠ u ∧ r.name ≠ n) :
    (step cfg db (.rpCreate mv u n none)).2 = (if mv < 20 then r201 else r200) := by
  have : db.rps.any (fun r => r.uuid == u || r.name == n) = false := by
    rw [List.any_eq_false]
    intro r hr
    have := h r hr
    simp [this.1, this.2]
  simp [step, hRpCreate, createProvider, this]

theorem update_unknown_provider_404 (cfg : Config) {db : DB R} {mv u n : Nat} {p : Option (Option Nat)}
    (h : db.rpByUuid u = none) : step cfg db (.rpUpdate mv u n p) = (db, r404) := by
  simp [step, hRpUpdate, h]

theorem delete_unknown_provider_404 (cfg : Config) {db : DB R} {u : Nat}
    (h : db.rpByUuid u = none) : step cfg db (.rpDelete u) = (db, r404) := by
  simp [step, hRpDelete, h]

/-! ### inventories -/

theorem put_inventory_unknown_provider_404 (cfg : Config) {db : DB R} {mv u g : Nat} {is : List (InvSpec R)}
    (h : db.rpByUuid u = none) : step cfg db (.invSet mv u g is) = (db, r404) := by
  simp [step, hInvSet, h]

theorem put_inventory_stale_generation_409 (cfg : Config) {db : DB R} {mv u g : Nat} {is : List (InvSpec R)}
    {rp : RpRow} (h : db.rpByUuid u = some rp) (hg : g ≠ rp.gen) :
    step cfg db (.invSet mv u g is) = (db, r409 .concurrentUpdate) := by
  simp [step, hInvSet, h, hg]

theorem put_inventory_invalid_capacity_400 (cfg : Config) {db : DB R} {mv u : Nat} {is : List (InvSpec R)}
    {rp : RpRow} (h : db.rpByUuid u = some rp) (hc : ∃ i ∈ is, invCapacityInvalid mv i = true) :
    step cfg db (.invSet mv u rp.gen is) = (db, r400) := by
  have : is.any (invCapacityInvalid mv) = true := List.any_eq_true.mpr hc
  simp [step, hInvSet, h, this]

theorem put_inventory_unknown_class_400 (cfg : Config) {db : DB R} {mv u : Nat} {is : List (InvSpec R)}
    {rp : RpRow} (h : db.rpByUuid u = some rp) (hc : ∀ i ∈ is, invCapacityInvalid mv i = false)
    (hn : ∃ i ∈ is, db.rcId i.rcName = none) :
    step cfg db (.invSet mv u rp.gen is) = (db, r400) := by
  have : is.any (invCapacityInvalid mv) = false := by
    rw [List.any_eq_false]; intro i hi; simp [hc i hi]
  simp [step, hInvSet, h, this, setInventory_unknown_class hn]

theorem post_inventory_unknown_provider_404 (cfg : Config) {db : DB R} {mv u : Nat} {i : InvSpec R}
    (h : db.rpByUuid u = none) : step cfg db (.invAdd mv u i) = (db, r404) := by
  simp [step, hInvAdd, h]

theorem post_inventory_existing_class_409 (cfg : Config) {db : DB R} {mv u rc : Nat} {i : InvSpec R} {rp : RpRow}
    (h : db.rpByUuid u = some rp) (hc : invCapacityInvalid mv i = false) (hrc : db.rcId i.rcName = some rc)
    (hex : (db.invOf rp.id rc).isSome) : step cfg db (.invAdd mv u i) = (db, r409 .concurrentUpdate) := by
  simp [step, hInvAdd, h, hc, addInventory, hrc, hex, Exc.isConcurrentUpdate]

theorem post_inventory_unknown_class_400 (cfg : Config) {db : DB R} {mv u : Nat} {i : InvSpec R} {rp : RpRow}
    (h : db.rpByUuid u = some rp) (hc : invCapacityInvalid mv i = false) (hrc : db.rcId i.rcName = none) :
    step cfg db (.invAdd mv u i) = (db, r400) := by
  simp [step, hInvAdd, h, hc, addInventory, hrc, Exc.isConcurrentUpdate, Exc.isNotFound]

theorem put_one_inventory_stale_generation_409 (cfg : Config) {db : DB R} {mv u g : Nat} {i : InvSpec R}
    {rp : RpRow} (h : db.rpByUuid u = some rp) (hg : g ≠ rp.gen) :
    step cfg db (.invUpdate mv u g i) = (db, r409 .concurrentUpdate) := by
  simp [step, hInvUpdate, h, hg]

theorem put_one_inventory_missing_400 (cfg : Config) {db : DB R} {mv u rc : Nat} {i : InvSpec R} {rp : RpRow}
    (h : db.rpByUuid u = some rp) (hc : invCapacityInvalid mv i = false) (hrc : db.rcId i.rcName = some rc)
    (hno : db.invOf rp.id rc = none) : step cfg db (.invUpdate mv u rp.gen i) = (db, r400) := by
  simp [step, hInvUpdate, h, hc, updateInventory, hrc, hno]

theorem put_one_inventory_unknown_class_404 (cfg : Config) {db : DB R} {mv u : Nat} {i : InvSpec R} {rp : RpRow}
    (h : db.rpByUuid u = some rp) (hc : invCapacityInvalid mv i = false) (hrc : db.rcId i.rcName = none) :
    step cfg db (.invUpdate mv u rp.gen i) = (db, r404) := by
  simp [step, hInvUpdate, h, hc, updateInventory, hrc, Exc.isConcurrentUpdate, Exc.isNotFound]

theorem delete_inventory_missing_404 (cfg : Config) {db : DB R} {u n rc : Nat} {rp : RpRow}
    (h : db.rpByUuid u = some rp) (hrc : db.rcId n = some rc)
    (hfree : ∀ a ∈ db.allocs, ¬ (a.rp = rp.id ∧ a.rc = rc)) (hno : db.invOf rp.id rc = none) :
    step cfg db (.invDelete u n) = (db, r404) := by
  have : db.allocs.any (fun a => a.rp == rp.id && a.rc == rc) = false := by
    rw [List.any_eq_false]; intro a ha; simpa using hfree a ha
  simp [step, hInvDelete, h, deleteInventory, hrc, this, hno, Exc.isConcurrentUpdate, Exc.isNotFound]

theorem delete_inventory_unknown_class_404 (cfg : Config) {db : DB R} {u n : Nat} {rp : RpRow}
    (h : db.rpByUuid u = some rp) (hrc : db.rcId n = none) :
    step cfg db (.invDelete u n) = (db, r404) := by
  simp [step, hInvDelete, h, deleteInventory, hrc, Exc.isConcurrentUpdate, Exc.isNotFound]

theorem delete_all_inventories_before_1_5_405 (cfg : Config) (db : DB R) {mv u : Nat} (h : mv < 5) :
    step cfg db (.invDeleteAll mv u) = (db, { status := 405, code := .undefined }) := by
  simp [step, hInvDeleteAll, h]

/-! ### traits -/

theorem put_trait_standard_name_400 (cfg : Config) (db : DB R) {n : Nat} (h : isCustom n = false) :
    step cfg db (.traitPut n) = (db, r400) := by
  simp [step, hTraitPut, h]

theorem put_trait_existing_204 (cfg : Config) {db : DB R} {n : Nat} (h : isCustom n = true)
    (hex : n ∈ db.traits) : step cfg db (.traitPut n) = (db, r204) := by
  simp [step, hTraitPut, h, hex]

theorem put_trait_new_201 (cfg : Config) {db : DB R} {n : Nat} (h : isCustom n = true)
    (hno : n ∉ db.traits) : step cfg db (.traitPut n) = ({ db with traits := db.traits ++ [n] }, r201) := by
  simp [step, hTraitPut, h, hno, createTrait]

theorem delete_unknown_trait_404 (cfg : Config) {db : DB R} {n : Nat} (hno : n ∉ db.traits) :
    step cfg db (.traitDelete n) = (db, r404) := by
  simp [step, hTraitDelete, hno]

theorem put_traits_unknown_provider_404 (cfg : Config) {db : DB R} {u g : Nat} {ts : List Nat}
    (h : db.rpByUuid u = none) : step cfg db (.rpTraitsSet u g ts) = (db, r404) := by
  simp [step, hRpTraitsSet, h]

theorem put_traits_stale_generation_409 (cfg : Config) {db : DB R} {u g : Nat} {ts : List Nat} {rp : RpRow}
    (h : db.rpByUuid u = some rp) (hg : rp.gen ≠ g) :
    step cfg db (.rpTraitsSet u g ts) = (db, r409 .concurrentUpdate) := by
  simp [step, hRpTraitsSet, h, hg]

theorem put_traits_unknown_trait_400 (cfg : Config) {db : DB R} {u : Nat} {ts : List Nat} {rp : RpRow}
    (h : db.rpByUuid u = some rp) (hn : ∃ t ∈ ts, t ∉ db.traits) :
    step cfg db (.rpTraitsSet u rp.gen ts) = (db, r400) := by
  obtain ⟨t, ht, hno⟩ := hn
  simp [step, hRpTraitsSet, h]
  intro hall
  exact absurd (hall t ht) hno

/-! ### resource classes -/

theorem rc_post_standard_name_400 (cfg : Config) (db : DB R) {n : Nat} (h : isCustom n = false) :
    step cfg db (.rcPost n) = (db, r400) := by
  simp [step, hRcPost, h]

theorem rc_post_existing_409 (cfg : Config) {db : DB R} {n id : Nat} (h : isCustom n = true)
    (hex : db.rcId n = some id) : step cfg db (.rcPost n) = (db, r409) := by
  simp [step, hRcPost, h, createRc, hex]

theorem rc_post_new_201 (cfg : Config) {db : DB R} {n : Nat} (h : isCustom n = true)
    (hno : db.rcId n = none) :
    step cfg db (.rcPost n) = ({ db with rcs := db.rcs ++ [(nextRcId db, n)] }, r201) := by
  simp [step, hRcPost, h, createRc, hno]

theorem rc_put_existing_204 (cfg : Config) {db : DB R} {n id : Nat} (h : isCustom n = true)
    (hex : db.rcId n = some id) : step cfg db (.rcPut n) = (db, r204) := by
  simp [step, hRcPut, h, hex]

theorem rc_put_new_201 (cfg : Config) {db : DB R} {n : Nat} (h : isCustom n = true)
    (hno : db.rcId n = none) :
    step cfg db (.rcPut n) = ({ db with rcs := db.rcs ++ [(nextRcId db, n)] }, r201) := by
  simp [step, hRcPut, h, createRc, hno]

theorem rc_delete_unknown_404 (cfg : Config) {db : DB R} {n : Nat} (hno : db.rcId n = none) :
    step cfg db (.rcDelete n) = (db, r404) := by
  simp [step, hRcDelete, hno]

theorem rc_rename_unknown_404 (cfg : Config) {db : DB R} {o n : Nat} (h : isCustom n = true)
    (hno : db.rcId o = none) : step cfg db (.rcRename o n) = (db, r404) := by
  simp [step, hRcRename, h, hno]

/-! ### aggregates -/

theorem put_aggregates_before_1_1_404 (cfg : Config) (db : DB R) {u : Nat} {g : Option Nat} {as : List Nat} :
    step cfg db (.aggsSet 0 u g as) = (db, r404) := by
  simp [step, hAggsSet]

theorem put_aggregates_unknown_provider_404 (cfg : Config) {db : DB R} {mv u : Nat} {g : Option Nat}
    {as : List Nat} (h : db.rpByUuid u = none) : step cfg db (.aggsSet mv u g as) = (db, r404) := by
  by_cases hmv : mv < 1 <;> simp [step, hAggsSet, h, hmv]

theorem put_aggregates_stale_generation_409 (cfg : Config) {db : DB R} {mv u : Nat} {g : Option Nat}
    {as : List Nat} {rp : RpRow} (hmv : 19 ≤ mv) (h : db.rpByUuid u = some rp) (hg : g ≠ some rp.gen) :
    step cfg db (.aggsSet mv u g as) = (db, r409 .concurrentUpdate) := by
  have h1 : ¬ mv < 1 := by omega
  simp [step, hAggsSet, h, h1, hmv, hg]

theorem put_aggregates_before_1_19_ignores_generation (cfg : Config) {db : DB R} {mv u : Nat} {g : Option Nat}
    {as : List Nat} {rp : RpRow} (h1 : 1 ≤ mv) (h19 : mv < 19) (h : db.rpByUuid u = some rp) :
    (step cfg db (.aggsSet mv u g as)).2 = r200 := by
  have h1 : ¬ mv < 1 := by omega
  have h2 : ¬ 19 ≤ mv := by omega
  simp [step, hAggsSet, h, h1, h2, setAggregates]

/-! ### allocations -/

theorem delete_allocations_none_404 (cfg : Config) {db : DB R} {c : Nat}
    (h : ∀ a ∈ db.allocs, a.consumer ≠ c) : step cfg db (.allocDelete c) = (db, r404) := by
  have : db.allocs.any (·.consumer == c) = false := by
    rw [List.any_eq_false]; intro a ha; simpa using h a ha
  simp [step, hAllocDelete, this]

theorem delete_allocations_204 (cfg : Config) {db : DB R} {c : Nat}
    (h : ∃ a ∈ db.allocs, a.consumer = c) :
    step cfg db (.allocDelete c) = (deleteAllocations db c, r204) := by
  have : db.allocs.any (·.consumer == c) = true := by
    obtain ⟨a, ha, e⟩ := h
    exact List.any_eq_true.mpr ⟨a, ha, by simpa using e⟩
  simp [step, hAllocDelete, this]

theorem put_allocations_empty_before_1_28_400 (cfg : Config) (db : DB R) {mv : Nat} {c : ConsumerReq}
    (h : mv < 28) (he : c.allocs = []) : step cfg db (.allocPut mv c) = (db, r400) := by
  simp [step, hAllocPut, h, he]

theorem post_allocations_before_1_13_404 (cfg : Config) (db : DB R) {mv : Nat} {cs : List ConsumerReq}
    (h : mv < 13) : step cfg db (.allocPost mv cs) = (db, r404) := by
  simp [step, hAllocPost, h]

theorem reshape_before_1_30_404 (cfg : Config) (db : DB R) {mv : Nat} {invs : List (RpInvReq R)}
    {cs : List ConsumerReq} (h : mv < 30) : step cfg db (.reshape mv invs cs) = (db, r404) := by
  simp [step, hReshape, h]

/-- from 1.28 a write naming an existing consumer with another generation than the stored one is a
409 `placement.concurrent_update` -/
theorem put_allocations_stale_consumer_generation_409 (cfg : Config) {db : DB R} {mv : Nat} {c : ConsumerReq}
    {cons : ConsRow} (hmv : 28 ≤ mv) (h : db.consByUuid c.uuid = some cons) (hg : c.gen ≠ some cons.gen) :
    (step cfg db (.allocPut mv c)).2 = r409 .concurrentUpdate :=
  hAllocPut_stale cfg hmv (ensureConsumer_stale cfg hmv h hg)

/-- ... and a write naming a consumer without record with a generation other than `null` too -/
theorem put_allocations_new_consumer_with_generation_409 (cfg : Config) {db : DB R} {mv : Nat} {c : ConsumerReq}
    (hmv : 28 ≤ mv) (h : db.consByUuid c.uuid = none) (hg : c.gen ≠ none) :
    (step cfg db (.allocPut mv c)).2 = r409 .concurrentUpdate :=
  hAllocPut_stale cfg hmv (ensureConsumer_new_with_generation cfg hmv h hg)

/-- an allocation naming a provider that does not exist is a 400 (`GenOk`: the consumer generation
of the request is acceptable, so that this is the first check to fail) -/
theorem put_allocations_unknown_provider_400 (cfg : Config) {db : DB R} {mv : Nat} {c : ConsumerReq}
    (hne : c.allocs ≠ []) (hg : GenOk db mv c) (hn : ∃ a ∈ c.allocs, db.rpByUuid a.1 = none) :
    (step cfg db (.allocPut mv c)).2 = r400 :=
  hAllocPut_unknown_provider cfg hne hg hn

/-- an allocation of a resource class that does not exist is a 400 -/
theorem put_allocations_unknown_class_400 (cfg : Config) {db : DB R} {mv : Nat} {c : ConsumerReq}
    (hne : c.allocs ≠ []) (hg : GenOk db mv c) (hk : ∀ a ∈ c.allocs, (db.rpByUuid a.1).isSome)
    (hn : ∃ a ∈ c.allocs, db.rcId a.2.1 = none) :
    (step cfg db (.allocPut mv c)).2 = r400 :=
  hAllocPut_unknown_class cfg hne hg hk hn

/-! ### reshaper -/

/-- a reshape naming an unknown provider in `inventories` (all known ones with their current
generation) is a 400 with code `placement.resource_provider.not_found`, nothing is written -/
theorem reshape_unknown_provider_400 (cfg : Config) {db : DB R} {mv : Nat} {invs : List (RpInvReq R)}
    {cs : List ConsumerReq} (hmv : 30 ≤ mv)
    (hg : ∀ r ∈ invs, ∀ rp, db.rpByUuid r.uuid = some rp → r.gen = rp.gen)
    (hn : ∃ r ∈ invs, db.rpByUuid r.uuid = none) :
    step cfg db (.reshape mv invs cs) = (db, { status := 400, code := .resourceProviderNotFound }) := by
  have : ¬ mv < 30 := by omega
  simp [step, hReshape, this, resolveReshapeRps_unknown hg hn]

/-- a reshape naming a provider with another generation than the stored one is a 409
`placement.concurrent_update`, nothing is written -/
theorem reshape_stale_generation_409 (cfg : Config) {db : DB R} {mv : Nat} {invs : List (RpInvReq R)}
    {cs : List ConsumerReq} (hmv : 30 ≤ mv) (hk : ∀ r ∈ invs, (db.rpByUuid r.uuid).isSome)
    (hs : ∃ r ∈ invs, ∃ rp, db.rpByUuid r.uuid = some rp ∧ r.gen ≠ rp.gen) :
    step cfg db (.reshape mv invs cs) = (db, r409 .concurrentUpdate) := by
  have : ¬ mv < 30 := by omega
  simp [step, hReshape, this, resolveReshapeRps_stale hk hs]

/-! ### examples of the prescriptions on `Wf.exDb` -/

example : step exCfg exDb (.invSet 39 999 0 []) = (exDb, r404) :=
  put_inventory_unknown_provider_404 exCfg (by decide)
example : step exCfg exDb (.invSet 39 101 2 []) = (exDb, r409 .concurrentUpdate) :=
  put_inventory_stale_generation_409 exCfg (rp := { id := 2, uuid := 101, name := 201, gen := 3, parent := some 1, root := 1 })
    (by decide) (by decide)
def exInv : InvSpec Nat :=
  { rcName := 0, total := 1, reserved := 0, minUnit := 1, maxUnit := 1, stepSize := 1, ratio := 1 }
example : step exCfg exDb (.invAdd 39 101 exInv) = (exDb, r409 .concurrentUpdate) :=
  post_inventory_existing_class_409 exCfg (rc := 0)
    (rp := { id := 2, uuid := 101, name := 201, gen := 3, parent := some 1, root := 1 }) (by decide) (by decide)
    (by decide) (by decide)
example : step exCfg exDb (.rpCreate 39 150 200 none) = (exDb, r409 .duplicateName) :=
  create_provider_duplicate_name_409 exCfg ⟨_, List.mem_cons_self .., .inr rfl⟩
example : step exCfg exDb (.rpTraitsSet 101 3 [13, 99]) = (exDb, r400) :=
  put_traits_unknown_trait_400 exCfg (rp := { id := 2, uuid := 101, name := 201, gen := 3, parent := some 1, root := 1 })
    (by decide) ⟨99, by decide, by decide⟩
example : step exCfg exDb (.traitDelete 99) = (exDb, r404) := delete_unknown_trait_404 exCfg (by decide)
example : step exCfg exDb (.allocDelete 777) = (exDb, r404) := delete_allocations_none_404 exCfg (by decide)
def exReq (uuid : Nat) (gen : Option Nat) (allocs : List (Nat × Nat × Int)) : ConsumerReq :=
  { uuid := uuid, project := some 7, user := some 8, ctype := none, gen := gen, allocs := allocs }
example : (step exCfg exDb (.allocPut 38 (exReq 500 (some 0) [(101, 0, 1)]))).2 = r409 .concurrentUpdate :=
  put_allocations_stale_consumer_generation_409 exCfg
    (cons := { id := 1, uuid := 500, project := 7, user := 8, ctype := none, gen := 1 }) (by decide) (by decide)
    (by decide)
example : (step exCfg exDb (.allocPut 38 (exReq 501 none [(101, 6, 1)]))).2 = r400 :=
  put_allocations_unknown_class_400 exCfg (by decide) (.inr (by decide)) (by decide) ⟨(101, 6, 1), by decide, by decide⟩
example : (step exCfg exDb (.allocPut 38 (exReq 501 none [(999, 0, 1)]))).2 = r400 :=
  put_allocations_unknown_provider_400 exCfg (by decide) (.inr (by decide)) ⟨(999, 0, 1), by decide, by decide⟩
example : step exCfg exDb (.reshape 38 [{ uuid := 999, gen := 0, invs := [] }] []) =
    (exDb, { status := 400, code := .resourceProviderNotFound }) :=
  reshape_unknown_provider_400 exCfg (by decide) (by decide) ⟨_, List.mem_cons_self .., by decide⟩

/-! ## 2. view agreement on the stored rows

The two allocation listings and all usage figures are computed from the one table `db.allocs`
(`GET /allocations/{c}`: rows with `consumer = c`; `GET /resource_providers/{u}/allocations`: rows with
`rp = id(u)`; `GET .../usages`: `DB.usage`; `GET /usages`: rows joined with the consumer record).
In a state satisfying the uniqueness and referential-integrity invariants (`Uniq`, `RI`: every
reachable state, C08) the groupings partition the table. -/

/-- the rows `GET /allocations/{consumer}` is built from -/
def allocsOfConsumer (db : DB R) (u : Nat) : List AllocRow := db.allocs.filter (·.consumer == u)
/-- the rows `GET /resource_providers/{uuid}/allocations` is built from (`p` = internal id) -/
def allocsOfProvider (db : DB R) (p : Nat) : List AllocRow := db.allocs.filter (·.rp == p)

/-- what one consumer holds of class `rc` on provider `rp` -/
def consumerUsed (db : DB R) (u rp rc : Nat) : Int :=
  (((allocsOfConsumer db u).filter (fun a => a.rp == rp && a.rc == rc)).map (·.used)).sum

omit [CapOps R] in
/-- the per-consumer listings, taken over all consumer records, are the allocation table -/
theorem consumer_view_is_table {db : DB R} (hU : Uniq db) (hR : RI db) :
    ((db.consumers.map (·.uuid)).flatMap (allocsOfConsumer db)).Perm db.allocs :=
  regroup_perm (fun a : AllocRow => a.consumer) _ db.allocs hU.consUuid (fun a ha => by
    obtain ⟨c, hc, e⟩ := hR.allocCons a ha
    exact List.mem_map.mpr ⟨c, hc, e⟩)

omit [CapOps R] in
/-- the per-provider listings, taken over all providers, are the allocation table -/
theorem provider_view_is_table {db : DB R} (hU : Uniq db) (hR : RI db) :
    ((db.rps.map (·.id)).flatMap (allocsOfProvider db)).Perm db.allocs :=
  regroup_perm (fun a : AllocRow => a.rp) _ db.allocs hU.rpId (fun a ha => by
    obtain ⟨r, hr, e⟩ := hR.allocRp a ha
    exact List.mem_map.mpr ⟨r, hr, e⟩)

omit [CapOps R] in
/-- **the per-consumer and the per-provider views of allocations agree**: they list the same rows
(provider, class, consumer, amount), each the same number of times -/
theorem consumer_view_eq_provider_view {db : DB R} (hU : Uniq db) (hR : RI db) :
    ((db.consumers.map (·.uuid)).flatMap (allocsOfConsumer db)).Perm
      ((db.rps.map (·.id)).flatMap (allocsOfProvider db)) :=
  (consumer_view_is_table hU hR).trans (provider_view_is_table hU hR).symm

omit [CapOps R] in
/-- row by row, without any invariant: a row is in its consumer's listing and in its provider's
listing iff it is stored -/
theorem row_in_both_views (db : DB R) (a : AllocRow) :
    (a ∈ allocsOfConsumer db a.consumer ↔ a ∈ db.allocs) ∧ (a ∈ allocsOfProvider db a.rp ↔ a ∈ db.allocs) := by
  simp [allocsOfConsumer, allocsOfProvider]

omit [CapOps R] in
/-- **a provider's usage of a class is the sum of all consumers' allocations of that class on it** -/
theorem usage_eq_sum_allocations {db : DB R} (hU : Uniq db) (hR : RI db) (rp rc : Nat) :
    db.usage rp rc = ((db.consumers.map (fun c => consumerUsed db c.uuid rp rc))).sum := by
  unfold DB.usage consumerUsed allocsOfConsumer
  rw [sum_by_key (·.consumer) (db.consumers.map (·.uuid)) db.allocs hU.consUuid (fun a ha => by
    obtain ⟨c, hc, e⟩ := hR.allocCons a ha
    exact List.mem_map.mpr ⟨c, hc, e⟩), List.map_map]
  rfl

/-- the usage total of class `rc` over the consumers selected by `sel` (a project, a project and a
user, additionally a consumer type), as the `GET /usages` queries compute it: allocations joined with
their consumer record -/
def totalUsage (db : DB R) (sel : ConsRow → Bool) (rc : Nat) : Int :=
  ((db.allocs.filter (fun a => ((db.consByUuid a.consumer).any sel) && a.rc == rc)).map (·.used)).sum

omit [CapOps R] in
/-- **usage totals per project / user / consumer type are the sums over that group's consumers of
their allocations** -/
theorem total_usages_eq_sum {db : DB R} (hU : Uniq db) (hR : RI db) (sel : ConsRow → Bool) (rc : Nat) :
    totalUsage db sel rc =
      ((db.consumers.filter sel).map (fun c =>
        (((allocsOfConsumer db c.uuid).filter (·.rc == rc)).map (·.used)).sum)).sum := by
  unfold totalUsage
  rw [sum_by_key (·.consumer) (db.consumers.map (·.uuid)) db.allocs hU.consUuid (fun a ha => by
    obtain ⟨c, hc, e⟩ := hR.allocCons a ha
    exact List.mem_map.mpr ⟨c, hc, e⟩), List.map_map, ← sum_map_ite_filter]
  congr 1
  apply List.map_congr_left
  intro c hc
  simp only [Function.comp, allocsOfConsumer]
  have hself := consByUuid_self hU.consUuid hc
  by_cases hs : sel c = true
  · rw [if_pos hs, List.filter_filter, List.filter_filter]
    congr 2
    apply List.filter_congr
    intro a _
    by_cases e : a.consumer = c.uuid
    · simp [e, hself, hs]
    · have : (a.consumer == c.uuid) = false := by simpa using e
      simp [this]
  · rw [if_neg hs, List.filter_filter]
    have : db.allocs.filter (fun a => ((db.consByUuid a.consumer).any sel && a.rc == rc) && (a.consumer == c.uuid)) = [] := by
      rw [List.filter_eq_nil_iff]
      intro a _
      by_cases e : a.consumer = c.uuid
      · simp [e, hself, hs]
      · have : (a.consumer == c.uuid) = false := by simpa using e
        simp [this]
    rw [this]; rfl

-- the hypotheses are satisfiable, and the figures on `Wf.exDb`
example : exDb.usage 2 0 = ((exDb.consumers.map (fun c => consumerUsed exDb c.uuid 2 0))).sum :=
  usage_eq_sum_allocations uniq_exDb ri_exDb 2 0
example : exDb.usage 2 0 = 2 := by decide
example : totalUsage exDb (fun c => c.project == 7) 0 = 2 := by decide
example : ((exDb.consumers.map (·.uuid)).flatMap (allocsOfConsumer exDb)).Perm
    ((exDb.rps.map (·.id)).flatMap (allocsOfProvider exDb)) :=
  consumer_view_eq_provider_view uniq_exDb ri_exDb

/-! ## 3. the state the API reports is the result of the successful requests

`run cfg db ops` is the history: every request is applied in order, each answered by `step`.
`successes cfg db ops` are the requests of the history that were answered with 2xx, in order.

What can be said exactly: replaying only the successful requests from the same initial state
 * gives the same responses (each successful request is answered as in the full history), and
 * ends in a state that agrees with the final state of the full history on `apiState` - every column of
   `core`, the consumer rows WITHOUT their internal id.
Equality of `core` itself (with `ConsRow.id`) is false, and so is equality of the name registries: a
rejected allocation write leaves project / user / consumer-type names and consumes fresh consumer
ids (C04), so consumers created later get other internal ids in the two runs (example below).  The
internal id is never reported by the API, and it does not influence any later response:
`SimDB` ("equal up to names, fresh id and an injective renaming of internal consumer ids") is
preserved by every request on both sides with equal responses (`indistinguishable_step`), which is
the precise sense in which the two final states are the same state of the API. -/

/-- **C11, history**: dropping the requests that were answered with an error changes neither the
responses of the remaining requests nor the state the API reports at the end. -/
theorem history_eq_successes (cfg : Config) (db : DB R) (hU : Uniq db) (ops : List (Op R)) :
    apiState (run cfg db (successes cfg db ops)).1 = apiState (run cfg db ops).1 ∧
    (run cfg db (successes cfg db ops)).2 = (run cfg db ops).2.filter (·.ok) :=
  have h := run_successes cfg ops (SimDB.refl (Gens.ids_of_uniq hU))
  ⟨h.2.apiState, h.1⟩

/-- the same from the synchronised empty database (no hypothesis on the requests) -/
theorem history_eq_successes_init (cfg : Config) {stdRcs stdTraits : List Nat} (h1 : stdRcs.Nodup)
    (h2 : stdTraits.Nodup) (ops : List (Op R)) :
    apiState (run cfg (initDb stdRcs stdTraits : DB R) (successes cfg (initDb stdRcs stdTraits) ops)).1 =
      apiState (run cfg (initDb stdRcs stdTraits : DB R) ops).1 ∧
    (run cfg (initDb stdRcs stdTraits : DB R) (successes cfg (initDb stdRcs stdTraits) ops)).2 =
      (run cfg (initDb stdRcs stdTraits : DB R) ops).2.filter (·.ok) :=
  history_eq_successes cfg _ (Wf.uniq_init h1 h2) ops

/-- every request of the replayed history is answered with success -/
theorem successes_all_ok (cfg : Config) (db : DB R) (hU : Uniq db) (ops : List (Op R)) :
    ∀ r ∈ (run cfg db (successes cfg db ops)).2, r.ok = true := by
  rw [(history_eq_successes cfg db hU ops).2]
  intro r hr
  exact (List.mem_filter.mp hr).2

/-- the two final states are indistinguishable ... -/
theorem history_states_indistinguishable (cfg : Config) (db : DB R) (hU : Uniq db) (ops : List (Op R)) :
    SimDB (run cfg db ops).1 (run cfg db (successes cfg db ops)).1 :=
  (run_successes cfg ops (SimDB.refl (Gens.ids_of_uniq hU))).2

/-- ... and indistinguishable states stay so under every request, with the same response
(bisimulation): internal consumer ids, name registries and the fresh consumer id influence no
response, now or later -/
theorem indistinguishable_step (cfg : Config) {a b : DB R} (h : SimDB a b) (op : Op R) :
    (step cfg a op).2 = (step cfg b op).2 ∧ SimDB (step cfg a op).1 (step cfg b op).1 :=
  step_sim cfg h op

/-- every continuation of the history is answered alike after the full history and after the
replay of its successes -/
theorem history_future_agrees (cfg : Config) (db : DB R) (hU : Uniq db) (ops more : List (Op R)) :
    (run cfg (run cfg db ops).1 more).2 = (run cfg (run cfg db (successes cfg db ops)).1 more).2 := by
  have h := history_states_indistinguishable cfg db hU ops
  generalize (run cfg db ops).1 = a at h
  generalize (run cfg db (successes cfg db ops)).1 = b at h
  induction more generalizing a b with
  | nil => rfl
  | cons op more ih =>
    rw [run_cons_snd, run_cons_snd, (step_sim cfg h op).1, ih _ _ (step_sim cfg h op).2]

omit [CapOps R] in
/-- indistinguishable states have the same `apiState` -/
theorem indistinguishable_apiState {a b : DB R} (h : SimDB a b) : apiState b = apiState a := h.apiState

/-- a single rejected request is invisible: the state after it is indistinguishable from the state
before it (C04 gives more: `core` is unchanged) -/
theorem rejected_request_invisible (cfg : Config) (db : DB R) (hU : Uniq db) (op : Op R)
    (h : 400 ≤ (step cfg db op).2.status) : SimDB (step cfg db op).1 db :=
  (SimDB.refl (Gens.ids_of_uniq hU)).rejected cfg op h

/-! ### example: a history with rejected allocation writes that create consumers -/

/-- 1. POST /allocations for the new consumers 501 (1 unit) and 503 (7 units of the 6 left): 409, both
       consumer records are created and removed again, two fresh ids are used up;
    2. PUT /allocations/501: 204, creates consumer 501;
    3. PUT inventories dropping a class in use: 409;
    4. POST /resource_providers: 200. -/
def exHistory : List (Op Nat) :=
  [.allocPost 38 [exReq 501 none [(101, 0, 1)], exReq 503 none [(101, 0, 7)]],
   .allocPut 38 (exReq 501 none [(101, 0, 1)]),
   .invSet 39 101 3 [],
   .rpCreate 39 150 250 none]

example : (run exCfg exDb exHistory).2.map (·.status) = [409, 204, 409, 200] := by decide
example : successes exCfg exDb exHistory =
    [.allocPut 38 (exReq 501 none [(101, 0, 1)]), .rpCreate 39 150 250 none] := by
  rfl
example : apiState (run exCfg exDb (successes exCfg exDb exHistory)).1 = apiState (run exCfg exDb exHistory).1 :=
  (history_eq_successes exCfg exDb uniq_exDb exHistory).1
-- why `core` (with internal ids) cannot be used: consumer 501 has id 4 after the full history, id 2 after the replay
example : (run exCfg exDb exHistory).1.consumers.map (fun c => (c.uuid, c.id)) = [(500, 1), (501, 4)] := by decide
example : (run exCfg exDb [.allocPut 38 (exReq 501 none [(101, 0, 1)]), .rpCreate 39 150 250 none]).1.consumers.map
    (fun c => (c.uuid, c.id)) = [(500, 1), (501, 2)] := by decide

end Placement.Props.C11
