/-
  C19, character level: "Names created through the API consist of the prefix CUSTOM_ followed only by A-Z, 0-9
  and _ and are at most 255 characters long."

  The theorems are those of Props/C15.lean section (f) (regular-expression semantics `Model/Regex.lean` over the
  generated patterns `Gen.Schemas.common.CUSTOM_RC_PATTERN` / `CUSTOM_TRAIT_PATTERN`, Python's `$` before a
  trailing newline included), re-exported under C19 names; kept apart from Props/C19.lean so that that file
  does not import the schema tables.

  * `custom_names_wellformed`               (def : Prop) the full statement for a pattern `re`:
                                            every accepted string is CUSTOM_[A-Z0-9_]+
  * `custom_rc_name_wellformed_refuted`     the full statement is FALSE for the class pattern ...
  * `custom_rc_name_wellformed_witness`,
    `custom_trait_name_wellformed_witness`  ... "CUSTOM_X\n" / "CUSTOM_T\n" are accepted (DESIGN §9-J, known finding)
  * `custom_rc_name_wellformed_partial`,
    `custom_trait_name_wellformed_partial`  PARTIAL: true for every name without a newline character
  * `created_class_name`, `created_trait_name`  what a schema-valid POST /resource_classes body or PUT /traits name
                                            is: at most 255 code points, custom form up to one trailing newline
-/
import Placement.Props.C15

namespace Placement.Props.C19
open Placement Placement.Regex Placement.Gen.Schemas

/-- full statement (false for the patterns in the tree, see `custom_rc_name_wellformed_refuted`) -/
def custom_names_wellformed (re : Re) : Prop := C15.custom_name_wellformed re

theorem custom_rc_name_wellformed_witness :
    Regex.matches common.CUSTOM_RC_PATTERN "CUSTOM_X\n".toList = true ∧ C15.isCustomName "CUSTOM_X\n".toList = false :=
  C15.custom_rc_name_wellformed_witness

theorem custom_trait_name_wellformed_witness :
    Regex.matches common.CUSTOM_TRAIT_PATTERN "CUSTOM_T\n".toList = true ∧
      C15.isCustomName "CUSTOM_T\n".toList = false :=
  C15.custom_trait_name_wellformed_witness

theorem custom_rc_name_wellformed_refuted : ¬ custom_names_wellformed common.CUSTOM_RC_PATTERN :=
  C15.custom_rc_name_wellformed_refuted

/-- names without a newline: CUSTOM_ followed by one or more of A-Z, 0-9, _ -/
theorem custom_rc_name_wellformed_partial {s : List Char} (hnl : '\n' ∉ s)
    (h : Regex.matches common.CUSTOM_RC_PATTERN s = true) : C15.isCustomName s = true :=
  C15.custom_rc_name_wellformed_partial hnl h

theorem custom_trait_name_wellformed_partial {s : List Char} (hnl : '\n' ∉ s)
    (h : Regex.matches common.CUSTOM_TRAIT_PATTERN s = true) : C15.isCustomName s = true :=
  C15.custom_trait_name_wellformed_partial hnl h

/-- the name `POST /resource_classes` creates: at most 255 code points, custom form up to a trailing newline -/
theorem created_class_name (j : Json) (h : validate resource_class.POST_RC_SCHEMA_V1_2 j = true) :
    ∃ kvs name, j = .obj kvs ∧ lookup "name" kvs = some (.str name) ∧ name.toList.length ≤ 255 ∧
      (C15.isCustomName name.toList = true ∨ ∃ t, name.toList = t ++ ['\n'] ∧ C15.isCustomName t = true) :=
  C15.created_class_name j h

/-- the name `PUT /traits/{name}` creates -/
theorem created_trait_name (j : Json) (h : validate trait.CUSTOM_TRAIT j = true) :
    ∃ name, j = .str name ∧ name.toList.length ≤ 255 ∧
      (C15.isCustomName name.toList = true ∨ ∃ t, name.toList = t ++ ['\n'] ∧ C15.isCustomName t = true) :=
  C15.created_trait_name j h

/-- the hypotheses are satisfiable -/
example : C15.isCustomName "CUSTOM_FOO_1".toList = true :=
  custom_rc_name_wellformed_partial (by decide) (by decide)

end Placement.Props.C19
