/-
  C19, character level: "Names created through the API consist of the prefix CUSTOM_ followed only by A-Z, 0-9
  and _ and are at most 255 characters long."

  The theorems are those of Props/C15.lean section (f) (regular-expression semantics `Model/Regex.lean` over the
  generated patterns `Gen.Schemas.common.CUSTOM_RC_PATTERN` / `CUSTOM_TRAIT_PATTERN`, Python's `$` before a
  trailing newline included), re-exported under C19 names; kept apart from Props/C19.lean so that that file
  does not import the schema tables.

  * `custom_names_wellformed`               (def : Prop) the full statement for a pattern `re`:
                                            every accepted string is CUSTOM_[A-Z0-9_]+
  * `custom_rc_name_wellformed`,
    `custom_trait_name_wellformed`          FULL: it holds for the two generated patterns (all strings)
  * `dollar_pattern_not_wellformed`         it is FALSE for `^CUSTOM_[A-Z0-9_]+$` (the pattern before the `fix:`
                                            commit recorded in KNOWN_FINDINGS.json, DESIGN §9-J): "CUSTOM_X\n" matches
  * `trailing_newline_rejected`             the former witnesses are rejected by the patterns in the tree
  * `created_class_name`, `put_class_name`,
    `created_trait_name`                    what a schema-valid POST /resource_classes body, PUT /resource_classes/{name}
                                            name or PUT /traits/{name} name is: at most 255 code points, custom form
-/
import Placement.Props.C15

namespace Placement.Props.C19
open Placement Placement.Regex Placement.Gen.Schemas

/-- full statement -/
def custom_names_wellformed (re : Re) : Prop := C15.custom_name_wellformed re

theorem custom_rc_name_wellformed : custom_names_wellformed common.CUSTOM_RC_PATTERN :=
  C15.custom_rc_name_wellformed

theorem custom_trait_name_wellformed : custom_names_wellformed common.CUSTOM_TRAIT_PATTERN :=
  C15.custom_trait_name_wellformed

theorem dollar_pattern_not_wellformed : ¬ custom_names_wellformed C15.dollarPattern :=
  C15.dollarPattern_not_wellformed

theorem trailing_newline_rejected :
    Regex.matches common.CUSTOM_RC_PATTERN "CUSTOM_X\n".toList = false ∧
    Regex.matches common.CUSTOM_TRAIT_PATTERN "CUSTOM_T\n".toList = false :=
  C15.custom_rc_rejects_trailing_newline

/-- the name `POST /resource_classes` creates: at most 255 code points, custom form -/
theorem created_class_name (j : Json) (h : validate resource_class.POST_RC_SCHEMA_V1_2 j = true) :
    ∃ kvs name, j = .obj kvs ∧ lookup "name" kvs = some (.str name) ∧ name.toList.length ≤ 255 ∧
      C15.isCustomName name.toList = true :=
  C15.created_class_name j h

/-- the name `PUT /resource_classes/{name}` (>= 1.7) creates -/
theorem put_class_name (j : Json) (h : validate resource_class.PUT_RC_SCHEMA_V1_2 j = true) :
    ∃ kvs name, j = .obj kvs ∧ lookup "name" kvs = some (.str name) ∧ name.toList.length ≤ 255 ∧
      C15.isCustomName name.toList = true :=
  C15.put_class_name j h

/-- the name `PUT /traits/{name}` creates -/
theorem created_trait_name (j : Json) (h : validate trait.CUSTOM_TRAIT j = true) :
    ∃ name, j = .str name ∧ name.toList.length ≤ 255 ∧ C15.isCustomName name.toList = true :=
  C15.created_trait_name j h

/-- the patterns accept something (non-vacuity) -/
example : Regex.matches common.CUSTOM_RC_PATTERN "CUSTOM_FOO_1".toList = true ∧
    C15.isCustomName "CUSTOM_FOO_1".toList = true := by decide

end Placement.Props.C19
