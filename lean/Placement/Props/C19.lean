/-
  C19  Standard traits / resource classes always present and immutable; custom ones namespaced.

  "After start-up every trait of the os-traits library and every class of os-resource-classes exists (standard
  classes with their fixed identifiers), start-up synchronisation is idempotent, and no API request can delete
  or rename a standard trait or class (400). Names created through the API consist of the prefix CUSTOM_
  followed only by A-Z, 0-9 and _ and are at most 255 characters long, custom resource classes receive unique
  identifiers >= 10000 that never collide with existing ones, and creating an existing name is idempotent
  (204) or a 409, never a duplicate."

  Model: `Model/Sync.lean` (`syncTraits` = `trait._trait_sync`, `syncRcs` = `resource_class._resource_classes_sync`,
  `sync` = `deploy.update_database`, `dropStd` = the harness-only SQL deletion of standard rows),
  `Model/Objects.lean` (`createTrait`, `deleteTrait`, `nextRcId` = `_get_next_id`, `createRc`, `deleteRc`,
  `renameRc`), `Model/Handlers.lean` (`step`).  Names are interned: a name with the prefix `CUSTOM_` is an odd
  number, every other name an even number (`isCustom`); `stdRcs` / `stdTraits` are the two library lists
  (`orc.STANDARDS` in order, `os_traits.get_traits()`).  Helper lemmas: `Lemmas/SyncL.lean` (frame: 15 of the 21
  requests never touch the two tables), `SyncL2.lean` (`sync`, `dropStd`), `SyncL3.lean` (the six writers, histories).

  Definitions (all in `Placement.SyncL`):
    `AllStd l`            := ∀ n ∈ l, isCustom n = false                 (no library name starts with CUSTOM_)
    `Params stdRcs stdTraits` := AllStd stdRcs ∧ AllStd stdTraits ∧ stdRcs.Nodup ∧ stdTraits.Nodup ∧
                             stdRcs.length ≤ minCustomRcId (= 10000)
    `StdRcsOk stdRcs db`  := ∀ p ∈ db.rcs, isCustom p.2 = false → (p.2, p.1) ∈ stdRcs.zipIdx
                             (a class row with a non-custom name is a library class at id = its index)
    `StdTraitsOk stdTraits db` := ∀ t ∈ db.traits, isCustom t = false → t ∈ stdTraits
    `StdOk stdRcs stdTraits db` := StdRcsOk stdRcs db ∧ StdTraitsOk stdTraits db
    `CustomIdsOk db`      := ∀ p ∈ db.rcs, isCustom p.2 = true → 10000 ≤ p.1
    `StdIdsLow db`        := ∀ p ∈ db.rcs, isCustom p.2 = false → p.1 < 10000    (from StdRcsOk + length ≤ 10000)
    `RcT db`              := (db.rcs.map (·.1)).Nodup ∧ (db.rcs.map (·.2)).Nodup ∧ db.traits.Nodup
    `Inv stdRcs stdTraits db` := StdOk ∧ CustomIdsOk ∧ RcT
    `ReachSync cfg stdRcs stdTraits db` := reachable from `{}` (empty database) or `initDb` by any interleaving of
                             API requests (`step`, all 21 operations, no well-formedness hypothesis), `sync`
                             and `dropStd rcNames traitNames` (any lists; no side condition)
    `SinceSync ...`       := reachable from the result of a `sync` (of any `ReachSync` state) or from `initDb`
                             by API requests and further `sync`s (no `dropStd` since)

  Theorems (all FULL, for arbitrary ratio type `R` and `[CapOps R]` where `step` occurs; no sorry):

  (a) start-up
    * `sync_complete`        stdRcs.Nodup → StdRcsOk stdRcs db → Synced (sync db).  Empty, partial or full tables.
                             No other hypothesis (not even AllStd).  `sync_complete_needs_stdRcsOk`: without
                             StdRcsOk it is false (a standard name stored under a wrong id is never repaired:
                             the code compares names only) -- the same holds for the Python code.
    * `sync_empty`           stdTraits.Nodup → sync {} = initDb (`initDb` is what start-up yields on a new database)
    * `sync_idempotent`      AllStd stdRcs → AllStd stdTraits → sync (sync db) = sync db   (ANY db)
    * `sync_fixes_synced`    ... → Synced db → sync db = db
    * `sync_preserves_custom`  AllStd both → custom rows of both tables unchanged (as filtered lists), old tables
                             are prefixes of the new ones, every other column unchanged.
    * `sync_preserves_uniq`  Params-part + StdRcsOk + CustomIdsOk + Uniq db → Uniq (sync db); `sync_preserves_inv`.
                             `stdRcs.length ≤ 10000` IS needed (otherwise a new library class gets an id >= 10000
                             that a custom class may hold): `sync_uniq_needs_length` (library of 10001 classes);
                             `CustomIdsOk` is needed as well: `sync_uniq_needs_customIdsOk`.
  (b) immutability, every request
    * `standard_immutable`   StdIdsLow db → ∀ op, rows with non-custom names of `rcs` and of `traits` are the
                             same lists before and after `step cfg db op` (nothing deleted, renamed, created).
                             `standard_immutable_needs_idsLow`: hypothesis needed (`destroy`/`save` decide "standard"
                             by id < 10000, not by name); it is an invariant (`inv_step`).
    * `inv_step`, `synced_step`, `customIdsOk_step` (no hypothesis), `names_stay_unique` (no hypothesis)
    * 400 and unchanged: `delete_standard_class_400`, `delete_standard_trait_400` (= Props/C08),
      `delete_standard_class_name_400`, `rename_standard_class_400`, `rename_standard_class_name_400`,
      `rename_to_noncustom_400`, `create_noncustom_class_400` (POST and PUT), `create_noncustom_trait_400`
  (c) `custom_class_id_fresh`  201 on POST or PUT /resource_classes ⇒ the state is the old one plus the row
                             (nextRcId db, name) at the end, name custom and new, nextRcId db ≥ 10000 and
                             > every id in the table.  `nextRcId_fresh` (any db), `create_new_class_201`: converse.
  (d) `create_existing_idempotent` (PUT class existing → 204 unchanged; POST class existing → 409 unchanged; PUT
      trait existing → 204 unchanged), `create_status_cases` (the only outcomes), `names_stay_unique`.
  (e) histories: `reachSync_inv` (Inv in every ReachSync state), `synced_after_sync`, `synced_since_sync`
      (Synced in every state since the last sync as long as no `dropStd` happens), `reach_synced` (API-only
      histories from the synchronised empty database).
  (f) character level ("CUSTOM_ followed only by A-Z, 0-9 and _, at most 255 characters"): Props/C15.lean
      section (f) (`custom_name_wellformed` is REFUTED for the class pattern -- trailing newline, known finding J --
      and proved for newline-free names); re-exported in `Props/C19Names.lean` to keep this file's build short.
      In this file "custom name" is the abstract `isCustom`.

  Hypotheses that had to be added w.r.t. DESIGN §5: `StdRcsOk` for `sync_complete`; `AllStd` for idempotence;
  `stdRcs.length ≤ 10000` for uniqueness of ids; `StdIdsLow` for `standard_immutable`.  All are established by
  `initDb` / `{}` and kept by `step`, `sync`, `dropStd` (`reachSync_inv`), so for every state the harness can reach
  the theorems apply without further assumptions than `Params` on the two library lists.

  Missing: nothing of the list above.  Not modelled (see report): the `DBDuplicateEntry` branches of the two
  sync functions and of `create` (concurrent workers); `rcT_sync` shows that in a sequential execution under the
  invariant no duplicate arises, so the branch is dead there.
-/
import Placement.Lemmas.SyncL3
import Placement.Props.C08

namespace Placement.Props.C19
open Placement Placement.Wf Placement.SyncL
variable {R : Type}
set_option linter.unusedSectionVars false

/-! ## (a) start-up synchronisation -/

/-- **sync_complete.** From any tables (empty, partially or fully synchronised) in which the rows with
non-custom names are library rows at their index, `sync` yields a database with every library trait and every
library class at id = index. -/
theorem sync_complete {stdRcs stdTraits : List Nat} {db : DB R} (hN : stdRcs.Nodup) (hS : StdRcsOk stdRcs db) :
    Synced stdRcs stdTraits (sync stdRcs stdTraits db) := synced_sync hN hS

/-- on a new (empty) database start-up yields exactly `initDb` -/
theorem sync_empty {stdRcs stdTraits : List Nat} (hT : stdTraits.Nodup) :
    sync stdRcs stdTraits ({} : DB R) = initDb stdRcs stdTraits := by
  have e1 : needTraits stdTraits ({} : DB R) = stdTraits := by
    unfold needTraits
    show (stdTraits.filter (fun t => !(([] : List Nat).filter (fun t => !isCustom t)).contains t)).eraseDups = _
    have : stdTraits.filter (fun t => !(([] : List Nat).filter (fun t => !isCustom t)).contains t) = stdTraits :=
      List.filter_eq_self.2 (fun _ _ => rfl)
    rw [this]
    clear this
    induction stdTraits with
    | nil => rfl
    | cons a l ih =>
      rw [List.nodup_cons] at hT
      rw [List.eraseDups_cons]
      have : l.filter (fun b => !b == a) = l :=
        List.filter_eq_self.2 (fun b hb => by
          have : b ≠ a := fun e => hT.1 (e ▸ hb)
          simp [this])
      rw [this, ih hT.2]
  have e2 : needRcs stdRcs ({} : DB R) = stdRcs.zipIdx.map (fun (n, i) => (i, n)) := by
    unfold needRcs
    show (stdRcs.zipIdx.filter (fun p => !((([] : List (Nat × Nat)).map (·.2)).filter
      (fun n => !isCustom n)).contains p.1)).map _ = _
    have : stdRcs.zipIdx.filter (fun p => !((([] : List (Nat × Nat)).map (·.2)).filter
        (fun n => !isCustom n)).contains p.1) = stdRcs.zipIdx := List.filter_eq_self.2 (fun _ _ => rfl)
    rw [this]
  rw [sync_eq, e1, e2]
  rfl

/-- **sync_idempotent** (any database) -/
theorem sync_idempotent {stdRcs stdTraits : List Nat} (hR : AllStd stdRcs) (hT : AllStd stdTraits) (db : DB R) :
    sync stdRcs stdTraits (sync stdRcs stdTraits db) = sync stdRcs stdTraits db := sync_idem hR hT db

/-- a synchronised database is left exactly as it is -/
theorem sync_fixes_synced {stdRcs stdTraits : List Nat} (hR : AllStd stdRcs) (hT : AllStd stdTraits) {db : DB R}
    (h : Synced stdRcs stdTraits db) : sync stdRcs stdTraits db = db := sync_eq_self_of_synced hR hT h

/-- **sync_preserves_custom.** `sync` only appends rows with library names: the custom rows of both tables are
the same lists, every row present before is still there (the old tables are prefixes), every other column of
the database is unchanged. -/
theorem sync_preserves_custom {stdRcs stdTraits : List Nat} (hR : AllStd stdRcs) (hT : AllStd stdTraits) (db : DB R) :
    (sync stdRcs stdTraits db).rcs.filter (fun p => isCustom p.2) = db.rcs.filter (fun p => isCustom p.2) ∧
    (sync stdRcs stdTraits db).traits.filter isCustom = db.traits.filter isCustom ∧
    db.rcs <+: (sync stdRcs stdTraits db).rcs ∧ db.traits <+: (sync stdRcs stdTraits db).traits ∧
    sync stdRcs stdTraits db =
      { db with rcs := (sync stdRcs stdTraits db).rcs, traits := (sync stdRcs stdTraits db).traits } :=
  ⟨sync_custom_rcs hR db, sync_custom_traits hT db, List.prefix_append _ _, List.prefix_append _ _, rfl⟩

/-- **sync_preserves_uniq.** The uniqueness constraints survive `sync` (so the `DBDuplicateEntry` branch of the
two sync functions is not taken) provided the rows with non-custom names are library rows at their index,
custom classes have ids >= 10000 and the library has at most 10000 classes. -/
theorem sync_preserves_uniq {stdRcs stdTraits : List Nat} (hR : AllStd stdRcs) (hT : AllStd stdTraits)
    (hN : stdRcs.Nodup) (hL : stdRcs.length ≤ minCustomRcId) {db : DB R} (hS : StdRcsOk stdRcs db)
    (hC : CustomIdsOk db) (hU : Uniq db) : Uniq (sync stdRcs stdTraits db) := uniq_sync hR hT hN hL hS hC hU

/-- the C19 invariant survives `sync` and `dropStd` -/
theorem sync_preserves_inv {stdRcs stdTraits : List Nat} (hP : Params stdRcs stdTraits) {db : DB R}
    (h : Inv stdRcs stdTraits db) : Inv stdRcs stdTraits (sync stdRcs stdTraits db) := inv_sync hP h

theorem dropStd_preserves_inv {stdRcs stdTraits : List Nat} {db : DB R} (rcNames traitNames : List Nat)
    (h : Inv stdRcs stdTraits db) : Inv stdRcs stdTraits (dropStd rcNames traitNames db) := inv_dropStd _ _ h

/-- `dropStd` removes no custom row -/
theorem dropStd_preserves_custom {db : DB R} (rcNames traitNames : List Nat) (h : CustomIdsOk db) :
    (dropStd rcNames traitNames db).rcs.filter (fun p => isCustom p.2) = db.rcs.filter (fun p => isCustom p.2) ∧
    (dropStd rcNames traitNames db).traits.filter isCustom = db.traits.filter isCustom :=
  ⟨dropStd_custom_rcs _ _ h, dropStd_custom_traits _ _⟩

/-! ## (b) no request touches a standard row -/

section
variable [CapOps R]

/-- **standard_immutable.** For every request: the rows with non-custom names of the class table and of the
trait table are the same lists before and after (no API request deletes, renames or creates one). -/
theorem standard_immutable (cfg : Config) {db : DB R} (hL : StdIdsLow db) (op : Op R) :
    (step cfg db op).1.rcs.filter (fun p => !isCustom p.2) = db.rcs.filter (fun p => !isCustom p.2) ∧
    (step cfg db op).1.traits.filter (fun t => !isCustom t) = db.traits.filter (fun t => !isCustom t) :=
  stdSame_step cfg hL op

/-- ... in particular in every state in which the non-custom rows are library rows -/
theorem standard_immutable_of_stdOk (cfg : Config) {stdRcs stdTraits : List Nat} (hL : stdRcs.length ≤ minCustomRcId)
    {db : DB R} (hS : StdOk stdRcs stdTraits db) (op : Op R) :
    (step cfg db op).1.rcs.filter (fun p => !isCustom p.2) = db.rcs.filter (fun p => !isCustom p.2) ∧
    (step cfg db op).1.traits.filter (fun t => !isCustom t) = db.traits.filter (fun t => !isCustom t) :=
  stdSame_step cfg (stdIdsLow_of_stdRcsOk hL hS.1) op

/-- every request keeps the C19 invariant (`StdOk`, `CustomIdsOk`, unique ids and names) ... -/
theorem inv_step {stdRcs stdTraits : List Nat} (hP : Params stdRcs stdTraits) (cfg : Config) {db : DB R}
    (h : Inv stdRcs stdTraits db) (op : Op R) : Inv stdRcs stdTraits (step cfg db op).1 := SyncL.inv_step hP cfg h op

/-- ... and leaves a synchronised database synchronised -/
theorem synced_step {stdRcs stdTraits : List Nat} (hP : Params stdRcs stdTraits) (cfg : Config) {db : DB R}
    (h : Inv stdRcs stdTraits db) (hS : Synced stdRcs stdTraits db) (op : Op R) :
    Synced stdRcs stdTraits (step cfg db op).1 := SyncL.synced_step hP cfg h hS op

/-- custom classes keep identifiers >= 10000 under every request, `sync` and `dropStd` -/
theorem customIdsOk_step (cfg : Config) {db : DB R} (h : CustomIdsOk db) (op : Op R) :
    CustomIdsOk (step cfg db op).1 := SyncL.customIdsOk_step cfg h op

omit [CapOps R] in
theorem customIdsOk_sync {stdRcs stdTraits : List Nat} (hE : AllStd stdRcs) {db : DB R} (h : CustomIdsOk db) :
    CustomIdsOk (sync stdRcs stdTraits db) := SyncL.customIdsOk_sync hE h

omit [CapOps R] in
theorem customIdsOk_dropStd {db : DB R} (rcNames traitNames : List Nat) (h : CustomIdsOk db) :
    CustomIdsOk (dropStd rcNames traitNames db) := SyncL.customIdsOk_dropStd _ _ h

/-! ### the refusals: 400, nothing changes -/

/-- DELETE of a class with id < 10000 (Props/C08) -/
theorem delete_standard_class_400 {cfg : Config} {db : DB R} {n id : Nat}
    (hrc : db.rcId n = some id) (hstd : id < minCustomRcId) : step cfg db (.rcDelete n) = (db, r400) :=
  C08.delete_standard_class_400 hrc hstd

/-- DELETE of a standard trait (Props/C08) -/
theorem delete_standard_trait_400 {cfg : Config} {db : DB R} {n : Nat}
    (hex : n ∈ db.traits) (hstd : isCustom n = false) : step cfg db (.traitDelete n) = (db, r400) :=
  C08.delete_standard_trait_400 hex hstd

/-- DELETE of an existing class with a non-custom name -/
theorem delete_standard_class_name_400 {cfg : Config} {db : DB R} (hL : StdIdsLow db) {n : Nat}
    (hex : ∃ p ∈ db.rcs, p.2 = n) (hstd : isCustom n = false) : step cfg db (.rcDelete n) = (db, r400) := by
  obtain ⟨id, hid⟩ := Option.isSome_iff_exists.1 (rcId_isSome_iff.2 hex)
  exact delete_standard_class_400 hid (hL _ (rcId_some hid) hstd)

/-- rename (PUT below 1.7) of a class with id < 10000, whatever the new name -/
theorem rename_standard_class_400 {cfg : Config} {db : DB R} {o n id : Nat}
    (hrc : db.rcId o = some id) (hstd : id < minCustomRcId) : step cfg db (.rcRename o n) = (db, r400) := by
  cases hc : isCustom n <;> simp [step, hRcRename, hrc, renameRc, hstd, hc]

/-- rename of an existing class with a non-custom name -/
theorem rename_standard_class_name_400 {cfg : Config} {db : DB R} (hL : StdIdsLow db) {o n : Nat}
    (hex : ∃ p ∈ db.rcs, p.2 = o) (hstd : isCustom o = false) : step cfg db (.rcRename o n) = (db, r400) := by
  obtain ⟨id, hid⟩ := Option.isSome_iff_exists.1 (rcId_isSome_iff.2 hex)
  exact rename_standard_class_400 hid (hL _ (rcId_some hid) hstd)

/-- rename of any class to a non-custom name -/
theorem rename_to_noncustom_400 {cfg : Config} {db : DB R} {o n : Nat} (hn : isCustom n = false) :
    step cfg db (.rcRename o n) = (db, r400) := by
  simp [step, hRcRename, hn]

/-- creating a class with a non-custom name: POST and PUT -/
theorem create_noncustom_class_400 {cfg : Config} {db : DB R} {n : Nat} (hn : isCustom n = false) :
    step cfg db (.rcPost n) = (db, r400) ∧ step cfg db (.rcPut n) = (db, r400) := by
  constructor <;> simp [step, hRcPost, hRcPut, hn]

/-- creating a trait with a non-custom name -/
theorem create_noncustom_trait_400 {cfg : Config} {db : DB R} {n : Nat} (hn : isCustom n = false) :
    step cfg db (.traitPut n) = (db, r400) := by
  simp [step, hTraitPut, hn]

/-! ## (c) identifiers of custom classes -/

/-- **custom_class_id_fresh.** A 201 answer of POST /resource_classes or PUT /resource_classes/{name} means: the
new state is the old one with the row `(nextRcId db, name)` appended; the name is custom and was not in the table;
the identifier is >= 10000 and larger than every identifier in the table (in particular different from all). -/
theorem custom_class_id_fresh {cfg : Config} {db db' : DB R} {n : Nat} {r : Resp}
    (h : step cfg db (.rcPost n) = (db', r) ∨ step cfg db (.rcPut n) = (db', r)) (hs : r.status = 201) :
    db' = { db with rcs := db.rcs ++ [(nextRcId db, n)] } ∧ isCustom n = true ∧
    minCustomRcId ≤ nextRcId db ∧ (∀ p ∈ db.rcs, p.1 < nextRcId db) ∧ (∀ p ∈ db.rcs, p.2 ≠ n) := by
  have key : db' = { db with rcs := db.rcs ++ [(nextRcId db, n)] } ∧ isCustom n = true ∧ db.rcId n = none := by
    rcases h with h | h
    · have h : hRcPost db n = (db', r) := h
      rcases hRcPost_spec db n with ⟨e, _⟩ | ⟨e, _⟩ | ⟨e, hc, hn⟩ <;> rw [e] at h <;> cases h
      · cases hs
      · cases hs
      · exact ⟨rfl, hc, hn⟩
    · have h : hRcPut db n = (db', r) := h
      rcases hRcPut_spec db n with ⟨e, _⟩ | ⟨e, _⟩ | ⟨e, hc, hn⟩ <;> rw [e] at h <;> cases h
      · cases hs
      · cases hs
      · exact ⟨rfl, hc, hn⟩
  exact ⟨key.1, key.2.1, min_le_nextRcId db, fun p hp => lt_nextRcId p hp, rcId_eq_none key.2.2⟩

omit [CapOps R] in
/-- `_get_next_id`: at least 10000 and above every identifier in the table -/
theorem nextRcId_fresh (db : DB R) : minCustomRcId ≤ nextRcId db ∧ ∀ p ∈ db.rcs, p.1 < nextRcId db :=
  ⟨min_le_nextRcId db, fun p hp => lt_nextRcId p hp⟩

/-- conversely a custom name that is not in the table is created: 201 -/
theorem create_new_class_201 {cfg : Config} {db : DB R} {n : Nat} (hn : isCustom n = true)
    (hnew : ∀ p ∈ db.rcs, p.2 ≠ n) :
    step cfg db (.rcPost n) = ({ db with rcs := db.rcs ++ [(nextRcId db, n)] }, r201) ∧
    step cfg db (.rcPut n) = ({ db with rcs := db.rcs ++ [(nextRcId db, n)] }, r201) := by
  have hnone : db.rcId n = none := by
    cases h : db.rcId n with
    | none => rfl
    | some id => exact absurd rfl (hnew _ (rcId_some h))
  constructor
  · show hRcPost db n = _
    rcases hRcPost_spec db n with ⟨_, hc⟩ | ⟨_, _, hs⟩ | ⟨e, _⟩
    · rw [hn] at hc; cases hc
    · rw [hnone] at hs; cases hs
    · exact e
  · show hRcPut db n = _
    rcases hRcPut_spec db n with ⟨_, hc⟩ | ⟨_, _, hs⟩ | ⟨e, _⟩
    · rw [hn] at hc; cases hc
    · rw [hnone] at hs; cases hs
    · exact e

/-! ## (d) creating an existing name -/

/-- **create_existing_idempotent.** PUT of an existing class: 204; POST of an existing class: 409; PUT of an
existing trait: 204; the state is unchanged in all three. -/
theorem create_existing_idempotent {cfg : Config} {db : DB R} {n : Nat} (hn : isCustom n = true) :
    ((∃ p ∈ db.rcs, p.2 = n) → step cfg db (.rcPut n) = (db, r204) ∧ step cfg db (.rcPost n) = (db, r409)) ∧
    (n ∈ db.traits → step cfg db (.traitPut n) = (db, r204)) := by
  constructor
  · intro hex
    have hs := rcId_isSome_iff.2 hex
    constructor
    · show hRcPut db n = _
      rcases hRcPut_spec db n with ⟨_, hc⟩ | ⟨e, _⟩ | ⟨_, _, h0⟩
      · rw [hn] at hc; cases hc
      · exact e
      · rw [h0] at hs; cases hs
    · show hRcPost db n = _
      rcases hRcPost_spec db n with ⟨_, hc⟩ | ⟨e, _⟩ | ⟨_, _, h0⟩
      · rw [hn] at hc; cases hc
      · exact e
      · rw [h0] at hs; cases hs
  · intro hex
    show hTraitPut db n = _
    rcases hTraitPut_spec db n with ⟨_, hc⟩ | ⟨e, _⟩ | ⟨_, _, h0⟩
    · rw [hn] at hc; cases hc
    · exact e
    · exact absurd hex h0

/-- the only outcomes of the three creating requests: 400 (non-custom name), 204 / 409 (existing name), both
with the state unchanged, or 201 with exactly one row appended whose name was not in the table -/
theorem create_status_cases (cfg : Config) (db : DB R) (n : Nat) :
    ((step cfg db (.rcPost n) = (db, r400) ∧ isCustom n = false) ∨
     (step cfg db (.rcPost n) = (db, r409) ∧ ∃ p ∈ db.rcs, p.2 = n) ∨
     (step cfg db (.rcPost n) = ({ db with rcs := db.rcs ++ [(nextRcId db, n)] }, r201) ∧ ∀ p ∈ db.rcs, p.2 ≠ n)) ∧
    ((step cfg db (.rcPut n) = (db, r400) ∧ isCustom n = false) ∨
     (step cfg db (.rcPut n) = (db, r204) ∧ ∃ p ∈ db.rcs, p.2 = n) ∨
     (step cfg db (.rcPut n) = ({ db with rcs := db.rcs ++ [(nextRcId db, n)] }, r201) ∧ ∀ p ∈ db.rcs, p.2 ≠ n)) ∧
    ((step cfg db (.traitPut n) = (db, r400) ∧ isCustom n = false) ∨
     (step cfg db (.traitPut n) = (db, r204) ∧ n ∈ db.traits) ∨
     (step cfg db (.traitPut n) = ({ db with traits := db.traits ++ [n] }, r201) ∧ n ∉ db.traits)) := by
  refine ⟨?_, ?_, ?_⟩
  · rcases hRcPost_spec db n with ⟨e, h⟩ | ⟨e, _, h⟩ | ⟨e, _, h⟩
    · exact .inl ⟨e, h⟩
    · exact .inr (.inl ⟨e, rcId_isSome_iff.1 h⟩)
    · exact .inr (.inr ⟨e, rcId_eq_none h⟩)
  · rcases hRcPut_spec db n with ⟨e, h⟩ | ⟨e, _, h⟩ | ⟨e, _, h⟩
    · exact .inl ⟨e, h⟩
    · exact .inr (.inl ⟨e, rcId_isSome_iff.1 h⟩)
    · exact .inr (.inr ⟨e, rcId_eq_none h⟩)
  · rcases hTraitPut_spec db n with ⟨e, h⟩ | ⟨e, _, h⟩ | ⟨e, _, h⟩
    · exact .inl ⟨e, h⟩
    · exact .inr (.inl ⟨e, h⟩)
    · exact .inr (.inr ⟨e, h⟩)

/-- **never a duplicate**: class ids, class names and trait names stay pairwise distinct under every request
(all 21 operations, no well-formedness hypothesis on the request) -/
theorem names_stay_unique (cfg : Config) {db : DB R} (h1 : (db.rcs.map (·.1)).Nodup) (h2 : (db.rcs.map (·.2)).Nodup)
    (h3 : db.traits.Nodup) (op : Op R) :
    ((step cfg db op).1.rcs.map (·.1)).Nodup ∧ ((step cfg db op).1.rcs.map (·.2)).Nodup ∧
    (step cfg db op).1.traits.Nodup :=
  have := rcT_step cfg ⟨h1, h2, h3⟩ op
  ⟨this.rcId, this.rcName, this.traits⟩

/-! ## (e) histories of requests, synchronisations and deletions of standard rows -/

/-- in every state of every history that interleaves API requests, `sync` and `dropStd`, from the empty or the
synchronised empty database: rows with non-custom names are library rows (classes at id = index), custom
classes have ids >= 10000, ids and names are unique -/
theorem reachSync_inv {cfg : Config} {stdRcs stdTraits : List Nat} (hP : Params stdRcs stdTraits) {db : DB R}
    (h : ReachSync cfg stdRcs stdTraits db) :
    StdOk stdRcs stdTraits db ∧ CustomIdsOk db ∧
    (db.rcs.map (·.1)).Nodup ∧ (db.rcs.map (·.2)).Nodup ∧ db.traits.Nodup :=
  have := SyncL.reachSync_inv hP h
  ⟨this.std, this.custom, this.uniq.rcId, this.uniq.rcName, this.uniq.traits⟩

/-- after every `sync` step of such a history everything is present -/
theorem synced_after_sync {cfg : Config} {stdRcs stdTraits : List Nat} (hP : Params stdRcs stdTraits) {db : DB R}
    (h : ReachSync cfg stdRcs stdTraits db) : Synced stdRcs stdTraits (sync stdRcs stdTraits db) :=
  synced_sync hP.rcsNodup (SyncL.reachSync_inv hP h).std.1

/-- ... and stays present as long as only API requests (and further `sync`s) follow -/
theorem synced_since_sync {cfg : Config} {stdRcs stdTraits : List Nat} (hP : Params stdRcs stdTraits) {db : DB R}
    (h : SinceSync cfg stdRcs stdTraits db) : Synced stdRcs stdTraits db := sinceSync_synced hP h

/-- **after start-up**: in every state reachable by API requests from the synchronised empty database every
library trait and class exists (classes at their index) -/
theorem reach_synced {cfg : Config} {stdRcs stdTraits : List Nat} (hP : Params stdRcs stdTraits) {db : DB R}
    (h : Reach cfg stdRcs stdTraits db) : Synced stdRcs stdTraits db := by
  apply sinceSync_synced (cfg := cfg) hP
  induction h with
  | init => exact .init
  | step db op _ ih => exact .step db op ih

end

/-! ## the hypotheses are satisfiable, and needed -/

section Examples

def exStdRcs : List Nat := [0, 2, 4]
def exStdTraits : List Nat := [10, 12]

/-- a partially synchronised database: class 2 (index 1) and trait 12 present, classes 0 and 4 and trait 10
missing; one custom class (11, id 10000) and one custom trait (13) -/
def exPartial : DB Nat := { rcs := [(1, 2), (10000, 11)], traits := [12, 13] }

/-- the result of `sync` on it -/
def exSynced : DB Nat := { rcs := [(1, 2), (10000, 11), (0, 0), (2, 4)], traits := [12, 13, 10] }

theorem exParams : Params exStdRcs exStdTraits :=
  ⟨by unfold AllStd; decide, by unfold AllStd; decide, by decide, by decide, by decide⟩

theorem exPartial_inv : Inv exStdRcs exStdTraits exPartial :=
  ⟨⟨by unfold StdRcsOk; decide, by unfold StdTraitsOk; decide⟩, by unfold CustomIdsOk; decide,
   ⟨by decide, by decide, by decide⟩⟩

example : sync exStdRcs exStdTraits exPartial = exSynced := rfl

example : Synced exStdRcs exStdTraits (sync exStdRcs exStdTraits exPartial) :=
  sync_complete exParams.rcsNodup exPartial_inv.std.1

example : ¬ Synced exStdRcs exStdTraits exPartial := by unfold Synced; decide

/-- empty tables -/
example : Synced exStdRcs exStdTraits (sync exStdRcs exStdTraits ({} : DB Nat)) :=
  sync_complete exParams.rcsNodup (stdOk_empty exStdRcs exStdTraits).1

example : sync exStdRcs exStdTraits ({} : DB Nat) = initDb exStdRcs exStdTraits := sync_empty exParams.traitsNodup

/-- full tables -/
example : sync exStdRcs exStdTraits exSynced = exSynced :=
  sync_fixes_synced exParams.rcsStd exParams.traitsStd (by unfold Synced; decide)

example : sync exStdRcs exStdTraits (sync exStdRcs exStdTraits exPartial) = sync exStdRcs exStdTraits exPartial :=
  sync_idempotent exParams.rcsStd exParams.traitsStd _

/-- `StdRcsOk` is needed for `sync_complete`: class name 0 stored under id 5 is not repaired (neither by the
code: `_resource_classes_sync` compares names only) -/
theorem sync_complete_needs_stdRcsOk :
    ¬ Synced exStdRcs exStdTraits (sync exStdRcs exStdTraits ({ rcs := [(5, 0)] } : DB Nat)) := by
  unfold Synced; decide

/-- `CustomIdsOk` is needed for `sync_preserves_uniq`: a custom row holding the id of a missing standard class
makes the ids collide (in the code: `DBDuplicateEntry`, swallowed, nothing inserted) -/
theorem sync_uniq_needs_customIdsOk :
    ¬ ((sync exStdRcs exStdTraits ({ rcs := [(0, 11)] } : DB Nat)).rcs.map (·.1)).Nodup := by decide

/-- a library of 10001 classes (names 0, 2, ..., 20000) -/
def exBigStd : List Nat := (List.range 10001).map (· * 2)

/-- `stdRcs.length ≤ 10000` is needed for `sync_preserves_uniq`: every other hypothesis holds, yet the class at
index 10000 gets the id of the custom class 11 -/
theorem sync_uniq_needs_length :
    AllStd exBigStd ∧ exBigStd.Nodup ∧ StdRcsOk exBigStd ({ rcs := [(10000, 11)] } : DB Nat) ∧
    CustomIdsOk ({ rcs := [(10000, 11)] } : DB Nat) ∧
    (10000, 11) ∈ (sync exBigStd [] ({ rcs := [(10000, 11)] } : DB Nat)).rcs ∧
    (10000, 20000) ∈ (sync exBigStd [] ({ rcs := [(10000, 11)] } : DB Nat)).rcs := by
  refine ⟨?_, ?_, ?_, ?_, by decide +kernel, by decide +kernel⟩
  · intro n hn
    obtain ⟨k, _, rfl⟩ := List.mem_map.1 hn
    simp [isCustom]
  · unfold exBigStd
    rw [L.nodup_map_iff_pairwise]
    exact List.nodup_range.imp (fun h e => h (by omega))
  · intro p hp hc
    have : p = (10000, 11) := by simpa using hp
    subst this
    simp [isCustom] at hc
  · intro p hp _
    have : p = (10000, 11) := by simpa using hp
    subst this
    decide

example : Uniq (sync exStdRcs exStdTraits exDb) :=
  sync_preserves_uniq exParams.rcsStd exParams.traitsStd exParams.rcsNodup exParams.rcsLen
    (by unfold StdRcsOk; decide) (by unfold CustomIdsOk; decide) uniq_exDb

/-- `Wf.exDb` (classes 0, 2 standard, 11, 17 custom; traits 4 standard, 13, 15 custom) with libraries [0, 2] / [4] -/
theorem exDb_params : Params [0, 2] [4] :=
  ⟨by unfold AllStd; decide, by unfold AllStd; decide, by decide, by decide, by decide⟩

theorem exDb_inv : Inv [0, 2] [4] exDb :=
  ⟨⟨by unfold StdRcsOk; decide, by unfold StdTraitsOk; decide⟩, by unfold CustomIdsOk; decide,
   RcT.of_uniq uniq_exDb⟩

theorem exDb_idsLow : StdIdsLow exDb := exDb_inv.idsLow exDb_params

theorem exDb_synced : Synced [0, 2] [4] exDb := by unfold Synced; decide

example (op : Op Nat) : (step exCfg exDb op).1.rcs.filter (fun p => !isCustom p.2) = [(0, 0), (1, 2)] ∧
    (step exCfg exDb op).1.traits.filter (fun t => !isCustom t) = [4] :=
  standard_immutable exCfg exDb_idsLow op

example (op : Op Nat) : Synced [0, 2] [4] (step exCfg exDb op).1 := synced_step exDb_params exCfg exDb_inv exDb_synced op

/-- `StdIdsLow` is needed for `standard_immutable`: a row with a non-custom name and an id >= 10000 can be deleted -/
theorem standard_immutable_needs_idsLow :
    (step exCfg ({ rcs := [(10000, 0)] } : DB Nat) (.rcDelete 0)).1.rcs.filter (fun p => !isCustom p.2) ≠
      ({ rcs := [(10000, 0)] } : DB Nat).rcs.filter (fun p => !isCustom p.2) := by decide

example : step exCfg exDb (.rcDelete 2) = (exDb, r400) :=
  delete_standard_class_name_400 exDb_idsLow (by decide) (by decide)
example : step exCfg exDb (.rcRename 2 19) = (exDb, r400) :=
  rename_standard_class_name_400 exDb_idsLow (by decide) (by decide)
example : step exCfg exDb (.rcRename 2 19) = (exDb, r400) :=
  rename_standard_class_400 (id := 1) (by decide) (by decide)
example : step exCfg exDb (.rcRename 11 6) = (exDb, r400) := rename_to_noncustom_400 (by decide)
example : step exCfg exDb (.rcPost 6) = (exDb, r400) := (create_noncustom_class_400 (by decide)).1
example : step exCfg exDb (.traitPut 6) = (exDb, r400) := create_noncustom_trait_400 (by decide)

/-- a custom class can be renamed and deleted (the theorems are not vacuous the other way round) -/
example : (step exCfg exDb (.rcRename 17 19)).2 = r200 := by decide
example : (step exCfg exDb (.rcDelete 17)).2 = r204 := by decide

/-- POST of the new custom class 19: 201, id 10002 -/
example : (step exCfg exDb (.rcPost 19)).2.status = 201 ∧ nextRcId exDb = 10002 := by decide

example : (step exCfg exDb (.rcPost 19)).1 = { exDb with rcs := exDb.rcs ++ [(nextRcId exDb, 19)] } :=
  (custom_class_id_fresh (cfg := exCfg) (db := exDb) (n := 19) (r := (step exCfg exDb (.rcPost 19)).2)
    (.inl rfl) (by decide)).1

/-- the first custom class of a database gets 10000 -/
example : nextRcId (initDb exStdRcs exStdTraits : DB Nat) = 10000 := by decide

example : step exCfg exDb (.rcPut 11) = (exDb, r204) ∧ step exCfg exDb (.rcPost 11) = (exDb, r409) :=
  (create_existing_idempotent (by decide)).1 (by decide)
example : step exCfg exDb (.traitPut 13) = (exDb, r204) := (create_existing_idempotent (by decide)).2 (by decide)

/-- a history: drop two standard rows, create a class, synchronise -/
example : ReachSync exCfg exStdRcs exStdTraits
    (sync exStdRcs exStdTraits (step exCfg (dropStd [0, 4] [10] (initDb exStdRcs exStdTraits : DB Nat)) (.rcPost 11)).1) :=
  .sync _ (.step _ _ (.dropStd _ _ _ .init))

example : Synced exStdRcs exStdTraits
    (sync exStdRcs exStdTraits (step exCfg (dropStd [0, 4] [10] (initDb exStdRcs exStdTraits : DB Nat)) (.rcPost 11)).1) :=
  synced_after_sync (cfg := exCfg) exParams (.step _ _ (.dropStd _ _ _ .init))

/-! further instances (every theorem above with hypotheses is instantiated at least once) -/

example : (sync exStdRcs exStdTraits exPartial).rcs.filter (fun p => isCustom p.2) = [(10000, 11)] ∧
    (sync exStdRcs exStdTraits exPartial).traits.filter isCustom = [13] :=
  let h := sync_preserves_custom exParams.rcsStd exParams.traitsStd exPartial
  ⟨h.1, h.2.1⟩

example : Inv exStdRcs exStdTraits (sync exStdRcs exStdTraits exPartial) := sync_preserves_inv exParams exPartial_inv
example : Inv exStdRcs exStdTraits (dropStd [2] [12] exPartial) := dropStd_preserves_inv _ _ exPartial_inv
example : dropStd [2, 11] [12, 13] exPartial = { rcs := [(10000, 11)], traits := [13] } := rfl
example : (dropStd [2, 11] [12, 13] exPartial).rcs.filter (fun p => isCustom p.2) = [(10000, 11)] :=
  (dropStd_preserves_custom _ _ exPartial_inv.custom).1
example (op : Op Nat) : Inv [0, 2] [4] (step exCfg exDb op).1 := inv_step exDb_params exCfg exDb_inv op
example (op : Op Nat) : (step exCfg exDb op).1.rcs.filter (fun p => !isCustom p.2) = [(0, 0), (1, 2)] :=
  (standard_immutable_of_stdOk exCfg exDb_params.rcsLen exDb_inv.std op).1
example (op : Op Nat) : CustomIdsOk (step exCfg exDb op).1 := customIdsOk_step exCfg exDb_inv.custom op
example : CustomIdsOk (sync exStdRcs exStdTraits exPartial) := customIdsOk_sync exParams.rcsStd exPartial_inv.custom
example : CustomIdsOk (dropStd [2] [] exPartial) := customIdsOk_dropStd _ _ exPartial_inv.custom
example : step exCfg exDb (.rcDelete 2) = (exDb, r400) := delete_standard_class_400 (id := 1) (by decide) (by decide)
example : step exCfg exDb (.traitDelete 4) = (exDb, r400) := delete_standard_trait_400 (by decide) (by decide)
example : step exCfg exDb (.rcPut 19) = ({ exDb with rcs := exDb.rcs ++ [(nextRcId exDb, 19)] }, r201) :=
  (create_new_class_201 (by decide) (by decide)).2
example (op : Op Nat) : ((step exCfg exDb op).1.rcs.map (·.2)).Nodup :=
  (names_stay_unique exCfg uniq_exDb.rcId uniq_exDb.rcName uniq_exDb.traits op).2.1
example : StdOk exStdRcs exStdTraits
    (sync exStdRcs exStdTraits (step exCfg (dropStd [0, 4] [10] (initDb exStdRcs exStdTraits : DB Nat)) (.rcPost 11)).1) :=
  (reachSync_inv (cfg := exCfg) exParams (.sync _ (.step _ _ (.dropStd _ _ _ .init)))).1
example (op : Op Nat) : Synced exStdRcs exStdTraits (step exCfg (sync exStdRcs exStdTraits exPartial) op).1 :=
  synced_step exParams exCfg (sync_preserves_inv exParams exPartial_inv)
    (sync_complete exParams.rcsNodup exPartial_inv.std.1) op
example (ops : Op Nat × Op Nat) : Synced exStdRcs exStdTraits
    (step exCfg (step exCfg (initDb exStdRcs exStdTraits) ops.1).1 ops.2).1 :=
  reach_synced (cfg := exCfg) exParams (.step _ _ (.step _ _ .init))
example (op : Op Nat) : Synced exStdRcs exStdTraits
    (step exCfg (sync exStdRcs exStdTraits (dropStd [0] [10] (initDb exStdRcs exStdTraits))) op).1 :=
  synced_since_sync (cfg := exCfg) exParams (.step _ _ (.sync _ (.dropStd _ _ _ .init)))

end Examples

end Placement.Props.C19
