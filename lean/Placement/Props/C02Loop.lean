import Placement.Lemmas.MergeStable
/-
  C02 / C03, the loop of `_merge_candidates` as a whole ("every allocation request in the response is exactly what was
  checked"): under the copy rule of the tree (generated), processing further combinations never changes

  * an object that existed before the merge (the per-group allocation requests stay as the searches delivered them), nor
  * the value of any allocation request already in the result set

  - for every store, every list of combinations whose objects are original objects and whose doubly placed keys are of
  classes listed in `multi_group_rcs`.  This is the statement that was FALSE before the repair of finding A
  (`Props/C02Merge.old_rule_double_counts`): there the request added for one combination was changed by the next.
-/
namespace Placement.Props.C02Loop
open Placement Placement.Merge Placement.MergeStable

theorem merge_loop_keeps_values (ctx : Ctx) (st0 : Store) (combos : List (List Areq)) (set : List Entry)
    (hc : ∀ combo ∈ combos, ComboOk ctx st0 combo) (hs : ∀ e ∈ set, ∀ i ∈ e.areq.arrs, i < st0.length) :
    (∀ n, n < st0.length → getArr (mergeCombos ctx st0 set combos).1 n = getArr st0 n) ∧
    (∀ e ∈ set, valueOf (mergeCombos ctx st0 set combos).1 e.areq = valueOf st0 e.areq) := by
  obtain ⟨_, b, c⟩ := mergeCombos_values_stable ctx st0 combos st0 set hc ⟨Nat.le_refl _, fun _ _ => rfl⟩ hs
  exact ⟨b, c⟩

/-- `_merge_candidates` as a whole (all anchors): the allocation requests the per-group searches delivered are not
modified - every object of the store it was called with is unchanged when it returns - and every request of the result
refers to objects of the final store -/
theorem merge_candidates_leaves_inputs_untouched (ctx : Ctx) (st0 : Store) (groups : List (Nat × List Areq))
    (hc : ∀ an ls, listsFor groups an = some ls → ∀ combo ∈ prods ls, ComboOk ctx st0 combo) :
    (∀ n, n < st0.length → getArr (mergeAnchors ctx groups st0 [] (anchorsOf groups)).1 n = getArr st0 n) ∧
    (∀ e ∈ (mergeAnchors ctx groups st0 [] (anchorsOf groups)).2, ∀ i ∈ e.areq.arrs,
      i < (mergeAnchors ctx groups st0 [] (anchorsOf groups)).1.length) := by
  obtain ⟨_, b, _, d⟩ := mergeAnchors_values_stable ctx st0 groups hc (anchorsOf groups) st0 []
    ⟨Nat.le_refl _, fun _ _ => rfl⟩ (fun e he => by cases he)
  exact ⟨b, d⟩

/-- the hypotheses are met by the store and the combinations of the witness of finding A when the class is listed -/
example : ComboOk { policyNone := false, isolate := true, multiRcs := [0], numGranular := 1, sameSubtrees := [],
                    parents := [], limits := [] }
    [⟨1, 0, 1⟩, ⟨1, 0, 2⟩] [{ anchor := 1, useSame := false, arrs := [0], maps := [] },
                            { anchor := 1, useSame := true, arrs := [1], maps := [] }] :=
  ⟨by decide, by
    intro k hk
    by_cases h : ((1, 0) : Nat × Nat) = k
    · subst h; decide
    · exfalso
      simp [countKey, keyOf, getArr, h] at hk⟩

end Placement.Props.C02Loop
