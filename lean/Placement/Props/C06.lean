/-
  C06  Consumer generations prevent lost updates of a consumer's allocations (>= 1.28)
       (every interleaving at database-transaction granularity, any number of requests).

  What is TRUE of the code (proved for every schedule):
  * `consumer_write_sees_generation` (the main write transaction) and
    `consumer_commit_sees_generation` (lifted to every schedule): a write that carries generation `g`
    for an existing consumer in a NON-EMPTY allocations entry answers 2xx only if the consumer has
    generation `g` in the state its main transaction runs on; afterwards the consumer is gone or
    beyond `g`;
  * `at_most_one_success_same_consumer_generation_existing_partial`: of any number of such requests
    carrying the same generation for a consumer that exists in the start state, at most one answers
    2xx - whatever else is in flight, provided no request of the pool may CREATE that consumer
    (a write with generation null or below 1.28) - in particular a successful removal of the consumer
    does not let a second request with the same generation through (ids are never reused);
  * `no_lost_update_partial`: of two successful writes to the consumer the one that commits later
    carries a strictly larger generation: it has read the consumer after the earlier commit;
  * `stale_consumer_generation_409`: the 409 answers carry `placement.concurrent_update`.

  What is FALSE (concrete schedules, `decide`/`rfl` on closed terms):
  * `C06_witness_two_creators` / `C06_null_generation_full_false`: two writes with generation null
    for a consumer that does not exist both answer 204 (known finding C);
  * `C06_witness_two_empty_writes` / `C06_existing_full_false`: a write with an EMPTY allocations
    entry that finds nothing to remove contains no compare-and-swap: two empty writes carrying the same
    generation both answer 204 (the second changes nothing).  Hence the restriction to non-empty
    entries in the `_partial` theorems.  (The earlier, harmful variant - the empty write re-read the
    consumer generation after its check and removed allocations written in between - was found while
    attempting this proof, reproduced on the real application and repaired: 8fa9b40.)
-/
import Placement.Lemmas.GuardTie
import Placement.Lemmas.SchedConsTxn
import Placement.Lemmas.WfExample

namespace Placement.Props.C06
open Placement Placement.Hier Placement.Gens Placement.Sched
variable {R : Type} [CapOps R]
set_option linter.unusedSectionVars false

/-! ## The main write transaction -/

/-- **consumer_write_sees_generation** (one transaction).  The main write transaction of an
allocation write (PUT, POST, reshaper) whose allocation objects name consumer `c` with generation
`g`: either it fails and leaves the state unchanged, or consumer `c` had generation `g` in the state
the transaction ran on and is gone or beyond `g` afterwards. -/
theorem consumer_write_sees_generation (ctx : ACtx R) (objs : List AllocReq) (db : DB R) (hU : Uniq db)
    {c g : Nat} (hc : c < db.nextCons) (hobjs : ObjsFor c g objs) :
    ((aMain ctx objs db).1 = db ∧ ∃ e, (aMain ctx objs db).2 = cleanupThen ctx.created (aErr ctx e)) ∨
    ((aMain ctx objs db).2 = .done r204 ∧ ConsAt c g db ∧ ConsPast c g (aMain ctx objs db).1) := by
  have hI := ids_of_uniq hU
  unfold aMain
  dsimp only
  have f1 := updateConsumers_evo (N := fun _ => True) ctx.done db hI
  have s1 := updateConsumers_sameCG ctx.done db
  have hc1 := nextCons_evoG f1 hc
  split
  · rename_i db3 h
    refine .inr ⟨rfl, ?_⟩
    have key : ConsAt c g (updateConsumers db ctx.done) ∧ ConsPast c g db3 := by
      split at h
      · exact reshapeTxnR_cons h f1.ids hc1 hobjs
      · exact replaceAll_cons _ _ _ _ h f1.ids hc1 hobjs
    refine ⟨(s1 c g).mpr key.1, ?_⟩
    intro r' hr' hid
    exact key.2 r' (List.mem_filter.mp hr').1 hid
  · exact .inl ⟨rfl, _, rfl⟩

/-! ## Every schedule

`carriesCons cu g op` (Lemmas/SchedConsTxn.lean): `op` is PUT /allocations/{cu}, POST /allocations or
POST /reshaper at >= 1.28 with an entry for consumer `cu`; every entry for `cu` carries generation `g`
and is non-empty.  `opCreates op`: the consumers `op` may create (entries with generation null or
below 1.28). -/

/-- **consumer_commit_sees_generation** (every schedule).  Consumer `cu` exists in the start state
(internal id `c0`); no request in flight may create it.  If request `i` carries generation `g` for
`cu` (non-empty entry, >= 1.28) and answers 2xx, the schedule splits at a step of request `i` - its
main write transaction - just before which the consumer had generation `g` and just after which it
is gone or beyond `g`. -/
theorem consumer_commit_sees_generation (cfg : Config) (ops : List (Op R))
    (hops : ∀ op ∈ ops, isProviderOp op = false) (db : DB R) (hU : Uniq db) (cu c0 g : Nat)
    (hex : ∃ r ∈ db.consumers, r.uuid = cu ∧ r.id = c0) (hnc : ∀ op ∈ ops, cu ∉ opCreates op)
    (sched : List Nat) {i : Nat} {op : Op R} (hi : ops[i]? = some op) (hc : carriesCons cu g op = true) {a : Resp}
    (hia : (Prog.runSched sched db (ops.map (prog cfg))).2[i]? = some (.done a)) (ha : a.ok = true) :
    ∃ pre post, sched = pre ++ i :: post ∧
      ConsAt c0 g (Prog.runSched pre db (ops.map (prog cfg))).1 ∧
      ConsPast c0 g (Prog.runSched (pre ++ [i]) db (ops.map (prog cfg))).1 :=
  commit_step_exists (fun s s' q h => WCons.evo (N := fun u => u ≠ cu) (fun h => h rfl) q h) i sched db _ _
    (pool_evo_cons cfg ops hops cu hnc) (wcons_start hU hex) (by rw [List.getElem?_map, hi]; rfl)
    (allocProg_commits cfg hc) a hia ha

/-- what the property asks for consumers that exist in the start state: at most one of the requests
carrying the same generation succeeds (entries may be empty: `carriesConsAny`) -/
def carriesConsAny (cu g : Nat) : Op R → Bool
  | .allocPut mv c => decide (mv ≥ 28) && c.uuid == cu && c.gen == some g
  | .allocPost mv cs => decide (mv ≥ 28) && cs.any (·.uuid == cu) && cs.all (fun c => !(c.uuid == cu) || c.gen == some g)
  | .reshape mv _ cs => decide (mv ≥ 30) && cs.any (·.uuid == cu) && cs.all (fun c => !(c.uuid == cu) || c.gen == some g)
  | _ => false

def at_most_one_success_same_consumer_generation_existing_full : Prop :=
  ∀ (cfg : Config) (ops : List (Op Nat)) (db : DB Nat) (cu c0 g : Nat) (sched : List Nat) (i j : Nat) (opi opj : Op Nat)
    (a b : Resp), (∀ op ∈ ops, isProviderOp op = false) → Uniq db →
    (∃ r ∈ db.consumers, r.uuid = cu ∧ r.id = c0) → (∀ op ∈ ops, cu ∉ opCreates op) →
    ops[i]? = some opi → ops[j]? = some opj → carriesConsAny cu g opi = true → carriesConsAny cu g opj = true →
    (Prog.runSched sched db (ops.map (prog cfg))).2[i]? = some (.done a) → a.ok = true →
    (Prog.runSched sched db (ops.map (prog cfg))).2[j]? = some (.done b) → b.ok = true → i = j

/-- **at_most_one_success_same_consumer_generation_existing_partial.**  The statement above for
requests whose entries for the consumer are non-empty (`carriesCons`): any number of PUT / POST /
reshaper requests, any schedule, any other requests in flight that cannot create the consumer. -/
theorem at_most_one_success_same_consumer_generation_existing_partial (cfg : Config) (ops : List (Op R))
    (hops : ∀ op ∈ ops, isProviderOp op = false) (db : DB R) (hU : Uniq db) (cu c0 g : Nat)
    (hex : ∃ r ∈ db.consumers, r.uuid = cu ∧ r.id = c0) (hnc : ∀ op ∈ ops, cu ∉ opCreates op)
    (sched : List Nat) {i j : Nat} {opi opj : Op R} (hi : ops[i]? = some opi) (hj : ops[j]? = some opj)
    (hci : carriesCons cu g opi = true) (hcj : carriesCons cu g opj = true) {a b : Resp}
    (hia : (Prog.runSched sched db (ops.map (prog cfg))).2[i]? = some (.done a)) (ha : a.ok = true)
    (hjb : (Prog.runSched sched db (ops.map (prog cfg))).2[j]? = some (.done b)) (hb : b.ok = true) :
    i = j := by
  refine at_most_one_commit (Q := QEvo (fun u => u ≠ cu)) (W := WCons cu c0) (D := ConsPast c0 g)
    (C := ConsAt c0 g) (B := fun _ s' => ConsPast c0 g s') (ok := okR)
    (fun k => ∃ op, ops[k]? = some op ∧ carriesCons cu g op = true)
    (fun s s' q h => WCons.evo (fun h => h rfl) q h)
    (fun s s' q hw hd => hd.evoG (q hw.1) hw.2.1)
    (fun s _ hc => consAt_not_past hc) (fun s s' _ hb => hb)
    sched db _ (pool_evo_cons cfg ops hops cu hnc) (wcons_start hU hex) ?_ ⟨opi, hi, hci⟩ ⟨opj, hj, hcj⟩ hia ha hjb hb
  rintro k ⟨op, hk, hc⟩ q hq
  rw [List.getElem?_map, hk] at hq
  cases hq
  exact allocProg_commits cfg hc

/-! ## Error code -/

/-- **stale_consumer_generation_409.**  (a) The early comparison: a request at >= 1.28 whose
generation differs from the existing consumer's (or that carries a generation for a consumer that
does not exist) is answered 409 `placement.concurrent_update` (after deleting the consumers it
created itself) and the transaction changes nothing.  (b) A failed consumer compare-and-swap in the
main transaction is mapped to the same answer by all three handlers. -/
theorem stale_consumer_generation_409 (ctx : ACtx R) (c : ConsumerReq) (k : ACtx R → P R) (db : DB R)
    (hmv : ctx.mv ≥ 28) (hstale : (db.consByUuid c.uuid).map (·.gen) ≠ c.gen) :
    aGetConsumer ctx c k db = (db, cleanupThen ctx.created (r409 .concurrentUpdate)) ∧
    aErr ctx .concurrentUpdate = r409 .concurrentUpdate := by
  constructor
  · unfold aGetConsumer
    cases hf : db.consByUuid c.uuid with
    | some cons =>
      rw [hf] at hstale
      have : (decide (ctx.mv ≥ 28) && some cons.gen != c.gen) = true := by
        simp only [Bool.and_eq_true, decide_eq_true_eq, bne_iff_ne]
        exact ⟨hmv, hstale⟩
      simp only [this, if_true]
    | none =>
      rw [hf] at hstale
      have : (decide (ctx.mv ≥ 28) && c.gen.isSome) = true := by
        simp only [Bool.and_eq_true, decide_eq_true_eq]
        refine ⟨hmv, ?_⟩
        cases hg : c.gen with
        | none => rw [hg] at hstale; exact absurd rfl hstale
        | some _ => rfl
      simp only [this, if_true]
  · unfold aErr
    split <;> decide

/-! ## No lost update -/

/-- **no_lost_update_partial.**  Two different requests of the pool write consumer `cu` (existing,
not creatable by the pool; non-empty entries) carrying generations `gi` and `gj`, and both answer
2xx.  Then their commit steps are ordered and the one committing LATER carries the strictly LARGER
generation: it read the consumer after the earlier write was committed, so it does not replace
allocations it has not seen. -/
theorem no_lost_update_partial (cfg : Config) (ops : List (Op R))
    (hops : ∀ op ∈ ops, isProviderOp op = false) (db : DB R) (hU : Uniq db) (cu c0 gi gj : Nat)
    (hex : ∃ r ∈ db.consumers, r.uuid = cu ∧ r.id = c0) (hnc : ∀ op ∈ ops, cu ∉ opCreates op)
    (sched : List Nat) {i j : Nat} {opi opj : Op R} (hi : ops[i]? = some opi) (hj : ops[j]? = some opj)
    (hci : carriesCons cu gi opi = true) (hcj : carriesCons cu gj opj = true) {a b : Resp}
    (hia : (Prog.runSched sched db (ops.map (prog cfg))).2[i]? = some (.done a)) (ha : a.ok = true)
    (hjb : (Prog.runSched sched db (ops.map (prog cfg))).2[j]? = some (.done b)) (hb : b.ok = true) :
    ∃ prei posti prej postj, sched = prei ++ i :: posti ∧ sched = prej ++ j :: postj ∧
      ConsAt c0 gi (Prog.runSched prei db (ops.map (prog cfg))).1 ∧
      ConsAt c0 gj (Prog.runSched prej db (ops.map (prog cfg))).1 ∧
      (prei.length < prej.length → gi < gj) ∧ (prej.length < prei.length → gj < gi) := by
  obtain ⟨prei, posti, hsi, hCi, hBi⟩ := consumer_commit_sees_generation cfg ops hops db hU cu c0 gi hex hnc sched hi hci hia ha
  obtain ⟨prej, postj, hsj, hCj, hBj⟩ := consumer_commit_sees_generation cfg ops hops db hU cu c0 gj hex hnc sched hj hcj hjb hb
  have hpool := pool_evo_cons cfg ops hops cu hnc
  have hW : ∀ s s' : DB R, QEvo (fun u => u ≠ cu) s s' → WCons cu c0 s → WCons cu c0 s' :=
    fun s s' q h => WCons.evo (fun h => h rfl) q h
  -- a commit of generation `g1` followed later by a state in which the consumer has `g2`: `g1 < g2`
  have later : ∀ (p1 p2 : List Nat) (x g1 g2 : Nat) (mid : List Nat), p2 = p1 ++ x :: mid →
      ConsPast c0 g1 (Prog.runSched (p1 ++ [x]) db (ops.map (prog cfg))).1 →
      ConsAt c0 g2 (Prog.runSched p2 db (ops.map (prog cfg))).1 → g1 < g2 := by
    intro p1 p2 x g1 g2 mid hp hpast hat
    have e : p2 = (p1 ++ [x]) ++ mid := by rw [hp]; simp
    rw [e, runSched_append] at hat
    have h1 := hpool.runSched (WCons cu c0) hW (p1 ++ [x]) db _ (wcons_start hU hex)
    have h2 := PoolAll.runSched (Q := QEvo (fun u => u ≠ cu)) (fun s : DB R => WCons cu c0 s ∧ ConsPast c0 g1 s)
      (fun s s' q h => ⟨hW s s' q h.1, h.2.evoG (q h.1.1) h.1.2.1⟩) mid _ _ h1.1 ⟨h1.2, hpast⟩
    obtain ⟨r, hr, hid, hg⟩ := hat
    have := h2.2.2 r hr hid
    omega
  refine ⟨prei, posti, prej, postj, hsi, hsj, hCi, hCj, ?_, ?_⟩
  · intro hl
    obtain ⟨mid, hm⟩ := prefix_of_lt (hsi.symm.trans hsj) hl
    exact later prei prej i gi gj mid hm hBi hCj
  · intro hl
    obtain ⟨mid, hm⟩ := prefix_of_lt (hsj.symm.trans hsi) hl
    exact later prej prei j gj gi mid hm hBj hCi

/-! ## The hypotheses are satisfiable: `Wf.exDb` has consumer 500 (id 1, generation 1) -/

section examples
open Placement.Wf

def exA (n : Int) : ConsumerReq :=
  { uuid := 500, project := some 7, user := some 8, ctype := none, gen := some 1, allocs := [(101, 0, n)] }
def exOther : ConsumerReq :=
  { uuid := 501, project := some 7, user := some 8, ctype := none, gen := none, allocs := [(101, 0, 1)] }

/-- two PUTs and a POST carrying generation 1 for consumer 500, a PUT creating another consumer,
and a DELETE of consumer 500's allocations -/
def exPool : List (Op Nat) :=
  [.allocPut 39 (exA 3), .allocPut 39 (exA 4), .allocPost 39 [exA 5, exOther], .allocPut 39 exOther, .allocDelete 500]

example : ∀ op ∈ exPool, isProviderOp op = false := by decide
example : ∀ op ∈ exPool, 500 ∉ opCreates op := by decide
example : ∃ r ∈ exDb.consumers, r.uuid = 500 ∧ r.id = 1 := ⟨_, List.mem_singleton.mpr rfl, rfl, rfl⟩
example : carriesCons 500 1 exPool[0] = true ∧ carriesCons 500 1 exPool[1] = true ∧ carriesCons 500 1 exPool[2] = true := by
  decide

/-- requests 0 and 1 both pass the early comparison, request 1 commits first: 409 / 204 -/
example : ((Prog.runSched [0, 0, 0, 0, 1, 1, 1, 1, 1, 0] exDb (exPool.map (prog exCfg))).2.take 2).map Prog.result? =
    [some (r409 .concurrentUpdate), some r204] := by decide

end examples

/-! ## What is false -/

/-- what the property asks for generation null: of the writes carrying generation null for one
consumer (which must then not exist) at most one succeeds -/
def C06_null_generation_full : Prop :=
  ∀ (cfg : Config) (ops : List (Op Nat)) (db : DB Nat) (cu : Nat) (sched : List Nat) (i j : Nat) (ci cj : ConsumerReq)
    (a b : Resp), (∀ op ∈ ops, isProviderOp op = false) → Uniq db →
    ops[i]? = some (.allocPut 39 ci) → ops[j]? = some (.allocPut 39 cj) →
    ci.uuid = cu → cj.uuid = cu → ci.gen = none → cj.gen = none →
    (Prog.runSched sched db (ops.map (prog cfg))).2[i]? = some (.done a) → a.ok = true →
    (Prog.runSched sched db (ops.map (prog cfg))).2[j]? = some (.done b) → b.ok = true → i = j

def exNew (n : Int) : ConsumerReq :=
  { uuid := 501, project := some 7, user := some 8, ctype := none, gen := none, allocs := [(101, 0, n)] }

def twoCreators : List (Op Nat) := [.allocPut 39 (exNew 1), .allocPut 39 (exNew 2)]

/-- both requests find no consumer; request 0 creates it; request 1 loses the INSERT race; request 0
writes (generation 1); request 1 adopts the existing record WITHOUT comparing generations, and writes -/
def twoCreatorsSched : List Nat := [0, 0, 0, 1, 1, 1, 0, 1, 0, 0, 1, 1, 1]

/-- **C06_witness_two_creators.**  Two PUT /allocations/501 with `consumer_generation: null` for a
consumer that does not exist: both answer 204; the second silently replaced the first one's
allocations (1 unit) by its own (2 units). -/
theorem C06_witness_two_creators :
    let fin := Prog.runSched twoCreatorsSched Wf.exDb (twoCreators.map (prog Wf.exCfg))
    fin.2.map Prog.result? = [some r204, some r204] ∧
    fin.1.allocs.filter (·.consumer == 501) = [{ rp := 2, rc := 0, consumer := 501, used := 2 }] := by
  decide

theorem C06_null_generation_full_false : ¬ C06_null_generation_full := by
  intro h
  have := h Wf.exCfg twoCreators Wf.exDb 501 twoCreatorsSched 0 1 (exNew 1) (exNew 2) r204 r204 (by decide)
    Wf.uniq_exDb rfl rfl rfl rfl rfl rfl rfl (by decide) rfl (by decide)
  exact absurd this (by decide)

def exEmpty : ConsumerReq :=
  { uuid := 500, project := some 7, user := some 8, ctype := none, gen := some 1, allocs := [] }

/-- a non-empty and an EMPTY write carrying the same generation: the empty write is guarded by the
consumer record that was validated (repair 8fa9b40 of the re-read generation, found by this proof
attempt), so after the other request's commit it is refused -/
example : (Prog.runSched [1, 1, 1, 0, 0, 0, 0, 0, 1, 1] Wf.exDb
    (([.allocPut 39 (exA 3), .allocPut 39 exEmpty] : List (Op Nat)).map (prog Wf.exCfg))).2.map Prog.result? =
    [some r204, some (r409 .concurrentUpdate)] := by decide

def emptyRace : List (Op Nat) := [.allocPut 39 exEmpty, .allocPut 39 exEmpty]

/-- **C06_witness_two_empty_writes.**  Consumer 500 exists with generation 1.  Two writes with
`allocations: {}` and generation 1.  Request 1 passes the generation comparison; request 0 runs
completely: 204, the allocations and the consumer are removed; request 1 then finds no allocation to
remove, its main transaction contains no compare-and-swap at all and it answers 204 as well.  Two
successes with one generation; the second changes nothing (the analogue of the no-op PUT traits). -/
theorem C06_witness_two_empty_writes :
    let fin := Prog.runSched [1, 1, 1, 0, 0, 0, 0, 0, 1, 1] Wf.exDb (emptyRace.map (prog Wf.exCfg))
    fin.2.map Prog.result? = [some r204, some r204] ∧ fin.1.allocs = [] ∧ fin.1.consumers = [] := by
  decide

theorem C06_existing_full_false : ¬ at_most_one_success_same_consumer_generation_existing_full := by
  intro h
  have := h Wf.exCfg emptyRace Wf.exDb 500 1 1 [1, 1, 1, 0, 0, 0, 0, 0, 1, 1] 0 1 _ _ r204 r204 (by decide)
    Wf.uniq_exDb ⟨_, List.mem_singleton.mpr rfl, rfl, rfl⟩ (by decide) rfl rfl (by decide) (by decide)
    rfl (by decide) rfl (by decide)
  exact absurd this (by decide)

end Placement.Props.C06
