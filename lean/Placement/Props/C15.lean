/-
  C15  Arbitrary input yields well-formed client errors, never a server error.

  What is proved here (about the schemas, regexes, except-maps and the error formatter *generated from
  the tree*, `Placement/Gen/Schemas.lean`, `Placement/Gen/Errors.lean`):

  (a) for every body schema a handler validates with, `validate S j = true → sat Shape_S j = true`
      where `Shape_S` (written out below) is what the handler reads from the document without checking
      it again.  Where the schema in the tree does **not** guarantee the shape, the full statement stays
      visible as a `def … : Prop`, its negation is proved on a concrete witness (`…_witness`) and the
      implication is proved for the weaker shape / restricted case (`…_partial`).
  (c) the body built by `util.json_error_formatter` has status, title, detail, request_id, and `code`
      exactly from 1.23 (`error_body_wellformed`).
  (e) every `except` clause of a handler that answers with a webob error answers 4xx with a documented
      error code; the domain exceptions of the object layer are caught (`domain_exceptions_caught`).
  (f) names accepted by the custom-name patterns (`custom_name_*`).

  The parsed-request level is where these statements start: bytes → JSON, routing and webob are outside
  (cross-validated against `jsonschema` and the whole pipeline by harness/props/c15.py).
-/
import Placement.Lemmas.ImpliesSound
import Placement.Gen.Schemas
import Placement.Gen.Errors

namespace Placement.Props.C15

open Placement Placement.Regex Placement.Gen.Schemas

/-! ## (a) shapes -/

/-- `db_const.MAX_INT`: what an INTEGER column holds -/
def maxInt : Int := 2147483647
/-- `db_const.SQL_SP_FLOAT_MAX` = 3.40282e+38 (exact value of that double) -/
def floatMax : Num := .fin 340282000000000014192072600942972764160 1

def invKeys : List String :=
  ["total", "reserved", "min_unit", "max_unit", "step_size", "allocation_ratio"]

/-- The six inventory fields as `Inventory(**data)` / `Inventory.capacity` use them: integers in the range of
the column, `total ≥ 1`; `allocation_ratio` a number ≤ FLOAT_MAX that `int()` can truncate (`finiteRatio`). -/
def invFields (finiteRatio : Bool) (tail : Shape) : Shape :=
  .field "total" true (.int (some 1) (some maxInt)) <|
  .field "reserved" false (.int (some 0) (some maxInt)) <|
  .field "min_unit" false (.int (some 1) (some maxInt)) <|
  .field "max_unit" false (.int (some 1) (some maxInt)) <|
  .field "step_size" false (.int (some 1) (some maxInt)) <|
  .field "allocation_ratio" false (.num none (some floatMax) finiteRatio) tail

/-- one value of `inventories` in PUT /resource_providers/{uuid}/inventories (the record schema is a copy of
the single-inventory schema and still lists `resource_provider_generation` among its properties) -/
def invRecord (fin : Bool) : Shape := invFields fin (.objNil (some ("resource_provider_generation" :: invKeys)))

/-- PUT /resource_providers/{uuid}/inventories/{rc} -/
def putInventoryShape (fin : Bool) : Shape :=
  .field "resource_provider_generation" true (.int none none) <|
  invFields fin (.objNil (some ("resource_provider_generation" :: invKeys)))

/-- POST /resource_providers/{uuid}/inventories -/
def postInventoryShape (fin : Bool) : Shape :=
  .field "resource_class" true (.strRe common.RC_PATTERN none) <|
  invFields fin (.objNil (some ("resource_class" :: "resource_provider_generation" :: invKeys)))

/-- PUT /resource_providers/{uuid}/inventories: `closed` = every key of `inventories` is a resource class
name and therefore every value is an inventory record (what `_extract_inventories` does `dict.update` with). -/
def putInventoriesShape (fin closed : Bool) : Shape :=
  .field "resource_provider_generation" true (.int none none) <|
  .field "inventories" true (.map 0 common.RC_PATTERN closed (invRecord fin)) <|
  .objNil (some ["resource_provider_generation", "inventories"])

/-- `resources`: a non-empty object, class name ↦ positive integer -/
def resourcesShape : Shape := .map 1 common.RC_PATTERN true (.int (some 1) none)

/-- PUT /allocations/{consumer} 1.0 – 1.7 (list form) -/
def allocListShape (tail : Shape) : Shape :=
  .field "allocations" true
    (.arr 1 false
      (.field "resource_provider" true (.field "uuid" true .uuid (.objNil (some ["uuid"]))) <|
       .field "resources" true resourcesShape <|
       .objNil (some ["resource_provider", "resources"]))) tail

def allocShape_1_0 : Shape := allocListShape (.objNil (some ["allocations"]))

def idShape : Shape := .str 1 (some 255)

def allocShape_1_8 : Shape :=
  allocListShape <|
  .field "project_id" true idShape <|
  .field "user_id" true idShape <|
  .objNil (some ["allocations", "project_id", "user_id"])

/-- one provider entry of the dict form -/
def allocEntry : Shape :=
  .field "resources" true resourcesShape <|
  .field "generation" false (.int none none) <|
  .objNil (some ["generation", "resources"])

/-- `allocations` in the dict form (1.12+): provider uuid ↦ entry -/
def allocDict (minProps : Nat) : Shape := .map minProps common.UUID_PATTERN true allocEntry

def allocShape_1_12 : Shape :=
  .field "allocations" true (allocDict 1) <|
  .field "project_id" true idShape <|
  .field "user_id" true idShape <|
  .objNil (some ["allocations", "project_id", "user_id"])

def allocShape_1_28 : Shape :=
  .field "allocations" true (allocDict 0) <|
  .field "project_id" true idShape <|
  .field "user_id" true idShape <|
  .field "consumer_generation" true (.orNull (.int none none)) <|
  .objNil (some ["allocations", "project_id", "user_id", "consumer_generation"])

/-- `mappings` is not read by the handlers; what the schema says about it -/
def mappingsShape : Shape := .map 1 common.GROUP_PAT_1_33 false (.arr 1 false .uuid)

def allocShape_1_34 : Shape :=
  .field "allocations" true (allocDict 0) <|
  .field "project_id" true idShape <|
  .field "user_id" true idShape <|
  .field "consumer_generation" true (.orNull (.int none none)) <|
  .field "mappings" false mappingsShape <|
  .objNil (some ["allocations", "project_id", "user_id", "consumer_generation", "mappings"])

def allocShape_1_38 : Shape :=
  .field "allocations" true (allocDict 0) <|
  .field "project_id" true idShape <|
  .field "user_id" true idShape <|
  .field "consumer_generation" true (.orNull (.int none none)) <|
  .field "consumer_type" true (.strRe common.CONSUMER_TYPE_PATTERN (some 255)) <|
  .field "mappings" false mappingsShape <|
  .objNil (some ["allocations", "project_id", "user_id", "consumer_generation", "mappings", "consumer_type"])

/-- POST /allocations: consumer uuid ↦ allocation document -/
def postAllocShape (minProps : Nat) (doc : Shape) : Shape := .map minProps common.UUID_PATTERN true doc

/-- the document per consumer at 1.13 – 1.27 (`allocations` may be empty) -/
def postAllocDoc_1_13 : Shape :=
  .field "allocations" true (allocDict 0) <|
  .field "project_id" true idShape <|
  .field "user_id" true idShape <|
  .objNil (some ["allocations", "project_id", "user_id"])

/-- POST /reshaper -/
def reshaperShape (fin closed : Bool) (allocDoc : Shape) : Shape :=
  .field "inventories" true (.map 1 common.UUID_PATTERN true (putInventoriesShape fin closed)) <|
  .field "allocations" true (postAllocShape 0 allocDoc) <|
  .objNil (some ["inventories", "allocations"])

def traitsForRpShape : Shape :=
  .field "traits" true (.arr 0 false (.str 1 (some 255))) <|
  .field "resource_provider_generation" true (.int none none) <|
  .objNil (some ["traits", "resource_provider_generation"])

def aggregatesShape_1_1 : Shape := .arr 0 true .uuid

def aggregatesShape_1_19 : Shape :=
  .field "aggregates" true (.arr 0 true .uuid) <|
  .field "resource_provider_generation" true (.int none none) <|
  .objNil (some ["aggregates", "resource_provider_generation"])

def postRpShape_1_0 : Shape :=
  .field "name" true (.str 0 (some 200)) <|
  .field "uuid" false .uuid <|
  .objNil (some ["name", "uuid"])

def postRpShape_1_14 : Shape :=
  .field "name" true (.str 0 (some 200)) <|
  .field "uuid" false .uuid <|
  .field "parent_provider_uuid" false (.orNull .uuid) <|
  .objNil (some ["name", "uuid", "parent_provider_uuid"])

def putRpShape_1_0 : Shape :=
  .field "name" true (.str 0 (some 200)) <| .objNil (some ["name"])

def putRpShape_1_14 : Shape :=
  .field "name" true (.str 0 (some 200)) <|
  .field "parent_provider_uuid" false (.orNull .uuid) <|
  .objNil (some ["name", "parent_provider_uuid"])

/-- POST /resource_classes, PUT /resource_classes/{name}: the name matches the custom pattern, ≤ 255 -/
def rcShape : Shape :=
  .field "name" true (.strRe common.CUSTOM_RC_PATTERN (some 255)) <| .objNil (some ["name"])

/-- PUT /traits/{name}: the path segment -/
def customTraitShape : Shape := .strRe common.CUSTOM_TRAIT_PATTERN (some 255)

/-! ### schemas that guarantee their shape -/

theorem ALLOCATION_SCHEMA_shape (j : Json) (h : validate allocation.ALLOCATION_SCHEMA j = true) :
    sat allocShape_1_0 j = true := implies_sound _ _ _ (by decide) h

theorem ALLOCATION_SCHEMA_V1_8_shape (j : Json) (h : validate allocation.ALLOCATION_SCHEMA_V1_8 j = true) :
    sat allocShape_1_8 j = true := implies_sound _ _ _ (by decide) h

theorem ALLOCATION_SCHEMA_V1_12_shape (j : Json) (h : validate allocation.ALLOCATION_SCHEMA_V1_12 j = true) :
    sat allocShape_1_12 j = true := implies_sound _ _ _ (by decide) h

theorem ALLOCATION_SCHEMA_V1_28_shape (j : Json) (h : validate allocation.ALLOCATION_SCHEMA_V1_28 j = true) :
    sat allocShape_1_28 j = true := implies_sound _ _ _ (by decide) h

theorem ALLOCATION_SCHEMA_V1_34_shape (j : Json) (h : validate allocation.ALLOCATION_SCHEMA_V1_34 j = true) :
    sat allocShape_1_34 j = true := implies_sound _ _ _ (by decide) h

theorem ALLOCATION_SCHEMA_V1_38_shape (j : Json) (h : validate allocation.ALLOCATION_SCHEMA_V1_38 j = true) :
    sat allocShape_1_38 j = true := implies_sound _ _ _ (by decide) h

theorem POST_ALLOCATIONS_V1_13_shape (j : Json) (h : validate allocation.POST_ALLOCATIONS_V1_13 j = true) :
    sat (postAllocShape 1 postAllocDoc_1_13) j = true := implies_sound _ _ _ (by decide) h

theorem POST_ALLOCATIONS_V1_28_shape (j : Json) (h : validate allocation.POST_ALLOCATIONS_V1_28 j = true) :
    sat (postAllocShape 1 allocShape_1_28) j = true := implies_sound _ _ _ (by decide) h

theorem POST_ALLOCATIONS_V1_34_shape (j : Json) (h : validate allocation.POST_ALLOCATIONS_V1_34 j = true) :
    sat (postAllocShape 1 allocShape_1_34) j = true := implies_sound _ _ _ (by decide) h

theorem POST_ALLOCATIONS_V1_38_shape (j : Json) (h : validate allocation.POST_ALLOCATIONS_V1_38 j = true) :
    sat (postAllocShape 1 allocShape_1_38) j = true := implies_sound _ _ _ (by decide) h

theorem SET_TRAITS_FOR_RP_SCHEMA_shape (j : Json) (h : validate trait.SET_TRAITS_FOR_RP_SCHEMA j = true) :
    sat traitsForRpShape j = true := implies_sound _ _ _ (by decide) h

theorem PUT_AGGREGATES_SCHEMA_V1_1_shape (j : Json) (h : validate aggregate.PUT_AGGREGATES_SCHEMA_V1_1 j = true) :
    sat aggregatesShape_1_1 j = true := implies_sound _ _ _ (by decide) h

theorem PUT_AGGREGATES_SCHEMA_V1_19_shape (j : Json) (h : validate aggregate.PUT_AGGREGATES_SCHEMA_V1_19 j = true) :
    sat aggregatesShape_1_19 j = true := implies_sound _ _ _ (by decide) h

theorem POST_RESOURCE_PROVIDER_SCHEMA_shape (j : Json)
    (h : validate resource_provider.POST_RESOURCE_PROVIDER_SCHEMA j = true) :
    sat postRpShape_1_0 j = true := implies_sound _ _ _ (by decide) h

theorem POST_RP_SCHEMA_V1_14_shape (j : Json) (h : validate resource_provider.POST_RP_SCHEMA_V1_14 j = true) :
    sat postRpShape_1_14 j = true := implies_sound _ _ _ (by decide) h

theorem PUT_RESOURCE_PROVIDER_SCHEMA_shape (j : Json)
    (h : validate resource_provider.PUT_RESOURCE_PROVIDER_SCHEMA j = true) :
    sat putRpShape_1_0 j = true := implies_sound _ _ _ (by decide) h

theorem PUT_RP_SCHEMA_V1_14_shape (j : Json) (h : validate resource_provider.PUT_RP_SCHEMA_V1_14 j = true) :
    sat putRpShape_1_14 j = true := implies_sound _ _ _ (by decide) h

theorem POST_RC_SCHEMA_V1_2_shape (j : Json) (h : validate resource_class.POST_RC_SCHEMA_V1_2 j = true) :
    sat rcShape j = true := implies_sound _ _ _ (by decide) h

theorem PUT_RC_SCHEMA_V1_2_shape (j : Json) (h : validate resource_class.PUT_RC_SCHEMA_V1_2 j = true) :
    sat rcShape j = true := implies_sound _ _ _ (by decide) h

theorem CUSTOM_TRAIT_shape (j : Json) (h : validate trait.CUSTOM_TRAIT j = true) :
    sat customTraitShape j = true := implies_sound _ _ _ (by decide) h


/-! ### schemas of the tree that do NOT guarantee their shape (DESIGN §9-E, §9-F)

`allocation_ratio` is `{"type": "number", "maximum": …}`: NaN passes every comparison, `-Infinity` is below
the maximum; `Inventory.capacity` would call `int()` on a non-finite float.  The handlers now reject such a
ratio themselves (`make_inventory_object`, fix: 0e49146), but the SCHEMA still admits it, so the shape theorems
below stay `_partial` in that one respect.  `inventories` used to have `patternProperties` without
`additionalProperties: false` (a key that is not a resource class name was not validated at all); that hole is
closed (fix: e35e82f) and the former witnesses are now proved to be rejected.
Full statements (not provable), witnesses, and what does hold. -/

/-- PUT one inventory: full statement -/
def BASE_INVENTORY_SCHEMA_shape : Prop :=
  ∀ j, validate inventory.BASE_INVENTORY_SCHEMA j = true → sat (putInventoryShape true) j = true

def nanRatioDoc : Json :=
  .obj [("resource_provider_generation", .int 0), ("total", .int 1), ("allocation_ratio", .nan)]

theorem BASE_INVENTORY_SCHEMA_shape_witness :
    validate inventory.BASE_INVENTORY_SCHEMA nanRatioDoc = true ∧ sat (putInventoryShape true) nanRatioDoc = false := by
  decide

theorem BASE_INVENTORY_SCHEMA_shape_refuted : ¬ BASE_INVENTORY_SCHEMA_shape := fun h =>
  absurd (h _ BASE_INVENTORY_SCHEMA_shape_witness.1) (by rw [BASE_INVENTORY_SCHEMA_shape_witness.2]; decide)

/-- … everything except finiteness of `allocation_ratio` is guaranteed -/
theorem BASE_INVENTORY_SCHEMA_shape_partial (j : Json) (h : validate inventory.BASE_INVENTORY_SCHEMA j = true) :
    sat (putInventoryShape false) j = true := implies_sound _ _ _ (by decide) h

/-- POST one inventory: full statement -/
def POST_INVENTORY_SCHEMA_shape : Prop :=
  ∀ j, validate inventory.POST_INVENTORY_SCHEMA j = true → sat (postInventoryShape true) j = true

def negInfRatioDoc : Json :=
  .obj [("resource_class", .str "VCPU"), ("total", .int 1), ("allocation_ratio", .ninf)]

theorem POST_INVENTORY_SCHEMA_shape_witness :
    validate inventory.POST_INVENTORY_SCHEMA negInfRatioDoc = true ∧
      sat (postInventoryShape true) negInfRatioDoc = false := by
  decide

theorem POST_INVENTORY_SCHEMA_shape_partial (j : Json) (h : validate inventory.POST_INVENTORY_SCHEMA j = true) :
    sat (postInventoryShape false) j = true := implies_sound _ _ _ (by decide) h

/-- PUT all inventories: full statement -/
def PUT_INVENTORY_SCHEMA_shape : Prop :=
  ∀ j, validate inventory.PUT_INVENTORY_SCHEMA j = true → sat (putInventoriesShape true true) j = true

/-- `{"resource_provider_generation": 0, "inventories": {"vcpu": 5}}`: a key that is not a resource class name.
Before the repair of §9-F (`additionalProperties: false` on `inventories`, a `fix:` commit) this document was
accepted and `_extract_inventories` failed on its value (500). -/
def lowerCaseKeyDoc : Json :=
  .obj [("resource_provider_generation", .int 0), ("inventories", .obj [("vcpu", .int 5)])]

/-- the former witness is rejected by the schema in the tree -/
theorem PUT_INVENTORY_SCHEMA_rejects_unvalidated_key :
    validate inventory.PUT_INVENTORY_SCHEMA lowerCaseKeyDoc = false := by
  decide

/-- the remaining hole: a well-keyed record with a NaN ratio -/
def nanRatioInventoriesDoc : Json :=
  .obj [("resource_provider_generation", .int 0),
        ("inventories", .obj [("VCPU", .obj [("total", .int 4), ("allocation_ratio", .nan)])])]

theorem PUT_INVENTORY_SCHEMA_shape_witness_nan :
    validate inventory.PUT_INVENTORY_SCHEMA nanRatioInventoriesDoc = true ∧
      sat (putInventoriesShape true true) nanRatioInventoriesDoc = false := by
  decide

/-- … what holds: EVERY key of `inventories` is a resource class name and every value an inventory record, up to
finiteness of the ratio (which the handler checks itself, `make_inventory_object`) -/
theorem PUT_INVENTORY_SCHEMA_shape_partial (j : Json) (h : validate inventory.PUT_INVENTORY_SCHEMA j = true) :
    sat (putInventoriesShape false true) j = true := implies_sound _ _ _ (by decide) h

/-- reshaper (1.30 – 1.33): full statement; the same hole, nested one level down -/
def POST_RESHAPER_SCHEMA_shape : Prop :=
  ∀ j, validate reshaper.POST_RESHAPER_SCHEMA j = true → sat (reshaperShape true true allocShape_1_28) j = true

def reshaperHoleDoc : Json :=
  .obj [("inventories", .obj [("11111111-1111-1111-1111-111111111111", lowerCaseKeyDoc)]),
        ("allocations", .obj [])]

def reshaperNanDoc : Json :=
  .obj [("inventories", .obj [("11111111-1111-1111-1111-111111111111", nanRatioInventoriesDoc)]),
        ("allocations", .obj [])]

/-- the former witness (unvalidated key inside the reshaper) is rejected -/
theorem POST_RESHAPER_SCHEMA_rejects_unvalidated_key :
    validate reshaper.POST_RESHAPER_SCHEMA reshaperHoleDoc = false ∧
    validate reshaper.POST_RESHAPER_SCHEMA_V1_38 reshaperHoleDoc = false := by
  decide

theorem POST_RESHAPER_SCHEMA_shape_witness :
    validate reshaper.POST_RESHAPER_SCHEMA reshaperNanDoc = true ∧
      sat (reshaperShape true true allocShape_1_28) reshaperNanDoc = false := by
  decide

theorem POST_RESHAPER_SCHEMA_shape_partial (j : Json) (h : validate reshaper.POST_RESHAPER_SCHEMA j = true) :
    sat (reshaperShape false true allocShape_1_28) j = true := implies_sound _ _ _ (by decide) h

theorem POST_RESHAPER_SCHEMA_V1_34_shape_partial (j : Json)
    (h : validate reshaper.POST_RESHAPER_SCHEMA_V1_34 j = true) :
    sat (reshaperShape false true allocShape_1_34) j = true := implies_sound _ _ _ (by decide) h

theorem POST_RESHAPER_SCHEMA_V1_38_shape_partial (j : Json)
    (h : validate reshaper.POST_RESHAPER_SCHEMA_V1_38 j = true) :
    sat (reshaperShape false true allocShape_1_38) j = true := implies_sound _ _ _ (by decide) h

theorem POST_RESHAPER_SCHEMA_V1_38_shape_witness :
    validate reshaper.POST_RESHAPER_SCHEMA_V1_38 reshaperNanDoc = true ∧
      sat (reshaperShape true true allocShape_1_38) reshaperNanDoc = false := by
  decide

/-! hypotheses of the shape theorems are satisfiable (non-vacuity) -/

example : validate allocation.ALLOCATION_SCHEMA_V1_38 (.obj [
    ("allocations", .obj [("11111111-1111-1111-1111-111111111111", .obj [("resources", .obj [("VCPU", .int 1)])])]),
    ("project_id", .str "p"), ("user_id", .str "u"), ("consumer_generation", .null),
    ("consumer_type", .str "INSTANCE")]) = true := by decide
example : validate inventory.PUT_INVENTORY_SCHEMA (.obj [("resource_provider_generation", .int 0),
    ("inventories", .obj [("VCPU", .obj [("total", .int 8), ("allocation_ratio", .flt 3 2)])])]) = true := by decide
example : validate reshaper.POST_RESHAPER_SCHEMA_V1_38 (.obj [
    ("inventories", .obj [("11111111-1111-1111-1111-111111111111",
        .obj [("resource_provider_generation", .int 0), ("inventories", .obj [])])]),
    ("allocations", .obj [])]) = true := by decide
example : validate resource_provider.POST_RP_SCHEMA_V1_14
    (.obj [("name", .str "rp"), ("parent_provider_uuid", .null)]) = true := by decide
example : validate aggregate.PUT_AGGREGATES_SCHEMA_V1_19 (.obj [("aggregates",
    .arr [.str "11111111-1111-1111-1111-111111111111"]), ("resource_provider_generation", .int 3)]) = true := by decide
example : validate trait.SET_TRAITS_FOR_RP_SCHEMA
    (.obj [("traits", .arr [.str "HW_CPU_X86_AVX"]), ("resource_provider_generation", .flt 2 1)]) = true := by decide


/-! ## (f) names accepted by the custom-name patterns (also used by C19)

`^CUSTOM_[A-Z0-9_]+\Z` under `re.search`.  The pattern used to end in `$`, which in Python also matches before a
trailing newline, so `CUSTOM_X\n` was accepted (DESIGN §9-J, repaired by a `fix:` commit; the old pattern is
kept below as `dollarPattern` with the proof that it is NOT well-formed, so the difference stays visible). -/

def isNameChar (c : Char) : Bool := inClass false [('A', 'Z'), ('0', '9'), ('_', '_')] c

def customPrefix : List Char := ['C', 'U', 'S', 'T', 'O', 'M', '_']

/-- `CUSTOM_` followed by one or more of `A-Z 0-9 _` -/
def isCustomName (s : List Char) : Bool :=
  match stripPrefix customPrefix s with
  | some t => !t.isEmpty && t.all isNameChar
  | none => false

theorem isCustomName_iff {s : List Char} :
    isCustomName s = true ↔ ∃ t, t ≠ [] ∧ (∀ c ∈ t, isNameChar c = true) ∧ s = customPrefix ++ t := by
  unfold isCustomName
  split
  · rename_i t ht
    rw [stripPrefix_eq_some] at ht
    subst ht
    simp only [Bool.and_eq_true, Bool.not_eq_true', List.isEmpty_eq_false_iff, List.all_eq_true, ne_eq]
    constructor
    · rintro ⟨h1, h2⟩; exact ⟨t, h1, h2, rfl⟩
    · rintro ⟨t', h1, h2, h3⟩
      have := List.append_cancel_left h3; subst this; exact ⟨h1, h2⟩
  · rename_i hn
    constructor
    · intro h; cases h
    · rintro ⟨t, _, _, h3⟩
      have : stripPrefix customPrefix s = some t := stripPrefix_eq_some.mpr h3
      rw [hn] at this; cases this

/-- full statement: every accepted name has the form CUSTOM_[A-Z0-9_]+ -/
def custom_name_wellformed (re : Re) : Prop :=
  ∀ s : List Char, Regex.matches re s = true → isCustomName s = true

/-- the pattern as it was before the repair: `^CUSTOM_[A-Z0-9_]+$` -/
def dollarPattern : Re :=
  .seq .bol (.seq (.lit customPrefix) (.seq (.rep (.cls false [('A', 'Z'), ('0', '9'), ('_', '_')]) 1 none) .eol))

/-- `$` is not enough: the old pattern accepts a name that ends in a newline -/
theorem dollarPattern_witness :
    Regex.matches dollarPattern "CUSTOM_X\n".toList = true ∧ isCustomName "CUSTOM_X\n".toList = false := by
  decide

theorem dollarPattern_not_wellformed : ¬ custom_name_wellformed dollarPattern := fun h =>
  absurd (h _ dollarPattern_witness.1) (by rw [dollarPattern_witness.2]; decide)

/-- the former witnesses are rejected by the patterns in the tree -/
theorem custom_rc_rejects_trailing_newline :
    Regex.matches common.CUSTOM_RC_PATTERN "CUSTOM_X\n".toList = false ∧
    Regex.matches common.CUSTOM_TRAIT_PATTERN "CUSTOM_T\n".toList = false := by
  decide

/-- what the pattern `^CUSTOM_[A-Z0-9_]+\Z` accepts: custom names only -/
theorem custom_pattern_accepts {s : List Char}
    (h : Regex.matches (.seq .bol (.seq (.lit customPrefix)
          (.seq (.rep (.cls false [('A', 'Z'), ('0', '9'), ('_', '_')]) 1 none) .eos))) s = true) :
    isCustomName s = true := by
  rw [matches_bol] at h
  obtain ⟨e, he⟩ := h
  rw [mem_ends_seq] at he
  obtain ⟨m, hm, he⟩ := he
  rw [customPrefix, mem_ends_lit_cons] at hm
  obtain ⟨r, hs, rfl⟩ := hm
  rw [mem_ends_seq] at he
  obtain ⟨m2, hm2, he⟩ := he
  obtain ⟨pre, hr, hall, hlen, _, _, _⟩ := mem_ends_rep_cls hm2
  rw [mem_ends_eos] at he
  obtain ⟨h0, _⟩ := he
  simp only at hs hr
  have hpre : pre ≠ [] := by intro hp; subst hp; simp at hlen
  rw [isCustomName_iff]
  refine ⟨pre, hpre, hall, ?_⟩
  rw [hs, hr, h0]; simp [customPrefix]

/-- FULL: every string the class-name pattern accepts is CUSTOM_ followed by one or more of A-Z, 0-9, _ -/
theorem custom_rc_name_wellformed : custom_name_wellformed common.CUSTOM_RC_PATTERN :=
  fun _ h => custom_pattern_accepts h

/-- FULL: same for the trait-name pattern -/
theorem custom_trait_name_wellformed : custom_name_wellformed common.CUSTOM_TRAIT_PATTERN :=
  fun _ h => custom_pattern_accepts h

/-- the name `POST /resource_classes` creates: at most 255 code points, custom form -/
theorem created_class_name (j : Json) (h : validate resource_class.POST_RC_SCHEMA_V1_2 j = true) :
    ∃ kvs name, j = .obj kvs ∧ lookup "name" kvs = some (.str name) ∧ name.toList.length ≤ 255 ∧
      isCustomName name.toList = true := by
  have hs := POST_RC_SCHEMA_V1_2_shape j h
  simp only [rcShape, sat_field_iff] at hs
  obtain ⟨kvs, rfl, _, hname, hreq⟩ := hs
  obtain ⟨v, hv⟩ := Option.isSome_iff_exists.mp (hreq trivial)
  have hsv := hname v hv
  cases v <;> simp [sat] at hsv
  rename_i name
  exact ⟨kvs, name, rfl, hv, hsv.2, custom_rc_name_wellformed _ hsv.1⟩

/-- the name `PUT /resource_classes/{name}` (>= 1.7) creates: the handler validates `{"name": <name>}` -/
theorem put_class_name (j : Json) (h : validate resource_class.PUT_RC_SCHEMA_V1_2 j = true) :
    ∃ kvs name, j = .obj kvs ∧ lookup "name" kvs = some (.str name) ∧ name.toList.length ≤ 255 ∧
      isCustomName name.toList = true := by
  have hs := PUT_RC_SCHEMA_V1_2_shape j h
  simp only [rcShape, sat_field_iff] at hs
  obtain ⟨kvs, rfl, _, hname, hreq⟩ := hs
  obtain ⟨v, hv⟩ := Option.isSome_iff_exists.mp (hreq trivial)
  have hsv := hname v hv
  cases v <;> simp [sat] at hsv
  rename_i name
  exact ⟨kvs, name, rfl, hv, hsv.2, custom_rc_name_wellformed _ hsv.1⟩

/-- the name `PUT /traits/{name}` creates -/
theorem created_trait_name (j : Json) (h : validate trait.CUSTOM_TRAIT j = true) :
    ∃ name, j = .str name ∧ name.toList.length ≤ 255 ∧ isCustomName name.toList = true := by
  have hs := CUSTOM_TRAIT_shape j h
  cases j <;> simp [customTraitShape, sat] at hs
  rename_i name
  exact ⟨name, rfl, hs.2, custom_trait_name_wellformed _ hs.1⟩


/-! ## (c) the error body

`util.json_error_formatter` as generated (`Gen.Errors.errorBodyKeys`: key ↦ guard, source order), evaluated in
the environment of a failing request: the status of the webob exception, the microversion the middleware
put into the environ (absent when the header could not be parsed) and the request id. -/

structure ErrEnv where
  status : Nat
  version : Option (Nat × Nat)
  requestId : Bool

open Placement.Gen.Errors in
def evalGuard (e : ErrEnv) : Guard → Bool
  | .always => true
  | .hasVersion => e.version.isSome
  | .hasRequestId => e.requestId
  | .versionAtLeast a b =>
    (match e.version with
     | some (x, y) => decide (a < x) || (decide (a = x) && decide (b ≤ y))
     | none => false)
  | .statusEq n => decide (e.status = n)
  | .and g h => evalGuard e g && evalGuard e h
  | .not g => !evalGuard e g

/-- keys of `errors[0]` -/
def errorKeys (e : ErrEnv) : List String :=
  (Gen.Errors.errorBodyKeys.filter (fun kg => evalGuard e kg.2)).map Prod.fst

/-- status, title, detail always; request_id whenever the request-id middleware ran (it is outermost);
`code` exactly when the request's microversion is ≥ 1.23 (errors.inc); `min_version`/`max_version` exactly on
the 406 of the microversion middleware. -/
theorem error_body_wellformed (e : ErrEnv) (hrid : e.requestId = true) :
    "status" ∈ errorKeys e ∧ "title" ∈ errorKeys e ∧ "detail" ∈ errorKeys e ∧ "request_id" ∈ errorKeys e ∧
    ("code" ∈ errorKeys e ↔ ∃ x y, e.version = some (x, y) ∧ (1 < x ∨ (x = 1 ∧ 23 ≤ y))) ∧
    ("min_version" ∈ errorKeys e ↔ (e.status = 406 ∧ e.version = none)) ∧
    ("max_version" ∈ errorKeys e ↔ (e.status = 406 ∧ e.version = none)) := by
  obtain ⟨st, v, rid⟩ := e
  simp only at hrid
  subst hrid
  rcases v with _ | ⟨x, y⟩
  · simp [errorKeys, Gen.Errors.errorBodyKeys, evalGuard]
  · simp [errorKeys, Gen.Errors.errorBodyKeys, evalGuard]
    constructor
    · intro h; exact ⟨x, y, ⟨rfl, rfl⟩, by omega⟩
    · rintro ⟨x', y', ⟨rfl, rfl⟩, h⟩; omega

example : errorKeys ⟨409, some (1, 39), true⟩ = ["status", "title", "detail", "code", "request_id"] := by decide
example : errorKeys ⟨400, some (1, 22), true⟩ = ["status", "title", "detail", "request_id"] := by decide
example : errorKeys ⟨406, none, true⟩ = ["status", "title", "detail", "request_id", "max_version", "min_version"] := by
  decide

/-! ## (e) except-maps -/

open Placement.Gen.Errors

def httpStatuses : List Nat :=
  (funcClauses.flatMap (fun fc => fc.2)).filterMap (fun c => match c.action with | .http _ st _ => some st | _ => none)

def httpCodes : List String :=
  (funcClauses.flatMap (fun fc => fc.2)).filterMap (fun c => match c.action with | .http _ _ code => some code | _ => none)

/-- every `except` clause that answers, answers with a client error -/
theorem except_clauses_answer_4xx : httpStatuses.all (fun st => decide (400 ≤ st ∧ st ≤ 499)) = true := by
  decide +kernel

/-- … carrying an error code of `placement.errors` (documented in api-ref errors.inc) -/
theorem except_codes_documented :
    httpCodes.all (fun c => (errorCodes.map Prod.snd).contains c) = true := by decide +kernel

def lookupExc (c : Exc) : List (Exc × List Exc) → List Exc
  | [] => []
  | (k, v) :: rest => if k = c then v else lookupExc c rest

/-- the class and its ancestors -/
def ancestors (c : Exc) : List Exc := c :: lookupExc c exceptionAncestors

def clauseCatches (anc : List Exc) (c : Clause) : Bool :=
  (match c.action with | .http _ _ _ => true | .handled => true | _ => false) &&
  c.classes.any (fun k => anc.contains k)

/-- functions of placement/util.py: their clauses guard their own `try` bodies, not the object layer -/
def isUtilFn (f : Fn) : Bool := utilFns.contains f

/-- clauses (of the definition `d` and of what it calls in placement.handlers, and of
`PlacementHandler.__call__`) that turn an exception whose class or ancestor they name into a response -/
def caughtIn (cls : List (Fn × Clause)) (e : Exc) : Bool :=
  let anc := ancestors e
  cls.any (fun kc => !isUtilFn kc.1 && clauseCatches anc kc.2) || dispatchClauses.any (clauseCatches anc)

/-- exception class `e` raised below any definition of handler `h` is turned into a response -/
def caught (h : Handler) (e : Exc) : Bool :=
  (handlerClauses.filter (fun hc => hc.1 = h)).all (fun hc => caughtIn hc.2.2.2.2 e)

def caughtDef (d : Fn) (e : Exc) : Bool :=
  (handlerClauses.filter (fun hc => hc.2.1 = d)).all (fun hc => caughtIn hc.2.2.2.2 e)

/-- Domain exceptions the object layer raises into each handler (read off `placement/objects/*.py`: the
`raise exception.X` sites reachable from the calls the handler makes; an assumption of this file, exercised
by the monitors of harness/props/c15.py). -/
def domainRaises : List (Handler × List Exc) := [
  (.inventory_create_inventory, [.NotFound, .ResourceClassNotFound, .ResourceProviderConcurrentUpdateDetected,
     .InvalidInventoryCapacity, .InvalidInventoryCapacityReservedCanBeTotal]),
  (.inventory_set_inventories, [.NotFound, .ResourceClassNotFound, .ResourceProviderConcurrentUpdateDetected,
     .InventoryInUse, .InventoryWithResourceClassNotFound, .InvalidInventoryCapacity,
     .InvalidInventoryCapacityReservedCanBeTotal]),
  (.inventory_update_inventory, [.NotFound, .ResourceClassNotFound, .ResourceProviderConcurrentUpdateDetected,
     .InventoryWithResourceClassNotFound, .InvalidInventoryCapacity, .InvalidInventoryCapacityReservedCanBeTotal]),
  (.inventory_delete_inventory, [.NotFound, .ResourceClassNotFound, .ResourceProviderConcurrentUpdateDetected,
     .InventoryInUse]),
  (.inventory_delete_inventories, [.NotFound, .ResourceProviderConcurrentUpdateDetected, .InventoryInUse]),
  (.inventory_get_inventories, [.NotFound]),
  (.inventory_get_inventory, [.NotFound]),
  (.allocation_set_allocations_for_consumer, [.NotFound, .ResourceClassNotFound, .InvalidInventory,
     .InvalidAllocationCapacityExceeded, .InvalidAllocationConstraintsViolated, .ConcurrentUpdateDetected,
     .ResourceProviderConcurrentUpdateDetected, .ConsumerNotFound]),
  (.allocation_set_allocations, [.NotFound, .ResourceClassNotFound, .InvalidInventory,
     .InvalidAllocationCapacityExceeded, .InvalidAllocationConstraintsViolated, .ConcurrentUpdateDetected,
     .ResourceProviderConcurrentUpdateDetected, .ConsumerNotFound]),
  (.allocation_delete_allocations, [.NotFound]),
  (.allocation_list_for_resource_provider, [.NotFound]),
  (.reshaper_reshape, [.NotFound, .ResourceClassNotFound, .InvalidInventory, .InventoryInUse,
     .InvalidAllocationCapacityExceeded, .InvalidAllocationConstraintsViolated, .ConcurrentUpdateDetected,
     .ResourceProviderConcurrentUpdateDetected]),
  (.aggregate_get_aggregates, [.NotFound]),
  (.aggregate_set_aggregates, [.NotFound, .ResourceProviderConcurrentUpdateDetected]),
  (.trait_put_trait, [.TraitExists]),
  (.trait_get_trait, [.TraitNotFound]),
  (.trait_delete_trait, [.TraitNotFound, .TraitCannotDeleteStandard, .TraitInUse]),
  (.trait_list_traits_for_resource_provider, [.NotFound]),
  (.trait_update_traits_for_resource_provider, [.NotFound, .TraitNotFound, .ResourceProviderConcurrentUpdateDetected]),
  (.trait_delete_traits_for_resource_provider, [.NotFound, .ResourceProviderConcurrentUpdateDetected]),
  (.resource_class_create_resource_class, [.ResourceClassExists, .MaxDBRetriesExceeded]),
  (.resource_class_get_resource_class, [.ResourceClassNotFound]),
  (.resource_class_delete_resource_class, [.NotFound, .ResourceClassNotFound, .ResourceClassCannotDeleteStandard,
     .ResourceClassInUse]),
  (.resource_class_update_resource_class, [.NotFound, .ResourceClassNotFound, .ResourceClassExists]),
  (.resource_provider_create_resource_provider, [.ObjectActionError]),
  (.resource_provider_get_resource_provider, [.NotFound]),
  (.resource_provider_delete_resource_provider, [.NotFound, .ResourceProviderInUse, .CannotDeleteParentResourceProvider]),
  (.resource_provider_update_resource_provider, [.NotFound, .ObjectActionError]),
  (.resource_provider_list_resource_providers, [.ResourceClassNotFound, .TraitNotFound]),
  (.allocation_candidate_list_allocation_candidates, [.ResourceClassNotFound, .TraitNotFound]),
  (.usage_list_usages, [.NotFound])
]

/-- raised in one definition of a handler only: `ResourceClass.save()` is called by the 1.2 – 1.6 variant of
`PUT /resource_classes/{name}` -/
def domainRaisesDef : List (Fn × List Exc) := [
  (.resource_class_update_resource_class_1, [.ResourceClassCannotUpdateStandard])
]

def uncaughtPairs : List (Handler × Exc) :=
  domainRaises.flatMap (fun he => (he.2.filter (fun e => !caught he.1 e)).map (fun e => (he.1, e)))

def uncaughtDefPairs : List (Fn × Exc) :=
  domainRaisesDef.flatMap (fun he => (he.2.filter (fun e => !caughtDef he.1 e)).map (fun e => (he.1, e)))

/-- No domain exception of the object layer escapes a handler: each is named (itself or an ancestor) by an
`except` clause that answers or recovers.  (DESIGN §9-D, `PUT /resource_providers/{uuid}/traits` not catching
the generation conflict of `set_traits`, was repaired by /repo d03a110; before it this statement had the
witness `caught .trait_update_traits_for_resource_provider .ResourceProviderConcurrentUpdateDetected = false`.) -/
theorem domain_exceptions_caught : uncaughtPairs = [] ∧ uncaughtDefPairs = [] := by
  decide +kernel

example : caught .trait_update_traits_for_resource_provider .ResourceProviderConcurrentUpdateDetected = true := by
  decide +kernel

/-! ## (g) per handler and microversion: the schema it validates the body with guarantees the shape it reads -/

def verLe (a b : Nat × Nat) : Bool := decide (a.1 < b.1) || (decide (a.1 = b.1) && decide (a.2 ≤ b.2))

/-- version windows, both ends inclusive -/
abbrev Win := (Nat × Nat) × (Nat × Nat)

def Win.has (w : Win) (v : Nat × Nat) : Bool := verLe w.1 v && verLe v w.2

def first : Nat × Nat := (1, 0)
def last : Nat × Nat := (1, 39)

/-- what each body-reading handler reads, per microversion window (`[]`: the handler reads no body).
The inventory shapes are the `_partial` ones (finite ratio / key closure are not guaranteed, see above). -/
def expectedShapes (h : Handler) : List (Win × Shape) :=
  match h with
  | .inventory_create_inventory => [((first, last), postInventoryShape false)]
  | .inventory_update_inventory => [((first, last), putInventoryShape false)]
  | .inventory_set_inventories => [((first, last), putInventoriesShape false true)]
  | .allocation_set_allocations_for_consumer =>
    [((first, (1, 7)), allocShape_1_0), (((1, 8), (1, 11)), allocShape_1_8), (((1, 12), (1, 27)), allocShape_1_12),
     (((1, 28), (1, 33)), allocShape_1_28), (((1, 34), (1, 37)), allocShape_1_34), (((1, 38), last), allocShape_1_38)]
  | .allocation_set_allocations =>
    [(((1, 13), (1, 27)), postAllocShape 1 postAllocDoc_1_13), (((1, 28), (1, 33)), postAllocShape 1 allocShape_1_28),
     (((1, 34), (1, 37)), postAllocShape 1 allocShape_1_34), (((1, 38), last), postAllocShape 1 allocShape_1_38)]
  | .reshaper_reshape =>
    [(((1, 30), (1, 33)), reshaperShape false true allocShape_1_28),
     (((1, 34), (1, 37)), reshaperShape false true allocShape_1_34),
     (((1, 38), last), reshaperShape false true allocShape_1_38)]
  | .trait_update_traits_for_resource_provider => [(((1, 6), last), traitsForRpShape)]
  | .aggregate_set_aggregates => [(((1, 1), (1, 18)), aggregatesShape_1_1), (((1, 19), last), aggregatesShape_1_19)]
  | .resource_provider_create_resource_provider =>
    [((first, (1, 13)), postRpShape_1_0), (((1, 14), last), postRpShape_1_14)]
  | .resource_provider_update_resource_provider =>
    [((first, (1, 13)), putRpShape_1_0), (((1, 14), last), putRpShape_1_14)]
  | .resource_class_create_resource_class => [(((1, 2), last), rcShape)]
  | .resource_class_update_resource_class => [(((1, 2), (1, 6)), rcShape)]
  | _ => []

/-- the shape expected at version `v` -/
def expectedShape (h : Handler) (v : Nat × Nat) : Option Shape :=
  ((expectedShapes h).find? (fun ws => ws.1.has v)).map Prod.snd

def inWindow (r : HandlerSchema) (v : Nat × Nat) : Bool := verLe r.lo v && verLe v r.hi

def overlaps (r : HandlerSchema) (w : Win) : Bool := verLe r.lo w.2 && verLe w.1 r.hi

/-- every schema row is checked against every expected shape whose window meets the row's window, and every
version of a body row has an expected shape -/
def bodyShapesOk : Bool :=
  handlerSchemas.all (fun r => !(r.kind = .body) ||
    ((expectedShapes r.handler).all (fun ws => !overlaps r ws.1 || implies r.schema ws.2) &&
     versions.all (fun v => !inWindow r v || (expectedShape r.handler v).isSome)))

theorem handler_body_shapes_checked : bodyShapesOk = true := by decide +kernel

theorem verLe_trans {a b c : Nat × Nat} (h1 : verLe a b = true) (h2 : verLe b c = true) : verLe a c = true := by
  simp only [verLe, Bool.or_eq_true, Bool.and_eq_true, decide_eq_true_eq] at *
  omega

/-- At every microversion, the schema a handler validates its body with (as extracted from the handler's
source, `Gen.Schemas.handlerSchemas`) guarantees the shape the handler reads at that version.
`_partial`: for the three inventory handlers and the reshaper the shape is the weaker one (see above). -/
theorem handler_body_shape_partial (r : HandlerSchema) (hr : r ∈ handlerSchemas) (hk : r.kind = .body)
    (v : Nat × Nat) (hv : v ∈ versions) (hw : inWindow r v = true) :
    ∃ sh, expectedShape r.handler v = some sh ∧ ∀ j, validate r.schema j = true → sat sh j = true := by
  have h := handler_body_shapes_checked
  unfold bodyShapesOk at h
  have h1 := List.all_eq_true.mp h r hr
  simp only [hk, decide_true, Bool.not_true, Bool.false_or, Bool.and_eq_true] at h1
  obtain ⟨hall, hcov⟩ := h1
  have h2 := List.all_eq_true.mp hcov v hv
  simp only [hw, Bool.not_true, Bool.false_or] at h2
  obtain ⟨sh, hs⟩ := Option.isSome_iff_exists.mp h2
  refine ⟨sh, hs, ?_⟩
  unfold expectedShape at hs
  cases hf : (expectedShapes r.handler).find? (fun ws => ws.1.has v) with
  | none => rw [hf] at hs; cases hs
  | some ws =>
    rw [hf] at hs
    simp only [Option.map_some, Option.some.injEq] at hs
    have hmem := List.mem_of_find?_eq_some hf
    have hhas := List.find?_some hf
    have h3 := List.all_eq_true.mp hall ws hmem
    simp only [Win.has, Bool.and_eq_true] at hhas
    simp only [inWindow, Bool.and_eq_true] at hw
    have hov : overlaps r ws.1 = true := by
      simp only [overlaps, Bool.and_eq_true]
      exact ⟨verLe_trans hw.1 hhas.2, verLe_trans hhas.1 hw.2⟩
    simp only [hov, Bool.not_true, Bool.false_or] at h3
    subst hs
    exact fun j hj => implies_sound _ _ _ h3 hj

example : (expectedShape .allocation_set_allocations_for_consumer (1, 30)).isSome = true := by decide

/-- at each version a handler validates a given part of the request with at most one schema: the windows of
the rows of one (handler, kind) are pairwise disjoint (every row meets only itself) -/
theorem handler_schema_unique :
    handlerSchemas.all (fun r =>
      decide ((handlerSchemas.filter (fun r' => r'.handler = r.handler && r'.kind = r.kind &&
          overlaps r' (r.lo, r.hi))).length ≤ 1)) = true := by
  decide +kernel

end Placement.Props.C15
