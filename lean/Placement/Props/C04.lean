/-
  C04  Rejected writes leave no trace; multi-entity writes are all-or-nothing.

  "A request that writes allocations for several consumers and providers, replaces a provider's
  inventories, traits or aggregates, or reshapes inventories and allocations either takes effect
  completely or, if it is answered with an error status, leaves providers, inventories, traits,
  aggregates, allocations, consumers and every generation exactly as they were before it. The only
  residue a rejected request may leave is newly recorded project, user and consumer-type names."

  Statements over the hand-written model (`Placement.Model.Handlers`; `step` is one completed request).
  In the model (as in the code) "no trace" is not true by construction: `PUT /allocations/{c}`,
  `POST /allocations` and `POST /reshaper` create project, user, consumer-type and consumer records in
  committed transactions *before* their main write transaction, and remove the consumer records again
  on every failure path.  The theorems below cover all 21 operations of `Op`, all microversions and
  every configuration.

  `core db` (`Placement.Core.core`, Lemmas/CoreBase.lean) is the projection of the state to
    rps (uuid, name, parent, root, generation) · invs · allocs · consumers (uuid, project, user, type,
    generation, internal id) · rpTraits · rpAggs · rcs · traits,
  i.e. everything except the name registries `projects`, `users`, `ctypes`, the registry `aggs` of
  aggregate uuids (an aggregate that is associated with no provider is not visible through the API)
  and the fresh-id counters `nextRp`, `nextCons`.

  The only hypothesis is the part of `Uniq` that says that the fresh consumer id is above every id in
  use (`FreshCons`); it holds in every state reachable by well-formed requests (`Wf.reach_uniq`).
  Helper lemmas: `Placement.Lemmas.{CoreBase,CoreStep,CoreWrite}`.
-/
import Placement.Lemmas.GuardTie
import Placement.Lemmas.CoreWrite

namespace Placement.Props.C04
open Placement Placement.Wf Placement.Core

variable {R : Type} [CapOps R]

omit [CapOps R] in
/-- what `core` is -/
theorem core_def (db : DB R) :
    core db = ⟨db.rps, db.invs, db.allocs, db.consumers, db.rpTraits, db.rpAggs, db.rcs, db.traits⟩ := rfl

/-- the fresh consumer id is above every consumer id in use (a field of `Uniq`) -/
def FreshCons (db : DB R) : Prop := ∀ c ∈ db.consumers, c.id < db.nextCons

omit [CapOps R] in
theorem freshCons_of_uniq {db : DB R} (h : Uniq db) : FreshCons db := h.freshCons

/-! ## a rejected request leaves no trace -/

/-- **C04, first half**: a request answered with an error status (all 21 operations) leaves
providers, inventories, allocations, consumers, provider traits and aggregates, resource classes and
traits - with every generation - exactly as they were. -/
theorem rejected_no_trace (cfg : Config) (db : DB R) (op : Op R) (hf : FreshCons db)
    (h : 400 ≤ (step cfg db op).2.status) : core (step cfg db op).1 = core db :=
  (step_err_residue cfg hf op h).core

/-- the same in every state reachable from the synchronised empty database by well-formed requests -/
theorem rejected_no_trace_reach {cfg : Config} {stdRcs stdTraits : List Nat} (h1 : stdRcs.Nodup)
    (h2 : stdTraits.Nodup) {db : DB R} (hr : ReachWF cfg stdRcs stdTraits db) (op : Op R)
    (h : 400 ≤ (step cfg db op).2.status) : core (step cfg db op).1 = core db :=
  rejected_no_trace cfg db op (reach_uniq h1 h2 hr).freshCons h

/-- ... and in every state reachable by ANY requests (`Reach` of `Spec/Inv.lean`, no well-formedness
assumption): the fresh consumer id stays above the ids in use under every request -/
theorem freshCons_reach {cfg : Config} {stdRcs stdTraits : List Nat} {db : DB R}
    (hr : Reach cfg stdRcs stdTraits db) : FreshCons db := by
  have : Gens.Ids db.gcore := by
    induction hr with
    | init => exact ⟨List.nodup_nil, fun r hr => (by cases hr), List.nodup_nil, fun r hr => (by cases hr)⟩
    | step db op _ ih => exact (Gens.step_genLe cfg ih op).ids
  exact this.consFresh

theorem rejected_no_trace_reach_any {cfg : Config} {stdRcs stdTraits : List Nat} {db : DB R}
    (hr : Reach cfg stdRcs stdTraits db) (op : Op R)
    (h : 400 ≤ (step cfg db op).2.status) : core (step cfg db op).1 = core db :=
  rejected_no_trace cfg db op (freshCons_reach hr) h

/-- **C04, residue**: the state after a rejected request is the state before it with (at most) the
three name registries extended at the end and a larger fresh consumer id; in particular the registry
of aggregate uuids and the fresh provider id are unchanged too. -/
theorem rejected_residue_is_names (cfg : Config) (db : DB R) (op : Op R) (hf : FreshCons db)
    (h : 400 ≤ (step cfg db op).2.status) :
    (step cfg db op).1 = { db with projects := (step cfg db op).1.projects, users := (step cfg db op).1.users,
                                   ctypes := (step cfg db op).1.ctypes, nextCons := (step cfg db op).1.nextCons } ∧
    db.projects <+: (step cfg db op).1.projects ∧ db.users <+: (step cfg db op).1.users ∧
    db.ctypes <+: (step cfg db op).1.ctypes ∧ db.nextCons ≤ (step cfg db op).1.nextCons :=
  have hr := step_err_residue cfg hf op h
  ⟨hr.eq, hr.projects, hr.users, hr.ctypes, hr.nextCons⟩

/-- requests that do not write allocations leave not even names: the state is the same -/
theorem rejected_non_allocation_write_unchanged (cfg : Config) (db : DB R) (op : Op R)
    (hop : match op with | .allocPut .. | .allocPost .. | .reshape .. => False | _ => True)
    (h : 400 ≤ (step cfg db op).2.status) : (step cfg db op).1 = db := by
  cases op with
  | rpCreate mv u n p => exact hRpCreate_err h
  | rpUpdate mv u n p => exact hRpUpdate_err h
  | rpDelete u => exact hRpDelete_err h
  | invSet mv u g is => exact hInvSet_err h
  | invAdd mv u i => exact hInvAdd_err h
  | invUpdate mv u g i => exact hInvUpdate_err h
  | invDelete u rc => exact hInvDelete_err h
  | invDeleteAll mv u => exact hInvDeleteAll_err h
  | traitPut n => exact hTraitPut_err h
  | traitDelete n => exact hTraitDelete_err h
  | rpTraitsSet u g ts => exact hRpTraitsSet_err h
  | rpTraitsDelete u => exact hRpTraitsDelete_err h
  | rcPost n => exact hRcPost_err h
  | rcPut n => exact hRcPut_err h
  | rcRename o n => exact hRcRename_err h
  | rcDelete n => exact hRcDelete_err h
  | aggsSet mv u g as => exact hAggsSet_err h
  | allocPut mv c => exact hop.elim
  | allocPost mv cs => exact hop.elim
  | allocDelete c => exact hAllocDelete_err h
  | reshape mv invs cs => exact hop.elim

/-! ## a multi-entity write is all-or-nothing -/

/-- The complete effect of a multi-entity write: the result state `db'` is the value of ONE
object-layer transaction function (`setInventory`, `setTraits`, `setAggregates`, `setAllocations`,
`reshapeTxn` - each returns either a whole new state or an exception, nothing in between).
For the allocation writes the function is applied to `db1` = `db` plus the consumers ensured for this
request (`Ensured`/`Ext`: same `rest`, names appended, consumer rows appended with fresh ids), with
project/user/type of those consumers updated (`updateConsumer(s)`, see `update_is_attributes_only`);
afterwards the rows created for entries without allocations are removed (`created_empty_subset`). -/
def Committed (cfg : Config) (db : DB R) : Op R → DB R → Prop
  | .invSet _ u g is, db' => ∃ rp, db.rpByUuid u = some rp ∧ g = rp.gen ∧ setInventory db rp.id rp.gen is = .ok db'
  | .rpTraitsSet u g ts, db' => ∃ rp, db.rpByUuid u = some rp ∧ rp.gen = g ∧ setTraits db rp.id rp.gen ts = .ok db'
  | .aggsSet mv u g as, db' => ∃ rp, db.rpByUuid u = some rp ∧ (19 ≤ mv → g = some rp.gen) ∧
      setAggregates db rp.id rp.gen as (decide (mv ≥ 19)) = .ok db'
  | .allocPut mv c, db' => ∃ db1 cons created attr objs db3,
      ensureConsumer cfg db mv c = (db1, .ok (cons, created, attr)) ∧
      Ext db db1 (if created then [cons.id] else []) ∧
      allocObjects db1 cons c = .ok objs ∧
      setAllocations (updateConsumer db1 cons attr) objs = .ok db3 ∧
      db' = (if created && objs.isEmpty then deleteConsumerRows db3 [cons.id] else db3)
  | .allocPost mv cs, db' => ∃ db1 triples created objs db3,
      Ensured cfg mv db cs db1 triples created ∧
      allocObjectsAll db1 triples = .ok objs ∧
      setAllocations (updateConsumers db1 triples) objs = .ok db3 ∧
      db' = deleteConsumerRows db3 (createdEmpty triples created)
  | .reshape mv invs cs, db' => ∃ rinvs db1 triples created objs db3,
      resolveReshapeRps db invs = .ok rinvs ∧
      Ensured cfg mv db cs db1 triples created ∧
      allocObjectsAll db1 triples = .ok objs ∧
      reshapeTxn (updateConsumers db1 triples) rinvs objs = .ok db3 ∧
      db' = deleteConsumerRows db3 (createdEmpty triples created)
  | _, _ => True

/-- **C04, second half**: `PUT inventories`, `PUT traits`, `PUT aggregates`, `PUT /allocations/{c}`,
`POST /allocations`, `POST /reshaper` either are answered with an error status and leave `core`
unchanged (at most names remain), or are answered with 2xx and the state is the complete effect
(`Committed`).  No partial application of the write is observable. -/
theorem write_all_or_nothing (cfg : Config) (db : DB R) (op : Op R) (hf : FreshCons db) :
    (400 ≤ (step cfg db op).2.status ∧ core (step cfg db op).1 = core db) ∨
    ((step cfg db op).2.ok = true ∧ Committed cfg db op (step cfg db op).1) := by
  rcases step_ok_or_err cfg hf op with hok | hst
  case inr => exact .inl ⟨hst, rejected_no_trace cfg db op hf hst⟩
  · have hst : ¬ 400 ≤ (step cfg db op).2.status := fun h => by
      simp only [Resp.ok, Bool.and_eq_true, decide_eq_true_eq] at hok; omega
    right
    cases op with
    | invSet mv u g is =>
      rcases Gens.hInvSet_cases db mv u g is with ⟨rp, db', h1, h2, h3, h4⟩ | ⟨-, h⟩
      · exact ⟨by show (hInvSet db mv u g is).2.ok = true; rw [h4]; rfl,
               rp, h1, h2, by show _ = Except.ok (hInvSet db mv u g is).1; rw [h4]; exact h3⟩
      · exact absurd h hst
    | rpTraitsSet u g ts =>
      rcases Gens.hRpTraitsSet_cases db u g ts with ⟨rp, db', h1, h2, h3, h4⟩ | ⟨-, h⟩
      · exact ⟨by show (hRpTraitsSet db u g ts).2.ok = true; rw [h4]; rfl,
               rp, h1, h2, by show _ = Except.ok (hRpTraitsSet db u g ts).1; rw [h4]; exact h3⟩
      · exact absurd h hst
    | aggsSet mv u g as =>
      rcases Gens.hAggsSet_cases db mv u g as with ⟨rp, db', h1, h2, h3, h4⟩ | ⟨-, h⟩
      · exact ⟨by show (hAggsSet db mv u g as).2.ok = true; rw [h4]; rfl,
               rp, h1, h2, by show _ = Except.ok (hAggsSet db mv u g as).1; rw [h4]; exact h3⟩
      · exact absurd h hst
    | allocPut mv c =>
      rcases hAllocPut_atomic cfg hf mv c with ⟨h, -⟩ | ⟨db1, cons, created, attr, objs, db3, h1, h2, h3, h4, h5⟩
      · exact absurd h hst
      · exact ⟨by show (hAllocPut cfg db mv c).2.ok = true; rw [h5]; rfl,
               db1, cons, created, attr, objs, db3, h1, h2, h3, h4,
               by show (hAllocPut cfg db mv c).1 = _; rw [h5]⟩
    | allocPost mv cs =>
      rcases hAllocPost_atomic cfg hf mv cs with ⟨h, -⟩ | ⟨db1, triples, created, objs, db3, h1, h2, h3, h4⟩
      · exact absurd h hst
      · exact ⟨by show (hAllocPost cfg db mv cs).2.ok = true; rw [h4]; rfl,
               db1, triples, created, objs, db3, h1, h2, h3, by show (hAllocPost cfg db mv cs).1 = _; rw [h4]⟩
    | reshape mv invs cs =>
      rcases hReshape_atomic cfg hf mv invs cs with ⟨h, -⟩ | ⟨rinvs, db1, triples, created, objs, db3, h0, h1, h2, h3, h4⟩
      · exact absurd h hst
      · exact ⟨by show (hReshape cfg db mv invs cs).2.ok = true; rw [h4]; rfl,
               rinvs, db1, triples, created, objs, db3, h0, h1, h2, h3,
               by show (hReshape cfg db mv invs cs).1 = _; rw [h4]⟩
    | _ => exact ⟨hok, trivial⟩

/-! ## what the intermediate states of `Committed` are -/

omit [CapOps R] in
/-- "`db` plus ensured consumers": nothing but names appended, consumer rows with fresh ids appended -/
theorem ensured_state_shape {db db1 : DB R} {created : List Nat} (h : Ext db db1 created) :
    rest db1 = rest db ∧ db.projects <+: db1.projects ∧ db.users <+: db1.users ∧ db.ctypes <+: db1.ctypes ∧
    ∃ extra, db1.consumers = db.consumers ++ extra ∧ created = extra.map (·.id) ∧ ∀ e ∈ extra, db.nextCons ≤ e.id :=
  ⟨h.rest, h.projects, h.users, h.ctypes, h.cons⟩

omit [CapOps R] in
/-- `update_consumers` (first statement of the main transaction) changes project, user and type of
consumer rows and nothing else -/
theorem update_is_attributes_only (db1 : DB R) (triples : List (ConsumerReq × ConsRow × ReqAttr)) :
    ∃ f : ConsRow → ConsRow, (∀ c, (f c).id = c.id ∧ (f c).uuid = c.uuid ∧ (f c).gen = c.gen) ∧
      updateConsumers db1 triples = { db1 with consumers := db1.consumers.map f } :=
  updateConsumers_updOnly triples db1

omit [CapOps R] in
/-- the rows removed after a successful multi-consumer write were created by this very request -/
theorem created_empty_subset (triples : List (ConsumerReq × ConsRow × ReqAttr)) (created : List Nat) :
    ∀ i ∈ createdEmpty triples created, i ∈ created := createdEmpty_subset triples created

/-! ## examples (state `Wf.exDb`: consumer 500 holds 2 of class 0 on provider 101, capacity 8) -/

/-- a new consumer with a valid entry ... -/
def exGood : ConsumerReq :=
  { uuid := 501, project := some 70, user := some 80, ctype := some 90, gen := none, allocs := [(101, 0, 1)] }
/-- ... a second new consumer naming a provider that does not exist -/
def exUnknownRp : ConsumerReq :=
  { uuid := 502, project := some 71, user := some 81, ctype := some 91, gen := none, allocs := [(999, 0, 1)] }
/-- ... the existing consumer with a stale generation -/
def exStale : ConsumerReq :=
  { uuid := 500, project := some 7, user := some 8, ctype := none, gen := some 0, allocs := [(101, 0, 1)] }
/-- ... a new consumer asking for more than the capacity left -/
def exTooMuch : ConsumerReq :=
  { uuid := 503, project := some 72, user := some 82, ctype := none, gen := none, allocs := [(101, 0, 7)] }

example : FreshCons exDb := freshCons_of_uniq uniq_exDb

-- unknown provider in the second entry, after consumers 501 and 502 were created: 400
example : (step exCfg exDb (.allocPost 38 [exGood, exUnknownRp])).2 = r400 := by decide
example : core (step exCfg exDb (.allocPost 38 [exGood, exUnknownRp])).1 = core exDb :=
  rejected_no_trace exCfg exDb _ uniq_exDb.freshCons (by decide)
-- the residue is real: names and the fresh id
example : (step exCfg exDb (.allocPost 38 [exGood, exUnknownRp])).1.projects = [7, 70, 71] ∧
          (step exCfg exDb (.allocPost 38 [exGood, exUnknownRp])).1.ctypes = [90, 91] ∧
          (step exCfg exDb (.allocPost 38 [exGood, exUnknownRp])).1.nextCons = 4 := by decide
example : (step exCfg exDb (.allocPost 38 [exGood, exUnknownRp])).1.users = [8, 80, 81] :=
  by decide

-- stale consumer generation in the second entry, after consumer 501 was created: 409
example : (step exCfg exDb (.allocPost 38 [exGood, exStale])).2 = r409 .concurrentUpdate := by decide
example : core (step exCfg exDb (.allocPost 38 [exGood, exStale])).1 = core exDb :=
  rejected_no_trace exCfg exDb _ uniq_exDb.freshCons (by decide)

-- capacity exceeded by the second entry inside the main transaction: 409
example : (step exCfg exDb (.allocPost 38 [exGood, exTooMuch])).2 = r409 := by decide
example : core (step exCfg exDb (.allocPost 38 [exGood, exTooMuch])).1 = core exDb :=
  rejected_no_trace exCfg exDb _ uniq_exDb.freshCons (by decide)
example : (step exCfg exDb (.allocPost 38 [exGood, exTooMuch])).1 =
    { exDb with projects := [7, 70, 72], users := [8, 80, 82], ctypes := [90], nextCons := 4 } :=
  (rejected_residue_is_names exCfg exDb _ uniq_exDb.freshCons (by decide)).1.trans (by
    congr 1 <;> decide)

-- PUT /allocations/{c} and POST /reshaper rejected after the consumer was created
example : core (step exCfg exDb (.allocPut 38 exUnknownRp)).1 = core exDb :=
  rejected_no_trace exCfg exDb _ uniq_exDb.freshCons (by decide)
example : (step exCfg exDb (.reshape 38 [] [exGood, exTooMuch])).2 = r409 := by decide
example : core (step exCfg exDb (.reshape 38 [] [exGood, exTooMuch])).1 = core exDb :=
  rejected_no_trace exCfg exDb _ uniq_exDb.freshCons (by decide)

-- rejected replacement of inventories (class 0 of provider 101 is in use): nothing at all changes
example : (step exCfg exDb (.invSet 39 101 3 [])).2 = r409 .inventoryInUse := by decide
example : (step exCfg exDb (.invSet 39 101 3 [])).1 = exDb :=
  rejected_non_allocation_write_unchanged exCfg exDb _ trivial (by decide)

-- an accepted POST /allocations for two consumers: both or none
example : (step exCfg exDb (.allocPost 38 [exGood, { exStale with gen := some 1 }])).2 = r204 := by decide
example : Committed exCfg exDb (.allocPost 38 [exGood, { exStale with gen := some 1 }])
    (step exCfg exDb (.allocPost 38 [exGood, { exStale with gen := some 1 }])).1 := by
  rcases write_all_or_nothing exCfg exDb (.allocPost 38 [exGood, { exStale with gen := some 1 }])
    uniq_exDb.freshCons with ⟨h, -⟩ | ⟨-, h⟩
  · exact absurd h (by decide)
  · exact h
example : (step exCfg exDb (.allocPost 38 [exGood, { exStale with gen := some 1 }])).1.allocs =
    [{ rp := 2, rc := 0, consumer := 501, used := 1 }, { rp := 2, rc := 0, consumer := 500, used := 1 }] := by
  decide

end Placement.Props.C04
