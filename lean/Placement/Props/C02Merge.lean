import Placement.Lemmas.MergeL
/-
  C02, at the level of the code's merge stage: "amounts for the same (provider, class) added up, so that per class
  the placed amounts sum to the total requested over all groups".

  Model/Merge.lean follows `_merge_candidates` / `_consolidate_allocation_requests` with Python's sharing of mutable
  `AllocationRequestResource` objects (it is compared with the real function on every candidate query of the C03
  runs, inputs captured with object identities).  The decision to COPY an object before amounts are added onto it
  is the generated `Gen.copyArrNeeded` (translated from `RequestWideSearchContext.copy_arr_if_needed`).

  * `copy_rule_covers_every_policy`   the rule in the tree copies whenever the class is requested by several groups,
                                      under every group_policy (generated definition, all 4 policy combinations)
  * `consolidation_pure_and_adds_up`  FULL: for every store, every combination and every context whose
                                      `multi_group_rcs` contains the classes of the keys that occur twice:
                                      no object that existed before is modified (so the allocation requests of the other
                                      combinations, which share these objects, are not corrupted), there is exactly one
                                      object per (provider, class), and its amount is the SUM of the amounts placed there
  * `old_rule_*`                      the rule as it was before the repair recorded in KNOWN_FINDINGS.json
                                      (`if group_policy != 'none': return arr`, DESIGN §9-A): FALSE - a concrete store
                                      on which consolidating two combinations yields 3 VCPU for 2 requested, because the
                                      first combination's sum was written into an object the second one shares
-/
namespace Placement.Props.C02Merge
open Placement Placement.Merge

/-- the copy rule of the tree as a function of the class -/
def treeRule (ctx : Ctx) (rc : Nat) : Bool :=
  Gen.copyArrNeeded ctx.policyNone ctx.isolate (ctx.multiRcs.contains rc)

/-- the generated rule copies whenever the class is requested by several groups, whatever the group policy -/
theorem copy_rule_covers_every_policy (policyNone isolate : Bool) : Gen.copyArrNeeded policyNone isolate true = true := by
  cases policyNone <;> cases isolate <;> decide

/-- ... and only then (no needless copies) -/
theorem copy_rule_only_when_needed (policyNone isolate : Bool) : Gen.copyArrNeeded policyNone isolate false = false := by
  cases policyNone <;> cases isolate <;> decide

/-- **consolidation_pure_and_adds_up.**  `ids` = the resource objects of one combination (one allocation request per
request group), `st` the object store.  If every (provider, class) that occurs twice among them is of a class in
`multi_group_rcs` (the code puts a class there as soon as a second group requests it), then
`_consolidate_allocation_requests` modifies no existing object and returns one object per (provider, class) holding
the sum. -/
theorem consolidation_pure_and_adds_up (ctx : Ctx) (st : Store) (ids : List Nat) (hlt : ∀ i ∈ ids, i < st.length)
    (hmulti : ∀ k, 2 ≤ countKey st k ids → ctx.multiRcs.contains k.2 = true) :
    let r := consolidateArrs ctx st [] ids
    (∀ n, n < st.length → getArr r.1 n = getArr st n) ∧
    (∀ e ∈ r.2, keyOf (getArr r.1 e.2) = e.1 ∧ (getArr r.1 e.2).amount = sumKey st e.1 ids) ∧
    (r.2.map (·.1)).Nodup ∧
    (∀ k, 1 ≤ countKey st k ids → ∃ e ∈ r.2, e.1 = k) := by
  rw [consolidateArrs_eq]
  have h := consArrs_spec (treeRule ctx) st ids hlt (fun k hk => by
    unfold treeRule; rw [hmulti k hk]; exact copy_rule_covers_every_policy _ _)
  exact ⟨h.1, fun e he => ⟨(h.2.1 e he).1, (h.2.1 e he).2.1⟩, h.2.2.1, h.2.2.2⟩

/-- per class the placed amounts sum to the requested amounts: the total over all objects of a key is preserved -/
theorem consolidation_keeps_totals (ctx : Ctx) (st : Store) (ids : List Nat) (hlt : ∀ i ∈ ids, i < st.length)
    (hmulti : ∀ k, 2 ≤ countKey st k ids → ctx.multiRcs.contains k.2 = true) (k : Nat × Nat)
    (hk : 1 ≤ countKey st k ids) :
    ∃ e ∈ (consolidateArrs ctx st [] ids).2, e.1 = k ∧
      (getArr (consolidateArrs ctx st [] ids).1 e.2).amount = sumKey st k ids := by
  obtain ⟨_, h2, _, h4⟩ := consolidation_pure_and_adds_up ctx st ids hlt hmulti
  obtain ⟨e, he, rfl⟩ := h4 k hk
  exact ⟨e, he, rfl, (h2 e he).2⟩

/-- a merged request that passes `exceeds_capacity` stays, entry by entry, within what the provider summaries say is
free and within max_unit (with `consolidation_pure_and_adds_up`: the SUMMED amount does) -/
theorem merged_request_within_limits (ctx : Ctx) (st : Store) (a : Areq) (h : exceeds ctx st a = false) :
    ∀ i ∈ a.arrs,
      (limitOf ctx ((getArr st i).rp, (getArr st i).rc)).1 + (getArr st i).amount ≤
        (limitOf ctx ((getArr st i).rp, (getArr st i).rc)).2.1 ∧
      (getArr st i).amount ≤ (limitOf ctx ((getArr st i).rp, (getArr st i).rc)).2.2 := by
  intro i hi
  unfold exceeds at h
  have := List.any_eq_false.mp h i hi
  simp only [Gen.summaryExceeded, Bool.or_eq_true, decide_eq_true_eq, not_or, Int.not_lt] at this
  exact ⟨by omega, by omega⟩

/-- every request `_merge_candidates` returns passed the three filters: it is the consolidation of one combination
that satisfies the group policy and the same-subtree constraints and does not exceed capacity -/
theorem mergeCombos_only_adds_checked (ctx : Ctx) :
    ∀ (combos : List (List Areq)) (st : Store) (set : List Entry) (e : Entry),
      e ∈ (mergeCombos ctx st set combos).2 → e ∈ set ∨
        ∃ combo ∈ combos, ∃ st0 : Store, groupPolicyOk ctx combo = true ∧ sameSubtreeOk ctx combo = true ∧
          e.areq = (consolidate ctx st0 combo).2 ∧ exceeds ctx (consolidate ctx st0 combo).1 e.areq = false := by
  intro combos
  induction combos with
  | nil => intro st set e he; exact .inl he
  | cons c cs ih =>
    intro st set e he
    simp only [mergeCombos] at he
    split at he
    · rcases ih _ _ e he with h | ⟨c', hc', r⟩
      · exact .inl h
      · exact .inr ⟨c', List.mem_cons_of_mem _ hc', r⟩
    · split at he
      · rcases ih _ _ e he with h | ⟨c', hc', r⟩
        · exact .inl h
        · exact .inr ⟨c', List.mem_cons_of_mem _ hc', r⟩
      · rename_i hg hs
        simp only [Bool.not_eq_true, Bool.not_eq_false'] at hg hs
        split at he
        · rcases ih _ _ e he with h | ⟨c', hc', r⟩
          · exact .inl h
          · exact .inr ⟨c', List.mem_cons_of_mem _ hc', r⟩
        · rename_i hx
          rcases ih _ _ e he with h | ⟨c', hc', r⟩
          · unfold setAdd at h
            dsimp only at h
            split at h
            · exact .inl h
            · rcases List.mem_append.mp h with h | h
              · exact .inl h
              · simp only [List.mem_singleton] at h
                subst h
                refine .inr ⟨c, List.mem_cons_self, st, by simpa using hg, by simpa using hs, rfl, by simpa using hx⟩
          · exact .inr ⟨c', List.mem_cons_of_mem _ hc', r⟩

/-! ### the rule before the repair -/

/-- `copy_arr_if_needed` as it was: no copy unless group_policy is "none" -/
def oldRule (policyNone : Bool) (multi : List Nat) (rc : Nat) : Bool := if !policyNone then false else multi.contains rc

/-- root provider 1 and child provider 2, both with VCPU (class 0); `resources=VCPU:1&resources1=VCPU:1` without
group_policy: objects 0, 1 = what the unsuffixed group places on provider 1 / 2, objects 2, 3 = the suffixed group -/
def exStore : Store := [⟨1, 0, 1⟩, ⟨2, 0, 1⟩, ⟨1, 0, 1⟩, ⟨2, 0, 1⟩]

/-- first combination (objects 0 and 2, both on provider 1), then the combination of object 0 with object 3 -/
def oldFirst := consArrs (oldRule false [0]) exStore [] [0, 2]
def oldSecond := consArrs (oldRule false [0]) oldFirst.1 [] [0, 3]

/-- with the old rule the second combination places 2 + 1 = 3 VCPU although 1 + 1 = 2 were requested: object 0 was
not copied and carries the first combination's sum -/
theorem old_rule_double_counts :
    oldSecond.2.map (fun e => (e.1, (getArr oldSecond.1 e.2).amount)) = [((1, 0), 2), ((2, 0), 1)] ∧
    getArr oldFirst.1 0 ≠ getArr exStore 0 := by
  decide

/-- the same two combinations with the rule of the tree: 1 + 1 = 2 on provider 1, then 1 on provider 1 and 1 on
provider 2; the shared objects are untouched -/
theorem tree_rule_on_the_same_input :
    let ctx : Ctx := { policyNone := false, isolate := false, multiRcs := [0], numGranular := 1, sameSubtrees := [],
                       parents := [], limits := [] }
    let first := consolidateArrs ctx exStore [] [0, 2]
    let second := consolidateArrs ctx first.1 [] [0, 3]
    first.2.map (fun e => (e.1, (getArr first.1 e.2).amount)) = [((1, 0), 2)] ∧
    second.2.map (fun e => (e.1, (getArr second.1 e.2).amount)) = [((1, 0), 1), ((2, 0), 1)] ∧
    (first.1.take 4 = exStore ∧ second.1.take 4 = exStore) := by
  decide

/-- the hypotheses of `consolidation_pure_and_adds_up` are met by that example -/
example : (∀ i ∈ [0, 2], i < exStore.length) ∧
    (∀ k, 2 ≤ countKey exStore k [0, 2] → ([0] : List Nat).contains k.2 = true) := by
  refine ⟨by decide, ?_⟩
  intro k hk
  have : k = (1, 0) := by
    by_cases h : k = (1, 0)
    · exact h
    · simp [countKey, keyOf, getArr, exStore, List.getD, Ne.symm h] at hk
  subst this; decide

end Placement.Props.C02Merge
