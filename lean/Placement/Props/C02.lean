import Placement.Lemmas.CandPut
import Placement.Lemmas.CandBase
import Placement.Spec.Summaries
/-
  C02  "Each entry of allocation_requests returned by GET /allocation_candidates names only existing providers and
  places exactly what was asked: every suffixed group's resources in full on the one provider its mapping names, every
  class of the unsuffixed group in full on one provider of the unsuffixed mapping, amounts for the same (provider,
  class) added up, so that per class the placed amounts sum to the total requested over all groups.  Sent unchanged as
  the allocations of a new consumer before any other write, it is accepted.  Every provider named in an allocation
  request (or its mappings) that supplies resources has an entry in provider_summaries whose capacity, used and - where
  the microversion exposes them - traits and parent/root identifiers equal those derived from its stored inventory,
  allocations, traits and position in the tree."

  Stated for every `c` with `IsCandidate db q c`, hence (C03: `candidates_sound`) for every element of the enumerator
  `candidates db q` the real response is compared with.
-/
namespace Placement.Spec

variable {R : Type} [CapOps R]

/-- only existing providers are named: in the allocations ... -/
theorem candidate_providers_exist (db : DB R) (q : Query) (c : Candidate) (hc : IsCandidate db q c) :
    ∀ x ∈ c.alloc, ∃ p ∈ db.rps, p.id = x.1.1 :=
  alloc_providers_exist db q c hc

/-- ... and in the mappings -/
theorem candidate_mapped_providers_exist (db : DB R) (q : Query) (c : Candidate) (hc : IsCandidate db q c) :
    ∀ m ∈ c.maps, ∀ id ∈ m.2, ∃ p ∈ db.rps, p.id = id := by
  obtain ⟨r, _, _, ps, us, hps, hus, _, _, rfl⟩ := hc
  intro m hm id hid
  simp only [build, mappings] at hm
  rcases List.mem_append.mp hm with hm | hm
  · cases hq : q.unsuff with
    | none => rw [hq] at hm; cases hm
    | some g =>
      rw [hq] at hm
      simp only [List.mem_singleton] at hm
      subst hm
      obtain ⟨u, hu, rfl⟩ := List.mem_map.mp ((mem_sortDedup _ _).mp hid)
      obtain ⟨e, _, he⟩ := hus.right_mem u hu
      exact ⟨u, he.1, rfl⟩
  · obtain ⟨gp, hgp, rfl⟩ := List.mem_map.mp hm
    simp only [List.mem_singleton] at hid
    exact ⟨gp.2, (hps.zip gp hgp).1, hid.symm⟩

/-- every suffixed group's resources are placed in full on the one provider its mapping names: there is one provider
per suffixed group such that the mapping of the group is exactly that provider and the amount stored for (that provider,
each class of the group) is the sum over everything the request places there, the group's own amount included -/
theorem candidate_suffixed_group_in_full (db : DB R) (q : Query) (c : Candidate) (hc : IsCandidate db q c) :
    ∃ ps us : List RpRow,
      (∀ x ∈ c.alloc, x.2 = amountAt (placements q ps us) x.1) ∧
      Forall₂ (fun g p => (g.suffix, [p.id]) ∈ c.maps ∧
          ∀ e ∈ g.resources, ((p.id, e.1), e.2) ∈ placements q ps us ∧ ∃ x ∈ c.alloc, x.1 = (p.id, e.1)) q.groups ps := by
  obtain ⟨r, _, _, ps, us, hps, hus, _, _, rfl⟩ := hc
  refine ⟨ps, us, fun x hx => consolidate_entry hx, ?_⟩
  apply Forall₂.of_zip _ _ hps.length_eq
  intro gp hgp
  constructor
  · simp only [build, mappings]
    exact List.mem_append.mpr (Or.inr (List.mem_map.mpr ⟨gp, hgp, rfl⟩))
  · intro e he
    have hmem : ((gp.2.id, e.1), e.2) ∈ placements q ps us := by
      unfold placements
      exact List.mem_append.mpr (Or.inl (List.mem_flatMap.mpr ⟨gp, hgp, List.mem_map.mpr ⟨e, he, rfl⟩⟩))
    refine ⟨hmem, ?_⟩
    have : (gp.2.id, e.1) ∈ (consolidate (placements q ps us)).map (·.1) :=
      (mem_consolidate_key _ _).mpr (List.mem_map.mpr ⟨_, hmem, rfl⟩)
    obtain ⟨x, hx, hxk⟩ := List.mem_map.mp this
    exact ⟨x, hx, hxk⟩

/-- every class of the unsuffixed group is placed in full on one provider of the unsuffixed mapping -/
theorem candidate_unsuffixed_classes_in_full (db : DB R) (q : Query) (c : Candidate) (hc : IsCandidate db q c)
    (g : Group) (hg : q.unsuff = some g) :
    ∃ ps us : List RpRow,
      (∀ x ∈ c.alloc, x.2 = amountAt (placements q ps us) x.1) ∧
      Forall₂ (fun e u => ((u.id, e.1), e.2) ∈ placements q ps us ∧ (∃ x ∈ c.alloc, x.1 = (u.id, e.1)) ∧
          ∃ m ∈ c.maps, m.1 = g.suffix ∧ u.id ∈ m.2) g.resources us := by
  obtain ⟨r, _, _, ps, us, hps, hus, _, _, rfl⟩ := hc
  refine ⟨ps, us, fun x hx => consolidate_entry hx, ?_⟩
  have hres : q.unsuffRes = g.resources := by simp [Query.unsuffRes, hg]
  rw [← hres]
  apply Forall₂.of_zip _ _ hus.length_eq
  intro eu heu
  have hmem : ((eu.2.id, eu.1.1), eu.1.2) ∈ placements q ps us := by
    unfold placements
    exact List.mem_append.mpr (Or.inr (List.mem_map.mpr ⟨eu, heu, rfl⟩))
  refine ⟨hmem, ?_, ?_⟩
  · have : (eu.2.id, eu.1.1) ∈ (consolidate (placements q ps us)).map (·.1) :=
      (mem_consolidate_key _ _).mpr (List.mem_map.mpr ⟨_, hmem, rfl⟩)
    obtain ⟨x, hx, hxk⟩ := List.mem_map.mp this
    exact ⟨x, hx, hxk⟩
  · refine ⟨(g.suffix, sortDedup (us.map (·.id))), ?_, rfl, ?_⟩
    · simp only [build, mappings, hg]
      exact List.mem_append.mpr (Or.inl (by simp))
    · rw [mem_sortDedup]
      exact List.mem_map_of_mem (List.of_mem_zip heu).2

/-- amounts for the same (provider, class) are added up: each (provider, class) occurs once, with the sum of what the
groups place there, and nothing is in the request that no group places -/
theorem candidate_amounts_are_sums (db : DB R) (q : Query) (c : Candidate) (hc : IsCandidate db q c) :
    (c.alloc.map (·.1)).Nodup ∧
    ∃ ps us : List RpRow, ps.length = q.groups.length ∧ us.length = q.unsuffRes.length ∧
      (∀ x ∈ c.alloc, x.2 = amountAt (placements q ps us) x.1) ∧
      (∀ k, k ∈ c.alloc.map (·.1) ↔ k ∈ (placements q ps us).map (·.1)) := by
  obtain ⟨r, _, _, ps, us, hps, hus, _, _, rfl⟩ := hc
  exact ⟨(consolidate_sorted _).nodup_keys, ps, us, hps.length_eq.symm, hus.length_eq.symm,
    fun x hx => consolidate_entry hx, fun k => mem_consolidate_key _ k⟩

/-- per class the placed amounts sum to the total requested over all groups -/
theorem candidate_class_totals (db : DB R) (q : Query) (c : Candidate) (hc : IsCandidate db q c) (rc : Nat) :
    classTotal c.alloc rc = requestedTotal q rc := by
  obtain ⟨r, _, _, ps, us, hps, hus, _, _, rfl⟩ := hc
  simp only [build]
  unfold classTotal
  rw [sumBy_consolidate]
  have := classTotal_eq_of_classes (placements q ps us) rc
  unfold classTotal at this
  rw [this, placements_classes q ps us hps.length_eq hus.length_eq]
  rfl

/-- sent unchanged as the allocations of a new consumer, the request is accepted: for every database satisfying the
uniqueness constraints and referential integrity (C08), every query with amounts >= 1 and at least one resource, every
combination satisfying the request, every consumer uuid that does not exist, any project / user / consumer type, at
every microversion from 1.28 (dict form, `consumer_generation: null`) the model of `PUT /allocations/{u}` answers 204.
(No law about the capacity arithmetic is needed: the capacity test of the write is the one of the specification.) -/
theorem candidate_accepted (cfg : Config) (db : DB R) (hU : Uniq db) (hRI : RI db) (q : Query)
    (hq : ∀ e ∈ q.allRes, 1 ≤ e.2) (hres : q.allRes ≠ []) (c : Candidate) (hc : IsCandidate db q c)
    (u pj us : Nat) (ct : Option Nat) (hfresh : ∀ cons ∈ db.consumers, cons.uuid ≠ u) (mv : Nat) (hmv : 28 ≤ mv) :
    (step cfg db (.allocPut mv (putOf db u pj us ct c))).2 = r204 := by
  have hne : c.alloc ≠ [] := by
    intro hnil
    obtain ⟨r, _, _, ps, us', hps, hus, _, _, rfl⟩ := hc
    have hcls := placements_classes q ps us' hps.length_eq hus.length_eq
    cases hP : placements q ps us' with
    | nil => rw [hP] at hcls; exact hres hcls.symm
    | cons y ys =>
      have : y.1 ∈ (consolidate (placements q ps us')).map (·.1) :=
        (mem_consolidate_key _ _).mpr (by rw [hP]; simp)
      simp only [build] at hnil
      rw [hnil] at this
      cases this
  exact put_candidate_204 cfg db hU hRI q hq c hc hne u pj us ct hfresh mv hmv

/-! ### provider summaries -/

/-- every provider named in the allocations of a returned request has an entry -/
theorem summaries_cover (db : DB R) (q : Query) (cs : List Candidate) (hcs : ∀ c ∈ cs, IsCandidate db q c)
    (c : Candidate) (hc : c ∈ cs) (x : (Nat × Nat) × Int) (hx : x ∈ c.alloc) :
    ∃ s ∈ summaries db q cs, s.rp = x.1.1 := by
  obtain ⟨p, hp, hid⟩ := candidate_providers_exist db q c (hcs c hc) x hx
  have hnamed : (namedProviders cs).contains p.id = true := by
    rw [List.contains_iff_mem]
    unfold namedProviders
    rw [List.mem_flatMap]
    exact ⟨c, hc, by rw [hid]; exact List.mem_map_of_mem hx⟩
  refine ⟨summaryOf db q p, ?_, by simp [summaryOf, hid]⟩
  unfold summaries
  apply List.mem_map_of_mem
  unfold summarised
  split
  · exact List.mem_filter.mpr ⟨hp, hnamed⟩
  · refine List.mem_filter.mpr ⟨hp, ?_⟩
    rw [List.any_eq_true]
    exact ⟨p, hp, by rw [hnamed]; simp⟩

/-- every entry is the entry of a stored provider, and says what the tables say: per listed class
capacity = int((total - reserved) * allocation_ratio) and used = SUM(used) of an inventory row of that provider;
traits (from 1.17), parent and root (from 1.29) as stored -/
theorem summaries_agree (db : DB R) (q : Query) (cs : List Candidate) (s : Summary) (hs : s ∈ summaries db q cs) :
    ∃ p ∈ db.rps, s.rp = p.id ∧
      (∀ sr ∈ s.resources, ∃ i ∈ db.invs, i.rp = p.id ∧ i.rc = sr.rc ∧
          sr.capacity = CapOps.capTrunc (i.total - i.reserved) i.ratio ∧ sr.used = db.usage p.id i.rc) ∧
      (∀ i ∈ db.invs, i.rp = p.id → (q.mv ≥ 27 ∨ i.rc ∈ q.classes) → ∃ sr ∈ s.resources, sr.rc = i.rc) ∧
      (q.mv ≥ 17 → s.traits = some (db.traitsOf p.id)) ∧
      (q.mv ≥ 29 → s.parent = some p.parent ∧ s.root = some p.root) := by
  unfold summaries at hs
  obtain ⟨p, hp, rfl⟩ := List.mem_map.mp hs
  have hp' : p ∈ db.rps := by
    unfold summarised at hp
    split at hp <;> exact (List.mem_filter.mp hp).1
  refine ⟨p, hp', rfl, ?_, ?_, ?_, ?_⟩
  · intro sr hsr
    simp only [summaryOf] at hsr
    obtain ⟨i, hi, rfl⟩ := List.mem_map.mp hsr
    rw [List.mem_filter] at hi
    have hrp : i.rp = p.id := by
      have := hi.2
      simp only [Bool.and_eq_true, beq_iff_eq] at this
      exact this.1
    exact ⟨i, hi.1, hrp, rfl, rfl, by simp [summaryRes, hrp]⟩
  · intro i hi hrp hcls
    refine ⟨summaryRes db i, ?_, rfl⟩
    simp only [summaryOf]
    apply List.mem_map_of_mem
    rw [List.mem_filter]
    refine ⟨hi, ?_⟩
    simp only [Bool.and_eq_true, beq_iff_eq, Bool.or_eq_true, decide_eq_true_eq, List.contains_iff_mem]
    exact ⟨hrp, hcls⟩
  · intro h; simp [summaryOf, h]
  · intro h; simp [summaryOf, h]

/-! ### examples on `CandEx.db` -/

namespace C02Ex
open CandEx

def q2 : Query :=
  { shareT := 60, unsuff := some { suffix := 0, resources := [(0, 2)] },
    groups := [{ suffix := 1, resources := [(0, 2)] }], isolate := true, rootRequired := [70] }

/-- both groups on provider 2: the amounts add up to the 4 VCPU requested in total -/
def c : Candidate := { alloc := [((2, 0), 4)], maps := [(0, [2]), (1, [2])] }

example : IsCandidate db q2 c := by decide
example : classTotal c.alloc 0 = 4 ∧ requestedTotal q2 0 = 4 := by decide
/-- summaries of the tree of provider 2 (providers 1, 2, 3; all their classes at 1.39): capacity 12, 4 used on provider 2 -/
example : (summaries db q2 [c]).map (fun s => (s.rp, s.resources.map (fun r => (r.rc, r.capacity, r.used)))) =
    [(1, [(1, 0, 0), (2, 10, 0)]), (2, [(0, 12, 4)]), (3, [(0, 2, 0)])] := by decide
/-- below 1.27 only the requested class, below 1.29 (a tree exists) only the named provider, no parent / root -/
example : summaries db { q2 with mv := 26 } [c] =
    [{ rp := 2, resources := [{ rc := 0, capacity := 12, used := 4 }], traits := some [], parent := none, root := none }] := by
  decide

/-- the hypotheses of `candidate_accepted` hold of the example state -/
theorem uniq_db : Uniq db := by
  constructor <;> decide

theorem ri_db : RI db := by
  constructor <;> decide

def cfg : Config := { incompleteProject := 0, incompleteUser := 0 }

example : (step cfg db (.allocPut 39 (putOf db 501 7 8 none c))).2 = r204 :=
  candidate_accepted cfg db uniq_db ri_db q2 (by decide) (by decide) c (by decide) 501 7 8 none (by decide) 39 (by decide)

/-- the same by evaluation of the model, and what a larger request meets: 12 - 4 used = 8 is the last that fits -/
example : (step cfg db (.allocPut 39 (putOf db 501 7 8 none c))).2.status = 204 := by decide
example : (step cfg db (.allocPut 39 (putOf db 501 7 8 none { c with alloc := [((2, 0), 10)] }))).2.status = 409 := by decide

end C02Ex

end Placement.Spec
