import Placement.Lemmas.ReadsExample
import Placement.Spec.Inv
/-
  C11, read side.  The read functions of `Model/Reads.lean` are functions of the state, so "reads are
  pure" holds by construction.  The theorems below are the consistency facts the property names,
  about those read functions, for EVERY state (no reachability needed; where two views can only agree
  on well-formed tables the uniqueness / referential-integrity facts used are explicit hypotheses):

    * `usages_body_eq_sum_allocations`            GET …/usages  = Σ over consumers of their rows
    * `provider_allocations_view_eq_consumer_view` GET …/allocations and GET /allocations/{c} list the same triples
    * `total_usages_eq_sum_consumer_views`        GET /usages = Σ over the project's (user's) consumers of
                                                  what GET /allocations/{c} lists
    * `reported_generation_eq_stored`             every generation field is the stored row's
    * `provider_body_reports_root_and_parent_rows` root / parent uuids are those of the rows with the
                                                  stored root / parent ids
-/
namespace Placement.C11Reads
open Placement Placement.ReadsL

variable {R : Type}

/-! ### usages of a provider -/

/-- `SUM(used)` of a (provider, class) is the sum over the consumers of what each holds there -/
theorem usage_eq_sum_over_consumers (db : DB R) (rp rc : Nat) :
    db.usage rp rc = ((allocConsumers db).map (fun c => consumerAmount db c rp rc)).sum := by
  unfold DB.usage allocConsumers
  rw [sum_by_key (fun a : AllocRow => a.consumer) (·.used) ((db.allocs.map (·.consumer)).eraseDups)
    (nodup_eraseDups _) _ (fun a ha => by
      rw [List.mem_eraseDups]; exact List.mem_map_of_mem (List.mem_filter.mp ha).1)]
  apply sum_map_congr
  intro c _
  unfold consumerAmount
  rw [List.filter_filter]

/-- `GET /resource_providers/{u}/usages`: 200, and the reported pairs are exactly (class name,
`db.usage`) for the classes the provider has inventory of; `db.usage` is the sum over consumers. -/
theorem usages_body_eq_sum_allocations (mv : Nat) (db : DB R) (u : Nat) (v : RpView)
    (hp : provider db u = some v) :
    (getRpUsages mv db u).1 = r200 ∧
    (∀ n x, (n, x) ∈ usagesOf (getRpUsages mv db u).2 ↔
        ∃ rc ∈ invClasses db v.row.id, db.rcName rc = some n ∧ x = db.usage v.row.id rc) ∧
    (∀ rc, db.usage v.row.id rc = ((allocConsumers db).map (fun c => consumerAmount db c v.row.id rc)).sum) := by
  refine ⟨by simp [getRpUsages, hp], ?_, fun rc => usage_eq_sum_over_consumers db _ rc⟩
  intro n x
  simp only [getRpUsages, hp, usagesOf, Body.fld?, Body.get?, fields_obj]
  simp only [List.find?_cons, show (Key.fld Fld.resourceProviderGeneration == Key.fld Fld.usages) = false by decide,
    show (Key.fld Fld.usages == Key.fld Fld.usages) = true by decide, Option.map_some, Option.getD_some]
  rw [namedInts_filterMap (R := R) (invClasses db v.row.id) (fun rc => db.rcName rc) (fun rc => db.usage v.row.id rc)]
  simp only [List.mem_filterMap, Option.map_eq_some_iff, Prod.mk.injEq]
  constructor
  · rintro ⟨rc, hrc, m, hm, rfl, rfl⟩; exact ⟨rc, hrc, hm, rfl⟩
  · rintro ⟨rc, hrc, hm, rfl⟩; exact ⟨rc, hrc, n, hm, rfl, rfl⟩

/-- on the example state: provider 100 reports 2 + 3 of class 10 and 64 of class 12 -/
example : usagesOf (getRpUsages 39 Ex.db 100).2 = [(10, 5), (12, 64)] ∧
    allocConsumers Ex.db = [500, 501, 502] ∧
    (allocConsumers Ex.db).map (fun c => consumerAmount Ex.db c 1 0) = [2, 3, 0] := by decide
example := usages_body_eq_sum_allocations 39 Ex.db 100 Ex.v1 Ex.provider_100

/-! ### the two views of allocations -/

/-- For an existing provider `u` and any consumer `c` (any two microversions): `GET
/resource_providers/{u}/allocations` lists (c, class, amount) exactly when `GET /allocations/{c}`
lists (u, class, amount).  Uses only that provider ids and provider uuids are unique. -/
theorem provider_allocations_view_eq_consumer_view (mv mv' : Nat) (db : DB R) (u : Nat) (v : RpView)
    (hp : provider db u = some v)
    (hid : (db.rps.map (·.id)).Nodup) (huu : (db.rps.map (·.uuid)).Nodup) (c n : Nat) (x : Int) :
    (c, n, x) ∈ allocTriples (getRpAllocations mv db u).2 ↔
      (u, n, x) ∈ allocTriples (getAllocations mv' db c).2 := by
  rw [mem_allocTriples_rp mv db u v hp, mem_allocTriples_cons]
  obtain ⟨hrow, _⟩ := provider_some hp
  obtain ⟨hmem, hu⟩ := rpByUuid_mem hrow
  constructor
  · rintro ⟨a, ha, hrp, hac, hcs, hn, hx⟩
    exact ⟨a, ha, hac, ⟨v.row, by rw [hrp]; exact rpById_of_mem hid hmem, hu⟩, hcs, hn, hx⟩
  · rintro ⟨a, ha, hac, ⟨p, hpid, hpu⟩, hcs, hn, hx⟩
    obtain ⟨hpm, hpi⟩ := rpById_mem hpid
    have : p = v.row := eq_of_nodup_map (·.uuid) db.rps huu p hpm v.row hmem (by rw [hpu, hu])
    exact ⟨a, ha, by rw [← hpi, this], hac, hcs, hn, hx⟩

/-- the same with the uniqueness constraints of the schema as one hypothesis -/
theorem provider_allocations_view_eq_consumer_view_of_uniq (mv mv' : Nat) (db : DB R) (hU : Uniq db)
    (u : Nat) (v : RpView) (hp : provider db u = some v) (c n : Nat) (x : Int) :
    (c, n, x) ∈ allocTriples (getRpAllocations mv db u).2 ↔
      (u, n, x) ∈ allocTriples (getAllocations mv' db c).2 :=
  provider_allocations_view_eq_consumer_view mv mv' db u v hp hU.rpId hU.rpUuid c n x

/-- on the example state: the provider view of 100 and the consumer view of 500 -/
example : allocTriples (getRpAllocations 39 Ex.db 100).2 = [(500, 10, 2), (500, 12, 64), (501, 10, 3)] ∧
    allocTriples (getAllocations 12 Ex.db 500).2 = [(100, 10, 2), (100, 12, 64), (101, 10, 1)] := by decide
example : (100, 12, 64) ∈ allocTriples (getAllocations 12 Ex.db 500).2 :=
  (provider_allocations_view_eq_consumer_view_of_uniq 39 12 Ex.db Ex.uniq_db 100 Ex.v1 Ex.provider_100 500 12 64).mp
    (by decide)

/-! ### generations -/

/-- Every generation field of every read is the generation of the stored row:
the provider found for `u` is a stored row with that uuid, and its `gen` is what the six
per-provider routes report (where the microversion has the field); every element of the provider
listing, every provider entry of `GET /allocations/{c}` and every consumer entry of
`GET …/allocations` carries the generation of a stored row with that uuid; the consumer generation
of `GET /allocations/{c}` is that of the stored consumer `c`. -/
theorem reported_generation_eq_stored (mv : Nat) (db : DB R) :
    (∀ u v, provider db u = some v →
      v.row ∈ db.rps ∧ v.row.uuid = u ∧
      (getRp mv db u).2.fld? .generation = some (.int v.row.gen) ∧
      (getInventories mv db u).2.fld? .resourceProviderGeneration = some (.int v.row.gen) ∧
      (getRpUsages mv db u).2.fld? .resourceProviderGeneration = some (.int v.row.gen) ∧
      (getRpAllocations mv db u).2.fld? .resourceProviderGeneration = some (.int v.row.gen) ∧
      (6 ≤ mv → (getRpTraits mv db u).2.fld? .resourceProviderGeneration = some (.int v.row.gen)) ∧
      (19 ≤ mv → (getRpAggregates mv db u).2.fld? .resourceProviderGeneration = some (.int v.row.gen)) ∧
      (∀ rc g, (getInventory mv db u rc).2.fld? .resourceProviderGeneration = some g → g = .int v.row.gen)) ∧
    (∀ e ∈ ((listRps mv db).2.fld? .resourceProviders).getD .null |>.items,
      ∃ r ∈ db.rps, e.fld? .uuid = some (.name r.uuid) ∧ e.fld? .generation = some (.int r.gen)) ∧
    (∀ c e, e ∈ (((getAllocations mv db c).2.fld? .allocations).getD .null).named →
      ∃ r ∈ db.rps, r.uuid = e.1 ∧ e.2.fld? .generation = some (.int r.gen)) ∧
    (∀ c g, (getAllocations mv db c).2.fld? .consumerGeneration = some g →
      ∃ cr ∈ db.consumers, cr.uuid = c ∧ g = .int cr.gen) ∧
    (∀ u v, provider db u = some v → 28 ≤ mv →
      ∀ e ∈ (((getRpAllocations mv db u).2.fld? .allocations).getD .null).named,
        ∃ cr ∈ db.consumers, cr.uuid = e.1 ∧ e.2.fld? .consumerGeneration = some (.int cr.gen)) := by
  refine ⟨?_, ?_, ?_, ?_, ?_⟩
  · intro u v hp
    obtain ⟨hrow, _⟩ := provider_some hp
    obtain ⟨hmem, hu⟩ := rpByUuid_mem hrow
    refine ⟨hmem, hu, ?_, ?_, ?_, ?_, ?_, ?_, ?_⟩
    · simp [getRp, hp, providerBody, Body.fld?, Body.get?]
    · simp [getInventories, hp, Body.fld?, Body.get?]
    · simp [getRpUsages, hp, Body.fld?, Body.get?]
    · simp [getRpAllocations, hp, Body.fld?, Body.get?]
    · intro h6
      have : ¬ mv < 6 := by omega
      simp [getRpTraits, hp, this, Body.fld?, Body.get?]
    · intro h19
      have h1 : ¬ mv < 1 := by omega
      simp [getRpAggregates, hp, h1, h19, Body.fld?, Body.get?]
    · intro rc g
      simp only [getInventory, hp]
      cases hf : (invsOf db v.row.id).find? (fun i => db.rcName i.rc == some rc) with
      | none => simp [r404body, Body.fld?, Body.get?]
      | some i =>
        by_cases hg : v.row.gen = 0
        · simp [hg, invFields, Body.fld?, Body.get?]
        · simp [hg, invFields, Body.fld?, Body.get?]
          intro h; exact h.symm
  · intro e he
    simp only [listRps, fld?_cons_self, Option.getD_some, items_arr, List.mem_map, List.mem_filterMap] at he
    obtain ⟨v, ⟨r, hr, hv⟩, rfl⟩ := he
    have : v.row = r := by
      unfold rpView at hv
      cases hroot : db.rpById r.root with
      | none => simp [hroot] at hv
      | some root => simp only [hroot, Option.some.injEq] at hv; rw [← hv]
    exact ⟨r, hr, by simp [providerBody, Body.fld?, Body.get?, this], by simp [providerBody, Body.fld?, Body.get?, this]⟩
  · intro c e he
    simp only [getAllocations, List.cons_append, List.nil_append, fld?_cons_self, Option.getD_some] at he
    rw [named_map] at he
    simp only [List.mem_map, List.mem_eraseDups] at he
    obtain ⟨p, ⟨⟨a, p', cr⟩, hrow, rfl⟩, rfl⟩ := he
    obtain ⟨_, _, hp, _⟩ := mem_consAllocRows.mp hrow
    exact ⟨p', (rpById_mem hp).1, rfl, by simp [Body.fld?, Body.get?]⟩
  · intro c g hg
    simp only [getAllocations, List.cons_append, List.nil_append] at hg
    rw [fld?_cons_ne _ _ _ _ (by decide)] at hg
    cases hh : (consAllocRows db c).head? with
    | none => simp [hh, Body.fld?, Body.get?] at hg
    | some t =>
      obtain ⟨a, p, cr⟩ := t
      have hmem : (a, p, cr) ∈ consAllocRows db c := List.mem_of_head? hh
      obtain ⟨_, _, _, hc⟩ := mem_consAllocRows.mp hmem
      obtain ⟨hcm, hcu⟩ := consByUuid_mem hc
      refine ⟨cr, hcm, hcu, ?_⟩
      by_cases h12 : mv ≥ 12
      · by_cases h28 : mv ≥ 28
        · simp [hh, h12, h28, Body.fld?, Body.get?] at hg
          exact hg.symm
        · by_cases h38 : mv ≥ 38
          · omega
          · simp [hh, h12, h28, h38, Body.fld?, Body.get?] at hg
      · simp [hh, h12, Body.fld?, Body.get?] at hg
  · intro u v hp h28 e he
    simp only [getRpAllocations, hp, fld?_cons_self, Option.getD_some] at he
    rw [named_map] at he
    simp only [List.mem_map, List.mem_eraseDups] at he
    obtain ⟨cr, ⟨⟨a, cr'⟩, hrow, rfl⟩, rfl⟩ := he
    obtain ⟨_, _, hc⟩ := mem_rpAllocRows.mp hrow
    obtain ⟨hcm, _⟩ := consByUuid_mem hc
    exact ⟨cr', hcm, rfl, by simp [h28, Body.fld?, Body.get?]⟩

/-- on the example state: generations 4 / 7 of the providers, 2 of consumer 500 -/
example : ((getRp 39 Ex.db 100).2.fld? .generation).bind Body.int? = some 4 ∧
    ((getInventory 39 Ex.db 101 10).2.fld? .resourceProviderGeneration).bind Body.int? = some 7 ∧
    ((getAllocations 28 Ex.db 500).2.fld? .consumerGeneration).bind Body.int? = some 2 ∧
    ((getAllocations 27 Ex.db 500).2.fld? .consumerGeneration).bind Body.int? = none := by decide
example := (reported_generation_eq_stored 28 Ex.db).1 101 Ex.v2 Ex.provider_101

/-! ### root and parent -/

/-- From 1.14 the provider body reports the uuid of the stored row whose id is the stored `root`
(no such row: the inner join finds nothing, 404), and as parent the uuid of the stored row whose id
is the stored `parent` (`null` without parent); the same for every element of the listing. -/
theorem provider_body_reports_root_and_parent_rows (mv : Nat) (h14 : 14 ≤ mv) (db : DB R) :
    (∀ u p, db.rpByUuid u = some p →
      (db.rpById p.root = none → (getRp (R := R) mv db u).1 = r404) ∧
      (∀ root, db.rpById p.root = some root →
        root ∈ db.rps ∧ root.id = p.root ∧ (getRp (R := R) mv db u).1 = r200 ∧
        (getRp mv db u).2.fld? .rootProviderUuid = some (.name root.uuid) ∧
        (p.parent = none → (getRp mv db u).2.fld? .parentProviderUuid = some .null) ∧
        (∀ pid q, p.parent = some pid → db.rpById pid = some q →
          q ∈ db.rps ∧ q.id = pid ∧ (getRp mv db u).2.fld? .parentProviderUuid = some (.name q.uuid)))) ∧
    (∀ e ∈ ((listRps mv db).2.fld? .resourceProviders).getD .null |>.items,
      ∃ p ∈ db.rps, ∃ root ∈ db.rps, root.id = p.root ∧
        e.fld? .uuid = some (.name p.uuid) ∧ e.fld? .rootProviderUuid = some (.name root.uuid) ∧
        (p.parent = none → e.fld? .parentProviderUuid = some .null) ∧
        (∀ pid q, p.parent = some pid → db.rpById pid = some q →
          q ∈ db.rps ∧ q.id = pid ∧ e.fld? .parentProviderUuid = some (.name q.uuid))) := by
  have hge : mv ≥ 14 := h14
  have body : ∀ (p root : RpRow), db.rpById p.root = some root →
      ∀ b : Body R, b = providerBody mv (viewOf db p root) →
      b.fld? .uuid = some (.name p.uuid) ∧ b.fld? .rootProviderUuid = some (.name root.uuid) ∧
      (p.parent = none → b.fld? .parentProviderUuid = some .null) ∧
      (∀ pid q, p.parent = some pid → db.rpById pid = some q →
          q ∈ db.rps ∧ q.id = pid ∧ b.fld? .parentProviderUuid = some (.name q.uuid)) := by
    intro p root _ b hb
    subst hb
    unfold viewOf
    refine ⟨by simp [providerBody, Body.fld?, Body.get?], by simp [providerBody, hge, Body.fld?, Body.get?], ?_, ?_⟩
    · intro hn; simp [providerBody, hge, hn, Body.fld?, Body.get?]
    · intro pid q hpar hq
      exact ⟨(rpById_mem hq).1, (rpById_mem hq).2, by simp [providerBody, hge, hpar, hq, Body.fld?, Body.get?]⟩
  constructor
  · intro u p hp
    constructor
    · intro hnone; simp [getRp, provider, hp, rpView, hnone, r404body]
    · intro root hroot
      have hprov : provider db u = some (viewOf db p root) := by
        simp [provider, hp, rpView, hroot, viewOf]
      obtain ⟨_, h2, h3, h4⟩ := body p root hroot _ rfl
      refine ⟨(rpById_mem hroot).1, (rpById_mem hroot).2, by simp [getRp, hprov], ?_, ?_, ?_⟩
      · simpa [getRp, hprov] using h2
      · simpa [getRp, hprov] using h3
      · simpa [getRp, hprov] using h4
  · intro e he
    simp only [listRps, fld?_cons_self, Option.getD_some, items_arr, List.mem_map, List.mem_filterMap] at he
    obtain ⟨v, ⟨p, hpm, hv⟩, rfl⟩ := he
    unfold rpView at hv
    cases hroot : db.rpById p.root with
    | none => simp [hroot] at hv
    | some root =>
      simp only [hroot, Option.some.injEq] at hv
      obtain ⟨h1, h2, h3, h4⟩ := body p root hroot (providerBody mv v) (by rw [← hv]; rfl)
      exact ⟨p, hpm, root, (rpById_mem hroot).1, (rpById_mem hroot).2, h1, h2, h3, h4⟩

/-- on the example state: the child 101 reports root 100 and parent 100; nothing of it below 1.14 -/
example : ((getRp 14 Ex.db 101).2.fld? .rootProviderUuid).bind Body.name? = some 100 ∧
    ((getRp 14 Ex.db 101).2.fld? .parentProviderUuid).bind Body.name? = some 100 ∧
    ((getRp 13 Ex.db 101).2.fld? .rootProviderUuid).bind Body.name? = none := by decide
example := (provider_body_reports_root_and_parent_rows 14 (by decide) Ex.db).1 101 Ex.v2.row (by decide)

/-! ### usage totals -/

/-- `countedConsumers` has no duplicates and consists exactly of the consumers of the project (user,
type) that hold allocations, so its length is their number -/
theorem countedConsumers_spec (db : DB R) (project : Nat) (user : Option Nat) (tp : Option Nat → Bool) :
    (countedConsumers db project user tp).Nodup ∧
    ∀ u, u ∈ countedConsumers db project user tp ↔
      ∃ c ∈ consumersOfT db project user tp, db.consByUuid u = some c ∧ ∃ a ∈ db.allocs, a.consumer = u :=
  ⟨nodup_eraseDups _, mem_counted db project user tp⟩

/-- `GET /usages?project_id=P[&user_id=U]` below 1.38: 200, and the amount reported for a class is the
sum, over the consumers of the project (and user), of what `GET /allocations/{c}` reports for that
class (summed over the providers it lists).  Needs the uniqueness constraints (a consumer uuid /
a class name identifies one row) and referential integrity (an allocation's provider exists,
otherwise the per-consumer listing, which joins providers, would omit it). -/
theorem total_usages_eq_sum_consumer_views (mv : Nat) (h9 : 9 ≤ mv) (h38 : mv < 38) (db : DB R)
    (hU : Uniq db) (hRI : RI db) (project : Nat) (user : Option Nat) :
    (getUsages mv db { project := some project, user := user }).1 = r200 ∧
    ∀ n x, (n, x) ∈ usagesOf (getUsages mv db { project := some project, user := user }).2 →
      x = ((consumersOf db project user).map (fun c => consumerViewAmount db c.uuid n)).sum := by
  have h9' : ¬ mv < 9 := by omega
  constructor
  · simp [getUsages, h9', h38]
  · intro n x h
    have e : ((none : Option CtFilter) == some CtFilter.invalid) = false := by decide
    simp only [getUsages, h9', h38, usagesOf] at h
    simp only [e, Option.isSome_none, Bool.and_false, Bool.or_false, Bool.false_eq_true, if_false] at h
    exact mem_sumByClass db hU hRI project user (fun _ => true) n x h

/-- From 1.38 (no `consumer_type` parameter): every group is keyed by a consumer type (`unknown` for
NULL); the amount it reports for a class is the sum of the per-consumer listings over the consumers
of that project (user) AND type, and its `consumer_count` is the number of those consumers that hold
allocations (`countedConsumers_spec`). -/
theorem total_usages_by_type_eq_sum_consumer_views (mv : Nat) (h38 : 38 ≤ mv) (db : DB R)
    (hU : Uniq db) (hRI : RI db) (project : Nat) (user : Option Nat) :
    (getUsages mv db { project := some project, user := user }).1 = r200 ∧
    ∀ k g, (k, g) ∈ usageGroupsOf (getUsages mv db { project := some project, user := user }).2 →
      ∃ t : Option Nat, k = ctypeKey t ∧
        (∀ n x, (n, x) ∈ g.namedInts →
          x = ((consumersOfT db project user (fun t' => t' == t)).map (fun c => consumerViewAmount db c.uuid n)).sum) ∧
        g.fld? .consumerCount = some (.int (countedConsumers db project user (fun t' => t' == t)).length) := by
  have h9' : ¬ mv < 9 := by omega
  have h38' : ¬ mv < 38 := by omega
  constructor
  · simp [getUsages, h9', h38']
  · intro k g h
    have e : ((none : Option CtFilter) == some CtFilter.invalid) = false := by decide
    simp only [getUsages, h9', h38', usageGroupsOf] at h
    simp only [e, Option.isSome_none, Bool.and_false, Bool.or_false, decide_false,
      Bool.false_eq_true, if_false, fld?_cons_self, Option.getD_some,
      fields_obj, List.mem_flatMap] at h
    obtain ⟨t, _, hg⟩ := h
    rw [totalRows_filter_type] at hg
    obtain ⟨rfl, hints, hcount⟩ := mem_usageGroup db _ _ k g hg
    refine ⟨t, rfl, ?_, hcount⟩
    intro n x hx
    rw [hints] at hx
    exact mem_sumByClass db hU hRI project user _ n x hx

/-- From 1.38 with `consumer_type=all`: one group `all` over the consumers of every type. -/
theorem total_usages_all_eq_sum_consumer_views (mv : Nat) (h38 : 38 ≤ mv) (db : DB R)
    (hU : Uniq db) (hRI : RI db) (project : Nat) (user : Option Nat) :
    ∀ k g, (k, g) ∈ usageGroupsOf (getUsages mv db { project := some project, user := user, ctype := some .all }).2 →
      k = .fld .all ∧
      (∀ n x, (n, x) ∈ g.namedInts →
        x = ((consumersOf db project user).map (fun c => consumerViewAmount db c.uuid n)).sum) ∧
      g.fld? .consumerCount = some (.int (countedConsumers db project user (fun _ => true)).length) := by
  have h9' : ¬ mv < 9 := by omega
  have h38' : ¬ mv < 38 := by omega
  intro k g h
  simp only [getUsages, h9', h38', usageGroupsOf] at h
  simp at h
  obtain ⟨rfl, hints, hcount⟩ := mem_usageGroup db _ _ k g h
  refine ⟨rfl, ?_, hcount⟩
  intro n x hx
  rw [hints] at hx
  exact mem_sumByClass db hU hRI project user _ n x hx

/-- on the example state: project 7 holds 2 + 1 + 3 of class 10 and 64 of class 12; by type: consumer
500 (type 30) and consumer 501 (no type); user 9 alone holds 3 -/
example : usagesOf (getUsages 20 Ex.db { project := some 7 }).2 = [(10, 6), (12, 64)] ∧
    (consumersOf Ex.db 7 none).map (fun c => consumerViewAmount Ex.db c.uuid 10) = [3, 3] ∧
    usagesOf (getUsages 37 Ex.db { project := some 7, user := some 9 }).2 = [(10, 3)] ∧
    (usageGroupsOf (getUsages 38 Ex.db { project := some 7 }).2).map
        (fun kg => (kg.1, kg.2.namedInts, (kg.2.fld? .consumerCount).bind Body.int?))
      = [(.nm 30, [(10, 3), (12, 64)], some 1), (.fld .unknown, [(10, 3)], some 1)] ∧
    (usageGroupsOf (getUsages 39 Ex.db { project := some 7, ctype := some .all }).2).map
        (fun kg => (kg.1, kg.2.namedInts, (kg.2.fld? .consumerCount).bind Body.int?))
      = [(.fld .all, [(10, 6), (12, 64)], some 2)] := by decide
example := total_usages_eq_sum_consumer_views 20 (by decide) (by decide) Ex.db Ex.uniq_db Ex.ri_db 7 none
example := total_usages_by_type_eq_sum_consumer_views 38 (by decide) Ex.db Ex.uniq_db Ex.ri_db 7 (some 8)
example := total_usages_all_eq_sum_consumer_views 39 (by decide) Ex.db Ex.uniq_db Ex.ri_db 7 none
example : countedConsumers Ex.db 7 none (fun _ => true) = [500, 501] := by decide

end Placement.C11Reads
