import Placement.Lemmas.MergeSpec
/-
  C03, the merge stage of the code against the request-wide conditions of the specification.

  `Model/Merge.lean` is the code's `_merge_candidates` (compared call by call with the real function, harness/mergetap.py);
  `Spec/Candidates.lean` is the statement of the property (`Joint`, items 5 - 8, and `build`, item 4).  For a combination
  of the shape the per-group searches hand to the merge stage (`MergeSpec.specCombo`: one request per group, a suffixed
  group entirely on one provider):

  * `filters_are_items_5_and_6`   the combination passes `_satisfies_group_policy` and `_satisfies_same_subtree`
                                  ⇔ items 5 (isolate) and 6 (same_subtree) of `Spec.Joint` hold for the chosen providers
  * `amounts_are_item_4`          the (provider, class, amount) triples `_consolidate_allocation_requests` returns are
                                  exactly `Spec.consolidate (Spec.placements …)`, the `alloc` of `Spec.build`; no object
                                  that existed before is touched (copy rule of the tree, generated)
  * `mappings_are_item_4`         the mappings `_consolidate_allocation_requests` merges are `Spec.build`'s `maps`
  * `capacity_is_item_7`          `exceeds_capacity` against a provider summary = `Spec.limitOk`'s comparison

  What is NOT proved here (partial): that the per-group searches deliver exactly the providers satisfying `GroupSat` /
  `EntrySat` (the SQL of `research_context` / `rp_candidates`; covered by the correspondence of C03 only), and the
  order-dependent set semantics of `areqs` for requests that alias objects (modelled and compared, no theorem).
-/
namespace Placement.Props.C03Merge
open Placement Placement.Spec Placement.Merge Placement.MergeSpec

theorem filters_are_items_5_and_6 {R : Type} (db : DB R) (ctx : Ctx) (anchor : Nat) (q : Query) (ps us : List RpRow)
    (idsU : List Nat) (idsG : List (List Nat)) (h1 : q.groups.length = ps.length) (h2 : idsG.length = ps.length)
    (hnum : ctx.numGranular = q.groups.length) (hiso : ctx.isolate = q.isolate)
    (hpar : ctx.parents = parentsOf db) (hss : ctx.sameSubtrees = q.sameSubtree)
    (hs : ∀ s ∈ q.sameSubtree, ∀ g, q.unsuff = some g → s.contains g.suffix = false) :
    (Merge.groupPolicyOk ctx (specCombo anchor q ps us idsU idsG) = true ∧
     Merge.sameSubtreeOk ctx (specCombo anchor q ps us idsU idsG) = true) ↔
    ((q.isolate = true → (ps.map (·.id)).Nodup) ∧
     (∀ s ∈ q.sameSubtree, ∃ a ∈ Spec.subtreeProviders q s ps, ∀ b ∈ Spec.subtreeProviders q s ps, isAncOrSelf db a b)) := by
  rw [groupPolicy_iff ctx anchor q ps us idsU idsG h1 h2 hnum hiso,
    sameSubtree_iff db ctx anchor q ps us idsU idsG h1 h2 hpar hss hs]

theorem amounts_are_item_4 (ctx : Ctx) (st : Store) (q : Query) (ps us : List RpRow)
    (hmulti : ∀ k, 2 ≤ ((placements q ps us).map (·.1)).count k → ctx.multiRcs.contains k.2 = true) :
    let l := placements q ps us
    let r := consolidateArrs ctx (st ++ l.map toArr) [] (List.range' st.length l.length)
    (∀ n, n < st.length + l.length → getArr r.1 n = getArr (st ++ l.map toArr) n) ∧
    (∀ k n, (∃ e ∈ r.2, e.1 = k ∧ (getArr r.1 e.2).amount = n) ↔ (k, n) ∈ (build q ps us).alloc) :=
  consolidate_is_spec ctx st (placements q ps us) hmulti

/-- the same for a whole combination as `_merge_candidates` meets it: the per-group requests (`specCombo`) refer to
fresh objects holding their placements, the unsuffixed group's first (the order of `candidates`); consolidating the
combination yields exactly the entries of `(build q ps us).alloc`, whatever the order of the groups -/
theorem amounts_of_combination_are_item_4 (ctx : Ctx) (st : Store) (anchor : Nat) (q : Query) (ps us : List RpRow)
    (h1 : q.groups.length = ps.length)
    (hmulti : ∀ k, 2 ≤ ((placements q ps us).map (·.1)).count k → ctx.multiRcs.contains k.2 = true) :
    let lU := unsuffPlacements q us
    let lG := groupPlacements q ps
    let st0 := st ++ (lU ++ lG).map toArr
    let combo := specCombo anchor q ps us (List.range' st.length lU.length)
      (idsOfGroups (st.length + lU.length) q.groups)
    let r := consolidateArrs ctx st0 [] (combo.flatMap (·.arrs))
    (∀ n, n < st0.length → getArr r.1 n = getArr st0 n) ∧
    (∀ k n, (∃ e ∈ r.2, e.1 = k ∧ (getArr r.1 e.2).amount = n) ↔ (k, n) ∈ (build q ps us).alloc) :=
  consolidate_specCombo_is_build ctx st anchor q ps us h1 hmulti

/-- ... and the mappings of the merged request are `Spec.build`'s mappings (suffixes are the names of the request
groups: pairwise distinct) -/
theorem mappings_are_item_4 (anchor : Nat) (q : Query) (ps us : List RpRow) (idsU : List Nat) (idsG : List (List Nat))
    (h1 : q.groups.length = ps.length) (h2 : idsG.length = ps.length)
    (hs : ((match q.unsuff with | some g => [g.suffix] | none => []) ++ q.groups.map (·.suffix)).Nodup) :
    mergeMappings (specCombo anchor q ps us idsU idsG) = (build q ps us).maps :=
  mergeMappings_is_spec anchor q ps us idsU idsG h1 h2 hs

/-- **soundness of the merge stage on one combination**: whatever `_merge_candidates` adds to its result for a
spec-shaped combination satisfies items 5 and 6 of the specification and carries the specification's mappings -/
theorem accepted_combination_is_joint {R : Type} (db : DB R) (ctx : Ctx) (anchor : Nat) (q : Query) (ps us : List RpRow)
    (idsU : List Nat) (idsG : List (List Nat)) (st : Store) (h1 : q.groups.length = ps.length) (h2 : idsG.length = ps.length)
    (hnum : ctx.numGranular = q.groups.length) (hiso : ctx.isolate = q.isolate)
    (hpar : ctx.parents = parentsOf db) (hss : ctx.sameSubtrees = q.sameSubtree)
    (hs : ∀ s ∈ q.sameSubtree, ∀ g, q.unsuff = some g → s.contains g.suffix = false)
    (hsfx : ((match q.unsuff with | some g => [g.suffix] | none => []) ++ q.groups.map (·.suffix)).Nodup)
    (e : Entry) (he : e ∈ (mergeCombos ctx st [] [specCombo anchor q ps us idsU idsG]).2) :
    (q.isolate = true → (ps.map (·.id)).Nodup) ∧
    (∀ s ∈ q.sameSubtree, ∃ a ∈ Spec.subtreeProviders q s ps, ∀ b ∈ Spec.subtreeProviders q s ps, isAncOrSelf db a b) ∧
    e.areq.maps = (build q ps us).maps := by
  rcases Placement.Props.C02Merge.mergeCombos_only_adds_checked ctx _ st [] e he with h | ⟨combo, hc, st0, hg, hsub, hea, _⟩
  · cases h
  · rw [List.mem_singleton.mp hc] at hg hsub hea
    have h56 := (filters_are_items_5_and_6 db ctx anchor q ps us idsU idsG h1 h2 hnum hiso hpar hss hs).mp ⟨hg, hsub⟩
    refine ⟨h56.1, h56.2, ?_⟩
    rw [hea]
    show mergeMappings (specCombo anchor q ps us idsU idsG) = _
    exact mappings_are_item_4 anchor q ps us idsU idsG h1 h2 hsfx

theorem capacity_is_item_7 {R : Type} [LawfulCapOps R] (a : Int) (r : R) (used amount maxUnit : Int)
    (hnn : CapOps.capLt a r 0 = false) :
    Gen.summaryExceeded used amount (CapOps.capTrunc a r) maxUnit = false ↔
      (CapOps.capLt a r (used + amount) = false ∧ amount ≤ maxUnit) :=
  summary_ok_iff a r used amount maxUnit hnn

/-- the capacity filter on a whole merged request: it passes `exceeds_capacity` iff every entry meets `Spec.limitOk`,
when the provider summaries were built from the inventories (`LimitsFrom`) -/
theorem capacity_filter_is_item_7 {R : Type} [LawfulCapOps R] (db : DB R) (ctx : Ctx) (st : Store) (a : Areq)
    (hlim : ∀ i ∈ a.arrs, LimitsFrom db ctx ((getArr st i).rp, (getArr st i).rc)) :
    exceeds ctx st a = false ↔
      ∀ i ∈ a.arrs, limitOk db (((getArr st i).rp, (getArr st i).rc), (getArr st i).amount) :=
  exceeds_iff_limitOk db ctx st a hlim

/-! non-vacuity: a query with two suffixed groups asking the same class, both placed on provider 7 (not isolate);
the code's consolidation returns the single entry ((7, 0), 3) = 1 + 2 -/
def exQ : Query := { shareT := 0, groups := [{ suffix := 1, resources := [(0, 1)] }, { suffix := 2, resources := [(0, 2)] }] }
def exP : RpRow := { id := 7, uuid := 7, name := 7, gen := 0, parent := none, root := 7 }
def exCtx : Ctx := { policyNone := true, isolate := false, multiRcs := [0], numGranular := 2, sameSubtrees := [],
                     parents := [(7, none)], limits := [] }

example : (build exQ [exP, exP] []).alloc = [((7, 0), 3)] := by decide
example : ((consolidateArrs exCtx ((placements exQ [exP, exP] []).map toArr) [] [0, 1]).2.map
    (fun e => (e.1, (getArr (consolidateArrs exCtx ((placements exQ [exP, exP] []).map toArr) [] [0, 1]).1 e.2).amount)))
    = [((7, 0), 3)] := by decide
example : Merge.groupPolicyOk exCtx (specCombo 7 exQ [exP, exP] [] [] [[0], [1]]) = true := by decide
example : mergeMappings (specCombo 7 exQ [exP, exP] [] [] [[0], [1]]) = [(1, [7]), (2, [7])] := by decide
example : Merge.groupPolicyOk { exCtx with isolate := true, policyNone := false }
    (specCombo 7 exQ [exP, exP] [] [] [[0], [1]]) = false := by decide

end Placement.Props.C03Merge
