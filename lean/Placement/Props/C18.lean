/-
  C18  A crash at any point leaves a state satisfying the core invariants.

  "If the service process dies at any point while handling any request - the database rolling back
  the transaction in flight - the surviving state satisfies capacity safety (C01), referential
  integrity (C08) and the forest property (C09), and every multi-provider or multi-consumer
  allocation write, inventory/trait/aggregate replacement and reshape is either wholly present or
  wholly absent. The only partial effects a crash can leave are auxiliary records: a project, user
  or consumer type, or a consumer without allocations."

  Model.  `prog cfg op` (Model/Txn.lean) is the request as a sequence of database transactions (validated
  against the real application by crashing the real request at every SQL statement: the surviving tables
  equal `Prog.runWrites j (prog cfg op)` for the number `j` of completed writer transactions).
  `Prog.runPrefix k p db` runs the first `k` transactions and stops.  A crash INSIDE a transaction is
  rolled back by the database, so the surviving state is the state before that transaction - a
  `runPrefix` state again; that is how `runPrefix` is defined, there is no separate "crash inside"
  case.  `Prog.runWrites fuel j p db` is a `runPrefix` state (`runWrites_is_prefix`), so every theorem
  below about all `runPrefix k` holds for all `runWrites fuel j`.

  What is proved (all for EVERY request `op` - 21 kinds, every microversion, every configuration - with
  `OpWF op` (JSON-object/schema facts: consumer uuids of one body distinct, (provider, class) pairs of
  one entry distinct, amounts >= 1), EVERY start state satisfying the invariants, EVERY crash point `k`):

  * `CrashInv db` = `Uniq db ∧ RI db ∧ AllocPos db ∧ Forest db ∧ Roots db` (C08's `RI` as it stands: it
    does not forbid a consumer without allocations; `ConsIff` of C12 is deliberately NOT part of it).
  * `prefix_CrashInv`, `writes_CrashInv`                  CrashInv survives every crash.
  * `every_txn_preserves_CrashInv`                        the same as a statement about every transaction
        along the path of the request (`Crash.Path`, Hoare-style: each transaction may rely on what the
        earlier transactions of the same request established).
  * `every_txn_preserves_hierarchy`                       `Sched.All`: each transaction run on ANY state
        keeps `Ids ∧ Forest ∧ Roots` (so C09 survives crashes under every interleaving with other requests).
  * `every_txn_preserves_CrashInv_all_false`              the `Sched.All` form ("each transaction on any
        state") is FALSE for `CrashInv` (the consumer-creating transaction of PUT /allocations relies
        on the project recorded by an earlier transaction of the same request): this is why the
        statement is path-based.
  * `completed_CrashInv`                                  ... and so does the completed request.
  * `main_write_single_txn`                               at every crash point the state is the start state
        plus auxiliary records only (`AuxOnly`), or the request has finished.
  * `wholly_present_or_absent`, `..._core`                hence every crash state is `AuxOnly` the start
        state or IS the state of the completed request; on the projection `heldCore` (providers,
        inventories, allocations, provider traits and aggregates, classes, traits, and the consumers
        that hold allocations) it equals the start state or the completed request.  This covers the
        multi-provider / multi-consumer allocation writes, reshape, and the inventory / trait /
        aggregate replacements.
  * `residue_is_auxiliary`                                `AuxOnly` spelled out: only `projects`, `users`,
        `ctypes` (extended at the end), `nextCons`, and appended consumer rows with fresh ids that hold
        no allocation differ.
  * `prefix_no_new_overcommit`                            capacity safety: a (provider, class) pair
        over-committed in a crash state was over-committed before the request or is over-committed after
        the completed request (C01 then says when that can be: only by an inventory change); the
        inventories and allocations of a crash state are those of one of these two states.

  Choice made for "capacity safety (C01)": C01 is not a state invariant (inventory changes may
  over-commit), so it is stated as "no crash state has other inventories / allocations than the state
  before or after the completed request".

  Hypotheses / not covered:
  * "the completed request" is `Prog.runSeq fuel (prog cfg op) db = (db', some r)` for some fuel (a hypothesis
    of the theorems that mention it; satisfiable, see the examples; the driver uses fuel 500).  Termination
    of `prog` for every request is not proved here, and the agreement of the completed transaction program
    with the one-step handler model `step` is proved in Lean only for the guarded two-transaction writes
    (`Sched.guardedUpdate_runSeq`); for the allocation writes it is checked by the correspondence harness.
  * One request crashing while it runs ALONE.  With other requests interleaved only the hierarchy part is
    claimed (`every_txn_preserves_hierarchy`); `RI` can really be broken by interleavings (known finding I:
    the race loser's clean-up deletes a consumer row that meanwhile holds allocations), independent of crashes.
  * A crash inside a transaction = the prefix before it (database rollback): this is the definition of
    `runPrefix` / `runWrites`, validated on the real code by the crash-injection harness, not a theorem.

  Helper lemmas: `Placement/Lemmas/Crash*.lean` (`Crash.Path`, `Crash.AuxOnly`, `Crash.G`, `Crash.Ph`, `Crash.prog_path`,
  `Crash.replaceAll_wfi` - `replace_all` with the partial effects of failed attempts keeps the invariants).
-/
import Placement.Lemmas.CrashOther
import Placement.Lemmas.WfExample

namespace Placement.Props.C18
open Placement Placement.Wf Placement.Sched Placement.Crash Placement.Core Placement.Hier Placement.Gens

variable {R : Type} [CapOps R]

/-! ## the invariants that must survive a crash -/

/-- uniqueness constraints, referential integrity (C08; a consumer without allocations is allowed),
positive amounts, forest and root pointers (C09) -/
structure CrashInv (db : DB R) : Prop where
  uniq : Uniq db
  ri : RI db
  pos : AllocPos db
  forest : Forest db
  roots : Roots db

omit [CapOps R] in
theorem crashInv_wfi {db : DB R} (h : CrashInv db) : WFI db := wfi_of h.uniq h.ri h.pos
omit [CapOps R] in
theorem crashInv_hinv {db : DB R} (h : CrashInv db) : HInv db := ⟨ids_of_uniq h.uniq, h.forest, h.roots⟩
omit [CapOps R] in
theorem crashInv_of {db : DB R} (w : WFI db) (h : HInv db) : CrashInv db :=
  ⟨w.toUniq, w.ri, w.pos, h.forest, h.roots⟩

/-! ## every transaction keeps them -/

/-- **every transaction of every request**, along the path of the request started on a state
satisfying `CrashInv`, leaves a state satisfying `CrashInv` -/
theorem every_txn_preserves_CrashInv (cfg : Config) {db : DB R} (h : CrashInv db) (op : Op R) (hwf : OpWF op) :
    Path (fun s _ => CrashInv s) (fun s => s = db) (prog cfg op) := by
  have h1 := (prog_path (crashInv_wfi h) cfg op hwf).and_all (I := HInv) (fun s s' q hi => q hi) (prog_hinv_all cfg op)
  exact (h1.mono (fun s q ⟨g, hi⟩ => crashInv_of g.1 hi)).weaken (fun s e => ⟨e, e ▸ crashInv_hinv h⟩)

/-- the hierarchy part holds for each transaction by itself, on any state (every interleaving) -/
theorem every_txn_preserves_hierarchy (cfg : Config) (op : Op R) :
    All (fun s s' : DB R => HInv s → HInv s') (prog cfg op) := prog_hinv_all cfg op

/-- **a crash after any number of transactions** (equivalently: inside the next one) leaves `CrashInv` -/
theorem prefix_CrashInv (cfg : Config) {db : DB R} (h : CrashInv db) (op : Op R) (hwf : OpWF op) (k : Nat) :
    CrashInv (Prog.runPrefix k (prog cfg op) db).1 :=
  (every_txn_preserves_CrashInv cfg h op hwf).runPrefix k db rfl h

omit [CapOps R] in
/-- "`j` writer transactions committed, the next one did not" is a prefix state -/
theorem runWrites_is_prefix (fuel j : Nat) (p : P R) (db : DB R) :
    ∃ k, Prog.runWrites fuel j p db = Prog.runPrefix k p db := runWrites_eq_runPrefix fuel j p db

theorem writes_CrashInv (cfg : Config) {db : DB R} (h : CrashInv db) (op : Op R) (hwf : OpWF op) (fuel j : Nat) :
    CrashInv (Prog.runWrites fuel j (prog cfg op) db).1 := by
  obtain ⟨k, hk⟩ := runWrites_eq_runPrefix fuel j (prog cfg op) db
  rw [hk]; exact prefix_CrashInv cfg h op hwf k

/-- in particular the state of the completed request satisfies `CrashInv` -/
theorem completed_CrashInv (cfg : Config) {db db' : DB R} (h : CrashInv db) (op : Op R) (hwf : OpWF op)
    {fuel : Nat} {r : Resp} (hfin : Prog.runSeq fuel (prog cfg op) db = (db', some r)) : CrashInv db' := by
  obtain ⟨k, hk⟩ := runSeq_some_runPrefix fuel (prog cfg op) db db' r hfin
  have := prefix_CrashInv cfg h op hwf k
  rwa [hk] at this

/-! ## wholly present or wholly absent -/

/-- at every crash point the state is the start state plus auxiliary records, or the request has finished:
the request changes anything else in ONE transaction, its last but for the removal of consumers it
created (which only happens when that transaction failed) -/
theorem main_write_single_txn (cfg : Config) {db : DB R} (h : CrashInv db) (op : Op R) (hwf : OpWF op) (k : Nat) :
    AuxOnly db (Prog.runPrefix k (prog cfg op) db).1 ∨ ∃ r, (Prog.runPrefix k (prog cfg op) db).2 = .done r :=
  ((prog_path (crashInv_wfi h) cfg op hwf).runPrefix k db rfl (g0 (crashInv_wfi h) _)).2

/-- **every crash state is the start state plus auxiliary records, or the state of the completed request** -/
theorem wholly_present_or_absent (cfg : Config) {db db' : DB R} (h : CrashInv db) (op : Op R) (hwf : OpWF op)
    {fuel : Nat} {r : Resp} (hfin : Prog.runSeq fuel (prog cfg op) db = (db', some r)) (k : Nat) :
    AuxOnly db (Prog.runPrefix k (prog cfg op) db).1 ∨ (Prog.runPrefix k (prog cfg op) db).1 = db' := by
  rcases main_write_single_txn cfg h op hwf k with ha | ⟨r', hr⟩
  · exact .inl ha
  · refine .inr (runPrefix_done_runSeq k (prog cfg op) db _ r' ?_ fuel r db' hfin).1
    rw [← hr]

/-- the part of the state with API-visible meaning, consumers restricted to those that hold allocations -/
structure HeldCore (R : Type) where
  rps : List RpRow
  invs : List (InvRow R)
  allocs : List AllocRow
  rpTraits : List (Nat × Nat)
  rpAggs : List (Nat × Nat)
  rcs : List (Nat × Nat)
  traits : List Nat
  holders : List ConsRow

def heldCore (db : DB R) : HeldCore R :=
  ⟨db.rps, db.invs, db.allocs, db.rpTraits, db.rpAggs, db.rcs, db.traits,
   db.consumers.filter (fun c => db.allocs.any (·.consumer == c.uuid))⟩

omit [CapOps R] in
theorem heldCore_of_auxOnly {db s : DB R} (h : AuxOnly db s) : heldCore s = heldCore db := by
  have hr := h.rest
  simp only [Core.rest, RestState.mk.injEq] at hr
  obtain ⟨e1, e2, e3, e4, e5, e6, e7, -, -⟩ := hr
  obtain ⟨extra, hc, hex⟩ := h.cons
  have hf : extra.filter (fun c => db.allocs.any (·.consumer == c.uuid)) = [] := by
    rw [List.filter_eq_nil_iff]
    intro e he hp
    simp only [List.any_eq_true, beq_iff_eq] at hp
    obtain ⟨a, ha, hau⟩ := hp
    exact (hex e he).2 a (e3 ▸ ha) hau
  unfold heldCore
  rw [e1, e2, e3, e4, e5, e6, e7, hc, List.filter_append, hf, List.append_nil]

/-- on providers, inventories, allocations, provider traits and aggregates, classes, traits and the
consumers that hold allocations, every crash state equals the start state or the completed request -/
theorem wholly_present_or_absent_core (cfg : Config) {db db' : DB R} (h : CrashInv db) (op : Op R) (hwf : OpWF op)
    {fuel : Nat} {r : Resp} (hfin : Prog.runSeq fuel (prog cfg op) db = (db', some r)) (k : Nat) :
    heldCore (Prog.runPrefix k (prog cfg op) db).1 = heldCore db ∨
    heldCore (Prog.runPrefix k (prog cfg op) db).1 = heldCore db' := by
  rcases wholly_present_or_absent cfg h op hwf hfin k with ha | he
  · exact .inl (heldCore_of_auxOnly ha)
  · exact .inr (by rw [he])

/-- **the only partial effects**: a crash state that is not the completed request differs from the start
state in `projects`, `users`, `ctypes` (names appended), the fresh consumer id, and appended consumer
rows with fresh ids that hold no allocation -/
theorem residue_is_auxiliary (cfg : Config) {db db' : DB R} (h : CrashInv db) (op : Op R) (hwf : OpWF op)
    {fuel : Nat} {r : Resp} (hfin : Prog.runSeq fuel (prog cfg op) db = (db', some r)) (k : Nat)
    (hne : (Prog.runPrefix k (prog cfg op) db).1 ≠ db') :
    let s := (Prog.runPrefix k (prog cfg op) db).1
    s.rps = db.rps ∧ s.invs = db.invs ∧ s.allocs = db.allocs ∧ s.rpTraits = db.rpTraits ∧
    s.rpAggs = db.rpAggs ∧ s.rcs = db.rcs ∧ s.traits = db.traits ∧ s.aggs = db.aggs ∧ s.nextRp = db.nextRp ∧
    db.projects <+: s.projects ∧ db.users <+: s.users ∧ db.ctypes <+: s.ctypes ∧ db.nextCons ≤ s.nextCons ∧
    ∃ extra, s.consumers = db.consumers ++ extra ∧
      ∀ e ∈ extra, db.nextCons ≤ e.id ∧ ∀ a ∈ s.allocs, a.consumer ≠ e.uuid := by
  intro s
  rcases wholly_present_or_absent cfg h op hwf hfin k with ha | he
  · have hr := ha.rest
    simp only [Core.rest, RestState.mk.injEq] at hr
    obtain ⟨e1, e2, e3, e4, e5, e6, e7, e8, e9⟩ := hr
    exact ⟨e1, e2, e3, e4, e5, e6, e7, e8, e9, ha.projects, ha.users, ha.ctypes, ha.nextCons, ha.cons⟩
  · exact absurd he hne

/-! ## capacity safety -/

theorem overCommitted_of_auxOnly {db s : DB R} (h : AuxOnly db s) (rp rc : Nat) :
    OverCommitted s rp rc ↔ OverCommitted db rp rc := by
  unfold OverCommitted DB.usage
  rw [rest_invs h.rest, rest_allocs h.rest]

/-- a pair over-committed in a crash state is over-committed in the start state or after the completed
request; a crash state's inventories and allocations are those of one of these two states -/
theorem prefix_no_new_overcommit (cfg : Config) {db db' : DB R} (h : CrashInv db) (op : Op R) (hwf : OpWF op)
    {fuel : Nat} {r : Resp} (hfin : Prog.runSeq fuel (prog cfg op) db = (db', some r)) (k : Nat) :
    let s := (Prog.runPrefix k (prog cfg op) db).1
    ((s.invs = db.invs ∧ s.allocs = db.allocs) ∨ (s.invs = db'.invs ∧ s.allocs = db'.allocs)) ∧
    ∀ rp rc, OverCommitted s rp rc → OverCommitted db rp rc ∨ OverCommitted db' rp rc := by
  intro s
  rcases wholly_present_or_absent cfg h op hwf hfin k with ha | he
  · exact ⟨.inl ⟨rest_invs ha.rest, rest_allocs ha.rest⟩,
      fun rp rc ho => .inl ((overCommitted_of_auxOnly ha rp rc).1 ho)⟩
  · have : s = db' := he
    exact ⟨.inr ⟨by rw [this], by rw [this]⟩, fun rp rc ho => .inr (this ▸ ho)⟩

/-! ## examples: the hypotheses are satisfiable; concrete crash states -/

section examples

theorem crashInv_exDb : CrashInv exDb :=
  ⟨uniq_exDb, ri_exDb, allocPos_exDb, ⟨by simp [exDb], fun i => i, by simp [exDb]⟩, by simp [Roots, exDb]⟩

/-- PUT /allocations/501 at 1.28: a new consumer, new project 70 and user 80, 2 units of class 0 on provider 101 -/
def exPut : Op Nat :=
  .allocPut 28 { uuid := 501, project := some 70, user := some 80, ctype := none, gen := none,
                 allocs := [(101, 0, 2)] }

/-- POST /allocations moving consumer 500 (generation 1) from provider 101 to nothing and giving the new
consumer 502 3 units: two consumers in one request -/
def exPost : Op Nat :=
  .allocPost 28 [{ uuid := 500, project := some 7, user := some 8, ctype := none, gen := some 1, allocs := [] },
                 { uuid := 502, project := some 71, user := some 8, ctype := none, gen := none,
                   allocs := [(101, 0, 3)] }]

/-- POST /reshaper at 1.30: provider 102 (generation 1) gets inventory of class 0, consumer 500 keeps its 2
units on provider 101 -/
def exReshape : Op Nat :=
  .reshape 30 [{ uuid := 102, gen := 1, invs := [{ rcName := 0, total := 4, reserved := 0, minUnit := 1,
                                                    maxUnit := 4, stepSize := 1, ratio := 1 }] }]
    [{ uuid := 500, project := some 7, user := some 8, ctype := none, gen := some 1, allocs := [(101, 0, 2)] }]

example : CrashInv exDb ∧ OpWF exPut ∧ OpWF exPost ∧ OpWF exReshape :=
  ⟨crashInv_exDb, by decide, by decide, by decide⟩

example : (Prog.runSeq 20 (prog exCfg exReshape) exDb).2 = some r204 := by decide

/-- the requests complete (8 and 13 transactions) -/
example : (Prog.runSeq 20 (prog exCfg exPut) exDb).2 = some r204 := by decide
example : (Prog.runSeq 20 (prog exCfg exPost) exDb).2 = some r204 := by decide

/-- a crash after 6 transactions of `exPut` (project, user and consumer recorded, main write not yet run):
allocations untouched, the residue is the project, the user and the allocation-less consumer 501 -/
example :
    let s := (Prog.runPrefix 6 (prog exCfg exPut) exDb).1
    s.allocs = exDb.allocs ∧ s.projects = [7, 70] ∧ s.users = [8, 80] ∧
    s.consumers.map (·.uuid) = [500, 501] := by decide

/-- after all 8 transactions the allocation is there -/
example : ((Prog.runPrefix 8 (prog exCfg exPut) exDb).1.allocs.map (fun a => (a.consumer, a.used))) =
    [(500, 2), (501, 2)] := by decide

/-! ### why the statement is path-based

The transaction that creates the consumer row of `exPut` relies on the project that an earlier
transaction of the same request recorded.  Run on a state without that project (which no sequential
run and no interleaving with API requests can produce - projects are never deleted - but which "every
transaction on ANY state" quantifies over) it leaves a consumer whose project is not recorded. -/

/-- a state in which project 70 and user 80 are recorded -/
def exNames : DB Nat := { projects := [70], users := [80] }

theorem crashInv_empty : CrashInv ({} : DB Nat) :=
  ⟨by constructor <;> simp, by constructor <;> simp, by simp [AllocPos], ⟨by simp, fun i => i, by simp⟩, by simp [Roots]⟩

/-- the `Sched.All` form of `every_txn_preserves_CrashInv` is false -/
theorem every_txn_preserves_CrashInv_all_false :
    ¬ All (fun s s' : DB Nat => CrashInv s → CrashInv s') (prog exCfg exPut) := by
  intro h
  -- after project, user and consumer lookup (on a state where the names exist) the next transaction creates
  -- the consumer; run it on the empty state
  have h3 := Crash.All.nextOn (fun _ hs => hs) (Crash.All.runPrefix_all 3 h exNames) ({} : DB Nat) crashInv_empty
  have hx : ∃ c ∈ (nextOn (Prog.runPrefix 3 (prog exCfg exPut) exNames).2 ({} : DB Nat)).consumers,
      c.project ∉ (nextOn (Prog.runPrefix 3 (prog exCfg exPut) exNames).2 ({} : DB Nat)).projects := by decide
  obtain ⟨c, hc, hn⟩ := hx
  exact hn (h3.ri.consProject c hc)

end examples

end Placement.Props.C18
