import Placement.Lemmas.FiltAlgo
import Placement.Lemmas.CandBase
/-
  C13  "GET /resource_providers returns exactly the providers satisfying every supplied filter: exact name, exact
  uuid, membership of the tree containing in_tree, direct membership of at least one aggregate of each member_of value
  and of no forbidden aggregate, possession of every required trait (at least one of each in: list) and of no
  forbidden trait, and for each resources entry an inventory of that class with room for the amount under its
  capacity, min_unit, max_unit and step_size.  An in_tree or uuid naming no provider, or a member_of value naming only
  unknown aggregates, yields an empty list; unknown traits or resource classes yield 400."

  `Spec.MatchesFilters` is the first sentence as a predicate; `Spec.listProvidersAlgo` is the model of
  `_get_all_by_filters_from_db` (id sets, early `return []`, forbidden sets subtracted only when non-empty);
  `Spec.hListProviders` adds the name resolution of the handler.  The theorems hold for every database whose
  provider uuids are unique (unique index of `resource_providers.uuid`) and whose provider-aggregate associations
  name recorded aggregates (foreign key; part of the invariant `RI` of C08) and for every filter combination.
-/
namespace Placement.Spec

variable {R : Type} [CapOps R]

/-- the listing contains exactly the providers that satisfy every supplied filter -/
theorem listing_exact (db : DB R) (hu : (db.rps.map (·.uuid)).Nodup) (hk : AggsKnown db) (f : Filters) (p : RpRow) :
    p ∈ listProvidersAlgo db f ↔ p ∈ db.rps ∧ MatchesFilters db f p := by
  unfold listProvidersAlgo
  rw [mem_runStages]
  constructor
  · rintro ⟨hp, h⟩
    refine ⟨hp, ?_⟩
    have hs : ∀ s, s ∈ stages db f → s.holds p := h
    unfold stages at hs
    refine ⟨(stageName_holds f p).mp (hs _ (by simp)), (stageUuid_holds f p).mp (hs _ (by simp)),
      (stageInTree_holds db hu f p).mp (hs _ (by simp)), (stageMemberOf_holds db hk f hp).mp (hs _ (by simp)),
      (stageForbiddenAggs_holds db hk f hp).mp (hs _ (by simp)), (stageRequired_holds db f hp).mp (hs _ (by simp)),
      (stageForbidden_holds db f p).mp (hs _ (by simp)), ?_⟩
    exact (stagesResources_holds db f p).mp (fun s hs' => hs s (by simp [hs']))
  · rintro ⟨hp, h1, h2, h3, h4, h5, h6, h7, h8⟩
    refine ⟨hp, ?_⟩
    intro s hs
    unfold stages at hs
    simp only [List.cons_append, List.nil_append, List.mem_cons] at hs
    rcases hs with rfl | rfl | rfl | rfl | rfl | rfl | rfl | hs
    · exact (stageName_holds f p).mpr h1
    · exact (stageUuid_holds f p).mpr h2
    · exact (stageInTree_holds db hu f p).mpr h3
    · exact (stageRequired_holds db f hp).mpr h6
    · exact (stageForbidden_holds db f p).mpr h7
    · exact (stageMemberOf_holds db hk f hp).mpr h4
    · exact (stageForbiddenAggs_holds db hk f hp).mpr h5
    · exact (stagesResources_holds db f p).mpr h8 s hs

/-- ... i.e. the algorithm and the specification list the same providers -/
theorem listing_is_specification (db : DB R) (hu : (db.rps.map (·.uuid)).Nodup) (hk : AggsKnown db) (f : Filters)
    (p : RpRow) : p ∈ listProvidersAlgo db f ↔ p ∈ listProviders db f := by
  rw [listing_exact db hu hk]
  simp [listProviders]

/-- nothing is listed twice (provider rows are distinct) -/
theorem listing_nodup (db : DB R) (hn : db.rps.Nodup) (f : Filters) : (listProvidersAlgo db f).Nodup := by
  unfold listProvidersAlgo
  generalize stages db f = ss
  generalize db.rps = rows at hn
  induction ss generalizing rows with
  | nil => simpa [runStages] using hn
  | cons s rest ih =>
    cases s with
    | empty => simp [runStages]
    | clause g => simpa [runStages] using ih _ (hn.filter _)

/-- an `in_tree` naming no provider yields an empty list -/
theorem unknown_in_tree_empty (db : DB R) (f : Filters) (u : Nat) (h : f.inTree = some u)
    (hn : ∀ t ∈ db.rps, t.uuid ≠ u) : listProvidersAlgo db f = [] := by
  unfold listProvidersAlgo
  apply runStages_empty
  have : stageInTree db f = .empty := by
    unfold stageInTree
    rw [h]
    simp only
    rw [rpByUuid_none.mpr hn]
  unfold stages
  simp [this]

/-- a `uuid` naming no provider yields an empty list -/
theorem unknown_uuid_empty (db : DB R) (f : Filters) (u : Nat) (h : f.uuid = some u)
    (hn : ∀ t ∈ db.rps, t.uuid ≠ u) : listProvidersAlgo db f = [] := by
  apply List.eq_nil_iff_forall_not_mem.mpr
  intro p hp
  unfold listProvidersAlgo at hp
  rw [mem_runStages] at hp
  have := (stageUuid_holds f p).mp (hp.2 _ (by simp [stages]))
  rw [h] at this
  exact hn p hp.1 this

/-- a `member_of` value naming only unknown aggregates yields an empty list -/
theorem only_unknown_aggregates_empty (db : DB R) (f : Filters) (l : List Nat) (hl : l ∈ f.memberOf)
    (hn : ∀ a ∈ l, a ∉ db.aggs) : listProvidersAlgo db f = [] := by
  unfold listProvidersAlgo
  apply runStages_empty
  have : stageMemberOf db f = .empty := by
    unfold stageMemberOf
    have h1 : f.memberOf.isEmpty = false := by
      cases hm : f.memberOf with
      | nil => rw [hm] at hl; cases hl
      | cons _ _ => rfl
    have h2 : idsMatchingAggregates db f.memberOf = [] := by
      unfold idsMatchingAggregates
      have : (f.memberOf.any fun l => (l.filter fun a => db.aggs.contains a).isEmpty) = true := by
        rw [List.any_eq_true]
        refine ⟨l, hl, ?_⟩
        rw [isEmpty_eq_true_iff, List.filter_eq_nil_iff]
        intro a ha
        simpa using hn a ha
      rw [if_pos this]
    simp [h1, h2]
  unfold stages
  simp [this]

/-- an unknown trait (required or forbidden) yields 400 -/
theorem unknown_trait_400 (db : DB R) (f : RawFilters)
    (h : (∃ s ∈ f.required, ∃ t ∈ s, t ∉ db.traits) ∨ (∃ t ∈ f.forbidden, t ∉ db.traits)) :
    hListProviders db f = .error 400 := by
  unfold hListProviders
  have : f.traitsKnown db = false := by
    unfold RawFilters.traitsKnown
    rw [Bool.and_eq_false_iff]
    rcases h with ⟨s, hs, t, ht, hn⟩ | ⟨t, ht, hn⟩
    · left
      rw [← Bool.not_eq_true, List.all_eq_true]
      intro hall
      have := hall s hs
      rw [List.all_eq_true] at this
      exact hn (by simpa using this t ht)
    · right
      rw [← Bool.not_eq_true, List.all_eq_true]
      intro hall
      exact hn (by simpa using hall t ht)
  simp [this]

/-- an unknown resource class yields 400 -/
theorem unknown_class_400 (db : DB R) (f : RawFilters) (n : Nat) (a : Int) (hm : (n, a) ∈ f.resources)
    (hn : db.rcId n = none) : hListProviders db f = .error 400 := by
  unfold hListProviders
  split
  · rfl
  · rw [resolveResources_none db hm hn]

/-! ### the hypotheses are satisfiable, the statements are not vacuous: `CandEx.db` (two trees, a sharing provider) -/

open CandEx in
example : (db.rps.map (·.uuid)).Nodup ∧ AggsKnown db := by
  constructor
  · decide
  · unfold AggsKnown; decide

/-- VCPU:2 within aggregate 50 or 51, not in 52, with the room rule: provider 2 has 8*1.5 = 12, 4 used, step 2 -> fits,
but is in no aggregate; provider 4 is; provider 3 (capacity 2) is not in an aggregate -/
example : (listProvidersAlgo CandEx.db { memberOf := [[50, 51]], forbiddenAggs := [52], resources := [(0, 2)] }).map (·.id) = [4] := by
  decide

example : (listProvidersAlgo CandEx.db { inTree := some 103, resources := [(0, 2)] }).map (·.id) = [2, 3] := by decide
example : (listProvidersAlgo CandEx.db { inTree := some 103, resources := [(0, 3)] }).map (·.id) = [] := by decide
example : (listProvidersAlgo CandEx.db { required := [[70, 71]], forbidden := [60] }).map (·.id) = [1, 3] := by decide
example : (listProvidersAlgo CandEx.db { name := some 204, uuid := some 104 }).map (·.id) = [4] := by decide
example : listProvidersAlgo CandEx.db { inTree := some 999 } = [] :=
  unknown_in_tree_empty _ _ 999 rfl (by decide)
example : listProvidersAlgo CandEx.db { memberOf := [[50], [98, 99]] } = [] :=
  only_unknown_aggregates_empty _ _ [98, 99] (by decide) (by decide)
example : hListProviders CandEx.db { required := [[70, 77]] } = .error 400 :=
  unknown_trait_400 _ _ (Or.inl ⟨[70, 77], by decide, 77, by decide, by decide⟩)
example : hListProviders CandEx.db { resources := [(10, 1), (19, 1)] } = .error 400 :=
  unknown_class_400 _ _ 19 1 (by decide) (by decide)
example : (hListProviders CandEx.db { resources := [(10, 2), (11, 16)] }).toOption.map (·.map (·.id)) = some [4] := by decide

end Placement.Spec
