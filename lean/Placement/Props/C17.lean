/-
  C17  "If the database reports a deadlock during an allocation write or the start-up synchronisation of
       standard traits and resource classes, or a duplicate-key race while an aggregate is first
       recorded, the operation is retried and its effect on providers, inventories, aggregates,
       allocations and consumers is applied exactly once. If the database fails in any other way at any
       statement of any request, the client receives a well-formed JSON error response and the stored
       state is as if the request had never been made, apart from newly recorded project, user and
       consumer-type names."

  Model: `Model/Fault.lean` - a transaction body is a list of statements, ONE fault is injected at
  statement index `k` of the first attempt (`deadlock false`: retryable, no server-side rollback;
  `deadlock true`: retryable, the server rolled the open transaction back; `other`: not retryable), the
  contract of `oslo_db.api.wrap_db_retry` in its two placements: (A) the decorated function is the
  outermost transaction (`runOutermost`), (B) it runs inside the handler's outer writer scope after
  `update_consumers` (`runNested`, `mainTxnWithFault`).  The duplicate-key race of `_ensure_aggregate`
  is a retryable fault of placement (A) (kind `deadlock b`; the model does not distinguish the two
  retryable exception classes).

  (A) outermost placement - FULL
    * `outermost_retry_exactly_once`     every body over every state type, every position, both deadlock
                                         kinds: the result (`Res`: state, answer, fault flag) IS the
                                         fault-free result;
    * `outermost_other_fault_clean`      kind `other`: position reached => state unchanged and the fault is
                                         answered; not reached => the fault-free result;
    * `aggregate_race_retried_once`, `aggregate_other_fault_clean`
                                         instance `_set_aggregates` / `_ensure_aggregate`: statement list
                                         `FaultL.setAggStmts` (SELECT, per new uuid select-or-insert, per new
                                         uuid INSERT association, per dropped uuid DELETE association, optional
                                         generation compare-and-swap - the order of the code), whose fault-free
                                         run is PROVED to be `setAggregates` of `Model/Objects.lean`
                                         (`FaultL.runBody_setAggStmts_ok/_error`, equal lists, not up to
                                         permutation); the theorem speaks about `setAggregates`;
    * `aggregate_retry_sees_winner`      the retry after a real race runs on a state in which the winner's
                                         aggregate row exists: same associations, same generations, the
                                         aggregate recorded once;
    * `sync_deadlock_retried_once`, `sync_other_fault_clean`
                                         `_trait_sync`, `_resource_classes_sync` (SELECT + bulk INSERT) in terms
                                         of `syncTraits` / `syncRcs` of `Model/Sync.lean`.

  (B) `_set_allocations` inside the outer transaction of PUT /allocations/{c} (`mainTxnWithFault`)
    * `faultfree_agrees_with_handler`    FULL: whenever `setAllocations (updateConsumer db cons attr) allocs`
                                         succeeds, the statement-level run without a fault succeeds at the
                                         first attempt with the same database (no hypothesis on `db`);
    * `nested_other_fault_clean`, `nested_other_fault_clean_generic`, `nested_fault_not_reached`
                                         FULL: kind `other` reached => state = start, fault answered; a position
                                         that is not reached => the fault-free result (any kind);
    * `C17_witness_double_increment`     deadlock without rollback at the second provider-generation UPDATE of a
                                         two-provider write: answered success, first provider's generation
                                         5 -> 7 (fault-free: 5 -> 6);
    * `C17_witness_lost_consumer_update` deadlock with rollback at the first INSERT: answered success,
                                         allocations written, consumer generation bumped, consumer's project
                                         still 7 although the request named 9 (fault-free: 9);
    * `C17_witness_consumer_double_increment`  deadlock without rollback at the last statement: consumer
                                         generation 1 -> 3 (fault-free 1 -> 2);
    * `C17_exactly_once_full`            the plain statement ("same database and answer as the fault-free run,
                                         or a clean failure") as a `def : Prop`;
      `C17_exactly_once_full_false`      it is FALSE (from the first witness) - known finding N of DESIGN §9;
    * `C17_exactly_once_partial`         PARTIAL: it holds when (1) the kind is `other`, or (2) the position is not
                                         reached, or (3) the position is at or before the first generation
                                         increment (`k ≤ firstIncPos`: the DELETEs, the capacity check, the
                                         INSERTs and the first generation UPDATE itself as the faulting
                                         statement) and either the deadlock left the transaction open
                                         (`deadlock false`: re-running DELETE/check/INSERT on top of the partial
                                         effects is idempotent) or `update_consumers` had written nothing, or
                                         (4) `deadlock true` at ANY position when `update_consumers` had written
                                         nothing, provider and consumer ids are unique and `setAllocations db
                                         allocs` succeeds: up to the first consumer-generation UPDATE
                                         (`k ≤ firstIncPos + #providers`) the re-run fails its first
                                         compare-and-swap (the object carries g+1, the row g), `replace_all`
                                         re-reads the providers from the committed state, the third attempt is the
                                         fault-free one (`FaultL.mainTxn_rollback_mid`: exactly once); after it
                                         the consumer object carries g+1 and is never re-read: the third
                                         attempt raises `ConcurrentUpdateDetected`, answered 409 with the start
                                         state (`FaultL.mainTxn_rollback_late`: clean failure);
    * `rollback_early_loses_exactly_update_consumers`
                                         what a rolled-back deadlock at such a position does in general: the
                                         result is the fault-free result of the same request WITHOUT
                                         `update_consumers`.

  MISSING (not proved here):
    * `deadlock true` after the first generation increment when the fault-free write itself would fail
      or retry (`setAllocations db allocs` not `.ok`: stale request generations) - only the successful
      fault-free write is analysed there.  `deadlock false` after the first increment is the double
      increment (the statement is false there); `deadlock true` with a real consumer attribute change is
      the lost update (false at the positions up to the first consumer-generation UPDATE; characterised
      only for `k ≤ firstIncPos` by `rollback_early_loses_exactly_update_consumers`).
    * the failing fault-free run (`setAllocations = .error e`) agreeing statement by statement (only the
      successful direction of `faultfree_agrees_with_handler` is proved);
    * POST /allocations (several consumers: `pre` = `updateConsumers`) and POST /reshaper use the same
      retried function; `nested_other_fault_clean_generic` / `FaultL.runNested_not_reached` cover them
      for `other`; the deadlock analysis is done for the PUT instance only.

  NOT in Lean: "well-formed JSON error response" is checked on the real code by the harness (C17 check,
  C15); "apart from newly recorded project, user and consumer-type names": those rows are written by
  EARLIER committed transactions of the same request (`ensure_consumer`), not by the transaction a
  fault rolls back - covered by C04 (`residue`) / C18; here "state unchanged" is the state at the start
  of the faulted transaction.
-/
import Placement.Lemmas.FaultL5
import Placement.Lemmas.WfExample

namespace Placement.Props.C17
open Placement Placement.Fault Placement.FaultL
set_option linter.unusedSectionVars false

/-! ## (A) the retry decorator on the outermost transaction -/

/-- **outermost_retry_exactly_once.**  Any body, any committed state, any statement position, either
kind of retryable fault: the result is the result of the run without a fault - the operation is
applied exactly once (or, when the body raises a domain exception, not at all, with that exception). -/
theorem outermost_retry_exactly_once {σ : Type} (body : List (Stmt σ)) (s0 : σ) (k : Nat) (b : Bool) :
    runOutermost body s0 (some (k, .deadlock b)) = runOutermost body s0 none :=
  runOutermost_deadlock body s0 k b

/-- **outermost_other_fault_clean.**  A non-retryable fault: if its position is reached the committed
state is the start state and the fault is answered; otherwise the run is the fault-free run. -/
theorem outermost_other_fault_clean {σ : Type} (body : List (Stmt σ)) (s0 : σ) (k : Nat) :
    (∀ sk, runBody body s0 (some k) = .fault sk →
      (runOutermost body s0 (some (k, .other))).state = s0 ∧
      (runOutermost body s0 (some (k, .other))).faulted = true ∧
      (runOutermost body s0 (some (k, .other))).error = none) ∧
    ((∀ sk, runBody body s0 (some k) ≠ .fault sk) →
      runOutermost body s0 (some (k, .other)) = runOutermost body s0 none) := by
  refine ⟨fun sk h => ?_, (runOutermost_other body s0 k).2⟩
  rw [(runOutermost_other body s0 k).1 sk h]
  exact ⟨rfl, rfl, rfl⟩

variable {R : Type}

/-- **aggregate_race_retried_once.**  `_set_aggregates` with a duplicate-key race (or any retryable
fault) at any of its statements: the committed state and the answer are those of `setAggregates`,
applied once. -/
theorem aggregate_race_retried_once (db : DB R) (rp gen : Nat) (aggs : List Nat) (incGen : Bool) (k : Nat) (b : Bool) :
    (∀ db', setAggregates db rp gen aggs incGen = .ok db' →
      runOutermost (setAggStmts db rp gen aggs incGen) db (some (k, .deadlock b)) = { state := db', error := none }) ∧
    (∀ e, setAggregates db rp gen aggs incGen = .error e →
      runOutermost (setAggStmts db rp gen aggs incGen) db (some (k, .deadlock b)) = { state := db, error := some e }) := by
  rw [outermost_retry_exactly_once, runOutermost_none]
  constructor
  · intro db' h; rw [runBody_setAggStmts_ok h]; rfl
  · intro e h; rw [runBody_setAggStmts_error h]; rfl

/-- ... and any other failure at a statement of `_set_aggregates` that is reached: nothing stored -/
theorem aggregate_other_fault_clean (db : DB R) (rp gen : Nat) (aggs : List Nat) (incGen : Bool) (k : Nat) (sk : DB R)
    (h : runBody (setAggStmts db rp gen aggs incGen) db (some k) = .fault sk) :
    runOutermost (setAggStmts db rp gen aggs incGen) db (some (k, .other)) =
      { state := db, error := none, faulted := true } :=
  (runOutermost_other _ db k).1 sk h

/-- a state in which a racing request has recorded aggregate `a` in the meantime -/
def withAgg (db : DB R) (a : Nat) : DB R := { db with aggs := db.aggs ++ [a] }

/-- **aggregate_retry_sees_winner.**  The retry after a real duplicate-key race starts from a state
in which the winner's row for `a` exists: it succeeds exactly when the fault-free run would, with the
same provider rows (generation bump once) and the same associations; the aggregate table is the
fault-free one plus `a` - no second row for `a`, whichever request recorded it. -/
theorem aggregate_retry_sees_winner (db : DB R) (rp gen : Nat) (aggs : List Nat) (incGen : Bool) (a : Nat) :
    (∀ e, setAggregates db rp gen aggs incGen = .error e → setAggregates (withAgg db a) rp gen aggs incGen = .error e) ∧
    (∀ d1, setAggregates db rp gen aggs incGen = .ok d1 →
      ∃ d2, setAggregates (withAgg db a) rp gen aggs incGen = .ok d2 ∧ d2.rps = d1.rps ∧ d2.rpAggs = d1.rpAggs ∧
        (∀ x, x ∈ d2.aggs ↔ x ∈ d1.aggs ∨ x = a) ∧
        ((db.aggs.Nodup ∧ a ∉ db.aggs) → d2.aggs.Nodup)) := by
  have hw : (aggWritten (withAgg db a) rp aggs).rps = (aggWritten db rp aggs).rps ∧
      (aggWritten (withAgg db a) rp aggs).rpAggs = (aggWritten db rp aggs).rpAggs := ⟨rfl, rfl⟩
  have e1 : (aggWritten (withAgg db a) rp aggs).aggs =
      (db.aggs ++ [a]) ++ (aggToAdd db rp aggs).filter (fun y => !(db.aggs ++ [a]).contains y) := rfl
  have e2 : (aggWritten db rp aggs).aggs =
      db.aggs ++ (aggToAdd db rp aggs).filter (fun y => !db.aggs.contains y) := rfl
  have hmem : ∀ x, x ∈ (aggWritten (withAgg db a) rp aggs).aggs ↔ x ∈ (aggWritten db rp aggs).aggs ∨ x = a := by
    intro x
    rw [e1, e2]
    generalize aggToAdd db rp aggs = T
    simp only [List.mem_append, List.mem_filter, List.mem_singleton, Bool.not_eq_true',
      List.contains_eq_mem, decide_eq_false_iff_not]
    by_cases hx : x = a <;> by_cases hd : x ∈ db.aggs <;> simp [hx, hd]
  have hnd : (db.aggs.Nodup ∧ a ∉ db.aggs) → (aggWritten (withAgg db a) rp aggs).aggs.Nodup := by
    rintro ⟨h1, h2⟩
    have hn : (aggToAdd db rp aggs).Nodup := by unfold aggToAdd; exact Wf.L.nodup_eraseDups _
    rw [e1]
    generalize aggToAdd db rp aggs = T at hn
    rw [List.nodup_append]
    refine ⟨?_, hn.filter _, ?_⟩
    · rw [List.nodup_append]
      refine ⟨h1, by simp, ?_⟩
      intro x hx y hy e
      rw [List.mem_singleton] at hy
      subst hy; subst e
      exact h2 hx
    · intro x hx y hy e
      subst e
      have := (List.mem_filter.1 hy).2
      simp only [Bool.not_eq_true', List.contains_eq_mem, decide_eq_false_iff_not] at this
      exact this hx
  rw [setAggregates_eq, setAggregates_eq]
  cases incGen with
  | false =>
    simp only [Bool.false_eq_true, ↓reduceIte]
    refine ⟨fun e h => (by cases h), ?_⟩
    intro d1 h
    cases h
    exact ⟨_, rfl, hw.1, hw.2, hmem, hnd⟩
  | true =>
    simp only [↓reduceIte]
    unfold incRpGen
    rw [hw.1]
    constructor
    · intro e h
      split at h
      · cases h
      · exact h
    · intro d1 h
      split at h
      · cases h
        refine ⟨_, rfl, ?_, hw.2, hmem, hnd⟩
        show List.map _ (aggWritten (withAgg db a) rp aggs).rps = List.map _ (aggWritten db rp aggs).rps
        rw [hw.1]
      · cases h

/-- **sync_deadlock_retried_once.**  A deadlock at either statement of `_trait_sync` /
`_resource_classes_sync`: the committed table is `syncTraits` / `syncRcs` of the start state, once. -/
theorem sync_deadlock_retried_once (std : List Nat) (db : DB R) (k : Nat) (b : Bool) :
    runOutermost (syncTraitsStmts std) db (some (k, .deadlock b)) = { state := syncTraits std db, error := none } ∧
    runOutermost (syncRcsStmts std) db (some (k, .deadlock b)) = { state := syncRcs std db, error := none } := by
  rw [outermost_retry_exactly_once, outermost_retry_exactly_once, runOutermost_none, runOutermost_none,
    runBody_syncTraitsStmts, runBody_syncRcsStmts]
  exact ⟨rfl, rfl⟩

/-- ... any other failure at either statement (positions 0 and 1 are always reached): nothing stored -/
theorem sync_other_fault_clean (std : List Nat) (db : DB R) (k : Nat) (hk : k < 2) :
    runOutermost (syncTraitsStmts std) db (some (k, .other)) = { state := db, error := none, faulted := true } ∧
    runOutermost (syncRcsStmts std) db (some (k, .other)) = { state := db, error := none, faulted := true } := by
  have hk' : k = 0 ∨ k = 1 := by omega
  rcases hk' with rfl | rfl <;> exact ⟨rfl, rfl⟩

/-! ### the statements of (A) are not vacuous -/

/-- the race fires at the first `_ensure_aggregate` (position 1) of a PUT naming two new aggregates for
provider 2 of `Wf.exDb`; the fault-free `setAggregates` succeeds -/
example : (∃ sk, runBody (setAggStmts Wf.exDb 2 3 [901, 902] true) Wf.exDb (some 1) = .fault sk) ∧
    (∃ db', setAggregates Wf.exDb 2 3 [901, 902] true = .ok db' ∧ db'.aggs = [900, 901, 902] ∧
      db'.rpAggs = [(3, 900), (2, 901), (2, 902)]) :=
  ⟨⟨_, rfl⟩, ⟨_, rfl, by decide, by decide⟩⟩

/-- a stale generation: `setAggregates` fails, so does the retried run, with the same exception -/
example : setAggregates Wf.exDb 2 7 [901] true = .error .rpConcurrentUpdate := rfl

/-- a position beyond the last statement is not reached (second half of `outermost_other_fault_clean`) -/
example : ∀ sk, runBody (setAggStmts Wf.exDb 2 3 [901, 902] true) Wf.exDb (some 99) ≠ .fault sk :=
  runBody_beyond _ _ _ (by decide)

example : (withAgg Wf.exDb 901).aggs = [900, 901] ∧ Wf.exDb.aggs.Nodup ∧ 901 ∉ Wf.exDb.aggs := by decide

/-! ## (B) `_set_allocations` inside the handler's outer transaction -/

variable [CapOps R]

/-- **faultfree_agrees_with_handler.**  The statement-level main transaction without a fault is the
main transaction of the sequential handler (`hAllocPut`: `setAllocations` after `updateConsumer`):
same database, success. -/
theorem faultfree_agrees_with_handler (db : DB R) (cons : ConsRow) (attr : ReqAttr) (allocs : List AllocReq) (db' : DB R)
    (h : setAllocations (updateConsumer db cons attr) allocs = .ok db') :
    (mainTxnWithFault db cons attr allocs none).state.db = db' ∧
    (mainTxnWithFault db cons attr allocs none).error = none ∧
    (mainTxnWithFault db cons attr allocs none).faulted = false :=
  mainTxn_faultfree_ok db cons attr allocs db' h

/-- the fault position `k` is reached by the first attempt of `_set_allocations` -/
def Reached (db : DB R) (cons : ConsRow) (attr : ReqAttr) (allocs : List AllocReq) (k : Nat) : Prop :=
  ∃ sk, runBody (setAllocStmts allocs) (preState db cons attr allocs) (some k) = .fault sk

/-- **nested_other_fault_clean.**  A non-retryable fault at a reached statement of the allocation
write: the state is the start state (`update_consumers` undone as well), the fault is answered. -/
theorem nested_other_fault_clean (db : DB R) (cons : ConsRow) (attr : ReqAttr) (allocs : List AllocReq) (k : Nat)
    (h : Reached db cons attr allocs k) :
    (mainTxnWithFault db cons attr allocs (some (k, .other))).state = FS.ofRequest db allocs ∧
    (mainTxnWithFault db cons attr allocs (some (k, .other))).faulted = true ∧
    (mainTxnWithFault db cons attr allocs (some (k, .other))).error = none := by
  obtain ⟨sk, h⟩ := h
  rw [mainTxn_other db cons attr allocs k sk h]
  exact ⟨rfl, rfl, rfl⟩

/-- the same for every retried body inside every outer transaction (`pre` = whatever ran before in
the outer scope: `update_consumers` of POST /allocations, the inventory writes of the reshaper) -/
theorem nested_other_fault_clean_generic {σ : Type} (rollback : σ → σ → σ) (pre : σ → σ) (body : List (Stmt σ))
    (s0 sk : σ) (k : Nat) (h : runBody body (pre s0) (some k) = .fault sk) :
    (runNested rollback pre body s0 (some (k, .other))).state = s0 ∧
    (runNested rollback pre body s0 (some (k, .other))).faulted = true ∧
    (runNested rollback pre body s0 (some (k, .other))).error = none := by
  rw [runNested_other rollback pre body s0 sk k h]
  exact ⟨rfl, rfl, rfl⟩

/-- a fault position that is never reached changes nothing, whatever the kind -/
theorem nested_fault_not_reached (db : DB R) (cons : ConsRow) (attr : ReqAttr) (allocs : List AllocReq) (k : Nat)
    (kind : Kind) (h : ¬ Reached db cons attr allocs k) :
    mainTxnWithFault db cons attr allocs (some (k, kind)) = mainTxnWithFault db cons attr allocs none :=
  mainTxn_not_reached db cons attr allocs k kind (fun sk e => h ⟨sk, e⟩)

/-! ### witnesses: the retry inside the outer transaction is NOT exactly-once

Providers 1 (generation 5) and 2 (generation 3), each with 8 units of class 0; consumer 500 (internal
id 1, generation 1, project 7, user 8) holds 1 unit on provider 1.  The request (PUT
/allocations/500 with project 9) replaces this by 2 units on provider 1 and 1 unit on provider 2.
Statements: 0 DELETE, 1 capacity check, 2-3 INSERT, 4-5 provider generation UPDATE, 6 consumer
generation UPDATE, 7 consumer clean-up. -/

def wDb : DB Nat :=
  { rps := [{ id := 1, uuid := 100, name := 200, gen := 5, parent := none, root := 1 },
            { id := 2, uuid := 101, name := 201, gen := 3, parent := none, root := 2 }],
    invs := [{ rp := 1, rc := 0, total := 8, reserved := 0, minUnit := 1, maxUnit := 8, stepSize := 1, ratio := 1 },
             { rp := 2, rc := 0, total := 8, reserved := 0, minUnit := 1, maxUnit := 8, stepSize := 1, ratio := 1 }],
    allocs := [{ rp := 1, rc := 0, consumer := 500, used := 1 }],
    consumers := [{ id := 1, uuid := 500, project := 7, user := 8, ctype := none, gen := 1 }],
    projects := [7, 9], users := [8], ctypes := [],
    rcs := [(0, 0)],
    nextRp := 3, nextCons := 2 }

def wCons : ConsRow := { id := 1, uuid := 500, project := 7, user := 8, ctype := none, gen := 1 }
def wAttr : ReqAttr := { project := 9, user := 8, ctype := none }
def wAllocs : List AllocReq :=
  [{ rpId := 1, rpGen := 5, rcName := 0, consId := 1, consUuid := 500, consGen := 1, used := 2 },
   { rpId := 2, rpGen := 3, rcName := 0, consId := 1, consUuid := 500, consGen := 1, used := 1 }]

/-- (provider id, generation) -/
def rpGens (r : Res (FS Nat)) : List (Nat × Nat) := r.state.db.rps.map (fun r => (r.id, r.gen))
/-- (consumer uuid, project, generation) -/
def consView (r : Res (FS Nat)) : List (Nat × Nat × Nat) := r.state.db.consumers.map (fun c => (c.uuid, c.project, c.gen))

def wFaultFree : Res (FS Nat) := mainTxnWithFault wDb wCons wAttr wAllocs none
/-- deadlock WITHOUT rollback at the second provider-generation UPDATE (statement 5) -/
def wDouble : Res (FS Nat) := mainTxnWithFault wDb wCons wAttr wAllocs (some (5, .deadlock false))
/-- deadlock WITH rollback at the first INSERT (statement 2) -/
def wLost : Res (FS Nat) := mainTxnWithFault wDb wCons wAttr wAllocs (some (2, .deadlock true))
/-- deadlock WITHOUT rollback at the last statement (7) -/
def wConsDouble : Res (FS Nat) := mainTxnWithFault wDb wCons wAttr wAllocs (some (7, .deadlock false))

/-- the fault-free run: success, generations 5 -> 6 and 3 -> 4, consumer generation 1 -> 2, project 9 -/
theorem C17_witness_fault_free :
    wFaultFree.error = none ∧ wFaultFree.faulted = false ∧
    rpGens wFaultFree = [(1, 6), (2, 4)] ∧ consView wFaultFree = [(500, 9, 2)] ∧
    wFaultFree.state.db.allocs = [{ rp := 1, rc := 0, consumer := 500, used := 2 },
                                  { rp := 2, rc := 0, consumer := 500, used := 1 }] := by
  decide +kernel

/-- **C17_witness_double_increment.**  Statement 5 is the second provider-generation UPDATE
(`firstIncPos = 4`).  The client is answered success, the allocations and the consumer are as in the
fault-free run, but provider 1's generation advanced by 2 (5 -> 7) instead of 1. -/
theorem C17_witness_double_increment :
    firstIncPos wAllocs = 4 ∧
    wDouble.error = none ∧ wDouble.faulted = false ∧
    wDb.rps.map (fun r => (r.id, r.gen)) = [(1, 5), (2, 3)] ∧
    rpGens wFaultFree = [(1, 6), (2, 4)] ∧
    rpGens wDouble = [(1, 7), (2, 4)] ∧
    wDouble.state.db.allocs = wFaultFree.state.db.allocs ∧ consView wDouble = consView wFaultFree := by
  decide +kernel

/-- **C17_witness_lost_consumer_update.**  The request names project 9, the consumer has project 7.
After a rolled-back deadlock at the first INSERT the client is answered success, the allocations are
written and the consumer generation is bumped, but the consumer still has project 7. -/
theorem C17_witness_lost_consumer_update :
    wAttr.project ≠ wCons.project ∧
    wLost.error = none ∧ wLost.faulted = false ∧
    wLost.state.db.allocs = wFaultFree.state.db.allocs ∧ rpGens wLost = rpGens wFaultFree ∧
    consView wLost = [(500, 7, 2)] ∧ consView wFaultFree = [(500, 9, 2)] := by
  decide +kernel

/-- the same mechanism on the consumer object: deadlock without rollback at the clean-up statement:
every generation is advanced twice (providers 5 -> 7, 3 -> 5; consumer 1 -> 3) -/
theorem C17_witness_consumer_double_increment :
    wConsDouble.error = none ∧ wConsDouble.faulted = false ∧
    rpGens wConsDouble = [(1, 7), (2, 5)] ∧ consView wConsDouble = [(500, 9, 3)] := by
  decide +kernel

/-! ### the plain statement, its refutation, and what holds -/

/-- exactly once (database and answer of the fault-free run) or a clean failure (start state, and the
client is told: fault or exception answered) -/
def ExactlyOnceOrClean (db : DB R) (cons : ConsRow) (attr : ReqAttr) (allocs : List AllocReq) (k : Nat) (kind : Kind) : Prop :=
  ((mainTxnWithFault db cons attr allocs (some (k, kind))).state.db = (mainTxnWithFault db cons attr allocs none).state.db ∧
   (mainTxnWithFault db cons attr allocs (some (k, kind))).error = (mainTxnWithFault db cons attr allocs none).error ∧
   (mainTxnWithFault db cons attr allocs (some (k, kind))).faulted = (mainTxnWithFault db cons attr allocs none).faulted) ∨
  ((mainTxnWithFault db cons attr allocs (some (k, kind))).state = FS.ofRequest db allocs ∧
   ((mainTxnWithFault db cons attr allocs (some (k, kind))).faulted = true ∨
    (mainTxnWithFault db cons attr allocs (some (k, kind))).error.isSome = true))

/-- **the property as the text states it**, for the allocation write: every database, request, fault
position and fault kind -/
def C17_exactly_once_full (R : Type) [CapOps R] : Prop :=
  ∀ (db : DB R) (cons : ConsRow) (attr : ReqAttr) (allocs : List AllocReq) (k : Nat) (kind : Kind),
    ExactlyOnceOrClean db cons attr allocs k kind

/-- **C17_exactly_once_full_false.**  It does not hold (witness: the double increment). -/
theorem C17_exactly_once_full_false : ¬ C17_exactly_once_full Nat := by
  intro h
  rcases h wDb wCons wAttr wAllocs 5 (.deadlock false) with ⟨h1, -⟩ | ⟨h2, -⟩
  · have : rpGens wDouble = rpGens wFaultFree := congrArg (fun d : DB Nat => d.rps.map (fun r : RpRow => (r.id, r.gen))) h1
    revert this
    decide +kernel
  · have : rpGens wDouble = wDb.rps.map (fun r => (r.id, r.gen)) :=
      congrArg (fun s : FS Nat => s.db.rps.map (fun r : RpRow => (r.id, r.gen))) h2
    revert this
    decide +kernel

/-- the second witness refutes it as well: no disjunct holds for the lost consumer update -/
theorem C17_exactly_once_full_false' : ¬ ExactlyOnceOrClean wDb wCons wAttr wAllocs 2 (.deadlock true) := by
  rintro (⟨h1, -⟩ | ⟨h2, -⟩)
  · have : consView wLost = consView wFaultFree :=
      congrArg (fun d : DB Nat => d.consumers.map (fun c : ConsRow => (c.uuid, c.project, c.gen))) h1
    revert this
    decide +kernel
  · have : rpGens wLost = wDb.rps.map (fun r => (r.id, r.gen)) :=
      congrArg (fun s : FS Nat => s.db.rps.map (fun r : RpRow => (r.id, r.gen))) h2
    revert this
    decide +kernel

/-- the faults for which exactly-once-or-clean is proved -/
def Benign (db : DB R) (cons : ConsRow) (attr : ReqAttr) (allocs : List AllocReq) (k : Nat) (kind : Kind) : Prop :=
  kind = .other ∨ ¬ Reached db cons attr allocs k ∨
  (k ≤ firstIncPos allocs ∧ (kind = .deadlock false ∨ updateConsumer db cons attr = db)) ∨
  (kind = .deadlock true ∧ updateConsumer db cons attr = db ∧
    (db.rps.map (·.id)).Nodup ∧ (db.consumers.map (·.id)).Nodup ∧ ∃ db', setAllocations db allocs = .ok db')

/-- **C17_exactly_once_partial.**  Non-retryable faults anywhere; any fault whose position is not
reached; retryable faults at or before the first generation increment, when the transaction stayed
open or `update_consumers` had nothing to write; rolled-back deadlocks at EVERY position when
`update_consumers` had nothing to write, provider and consumer ids are unique and the sequential
write succeeds (exactly once up to the first consumer-generation UPDATE as the faulting statement,
a 409 with nothing stored after it). -/
theorem C17_exactly_once_partial (db : DB R) (cons : ConsRow) (attr : ReqAttr) (allocs : List AllocReq) (k : Nat)
    (kind : Kind) (h : Benign db cons attr allocs k kind) : ExactlyOnceOrClean db cons attr allocs k kind := by
  by_cases hr : Reached db cons attr allocs k
  · obtain ⟨sk, hsk⟩ := hr
    cases kind with
    | other =>
      right
      rw [mainTxn_other db cons attr allocs k sk hsk]
      exact ⟨rfl, Or.inl rfl⟩
    | deadlock b =>
      rcases h with h | hn | ⟨hk, hkind⟩ | ⟨hkind, hpre, hU, hUc, db', hok⟩
      · cases h
      · exact absurd ⟨sk, hsk⟩ hn
      · left
        cases b with
        | false => rw [mainTxn_deadlock_early db cons attr allocs k sk hk hsk]; exact ⟨rfl, rfl, rfl⟩
        | true =>
          rcases hkind with hkind | hpre
          · cases hkind
          · rw [mainTxn_rollback_early db cons attr attr allocs k sk hpre hk hsk]; exact ⟨rfl, rfl, rfl⟩
      · cases hkind
        by_cases hk1 : k ≤ firstIncPos allocs
        · left
          rw [mainTxn_rollback_early db cons attr attr allocs k sk hpre hk1 hsk]; exact ⟨rfl, rfl, rfl⟩
        · by_cases hk2 : k ≤ firstIncPos allocs + (rpPairs allocs).length
          · left
            rw [mainTxn_rollback_mid db cons attr allocs k sk db' hpre hU hok (by omega) hk2 hsk]
            exact ⟨rfl, rfl, rfl⟩
          · right
            rw [mainTxn_rollback_late db cons attr allocs k sk db' hpre hU hUc hok (by omega) hsk]
            exact ⟨rfl, Or.inr rfl⟩
  · left
    rw [nested_fault_not_reached db cons attr allocs k kind hr]
    exact ⟨rfl, rfl, rfl⟩

/-- **rollback_early_loses_exactly_update_consumers.**  What a deadlock WITH server-side rollback at
or before the first generation increment does in general: the whole result is the fault-free result
of the same request with attributes that make `update_consumers` write nothing (`keepAttr`: the
stored project and user, no type) - the allocation write is applied exactly once, the consumer
attribute change not at all, and the client is answered as if both had happened. -/
theorem rollback_early_loses_exactly_update_consumers (db : DB R) (cons : ConsRow) (attr : ReqAttr)
    (allocs : List AllocReq) (k : Nat) (hk : k ≤ firstIncPos allocs) (h : Reached db cons attr allocs k) :
    mainTxnWithFault db cons attr allocs (some (k, .deadlock true)) =
      mainTxnWithFault db cons (keepAttr cons) allocs none := by
  obtain ⟨sk, hsk⟩ := h
  exact mainTxn_rollback_early db cons attr (keepAttr cons) allocs k sk (updateConsumer_keepAttr db cons) hk hsk

/-! ### the hypotheses are satisfiable -/

/-- `faultfree_agrees_with_handler`: the sequential handler accepts the witness request -/
example : ∃ db', setAllocations (updateConsumer wDb wCons wAttr) wAllocs = .ok db' := ⟨_, rfl⟩

/-- `Reached`: every position 0..7 of the witness request is reached, position 8 is not -/
example : Reached wDb wCons wAttr wAllocs 0 ∧ Reached wDb wCons wAttr wAllocs 5 ∧ Reached wDb wCons wAttr wAllocs 7 :=
  ⟨⟨_, rfl⟩, ⟨_, rfl⟩, ⟨_, rfl⟩⟩

example : ¬ Reached wDb wCons wAttr wAllocs 8 :=
  fun ⟨sk, h⟩ => runBody_beyond _ _ 8 (by decide) sk h

/-- `Benign`, third disjunct: a deadlock without rollback at the first generation UPDATE (position 4) -/
example : Benign wDb wCons wAttr wAllocs 4 (.deadlock false) ∧ Reached wDb wCons wAttr wAllocs 4 :=
  ⟨Or.inr (Or.inr (Or.inl ⟨by decide, Or.inl rfl⟩)), ⟨_, rfl⟩⟩

/-- `Benign` with a rolled-back deadlock: the request keeps the consumer's project and user -/
example : Benign wDb wCons (keepAttr wCons) wAllocs 3 (.deadlock true) :=
  Or.inr (Or.inr (Or.inl ⟨by decide, Or.inr (updateConsumer_keepAttr wDb wCons)⟩))

/-- `Benign`, fourth disjunct: a rolled-back deadlock at any position `k` of the request that keeps project
and user; positions 6 (consumer-generation UPDATE: exactly once) and 7 (clean-up: 409, nothing stored) are
reached -/
example (k : Nat) : Benign wDb wCons (keepAttr wCons) wAllocs k (.deadlock true) :=
  Or.inr (Or.inr (Or.inr ⟨rfl, updateConsumer_keepAttr wDb wCons, by decide, by decide, ⟨_, rfl⟩⟩))

example : Reached wDb wCons (keepAttr wCons) wAllocs 6 ∧ Reached wDb wCons (keepAttr wCons) wAllocs 7 ∧
    (mainTxnWithFault wDb wCons (keepAttr wCons) wAllocs (some (7, .deadlock true))).error = some .concurrentUpdate ∧
    (mainTxnWithFault wDb wCons (keepAttr wCons) wAllocs (some (6, .deadlock true))).error = none :=
  ⟨⟨_, rfl⟩, ⟨_, rfl⟩, by decide +kernel, by decide +kernel⟩

/-- the two refuting witnesses are outside `Benign`: position 5 is after the first increment; at position 2
the rollback loses a real attribute change (`updateConsumer wDb wCons wAttr ≠ wDb`) -/
example : ¬ (5 ≤ firstIncPos wAllocs) ∧
    (updateConsumer wDb wCons wAttr).consumers.map (·.project) ≠ wDb.consumers.map (·.project) := by
  decide

end Placement.Props.C17
