/-
  C14  Each microversion exposes exactly its documented surface.

  Statements over the tables generated from the source tree (`Placement.Gen.Versions`) and the model of
  dispatch / version windows / negotiation / gates (`Placement.Model.Versions`).  The quantifiers of the
  property are finite tables (40 microversions × routes × methods, the gate sites, the documented
  features), so kernel evaluation (`decide +kernel`) is a proof; statements about *all* paths, methods and
  version numbers are proved generally from those table facts.

  What ties this file to the code: every theorem below mentions generated data.  Widening a window,
  changing a gate constant, (un)declaring a route, adding a version or an undocumented gate changes
  `Gen/Versions.lean` and one of these proofs stops checking (or `availability` changes and the probe of
  the real application in harness/props/c14.py disagrees).
-/
import Placement.Lemmas.Versions

namespace Placement.Props.C14
open Placement.Gen Placement.Versions

/-! ## the version list -/

/-- VERSIONS is exactly 1.0, 1.1, …, 1.39: contiguous, ordered, 40 entries. -/
theorem versions_are_0_to_39 : versionMinors = List.range 40 := versionMinors_eq_range

theorem max_version_is_39 : maxMinor = 39 := maxMinor_eq

theorem min_version_is_0 : minMinor = 0 := minMinor_eq

/-- every microversion has its section in rest_api_version_history.rst, in order, and nothing else -/
theorem every_version_documented : docSections.map (·.1) = versionMinors := by decide +kernel

/-! ## version windows of `version_handler` -/

/-- every window lies inside the version list -/
theorem windows_within_versions : ∀ w ∈ windows, w.lo ≤ w.hi ∧ w.hi ≤ maxMinor := by decide +kernel

/-- no two windows registered under one handler name overlap -/
theorem windows_disjoint :
    ∀ w₁ ∈ windows, ∀ w₂ ∈ windows, w₁.hid = w₂.hid → (w₁.lo, w₁.hi) ≠ (w₂.lo, w₂.hi) →
      w₁.hi < w₂.lo ∨ w₂.hi < w₁.lo := by
  decide +kernel

/-- the windows of a versioned handler cover exactly `[introducedAt, 1.39]`, without holes: a feature
introduced at N is present from N on, including at `latest` -/
theorem windows_contiguous_to_max :
    ∀ r ∈ routes, r.versioned = true → ∀ v, v ≤ maxMinor →
      (inSomeWindow r.hid v = true ↔ introducedAt r.hid ≤ v) :=
  fun _ hr hver _ hv => inSomeWindow_iff hr hver hv

/-- the status used on a version miss is the same on every window of the handler the route points to,
and is 404 or 405 -/
theorem miss_status_consistent :
    ∀ r ∈ routes, r.versioned = true →
      (r.missStatus = 404 ∨ r.missStatus = 405) ∧ ∀ w ∈ windowsOf r.hid, w.status = r.missStatus := by
  decide +kernel

/-- a route is marked versioned exactly when windows are registered for its handler, and every
registered window belongs to a routed handler -/
theorem windows_routed :
    (∀ r ∈ routes, r.versioned = !(windowsOf r.hid).isEmpty) ∧
    (∀ w ∈ windows, routes.any (fun r => r.hid == w.hid) = true) := by
  decide +kernel

/-- the interned handler ids used by the table checks name the handler functions they stand for -/
theorem handler_ids_consistent :
    (∀ r ∈ routes, handlerNames[r.hid]? = some r.handler) ∧ (∀ w ∈ windows, handlerNames[w.hid]? = some w.handler) := by
  decide +kernel

/-! ## availability -/

/-- the (path, method) → first version / status-below table computed from the code is the documented one;
adding, removing or re-versioning a route breaks this -/
theorem route_table_as_documented : routeSurface = documentedRoutes := by decide +kernel

/-- unknown path ⇒ 404 at every version, for every method -/
theorem undeclared_path_404 (p m : String) (v : Nat) (h : pathDeclared p = false) :
    availability p m v = .notFound404 := by
  have hf : findRoute p m = none := by
    unfold findRoute
    rw [List.find?_eq_none]
    intro r hr
    unfold pathDeclared at h
    rw [List.any_eq_false] at h
    have := h r hr
    simp_all
  rw [availability_none hf, h]; simp

/-- known path, undeclared method ⇒ 405 at every version -/
theorem undeclared_method_405 (p m : String) (v : Nat) (hp : pathDeclared p = true)
    (hm : findRoute p m = none) : availability p m v = .notAllowed405 := by
  rw [availability_none hm, hp]; simp

/-- once available, available at every later version up to the maximum (all paths, methods, versions) -/
theorem availability_monotone (p m : String) (v v' : Nat) (hle : v ≤ v') (hmax : v' ≤ maxMinor)
    (h : availability p m v = .ok) : availability p m v' = .ok := by
  have hv : v ≤ maxMinor := Nat.le_trans hle hmax
  obtain ⟨r, hr, hc⟩ := (availability_ok_iff hv).mp h
  refine (availability_ok_iff hmax).mpr ⟨r, hr, ?_⟩
  rcases hc with hc | hc
  · exact Or.inl hc
  · exact Or.inr (Nat.le_trans hc hle)

/-- below the version that introduced it a declared route is not served, and the answer is the
documented 404 / 405 -/
theorem below_introduction_unavailable (p m : String) (n v : Nat)
    (hn : routeIntroducedAt p m = some n) (hv : v < n) (hmax : v ≤ maxMinor) :
    availability p m v = .notFound404 ∨ availability p m v = .notAllowed405 := by
  unfold routeIntroducedAt at hn
  cases hf : findRoute p m with
  | none => simp [hf] at hn
  | some r =>
    simp [hf] at hn
    have hmem := findRoute_mem hf
    by_cases hver : r.versioned = true
    · simp [hver] at hn
      have hw : inSomeWindow r.hid v = false := by
        cases hh : inSomeWindow r.hid v with
        | false => rfl
        | true => have := (inSomeWindow_iff hmem hver hmax).mp hh; omega
      rw [availability_some hf, hver, hw]
      unfold statusAvail
      by_cases h405 : r.missStatus = 405 <;> simp [h405]
    · simp at hver
      simp [hver] at hn
      omega

/-- from the introducing version on (up to the maximum, hence at `latest`) the route is served -/
theorem from_introduction_available (p m : String) (n v : Nat)
    (hn : routeIntroducedAt p m = some n) (hv : n ≤ v) (hmax : v ≤ maxMinor) :
    availability p m v = .ok := by
  unfold routeIntroducedAt at hn
  cases hf : findRoute p m with
  | none => simp [hf] at hn
  | some r =>
    simp [hf] at hn
    refine (availability_ok_iff hmax).mpr ⟨r, hf, ?_⟩
    by_cases hver : r.versioned = true
    · simp [hver] at hn; right; omega
    · simp at hver; exact Or.inl hver

/-- the hypotheses of the three theorems above are met by real table entries -/
example : routeIntroducedAt "/reshaper" "POST" = some 30 ∧ availability "/reshaper" "POST" 29 = .notFound404
    ∧ availability "/reshaper" "POST" 30 = .ok ∧ availability "/reshaper" "POST" 39 = .ok := by decide +kernel
example : availability "/resource_providers/{uuid}/inventories" "DELETE" 4 = .notAllowed405
    ∧ availability "/resource_providers/{uuid}/inventories" "DELETE" 5 = .ok := by decide +kernel
example : pathDeclared "/nope" = false ∧ pathDeclared "/usages" = true ∧ findRoute "/usages" "PATCH" = none := by
  decide +kernel

/-! ## negotiation -/

/-- no `openstack-api-version` header means 1.0 -/
theorem negotiation_absent_is_1_0 : negotiate .absent = .accept 0 := by decide

/-- a header that names only other services is ignored -/
theorem negotiation_other_service_is_1_0 : negotiate .otherService = .accept 0 := by decide

/-- `latest` means 1.39 -/
theorem negotiation_latest_is_max : negotiate .latest = .accept 39 := by decide

/-- every version 1.0 … 1.39 is accepted as itself -/
theorem negotiation_in_range_accepted (n : Nat) (h : n ≤ 39) : negotiate (.ver 1 n) = .accept n := by
  have : n ∈ versionMinors := mem_versionMinors.mpr (by rw [maxMinor_eq]; exact h)
  simp [negotiate, this]

/-- every other numeric version (1.40, 0.9, 2.0, …) is refused with 406 -/
theorem negotiation_out_of_range_406 (major minor : Nat) (h : ¬ (major = 1 ∧ minor ≤ 39)) :
    negotiate (.ver major minor) = .reject406 := by
  have : ¬ (major = 1 ∧ minor ∈ versionMinors) := by
    intro ⟨h1, h2⟩
    exact h ⟨h1, by have := mem_versionMinors.mp h2; rw [maxMinor_eq] at this; exact this⟩
  simp [negotiate, this]

/-- an unparsable version is a 400 -/
theorem negotiation_malformed_400 : negotiate .malformed = .reject400 := by decide

/-- whenever the version is accepted the response header names the version actually applied,
and nothing is named when it is refused -/
theorem response_header_names_applied_version (h : VersionHeader) :
    (∀ n, negotiate h = .accept n → responseVersionHeader (negotiate h) = some ("placement 1." ++ toString n)) ∧
    ((negotiate h = .reject406 ∨ negotiate h = .reject400) → responseVersionHeader (negotiate h) = none) := by
  constructor
  · intro n hn; rw [hn]; rfl
  · rintro (hn | hn) <;> rw [hn] <;> rfl

/-- a refused version is refused whatever the route; an accepted one is served or refused by
`availability` at the negotiated minor -/
theorem respond_spec (h : VersionHeader) (p m : String) :
    (negotiate h = .reject406 → respond h p m = .status 406) ∧
    (negotiate h = .reject400 → respond h p m = .status 400) ∧
    (∀ v, negotiate h = .accept v →
      (availability p m v = .ok → respond h p m = .served v) ∧
      (availability p m v = .notFound404 → respond h p m = .status 404) ∧
      (availability p m v = .notAllowed405 → respond h p m = .status 405)) := by
  refine ⟨fun hn => by simp [respond, hn], fun hn => by simp [respond, hn], fun v hn => ?_⟩
  refine ⟨fun ha => ?_, fun ha => ?_, fun ha => ?_⟩ <;> simp [respond, hn, ha]

/-! ## gates, schema chains and the feature table -/

/-- `matches((1, n))` / `>= (1, n)` at a listed version is "n ≤ v": a gate opens at n and stays open
up to and including the maximum version -/
theorem gate_open_iff (n v : Nat) (hv : v ≤ maxMinor) : gateOpen n v = true ↔ n ≤ v := by
  simp [gateOpen, hv]

/-- every generated gate site is attributed to exactly one documented feature (one-to-one, position by
position, same function and ordinal) and the feature's version is the gate's version -/
theorem gates_accounted :
    gates.map (fun g => (g.func, g.ord, g.minor)) = gateClaims.map (fun c => (c.name, c.num, c.minor)) := by
  decide +kernel

/-- every window that does not start at 1.0 is attributed to exactly one feature of that version -/
theorem windows_accounted :
    (windows.filter (fun w => w.lo != 0)).map (fun w => (w.handler, w.lo, w.lo))
      = windowClaims.map (fun c => (c.name, c.num, c.minor)) := by
  decide +kernel

/-- every attribution names a feature of the table, features are distinct, and every feature of the table
is implemented by at least one gate site or window -/
theorem claims_name_features :
    (∀ c ∈ gateClaims ++ windowClaims, (features.filter (fun f => c.isOf f)).length = 1) ∧
    (features.map (fun f => (f.minor, f.tag))).Nodup ∧
    (∀ f ∈ features, f.gateSites.length + f.windowSites.length ≠ 0) := by
  decide +kernel

/-- every microversion after 1.0 documents at least one feature, and no feature lies outside 1.1 … 1.39 -/
theorem every_version_has_a_feature :
    (∀ v ∈ versionMinors, v ≠ 0 → features.any (fun f => f.minor == v) = true) ∧
    (∀ f ∈ features, 1 ≤ f.minor ∧ f.minor ≤ maxMinor) := by
  decide +kernel

/-- table fact behind `feature_present_iff_version`: all sites of a feature carry the feature's version -/
theorem feature_sites_versions :
    ∀ f ∈ features,
      f.gateSites.map (·.minor) = List.replicate f.gateSites.length f.minor ∧
      f.windowSites.map (·.lo) = List.replicate f.windowSites.length f.minor := by
  decide +kernel

/-- For every documented feature and every microversion: the code's gates and windows that implement
the feature are open exactly from the documented version on (absent below N, present from N on,
including at 1.39 = `latest`; at 1.0 = "no version requested" no feature is on). -/
theorem feature_present_iff_version :
    ∀ f ∈ features, ∀ v, v ≤ maxMinor → f.implementedAt v = f.documentedAt v := by
  intro f hf v hv
  obtain ⟨hg, hw⟩ := feature_sites_versions f hf
  have hne := claims_name_features.2.2 f hf
  unfold Feature.implementedAt Feature.documentedAt
  have e1 : f.gateSites.all (fun g => gateOpen g.minor v)
      = (f.gateSites.map (·.minor)).all (fun n => gateOpen n v) := by rw [List.all_map]; rfl
  have e2 : f.windowSites.all (fun w => decide (w.lo ≤ v))
      = (f.windowSites.map (·.lo)).all (fun n => decide (n ≤ v)) := by rw [List.all_map]; rfl
  rw [e1, e2, hg, hw]
  have hgo : gateOpen f.minor v = decide (f.minor ≤ v) := by simp [gateOpen, hv]
  simp only [List.all_replicate, hgo]
  by_cases hle : f.minor ≤ v
  · simp [hle]
  · simp [hle]
    intro h1 h2
    simp [h1, h2] at hne

example : (features.filter (fun f => f.tag == "aggregates_generation")).map
    (fun f => (f.implementedAt 18, f.implementedAt 19, f.implementedAt 39)) = [(false, true, true)] := by
  decide +kernel

/-- every schema selection (if/elif chain, sequence of ifs, loop over a version list) picks at every
microversion the schema whose name carries the greatest version not above the request's, and each
arm's gate version is the version in the schema's name -/
theorem schema_chains_exact :
    ∀ c ∈ schemaChains,
      (∀ a ∈ c.arms, a.nameMinor = some a.gateMinor) ∧ ∀ v ∈ versionMinors, chainSelect c v = chainIdeal c v := by
  decide +kernel

/-- a window whose handler has no selection chain never refers to a schema newer than its first version -/
theorem window_schemas_not_from_future :
    ∀ w ∈ windows, schemaChains.all (fun c => c.func != w.handler) = true →
      ∀ s ∈ w.schemas, ∀ n ∈ s.2, n ≤ w.lo := by
  decide +kernel

end Placement.Props.C14
