/-
  C05  A write guarded by a provider generation succeeds only against that generation
       (every interleaving at database-transaction granularity, any number of requests).

  The pool of requests in flight is `ops.map (prog cfg)` (`Model/Txn.lean`: one `txn` node per
  outermost database transaction of the handler), a schedule is any `List Nat` naming which request
  runs its next transaction (`Prog.runSched`).

  * `generation_monotone_step` / `generation_monotone_sched`: no transaction of any request lowers a
    provider (or consumer) generation or reuses an internal id;
  * `guarded_write_sees_generation` (one transaction) and `guarded_commit_sees_generation` (lifted to
    every schedule): a 2xx answer of PUT inventories / PUT inventory / PUT aggregates (>= 1.19)
    carrying generation `g` for provider `u` means: at the scheduling step of its write transaction
    the provider had generation `g`, and `g + 1` afterwards;
  * `at_most_one_success_same_generation`: of ANY number of such requests carrying the same `(u, g)`,
    under ANY schedule and whatever other requests (not creating/updating/deleting providers) are in
    flight, at most one answers 2xx;
  * `stale_generation_is_409_concurrent_update` (every schedule), `stale_write_is_rejected` (one
    transaction): the losers answer 409 `placement.concurrent_update` and change nothing;
  * `derived_generation_no_overwrite` (POST / DELETE inventory, DELETE inventories, DELETE traits; every
    schedule) and `alloc_write_validated_at_commit` (allocation writes: server-side retry re-validates
    capacity inside the write transaction);
  * PUT traits (known finding F1: a PUT naming the traits the provider already has answers 200 without
    the compare-and-swap): `C05_witness_noop_traits`, `traits_at_most_one_full_false` (the plain
    statement is false), `at_most_one_effective_writer_same_generation` (what is true, PUT traits
    included: all but at most one of the requests carrying `(u, g)` leave the state unchanged in every
    step).

  Not proved: POST /reshaper as a member of the set in `at_most_one_success_same_generation` (its main
  transaction runs several compare-and-swaps per provider with locally tracked generations and the
  retry of `replace_all`; needed: "success implies the provider's generation at the start of the
  transaction was at most the one carried", see the report).
-/
import Placement.Lemmas.GuardTie
import Placement.Lemmas.SchedRp2
import Placement.Lemmas.SchedAlloc
import Placement.Lemmas.WfExample

namespace Placement.Props.C05
open Placement Placement.Hier Placement.Gens Placement.Sched
variable {R : Type} [CapOps R]
set_option linter.unusedSectionVars false

/-! ## Generations never decrease, transaction by transaction -/

/-- **generation_monotone_step.** Every transaction of every request, run on any state with unique
ids, leaves a state in which every provider and consumer row is either new (fresh internal id) or
continues the row with the same id with a generation that is not smaller (`GenLe` of C10); ids stay
unique and below the fresh-id counters. -/
theorem generation_monotone_step (cfg : Config) (op : Op R) :
    All (fun s s' : DB R => Ids s.gcore → GenLe s.gcore s'.gcore) (prog cfg op) :=
  gens_monotone_all cfg op

/-- ... hence under every schedule of every pool of requests: a provider row of the start state
that still exists has a generation that is not smaller. -/
theorem generation_monotone_sched (cfg : Config) (ops : List (Op R)) (db : DB R) (hU : Uniq db)
    (sched : List Nat) {r r' : RpRow} (hr : r ∈ db.rps)
    (hr' : r' ∈ (Prog.runSched sched db (ops.map (prog cfg))).1.rps) (hid : r'.id = r.id) : r.gen ≤ r'.gen := by
  have hpool : PoolAll (QGenLe (R := R)) (ops.map (prog cfg)) := by
    intro p hp
    obtain ⟨op, -, rfl⟩ := List.mem_map.mp hp
    exact gens_monotone_all cfg op
  have hI := ids_of_uniq hU
  have := hpool.runSched_rel (T := fun a b : DB R => GenLe a.gcore b.gcore) (fun s : DB R => Ids s.gcore)
    (fun s s' hs q => (q hs).ids) (fun a b c t hb q => t.trans (q hb)) db sched db _ hI (GenLe.refl hI)
  exact this.1.rp_mono hI hr hr' hid

/-! ## The requests that carry a provider generation

`carries u g op` (Lemmas/SchedRp2.lean): `op` is PUT inventories / PUT one inventory / PUT aggregates
(>= 1.19) for provider uuid `u` carrying generation `g`; `carriesT` additionally admits PUT traits. -/

/-- **guarded_write_sees_generation** (one transaction).  The write transaction of a guarded
request, entered with the provider id `p` and generation `g` read before: a 2xx answer implies that
provider `p` had generation `g` in the state the transaction ran on and has `g + 1` afterwards;
any other answer leaves the state unchanged. -/
theorem guarded_write_sees_generation (p g : Nat) (db : DB R) :
    (∀ invs, let t := tInvSetW p g invs db
       (∀ r, t.2 = .done r → r.ok = true → RpAt p g db ∧ RpAt p (g + 1) t.1 ∧ RpPast p g t.1) ∧
       (∀ r, t.2 = .done r → r.ok = false → t.1 = db)) ∧
    (∀ inv, let t := tInvUpdateW p g inv db
       (∀ r, t.2 = .done r → r.ok = true → RpAt p g db ∧ RpAt p (g + 1) t.1 ∧ RpPast p g t.1) ∧
       (∀ r, t.2 = .done r → r.ok = false → t.1 = db)) ∧
    (∀ aggs, let t := tAggsSetW p g aggs true db
       (∀ r, t.2 = .done r → r.ok = true → RpAt p g db ∧ RpAt p (g + 1) t.1 ∧ RpPast p g t.1) ∧
       (∀ r, t.2 = .done r → r.ok = false → t.1 = db)) := by
  refine ⟨fun invs => ?_, fun inv => ?_, fun aggs => ?_⟩
  · unfold tInvSetW
    split
    · rename_i db' h
      obtain ⟨db0, hg, hc⟩ := setInventory_ok h
      obtain ⟨h1, h2, h3⟩ := cas_commit hg hc
      exact ⟨fun r _ _ => ⟨h1, h3, h2⟩, fun r hr hok => by cases hr; exact absurd hok (by decide)⟩
    · exact ⟨fun r hr hok => by cases hr; exact absurd hok (errInvSet_not_ok _), fun _ _ _ => rfl⟩
  · unfold tInvUpdateW
    split
    · rename_i db' h
      obtain ⟨db0, hg, hc⟩ := updateInventory_ok h
      obtain ⟨h1, h2, h3⟩ := cas_commit hg hc
      exact ⟨fun r _ _ => ⟨h1, h3, h2⟩, fun r hr hok => by cases hr; exact absurd hok (by decide)⟩
    · exact ⟨fun r hr hok => by cases hr; exact absurd hok (errInvUpdate_not_ok _), fun _ _ _ => rfl⟩
  · unfold tAggsSetW
    split
    · rename_i db' h
      rcases setAggregates_ok h with ⟨hf, -⟩ | ⟨-, db0, hg, hc⟩
      · cases hf
      · obtain ⟨h1, h2, h3⟩ := cas_commit hg hc
        exact ⟨fun r _ _ => ⟨h1, h3, h2⟩, fun r hr hok => by cases hr; exact absurd hok (by decide)⟩
    · exact ⟨fun r hr hok => by cases hr; exact absurd hok (errAggs_not_ok _), fun _ _ _ => rfl⟩

/-- **guarded_commit_sees_generation** (every schedule).  If request `i` of the pool carries
generation `g` for provider `u` and answers 2xx, then the schedule splits at a step of request `i`
(its write transaction) such that just before that step provider `u` had generation `g` and just
after it generation `g + 1` (`p` is the provider's internal id, fixed throughout the run). -/
theorem guarded_commit_sees_generation (cfg : Config) (ops : List (Op R))
    (hops : ∀ op ∈ ops, isProviderOp op = false) (db : DB R) (hU : Uniq db) (sched : List Nat) (u g : Nat)
    {i : Nat} {op : Op R} (hi : ops[i]? = some op) (hc : carries u g op = true) {a : Resp}
    (hia : (Prog.runSched sched db (ops.map (prog cfg))).2[i]? = some (.done a)) (ha : a.ok = true) :
    ∃ p pre post, rpIdOf db u = some p ∧ sched = pre ++ i :: post ∧
      rpIdOf (Prog.runSched pre db (ops.map (prog cfg))).1 u = some p ∧
      RpAt p g (Prog.runSched pre db (ops.map (prog cfg))).1 ∧
      RpAt p (g + 1) (Prog.runSched (pre ++ [i]) db (ops.map (prog cfg))).1 := by
  have hpool := pool_evo cfg ops hops
  have hw : WRp u (rpIdOf db u) db := ⟨ids_of_uniq hU, rfl⟩
  have hW : ∀ s s' : DB R, QEvo (fun _ => True) s s' → WRp u (rpIdOf db u) s → WRp u (rpIdOf db u) s' :=
    fun s s' q h => h.evo q
  have hcom := carries_commits cfg hc (rpIdOf db u) ((rpIdOf db u).getD 0) (fun p' h => by rw [h]; rfl)
  obtain ⟨pre, post, h1, h2, h3⟩ := commit_step_exists hW i sched db _ _ hpool hw
    (by rw [List.getElem?_map, hi]; rfl) hcom a hia ha
  have hwpre := (hpool.runSched (WRp u (rpIdOf db u)) hW pre db _ hw).2
  cases ho : rpIdOf db u with
  | none =>
    -- the provider does not exist at the start and is never created: the guard cannot hold
    exfalso
    rw [ho] at hwpre
    have := hwpre.2.symm.trans h2.1
    cases this
  | some p =>
    rw [ho] at h2 h3 hwpre
    exact ⟨p, pre, post, rfl, h1, hwpre.2, h2.2, h3.2⟩

/-- **at_most_one_success_same_generation.**  Any number of requests in flight together, under any
schedule; no request of the pool creates, updates or deletes providers.  Of the requests that carry
the same generation `g` for the same provider `u` (PUT inventories, PUT one inventory, PUT
aggregates >= 1.19, in any mixture) at most one answers 2xx. -/
theorem at_most_one_success_same_generation (cfg : Config) (ops : List (Op R))
    (hops : ∀ op ∈ ops, isProviderOp op = false) (db : DB R) (hU : Uniq db) (sched : List Nat) (u g : Nat)
    {i j : Nat} {opi opj : Op R} (hi : ops[i]? = some opi) (hj : ops[j]? = some opj)
    (hci : carries u g opi = true) (hcj : carries u g opj = true) {a b : Resp}
    (hia : (Prog.runSched sched db (ops.map (prog cfg))).2[i]? = some (.done a)) (ha : a.ok = true)
    (hjb : (Prog.runSched sched db (ops.map (prog cfg))).2[j]? = some (.done b)) (hb : b.ok = true) :
    i = j := by
  let p := (rpIdOf db u).getD 0
  refine at_most_one_commit (Q := QEvo (fun _ => True)) (W := WRp u (rpIdOf db u)) (D := RpPast p g)
    (C := CRp u p g) (B := BRp p g) (ok := okR)
    (fun k => ∃ op, ops[k]? = some op ∧ carries u g op = true)
    (fun s s' q h => h.evo q) (fun s s' q hw hd => hd.evo q hw.1)
    (fun s _ hc => rpAt_not_past hc.2) (fun s s' _ hb => hb.1)
    sched db _ (pool_evo cfg ops hops) ⟨ids_of_uniq hU, rfl⟩ ?_ ⟨opi, hi, hci⟩ ⟨opj, hj, hcj⟩ hia ha hjb hb
  rintro k ⟨op, hk, hc⟩ q hq
  rw [List.getElem?_map, hk] at hq
  cases hq
  exact carries_commits cfg hc _ p (fun p' h => by show p' = (rpIdOf db u).getD 0; rw [h]; rfl)

/-! ## Stale generation: 409 `placement.concurrent_update`, nothing changed -/

/-- **stale_generation_is_409_concurrent_update** (every schedule).  Split the schedule as
`pre ++ rest`.  If after `pre` the provider `u` (internal id `p`) is beyond generation `g` and request
`i`, which carries `(u, g)`, has not run a transaction yet, then whatever happens in `rest`:
request `i`, when it answers, answers 409 with code `placement.concurrent_update`, and none of its
scheduling steps changes the state. -/
theorem stale_generation_is_409_concurrent_update (cfg : Config) (ops : List (Op R))
    (hops : ∀ op ∈ ops, isProviderOp op = false) (db : DB R) (hU : Uniq db) (pre rest : List Nat) (u g p : Nat)
    {i : Nat} {op : Op R} (hi : ops[i]? = some op) (hc : carries u g op = true) (hnot : i ∉ pre)
    (hp : rpIdOf db u = some p) (hpast : RpPast p g (Prog.runSched pre db (ops.map (prog cfg))).1) :
    (∀ a, (Prog.runSched (pre ++ rest) db (ops.map (prog cfg))).2[i]? = some (.done a) → a = r409 .concurrentUpdate) ∧
    (∀ r1 r2, rest = r1 ++ i :: r2 →
      (Prog.runSched (pre ++ r1 ++ [i]) db (ops.map (prog cfg))).1 =
      (Prog.runSched (pre ++ r1) db (ops.map (prog cfg))).1) := by
  have hpool := pool_evo cfg ops hops
  have hW : ∀ s s' : DB R, QEvo (fun _ => True) s s' → WRp u (some p) s → WRp u (some p) s' :=
    fun s s' q h => h.evo q
  have hpre := hpool.runSched (WRp u (some p)) hW pre db _ ⟨ids_of_uniq hU, hp⟩
  have hD : ∀ s s' : DB R, QEvo (fun _ => True) s s' → DPast u p g s → DPast u p g s' := fun s s' q h => h.evo q
  have hin : ∀ q, (Prog.runSched pre db (ops.map (prog cfg))).2[i]? = some q → Inert (DPast (R := R) u p g) Is409 q := by
    intro q hq
    rw [runSched_untouched i pre db _ hnot, List.getElem?_map, hi] at hq
    cases hq
    cases op <;> simp only [carries, Bool.and_eq_true, beq_iff_eq, decide_eq_true_eq, Bool.false_eq_true] at hc
    · obtain ⟨rfl, rfl⟩ := hc; exact pInvSet_inert _ _ _ _ p
    · obtain ⟨rfl, rfl⟩ := hc; exact pInvUpdate_inert _ _ _ _ p
    · obtain ⟨⟨rfl, rfl⟩, hmv⟩ := hc; exact pAggsSet_inert _ _ _ hmv _ p
  obtain ⟨h1, h2⟩ := inert_runSched hD i rest _ _ hpre.1 ⟨hpre.2, hpast⟩ hin
  constructor
  · intro a ha
    rw [runSched_append] at ha
    exact h1 a ha
  · intro r1 r2 hr
    have := h2 r1 r2 hr
    rw [List.append_assoc, runSched_append, runSched_append pre r1]
    exact this

/-- **stale_write_is_rejected** (one transaction).  The write transaction of a guarded request that
runs when the provider no longer has the generation carried: state unchanged, answer not 2xx
(409 `placement.concurrent_update` unless the write is refused for another reason first: unknown
class 400, inventory in use 409). -/
theorem stale_write_is_rejected (p g : Nat) (s : DB R) (hst : ¬ RpAt p g s) :
    (∀ invs, (tInvSetW p g invs s).1 = s ∧ ∃ e, (tInvSetW p g invs s).2 = .done (errInvSet e)) ∧
    (∀ inv, (tInvUpdateW p g inv s).1 = s ∧ ∃ e, (tInvUpdateW p g inv s).2 = .done (errInvUpdate e)) ∧
    (∀ aggs, (tAggsSetW p g aggs true s).1 = s ∧ ∃ r, (tAggsSetW p g aggs true s).2 = .done r ∧ ¬ okR r) :=
  guarded_write_stale p g s hst

/-- the compare-and-swap failure itself is mapped to 409 `placement.concurrent_update` -/
example : errInvSet .rpConcurrentUpdate = r409 .concurrentUpdate ∧ errInvUpdate .rpConcurrentUpdate = r409 .concurrentUpdate ∧
    errInvAdd .rpConcurrentUpdate = r409 .concurrentUpdate ∧ errInvDelete .rpConcurrentUpdate = r409 .concurrentUpdate ∧
    errInvDeleteAll .rpConcurrentUpdate = r409 .concurrentUpdate := by decide

/-! ## Requests that derive the generation themselves -/

/-- **derived_generation_no_overwrite** (every schedule).  POST inventory, DELETE inventory, DELETE
inventories (>= 1.5) and DELETE traits read the provider and use ITS generation for the write.  If
such a request answers 2xx, it ran exactly two transactions, on the states `s1` (read) and `s2`
(write) of the run, and the provider row read in `s1` still had the same generation in `s2`
(or, for DELETE traits, the provider had no traits in `s2` and nothing was written): since every
committed change of a provider raises its generation (C10) and generations never decrease
(`generation_monotone_step`), no change of that provider was committed between the two. -/
theorem derived_generation_no_overwrite (cfg : Config) (ops : List (Op R))
    (hops : ∀ op ∈ ops, isProviderOp op = false) (db : DB R) (hU : Uniq db) (sched : List Nat) (u : Nat)
    {i : Nat} {op : Op R} (hi : ops[i]? = some op) (hd : derives u op = true) {a : Resp}
    (hia : (Prog.runSched sched db (ops.map (prog cfg))).2[i]? = some (.done a)) (ha : a.ok = true) :
    ∃ s1 s2 rp, obsOf i sched db (ops.map (prog cfg)) = [s1, s2] ∧ s1.rpByUuid u = some rp ∧
      EvoG (fun _ => True) s1.gcore s2.gcore ∧
      (RpAt rp.id rp.gen s2 ∨ traitsUnchanged s2 rp.id [] = true) := by
  have hpool := pool_evo cfg ops hops
  obtain ⟨l1, f1, hprog, hshape, hrow⟩ := derives_two_stage cfg hd
  have hobs := observe (Q := QEvo (R := R) (fun _ => True)) (T := QEvo (fun _ => True))
    (fun s => QEvo.refl _ s) (fun a b c t q hI => (t hI).trans (q (t hI).ids)) i sched db db _ (prog cfg op) hpool
    (QEvo.refl _ db) (by rw [List.getElem?_map, hi]; rfl)
  obtain ⟨hfeed, hchain⟩ := hobs
  rw [hprog] at hfeed hchain
  have hfa : feed (.txn l1 f1) (obsOf i sched db (ops.map (prog cfg))) = .done a := by
    have := hia.symm.trans hfeed
    exact (Option.some.inj this).symm
  obtain ⟨s1, s2, l2, f2, hobs2, ht0, hq, ht, hfin⟩ := chain_two_stage (ok := okR) hshape hchain hfa ha
  obtain ⟨rp, hrp, hw⟩ := hrow s1 l2 f2 hq
  refine ⟨s1, s2, rp, hobs2, hrp, ht (ht0 (ids_of_uniq hU)).ids, ?_⟩
  exact (hw s2 a hfin ha).imp id (·.2)

/-- **derived_generation_no_overwrite, allocation writes** (one transaction; holds for the main
transaction of PUT /allocations/{c} and POST /allocations on ANY state, hence at every scheduling
step).  Allocation writes read provider generations early, but `replace_all` retries a lost provider
compare-and-swap with generations re-read from the committed state, and every attempt re-runs the
capacity and unit checks inside the write transaction.  So a 2xx answer means: every positive amount
fits its inventory row - unit constraints, and the total used by ALL consumers within capacity - in
the state the transaction leaves, i.e. against everything committed before it, whatever the request
had read (C01 `setAllocations_safe` at commit). -/
theorem alloc_write_validated_at_commit (ctx : ACtx R) (hk : ctx.kind ≠ .reshape) (objs : List AllocReq) (db : DB R)
    (hnn : ∀ a ∈ objs, 0 ≤ a.used) (hu : InvKeysNodup db) (hok : (aMain ctx objs db).2 = .done r204) :
    ∀ a ∈ objs, 0 < a.used → ∀ rc, db.rcId a.rcName = some rc →
      (∃ i ∈ (aMain ctx objs db).1.invs, i.rp = a.rpId ∧ i.rc = rc) ∧
      ∀ i ∈ (aMain ctx objs db).1.invs, i.rp = a.rpId → i.rc = rc →
        FitsRow i a.used ((aMain ctx objs db).1.usage a.rpId rc) :=
  aMain_safe ctx hk objs db hnn hu hok

/-! ## The hypotheses are satisfiable: three PUT inventories with the same generation, one PUT
aggregates and an allocation write in flight on `Wf.exDb` (provider uuid 101: id 2, generation 3) -/

section examples
open Placement.Wf

def exInv (total : Int) : InvSpec Nat :=
  { rcName := 0, total := total, reserved := 0, minUnit := 1, maxUnit := 8, stepSize := 1, ratio := 1 }

def exPut : ConsumerReq :=
  { uuid := 500, project := some 7, user := some 8, ctype := none, gen := some 1, allocs := [(101, 0, 3)] }

def exPool : List (Op Nat) :=
  [.invSet 39 101 3 [exInv 10], .invSet 39 101 3 [exInv 12], .invUpdate 39 101 3 (exInv 14),
   .aggsSet 39 101 (some 3) [900], .allocPut 39 exPut]

example : ∀ op ∈ exPool, isProviderOp op = false := by decide
example : Uniq exDb := uniq_exDb
example : carries 101 3 (exPool[0]) = true ∧ carries 101 3 (exPool[1]) = true ∧ carries 101 3 (exPool[2]) = true ∧
    carries 101 3 (exPool[3]) = true := by decide

/-- a schedule in which the second PUT inventories wins (all five read first, then the writes in the
order 1, 0, 2, 3, allocation write last): exactly the answers 409, 200, 409, 409 -/
example : ((Prog.runSched [0, 1, 2, 3, 1, 0, 2, 3] exDb (exPool.map (prog exCfg))).2.take 4).map Prog.result? =
    [some (r409 .concurrentUpdate), some r200, some (r409 .concurrentUpdate), some (r409 .concurrentUpdate)] := by
  decide

/-- hypotheses of `stale_generation_is_409_concurrent_update`: after request 1 has run completely
(`pre = [1, 1]`) provider 101 (id 2) is beyond generation 3 and request 0 has not started -/
example : 0 ∉ [1, 1] ∧ rpIdOf exDb 101 = some 2 ∧
    RpPast 2 3 (Prog.runSched [1, 1] exDb (exPool.map (prog exCfg))).1 := by
  refine ⟨by decide, by decide, ?_⟩
  unfold RpPast; decide

/-- ... and indeed -/
example : ((Prog.runSched ([1, 1] ++ [0, 2, 2, 3]) exDb (exPool.map (prog exCfg))).2.take 4).map Prog.result? =
    [some (r409 .concurrentUpdate), some r200, some (r409 .concurrentUpdate), some (r409 .concurrentUpdate)] := by
  decide

def exInvNew : InvSpec Nat :=
  { rcName := 2, total := 4, reserved := 0, minUnit := 1, maxUnit := 4, stepSize := 1, ratio := 1 }

/-- deriving requests on provider 101: POST inventory of class 2, DELETE traits, with a PUT aggregates -/
def exPoolD : List (Op Nat) := [.invAdd 39 101 exInvNew, .rpTraitsDelete 101, .aggsSet 39 101 (some 3) [900]]

example : derives 101 exPoolD[0] = true ∧ derives 101 exPoolD[1] = true := by decide

/-- request 0 reads, request 2 commits (generation 4), request 0's write is refused; request 1 then
reads generation 4 and succeeds -/
example : (Prog.runSched [0, 2, 2, 0, 1, 1] exDb (exPoolD.map (prog exCfg))).2.map Prog.result? =
    [some (r409 .concurrentUpdate), some r204, some r200] := by decide

/-- hypotheses of `alloc_write_validated_at_commit`: the object carries the STALE provider generation 0
(provider 2 has generation 3); the first attempt loses the compare-and-swap, the retry with the
re-read generation succeeds -/
example : (aMain { cfg := exCfg, mv := 39, kind := .put }
    [{ rpId := 2, rpGen := 0, rcName := 0, consId := 1, consUuid := 500, consGen := 1, used := 3 }] exDb).2 =
    .done r204 := rfl
example : InvKeysNodup exDb := by unfold InvKeysNodup; decide

end examples

/-! ## PUT traits: the no-op exception (known finding F1) -/

/-- what the property asks of PUT traits (and what holds for the three request kinds above): of the
requests carrying the same generation for one provider at most one answers 2xx -/
def traits_at_most_one_full : Prop :=
  ∀ (cfg : Config) (ops : List (Op Nat)) (db : DB Nat) (sched : List Nat) (u g : Nat) (i j : Nat) (ti tj : List Nat)
    (a b : Resp), (∀ op ∈ ops, isProviderOp op = false) → Uniq db →
    ops[i]? = some (.rpTraitsSet u g ti) → ops[j]? = some (.rpTraitsSet u g tj) →
    (Prog.runSched sched db (ops.map (prog cfg))).2[i]? = some (.done a) → a.ok = true →
    (Prog.runSched sched db (ops.map (prog cfg))).2[j]? = some (.done b) → b.ok = true → i = j

/-- **C05_witness_noop_traits.**  Two PUT traits for provider 101 carrying generation 3 and the same
trait set {13, 15} (the provider has {13}).  Request 1 reads the provider and the traits, request 0
runs completely (200, generation 4), then the write transaction of request 1 finds nothing to change
and answers 200 without the compare-and-swap: two successes with one generation. -/
theorem C05_witness_noop_traits :
    let pool : List (Op Nat) := [.rpTraitsSet 101 3 [13, 15], .rpTraitsSet 101 3 [13, 15]]
    let fin := Prog.runSched [1, 1, 0, 0, 0, 1] Wf.exDb (pool.map (prog Wf.exCfg))
    fin.2.map Prog.result? = [some r200, some r200] ∧ fin.1.rpByUuid 101 = some ⟨2, 101, 201, 4, some 1, 1⟩ := by
  decide

/-- **at_most_one_effective_writer_same_generation** (PUT traits included; the `_partial` form of
`at_most_one_success_same_generation` for PUT traits).  Any pool, any schedule: of the requests
carrying the same generation `g` for provider `u` - PUT inventories, PUT inventory, PUT aggregates
>= 1.19 and PUT traits - all but at most one (`k`) leave the state unchanged in EVERY one of their
scheduling steps.  So a second 2xx answer with the same generation is possible only for a request
whose write transaction changed nothing (a PUT traits naming the traits the provider already has). -/
theorem at_most_one_effective_writer_same_generation (cfg : Config) (ops : List (Op R))
    (hops : ∀ op ∈ ops, isProviderOp op = false) (db : DB R) (hU : Uniq db) (sched : List Nat) (u g : Nat) :
    ∃ k : Option Nat, ∀ i op, ops[i]? = some op → carriesT u g op = true → some i ≠ k →
      ∀ pre post, sched = pre ++ i :: post →
        (Prog.runSched (pre ++ [i]) db (ops.map (prog cfg))).1 = (Prog.runSched pre db (ops.map (prog cfg))).1 := by
  let p := (rpIdOf db u).getD 0
  obtain ⟨k, hk⟩ := at_most_one_effective (Q := QEvo (fun _ => True)) (W := WRp u (rpIdOf db u)) (D := RpPast p g)
    (C := CRp u p g) (B := BRp p g) (fun k => ∃ op, ops[k]? = some op ∧ carriesT u g op = true)
    (fun s s' q h => h.evo q) (fun s s' q hw hd => hd.evo q hw.1)
    (fun s _ hc => rpAt_not_past hc.2) (fun s s' _ hb => hb.1)
    sched db _ (pool_evo cfg ops hops) ⟨ids_of_uniq hU, rfl⟩ (by
      rintro i ⟨op, hi, hc⟩ q hq
      rw [List.getElem?_map, hi] at hq
      cases hq
      exact carriesT_coq cfg hc _ p (fun p' h => by show p' = (rpIdOf db u).getD 0; rw [h]; rfl))
  refine ⟨k, fun i op hi hc hne pre post hs => ?_⟩
  exact quietFor_split pre i post db _ (hs ▸ hk) ⟨op, hi, hc⟩ hne

example : carriesT 101 3 (.rpTraitsSet 101 3 [13, 15] : Op Nat) = true ∧
    carriesT 101 3 (.invSet 39 101 3 [] : Op Nat) = true := by decide

theorem traits_at_most_one_full_false : ¬ traits_at_most_one_full := by
  intro h
  have := h Wf.exCfg [.rpTraitsSet 101 3 [13, 15], .rpTraitsSet 101 3 [13, 15]] Wf.exDb [1, 1, 0, 0, 0, 1] 101 3 0 1
    [13, 15] [13, 15] r200 r200 (by decide) Wf.uniq_exDb rfl rfl rfl (by decide) rfl (by decide)
  exact absurd this (by decide)

/-! ### the server-side retry of allocation writes (generated control flow) -/

/-- `replace_all` returns normally ONLY after an attempt of `_set_allocations` succeeded (an attempt that loses the
provider compare-and-swap never lets the request through, however many were allowed); otherwise it raises the
conflict (409).  Proved of `Gen.replaceAllLoop`, the loop as the source has it today. -/
theorem allocation_write_succeeds_only_by_a_successful_attempt (attempt : Nat → Bool) (r i : Nat) :
    (∃ k, Gen.replaceAllLoop attempt r i = .succeeded k ∧ attempt k = true) ∨
    (Gen.replaceAllLoop attempt r i = .raisedConflict ∧ ∀ j, i ≤ j → j < i + r → attempt j = false) := by
  cases h : Gen.replaceAllLoop attempt r i with
  | succeeded k => exact .inl ⟨k, rfl, (GuardTie.retry_loop_succeeded attempt r i k h).1⟩
  | raisedConflict => exact .inr ⟨rfl, (GuardTie.retry_loop_raises_iff attempt r i).mp h⟩
  | raisedOther => exact absurd h (GuardTie.retry_loop_never_silent attempt r i).2
  | leftWithoutSuccess => exact absurd h (GuardTie.retry_loop_never_silent attempt r i).1

end Placement.Props.C05
