/-
  C10  Generations move forward on every change and only then.

  * `rp_gen_monotone_step`, `cons_gen_monotone_step`, `…_run`, `reach_…`: no request, accepted or not,
    lowers the generation of a provider or consumer (rows are followed by their internal id, which is
    never reused);
  * `error_changes_no_generation`: a request answered with status >= 400 leaves the provider and the
    consumer table exactly as they were;
  * `inv_change_bumps_generation`, `traits_change_bumps_generation`, `traits_delete_bumps_generation`,
    `aggregates_bump_from_1_19`: on success exactly the addressed provider's generation is old + 1
    (traits: only if the set changes - the code returns early otherwise; aggregates: only from 1.19);
  * `alloc_write_bumps_providers`, `alloc_write_bumps_consumer`: PUT /allocations/{consumer};
    `alloc_post_bumps_providers`, `alloc_post_bumps_consumers`, `reshape_bumps_providers`,
    `reshape_bumps_consumers`: POST /allocations, POST /reshaper.

  Not expressible in this model (reported): "the generation returned by a write equals the one
  subsequently read" (`Resp` carries status and error code only) and "requests that only read" (reads
  are not `Op`s; they do not touch the state by construction).
-/
import Placement.Lemmas.GuardTie
import Placement.Lemmas.GenClear

namespace Placement.Props.C10
open Placement Placement.Hier Placement.Gens
variable {R : Type} [CapOps R]
set_option linter.unusedSectionVars false

/-! ## A concrete state for the `example`s -/

attribute [local instance] natCapOps

/-- providers 1 (uuid 11, generation 5, one inventory of class 0, trait 4) and 2 (uuid 12, child of 1);
consumer 100 (generation 3) holds 2 units on provider 1 -/
def exDb : DB Nat :=
  { rps := [ { id := 1, uuid := 11, name := 21, gen := 5, parent := none, root := 1 },
             { id := 2, uuid := 12, name := 22, gen := 0, parent := some 1, root := 1 } ],
    rcs := [(0, 0), (1, 2)],
    invs := [ { rp := 1, rc := 0, total := 10, reserved := 0, minUnit := 1, maxUnit := 10, stepSize := 1, ratio := 1 } ],
    allocs := [ { rp := 1, rc := 0, consumer := 100, used := 2 } ],
    consumers := [ { id := 1, uuid := 100, project := 7, user := 8, ctype := none, gen := 3 } ],
    projects := [7], users := [8], traits := [4, 6], rpTraits := [(1, 4)],
    nextRp := 3, nextCons := 2 }

def exCfg : Config := { incompleteProject := 0, incompleteUser := 0 }

theorem exDb_uniq : Uniq exDb := by constructor <;> simp [exDb]

def exInv : InvSpec Nat :=
  { rcName := 0, total := 20, reserved := 0, minUnit := 1, maxUnit := 20, stepSize := 1, ratio := 1 }

def exPut : ConsumerReq :=
  { uuid := 100, project := some 7, user := some 8, ctype := none, gen := some 3, allocs := [(11, 0, 4)] }

/-! ## Generations never decrease -/

/-- No request lowers the generation of a provider (followed by its internal id). -/
theorem rp_gen_monotone_step (cfg : Config) {db : DB R} (hU : Uniq db) (op : Op R) {r r' : RpRow}
    (hr : r ∈ db.rps) (hr' : r' ∈ (step cfg db op).1.rps) (hid : r'.id = r.id) : r.gen ≤ r'.gen :=
  (step_genLe cfg (ids_of_uniq hU) op).rp_mono (ids_of_uniq hU) hr hr' hid

/-- No request lowers the generation of a consumer. -/
theorem cons_gen_monotone_step (cfg : Config) {db : DB R} (hU : Uniq db) (op : Op R) {c c' : ConsRow}
    (hc : c ∈ db.consumers) (hc' : c' ∈ (step cfg db op).1.consumers) (hid : c'.id = c.id) : c.gen ≤ c'.gen :=
  (step_genLe cfg (ids_of_uniq hU) op).cons_mono (ids_of_uniq hU) hc hc' hid

example : Uniq exDb ∧ (⟨1, 11, 21, 5, none, 1⟩ : RpRow) ∈ exDb.rps ∧
    (⟨1, 100, 7, 8, none, 3⟩ : ConsRow) ∈ exDb.consumers := ⟨exDb_uniq, by simp [exDb], by simp [exDb]⟩

/-- ... nor does any history of requests. -/
theorem rp_gen_monotone_run (cfg : Config) {db : DB R} (hU : Uniq db) (ops : List (Op R)) {r r' : RpRow}
    (hr : r ∈ db.rps) (hr' : r' ∈ (run cfg db ops).1.rps) (hid : r'.id = r.id) : r.gen ≤ r'.gen :=
  (run_genLe cfg ops (ids_of_uniq hU)).rp_mono (ids_of_uniq hU) hr hr' hid

theorem cons_gen_monotone_run (cfg : Config) {db : DB R} (hU : Uniq db) (ops : List (Op R)) {c c' : ConsRow}
    (hc : c ∈ db.consumers) (hc' : c' ∈ (run cfg db ops).1.consumers) (hid : c'.id = c.id) : c.gen ≤ c'.gen :=
  (run_genLe cfg ops (ids_of_uniq hU)).cons_mono (ids_of_uniq hU) hc hc' hid

/-- The same from any reachable state (no `Uniq` hypothesis: unique, never reused ids are an
invariant of reachable states). -/
theorem reach_gen_monotone {cfg : Config} {stdRcs stdTraits : List Nat} {db : DB R}
    (h : Reach cfg stdRcs stdTraits db) (ops : List (Op R)) :
    (∀ r ∈ db.rps, ∀ r' ∈ (run cfg db ops).1.rps, r'.id = r.id → r.gen ≤ r'.gen) ∧
    (∀ c ∈ db.consumers, ∀ c' ∈ (run cfg db ops).1.consumers, c'.id = c.id → c.gen ≤ c'.gen) :=
  have hI := (reach_hinv h).ids
  ⟨fun _ hr _ hr' hid => (run_genLe cfg ops hI).rp_mono hI hr hr' hid,
   fun _ hc _ hc' hid => (run_genLe cfg ops hI).cons_mono hI hc hc' hid⟩

example : Reach exCfg [0, 2] [4] ((step exCfg (initDb [0, 2] [4]) (.rpCreate 39 11 21 none)).1 : DB Nat) :=
  .step _ _ .init

/-! ## Errors change no generation -/

/-- A request answered with an error leaves every provider row and every consumer row as it was
(in particular every generation); a consumer record created on the way has been removed again. -/
theorem error_changes_no_generation (cfg : Config) {db : DB R} (hU : Uniq db) (op : Op R)
    (h : 400 ≤ (step cfg db op).2.status) :
    (step cfg db op).1.rps = db.rps ∧ (step cfg db op).1.consumers = db.consumers :=
  step_error_keeps cfg (ids_of_uniq hU) op h

/-- an allocation write for a new consumer naming an unknown provider: 400, no consumer left behind -/
example : Uniq exDb ∧ 400 ≤ (step exCfg exDb (.allocPut 39 { exPut with uuid := 101, gen := none, allocs := [(99, 0, 1)] })).2.status :=
  ⟨exDb_uniq, by decide⟩

/-! ## Successful changes raise exactly the addressed provider's generation by one

`BumpedOnce db db' uuid` (Lemmas/GenProv.lean): there is a provider `rp` with that uuid in `db`, in `db'`
the provider with that uuid is `{ rp with gen := rp.gen + 1 }`, the provider table of `db'` is that of
`db` with `gen := rp.gen + 1` in the rows with `rp`'s id and nothing else changed, and the consumer table is
unchanged. -/

/-- the provider a single-provider inventory request addresses -/
def invTarget : Op R → Option Nat
  | .invSet _ u _ _ | .invAdd _ u _ | .invUpdate _ u _ _ | .invDelete u _ | .invDeleteAll _ u => some u
  | _ => none

/-- Every successful inventory write (replace all, add one, update one, delete one, delete all). -/
theorem inv_change_bumps_generation (cfg : Config) (db : DB R) (op : Op R) {uuid : Nat}
    (ht : invTarget op = some uuid) (hok : (step cfg db op).2.ok = true) :
    BumpedOnce db (step cfg db op).1 uuid := by
  cases op <;> simp only [invTarget, Option.some.injEq, reduceCtorEq] at ht <;> subst ht
  · exact hInvSet_bump hok
  · exact hInvAdd_bump hok
  · exact hInvUpdate_bump hok
  · exact hInvDelete_bump hok
  · exact hInvDeleteAll_bump hok

example : (step exCfg exDb (.invSet 39 11 5 [exInv])).2.ok = true ∧
    (step exCfg exDb (.invAdd 39 12 exInv)).2.ok = true ∧
    (step exCfg exDb (.invDeleteAll 39 12)).2.ok = true := by decide

/-- `PUT …/traits` with a set different from the stored one. -/
theorem traits_change_bumps_generation (cfg : Config) (db : DB R) (uuid gen : Nat) (ts : List Nat)
    (hok : (step cfg db (.rpTraitsSet uuid gen ts)).2.ok = true) :
    ∃ rp, db.rpByUuid uuid = some rp ∧
      ((∀ t, t ∈ ts ↔ t ∈ db.traitsOf rp.id) → (step cfg db (.rpTraitsSet uuid gen ts)).1 = db) ∧
      (¬ (∀ t, t ∈ ts ↔ t ∈ db.traitsOf rp.id) → BumpedOnce db (step cfg db (.rpTraitsSet uuid gen ts)).1 uuid) :=
  hRpTraitsSet_bump hok

example : (step exCfg exDb (.rpTraitsSet 11 5 [4, 6])).2.ok = true ∧ ¬ (∀ t, t ∈ [4, 6] ↔ t ∈ exDb.traitsOf 1) ∧
    (step exCfg exDb (.rpTraitsSet 11 5 [4])).2.ok = true ∧ (∀ t, t ∈ [4] ↔ t ∈ exDb.traitsOf 1) := by
  refine ⟨by decide, ?_, by decide, by simp [exDb, DB.traitsOf]⟩
  intro h; have := (h 6).mp (by simp); simp [exDb, DB.traitsOf] at this

/-- `DELETE …/traits`. -/
theorem traits_delete_bumps_generation (cfg : Config) (db : DB R) (uuid : Nat)
    (hok : (step cfg db (.rpTraitsDelete uuid)).2.ok = true) :
    ∃ rp, db.rpByUuid uuid = some rp ∧
      (db.traitsOf rp.id = [] → (step cfg db (.rpTraitsDelete uuid)).1 = db) ∧
      (db.traitsOf rp.id ≠ [] → BumpedOnce db (step cfg db (.rpTraitsDelete uuid)).1 uuid) :=
  hRpTraitsDelete_bump hok

example : (step exCfg exDb (.rpTraitsDelete 11)).2.ok = true ∧ exDb.traitsOf 1 ≠ [] := by decide

/-- `PUT …/aggregates`: from 1.19 the generation goes up by one; below 1.19 no generation changes. -/
theorem aggregates_bump_from_1_19 (cfg : Config) (db : DB R) (mv uuid : Nat) (gen : Option Nat) (aggs : List Nat)
    (hok : (step cfg db (.aggsSet mv uuid gen aggs)).2.ok = true) :
    (19 ≤ mv → BumpedOnce db (step cfg db (.aggsSet mv uuid gen aggs)).1 uuid) ∧
    (mv < 19 → (step cfg db (.aggsSet mv uuid gen aggs)).1.rps = db.rps ∧
       (step cfg db (.aggsSet mv uuid gen aggs)).1.consumers = db.consumers) :=
  hAggsSet_bump hok

example : (step exCfg exDb (.aggsSet 19 11 (some 5) [500])).2.ok = true ∧
    (step exCfg exDb (.aggsSet 18 11 none [500])).2.ok = true := by decide

/-! ## Allocation writes (PUT /allocations/{consumer}) -/

/-- Every provider named in the body of a successful `PUT /allocations/{consumer}` - in particular
every provider on which it places a positive amount - has its generation raised by exactly one. -/
theorem alloc_write_bumps_providers (cfg : Config) {db : DB R} (hU : Uniq db) (mv : Nat) (c : ConsumerReq)
    (hok : (step cfg db (.allocPut mv c)).2.ok = true) :
    ∀ a ∈ c.allocs, ∃ rp, db.rpByUuid a.1 = some rp ∧
      (step cfg db (.allocPut mv c)).1.rpByUuid a.1 = some { rp with gen := rp.gen + 1 } :=
  allocPut_bumps_providers cfg (ids_of_uniq hU) hok

example : Uniq exDb ∧ (step exCfg exDb (.allocPut 39 exPut)).2.ok = true ∧ (11, 0, 4) ∈ exPut.allocs :=
  ⟨exDb_uniq, by decide, by simp [exPut]⟩

/-- The same for every consumer entry of a successful `POST /allocations`. -/
theorem alloc_post_bumps_providers (cfg : Config) {db : DB R} (hU : Uniq db) (mv : Nat) (cs : List ConsumerReq)
    (hok : (step cfg db (.allocPost mv cs)).2.ok = true) :
    ∀ c ∈ cs, ∀ a ∈ c.allocs, ∃ rp, db.rpByUuid a.1 = some rp ∧
      (step cfg db (.allocPost mv cs)).1.rpByUuid a.1 = some { rp with gen := rp.gen + 1 } :=
  allocPost_bumps_providers cfg (ids_of_uniq hU) hok

example : Uniq exDb ∧ (step exCfg exDb (.allocPost 39 [exPut, { exPut with uuid := 101, gen := none }])).2.ok = true :=
  ⟨exDb_uniq, by decide⟩

/-- `POST /reshaper`: every provider named by the allocations has a strictly larger generation
afterwards (the inventory phases of the same request may raise it further). -/
theorem reshape_bumps_providers (cfg : Config) {db : DB R} (hU : Uniq db) (mv : Nat) (invs : List (RpInvReq R))
    (cs : List ConsumerReq) (hok : (step cfg db (.reshape mv invs cs)).2.ok = true) :
    ∀ c ∈ cs, ∀ a ∈ c.allocs, ∃ rp rp', db.rpByUuid a.1 = some rp ∧
      (step cfg db (.reshape mv invs cs)).1.rpByUuid a.1 = some rp' ∧ rp'.id = rp.id ∧ rp.gen < rp'.gen :=
  Placement.Gens.reshape_bumps_providers cfg (ids_of_uniq hU) hok

example : Uniq exDb ∧ (step exCfg exDb (.reshape 39 [⟨11, 5, [exInv]⟩] [exPut])).2.ok = true ∧
    ((step exCfg exDb (.reshape 39 [⟨11, 5, [exInv]⟩] [exPut])).1.rpByUuid 11).map (·.gen) = some 8 :=
  ⟨exDb_uniq, by decide, by decide⟩

/-- After a successful `PUT /allocations/{consumer}` with a non-empty body the consumer's generation
is the old one plus one - a consumer that did not exist counts as 0 (it is created with generation 0
and incremented), so it ends at 1 - or the consumer record is gone because it holds no allocation. -/
theorem alloc_write_bumps_consumer (cfg : Config) {db : DB R} (hU : Uniq db) (mv : Nat) (c : ConsumerReq)
    (hok : (step cfg db (.allocPut mv c)).2.ok = true) (hne : c.allocs ≠ []) :
    (step cfg db (.allocPut mv c)).1.consByUuid c.uuid = none ∨
    ∃ row, (step cfg db (.allocPut mv c)).1.consByUuid c.uuid = some row ∧
      row.gen = (((db.consByUuid c.uuid).map (·.gen)).getD 0) + 1 :=
  allocPut_bumps_consumer cfg hU.consUuid hok hne

example : Uniq exDb ∧ (step exCfg exDb (.allocPut 39 exPut)).2.ok = true ∧ exPut.allocs ≠ [] ∧
    ((step exCfg exDb (.allocPut 39 exPut)).1.consByUuid 100).map (·.gen) = some 4 ∧
    ((step exCfg exDb (.allocPut 39 { exPut with uuid := 101, gen := none })).1.consByUuid 101).map (·.gen) = some 1 :=
  ⟨exDb_uniq, by decide, by simp [exPut], by decide, by decide⟩

/-- `PUT /allocations/{consumer}` with an empty body (from 1.28: remove all allocations), in a state
without dangling records (C08) in which consumers exist only while they hold allocations (C12): the
consumer is one generation further or - the normal outcome - its record is gone; a consumer that did
not exist is not left behind. -/
theorem alloc_clear_bumps_consumer (cfg : Config) {db : DB R} (hU : Uniq db) (hRI : RI db) (hCI : ConsIff db)
    (mv : Nat) (c : ConsumerReq) (hok : (step cfg db (.allocPut mv c)).2.ok = true) (he : c.allocs = []) :
    (step cfg db (.allocPut mv c)).1.consByUuid c.uuid = none ∨
    ∃ row, (step cfg db (.allocPut mv c)).1.consByUuid c.uuid = some row ∧
      row.gen = (((db.consByUuid c.uuid).map (·.gen)).getD 0) + 1 :=
  allocPut_clear_consumer cfg hU.consUuid hok he (clear_side_condition hRI hCI c.uuid)

example : Uniq exDb ∧ RI exDb ∧ ConsIff exDb ∧
    (step exCfg exDb (.allocPut 39 { exPut with allocs := [] })).2.ok = true ∧
    (step exCfg exDb (.allocPut 39 { exPut with allocs := [] })).1.consByUuid 100 = none := by
  refine ⟨exDb_uniq, ?_, ?_, by decide, by decide⟩
  · constructor <;> simp [exDb]
  · intro u; simp [exDb]

/-- The same for every consumer entry (with a non-empty body) of a successful `POST /allocations`. -/
theorem alloc_post_bumps_consumers (cfg : Config) {db : DB R} (hU : Uniq db) (mv : Nat) (cs : List ConsumerReq)
    (hok : (step cfg db (.allocPost mv cs)).2.ok = true) :
    ∀ c ∈ cs, c.allocs ≠ [] →
      (step cfg db (.allocPost mv cs)).1.consByUuid c.uuid = none ∨
      ∃ row, (step cfg db (.allocPost mv cs)).1.consByUuid c.uuid = some row ∧
        row.gen = (((db.consByUuid c.uuid).map (·.gen)).getD 0) + 1 :=
  allocPost_bumps_consumers cfg (ids_of_uniq hU) hU.consUuid hok

example : Uniq exDb ∧ (step exCfg exDb (.allocPost 39 [exPut, { exPut with uuid := 101, gen := none }])).2.ok = true ∧
    ((step exCfg exDb (.allocPost 39 [exPut, { exPut with uuid := 101, gen := none }])).1.consumers.map
      (fun c => (c.uuid, c.gen))) = [(100, 4), (101, 1)] :=
  ⟨exDb_uniq, by decide, by decide⟩

/-- ... and of a successful `POST /reshaper`. -/
theorem reshape_bumps_consumers (cfg : Config) {db : DB R} (hU : Uniq db) (mv : Nat) (invs : List (RpInvReq R))
    (cs : List ConsumerReq) (hok : (step cfg db (.reshape mv invs cs)).2.ok = true) :
    ∀ c ∈ cs, c.allocs ≠ [] →
      (step cfg db (.reshape mv invs cs)).1.consByUuid c.uuid = none ∨
      ∃ row, (step cfg db (.reshape mv invs cs)).1.consByUuid c.uuid = some row ∧
        row.gen = (((db.consByUuid c.uuid).map (·.gen)).getD 0) + 1 :=
  Placement.Gens.reshape_bumps_consumers cfg (ids_of_uniq hU) hU.consUuid hok

example : Uniq exDb ∧ (step exCfg exDb (.reshape 39 [⟨11, 5, [exInv]⟩] [exPut])).2.ok = true ∧
    ((step exCfg exDb (.reshape 39 [⟨11, 5, [exInv]⟩] [exPut])).1.consByUuid 100).map (·.gen) = some 4 :=
  ⟨exDb_uniq, by decide, by decide⟩

end Placement.Props.C10
