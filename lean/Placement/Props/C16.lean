/-
  C16  Every operation is authenticated and authorised before it has any effect.

  Statements are about the tables generated from the source tree (`Placement.Gen.Policies`) and the
  semantics of `Placement.Model.Policy`.  Theorems that speak about callers quantify over *every*
  credential record (arbitrary role list, user, project, scope) and every query string; theorems
  about the finite rule / route / handler tables are decided by evaluation.
-/
import Placement.Gen.Policies
import Placement.Lemmas.Policy
import Placement.Lemmas.C16Tables

namespace Placement.Props.C16
open Placement.Policy Placement.Gen.Policies

/-! `home` (the version document's handler), `isReshaper`, `isTotalUsages`, `projectScoped`, `documentedRules`,
`documentedUnder` are defined in `Lemmas/C16Tables.lean`. -/

/-- Who may use operation `r` under the default policy, according to the property text
(this tree: new defaults only, token scope enforced by oslo.policy). -/
def Allowed (r : Route) (c : Creds) (query : Query) : Prop :=
  tokenScope c = n!"project" ∧
    if isReshaper r then hasRole c n!"service" = true
    else if isTotalUsages r then
      hasRole c n!"admin" = true ∨ hasRole c n!"service" = true ∨
        (hasRole c n!"reader" = true ∧ pyStr (query.lookup n!"project_id") = pyStr c.projectId)
    else hasRole c n!"admin" = true ∨ hasRole c n!"service" = true

/-! ## defaults_admin_or_service -/

/-- Under the default policy an operation is authorised exactly for project-scoped callers holding the
admin or the service role; `POST /reshaper` for the service role only; `GET /usages` additionally for a
reader of the project that is queried.  For **every** caller and query string. -/
theorem defaults_admin_or_service (r : Route) (hr : r ∈ routes) (hh : r.handler ≠ home)
    (c : Creds) (query : Query) :
    pipeline.authorisedOp [] r c query = true ↔ Allowed r c query := by
  have h := ops_match_spec r hr hh
  unfold opMatchesSpec at h
  split at h
  · cases h
  · rename_i rule tgt hinfo
    split at h
    · cases h
    · rename_i d hfind
      simp only [Bool.and_eq_true, beq_iff_eq] at h
      obtain ⟨⟨hscope, htgt⟩, hequiv⟩ := h
      have hval : ∀ t : Target, evalRule defaultRules rule c t = evalA (atomVal c t) (specCheck r) := by
        intro t
        unfold evalRule
        rw [ruleVal_eq_evalA]
        exact equivChecks_sound _ _ hequiv _
      unfold Pipeline.authorisedOp
      rw [hinfo]
      simp only [authorise]
      have hfind' : pipeline.table.find rule = some d := hfind
      rw [hfind']
      simp only []
      have hrules : pipeline.table.effectiveRules [] = defaultRules := rfl
      rw [hrules, hval, hscope, htgt, Bool.and_eq_true, scopeOk_project]
      unfold Allowed specCheck specTarget
      by_cases h1 : isReshaper r = true
      · simp [h1, serviceOnly, evalA, atomVal]
      · by_cases h2 : isTotalUsages r = true
        · simp [h1, h2, adminServiceOrProjectReader, adminOrService, evalA, atomVal, genericCheck,
            Match.subst, targetOf, Creds.attr, List.lookup, or_assoc]
        · simp [h1, h2, adminOrService, evalA, atomVal]

/-- The statement has content: an admin of any project may list providers, a member may not, a reader may
read the usages of its own project only, an admin may not reshape. -/
example : pipeline.authorisedOp [] ⟨n!"/resource_providers", n!"GET", n!"resource_provider.list_resource_providers"⟩
    { userId := some "u", projectId := some "p", roles := ["admin", "member", "reader"] } [] = true := by decide +kernel
example : pipeline.authorisedOp [] ⟨n!"/resource_providers", n!"GET", n!"resource_provider.list_resource_providers"⟩
    { userId := some "u", projectId := some "p", roles := ["member", "reader"] } [] = false := by decide +kernel
example : pipeline.authorisedOp [] ⟨n!"/usages", n!"GET", n!"usage.get_total_usages"⟩
    { userId := some "u", projectId := some "p", roles := ["reader"] } [(n!"project_id", "p")] = true := by decide +kernel
example : pipeline.authorisedOp [] ⟨n!"/usages", n!"GET", n!"usage.get_total_usages"⟩
    { userId := some "u", projectId := some "p", roles := ["reader"] } [(n!"project_id", "q")] = false := by decide +kernel
example : pipeline.authorisedOp [] ⟨n!"/reshaper", n!"POST", n!"reshaper.reshape"⟩
    { userId := some "u", projectId := some "p", roles := ["admin"] } [] = false := by decide +kernel

/-- The hypotheses are satisfiable: there are routed operations other than the version document. -/
example : ∃ r ∈ routes, r.handler ≠ home := by decide +kernel

/-! ## rule_per_operation -/

/-- Every routed handler other than the version document has exactly one rule: all its definitions pass
the same registered rule to their first `context.can`, that rule documents this very method and path,
and no other rule documents it. -/
theorem rule_per_operation :
    ∀ r ∈ routes, r.handler ≠ home →
      ∃ d ∈ ruleDefs,
        (∃ h ∈ handlers, h.name = r.handler) ∧
        (∀ h ∈ handlers, h.name = r.handler → h.rule = some d.name) ∧
        (r.method, r.path) ∈ d.ops ∧
        (∀ d' ∈ ruleDefs, (r.method, r.path) ∈ d'.ops → d'.name = d.name) := by decide +kernel

/-- Conversely every documented operation is routed, to a handler that checks the documenting rule;
rule names are unique; the version document is routed exactly at `/` and at the empty path. -/
theorem documented_operations_routed :
    (∀ d ∈ ruleDefs, ∀ op ∈ d.ops,
      ∃ r ∈ routes, (r.method, r.path) = op ∧ pipeline.opInfo r = some (d.name, specTarget r)) ∧
    (ruleDefs.map (·.name)).Nodup ∧
    (∀ r ∈ routes, r.handler = home ↔ (r.method = n!"GET" ∧ (r.path = n!"/" ∨ r.path = n!""))) ∧
    (∀ h ∈ handlers, h.rule = none → h.name = home) := by decide +kernel

/-! ## override_exactly -/

/-- A policy file that replaces exactly the rule `d` by `@` (or `!`) grants (refuses) every project-scoped
caller exactly the operations documented under `d`, and leaves the verdict of every other operation
as it was — for **every** caller and query string. -/
theorem override_exactly (d : RuleDef) (hd : d ∈ documentedRules) (x : Check) (hx : x = .tt ∨ x = .ff)
    (r : Route) (hr : r ∈ routes) (hh : r.handler ≠ home) (c : Creds) (query : Query) :
    pipeline.authorisedOp [(d.name, x)] r c query =
      if documentedUnder d r then projectScoped c && (x == .tt)
      else pipeline.authorisedOp [] r c query := by
  have hxm : x ∈ [Check.tt, Check.ff] := by rcases hx with rfl | rfl <;> simp
  have h := overrides_ok d hd x hxm r hr hh
  unfold overrideOk at h
  split at h
  · cases h
  · rename_i rule tgt hinfo
    unfold Pipeline.authorisedOp
    rw [hinfo]
    simp only [authorise]
    by_cases hdoc : documentedUnder d r = true
    · rw [if_pos hdoc] at h
      simp only [Bool.and_eq_true, beq_iff_eq] at h
      obtain ⟨hrule, hscope⟩ := h
      subst hrule
      rw [if_pos hdoc]
      have hfind : ∃ d', pipeline.table.find d.name = some d' ∧ d'.scopeTypes = [n!"project"] := by
        have : (table.find d.name).map (·.scopeTypes) = some [n!"project"] := hscope
        cases hf : table.find d.name with
        | none => rw [hf] at this; cases this
        | some d' => rw [hf] at this; exact ⟨d', hf, by simpa using this⟩
      obtain ⟨d', hf, hs⟩ := hfind
      rw [hf]
      simp only []
      have hrules : pipeline.table.effectiveRules [(d.name, x)]
          = (d.name, x) :: pipeline.table.effectiveRules [] := rfl
      rw [hrules, evalRule_override_self _ _ _ _ _ hx, hs]
      simp [projectScoped, scopeOk]
    · rw [if_neg hdoc] at h
      rw [if_neg hdoc]
      have hval : ∀ t : Target,
          evalRule (pipeline.table.effectiveRules [(d.name, x)]) rule c t
            = evalRule (pipeline.table.effectiveRules []) rule c t := by
        intro t
        unfold evalRule
        rw [ruleVal_eq_evalA, ruleVal_eq_evalA]
        have h' : inlineRule (table.effectiveRules [(d.name, x)]) (fuelFor (table.effectiveRules [(d.name, x)])) rule
            = inlineRule defaultRules (fuelFor defaultRules) rule := by simpa using h
        exact congrArg (evalA (atomVal c t)) h'
      cases hf : pipeline.table.find rule with
      | none => rfl
      | some d' => simp only []; rw [hval]

/-- The hypotheses are satisfiable: there are documented rules, each with a routed operation. -/
example : ∀ d ∈ documentedRules, ∃ r ∈ routes, r.handler ≠ home ∧ documentedUnder d r = true := by decide +kernel
example : documentedRules.length = 33 := by decide +kernel

/-- The override really changes the operations documented under the rule: a caller without roles is
refused by default and admitted by `@`; a service caller is admitted by default and refused by `!`. -/
theorem override_is_effective (d : RuleDef) (hd : d ∈ documentedRules)
    (r : Route) (hr : r ∈ routes) (hh : r.handler ≠ home) (hdoc : documentedUnder d r = true) :
    (∃ c q, pipeline.authorisedOp [] r c q = false ∧ pipeline.authorisedOp [(d.name, .tt)] r c q = true) ∧
    (∃ c q, pipeline.authorisedOp [] r c q = true ∧ pipeline.authorisedOp [(d.name, .ff)] r c q = false) := by
  constructor
  · refine ⟨{ userId := some "u", projectId := some "p", roles := [] }, [], ?_, ?_⟩
    · have := defaults_admin_or_service r hr hh { userId := some "u", projectId := some "p", roles := [] } []
      cases hv : pipeline.authorisedOp [] r { userId := some "u", projectId := some "p", roles := [] } []
      · rfl
      · have hA := this.mp hv
        unfold Allowed at hA
        simp [hasRole] at hA
    · rw [override_exactly d hd .tt (Or.inl rfl) r hr hh, if_pos hdoc]
      decide
  · refine ⟨{ userId := some "u", projectId := some "p", roles := ["service"] }, [], ?_, ?_⟩
    · apply (defaults_admin_or_service r hr hh _ _).mpr
      unfold Allowed
      refine ⟨by decide, ?_⟩
      have hs : hasRole { userId := some "u", projectId := some "p", roles := ["service"] } n!"service" = true := by
        decide +kernel
      split
      · exact hs
      · split
        · exact Or.inr (Or.inl hs)
        · exact Or.inr hs
    · rw [override_exactly d hd .ff (Or.inr rfl) r hr hh, if_pos hdoc]
      decide

/-! ## auth_first -/

/-- What a handler may evaluate before its authorisation call: reads of the WSGI environment, of the
query string, of the routing arguments, of module constants (schemas, the microversion key);
delegation to a helper whose own prefix is listed too.  Nothing that reads the body or touches the
database. -/
def preAllowed : Pre → Bool
  | .index v => v == n!"req.environ"
  | .call f => f == n!"req.GET.get" || f == n!"placement.util.wsgi_path_item"
  | .attr base member =>
      (base == n!"req" && member == n!"environ")
      || (base == n!"placement.microversion" && member == n!"MICROVERSION_ENVIRON")
      || base == n!"placement.schemas.allocation"
  | .delegate _ => true
  | .stmt _ => false
  | .expr _ => false

/-- Decorators run before the body: content-type (415), accept (406) and microversion (404/405) gates. -/
def decoratorAllowed (d : Deco) : Bool :=
  d.fn == n!"placement.wsgi_wrapper.PlacementWsgify" || d.fn == n!"placement.microversion.version_handler"
  || d.fn == n!"placement.util.require_content" || d.fn == n!"placement.util.check_accept"

theorem auth_first :
    ∀ h ∈ handlers, h.name ≠ home →
      h.rule.isSome = true ∧ h.pre.all preAllowed = true ∧ h.decorators.all decoratorAllowed = true := by
  decide +kernel

/-- `NoAuthMiddleware` wraps (runs before) the context middleware, which wraps the application and the
fault wrapper; nothing but the fault wrapper is closer to the handlers than the context middleware. -/
theorem auth_middleware_outside :
    middlewareInsideOut.take 3 = [n!"fault_middleware", n!"context_middleware", n!"auth_middleware"] := by decide

/-- In the model a caller that is not authorised gets 403 and the handler body does not run. -/
theorem unauthorised_forbidden (file : Rules) (r : Route) (path : Name) (h : AuthHeaders)
    (query : Query) (c : Creds) (hp : path ≠ n!"/") (hc : noauthCreds h = some c)
    (hno : pipeline.authorisedOp file r c query = false) :
    pipeline.respond file r path h query = .forbidden := by
  have hex : path ∉ pipeline.noauthExempt := by
    show path ∉ [n!"/"]
    simp [hp]
  simp [Pipeline.respond, hex, hc, hno]

/-- The hypotheses are satisfiable: every request with a token has credentials, and there are callers
that are not authorised (see the examples after `defaults_admin_or_service`). -/
example (tok : String) : ∃ c, noauthCreds { token := some tok } = some c := ⟨_, rfl⟩

/-! ## no_token_401 -/

/-- Without a token every request is answered 401, whatever the policy file, route, headers and query —
except at path `/`, which is never answered 401. -/
theorem no_token_401 (file : Rules) (r : Route) (path : Name) (h : AuthHeaders)
    (query : Query) (hn : h.token = none) :
    pipeline.respond file r path h query = .unauthenticated ↔ path ≠ n!"/" := by
  have hcreds : noauthCreds h = none := by simp [noauthCreds, hn]
  by_cases hp : path = n!"/"
  · subst hp
    have h1 : pipeline.noauthExempt.contains n!"/" = true := by decide
    have h2 : pipeline.contextExempt.contains n!"/" = true := by decide
    simp only [Pipeline.respond, h1, h2, if_true]
    split <;> simp
  · have hex : path ∉ pipeline.noauthExempt := by
      show path ∉ [n!"/"]
      simp [hp]
    simp [Pipeline.respond, hex, hcreds, hp]

/-- The version document itself needs no credentials. -/
example : pipeline.respond [] ⟨n!"/", n!"GET", home⟩ n!"/" {} [] = .pass := by decide +kernel

/-! ## where the roles come from (`NoAuthMiddleware`, generated decision) -/

/-- The roles the model gives a request are the ones the middleware's if-chain (translated: `noauthRolesSource`)
selects: the `X-Roles` header whenever it was SENT - also when it is empty, which then means "no roles" -, otherwise
`admin` for the user `admin`, otherwise none. -/
theorem roles_are_the_generated_choice (h : AuthHeaders) (tok : String) (c : Creds)
    (hc : noauthCreds { h with token := some tok } = some c) :
    c.roles =
      match noauthRolesSource h.xRoles.isSome (h.xRoles != some "") ((partitionColon tok).1 == "admin") with
      | .header => parseRoles (h.xRoles.getD "")
      | .adminShorthand => parseRoles "admin"     -- the middleware's `['admin']`, joined and parsed back by oslo.context
      | .noRoles => [] := by
  simp only [noauthCreds] at hc
  cases hc
  cases hx : h.xRoles with
  | some r => simp [noauthRolesSource]
  | none =>
    by_cases hu : (partitionColon tok).1 = "admin"
    · simp [noauthRolesSource, hu]
    · simp [noauthRolesSource, hu, parseRoles]

/-- an `X-Roles` header that is present and empty gives no role at all, whoever the user is -/
theorem empty_roles_header_means_no_roles (h : AuthHeaders) (tok : String) (c : Creds) (hx : h.xRoles = some "")
    (hc : noauthCreds { h with token := some tok } = some c) : c.roles = [] := by
  have := roles_are_the_generated_choice h tok c hc
  rw [this, hx]
  simp [noauthRolesSource, parseRoles]

end Placement.Props.C16
