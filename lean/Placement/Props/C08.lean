/-
  C08  Stored records never dangle; entities in use cannot be removed.

  "After every request each allocation refers to an existing provider, to an inventory of that class on
  that provider and to a recorded consumer; each inventory refers to an existing provider and resource
  class; each trait or aggregate association refers to an existing provider and trait or aggregate.
  Deleting a provider that has allocations or child providers, an inventory that has allocations, a
  resource class that has inventory, or a trait associated with a provider is refused (409; 400 for
  standard names) and changes nothing, whereas deleting a provider without them also removes its
  inventories and associations."

  Statements over the hand-written model of the handlers and the object layer
  (`Placement.Model.{Objects,Handlers}`); `RI` is defined in `Placement.Spec.Inv`.  The preservation
  lemmas (one per object-layer function and per handler) are in `Placement.Lemmas.Wf*`.
  Requests are well-formed in the sense of `Wf.OpWF` (what a JSON object that passed the schema can
  express: a consumer uuid occurs once in a POST /allocations or /reshaper body, a (provider, class)
  pair occurs once per consumer, amounts are >= 1).
-/
import Placement.Lemmas.GuardTie
import Placement.Lemmas.WfExample

namespace Placement.Props.C08
open Placement Placement.Wf

variable {R : Type} [CapOps R]

/-! ## no dangling references, after every request -/

omit [CapOps R] in
/-- the synchronised empty database satisfies referential integrity -/
theorem ri_init {stdRcs stdTraits : List Nat} (h1 : stdRcs.Nodup) (h2 : stdTraits.Nodup) :
    RI (initDb stdRcs stdTraits : DB R) := Wf.ri_init h1 h2

/-- one request keeps referential integrity (together with the uniqueness constraints and `used >= 1`) -/
theorem ri_step {cfg : Config} {db : DB R} (hU : Uniq db) (hR : RI db) (hP : AllocPos db) (op : Op R)
    (hwf : OpWF op) : RI (step cfg db op).1 := Wf.ri_step hU hR hP op hwf

/-- ... and the uniqueness constraints and positivity it relies on are kept as well -/
theorem uniq_step {cfg : Config} {db : DB R} (hU : Uniq db) (hR : RI db) (hP : AllocPos db) (op : Op R)
    (hwf : OpWF op) : Uniq (step cfg db op).1 ∧ AllocPos (step cfg db op).1 :=
  ⟨Wf.uniq_step hU hR hP op hwf, Wf.allocPos_step hU hR hP op hwf⟩

/-- **C08, first sentence**: after every request of any history of well-formed requests from the
synchronised empty database, no stored record dangles. -/
theorem reach_ri {cfg : Config} {stdRcs stdTraits : List Nat} (h1 : stdRcs.Nodup) (h2 : stdTraits.Nodup)
    {db : DB R} (h : ReachWF cfg stdRcs stdTraits db) : RI db := Wf.reach_ri h1 h2 h

theorem reach_uniq {cfg : Config} {stdRcs stdTraits : List Nat} (h1 : stdRcs.Nodup) (h2 : stdTraits.Nodup)
    {db : DB R} (h : ReachWF cfg stdRcs stdTraits db) : Uniq db := Wf.reach_uniq h1 h2 h

/-! ## refusals: the state is unchanged -/

/-- DELETE of a provider that has allocations: 409, nothing changes.  (`providerInUse` when it has no
children; with children the parent check comes first, see `delete_parent_409`.) -/
theorem delete_provider_in_use_409 {cfg : Config} {db : DB R} {u : Nat} {rp : RpRow}
    (hrp : db.rpByUuid u = some rp) (hch : db.hasChildren rp.id = false)
    (hal : ∃ a ∈ db.allocs, a.rp = rp.id) :
    step cfg db (.rpDelete u) = (db, r409 .providerInUse) := by
  have : db.allocs.any (·.rp == rp.id) = true := by
    obtain ⟨a, ha, e⟩ := hal
    exact List.any_eq_true.2 ⟨a, ha, by simpa using e⟩
  simp [step, hRpDelete, hrp, deleteProvider, hch, this]

/-- DELETE of a provider that has child providers: 409, nothing changes -/
theorem delete_parent_409 {cfg : Config} {db : DB R} {u : Nat} {rp : RpRow}
    (hrp : db.rpByUuid u = some rp) (hch : ∃ r ∈ db.rps, r.parent = some rp.id) :
    step cfg db (.rpDelete u) = (db, r409 .cannotDeleteParent) := by
  have : db.hasChildren rp.id = true := by
    obtain ⟨r, hr, e⟩ := hch
    exact List.any_eq_true.2 ⟨r, hr, by simpa using e⟩
  simp [step, hRpDelete, hrp, deleteProvider, this]

/-- in both cases: status 409 and the state is unchanged -/
theorem delete_provider_refused {cfg : Config} {db : DB R} {u : Nat} {rp : RpRow}
    (hrp : db.rpByUuid u = some rp)
    (h : (∃ a ∈ db.allocs, a.rp = rp.id) ∨ (∃ r ∈ db.rps, r.parent = some rp.id)) :
    (step cfg db (.rpDelete u)).1 = db ∧ (step cfg db (.rpDelete u)).2.status = 409 := by
  by_cases hch : ∃ r ∈ db.rps, r.parent = some rp.id
  · rw [delete_parent_409 hrp hch]; exact ⟨rfl, rfl⟩
  · rcases h with h | h
    · have : db.hasChildren rp.id = false := by
        cases hc : db.hasChildren rp.id with
        | false => rfl
        | true =>
          obtain ⟨r, hr, e⟩ := List.any_eq_true.1 hc
          exact absurd ⟨r, hr, by simpa using e⟩ hch
      rw [delete_provider_in_use_409 hrp this h]; exact ⟨rfl, rfl⟩
    · exact absurd h hch

/-- DELETE of one inventory that has allocations: 409, nothing changes -/
theorem delete_inventory_in_use_409 {cfg : Config} {db : DB R} {u n rc : Nat} {rp : RpRow}
    (hrp : db.rpByUuid u = some rp) (hrc : db.rcId n = some rc)
    (hal : ∃ a ∈ db.allocs, a.rp = rp.id ∧ a.rc = rc) :
    step cfg db (.invDelete u n) = (db, r409 .concurrentUpdate) := by
  have : db.allocs.any (fun a => a.rp == rp.id && a.rc == rc) = true := by
    obtain ⟨a, ha, e⟩ := hal
    exact List.any_eq_true.2 ⟨a, ha, by simpa using e⟩
  simp [step, hInvDelete, hrp, deleteInventory, hrc, this]

/-- PUT of a provider's inventories (otherwise acceptable) that drops a class with allocations:
409, nothing changes.  (`RI.allocInv` supplies the inventory row of an allocation.) -/
theorem put_inventories_dropping_in_use_409 {cfg : Config} {db : DB R} {mv u : Nat} {rp : RpRow}
    {invs : List (InvSpec R)} {these : List (Nat × InvSpec R)}
    (hrp : db.rpByUuid u = some rp) (hcap : invs.any (invCapacityInvalid mv) = false)
    (hres : resolveRcs db invs = .ok these)
    (hal : ∃ a ∈ db.allocs, a.rp = rp.id ∧ (∃ i ∈ db.invs, i.rp = a.rp ∧ i.rc = a.rc) ∧ ∀ p ∈ these, p.1 ≠ a.rc) :
    step cfg db (.invSet mv u rp.gen invs) = (db, r409 .inventoryInUse) := by
  have : ∃ x, x ∈ db.allocs ∧ x.rp = rp.id ∧ x.rc ∈ invToDelete db rp.id these := by
    obtain ⟨a, ha, e, ⟨i, hi, e1, e2⟩, hn⟩ := hal
    exact ⟨a, ha, e, mem_invToDelete.2 ⟨mem_invExisting.2 ⟨i, hi, e1.trans e, e2⟩, hn⟩⟩
  simp [step, hInvSet, hrp, hcap, setInventory_eq, hres, this]

/-- DELETE of all inventories of a provider one of which has allocations: 409, nothing changes -/
theorem delete_all_inventories_in_use_409 {cfg : Config} {db : DB R} {mv u : Nat} {rp : RpRow}
    (hmv : 5 ≤ mv) (hrp : db.rpByUuid u = some rp)
    (hal : ∃ a ∈ db.allocs, a.rp = rp.id ∧ (∃ i ∈ db.invs, i.rp = a.rp ∧ i.rc = a.rc)) :
    step cfg db (.invDeleteAll mv u) = (db, r409 .inventoryInUse) := by
  have : ∃ x, x ∈ db.allocs ∧ x.rp = rp.id ∧ x.rc ∈ invToDelete db rp.id ([] : List (Nat × InvSpec R)) := by
    obtain ⟨a, ha, e, ⟨i, hi, e1, e2⟩⟩ := hal
    exact ⟨a, ha, e, mem_invToDelete.2 ⟨mem_invExisting.2 ⟨i, hi, e1.trans e, e2⟩, by simp⟩⟩
  have h5 : ¬ mv < 5 := by omega
  simp [step, hInvDeleteAll, h5, hrp, setInventory_eq, resolveRcs, this]

/-- DELETE of a custom resource class that still has inventory: 409, nothing changes -/
theorem delete_class_with_inventory_409 {cfg : Config} {db : DB R} {n id : Nat}
    (hrc : db.rcId n = some id) (hcustom : minCustomRcId ≤ id) (hinv : ∃ i ∈ db.invs, i.rc = id) :
    step cfg db (.rcDelete n) = (db, r409) := by
  have h1 : ¬ id < minCustomRcId := by omega
  have : db.invs.any (·.rc == id) = true := by
    obtain ⟨i, hi, e⟩ := hinv
    exact List.any_eq_true.2 ⟨i, hi, by simpa using e⟩
  simp [step, hRcDelete, hrc, deleteRc, h1, this]

/-- DELETE of a standard resource class: 400, nothing changes -/
theorem delete_standard_class_400 {cfg : Config} {db : DB R} {n id : Nat}
    (hrc : db.rcId n = some id) (hstd : id < minCustomRcId) :
    step cfg db (.rcDelete n) = (db, r400) := by
  simp [step, hRcDelete, hrc, deleteRc, hstd]

/-- DELETE of a custom trait that is associated with a provider: 409, nothing changes -/
theorem delete_trait_in_use_409 {cfg : Config} {db : DB R} {n : Nat}
    (hex : n ∈ db.traits) (hcustom : isCustom n = true) (huse : ∃ p ∈ db.rpTraits, p.2 = n) :
    step cfg db (.traitDelete n) = (db, r409) := by
  have : db.rpTraits.any (·.2 == n) = true := by
    obtain ⟨p, hp, e⟩ := huse
    exact List.any_eq_true.2 ⟨p, hp, by simpa using e⟩
  simp [step, hTraitDelete, hex, deleteTrait, hcustom, this]

/-- DELETE of a standard trait: 400, nothing changes -/
theorem delete_standard_trait_400 {cfg : Config} {db : DB R} {n : Nat}
    (hex : n ∈ db.traits) (hstd : isCustom n = false) :
    step cfg db (.traitDelete n) = (db, r400) := by
  simp [step, hTraitDelete, hex, deleteTrait, hstd]


/-! ## a provider without allocations and children: the delete cascades -/

/-- DELETE of a provider answered 204 removes exactly the provider row, its inventories and its trait and
aggregate associations; every other table and every other row is unchanged. -/
theorem delete_provider_cascades {cfg : Config} {db db' : DB R} {u : Nat} {r : Resp}
    (h : step cfg db (.rpDelete u) = (db', r)) (hs : r.status = 204) :
    ∃ rp, db.rpByUuid u = some rp ∧
      db' = { db with rps := db.rps.filter (·.id != rp.id),
                      invs := db.invs.filter (·.rp != rp.id),
                      rpTraits := db.rpTraits.filter (·.1 != rp.id),
                      rpAggs := db.rpAggs.filter (·.1 != rp.id) } := by
  simp only [step, hRpDelete] at h
  split at h
  · simp only [Prod.mk.injEq] at h; rw [← h.2] at hs; simp [r404] at hs
  · next me hme =>
    split at h
    · next d hd =>
      simp only [Prod.mk.injEq] at h
      refine ⟨me, hme, ?_⟩
      rw [← h.1, (deleteProvider_ok hd).1]
    all_goals (simp only [Prod.mk.injEq] at h; rw [← h.2] at hs; simp [r409, r404, r500] at hs)

/-- ... in particular nothing of the provider is left -/
theorem delete_provider_leaves_nothing {cfg : Config} {db db' : DB R} {u : Nat} {r : Resp}
    (h : step cfg db (.rpDelete u) = (db', r)) (hs : r.status = 204) :
    ∃ rp, db.rpByUuid u = some rp ∧ (∀ x ∈ db'.rps, x.id ≠ rp.id) ∧ (∀ i ∈ db'.invs, i.rp ≠ rp.id) ∧
      (∀ p ∈ db'.rpTraits, p.1 ≠ rp.id) ∧ (∀ p ∈ db'.rpAggs, p.1 ≠ rp.id) := by
  obtain ⟨rp, hrp, rfl⟩ := delete_provider_cascades h hs
  refine ⟨rp, hrp, ?_, ?_, ?_, ?_⟩ <;> intro x hx <;> simpa using (List.mem_filter.1 hx).2

/-! ## the hypotheses are satisfiable (concrete state `Wf.exDb`, ratios in `Nat`) -/

example : RI (exDb) := ri_exDb

example : ReachWF exCfg [0, 2] [4] (initDb [0, 2] [4] : DB Nat) := .init

example : RI (step exCfg (initDb [0, 2] [4] : DB Nat) (.rpCreate 39 100 200 none)).1 :=
  reach_ri (cfg := exCfg) (stdRcs := [0, 2]) (stdTraits := [4]) (by decide) (by decide) (.step _ _ .init trivial)

/-- provider 2 (uuid 101) holds an allocation and has no children -/
example : step exCfg exDb (.rpDelete 101) = (exDb, r409 .providerInUse) :=
  delete_provider_in_use_409 (rp := { id := 2, uuid := 101, name := 201, gen := 3, parent := some 1, root := 1 })
    (by decide) (by decide) (by decide)

/-- provider 1 (uuid 100) is the parent of provider 2 -/
example : step exCfg exDb (.rpDelete 100) = (exDb, r409 .cannotDeleteParent) :=
  delete_parent_409 (rp := { id := 1, uuid := 100, name := 200, gen := 0, parent := none, root := 1 })
    (by decide) (by decide)

/-- class 0 on provider 2 is allocated by consumer 500 -/
example : step exCfg exDb (.invDelete 101 0) = (exDb, r409 .concurrentUpdate) :=
  delete_inventory_in_use_409 (rc := 0)
    (rp := { id := 2, uuid := 101, name := 201, gen := 3, parent := some 1, root := 1 })
    (by decide) (by decide) (by decide)

example : step exCfg exDb (.invSet 39 101 3 []) = (exDb, r409 .inventoryInUse) :=
  put_inventories_dropping_in_use_409 (these := [])
    (rp := { id := 2, uuid := 101, name := 201, gen := 3, parent := some 1, root := 1 })
    (by decide) (by decide) rfl ⟨_, List.mem_singleton.2 rfl, rfl, ⟨_, List.mem_cons_self, rfl, rfl⟩, by simp⟩

example : step exCfg exDb (.invDeleteAll 39 101) = (exDb, r409 .inventoryInUse) :=
  delete_all_inventories_in_use_409
    (rp := { id := 2, uuid := 101, name := 201, gen := 3, parent := some 1, root := 1 })
    (by decide) (by decide) ⟨_, List.mem_singleton.2 rfl, rfl, ⟨_, List.mem_cons_self, rfl, rfl⟩⟩

/-- the custom class 11 (id 10000) has inventory on provider 3 -/
example : step exCfg exDb (.rcDelete 11) = (exDb, r409) :=
  delete_class_with_inventory_409 (id := 10000) (by decide) (by decide)
    ⟨_, List.mem_cons_of_mem _ List.mem_cons_self, rfl⟩

/-- class 2 is a standard class (id 1) -/
example : step exCfg exDb (.rcDelete 2) = (exDb, r400) :=
  delete_standard_class_400 (id := 1) (by decide) (by decide)

/-- the custom trait 13 is associated with providers 2 and 3 -/
example : step exCfg exDb (.traitDelete 13) = (exDb, r409) :=
  delete_trait_in_use_409 (by decide) (by decide) (by decide)

/-- trait 4 is a standard trait -/
example : step exCfg exDb (.traitDelete 4) = (exDb, r400) :=
  delete_standard_trait_400 (by decide) (by decide)

/-- provider 3 (uuid 102) has no allocations and no children: 204, and its inventory, trait and aggregate rows go -/
example : (step exCfg exDb (.rpDelete 102)).2 = r204 := by decide

example : ∃ rp, exDb.rpByUuid 102 = some rp ∧
    (∀ i ∈ (step exCfg exDb (.rpDelete 102)).1.invs, i.rp ≠ rp.id) :=
  let ⟨rp, h1, _, h3, _⟩ :=
    delete_provider_leaves_nothing (cfg := exCfg) (db := exDb) (u := 102) (r := r204) rfl rfl
  ⟨rp, h1, h3⟩

end Placement.Props.C08
