/-
  C01  Allocation writes never over-commit inventory or break unit constraints.

  "Whenever a request that writes allocations (PUT /allocations/{consumer}, POST /allocations,
  POST /reshaper) is accepted, every (resource provider, resource class) on which it places a
  positive amount has an inventory, each placed amount lies between that inventory's min_unit and
  max_unit and is a multiple of its step_size, and the total then used there by all consumers does
  not exceed (total - reserved) * allocation_ratio.  Consequently a provider/class pair can become
  over-committed only as the direct result of an inventory change, never of an allocation write,
  and while it is over-committed its usage never grows."

  The statements are about the executable model (`Placement.Model.Objects`, `.Handlers`) and hold
  for EVERY ratio type `R` with the two float operations of `CapOps R`.  The first sentence needs
  no law about them: the accepted total IS the argument of the capacity test that passed.  The
  second sentence needs one law, `MonoCapOps` (`capacity < n` is monotone in the integer `n`):
  a pair whose usage shrinks must not become over-committed by that.

  Hypotheses: `Uniq db` / `AllocPos db` are the invariants of `Spec/Inv.lean` (unique indexes, stored
  amounts positive); `Op.WF` is the JSON-schema fact that amounts are not negative (`"minimum": 1`)
  and that `inventories` of a reshape is an object (one entry per provider uuid).
  Helper lemmas: `Placement/Lemmas/Alloc*.lean`.
-/
import Placement.Lemmas.GuardTie
import Placement.Lemmas.AllocInvariant
import Placement.Lemmas.AllocExample

namespace Placement.Props.C01
open Placement Placement.C01Ex

variable {R : Type} [CapOps R]

/-! ## 1. The loop of `_check_capacity_exceeded` -/

/-- If the loop accepts `rest` (having already visited `seen`), every entry `(rp, rc, n)` with
`0 < n` has an inventory `i` with `min_unit ≤ n ≤ max_unit`, `step_size ∣ n`, and the usage stored
plus EVERYTHING the request places on `(rp, rc)` is not above capacity. -/
theorem checkLoop_sound (db : DB R) (seen rest : List (Nat × Nat × Int))
    (hnn : ∀ a ∈ rest, 0 ≤ a.2.2) (h : checkLoop db seen rest = .ok ()) :
    ∀ a ∈ rest, 0 < a.2.2 →
      ∃ i, db.invOf a.1 a.2.1 = some i ∧
        i.minUnit ≤ a.2.2 ∧ a.2.2 ≤ i.maxUnit ∧ a.2.2 % i.stepSize = 0 ∧
        CapOps.capLt (i.total - i.reserved) i.ratio
          (db.usage a.1 a.2.1 + sumKey a.1 a.2.1 (seen ++ rest)) = false :=
  checkLoop_sound_aux db seen rest hnn h

example : (∀ a ∈ [(1, 0, (2 : Int)), (1, 0, 0), (1, 0, 2)], 0 ≤ a.2.2) ∧
    checkLoop db0 [] [(1, 0, 2), (1, 0, 0), (1, 0, 2)] = .ok () := ⟨by decide, rfl⟩

/-! ## 2. `_set_allocations` -/

/-- If `_set_allocations` commits, then for every allocation object with a positive amount the
resulting state has an inventory row for its (provider, class), the amount respects the row's
unit constraints, and the total then used by ALL consumers is not above the row's capacity.
(Uses: the consumers' old rows are deleted first; the inserted rows are exactly the positive
entries; generation bumps and the consumer clean-up touch neither table.) -/
theorem setAllocations_safe {db db' : DB R} {allocs : List AllocReq}
    (h : setAllocations db allocs = .ok db') (hnn : ∀ a ∈ allocs, 0 ≤ a.used)
    (hu : (db.invs.map (fun i => (i.rp, i.rc))).Nodup) :
    ∀ a ∈ allocs, 0 < a.used → ∀ rc, db.rcId a.rcName = some rc →
      (∃ i ∈ db'.invs, i.rp = a.rpId ∧ i.rc = rc) ∧
      ∀ i ∈ db'.invs, i.rp = a.rpId → i.rc = rc →
        i.minUnit ≤ a.used ∧ a.used ≤ i.maxUnit ∧ a.used % i.stepSize = 0 ∧
        CapOps.capLt (i.total - i.reserved) i.ratio (db'.usage a.rpId rc) = false :=
  setAllocations_safe_all h hnn hu

/-- consumer 500 replaces its 6 units by 8 while others hold 6 of the capacity 16 -/
example : (∃ db', setAllocations db0 objs500 = .ok db') ∧ (∀ a ∈ objs500, 0 ≤ a.used) ∧
    (db0.invs.map (fun i => (i.rp, i.rc))).Nodup ∧ (∃ a ∈ objs500, 0 < a.used) :=
  ⟨⟨_, rfl⟩, by decide, by decide, by decide⟩

/-! ## 3. Accepted writes place safely -/

/-- **C01, first sentence.**  If a request is accepted (2xx), then for every entry
`(provider uuid, class name, amount)` with a positive amount that it asks to place
(`Op.placed`: the body of `PUT /allocations/{c}`, all consumers of `POST /allocations`, the
`allocations` of `POST /reshaper`): the provider and the class exist, the resulting state has an
inventory row `i` for them, the amount respects `i`'s unit constraints, the total then used there
by all consumers is not above `i`'s capacity, and the pair is not over-committed.  For
`POST /reshaper` the row is the one of the FINAL state (the final inventory replacement refuses
to drop a class in use and re-writes a surviving row with the values the interim replacement gave
it). -/
theorem accepted_write_safe (cfg : Config) (db : DB R) (op : Op R) (hu : Uniq db) (hwf : op.WF)
    (hok : (step cfg db op).2.ok = true) :
    ∀ x ∈ op.placed, 0 < x.2.2 →
      ∃ rp rc i, db.rpByUuid x.1 = some rp ∧ db.rcId x.2.1 = some rc ∧
        i ∈ (step cfg db op).1.invs ∧ i.rp = rp.id ∧ i.rc = rc ∧
        i.minUnit ≤ x.2.2 ∧ x.2.2 ≤ i.maxUnit ∧ x.2.2 % i.stepSize = 0 ∧
        CapOps.capLt (i.total - i.reserved) i.ratio ((step cfg db op).1.usage rp.id rc) = false ∧
        ¬ OverCommitted (step cfg db op).1 rp.id rc :=
  step_placed_safe cfg db op hu.inv hu.rcId hu.rpId hwf hok

/-- `PUT`: a new consumer takes the last 4 of 16 units.  `POST`: two new consumers land on the
same inventory in one request.  `POST /reshaper`: inventory and usage move from a provider to its
child. -/
example : Uniq db0 ∧ put4.WF ∧ (step cfg db0 put4).2.ok = true ∧ (∃ x ∈ put4.placed, 0 < x.2.2) :=
  ⟨uniq_db0, by decide, by decide, by decide⟩
example : post22.WF ∧ (step cfg db0 post22).2.ok = true ∧ (∃ x ∈ post22.placed, 0 < x.2.2) := by decide
example : reshape6.WF ∧ (step cfg db0 reshape6).2.ok = true ∧ (∃ x ∈ reshape6.placed, 0 < x.2.2) := by
  decide

/-! ## 4. Only an inventory change can over-commit -/

/-- **C01, second sentence, first half.**  If a pair (provider `rp`, class `rc`) is over-committed
after a request but was not before, the request is `PUT …/inventories`, `POST …/inventories`,
`PUT …/inventories/{rc}` on that provider, or a `POST /reshaper` whose `inventories` name that
provider (`Op.changesInventoryOf`; provider ids are never reused, and deleting inventory or a
provider only removes rows, which cannot over-commit). -/
theorem overcommit_only_by_inventory_change [MonoCapOps R] (cfg : Config) (db : DB R) (op : Op R)
    (hu : Uniq db) (hp : AllocPos db) (hwf : op.WF) (rp rc : Nat)
    (hbefore : ¬ OverCommitted db rp rc) (hafter : OverCommitted (step cfg db op).1 rp rc) :
    op.changesInventoryOf db rp := by
  false_or_by_contra
  rename_i hn
  exact hbefore (step_oc_back cfg db op (StateOK.of_uniq hu hp) hwf hafter hn)

/-- shrinking the inventory under 12 used units over-commits the pair -/
example : Uniq db0 ∧ AllocPos db0 ∧ shrink.WF ∧ ¬ OverCommitted db0 1 0 ∧
    OverCommitted (step cfg db0 shrink).1 1 0 :=
  ⟨uniq_db0, by decide, by decide, by decide, by decide⟩

/-- In particular an allocation write (`PUT`/`POST`/`DELETE /allocations…`) never over-commits any
pair, and a reshape over-commits no pair of a provider whose inventory it does not replace. -/
theorem allocation_write_never_overcommits [MonoCapOps R] (cfg : Config) (db : DB R) (op : Op R)
    (hu : Uniq db) (hp : AllocPos db) (hwf : op.WF) (rp rc : Nat)
    (hop : ¬ op.changesInventoryOf db rp) (hbefore : ¬ OverCommitted db rp rc) :
    ¬ OverCommitted (step cfg db op).1 rp rc :=
  fun hafter => hop (overcommit_only_by_inventory_change cfg db op hu hp hwf rp rc hbefore hafter)

example : Uniq db0 ∧ AllocPos db0 ∧ put4.WF ∧ ¬ put4.changesInventoryOf db0 1 ∧
    ¬ OverCommitted db0 1 0 :=
  ⟨uniq_db0, by decide, by decide, fun h => h, by decide⟩

/-! ## 5. While over-committed, usage never grows -/

/-- **C01, second sentence, second half.**  If a pair is over-committed after a request — any
request, an inventory change or a reshape included — its usage is not larger than before the
request.  (Stronger than "over-committed before and after a request that is not an inventory
change of it": neither of these two side conditions is needed.) -/
theorem overcommitted_usage_never_grows (cfg : Config) (db : DB R) (op : Op R)
    (hu : Uniq db) (hp : AllocPos db) (hwf : op.WF) (rp rc : Nat)
    (hafter : OverCommitted (step cfg db op).1 rp rc) :
    (step cfg db op).1.usage rp rc ≤ db.usage rp rc :=
  step_usage_le cfg db op (StateOK.of_uniq hu hp) hwf hafter

/-- 12 used of capacity 8; consumer 502 releases 2: still over-committed, usage 12 → 10 -/
example : Uniq dbOver ∧ AllocPos dbOver ∧ release502.WF ∧ OverCommitted dbOver 1 0 ∧
    OverCommitted (step cfg dbOver release502).1 1 0 :=
  ⟨uniq_dbOver, by decide, by decide, by decide, by decide⟩

/-! ## 6. Histories -/

/-- the state a history `pre` leads to -/
abbrev after (cfg : Config) (db : DB R) (pre : List (Op R)) : DB R := (run cfg db pre).1

/-- Sections 3–5 hold at every position of every history of well-formed requests that starts in
a state satisfying the invariants (in particular from the synchronised empty database). -/
theorem history_stepwise [MonoCapOps R] (cfg : Config) (db0 : DB R) (ops pre post : List (Op R))
    (op : Op R) (hu : Uniq db0) (hp : AllocPos db0) (hwf : ∀ o ∈ ops, o.WF)
    (hsplit : ops = pre ++ op :: post) :
    let db := after cfg db0 pre
    let db' := (step cfg db op).1
    -- an accepted write places safely
    ((step cfg db op).2.ok = true → ∀ x ∈ op.placed, 0 < x.2.2 →
      ∃ rp rc i, db.rpByUuid x.1 = some rp ∧ db.rcId x.2.1 = some rc ∧
        i ∈ db'.invs ∧ i.rp = rp.id ∧ i.rc = rc ∧
        i.minUnit ≤ x.2.2 ∧ x.2.2 ≤ i.maxUnit ∧ x.2.2 % i.stepSize = 0 ∧
        CapOps.capLt (i.total - i.reserved) i.ratio (db'.usage rp.id rc) = false ∧
        ¬ OverCommitted db' rp.id rc) ∧
    -- only an inventory change over-commits
    (∀ rp rc, ¬ OverCommitted db rp rc → OverCommitted db' rp rc → op.changesInventoryOf db rp) ∧
    -- usage of an over-committed pair does not grow
    (∀ rp rc, OverCommitted db' rp rc → db'.usage rp rc ≤ db.usage rp rc) := by
  intro db db'
  have hpre : ∀ o ∈ pre, o.WF := fun o ho => hwf o (by rw [hsplit]; exact List.mem_append_left _ ho)
  have hop : op.WF := hwf op (by rw [hsplit]; simp)
  have hi : C01Inv db := run_inv cfg db0 pre hpre (C01Inv.of_uniq hu hp)
  refine ⟨?_, ?_, ?_⟩
  · exact step_placed_safe cfg db op hi.invKeys hi.rcIds hi.rp.1 hop
  · intro rp rc h0 h1
    false_or_by_contra
    rename_i hn
    exact h0 (step_oc_back cfg db op hi.stateOK hop h1 hn)
  · intro rp rc h1
    exact step_usage_le cfg db op hi.stateOK hop h1

/-- A pair that is over-committed at the end of a history but was not at its start became so at
some request of the history that changes the inventory of that provider. -/
theorem history_overcommit_only_by_inventory_change [MonoCapOps R] (cfg : Config) (db0 : DB R)
    (ops : List (Op R)) (hu : Uniq db0) (hp : AllocPos db0) (hwf : ∀ o ∈ ops, o.WF) (rp rc : Nat)
    (hstart : ¬ OverCommitted db0 rp rc) (hend : OverCommitted (after cfg db0 ops) rp rc) :
    ∃ pre op post, ops = pre ++ op :: post ∧
      ¬ OverCommitted (after cfg db0 pre) rp rc ∧
      OverCommitted (step cfg (after cfg db0 pre) op).1 rp rc ∧
      op.changesInventoryOf (after cfg db0 pre) rp :=
  run_oc_cause cfg db0 ops hwf (C01Inv.of_uniq hu hp) hstart hend

/-- While a pair stays over-committed along a history (after each of its requests), its usage at
the end is not larger than at the start. -/
theorem history_overcommitted_usage_never_grows (cfg : Config) (db0 : DB R) (ops : List (Op R))
    (hu : Uniq db0) (hp : AllocPos db0) (hwf : ∀ o ∈ ops, o.WF) (rp rc : Nat)
    (hoc : ∀ k < ops.length, OverCommitted (after cfg db0 (ops.take (k + 1))) rp rc) :
    (after cfg db0 ops).usage rp rc ≤ db0.usage rp rc :=
  run_usage_le cfg db0 ops hwf (C01Inv.of_uniq hu hp) hoc

/-- shrink the inventory (12 used of capacity 8), release 2, then consumer 501 replaces its 4 by 2
(accepted: 6 + 2 = 8) -/
def hist : List (Op Q4) :=
  [shrink, release502, .allocPut 28 (consumer 501 (some 1) [(100, 10, 2)])]

example : Uniq db0 ∧ AllocPos db0 ∧ (∀ o ∈ hist, o.WF) ∧
    -- the pair is over-committed after the first and the second request, not after the third
    ¬ OverCommitted db0 1 0 ∧ OverCommitted (after cfg db0 (hist.take 2)) 1 0 ∧
    (∀ k < (hist.take 2).length, OverCommitted (after cfg db0 ((hist.take 2).take (k + 1))) 1 0) ∧
    ((run cfg db0 hist).2.map (·.status) = [200, 204, 204]) ∧
    ¬ OverCommitted (after cfg db0 hist) 1 0 :=
  ⟨uniq_db0, by decide, by decide, by decide, by decide, by decide, by decide, by decide⟩

end Placement.Props.C01
