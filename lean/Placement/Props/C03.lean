import Placement.Lemmas.CandEnum
import Placement.Lemmas.CandBase
/-
  C03  "Without a limit, GET /allocation_candidates returns exactly the set of distinct (allocations, mappings)
  combinations in which all providers used belong to one provider tree or are sharing providers (trait
  MISC_SHARES_VIA_AGGREGATE) associated through an aggregate with a provider of that tree; each suffixed group is
  satisfied by one provider that has room for all the group's resources, has the group's required and none of its
  forbidden traits, and meets its member_of and in_tree filters; the unsuffixed group's resources may be spread over
  that tree and its sharing providers, its required traits being met collectively by the providers it uses, none of
  which has a forbidden trait, and its member_of being met by each provider it uses directly or, for providers of the
  tree, through the tree's root; and group_policy=isolate, same_subtree, root_required and the capacity and max_unit
  limits on the summed amounts all hold.  Nothing satisfying these rules is omitted and nothing violating them is
  returned.  Below microversion 1.29 only the combinations using at most one provider per tree are returned."

  `Spec.IsCandidate db q c` (Spec/Candidates.lean) is this text as a predicate: an anchor root `r` with `AnchorOk`
  (root_required), providers `ps` for the suffixed groups with `GroupSat` each (anchored in the tree of `r` or sharing
  and linked to it; room; traits; member_of; in_tree), providers `us` for the classes of the unsuffixed group with
  `EntrySat` each and `UnsuffSat` together, `Joint` (isolate, same_subtree, summed limits, the rule below 1.29), and
  `c` = the placed amounts added up per (provider, class) + the mappings.
  `Spec.candidates db q` is the executable enumerator the real service is compared with.  The theorems below hold
  for EVERY database and query (no well-formedness hypothesis is needed).
-/
namespace Placement.Spec

variable {R : Type} [CapOps R]

/-- nothing violating the rules is returned -/
theorem candidates_sound (db : DB R) (q : Query) (c : Candidate) : c ∈ candidates db q → IsCandidate db q c :=
  (mem_candidates db q c).mp

/-- nothing satisfying the rules is omitted -/
theorem candidates_complete (db : DB R) (q : Query) (c : Candidate) : IsCandidate db q c → c ∈ candidates db q :=
  (mem_candidates db q c).mpr

/-- the combinations returned are distinct -/
theorem candidates_nodup (db : DB R) (q : Query) : (candidates db q).Nodup := nodup_dedup _

/-- a combination that differs from every enumerated one in its allocations or mappings is not described by the
request (the form in which the comparison with the real response is read) -/
theorem not_candidate_of_not_enumerated (db : DB R) (q : Query) (c : Candidate) (h : c ∉ candidates db q) :
    ¬ IsCandidate db q c := fun hc => h (candidates_complete db q c hc)

/-! ### examples on `CandEx.db` (two trees, a sharing provider linked to both by aggregate 50) -/

namespace C03Ex
open CandEx

/-- `resources=VCPU:2,DISK_GB:5`: VCPU from 2 or 3 (tree of 1) with DISK from 1 or the sharing provider 5;
VCPU from 4 with DISK from 5 only (4 has no disk) -/
def q1 : Query := { shareT := 60, unsuff := some { suffix := 0, resources := [(0, 2), (2, 5)] } }

example : (candidates db q1).map (·.alloc) =
    [[((1, 2), 5), ((2, 0), 2)], [((2, 0), 2), ((5, 2), 5)], [((1, 2), 5), ((3, 0), 2)], [((3, 0), 2), ((5, 2), 5)],
     [((4, 0), 2), ((5, 2), 5)]] := by decide

/-- the same below 1.29: only one provider per tree, so tree 1 contributes nothing but "2 + 5" and "3 + 5" -/
example : (candidates db { q1 with mv := 28 }).map (·.alloc) =
    [[((2, 0), 2), ((5, 2), 5)], [((3, 0), 2), ((5, 2), 5)], [((4, 0), 2), ((5, 2), 5)]] := by decide

/-- granular, overlapping class, isolate: `resources=VCPU:2&resources1=VCPU:2&group_policy=isolate&root_required=70`;
provider 3 has capacity 2: it cannot serve both groups, the amounts on provider 2 add up to 4 (4 + 4 used <= 12) -/
def q2 : Query :=
  { shareT := 60, unsuff := some { suffix := 0, resources := [(0, 2)] },
    groups := [{ suffix := 1, resources := [(0, 2)] }], isolate := true, rootRequired := [70] }

example : candidates db q2 =
    [{ alloc := [((2, 0), 4)], maps := [(0, [2]), (1, [2])] },
     { alloc := [((2, 0), 2), ((3, 0), 2)], maps := [(0, [3]), (1, [2])] },
     { alloc := [((2, 0), 2), ((3, 0), 2)], maps := [(0, [2]), (1, [3])] }] := by decide

/-- a group without resources and `same_subtree`: `resources_A=VCPU:1&required_B=70&same_subtree=_A,_B`:
the provider of `_B` must be an ancestor-or-self of (or below) the provider of `_A`: only root 1 has trait 70 -/
def q3 : Query :=
  { shareT := 60, groups := [{ suffix := 1, resources := [(0, 1)] }, { suffix := 2, required := [[70]] }],
    sameSubtree := [[1, 2]] }

example : candidates db q3 = [{ alloc := [((3, 0), 1)], maps := [(1, [3]), (2, [1])] }] := by decide

example : IsCandidate db q3 { alloc := [((3, 0), 1)], maps := [(1, [3]), (2, [1])] } := by decide
example : ¬ IsCandidate db q3 { alloc := [((4, 0), 1)], maps := [(1, [4]), (2, [1])] } := by decide

end C03Ex

end Placement.Spec
