import Placement.Model.Basic
/-
  Specification of the provider filters (property C13) and the basic predicates shared with the
  allocation-candidate specification (C03):  DESIGN.md, Appendix D.

  Everything here is executable and generic in the ratio type `R`.  Providers are rows of
  `db.rps`; traits are names, aggregates are uuids, resource classes are internal ids (the
  handler-level functions resolve class names and answer 400 for unknown names).

  Two descriptions of `GET /resource_providers`:
  * `MatchesFilters db f p` – the property text as a decidable predicate, `listProviders` its filter;
  * `listProvidersAlgo` – the id-set algebra of `_get_all_by_filters_from_db` with its early returns.
  `Props/C13.lean` proves that they select the same providers.
-/
namespace Placement.Spec

variable {R : Type}

/-! ### basic predicates -/

/-- provider `p` (internal id) has trait `t` -/
def hasTrait (db : DB R) (p t : Nat) : Prop := (p, t) ∈ db.rpTraits
/-- provider `p` is directly associated with aggregate `a`; an aggregate uuid nobody ever used is
associated with nobody -/
def inAgg (db : DB R) (p a : Nat) : Prop := (p, a) ∈ db.rpAggs

instance (db : DB R) (p t : Nat) : Decidable (hasTrait db p t) :=
  inferInstanceAs (Decidable ((p, t) ∈ db.rpTraits))
instance (db : DB R) (p a : Nat) : Decidable (inAgg db p a) :=
  inferInstanceAs (Decidable ((p, a) ∈ db.rpAggs))

/-- every any-of set of `req` meets the traits of `p` -/
def hasReq (db : DB R) (p : Nat) (req : List (List Nat)) : Prop := ∀ s ∈ req, ∃ t ∈ s, hasTrait db p t
/-- `p` has one of the traits `forb` -/
def hasForb (db : DB R) (p : Nat) (forb : List Nat) : Prop := ∃ t ∈ forb, hasTrait db p t
/-- every `member_of` value (an any-of list) contains an aggregate `p` is directly associated with -/
def inAggs (db : DB R) (p : Nat) (m : List (List Nat)) : Prop := ∀ l ∈ m, ∃ a ∈ l, inAgg db p a
/-- `p` is directly associated with a forbidden aggregate -/
def inBad (db : DB R) (p : Nat) (bad : List Nat) : Prop := ∃ a ∈ bad, inAgg db p a

instance (db : DB R) (p : Nat) (req : List (List Nat)) : Decidable (hasReq db p req) := by
  unfold hasReq; infer_instance
instance (db : DB R) (p : Nat) (forb : List Nat) : Decidable (hasForb db p forb) := by
  unfold hasForb; infer_instance
instance (db : DB R) (p : Nat) (m : List (List Nat)) : Decidable (inAggs db p m) := by
  unfold inAggs; infer_instance
instance (db : DB R) (p : Nat) (bad : List Nat) : Decidable (inBad db p bad) := by
  unfold inBad; infer_instance

/-- `p` has an inventory of class `rc` with room for `n` more: capacity `(total - reserved) * ratio`
not below `used + n`, `min_unit ≤ n ≤ max_unit`, `step_size ∣ n` -/
def room [CapOps R] (db : DB R) (p rc : Nat) (n : Int) : Prop :=
  ∃ i ∈ db.invs, i.rp = p ∧ i.rc = rc ∧
    CapOps.capLt (i.total - i.reserved) i.ratio (db.usage p rc + n) = false ∧
    i.minUnit ≤ n ∧ n ≤ i.maxUnit ∧ n % i.stepSize = 0

instance [CapOps R] (db : DB R) (p rc : Nat) (n : Int) : Decidable (room db p rc n) := by
  unfold room; infer_instance

/-- the provider named by uuid `u` exists and `p` lies in its tree -/
def inTreeOf (db : DB R) (u : Nat) (p : RpRow) : Prop := ∃ t ∈ db.rps, t.uuid = u ∧ p.root = t.root

instance (db : DB R) (u : Nat) (p : RpRow) : Decidable (inTreeOf db u p) := by
  unfold inTreeOf; infer_instance

/-- a condition that applies only when the optional filter is supplied -/
def whenSome {α : Type} (o : Option α) (P : α → Prop) : Prop :=
  match o with
  | none => True
  | some a => P a

instance {α : Type} (o : Option α) (P : α → Prop) [∀ a, Decidable (P a)] : Decidable (whenSome o P) := by
  unfold whenSome; cases o <;> infer_instance

theorem whenSome_iff {α : Type} (o : Option α) (P : α → Prop) : whenSome o P ↔ ∀ a, o = some a → P a := by
  cases o <;> simp [whenSome]

/-! ### `GET /resource_providers` -/

/-- parsed query of `GET /resource_providers` (names resolved) -/
structure Filters where
  name : Option Nat := none
  uuid : Option Nat := none
  inTree : Option Nat := none               -- uuid of a provider
  memberOf : List (List Nat) := []          -- one any-of list per positive `member_of` value
  forbiddenAggs : List Nat := []            -- `member_of=!…` / `!in:…`
  required : List (List Nat) := []          -- any-of sets (`required=T` is the singleton)
  forbidden : List Nat := []
  resources : List (Nat × Int) := []        -- (class id, amount)
deriving Repr, Inhabited

variable [CapOps R]

/-- C13, the property text: the provider satisfies every supplied filter -/
def MatchesFilters (db : DB R) (f : Filters) (p : RpRow) : Prop :=
  whenSome f.name (fun n => p.name = n) ∧
  whenSome f.uuid (fun u => p.uuid = u) ∧
  whenSome f.inTree (fun u => inTreeOf db u p) ∧
  inAggs db p.id f.memberOf ∧
  ¬ inBad db p.id f.forbiddenAggs ∧
  hasReq db p.id f.required ∧
  ¬ hasForb db p.id f.forbidden ∧
  ∀ e ∈ f.resources, room db p.id e.1 e.2

instance (db : DB R) (f : Filters) (p : RpRow) : Decidable (MatchesFilters db f p) := by
  unfold MatchesFilters; infer_instance

/-- the specification as a list -/
def listProviders (db : DB R) (f : Filters) : List RpRow :=
  db.rps.filter (fun p => decide (MatchesFilters db f p))

/-! #### the algorithm of `_get_all_by_filters_from_db` -/

/-- `provider_ids_matching_aggregates`: aggregate uuids are first mapped to internal ids through the
aggregates table (`db.aggs`); a value naming only unknown aggregates short-circuits to the empty set -/
def idsMatchingAggregates (db : DB R) (m : List (List Nat)) : List Nat :=
  if m.any (fun l => (l.filter (fun a => db.aggs.contains a)).isEmpty) then []
  else (db.rps.filter (fun p => m.all (fun l =>
      (l.filter (fun a => db.aggs.contains a)).any (fun a => db.rpAggs.contains (p.id, a))))).map (·.id)

/-- `provider_ids_matching_required_traits` -/
def idsMatchingRequiredTraits (db : DB R) (req : List (List Nat)) : List Nat :=
  (db.rps.filter (fun p => req.all (fun s => s.any (fun t => db.rpTraits.contains (p.id, t))))).map (·.id)

/-- `get_provider_ids_having_any_trait` (reads the association table only) -/
def idsHavingAnyTrait (db : DB R) (ts : List Nat) : List Nat :=
  (db.rpTraits.filter (fun x => ts.contains x.2)).map (·.1)

/-- the four conjuncts of `_capacity_check_clause` -/
def capacityClause (db : DB R) (i : InvRow R) (n : Int) : Bool :=
  !(CapOps.capLt (i.total - i.reserved) i.ratio (db.usage i.rp i.rc + n)) &&
  decide (i.minUnit ≤ n) && decide (i.maxUnit ≥ n) && decide (n % i.stepSize = 0)

/-- `get_providers_with_resource` (provider ids; `treeRoot` = the optional root restriction) -/
def idsWithResource (db : DB R) (rc : Nat) (n : Int) : List Nat :=
  (db.invs.filter (fun i => i.rc == rc && capacityClause db i n)).map (·.rp)

/-- one step of the query construction: an early `return []`, or one more WHERE clause -/
inductive Stage
  | empty
  | clause (pred : RpRow → Bool)

def Stage.holds : Stage → RpRow → Prop
  | .empty, _ => False
  | .clause f, p => f p = true

def runStages : List Stage → List RpRow → List RpRow
  | [], rows => rows
  | .empty :: _, _ => []
  | .clause f :: rest, rows => runStages rest (rows.filter f)

def stageName (f : Filters) : Stage :=
  match f.name with
  | some n => .clause (fun p => p.name == n)
  | none => .clause (fun _ => true)

def stageUuid (f : Filters) : Stage :=
  match f.uuid with
  | some u => .clause (fun p => p.uuid == u)
  | none => .clause (fun _ => true)

def stageInTree (db : DB R) (f : Filters) : Stage :=
  match f.inTree with
  | none => .clause (fun _ => true)
  | some u =>
    match db.rpByUuid u with
    | none => .empty                                   -- "simply return an empty list"
    | some t => .clause (fun p => p.root == t.root)

def stageRequired (db : DB R) (f : Filters) : Stage :=
  if f.required.isEmpty then .clause (fun _ => true)
  else
    let s := idsMatchingRequiredTraits db f.required
    if s.isEmpty then .empty else .clause (fun p => s.contains p.id)

def stageForbidden (db : DB R) (f : Filters) : Stage :=
  if f.forbidden.isEmpty then .clause (fun _ => true)
  else
    let s := idsHavingAnyTrait db f.forbidden
    if s.isEmpty then .clause (fun _ => true) else .clause (fun p => !s.contains p.id)

def stageMemberOf (db : DB R) (f : Filters) : Stage :=
  if f.memberOf.isEmpty then .clause (fun _ => true)
  else
    let s := idsMatchingAggregates db f.memberOf
    if s.isEmpty then .empty else .clause (fun p => s.contains p.id)

def stageForbiddenAggs (db : DB R) (f : Filters) : Stage :=
  if f.forbiddenAggs.isEmpty then .clause (fun _ => true)
  else
    let s := idsMatchingAggregates db [f.forbiddenAggs]
    if s.isEmpty then .clause (fun _ => true) else .clause (fun p => !s.contains p.id)

def stagesResources (db : DB R) (f : Filters) : List Stage :=
  f.resources.map (fun e => .clause (fun p => (idsWithResource db e.1 e.2).contains p.id))

def stages (db : DB R) (f : Filters) : List Stage :=
  [stageName f, stageUuid f, stageInTree db f, stageRequired db f, stageForbidden db f,
   stageMemberOf db f, stageForbiddenAggs db f] ++ stagesResources db f

/-- `_get_all_by_filters_from_db` -/
def listProvidersAlgo (db : DB R) (f : Filters) : List RpRow := runStages (stages db f) db.rps

/-! #### handler level: names of traits and classes are resolved first -/

/-- query as the handler receives it: resource classes by name -/
structure RawFilters where
  name : Option Nat := none
  uuid : Option Nat := none
  inTree : Option Nat := none
  memberOf : List (List Nat) := []
  forbiddenAggs : List Nat := []
  required : List (List Nat) := []
  forbidden : List Nat := []
  resources : List (Nat × Int) := []        -- (class NAME, amount)
deriving Repr, Inhabited

def resolveResources (db : DB R) : List (Nat × Int) → Option (List (Nat × Int))
  | [] => some []
  | (n, a) :: rest =>
    match db.rcId n, resolveResources db rest with
    | some id, some r => some ((id, a) :: r)
    | _, _ => none

def RawFilters.traitsKnown (db : DB R) (f : RawFilters) : Bool :=
  f.required.all (fun s => s.all (fun t => db.traits.contains t)) && f.forbidden.all (fun t => db.traits.contains t)

/-- `list_resource_providers`: 400 for an unknown trait or resource class, else the listing -/
def hListProviders (db : DB R) (f : RawFilters) : Except Nat (List RpRow) :=
  if !f.traitsKnown db then .error 400
  else match resolveResources db f.resources with
    | none => .error 400
    | some res => .ok (listProvidersAlgo db
        { name := f.name, uuid := f.uuid, inTree := f.inTree, memberOf := f.memberOf,
          forbiddenAggs := f.forbiddenAggs, required := f.required, forbidden := f.forbidden,
          resources := res })

end Placement.Spec
