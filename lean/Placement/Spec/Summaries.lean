import Placement.Spec.Candidates
/-
  `provider_summaries` of `GET /allocation_candidates` (property C02), as a function of the tables, the
  query (requested classes, microversion) and the allocation requests returned.

  Which providers get an entry follows `_merge_candidates` / `exclude_nested_providers`: every provider of every
  tree that contains a provider named in the allocations of a returned request - with or without inventory -;
  below 1.29, when some provider has a parent, only the providers named themselves.
  What an entry says: capacity = `int((total - reserved) * allocation_ratio)` and used = `SUM(used)` per class
  (all classes of the provider from 1.27, before only the classes the query requests), traits from 1.17,
  parent and root uuids from 1.29.
-/
namespace Placement.Spec

variable {R : Type}

structure SummaryRes where
  rc : Nat              -- class id
  capacity : Int
  used : Int
deriving DecidableEq, Repr, Inhabited

structure Summary where
  rp : Nat                              -- provider id
  resources : List SummaryRes
  traits : Option (List Nat)            -- exposed from 1.17
  parent : Option (Option Nat)          -- exposed from 1.29: parent id or null
  root : Option Nat                     -- exposed from 1.29
deriving DecidableEq, Repr, Inhabited

/-- the classes some group of the query requests -/
def Query.classes (q : Query) : List Nat := (q.groups.flatMap (·.resources) ++ q.unsuffRes).map (·.1)

variable [CapOps R]

def summaryRes (db : DB R) (i : InvRow R) : SummaryRes :=
  { rc := i.rc, capacity := CapOps.capTrunc (i.total - i.reserved) i.ratio, used := db.usage i.rp i.rc }

/-- the entry of provider `p`, derived from its stored inventory, allocations, traits and position -/
def summaryOf (db : DB R) (q : Query) (p : RpRow) : Summary :=
  { rp := p.id
    resources := (db.invs.filter (fun i => i.rp == p.id && (decide (q.mv ≥ 27) || q.classes.contains i.rc))).map (summaryRes db)
    traits := if q.mv ≥ 17 then some (db.traitsOf p.id) else none
    parent := if q.mv ≥ 29 then some p.parent else none
    root := if q.mv ≥ 29 then some p.root else none }

/-- provider ids named in the allocations of the returned requests -/
def namedProviders (cs : List Candidate) : List Nat := cs.flatMap (fun c => c.alloc.map (·.1.1))

/-- the providers that get an entry -/
def summarised (db : DB R) (q : Query) (cs : List Candidate) : List RpRow :=
  if q.mv < 29 ∧ db.rps.any (·.parent.isSome) then
    db.rps.filter (fun p => (namedProviders cs).contains p.id)
  else
    db.rps.filter (fun p => db.rps.any (fun p' => (namedProviders cs).contains p'.id && p'.root == p.root))

def summaries (db : DB R) (q : Query) (cs : List Candidate) : List Summary :=
  (summarised db q cs).map (summaryOf db q)

end Placement.Spec
