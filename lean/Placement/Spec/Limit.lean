import Placement.Spec.Summaries
/-
  `RequestWideSearchContext.limit_results` (property C20): the limit and the randomisation only select from
  the full list of allocation requests; provider summaries are pruned by the ROOT of the providers the kept
  requests name.

  The two library calls are abstracted by their contracts (`random.sample(xs, n)` = the first n elements of some
  permutation of xs, `random.shuffle(xs)` = some permutation of xs); the order of the unlimited list is a
  parameter (`full`) - Python's set iteration order is not modelled.
-/
namespace Placement.Spec

variable {R : Type}

/-- `random.sample` / `random.shuffle` by their contracts -/
structure Selection where
  sample : List Candidate → Nat → List Candidate
  shuffle : List Candidate → List Candidate
  sample_spec : ∀ (xs : List Candidate) (n : Nat), n ≤ xs.length → ∃ ys : List Candidate, ys.Perm xs ∧ sample xs n = ys.take n
  shuffle_spec : ∀ xs : List Candidate, (shuffle xs).Perm xs

/-- `if self._limit and self._limit < len(alloc_request_objs)` -/
def limiting (limit : Option Nat) (full : List Candidate) : Bool :=
  match limit with
  | some n => n != 0 && n < full.length
  | none => false

/-- the allocation requests of the response -/
def limitRequests (sel : Selection) (randomize : Bool) (limit : Option Nat) (full : List Candidate) : List Candidate :=
  if limiting limit full then
    (if randomize then sel.sample full (limit.getD 0) else full.take (limit.getD 0))
  else if randomize then sel.shuffle full else full

def rootOf (db : DB R) (id : Nat) : Option Nat := (db.rpById id).map (·.root)

/-- the provider summaries of the response: when the limit cut the list, only the summaries of providers whose
root is the root of a provider named in a kept request -/
def limitSummaries (db : DB R) (limit : Option Nat) (full kept : List Candidate) (sums : List Summary) : List Summary :=
  if limiting limit full then
    sums.filter (fun s => ((namedProviders kept).map (rootOf db)).contains (rootOf db s.rp))
  else sums

end Placement.Spec
