import Placement.Model.Handlers
/-
  Invariants of the stored state, stated once; which property proves which is noted at each.
  `Reach` = reachable from a synchronised empty database by any list of requests.
-/
namespace Placement
variable {R : Type}

/-- uniqueness constraints of `db/sqlalchemy/models.py` (unique indexes and primary keys) -/
structure Uniq (db : DB R) : Prop where
  rpId : (db.rps.map (·.id)).Nodup
  rpUuid : (db.rps.map (·.uuid)).Nodup
  rpName : (db.rps.map (·.name)).Nodup
  inv : (db.invs.map (fun i => (i.rp, i.rc))).Nodup
  alloc : (db.allocs.map (fun a => (a.rp, a.rc, a.consumer))).Nodup
  consId : (db.consumers.map (·.id)).Nodup
  consUuid : (db.consumers.map (·.uuid)).Nodup
  rcId : (db.rcs.map (·.1)).Nodup
  rcName : (db.rcs.map (·.2)).Nodup
  traits : db.traits.Nodup
  rpTraits : db.rpTraits.Nodup
  rpAggs : db.rpAggs.Nodup
  aggs : db.aggs.Nodup
  /-- fresh ids are above every id in use -/
  freshRp : ∀ r ∈ db.rps, r.id < db.nextRp
  freshCons : ∀ c ∈ db.consumers, c.id < db.nextCons

/-- C08: stored records never dangle -/
structure RI (db : DB R) : Prop where
  allocRp : ∀ a ∈ db.allocs, ∃ r ∈ db.rps, r.id = a.rp
  allocInv : ∀ a ∈ db.allocs, ∃ i ∈ db.invs, i.rp = a.rp ∧ i.rc = a.rc
  allocCons : ∀ a ∈ db.allocs, ∃ c ∈ db.consumers, c.uuid = a.consumer
  invRp : ∀ i ∈ db.invs, ∃ r ∈ db.rps, r.id = i.rp
  invRc : ∀ i ∈ db.invs, ∃ p ∈ db.rcs, p.1 = i.rc
  traitRp : ∀ p ∈ db.rpTraits, ∃ r ∈ db.rps, r.id = p.1
  traitTrait : ∀ p ∈ db.rpTraits, p.2 ∈ db.traits
  aggRp : ∀ p ∈ db.rpAggs, ∃ r ∈ db.rps, r.id = p.1
  aggAgg : ∀ p ∈ db.rpAggs, p.2 ∈ db.aggs
  consProject : ∀ c ∈ db.consumers, c.project ∈ db.projects
  consUser : ∀ c ∈ db.consumers, c.user ∈ db.users
  consType : ∀ c ∈ db.consumers, ∀ t, c.ctype = some t → t ∈ db.ctypes

/-- C09: parent links form a forest ... -/
def Forest (db : DB R) : Prop :=
  (∀ r ∈ db.rps, ∀ p, r.parent = some p → ∃ q ∈ db.rps, q.id = p) ∧
  ∃ rank : Nat → Nat, ∀ r ∈ db.rps, ∀ p, r.parent = some p → rank p < rank r.id

/-- ... and `root` is the local fixpoint: a provider without parent is its own root, a child has
its parent's root (with `Forest` this is "the provider reached by following parent links to the top",
`root_is_top`). -/
def Roots (db : DB R) : Prop :=
  ∀ r ∈ db.rps, (r.parent = none → r.root = r.id) ∧
                (∀ p, r.parent = some p → ∀ q ∈ db.rps, q.id = p → r.root = q.root)

/-- C12: a consumer record exists iff the consumer holds at least one allocation -/
def ConsIff (db : DB R) : Prop :=
  ∀ u, (∃ c ∈ db.consumers, c.uuid = u) ↔ (∃ a ∈ db.allocs, a.consumer = u)

/-- every stored allocation has a positive amount -/
def AllocPos (db : DB R) : Prop := ∀ a ∈ db.allocs, 0 < a.used

/-- C01: capacity safety of one (provider, class) -/
def OverCommitted [CapOps R] (db : DB R) (rp rc : Nat) : Prop :=
  ∃ i ∈ db.invs, i.rp = rp ∧ i.rc = rc ∧ CapOps.capLt (i.total - i.reserved) i.ratio (db.usage rp rc) = true

/-- the synchronised empty database: standard classes at id = index, all library traits -/
def initDb (stdRcs : List Nat) (stdTraits : List Nat) : DB R :=
  { rcs := stdRcs.zipIdx.map (fun (n, i) => (i, n)), traits := stdTraits }

/-- states reachable by requests from a synchronised empty database -/
inductive Reach [CapOps R] (cfg : Config) (stdRcs stdTraits : List Nat) : DB R → Prop
  | init : Reach cfg stdRcs stdTraits (initDb stdRcs stdTraits)
  | step (db : DB R) (op : Op R) : Reach cfg stdRcs stdTraits db → Reach cfg stdRcs stdTraits (step cfg db op).1

end Placement
