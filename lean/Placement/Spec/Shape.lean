/-
  Shapes: what a handler reads from a validated document *without checking it again*.

  A `Shape` is a small description language for "typed decoder succeeds"; `sat sh j` is its
  (executable) meaning.  The theorems of `Props/C15.lean` have the form
  `validate S j = true → sat Shape_S j = true` for the schemas S generated from the tree.
-/
import Placement.Model.Schema

namespace Placement

open Regex (Re)

inductive Shape where
  /-- nothing is read -/
  | any
  | null
  | bool
  /-- a JSON number with integral value (`int`, or a float with zero fraction) within the bounds -/
  | int (lo hi : Option Int)
  /-- a JSON number; `finite = true` excludes NaN / ±Infinity; bounds in Python's comparison -/
  | num (lo hi : Option Num) (finite : Bool)
  /-- a string with a length in the given range -/
  | str (minLen : Nat) (maxLen : Option Nat)
  /-- a string on which `re.search(re, ·)` succeeds, of bounded length -/
  | strRe (re : Re) (maxLen : Option Nat)
  /-- a string accepted by `uuidutils.is_uuid_like` -/
  | uuid
  | orNull (s : Shape)
  /-- an array (at least `minItems` elements, pairwise different if `unique`) whose elements have shape `elem` -/
  | arr (minItems : Nat) (unique : Bool) (elem : Shape)
  /-- an object with at least `minProps` members; every member whose key matches `keyRe` has a value of
  shape `val`; if `closed`, every key matches `keyRe` -/
  | map (minProps : Nat) (keyRe : Re) (closed : Bool) (val : Shape)
  /-- an object; if `allowed = some ks`, it has no keys outside `ks` -/
  | objNil (allowed : Option (List String))
  /-- an object; member `k` (which must be present if `required`) has shape `s`; and `rest` holds of the same object -/
  | field (k : String) (required : Bool) (s : Shape) (rest : Shape)
deriving Repr, Inhabited

def Num.isFinite : Num → Bool
  | .fin _ _ => true
  | _ => false

def sat : Shape → Json → Bool
  | .any, _ => true
  | .null, j => (match j with | .null => true | _ => false)
  | .bool, j => (match j with | .bool _ => true | _ => false)
  | .int lo hi, j =>
    (match j.intVal? with
     | some n => lo.all (fun l => decide (l ≤ n)) && hi.all (fun h => decide (n ≤ h))
     | none => false)
  | .num lo hi fin, j =>
    (match j.num? with
     | some x => lo.all (fun l => !Num.lt x l) && hi.all (fun h => !Num.lt h x) && (!fin || x.isFinite)
     | none => false)
  | .str mn mx, j =>
    (match j with
     | .str s => decide (mn ≤ s.toList.length) && mx.all (fun m => decide (s.toList.length ≤ m))
     | _ => false)
  | .strRe re mx, j =>
    (match j with
     | .str s => Regex.test re s && mx.all (fun m => decide (s.toList.length ≤ m))
     | _ => false)
  | .uuid, j => (match j with | .str s => isUuidLike s.toList | _ => false)
  | .orNull sh, j => (match j with | .null => true | _ => sat sh j)
  | .arr n u elem, j =>
    (match j with
     | .arr xs => decide (n ≤ xs.length) && (!u || Json.uniq xs) && xs.all (sat elem)
     | _ => false)
  | .map n re closed val, j =>
    (match j with
     | .obj kvs => decide (n ≤ kvs.length) &&
         kvs.all (fun kv => if Regex.test re kv.1 then sat val kv.2 else !closed)
     | _ => false)
  | .objNil allowed, j =>
    (match j with
     | .obj kvs => (match allowed with
        | none => true
        | some ks => kvs.all (fun kv => ks.contains kv.1))
     | _ => false)
  | .field k req sh rest, j =>
    (match j with
     | .obj kvs => (match lookup k kvs with
        | some v => sat sh v
        | none => !req) && sat rest j
     | _ => false)

/-! Readable forms of the two constructors that carry the content of the C15 shape theorems. -/

theorem sat_field_iff {k : String} {req : Bool} {sh rest : Shape} {j : Json} :
    sat (.field k req sh rest) j = true ↔
      ∃ kvs, j = .obj kvs ∧ sat rest j = true ∧
        (∀ v, lookup k kvs = some v → sat sh v = true) ∧ (req = true → (lookup k kvs).isSome = true) := by
  cases j <;> simp [sat]
  rename_i kvs
  cases h : lookup k kvs with
  | none =>
    cases req <;> simp
  | some v =>
    simp
    exact ⟨fun h1 => ⟨h1.2, h1.1⟩, fun h1 => ⟨h1.2, h1.1⟩⟩

theorem sat_map_closed_iff {n : Nat} {re : Re} {val : Shape} {j : Json} :
    sat (.map n re true val) j = true ↔
      ∃ kvs, j = .obj kvs ∧ n ≤ kvs.length ∧
        ∀ k v, (k, v) ∈ kvs → Regex.test re k = true ∧ sat val v = true := by
  cases j <;> simp [sat]

theorem sat_arr_iff {n : Nat} {u : Bool} {elem : Shape} {j : Json} :
    sat (.arr n u elem) j = true ↔
      ∃ xs, j = .arr xs ∧ n ≤ xs.length ∧ (u = true → Json.uniq xs = true) ∧ ∀ x ∈ xs, sat elem x = true := by
  cases j <;> simp [sat]
  rename_i xs
  constructor
  · rintro ⟨⟨h1, h2⟩, h3⟩
    refine ⟨h1, ?_, h3⟩
    intro hu; cases h2 with
    | inl h => simp [hu] at h
    | inr h => exact h
  · rintro ⟨h1, h2, h3⟩
    refine ⟨⟨h1, ?_⟩, h3⟩
    cases u <;> simp_all

theorem sat_int_iff {lo hi : Option Int} {j : Json} :
    sat (.int lo hi) j = true ↔
      ∃ n, j.intVal? = some n ∧ (∀ l, lo = some l → l ≤ n) ∧ (∀ h, hi = some h → n ≤ h) := by
  simp only [sat]
  cases h : j.intVal? with
  | none => simp
  | some n =>
    simp only [Bool.and_eq_true, Option.some.injEq, exists_eq_left']
    cases lo <;> cases hi <;> simp [Option.all]

end Placement
