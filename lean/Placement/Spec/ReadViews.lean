import Placement.Model.Reads
/-
  What a response body of the read model REPORTS, as plain lists: the vocabulary in which the C11
  read theorems (`Props/C11Reads.lean`) are stated.
-/
namespace Placement.C11Reads
open Placement

variable {R : Type}

/-- the `usages` member as (class name, amount) pairs -/
def usagesOf (b : Body R) : List (Nat × Int) := ((b.fld? .usages).getD .null).namedInts

/-- the `allocations` member of either allocation listing as (key, class name, amount) triples;
the key is the consumer uuid in `GET /resource_providers/{u}/allocations` and the provider uuid in
`GET /allocations/{c}` -/
def allocTriples (b : Body R) : List (Nat × Nat × Int) :=
  ((b.fld? .allocations).getD .null).named.flatMap (fun e =>
    (((e.2.fld? .resources).getD .null).namedInts).map (fun p => (e.1, p.1, p.2)))

/-- amount consumer `c` holds of class `rc` on provider `rp`: the sum of its rows -/
def consumerAmount (db : DB R) (c rp rc : Nat) : Int :=
  ((db.allocs.filter (fun a => a.consumer == c && (a.rp == rp && a.rc == rc))).map (·.used)).sum

/-- the distinct consumers that hold allocations -/
def allocConsumers (db : DB R) : List Nat := (db.allocs.map (·.consumer)).eraseDups

/-- what `GET /allocations/{c}` reports for the class named `n`, summed over the providers listed -/
def consumerViewAmount (db : DB R) (c n : Nat) : Int :=
  (((allocTriples (getAllocations 39 db c).2).filter (fun t => t.2.1 == n)).map (·.2.2)).sum

/-- the consumers `GET /usages?project_id=P[&user_id=U]` speaks about, with a condition on their type -/
def consumersOfT (db : DB R) (project : Nat) (user : Option Nat) (tp : Option Nat → Bool) : List ConsRow :=
  db.consumers.filter (usageMatch project user tp)

/-- ... of any type -/
def consumersOf (db : DB R) (project : Nat) (user : Option Nat) : List ConsRow :=
  consumersOfT db project user (fun _ => true)

/-- the groups of the 1.38 format of `GET /usages`: (key, {class: sum, consumer_count: n}) -/
def usageGroupsOf (b : Body R) : List (Key × Body R) := ((b.fld? .usages).getD .null).fields

/-- the consumers `consumer_count` counts for a type condition: distinct consumer uuids of the joined rows -/
def countedConsumers (db : DB R) (project : Nat) (user : Option Nat) (tp : Option Nat → Bool) : List Nat :=
  ((totalRows db project user tp).map (·.1.consumer)).eraseDups

/-- the row of the provider queries for provider `p` whose root row is `root` -/
def viewOf (db : DB R) (p root : RpRow) : RpView :=
  ⟨p, root.uuid, p.parent.bind (fun i => (db.rpById i).map (·.uuid))⟩

end Placement.C11Reads
