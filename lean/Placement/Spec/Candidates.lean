import Placement.Spec.Filters
/-
  Specification of `GET /allocation_candidates` (property C03; DESIGN.md Appendix D), executable.

  * `IsCandidate db q c` – the property text: an anchor root, one provider per suffixed group, one
    provider per resource class of the unsuffixed group, the per-group conditions, the request-wide
    conditions, and `c` = the amounts added up per (provider, class) plus the mappings.
  * `candidates db q` – brute-force enumeration of exactly these combinations (this is the
    reference the real service is compared with; it follows the statement, not the search algorithm).
  `Props/C03.lean` proves `c ∈ candidates db q ↔ IsCandidate db q c` and that no candidate is listed twice.

  Resource classes are internal ids, traits are names, aggregates and `in_tree` are uuids, request
  group suffixes are interned numbers.
-/
namespace Placement.Spec

variable {R : Type}

/-- one request group (`resources<S>`, `required<S>`, `member_of<S>`, `in_tree<S>`) -/
structure Group where
  suffix : Nat
  resources : List (Nat × Int) := []        -- (class id, amount ≥ 1), classes distinct
  required : List (List Nat) := []          -- any-of sets
  forbidden : List Nat := []
  memberOf : List (List Nat) := []          -- any-of lists
  forbiddenAggs : List Nat := []
  inTree : Option Nat := none
deriving Repr, Inhabited

structure Query where
  /-- the name of the trait `MISC_SHARES_VIA_AGGREGATE` -/
  shareT : Nat
  /-- the group without suffix: its resources may be spread over the tree and sharing providers -/
  unsuff : Option Group := none
  /-- the suffixed groups: each satisfied by one provider -/
  groups : List Group := []
  /-- `group_policy=isolate` -/
  isolate : Bool := false
  /-- one list of suffixes per `same_subtree` parameter -/
  sameSubtree : List (List Nat) := []
  rootRequired : List Nat := []
  rootForbidden : List Nat := []
  /-- minor microversion -/
  mv : Nat := 39
deriving Repr, Inhabited

/-- an allocation request: amounts per (provider id, class id), sorted by key, and for every request
group (unsuffixed first, then in the order of the query) the sorted provider ids that satisfy it -/
structure Candidate where
  alloc : List ((Nat × Nat) × Int)
  maps : List (Nat × List Nat)
deriving DecidableEq, Repr, Inhabited

/-! ### providers and trees -/

def sharing (db : DB R) (st : Nat) (p : RpRow) : Prop := hasTrait db p.id st

/-- `sp` shares an aggregate with some provider of the tree rooted at `r` (possibly itself) -/
def linked (db : DB R) (sp : RpRow) (r : Nat) : Prop :=
  ∃ x ∈ db.rpAggs, x.1 = sp.id ∧ ∃ y ∈ db.rpAggs, y.2 = x.2 ∧ ∃ t ∈ db.rps, t.id = y.1 ∧ t.root = r

/-- `p` may appear in an allocation request anchored at root `r` -/
def anchored (db : DB R) (st : Nat) (p : RpRow) (r : Nat) : Prop :=
  p.root = r ∨ (sharing db st p ∧ linked db p r)

instance (db : DB R) (st : Nat) (p : RpRow) : Decidable (sharing db st p) := by unfold sharing; infer_instance
instance (db : DB R) (p : RpRow) (r : Nat) : Decidable (linked db p r) := by unfold linked; infer_instance
instance (db : DB R) (st : Nat) (p : RpRow) (r : Nat) : Decidable (anchored db st p r) := by
  unfold anchored; infer_instance

/-- `p` and its ancestors by parent links (`fuel` = number of providers suffices in a forest) -/
def ancestors (db : DB R) : Nat → Nat → List Nat
  | 0, p => [p]
  | fuel + 1, p =>
    p :: (match (db.rpById p).bind (·.parent) with
          | some pp => ancestors db fuel pp
          | none => [])

/-- `a` is `b` or an ancestor of `b` -/
def isAncOrSelf (db : DB R) (a b : Nat) : Prop := a ∈ ancestors db db.rps.length b

instance (db : DB R) (a b : Nat) : Decidable (isAncOrSelf db a b) := by unfold isAncOrSelf; infer_instance

/-! ### conditions of Appendix D -/

variable [CapOps R]

/-- item 1: the anchor is a root provider that has every `root_required` trait and no forbidden one -/
def AnchorOk (db : DB R) (q : Query) (r : RpRow) : Prop :=
  r.parent = none ∧ (∀ t ∈ q.rootRequired, hasTrait db r.id t) ∧ (∀ t ∈ q.rootForbidden, ¬ hasTrait db r.id t)

/-- item 2: provider `p` satisfies the suffixed group `g` in an allocation request anchored at `r` -/
def GroupSat (db : DB R) (q : Query) (r : RpRow) (g : Group) (p : RpRow) : Prop :=
  anchored db q.shareT p r.id ∧
  (∀ e ∈ g.resources, room db p.id e.1 e.2) ∧
  hasReq db p.id g.required ∧ ¬ hasForb db p.id g.forbidden ∧
  inAggs db p.id g.memberOf ∧ ¬ inBad db p.id g.forbiddenAggs ∧
  whenSome g.inTree (fun u => inTreeOf db u p)

/-- item 3, per class of the unsuffixed group `g`: provider `u` supplies `e` -/
def EntrySat (db : DB R) (q : Query) (r : RpRow) (g : Group) (e : Nat × Int) (u : RpRow) : Prop :=
  room db u.id e.1 e.2 ∧
  ((u.root = r.id ∧ (inAggs db u.id g.memberOf ∨ inAggs db r.id g.memberOf)) ∨
   (g.inTree = none ∧ sharing db q.shareT u ∧ linked db u r.id ∧ inAggs db u.id g.memberOf)) ∧
  ¬ inBad db u.id g.forbiddenAggs ∧ ¬ hasForb db u.id g.forbidden

/-- item 3, for the unsuffixed group as a whole: `in_tree` names a provider of the anchor's tree, the
anchor is in no forbidden aggregate, the required traits are met collectively by the providers used -/
def UnsuffSat (db : DB R) (r : RpRow) (g : Group) (us : List RpRow) : Prop :=
  whenSome g.inTree (fun t => ∃ row ∈ db.rps, row.uuid = t ∧ row.root = r.id) ∧
  ¬ inBad db r.id g.forbiddenAggs ∧
  ∀ s ∈ g.required, ∃ t ∈ s, ∃ u ∈ us, hasTrait db u.id t

instance (db : DB R) (q : Query) (r : RpRow) : Decidable (AnchorOk db q r) := by unfold AnchorOk; infer_instance
instance (db : DB R) (q : Query) (r : RpRow) (g : Group) (p : RpRow) : Decidable (GroupSat db q r g p) := by
  unfold GroupSat; infer_instance
instance (db : DB R) (q : Query) (r : RpRow) (g : Group) (e : Nat × Int) (u : RpRow) :
    Decidable (EntrySat db q r g e u) := by unfold EntrySat; infer_instance
instance (db : DB R) (r : RpRow) (g : Group) (us : List RpRow) : Decidable (UnsuffSat db r g us) := by
  unfold UnsuffSat; infer_instance

def emptyGroup : Group := { suffix := 0 }

def Query.g0 (q : Query) : Group := q.unsuff.getD emptyGroup
/-- the resources of the unsuffixed group (none when the query has no unsuffixed group) -/
def Query.unsuffRes (q : Query) : List (Nat × Int) :=
  match q.unsuff with
  | some g => g.resources
  | none => []

/-! ### the allocation request built from a choice of providers (item 4) -/

def keyLt (a b : Nat × Nat) : Bool := a.1 < b.1 || (a.1 == b.1 && a.2 < b.2)

/-- add `n` to the amount stored under `k` in a key-sorted association list -/
def addAmount (k : Nat × Nat) (n : Int) : List ((Nat × Nat) × Int) → List ((Nat × Nat) × Int)
  | [] => [(k, n)]
  | (k', m) :: rest =>
    if k = k' then (k', m + n) :: rest
    else if keyLt k k' then (k, n) :: (k', m) :: rest
    else (k', m) :: addAmount k n rest

/-- amounts for the same (provider, class) added up, sorted by key -/
def consolidate : List ((Nat × Nat) × Int) → List ((Nat × Nat) × Int)
  | [] => []
  | (k, n) :: rest => addAmount k n (consolidate rest)

def insertUniq (x : Nat) : List Nat → List Nat
  | [] => [x]
  | y :: ys => if x = y then y :: ys else if x < y then x :: y :: ys else y :: insertUniq x ys

def sortDedup : List Nat → List Nat
  | [] => []
  | x :: xs => insertUniq x (sortDedup xs)

/-- what each group places where: ((provider, class), amount), one entry per group and class -/
def placements (q : Query) (ps us : List RpRow) : List ((Nat × Nat) × Int) :=
  (q.groups.zip ps).flatMap (fun gp => gp.1.resources.map (fun e => ((gp.2.id, e.1), e.2))) ++
  (q.unsuffRes.zip us).map (fun eu => ((eu.2.id, eu.1.1), eu.1.2))

def mappings (q : Query) (ps us : List RpRow) : List (Nat × List Nat) :=
  (match q.unsuff with
   | some g => [(g.suffix, sortDedup (us.map (·.id)))]
   | none => []) ++
  (q.groups.zip ps).map (fun gp => (gp.1.suffix, [gp.2.id]))

def build (q : Query) (ps us : List RpRow) : Candidate :=
  { alloc := consolidate (placements q ps us), maps := mappings q ps us }

/-! ### request-wide conditions (items 5 - 8) -/

/-- the providers chosen for the suffixed groups named in one `same_subtree` parameter -/
def subtreeProviders (q : Query) (s : List Nat) (ps : List RpRow) : List Nat :=
  ((q.groups.zip ps).filter (fun gp => s.contains gp.1.suffix)).map (·.2.id)

/-- the providers that supply resources -/
def usedRows (q : Query) (ps us : List RpRow) : List RpRow :=
  ((q.groups.zip ps).filter (fun gp => !gp.1.resources.isEmpty)).map (·.2) ++ us

/-- item 7 for one entry of the allocation request -/
def limitOk (db : DB R) (x : (Nat × Nat) × Int) : Prop :=
  ∃ i ∈ db.invs, i.rp = x.1.1 ∧ i.rc = x.1.2 ∧
    CapOps.capLt (i.total - i.reserved) i.ratio (db.usage x.1.1 x.1.2 + x.2) = false ∧ x.2 ≤ i.maxUnit

def Joint (db : DB R) (q : Query) (ps us : List RpRow) : Prop :=
  -- 5: isolate
  (q.isolate = true → (ps.map (·.id)).Nodup) ∧
  -- 6: same_subtree
  (∀ s ∈ q.sameSubtree, ∃ a ∈ subtreeProviders q s ps, ∀ b ∈ subtreeProviders q s ps, isAncOrSelf db a b) ∧
  -- 7: capacity and max_unit on the summed amounts
  (∀ x ∈ consolidate (placements q ps us), limitOk db x) ∧
  -- 8: below 1.29 at most one provider per tree
  (q.mv < 29 → ∀ a ∈ usedRows q ps us, ∀ b ∈ usedRows q ps us, a.root = b.root → a.id = b.id)

instance (db : DB R) (x : (Nat × Nat) × Int) : Decidable (limitOk db x) := by unfold limitOk; infer_instance
instance (db : DB R) (q : Query) (ps us : List RpRow) : Decidable (Joint db q ps us) := by
  unfold Joint; infer_instance

/-- the two lists have the same length and corresponding elements are related -/
inductive Forall₂ {α β : Type} (P : α → β → Prop) : List α → List β → Prop
  | nil : Forall₂ P [] []
  | cons {a : α} {b : β} {as : List α} {bs : List β} : P a b → Forall₂ P as bs → Forall₂ P (a :: as) (b :: bs)

/-- C03: `c` is one of the combinations the request describes -/
def IsCandidate (db : DB R) (q : Query) (c : Candidate) : Prop :=
  ∃ r ∈ db.rps, AnchorOk db q r ∧
  ∃ ps us : List RpRow,
    Forall₂ (fun g p => p ∈ db.rps ∧ GroupSat db q r g p) q.groups ps ∧
    Forall₂ (fun e u => u ∈ db.rps ∧ EntrySat db q r q.g0 e u) q.unsuffRes us ∧
    (q.unsuff.isSome = true → UnsuffSat db r q.g0 us) ∧
    Joint db q ps us ∧
    c = build q ps us

/-! ### the enumerator -/

/-- all ways of picking one element from each list -/
def prods {α : Type} : List (List α) → List (List α)
  | [] => [[]]
  | l :: ls => l.flatMap (fun x => (prods ls).map (x :: ·))

def dedup {α : Type} [DecidableEq α] : List α → List α
  | [] => []
  | x :: xs => if x ∈ dedup xs then dedup xs else x :: dedup xs

/-- the combinations anchored at root `r` -/
def candidatesFor (db : DB R) (q : Query) (r : RpRow) : List Candidate :=
  let gsel := q.groups.map (fun g => db.rps.filter (fun p => decide (GroupSat db q r g p)))
  let usel := q.unsuffRes.map (fun e => db.rps.filter (fun u => decide (EntrySat db q r q.g0 e u)))
  (prods gsel).flatMap fun ps =>
    (prods usel).filterMap fun us =>
      if (q.unsuff.isSome = true → UnsuffSat db r q.g0 us) ∧ Joint db q ps us then some (build q ps us) else none

/-- the allocation requests of the unlimited response -/
def candidates (db : DB R) (q : Query) : List Candidate :=
  dedup ((db.rps.filter (fun r => decide (AnchorOk db q r))).flatMap (candidatesFor db q))

end Placement.Spec
