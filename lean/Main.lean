import Placement.Driver.Core
import Placement.Driver.Cands
import Placement.Driver.Reads
import Placement.Driver.Merge
/-
  Executable of the model driver.  Extension modules (`Placement/Driver/*.lean`) register their
  command handlers in `extensions`.
-/
open Placement.Driver

def extensions : List Ext := [Placement.Driver.Cands.handle?,
  Placement.Driver.Reads.handle?, Placement.Driver.Merge.handle?]

def main : IO Unit := do
  loop extensions (← IO.getStdin) (← IO.getStdout) {}
