import Placement.Model.Basic
def main : IO Unit := IO.println "placement-driver"
