import Placement.Driver.Core
/-
  Executable of the model driver.  Extension modules (`Placement/Driver/*.lean`) register their
  command handlers in `extensions`.
-/
open Placement.Driver

def extensions : List Ext := []

def main : IO Unit := do
  loop extensions (← IO.getStdin) (← IO.getStdout) {}
