-- Root of the `Placement` library: model, generated tables, property theorems.
import Placement.Model.Basic
import Placement.Model.Prog
import Placement.Model.Objects
import Placement.Model.Handlers
import Placement.Spec.Inv
