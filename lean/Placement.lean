-- Root of the `Placement` library: model, generated tables, property theorems.
import Placement.Model.Basic
