/-
  Line driver for the cross-validation of `Placement.validate` against the real `jsonschema`
  (harness/props/c15.py).  Run with `lake env lean --run SchemaDriver.lean` in lean/.

  stdin : one JSON object per line
            {"s": "<module.CONSTANT>", "d": <doc>}            validate doc against a generated schema
            {"re": "<common constant>", "t": [code points]}    re.search of a generated regex
            {"uuid": [code points]}                            is_uuid_like
          <doc> ::= null | true | false | {"i": "<decimal>"} | {"f": ["<num>", "<den>"]}
                  | {"x": "nan" | "inf" | "ninf"} | {"s": [code points]} | {"a": [<doc>…]}
                  | {"o": [[[code points], <doc>]…]}
  stdout: one line per input line: `1`, `0`, or `E <message>`.
  Unverified glue (trusted base): only the decoding below; the verdict is `Placement.validate`.
-/
import Lean.Data.Json
import Placement.Gen.Schemas

open Placement

def strOfPoints (j : Lean.Json) : Except String String := do
  let arr ← j.getArr?
  let mut cs : List Char := []
  for x in arr do
    let n ← x.getNat?
    if n ≥ 0xD800 ∧ n ≤ 0xDFFF ∨ n > 0x10FFFF then throw s!"code point {n} is not a scalar value"
    cs := Char.ofNat n :: cs
  return String.ofList cs.reverse

partial def decode (j : Lean.Json) : Except String Placement.Json := do
  match j with
  | .null => return .null
  | .bool b => return .bool b
  | _ =>
    if let .ok v := j.getObjVal? "i" then
      let s ← v.getStr?
      match s.toInt? with
      | some n => return .int n
      | none => throw s!"bad int {s}"
    else if let .ok v := j.getObjVal? "f" then
      let arr ← v.getArr?
      if arr.size != 2 then throw "bad float"
      let a ← arr[0]!.getStr?
      let b ← arr[1]!.getStr?
      match a.toInt?, b.toNat? with
      | some n, some d => return .flt n d
      | _, _ => throw "bad float"
    else if let .ok v := j.getObjVal? "x" then
      let s ← v.getStr?
      if s == "nan" then return .nan
      else if s == "inf" then return .inf
      else if s == "ninf" then return .ninf
      else throw s!"bad special {s}"
    else if let .ok v := j.getObjVal? "s" then
      return .str (← strOfPoints v)
    else if let .ok v := j.getObjVal? "a" then
      let arr ← v.getArr?
      let xs ← arr.toList.mapM decode
      return .arr xs
    else if let .ok v := j.getObjVal? "o" then
      let arr ← v.getArr?
      let kvs ← arr.toList.mapM (fun kv => do
        let p ← kv.getArr?
        if p.size != 2 then throw "bad member"
        let k ← strOfPoints p[0]!
        let x ← decode p[1]!
        return (k, x))
      return .obj kvs
    else throw "bad document"

def commonRegexes : List (String × Regex.Re) := [
  ("CONSUMER_TYPE_GET_PATTERN", Gen.Schemas.common.CONSUMER_TYPE_GET_PATTERN),
  ("CONSUMER_TYPE_PATTERN", Gen.Schemas.common.CONSUMER_TYPE_PATTERN),
  ("CUSTOM_RC_PATTERN", Gen.Schemas.common.CUSTOM_RC_PATTERN),
  ("CUSTOM_TRAIT_PATTERN", Gen.Schemas.common.CUSTOM_TRAIT_PATTERN),
  ("GROUP_PAT", Gen.Schemas.common.GROUP_PAT),
  ("GROUP_PAT_1_33", Gen.Schemas.common.GROUP_PAT_1_33),
  ("RC_PATTERN", Gen.Schemas.common.RC_PATTERN),
  ("UUID_PATTERN", Gen.Schemas.common.UUID_PATTERN)]

def answer (line : String) : Except String Bool := do
  let j ← Lean.Json.parse line
  if let .ok v := j.getObjVal? "uuid" then
    return isUuidLike (← strOfPoints v).toList
  if let .ok r := j.getObjVal? "re" then
    let name ← r.getStr?
    let t ← strOfPoints (← j.getObjVal? "t")
    match commonRegexes.lookup name with
    | some re => return Regex.test re t
    | none => throw s!"unknown regex {name}"
  let name ← (← j.getObjVal? "s").getStr?
  let doc ← decode (← j.getObjVal? "d")
  match Gen.Schemas.all.lookup name with
  | some s => return validate s doc
  | none => throw s!"unknown schema {name}"

partial def loop (inp out : IO.FS.Stream) : IO Unit := do
  let line ← inp.getLine
  if line.isEmpty then return
  if line != "\n" then
    match answer line with
    | .ok true => out.putStrLn "1"
    | .ok false => out.putStrLn "0"
    | .error e => out.putStrLn s!"E {e}"
  loop inp out

def main : IO Unit := do
  let inp ← IO.getStdin
  let out ← IO.getStdout
  loop inp out
  out.flush
