/-
  Prints, as one JSON object, what the Lean model of C14 predicts: `respond` (negotiation + availability)
  for a grid of version headers × path templates × methods, the feature table with the generated sites
  attributed to each feature, and the schema every selection chain picks per microversion.
  Run by harness/props/c14.py with `lake env lean --run C14Dump.lean`; the probe of the real application is
  compared with this output (the function is not re-implemented in Python).
-/
import Placement.Model.Versions
open Placement.Gen Placement.Versions

def esc (s : String) : String :=
  s.foldl (fun acc c => if c == '"' then acc ++ "\\\"" else if c == '\\' then acc ++ "\\\\" else acc.push c) ""

def q (s : String) : String := "\"" ++ esc s ++ "\""

def arr (xs : List String) : String := "[" ++ ", ".intercalate xs ++ "]"

def probeMethods : List String := ["GET", "PUT", "POST", "DELETE", "PATCH", "HEAD", "OPTIONS"]

def undeclaredPaths : List String := ["/nonexistent", "/resource_providers/{uuid}/bogus", "/allocations/{consumer_uuid}/x"]

def headerCases : List (String × VersionHeader) :=
  [("absent", .absent), ("otherService", .otherService), ("latest", .latest), ("malformed", .malformed)] ++
  ((List.range 43).map (fun n => ("ver:1:" ++ toString n, VersionHeader.ver 1 n))) ++
  [("ver:0:0", .ver 0 0), ("ver:0:9", .ver 0 9), ("ver:2:0", .ver 2 0), ("ver:2:39", .ver 2 39),
   ("ver:1:100", .ver 1 100), ("ver:10:1", .ver 10 1)]

def outcomeJson : Outcome → String
  | .served v => "{\"served\": " ++ toString v ++ "}"
  | .status c => "{\"status\": " ++ toString c ++ "}"

def negJson : Negotiated → String
  | .accept n => "{\"accept\": " ++ toString n ++ "}"
  | .reject406 => "{\"reject\": 406}"
  | .reject400 => "{\"reject\": 400}"

def dedup (xs : List String) : List String :=
  xs.foldl (fun acc x => if acc.contains x then acc else acc ++ [x]) []

def main : IO Unit := do
  let declared := dedup (routes.map (·.path))
  let paths := declared ++ undeclaredPaths
  IO.println "{"
  IO.println ("\"minors\": " ++ arr (versionMinors.map toString) ++ ",")
  IO.println ("\"min\": " ++ toString minMinor ++ ", \"max\": " ++ toString maxMinor ++ ",")
  IO.println ("\"methods\": " ++ arr (probeMethods.map q) ++ ",")
  IO.println ("\"declared_paths\": " ++ arr (declared.map q) ++ ",")
  IO.println ("\"undeclared_paths\": " ++ arr (undeclaredPaths.map q) ++ ",")
  IO.println ("\"routes\": " ++ arr (routes.map (fun r =>
      "{\"path\": " ++ q r.path ++ ", \"method\": " ++ q r.method ++ ", \"handler\": " ++ q r.handler ++
      ", \"introduced\": " ++ toString (if r.versioned then introducedAt r.hid else 0) ++
      ", \"miss\": " ++ toString r.missStatus ++ "}")) ++ ",")
  IO.println ("\"negotiation\": {" ++ ", ".intercalate (headerCases.map (fun hc =>
      q hc.1 ++ ": {\"neg\": " ++ negJson (negotiate hc.2) ++ ", \"header\": " ++
        (match responseVersionHeader (negotiate hc.2) with | some s => q s | none => "null") ++ "}")) ++ "},")
  IO.println "\"respond\": {"
  let mut firstH := true
  for hc in headerCases do
    let rows := paths.map (fun p => q p ++ ": {" ++ ", ".intercalate (probeMethods.map (fun m =>
        q m ++ ": " ++ outcomeJson (respond hc.2 p m))) ++ "}")
    IO.println ((if firstH then "" else ",") ++ q hc.1 ++ ": {" ++ ", ".intercalate rows ++ "}")
    firstH := false
  IO.println "},"
  IO.println ("\"features\": " ++ arr (features.map (fun f =>
      "{\"minor\": " ++ toString f.minor ++ ", \"tag\": " ++ q f.tag ++ ", \"what\": " ++ q f.what ++
      ", \"gates\": " ++ arr (f.gateSites.map (fun g => q (g.func ++ "#" ++ toString g.ord ++ "@" ++ toString g.minor))) ++
      ", \"windows\": " ++ arr (f.windowSites.map (fun w => q (w.handler ++ "@" ++ toString w.lo))) ++
      ", \"implemented\": " ++ arr (versionMinors.map (fun v => toString (f.implementedAt v))) ++
      ", \"documented\": " ++ arr (versionMinors.map (fun v => toString (f.documentedAt v))) ++ "}")) ++ ",")
  IO.println ("\"schema_chains\": " ++ arr (schemaChains.map (fun c =>
      "{\"func\": " ++ q c.func ++ ", \"target\": " ++ q c.target ++ ", \"select\": " ++
        arr (versionMinors.map (fun v => q (chainSelect c v))) ++ "}")))
  IO.println "}"
