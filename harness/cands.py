"""Shared machinery of the checks of C13, C03, C02 and C20 (provider filters, allocation candidates):

* generator of states (dump format) in the scope of the properties and `build_state`, which installs such a
  state in the real service THROUGH THE API (also used by replays);
* generator of abstract queries aimed at a state, and their rendering to query strings in every
  syntactic form the microversion admits;
* canonical form of the real responses and of the answers of the Lean specification
  (`lean/Placement/Spec/{Filters,Candidates}.lean`, evaluated by the compiled driver).
"""
import itertools
import json
import math
import random
import urllib.parse

import os_resource_classes as orc
import os_traits

from harness import gen
from harness.ops import MAX_INT

RPS = gen.RPS[:7]
AGGS = list(gen.AGGS)
UNKNOWN_AGGS = ['a9999991-0000-0000-0000-000000000000', 'a9999992-0000-0000-0000-000000000000']
UNKNOWN_RP = '99999999-0000-0000-0000-000000000000'
CONSUMERS = gen.CONSUMERS
CLASSES = ['VCPU', 'MEMORY_MB', 'DISK_GB', 'CUSTOM_RC1']
SHARE = 'MISC_SHARES_VIA_AGGREGATE'
TRAITS = [SHARE, 'HW_CPU_X86_AVX', 'STORAGE_DISK_SSD', 'CUSTOM_T1']
UNKNOWN_TRAIT = 'CUSTOM_NOPE'
UNKNOWN_CLASS = 'CUSTOM_NOPE'

FEATURES = ['sharing', 'nesting', 'granular', 'required', 'any-of', 'forbidden', 'member_of', 'forbidden-aggs',
            'in_tree', 'root_required', 'same_subtree', 'isolate', 'resourceless', 'lt-1.29']

_APP = None
_MODEL = None


def init_worker(overrides=None, use_model=True):
    """one App (+ one Lean driver) per worker process"""
    global _APP, _MODEL
    from harness.app import App
    from harness.model import Model
    _APP = App(overrides=overrides)
    _MODEL = Model() if use_model else None


def app():
    return _APP


def model():
    return _MODEL


# ------------------------------------------------------------------------------------------------
# states
# ------------------------------------------------------------------------------------------------
def _easy_inv(rng, rc):
    total = rng.choice([2, 4, 8, 8, 16, 100])
    return [rc, total, rng.choice([0, 0, 0, 1]), 1, rng.choice([MAX_INT, MAX_INT, total, 4]),
            rng.choice([1, 1, 1, 2]), rng.choice([1.0, 1.0, 1.5, 0.5, 16.0])]


def _grid_inv(rng, rc):
    i = gen.rand_inv(rng, rc)
    return [rc, i['total'], i['reserved'], i['min_unit'], i['max_unit'], i['step_size'], i['ratio']]


def _cap(inv):
    return (inv[1] - inv[2]) * inv[6]


def gen_state(rng):
    """-> state in the format of App.dump() (the subset build_state reads)."""
    kind = rng.choices(['plain', 'nested', 'sharing', 'both'], weights=[1, 3, 2, 7])[0]
    nclasses = rng.choice([3, 4])
    classes = CLASSES[:nclasses]
    n_roots = rng.choice([1, 2, 2, 3, 3])
    if kind in ('plain', 'sharing'):
        n = n_roots
    else:
        n = rng.choice([2, 3, 4, 5, 5, 6, 7, 7])
        n_roots = min(n_roots, n - 1) if n > 1 else 1
    if kind in ('sharing', 'both') and n_roots == 1 and rng.random() < 0.8:
        n_roots = 2
        n = max(n, 2)
    uu = RPS[:n]
    rps = {}
    depth = {}
    for i, u in enumerate(uu):
        if i < n_roots:
            rps[u] = {'name': 'p%d' % (i + 1), 'parent': None, 'root': u}
            depth[u] = 1
        else:
            cands = [x for x in uu[:i] if depth[x] < 3]
            # prefer attaching to what exists such that depth 3 is reached regularly
            par = rng.choice(cands)
            rps[u] = {'name': 'p%d' % (i + 1), 'parent': par, 'root': rps[par]['root']}
            depth[u] = depth[par] + 1
    # names are compared exactly: some carry blanks at an end (legal), and the listing checks ask for both spellings
    for u in uu:
        r_ = rng.random()
        if r_ < 0.12:
            rps[u]['name'] = ' ' + rps[u]['name']
        elif r_ < 0.24:
            rps[u]['name'] = rps[u]['name'] + ' '
    roots = uu[:n_roots]
    traits = {u: set() for u in uu}
    aggs = {u: set() for u in uu}
    sharers = []
    if kind in ('sharing', 'both'):
        k = rng.choice([1, 1, 2])
        for _ in range(k):
            childless_roots = [r for r in roots if not any(p['parent'] == r for p in rps.values())]
            r = rng.random()
            if childless_roots and r < 0.7:
                s = rng.choice(childless_roots)
            elif r < 0.9:
                s = rng.choice(uu)          # possibly a provider inside a tree
            else:
                s = rng.choice(roots)
            if s in sharers:
                continue
            sharers.append(s)
            traits[s].add(SHARE)
            r = rng.random()
            if r < 0.1:
                continue                    # a sharing provider without aggregate
            a = rng.choice(AGGS)
            aggs[s].add(a)
            others = [x for x in uu if rps[x]['root'] != rps[s]['root']]
            if others and r < 0.9:
                for t in rng.sample(others, rng.choice([1, 1, 2]) if len(others) > 1 else 1):
                    aggs[t].add(a)
    for u in uu:
        for t in TRAITS[1:]:
            if rng.random() < 0.3:
                traits[u].add(t)
        if rng.random() < 0.04:
            traits[u].add(SHARE)
        for a in AGGS:
            if rng.random() < 0.22:
                aggs[u].add(a)
    invs = []
    for u in uu:
        if u in sharers:
            cl = ['DISK_GB'] if rng.random() < 0.6 else rng.sample(classes, rng.choice([1, 2]))
        elif rps[u]['parent'] is None:
            cl = rng.sample(classes, rng.choice([0, 1, 2, 2, 3, nclasses]))
        else:
            cl = rng.sample(classes, rng.choice([0, 1, 1, 2, 2, 3]))
        for rc in cl:
            i = _easy_inv(rng, rc) if rng.random() < 0.55 else _grid_inv(rng, rc)
            invs.append([u] + i)
    allocs = []
    keys = list(invs)
    for c in CONSUMERS[:rng.choice([0, 1, 2, 3])]:
        if not keys:
            break
        for inv in rng.sample(keys, min(len(keys), rng.choice([1, 1, 2]))):
            cap = int(math.floor(_cap(inv[1:])))
            used = sum(a[3] for a in allocs if a[0] == inv[0] and a[2] == inv[1])
            rem = cap - used
            mi, ma, st = inv[4], inv[5], inv[6]
            r = rng.random()
            if r < 0.08:
                n_ = max(1, rem + rng.choice([1, 2]))           # over-committed (inventory shrunk under usage)
            else:
                hi = min(ma, rem)
                opts = [x for x in range(st * ((mi + st - 1) // st), min(hi, 64) + 1, st) if x >= 1]
                if hi > 64 and hi % st == 0:
                    opts.append(hi)
                if not opts:
                    continue
                n_ = rng.choice(opts + [opts[-1], opts[0]])
            if any(a[0] == inv[0] and a[1] == c and a[2] == inv[1] for a in allocs):
                continue
            allocs.append([inv[0], c, inv[1], n_])
    return {
        'rps': rps,
        'invs': sorted(invs),
        'allocs': sorted(allocs),
        'rp_traits': sorted([u, t] for u in uu for t in traits[u]),
        'rp_aggs': sorted([u, a] for u in uu for a in aggs[u]),
        'custom_rcs': [['CUSTOM_RC1', 10000]] if nclasses == 4 else [],
        'custom_traits': ['CUSTOM_T1'],
        'kind': kind,
    }


class BuildError(RuntimeError):
    pass


def _ok(r, what):
    if r.status >= 300:
        raise BuildError('%s -> %s %s' % (what, r.status, str(r.json)[:200]))


def build_state(a, st):
    """Install a state (dump format) in a freshly reset application through the API.  Inventories are first
    written loosely, then the allocations, then the final inventories - so any usage, including usage above a
    (later shrunk) capacity or off the final unit grid, is reachable."""
    a.reset()
    for t in st.get('custom_traits', []):
        _ok(a.call('PUT', '/traits/%s' % t), 'trait')
    for n, _ in st.get('custom_rcs', []):
        _ok(a.call('PUT', '/resource_classes/%s' % n), 'class')
    rps = st['rps']
    done = {}
    pending = list(rps)
    # some inner nodes get their place in the tree by a MOVE (created as a root, their descendants below them, then
    # re-parented at 1.37): the final parent links are the same, and every descendant must have followed its root
    import zlib
    has_children = {r['parent'] for r in rps.values() if r.get('parent')}
    salt = len(rps) + len(st.get('invs', [])) + len(st.get('allocs', []))       # varies from state to state
    moved = [u for u in rps if rps[u].get('parent') and u in has_children and (zlib.crc32(u.encode()) + salt) % 3 == 0]
    # ... and some ROOTS with grandchildren are first created below another root and un-parented at the end (a moved subtree
    # of depth two: the grandchildren must follow as well)
    def depth_below(u):
        kids = [k for k, r in rps.items() if r.get('parent') == u]
        return 0 if not kids else 1 + max(depth_below(k) for k in kids)
    roots = sorted(u for u in rps if not rps[u].get('parent'))
    lodged = {}
    for u in roots:
        others = [x for x in roots if x != u and x not in lodged]
        if others and depth_below(u) >= 2 and (zlib.crc32(u.encode()) + salt) % 2 == 0:
            lodged[u] = others[0]
    while pending:
        progressed = False
        for u in list(pending):
            p = rps[u].get('parent')
            if (p is None and (u not in lodged or lodged[u] in done)) or p in done or u in moved:
                b = {'name': rps[u]['name'], 'uuid': u}
                if p is not None and u not in moved:
                    b['parent_provider_uuid'] = p
                if u in lodged:
                    b['parent_provider_uuid'] = lodged[u]
                _ok(a.call('POST', '/resource_providers', b), 'provider')
                done[u] = 0
                pending.remove(u)
                progressed = True
        if not progressed:
            raise BuildError('parent cycle')
    # deepest first, so that a moved subtree that contains another moved node carries it along
    def depth(u):
        n = 0
        while rps[u].get('parent'):
            u = rps[u]['parent']
            n += 1
        return n
    for u in sorted(lodged):
        _ok(a.call('PUT', '/resource_providers/%s' % u, {'name': rps[u]['name'], 'parent_provider_uuid': None}, version='1.37'),
            'un-parent')
    for u in sorted(moved, key=depth, reverse=True):
        _ok(a.call('PUT', '/resource_providers/%s' % u, {'name': rps[u]['name'], 'parent_provider_uuid': rps[u]['parent']},
                   version='1.37'), 'move')
    by_rp = {}
    for (rp, rc, total, reserved, mi, ma, stp, ratio) in st['invs']:
        by_rp.setdefault(rp, {})[rc] = {'total': total, 'reserved': reserved, 'min_unit': mi, 'max_unit': ma,
                                        'step_size': stp, 'allocation_ratio': ratio}
    used = {}
    by_cons = {}
    for (rp, c, rc, n) in st['allocs']:
        used[(rp, rc)] = used.get((rp, rc), 0) + n
        by_cons.setdefault(c, {}).setdefault(rp, {})[rc] = n

    def put_inv(u, invs):
        _ok(a.call('PUT', '/resource_providers/%s/inventories' % u,
                   {'resource_provider_generation': done[u], 'inventories': invs}), 'inventories')
        done[u] += 1
    loose = set(rp for (rp, _rc) in used)
    for u in loose:
        put_inv(u, {rc: {'total': max(i['total'], used.get((u, rc), 0)), 'reserved': 0, 'min_unit': 1,
                         'max_unit': MAX_INT, 'step_size': 1, 'allocation_ratio': 1.0}
                    for rc, i in by_rp.get(u, {}).items()})
    cons = st.get('consumers') or {}
    for c, al in sorted(by_cons.items()):
        info = cons.get(c) or {}
        body = {'allocations': {rp: {'resources': res} for rp, res in al.items()},
                'project_id': info.get('project') or 'proj1', 'user_id': info.get('user') or 'user1',
                'consumer_generation': None, 'consumer_type': info.get('ctype') or 'INSTANCE'}
        _ok(a.call('PUT', '/allocations/%s' % c, body), 'allocations')
        for rp in al:
            done[rp] += 1
    for u, invs in by_rp.items():
        put_inv(u, invs)
    tr = {}
    for (rp, t) in st['rp_traits']:
        tr.setdefault(rp, []).append(t)
    for u, ts in tr.items():
        _ok(a.call('PUT', '/resource_providers/%s/traits' % u,
                   {'resource_provider_generation': done[u], 'traits': ts}), 'traits')
        done[u] += 1
    ag = {}
    for (rp, x) in st['rp_aggs']:
        ag.setdefault(rp, []).append(x)
    for u, xs in ag.items():
        _ok(a.call('PUT', '/resource_providers/%s/aggregates' % u,
                   {'resource_provider_generation': done[u], 'aggregates': xs}), 'aggregates')
        done[u] += 1


def same_state(spec, dump):
    """did build_state produce what the spec says (tables the properties read)?"""
    def rp(d):
        return {u: (p['name'], p.get('parent')) for u, p in d['rps'].items()}
    return (rp(spec) == rp(dump) and sorted(map(list, spec['invs'])) == sorted(map(list, dump['invs']))
            and sorted(map(list, spec['allocs'])) == sorted(map(list, dump['allocs']))
            and sorted(map(list, spec['rp_traits'])) == sorted(map(list, dump['rp_traits']))
            and sorted(map(list, spec['rp_aggs'])) == sorted(map(list, dump['rp_aggs'])))


def derive_roots(dump):
    """the root of every provider as its PARENT LINKS give it; -> list of (uuid, stored root, derived root) where the stored
    root column differs.  The dump is corrected in place: reference results (tree membership, in_tree, anchors) are defined
    by the tree, not by the denormalised column the service keeps - a stale column then shows as a wrong response."""
    rps = dump['rps']
    bad = []
    for u, r in rps.items():
        x, seen = u, set()
        while rps.get(x, {}).get('parent') and x not in seen:
            seen.add(x)
            x = rps[x]['parent']
        if r.get('root') != x:
            bad.append((u, r.get('root'), x))
    for u, _old, x in bad:
        rps[u]['root'] = x
    return bad


def load_model(m, a, dump):
    m.reset(list(orc.STANDARDS), sorted(os_traits.get_traits()),
            a.conf.placement.incomplete_consumer_project_id, a.conf.placement.incomplete_consumer_user_id)
    r = m.send({'cmd': 'load', 'dump': dump})
    assert r.get('ok'), r


class View(gen.View):
    def __init__(self, dump):
        gen.View.__init__(self, dump)
        self.traits = {}
        for rp, t in dump['rp_traits']:
            self.traits.setdefault(rp, set()).add(t)
        self.aggs = {}
        for rp, x in dump['rp_aggs']:
            self.aggs.setdefault(rp, set()).add(x)
        self.classes = sorted(set(k[1] for k in self.invs))
        self.has_sharing = any(SHARE in ts for ts in self.traits.values())
        self.has_nesting = any(p['parent'] is not None for p in self.rps.values())
        self.roots = sorted(set(p['root'] for p in self.rps.values()))

    def scope(self, root):
        """providers an allocation request anchored at `root` may use: the tree and the sharing providers linked to it"""
        tree = [u for u, p in self.rps.items() if p['root'] == root]
        tree_aggs = set(x for u in tree for x in self.aggs.get(u, ()))
        sh = [u for u in self.rps if SHARE in self.traits.get(u, ()) and (self.aggs.get(u, set()) & tree_aggs)
              and u not in tree]
        return tree + sh

    def amount(self, rng, rc, hint=None, scope=None, fitp=0.82):
        """an amount for class rc aimed at one inventory of the state (of a provider in `scope`): mostly an amount
        that fits - the smallest, the largest, one in between - and otherwise one just beyond a limit (capacity + 1,
        max_unit + 1, off the step grid, below min_unit).  `hint` = amount another group requests of the same
        class: then the SUM is put at the boundary."""
        keys = [k for k in self.invs if k[1] == rc and (scope is None or k[0] in scope)]
        if not keys:
            keys = [k for k in self.invs if k[1] == rc]
        if not keys:
            return rng.choice([1, 2])
        # prefer an inventory that has room at all
        good = [k for k in keys if self.remaining(k) - (hint or 0) >= max(self.invs[k]['min_unit'], self.invs[k]['step_size'])]
        k = rng.choice(good) if good and rng.random() < 0.8 else rng.choice(keys)
        i = self.invs[k]
        rem = self.remaining(k) - (hint or 0)
        st, mi = i['step_size'], i['min_unit']
        hi = min(i['max_unit'] - (hint or 0), rem)
        lo = st * ((mi + st - 1) // st)
        fits = lo <= hi and hi >= 1
        top = (hi // st) * st if fits else None
        if fits and top >= lo and rng.random() < fitp:
            r = rng.random()
            if r < 0.35:
                n = lo
            elif r < 0.75:
                n = top
            else:
                n = lo + st * rng.randrange(0, min((top - lo) // st, 50) + 1)
        else:
            c = [(top or 0) + st, rem + 1, (i['max_unit'] + 1 - (hint or 0)) if i['max_unit'] < 1000 else rem + 1,
                 (lo + 1) if st > 1 else rem + 1, max(mi - 1, 1), 1]
            n = rng.choice(c)
        return max(1, min(n, 10 ** 6))


# ------------------------------------------------------------------------------------------------
# abstract queries of GET /allocation_candidates
# ------------------------------------------------------------------------------------------------
def _gen_filters(rng, v, g, allow, p, scope=None):
    """sprinkle filters over group g (dict) according to what the microversion class `allow` admits;
    traits / aggregates are mostly taken from what the providers in `scope` have, so that filters select"""
    here_t = sorted(set(t for u in (scope or []) for t in v.traits.get(u, ())))
    here_a = sorted(set(x for u in (scope or []) for x in v.aggs.get(u, ())))

    def trait():
        if here_t and rng.random() < 0.7:
            return rng.choice(here_t)
        return rng.choice(TRAITS[1:] + TRAITS)

    def agg():
        if here_a and rng.random() < 0.7:
            return rng.choice(here_a)
        return rng.choice(AGGS)
    if rng.random() < p['required']:
        k = rng.choice([1, 1, 1, 2])
        req = []
        for _ in range(k):
            if allow['anyof'] and rng.random() < 0.4:
                t1 = trait()
                req.append(sorted([t1, rng.choice([t for t in TRAITS if t != t1])]))
            else:
                req.append([trait()])
        g['required'] = req
    if allow['forbidden'] and rng.random() < p['forbidden']:
        pool = [t for t in TRAITS if not any(t in s for s in g['required'])] or []
        if pool:
            g['forbidden'] = sorted(rng.sample(pool, 1 if rng.random() < 0.8 or len(pool) < 2 else 2))
    if rng.random() < p['member_of']:
        k = rng.choice([1, 1, 2]) if allow['multi_member_of'] else 1
        mo = []
        for _ in range(k):
            r = rng.random()
            if r < 0.55:
                mo.append([agg()])
            elif r < 0.9:
                a1 = agg()
                mo.append(sorted([a1, rng.choice([x for x in AGGS + UNKNOWN_AGGS[:1] if x != a1])]))
            else:
                mo.append([rng.choice(UNKNOWN_AGGS)])
        g['member_of'] = mo
    if allow['forbidden_aggs'] and rng.random() < p['forbidden_aggs']:
        g['forbidden_aggs'] = sorted(rng.sample(AGGS + UNKNOWN_AGGS[:1], rng.choice([1, 1, 2])))
    if allow['in_tree'] and rng.random() < p['in_tree']:
        r = rng.random()
        if scope and r < 0.7:
            g['in_tree'] = rng.choice(scope)
        else:
            g['in_tree'] = rng.choice(list(v.rps)) if r < 0.95 else UNKNOWN_RP


def new_group(suffix):
    return {'suffix': suffix, 'resources': [], 'required': [], 'forbidden': [], 'member_of': [],
            'forbidden_aggs': [], 'in_tree': None}


PROB = {'required': 0.3, 'forbidden': 0.22, 'member_of': 0.28, 'forbidden_aggs': 0.15, 'in_tree': 0.2}


def gen_query(rng, v, old=False, mv=None):
    """an abstract query aimed at the state seen through View v.
    old=True: a query admissible below microversion 1.29 (no in_tree / forbidden aggregates / string suffixes /
    root_required / same_subtree / any-of), rendered at 1.25 .. 1.28 (granular) or 1.17 .. 1.24."""
    if mv is not None:
        pass
    elif old:
        mv = rng.choice([28, 28, 27, 26, 25, 25, 24, 22, 21, 17])
    else:
        mv = rng.choice([39] * 7 + [38, 36, 36, 35, 34])
    allow = {'anyof': mv >= 39, 'forbidden': mv >= 22, 'multi_member_of': mv >= 24, 'forbidden_aggs': mv >= 32,
             'in_tree': mv >= 31, 'string_suffix': mv >= 33, 'root_required': mv >= 35, 'same_subtree': mv >= 36,
             'granular': mv >= 25, 'member_of': mv >= 21}
    p = dict(PROB)
    if not allow['member_of']:
        p['member_of'] = 0
    if mv < 17:
        p['required'] = 0
    # most queries are aimed at one anchor: classes, amounts, traits, aggregates of the providers it may use
    scope = None
    if v.roots and rng.random() < 0.8:
        scope = v.scope(rng.choice(v.roots))
    in_scope = sorted(set(k[1] for k in v.invs if scope is None or k[0] in scope))
    classes = in_scope or v.classes or ['VCPU']
    known = CLASSES[:3] + [n for n, _ in v.d.get('custom_rcs', [])]
    pool = classes + ([rng.choice(known)] if rng.random() < 0.08 else [])
    n_suff = rng.choice([0, 1, 1, 2, 2, 3]) if allow['granular'] else 0
    has_unsuff = n_suff == 0 or rng.random() < 0.7
    numeric = (not allow['string_suffix']) or rng.random() < 0.4
    names = ['1', '2', '3'] if numeric else ['_A', '_NET', 'c-3']
    q = {'unsuff': None, 'groups': [], 'policy': None, 'same_subtree': [], 'root_required': [], 'root_forbidden': [],
         'mv': mv, 'rs': rng.randrange(1 << 30)}
    requested = {}          # class -> amounts already requested by other groups
    # how selective this query is: filters are sprinkled with these probabilities times `dens`
    dens = rng.choice([0.0, 0.4, 0.8, 1.0, 1.5])
    # and how tight: in most queries nearly every amount fits some inventory, in the others one in four is just beyond a limit
    fitp = 0.97 if rng.random() < 0.6 else 0.75
    p = {k: min(0.9, x * dens) for k, x in p.items()}

    def resources(k):
        res = []
        for rc in rng.sample(pool, min(k, len(pool))):
            if any(rc == x[0] for x in res):
                continue
            hint = rng.choice(requested[rc]) if rc in requested and rng.random() < 0.6 else None
            n = v.amount(rng, rc, hint, scope, fitp)
            res.append([rc, n])
        for rc, n in res:
            requested.setdefault(rc, []).append(n)
        return res
    if has_unsuff:
        g = new_group('')
        g['resources'] = resources(rng.choice([1, 2, 2, 3]))
        _gen_filters(rng, v, g, allow, p, scope)
        q['unsuff'] = g
    with_inv = sorted(set(k[0] for k in v.invs if scope is None or k[0] in scope))
    for i in range(n_suff):
        g = new_group(names[i])
        # a suffixed group is aimed at ONE provider: its classes, its inventory limits, its traits and aggregates
        tp = rng.choice(with_inv) if with_inv and rng.random() < 0.85 else None
        tscope = [tp] if tp else scope
        tclasses = sorted(k[1] for k in v.invs if k[0] == tp) if tp else pool
        shared = [rc for rc in tclasses if rc in requested]
        res = []
        if shared and rng.random() < 0.55:
            # overlap with a class another group asks for; the SUM is what meets the boundary
            rc = rng.choice(shared)
            hint = rng.choice(requested[rc]) if rng.random() < 0.7 else None
            res.append([rc, v.amount(rng, rc, hint, tscope, fitp)])
        k = rng.choice([1, 1, 2]) - len(res)
        for rc in rng.sample(tclasses, min(max(k, 0 if res else 1), len(tclasses))):
            if any(rc == x[0] for x in res):
                continue
            hint = rng.choice(requested[rc]) if rc in requested and rng.random() < 0.5 else None
            res.append([rc, v.amount(rng, rc, hint, tscope, fitp)])
        for rc, n in res:
            requested.setdefault(rc, []).append(n)
        g['resources'] = res
        _gen_filters(rng, v, g, allow, p, tscope)
        q['groups'].append(g)
    # resourceless group (>= 1.36): only filters, must be named in same_subtree
    resless = None
    if allow['same_subtree'] and q['groups'] and len(q['groups']) < 3 and rng.random() < 0.22:
        resless = new_group(names[len(q['groups'])])
        pp = {'required': 0.6, 'forbidden': 0.2, 'member_of': 0.25, 'forbidden_aggs': 0.15, 'in_tree': 0.4}
        _gen_filters(rng, v, resless, allow, pp, scope)
        if not (resless['required'] or resless['forbidden'] or resless['member_of'] or resless['forbidden_aggs']
                or resless['in_tree']):
            # a group exists only through one of its parameters
            if rng.random() < 0.5:
                resless['in_tree'] = rng.choice(scope or list(v.rps))
            else:
                resless['required'] = [[rng.choice(TRAITS)]]
        q['groups'].insert(rng.randrange(len(q['groups']) + 1), resless)
    sfx = [g['suffix'] for g in q['groups']]
    if allow['same_subtree'] and sfx and (resless is not None or rng.random() < 0.3):
        k = rng.choice([1, 2, 2, 3])
        s = set(rng.sample(sfx, min(k, len(sfx))))
        if resless is not None:
            s.add(resless['suffix'])
            if len(s) == 1 and len(sfx) > 1 and rng.random() < 0.85:
                s.add(rng.choice([x for x in sfx if x != resless['suffix']]))
        q['same_subtree'].append(sorted(s))
        if len(sfx) > 1 and rng.random() < 0.2:
            q['same_subtree'].append(sorted(rng.sample(sfx, 2)))
    if len(sfx) >= 2:
        q['policy'] = rng.choice(['isolate', 'isolate', 'none'])
    elif allow['granular']:
        q['policy'] = rng.choice([None, None, None, 'none', 'isolate'])
    if allow['root_required'] and rng.random() < 0.22:
        ts = rng.sample(TRAITS, rng.choice([1, 1, 2]))
        for t in ts:
            (q['root_required'] if rng.random() < 0.6 else q['root_forbidden']).append(t)
    return q


def _fit(rng, v, k, placed, small=False):
    """an amount that fits inventory k on top of what other groups of this query already place there, or None"""
    i = v.invs[k]
    done = placed.get(k, 0)
    st, mi = i['step_size'], i['min_unit']
    hi = min(i['max_unit'], v.remaining(k)) - done
    lo = st * ((mi + st - 1) // st)
    if hi < lo or hi < 1:
        return None
    top = (hi // st) * st
    if top < lo:
        return None
    r = rng.random()
    if r < (0.85 if small else 0.4):
        return lo
    if r < (0.9 if small else 0.8):
        return top
    return lo + st * rng.randrange(0, min((top - lo) // st, 50) + 1)


def gen_query_witness(rng, v, mv=None, dens=None, small=False):
    """a query built around a witness (anchor, one provider per suffixed group, one provider per class of the
    unsuffixed group): amounts fit the witness' inventories - sums included -, filters are mostly taken from what
    the witness has (required traits, member_of) or lacks (forbidden traits / aggregates).  Request-wide
    parameters are sprinkled freely, so the witness itself may be excluded; others may qualify as well."""
    if mv is None:
        mv = rng.choice([39] * 8 + [38, 36, 36, 35, 34])
    root = rng.choice(v.roots)
    scope = v.scope(root)
    tree = [u for u in scope if v.rps[u]['root'] == root]
    with_inv = sorted(set(k[0] for k in v.invs if k[0] in scope))
    if not with_inv:
        return gen_query(rng, v, mv=mv)
    numeric = mv < 33 or rng.random() < 0.4
    names = ['1', '2', '3'] if numeric else ['_A', '_NET', 'c-3']
    q = {'unsuff': None, 'groups': [], 'policy': None, 'same_subtree': [], 'root_required': [], 'root_forbidden': [],
         'mv': mv, 'rs': rng.randrange(1 << 30)}
    placed = {}
    if dens is None:
        dens = rng.choice([0.0, 0.5, 1.0, 1.0, 1.6])
    allow_anyof = mv >= 39

    def filters(g, wit, unsuffixed):
        """wit = witness providers of the group"""
        have = set.union(*[v.traits.get(u, set()) for u in wit]) if wit else set()
        common_have = set.intersection(*[v.traits.get(u, set()) for u in wit]) if wit else set()
        lack = [t for t in TRAITS if t not in have]
        wa = [v.aggs.get(u, set()) | (v.aggs.get(root, set()) if (unsuffixed and v.rps[u]['root'] == root) else set())
              for u in wit]
        common_a = sorted(set.intersection(*wa)) if wa else []
        all_a = set.union(*[v.aggs.get(u, set()) for u in wit]) if wit else set()
        if unsuffixed:
            all_a |= v.aggs.get(root, set())
        lack_a = [x for x in AGGS if x not in all_a]
        src = have if unsuffixed else common_have
        if mv >= 17 and src and rng.random() < 0.3 * dens:
            req = []
            for _ in range(rng.choice([1, 1, 2])):
                t1 = rng.choice(sorted(src))
                if allow_anyof and rng.random() < 0.4:
                    req.append(sorted([t1, rng.choice([t for t in TRAITS if t != t1])]))
                else:
                    req.append([t1])
            g['required'] = req
        if mv >= 22 and rng.random() < 0.25 * dens:
            pool = lack if (lack and rng.random() < 0.85) else TRAITS
            pool = [t for t in pool if not any(t in s_ for s_ in g['required'])]
            if pool:
                g['forbidden'] = sorted(rng.sample(pool, 1 if len(pool) < 2 or rng.random() < 0.8 else 2))
        if mv >= 21 and common_a and rng.random() < 0.3 * dens:
            mo = []
            for _ in range(rng.choice([1, 1, 2]) if mv >= 24 else 1):
                a1 = rng.choice(common_a)
                r = rng.random()
                if r < 0.55:
                    mo.append([a1])
                else:
                    mo.append(sorted([a1, rng.choice([x for x in AGGS + UNKNOWN_AGGS[:1] if x != a1])]))
            g['member_of'] = mo
        elif mv >= 21 and rng.random() < 0.05 * dens:
            g['member_of'] = [[rng.choice(AGGS + UNKNOWN_AGGS)]]
        if mv >= 32 and rng.random() < 0.18 * dens:
            pool = lack_a + UNKNOWN_AGGS[:1] if rng.random() < 0.85 else AGGS
            if pool:
                g['forbidden_aggs'] = sorted(rng.sample(pool, 1 if len(pool) < 2 or rng.random() < 0.7 else 2))
        if mv >= 31 and rng.random() < 0.2 * dens:
            if unsuffixed:
                # every witness must then lie in the anchor's tree
                if all(v.rps[u]['root'] == root for u in wit) or rng.random() < 0.2:
                    g['in_tree'] = rng.choice(tree)
            else:
                r0 = v.rps[wit[0]]['root'] if wit else root
                same = [u for u in v.rps if v.rps[u]['root'] == r0]
                g['in_tree'] = rng.choice(same) if rng.random() < 0.9 else rng.choice(list(v.rps))

    n_suff = rng.choice([0, 1, 1, 2, 2, 3]) if mv >= 25 else 0
    has_unsuff = n_suff == 0 or rng.random() < 0.7
    witness_of = {}
    if has_unsuff:
        g = new_group('')
        avail = sorted(set(k[1] for k in v.invs if k[0] in scope))
        wit = []
        for rc in rng.sample(avail, min(len(avail), rng.choice([1, 2, 2, 3]))):
            ks = [k for k in v.invs if k[1] == rc and k[0] in scope]
            rng.shuffle(ks)
            for k in ks:
                n = _fit(rng, v, k, placed, small)
                if n is not None:
                    g['resources'].append([rc, n])
                    placed[k] = placed.get(k, 0) + n
                    wit.append(k[0])
                    break
        if g['resources']:
            filters(g, wit, True)
            q['unsuff'] = g
    for i in range(n_suff):
        g = new_group(names[i])
        tps = list(with_inv)
        rng.shuffle(tps)
        for tp in tps:
            cl = sorted(k[1] for k in v.invs if k[0] == tp)
            # overlapping classes with other groups are welcome: take the provider's classes as they come
            res = []
            for rc in rng.sample(cl, min(len(cl), rng.choice([1, 1, 2]))):
                n = _fit(rng, v, (tp, rc), placed, small)
                if n is not None:
                    res.append([rc, n])
            if res:
                for rc, n in res:
                    placed[(tp, rc)] = placed.get((tp, rc), 0) + n
                g['resources'] = res
                witness_of[g['suffix']] = tp
                filters(g, [tp], False)
                q['groups'].append(g)
                break
    if not (q['unsuff'] or q['groups']):
        return gen_query(rng, v, mv=mv)
    resless = None
    if mv >= 36 and q['groups'] and len(q['groups']) < 3 and rng.random() < 0.25:
        resless = new_group([x for x in names if x not in [g['suffix'] for g in q['groups']]][0])
        tp = rng.choice(scope)
        # often an ancestor of another group's witness: same_subtree then holds
        others = [witness_of[g['suffix']] for g in q['groups'] if g['suffix'] in witness_of]
        if others and rng.random() < 0.6:
            tp = rng.choice(others)
            while v.rps[tp]['parent'] is not None and rng.random() < 0.6:
                tp = v.rps[tp]['parent']
        witness_of[resless['suffix']] = tp
        filters(resless, [tp], False)
        if not (resless['required'] or resless['forbidden'] or resless['member_of'] or resless['forbidden_aggs']
                or resless['in_tree']):
            ts = sorted(v.traits.get(tp, ()))
            if ts and rng.random() < 0.6:
                resless['required'] = [[rng.choice(ts)]]
            else:
                resless['in_tree'] = tp
        q['groups'].insert(rng.randrange(len(q['groups']) + 1), resless)
    sfx = [g['suffix'] for g in q['groups']]
    if mv >= 36 and sfx and (resless is not None or rng.random() < 0.3):
        s_ = set(rng.sample(sfx, min(rng.choice([1, 2, 2, 3]), len(sfx))))
        if resless is not None:
            s_.add(resless['suffix'])
            rest = [x for x in sfx if x != resless['suffix']]
            if len(s_) == 1 and rest and rng.random() < 0.85:
                s_.add(rng.choice(rest))
        q['same_subtree'].append(sorted(s_))
        if len(sfx) > 1 and rng.random() < 0.2:
            q['same_subtree'].append(sorted(rng.sample(sfx, 2)))
    if len(sfx) >= 2:
        q['policy'] = rng.choice(['isolate', 'isolate', 'none'])
    elif mv >= 25:
        q['policy'] = rng.choice([None, None, None, 'none', 'isolate'])
    if mv >= 35 and rng.random() < 0.22:
        have = sorted(v.traits.get(root, ()))
        lack = [t for t in TRAITS if t not in have]
        for _ in range(rng.choice([1, 1, 2])):
            r = rng.random()
            if have and r < 0.45:
                t = rng.choice(have)
                if t not in q['root_required'] + q['root_forbidden']:
                    q['root_required'].append(t)
            elif lack and r < 0.85:
                t = rng.choice(lack)
                if t not in q['root_required'] + q['root_forbidden']:
                    q['root_forbidden'].append(t)
            else:
                t = rng.choice(TRAITS)
                if t not in q['root_required'] + q['root_forbidden']:
                    (q['root_required'] if rng.random() < 0.5 else q['root_forbidden']).append(t)
    return q


def wellformed(q):
    """would the rendered request denote exactly these groups and be accepted by the parameter checks?"""
    gs = all_groups(q)
    sfx = [g['suffix'] for g in gs]
    if len(set(sfx)) != len(sfx) or not any(g['resources'] for g in gs):
        return False
    if q['unsuff'] and not q['unsuff']['resources']:
        return False
    named = set(x for t in q['same_subtree'] for x in t)
    if any(x not in sfx or x == '' for x in named) or any(not t for t in q['same_subtree']):
        return False
    for g in q['groups']:
        if not g['resources']:
            if q['mv'] < 36 or g['suffix'] not in named:
                return False
            if not (g['required'] or g['forbidden'] or g['member_of'] or g['forbidden_aggs'] or g['in_tree']):
                return False
    if len(q['groups']) > 1 and not q['policy']:
        return False
    for g in gs:
        if any(all(t in g['forbidden'] for t in s_) for s_ in g['required']):
            return False
    if set(q['root_required']) & set(q['root_forbidden']):
        return False
    return True


def all_groups(q):
    return ([q['unsuff']] if q.get('unsuff') else []) + list(q['groups'])


def features(q, v):
    gs = all_groups(q)
    f = set()
    if v.has_sharing:
        f.add('sharing')
    if v.has_nesting:
        f.add('nesting')
    if q['groups']:
        f.add('granular')
    if any(g['required'] for g in gs):
        f.add('required')
    if any(len(s) > 1 for g in gs for s in g['required']):
        f.add('any-of')
    if any(g['forbidden'] for g in gs):
        f.add('forbidden')
    if any(g['member_of'] for g in gs):
        f.add('member_of')
    if any(g['forbidden_aggs'] for g in gs):
        f.add('forbidden-aggs')
    if any(g['in_tree'] for g in gs):
        f.add('in_tree')
    if q['root_required'] or q['root_forbidden']:
        f.add('root_required')
    if q['same_subtree']:
        f.add('same_subtree')
    if q['policy'] == 'isolate':
        f.add('isolate')
    if any(not g['resources'] for g in q['groups']):
        f.add('resourceless')
    if q['mv'] < 29:
        f.add('lt-1.29')
    return f


# pairs of features no request can combine (the later feature does not exist below 1.29)
IMPOSSIBLE_WITH_OLD = {'any-of', 'forbidden-aggs', 'in_tree', 'root_required', 'same_subtree', 'resourceless'}


def possible_pairs():
    out = []
    for a, b in itertools.combinations(FEATURES, 2):
        if 'lt-1.29' in (a, b) and ({a, b} & IMPOSSIBLE_WITH_OLD):
            continue
        out.append((a, b))
    return out


# ------------------------------------------------------------------------------------------------
# rendering
# ------------------------------------------------------------------------------------------------
def _render_required(rr, required, forbidden, mv, key):
    """all admissible spellings: one comma list, repeated parameters (>= 1.39), in: (>= 1.39), ! (>= 1.22)"""
    out = []
    singles = [s[0] for s in required if len(s) == 1]
    multi = [s for s in required if len(s) > 1]
    forb = ['!' + t for t in forbidden]
    if mv >= 39 and (multi or rr.random() < 0.5):
        items = [[t] for t in singles] + [[f] for f in forb]
        # merge some singletons into comma lists
        vals = []
        cur = []
        for it in items:
            cur += it
            if rr.random() < 0.5:
                vals.append(','.join(cur))
                cur = []
        if cur:
            vals.append(','.join(cur))
        for s in multi:
            vals.append('in:' + ','.join(s))
        # a one-element any-of set may be spelled in:T as well
        rr.shuffle(vals)
        out = [(key, x) for x in vals]
    else:
        toks = singles + forb
        rr.shuffle(toks)
        if toks:
            out = [(key, ','.join(toks))]
    return out


def _render_member_of(rr, member_of, forbidden_aggs, mv, key):
    out = []
    for l in member_of:
        if len(l) == 1 and rr.random() < 0.8:
            out.append((key, l[0]))
        else:
            out.append((key, 'in:' + ','.join(l)))
    if forbidden_aggs:
        fa = list(forbidden_aggs)
        if len(fa) == 1:
            out.append((key, ('!' + fa[0]) if rr.random() < 0.7 else '!in:' + fa[0]))
        elif rr.random() < 0.5:
            out.append((key, '!in:' + ','.join(fa)))
        else:
            for x in fa:
                out.append((key, '!' + x))
    rr.shuffle(out)
    return out


def render_group(rr, g, mv):
    s = g['suffix']
    out = []
    if g['resources']:
        out.append(('resources' + s, ','.join('%s:%d' % (rc, n) for rc, n in g['resources'])))
    out += _render_required(rr, g['required'], g['forbidden'], mv, 'required' + s)
    out += _render_member_of(rr, g['member_of'], g['forbidden_aggs'], mv, 'member_of' + s)
    if g['in_tree']:
        out.append(('in_tree' + s, g['in_tree']))
    return out


def render(q, limit=None):
    """-> (url, version string).  Deterministic in q (the spelling choices are drawn from q['rs'])."""
    rr = random.Random(q.get('rs', 0))
    mv = q['mv']
    params = []
    blocks = [render_group(rr, g, mv) for g in all_groups(q)]
    rr.shuffle(blocks)
    for b in blocks:
        params += b
    if q['policy']:
        params.append(('group_policy', q['policy']))
    for s in q['same_subtree']:
        params.append(('same_subtree', ','.join(s)))
    rt = list(q['root_required']) + ['!' + t for t in q['root_forbidden']]
    if rt:
        params.append(('root_required', ','.join(rt)))
    if limit is not None:
        params.append(('limit', str(limit)))
    qs = '&'.join('%s=%s' % (k, urllib.parse.quote(v, safe=':,!')) for k, v in params)
    return '/allocation_candidates?' + qs, '1.%d' % mv


def lean_query(q):
    return {'unsuff': q['unsuff'], 'groups': q['groups'], 'policy': q['policy'], 'same_subtree': q['same_subtree'],
            'root_required': q['root_required'], 'root_forbidden': q['root_forbidden'], 'mv': q['mv']}


# ------------------------------------------------------------------------------------------------
# canonical forms
# ------------------------------------------------------------------------------------------------
def canon_alloc_request(ar, with_maps=True):
    al = ar['allocations']
    rows = []
    if isinstance(al, dict):
        for rp, v in al.items():
            for rc, n in v['resources'].items():
                rows.append((rp, rc, n))
    else:
        for e in al:
            for rc, n in e['resources'].items():
                rows.append((e['resource_provider']['uuid'], rc, n))
    maps = ()
    if with_maps and 'mappings' in ar:
        maps = tuple(sorted((s, tuple(sorted(ps))) for s, ps in ar['mappings'].items()))
    return (tuple(sorted(rows)), maps)


def canon_lean_candidate(c, with_maps=True):
    rows = tuple(sorted((rp, rc, n) for rp, rc, n in c['alloc']))
    maps = tuple(sorted((s, tuple(sorted(ps))) for s, ps in c['maps'])) if with_maps else ()
    return (rows, maps)


def show(c):
    return {'allocations': [list(x) for x in c[0]], 'mappings': {s: list(ps) for s, ps in c[1]}}
