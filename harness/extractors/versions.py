"""Translator for C14: microversions, routes, version windows, in-handler gates, schema selection chains.

Source of every datum is the working tree the `placement` package is imported from:

* runtime objects  `placement.microversion.VERSIONS`, `placement.microversion.VERSIONED_METHODS`,
  `placement.handler.ROUTE_DECLARATIONS` (each route's callable is unwrapped down to the closure of
  `microversion.version_handler.decorated_func` to read the status code used on a version miss);
* `ast` of `placement/handlers/*.py`, `placement/util.py`, `placement/lib.py`, `placement/handler.py`:
  every use of the request's microversion object (`req.environ[microversion.MICROVERSION_ENVIRON]`)
  must be one of the understood forms, otherwise ExtractError (fail closed);
* section titles of `placement/rest_api_version_history.rst`.

Output: lean/Placement/Gen/Versions.lean, namespace `Placement.Gen`.  Deterministic (sorted), so the file
changes only when the source changes.
"""
import ast
import glob
import os
import re


class ExtractError(Exception):
    pass


VERSION_PARAM_NAMES = ('want_version', 'version')
SCHEMA_VER = re.compile(r'_V?(\d+)_(\d+)$')


def _lean_str(s):
    out = []
    for ch in s:
        if ch == '"' or ch == '\\':
            out.append('\\' + ch)
        elif ch == '\n':
            out.append('\\n')
        elif 32 <= ord(ch) < 127:
            out.append(ch)
        else:
            raise ExtractError('non printable character in %r' % s)
    return '"' + ''.join(out) + '"'


def _pkg_dir():
    import placement
    return os.path.dirname(os.path.abspath(placement.__file__))


# ----------------------------------------------------------------------------- runtime tables

def _minor(vtuple, what):
    major, minor = vtuple
    if major != 1:
        raise ExtractError('%s: major version %r is not 1' % (what, major))
    if not isinstance(minor, int) or minor < 0:
        raise ExtractError('%s: bad minor %r' % (what, minor))
    return minor


def _versions():
    from placement import microversion
    out = []
    for s in microversion.VERSIONS:
        m = re.match(r'^(\d+)\.(\d+)$', s)
        if not m:
            raise ExtractError('VERSIONS entry %r is not X.Y' % (s,))
        if str(int(m.group(2))) != m.group(2):
            raise ExtractError('VERSIONS entry %r has a non canonical minor' % (s,))
        out.append(_minor((int(m.group(1)), int(m.group(2))), 'VERSIONS'))
    if not out:
        raise ExtractError('VERSIONS is empty')
    return out


def _unwrap_route_callable(obj, where):
    """-> (qualified handler name, versioned?, status code on version miss)."""
    from placement import wsgi_wrapper
    if not isinstance(obj, wsgi_wrapper.PlacementWsgify):
        raise ExtractError('%s: route target %r is not a PlacementWsgify' % (where, obj))
    f = obj.func
    seen = 0
    while True:
        seen += 1
        if seen > 10 or not hasattr(f, '__code__'):
            raise ExtractError('%s: cannot unwrap %r' % (where, f))
        code = f.__code__
        if code.co_name == 'decorated_func' and 'qualified_name' in code.co_freevars:
            cells = dict(zip(code.co_freevars, [c.cell_contents for c in f.__closure__]))
            if code.co_filename != _src('microversion.py'):
                raise ExtractError('%s: decorated_func from %s' % (where, code.co_filename))
            status = cells.get('status_code')
            if not isinstance(status, int):
                raise ExtractError('%s: status_code of version_handler is %r' % (where, status))
            return cells['qualified_name'], True, status
        if code.co_name == 'decorated_function' and hasattr(f, '__wrapped__'):
            # util.check_accept / util.require_content (functools.wraps)
            if code.co_filename != _src('util.py'):
                raise ExtractError('%s: unknown decorator from %s' % (where, code.co_filename))
            f = f.__wrapped__
            continue
        if f.__closure__:
            raise ExtractError('%s: handler %r is a closure of an unknown decorator' % (where, f))
        return '%s.%s' % (f.__module__, f.__name__), False, 0


def _src(rel):
    return os.path.join(_pkg_dir(), rel)


def _routes():
    from placement import handler
    out = []
    for path, targets in handler.ROUTE_DECLARATIONS.items():
        if not isinstance(path, str) or not isinstance(targets, dict):
            raise ExtractError('ROUTE_DECLARATIONS entry %r' % (path,))
        if re.search(r'\{[^}]*:', path):
            raise ExtractError('route %r uses a regex requirement' % path)
        for method, target in targets.items():
            if not re.match(r'^[A-Z]+$', method):
                raise ExtractError('route %r method %r' % (path, method))
            name, versioned, status = _unwrap_route_callable(target, '%s %s' % (method, path))
            out.append((path, method, name, versioned, status))
    out.sort()
    return out


def _runtime_windows():
    from placement import microversion
    out = []
    for name, lst in microversion.VERSIONED_METHODS.items():
        if not name.startswith('placement.'):
            continue   # test fixtures of other packages may register handlers too
        for (lo, hi, _f) in lst:
            out.append((name, _minor(tuple(lo), name), _minor(tuple(hi), name)))
    out.sort()
    return out


# ----------------------------------------------------------------------------- ast side

class _Module(object):
    def __init__(self, path, modname):
        self.path, self.modname = path, modname
        with open(path) as f:
            self.tree = ast.parse(f.read(), path)
        self.consts = {}      # module-level NAME = (1, N)
        self.const_lists = {}  # module-level NAME = [(1, N), ...]
        for node in self.tree.body:
            if isinstance(node, ast.Assign) and len(node.targets) == 1 and isinstance(node.targets[0], ast.Name):
                t = _int_tuple(node.value)
                if t is not None:
                    self.consts[node.targets[0].id] = t
                elif isinstance(node.value, (ast.List, ast.Tuple)) and node.value.elts and all(
                        _int_tuple(e) is not None for e in node.value.elts):
                    self.const_lists[node.targets[0].id] = [_int_tuple(e) for e in node.value.elts]
        for node in ast.walk(self.tree):
            for child in ast.iter_child_nodes(node):
                child._parent = node


def _int_tuple(node):
    if isinstance(node, ast.Tuple) and len(node.elts) == 2 and all(
            isinstance(e, ast.Constant) and isinstance(e.value, int) and not isinstance(e.value, bool)
            for e in node.elts):
        return (node.elts[0].value, node.elts[1].value)
    return None


def _mentions_environ_key(node):
    for n in ast.walk(node):
        if isinstance(n, ast.Attribute) and n.attr == 'MICROVERSION_ENVIRON':
            return True
        if isinstance(n, ast.Name) and n.id == 'MICROVERSION_ENVIRON':
            return True
    return False


def _functions(mod):
    """Yield (qualname, FunctionDef) for module-level functions and methods, in source order.
    Functions re-defined under the same name (version windows) get the same qualname; gate
    ordinals continue across them."""
    def rec(body, prefix):
        for node in body:
            if isinstance(node, (ast.FunctionDef, ast.AsyncFunctionDef)):
                yield prefix + node.name, node
            elif isinstance(node, ast.ClassDef):
                for x in rec(node.body, prefix + node.name + '.'):
                    yield x
    return rec(mod.tree.body, mod.modname + '.')


def _schema_attr(node):
    """`schema.NAME` / `rp_schema.NAME` -> NAME"""
    if isinstance(node, ast.Attribute) and isinstance(node.value, ast.Name) and re.match(r'^[A-Z][A-Z0-9_]*$', node.attr):
        return node.attr
    return None


def _schema_minor(name):
    m = SCHEMA_VER.search(name)
    if not m:
        return None
    if int(m.group(1)) != 1:
        raise ExtractError('schema %s names major version %s' % (name, m.group(1)))
    return int(m.group(2))


class _FuncScan(object):
    """All uses of the microversion object inside one function definition."""

    def __init__(self, mod, qual, fn):
        self.mod, self.qual, self.fn = mod, qual, fn
        self.vars = set()
        for a in fn.args.args + fn.args.kwonlyargs:
            if a.arg in VERSION_PARAM_NAMES:
                self.vars.add(a.arg)
        for n in self._own_nodes():
            if isinstance(n, ast.Assign) and _mentions_environ_key(n.value) and not self._is_gate_expr(n.value):
                if len(n.targets) != 1 or not isinstance(n.targets[0], ast.Name):
                    raise self.err(n, 'microversion object bound to a non-name target')
                if not isinstance(n.value, (ast.Subscript, ast.Call)):
                    raise self.err(n, 'microversion object read through an unknown expression')
                self.vars.add(n.targets[0].id)
        self.gates = []     # dicts
        self.flag_of = {}   # local flag name -> gate index
        self.chains = []

    def err(self, node, msg):
        return ExtractError('%s:%s in %s: %s' % (os.path.relpath(self.mod.path, _pkg_dir()),
                                                getattr(node, 'lineno', '?'), self.qual, msg))

    def _own_nodes(self):
        """nodes of this function, not descending into nested function definitions"""
        stack = list(reversed(self.fn.body))
        while stack:
            n = stack.pop()
            yield n
            if isinstance(n, (ast.FunctionDef, ast.AsyncFunctionDef, ast.Lambda, ast.ClassDef)):
                for m in ast.walk(n):
                    if m is not n and self._is_version_expr(m):
                        raise self.err(m, 'microversion object used inside a nested function')
                continue
            stack.extend(reversed(list(ast.iter_child_nodes(n))))

    def _is_version_expr(self, node):
        if isinstance(node, ast.Name) and node.id in self.vars and isinstance(node.ctx, ast.Load):
            return True
        if isinstance(node, ast.Subscript) and _mentions_environ_key(node.slice):
            return True
        if (isinstance(node, ast.Call) and isinstance(node.func, ast.Attribute) and node.func.attr == 'get'
                and node.args and _mentions_environ_key(node.args[0])):
            return True
        return False

    def _is_gate_expr(self, node):
        return (isinstance(node, ast.Call) and isinstance(node.func, ast.Attribute)
                and node.func.attr == 'matches')

    # -- resolving the version a gate compares with
    def _resolve(self, node, at):
        """-> list of (minor, form) ; more than one element only for loop gates"""
        t = _int_tuple(node)
        if t is not None:
            return [(_minor(t, self.qual), 'literal')]
        if isinstance(node, ast.Name):
            if node.id in self.mod.consts:
                return [(_minor(self.mod.consts[node.id], node.id), 'const:' + node.id)]
            raise self.err(at, 'version operand %s is not a module constant (1, N)' % node.id)
        if isinstance(node, ast.Tuple) and len(node.elts) == 2 and all(isinstance(e, ast.Name) for e in node.elts):
            # loop variables of `for maj, min in CONST_LIST`
            loop = at
            while loop is not None and not isinstance(loop, ast.For):
                loop = getattr(loop, '_parent', None)
            if (loop is None or not isinstance(loop.target, ast.Tuple)
                    or [getattr(e, 'id', None) for e in loop.target.elts] != [e.id for e in node.elts]
                    or not isinstance(loop.iter, ast.Name) or loop.iter.id not in self.mod.const_lists):
                raise self.err(at, 'version operand built from names that are not loop variables over a constant list')
            return [(_minor(t2, loop.iter.id), 'list:%s[%d]' % (loop.iter.id, i))
                    for i, t2 in enumerate(self.mod.const_lists[loop.iter.id])]
        raise self.err(at, 'cannot interpret version operand %s' % ast.dump(node)[:80])

    def scan(self):
        handled = set()
        for n in self._own_nodes():
            # form 1: X.matches(...)
            if self._is_gate_expr(n):
                recv = n.func.value
                if not self._is_version_expr(recv):
                    raise self.err(n, '.matches() on something that is not the request microversion')
                handled.add(id(recv))
                if len(n.args) + len(n.keywords) != 1:
                    raise self.err(n, 'matches() with %d arguments (max_version is not modelled)'
                                   % (len(n.args) + len(n.keywords)))
                if n.args:
                    operand, form = n.args[0], 'matches'
                else:
                    if n.keywords[0].arg != 'min_version':
                        raise self.err(n, 'matches(%s=...) is not modelled' % n.keywords[0].arg)
                    operand, form = n.keywords[0].value, 'matches_min'
                self._add(n, form, self._resolve(operand, n))
            # form 2: X >= (1, N)
            elif isinstance(n, ast.Compare) and (self._is_version_expr(n.left) or any(
                    self._is_version_expr(c) for c in n.comparators)):
                if not (self._is_version_expr(n.left) and len(n.ops) == 1 and isinstance(n.ops[0], ast.GtE)):
                    raise self.err(n, 'comparison of the microversion other than `version >= (1, N)`')
                handled.add(id(n.left))
                self._add(n, 'ge', self._resolve(n.comparators[0], n))
        # every other use of the microversion object must be harmless
        for n in self._own_nodes():
            if not self._is_version_expr(n) or id(n) in handled:
                continue
            p = getattr(n, '_parent', None)
            if isinstance(p, ast.Assign) and p.value is n:
                continue                                # want_version = req.environ[...]
            if isinstance(p, ast.Call) and (n in p.args):
                continue                                # passed on to a function that is scanned itself
            if isinstance(p, ast.keyword):
                continue
            if isinstance(p, ast.BoolOp):
                continue                                # `want_version and want_version.matches(...)`
            if isinstance(n, ast.Subscript) and isinstance(p, ast.Assign) and n in p.targets:
                continue
            raise self.err(n, 'use of the microversion object that the translator does not understand: %s'
                           % ast.dump(p)[:100])
        self._selections()
        return self

    def _add(self, node, form, resolved):
        neg = isinstance(getattr(node, '_parent', None), ast.UnaryOp) and isinstance(node._parent.op, ast.Not)
        for minor, how in resolved:
            self.gates.append({'node': node, 'minor': minor, 'negated': neg,
                               'form': form if how == 'literal' else '%s %s' % (form, how),
                               'selects': '', 'line': node.lineno})
        p = node._parent
        if isinstance(p, ast.BoolOp):
            p = p._parent
        if isinstance(p, ast.Assign) and len(p.targets) == 1 and isinstance(p.targets[0], ast.Name):
            self.flag_of[p.targets[0].id] = len(self.gates) - 1

    # -- schema selection chains
    def _gate_index_of_test(self, test):
        """index (into self.gates) of the first gate that an `if` test consists of, or None"""
        t = test
        if isinstance(t, ast.UnaryOp) and isinstance(t.op, ast.Not):
            return None
        if isinstance(t, ast.Name) and t.id in self.flag_of:
            return self.flag_of[t.id]
        for i, g in enumerate(self.gates):
            if g['node'] is t:
                return i
        return None

    def _selections(self):
        """if/elif chains and sequences of ifs whose bodies assign a versioned schema to one variable;
        plus the `for maj, min in LIST: if matches((maj, min)): return getattr(schema, FMT % (maj, min))` loop."""
        by_target = {}
        for n in self._own_nodes():
            if isinstance(n, ast.If):
                gi = self._gate_index_of_test(n.test)
                if gi is None:
                    continue
                if len(self.gates) > gi + 1 and self.gates[gi + 1]['node'] is self.gates[gi]['node']:
                    self._loop_selection(n, gi)
                    continue
                if len(n.body) == 1 and isinstance(n.body[0], ast.Assign) and len(n.body[0].targets) == 1 \
                        and isinstance(n.body[0].targets[0], ast.Name):
                    name = _schema_attr(n.body[0].value)
                    if name is None or 'SCHEMA' not in name and 'ALLOCATIONS' not in name:
                        continue
                    elif_arm = isinstance(n._parent, ast.If) and n._parent.orelse == [n]
                    has_elif = len(n.orelse) == 1 and isinstance(n.orelse[0], ast.If)
                    tgt = n.body[0].targets[0].id
                    ent = by_target.setdefault(tgt, {'arms': [], 'kinds': set()})
                    ent['arms'].append((gi, name))
                    ent['kinds'].add('first' if (elif_arm or has_elif) else 'last')
                    self.gates[gi]['selects'] = name
        for tgt, ent in sorted(by_target.items()):
            if len(ent['kinds']) != 1:
                raise self.err(self.fn, 'schema variable %s is selected by a mix of if/elif and independent ifs' % tgt)
            kind = ent['kinds'].pop()
            if len(ent['arms']) == 1:
                kind = 'first'
            default = None
            for n in self._own_nodes():
                if isinstance(n, ast.Assign) and len(n.targets) == 1 and isinstance(n.targets[0], ast.Name) \
                        and n.targets[0].id == tgt and not isinstance(n._parent, ast.If):
                    nm = _schema_attr(n.value)
                    if nm is None:
                        raise self.err(n, 'default of schema variable %s is not a schema attribute' % tgt)
                    if default is not None:
                        raise self.err(n, 'schema variable %s has two unconditional assignments' % tgt)
                    default = nm
            if default is None:
                raise self.err(self.fn, 'schema variable %s has no default' % tgt)
            self.chains.append({'target': tgt, 'kind': kind, 'default': default, 'arms': ent['arms']})

    def _loop_selection(self, ifnode, gi):
        body = ifnode.body
        ok = (len(body) == 1 and isinstance(body[0], ast.Return) and isinstance(body[0].value, ast.Call)
              and getattr(body[0].value.func, 'id', None) == 'getattr' and len(body[0].value.args) == 2
              and isinstance(body[0].value.args[1], ast.BinOp) and isinstance(body[0].value.args[1].op, ast.Mod)
              and isinstance(body[0].value.args[1].left, ast.Constant)
              and isinstance(body[0].value.args[1].left.value, str))
        if not ok:
            raise self.err(ifnode, 'loop over a version list whose body is not `return getattr(schema, FMT % (maj, min))`')
        fmt = body[0].value.args[1].left.value
        loop = ifnode._parent
        if not isinstance(loop, ast.For) or loop.body != [ifnode] or loop.orelse:
            raise self.err(ifnode, 'version list loop has more than the one if')
        # default: the `return schema.X` that follows the loop
        sibs = loop._parent.body
        k = sibs.index(loop)
        if k + 1 >= len(sibs) or not isinstance(sibs[k + 1], ast.Return) or _schema_attr(sibs[k + 1].value) is None:
            raise self.err(loop, 'version list loop is not followed by `return schema.DEFAULT`')
        lst = self.mod.const_lists[loop.iter.id]
        arms = []
        j = gi
        while j < len(self.gates) and self.gates[j]['node'] is self.gates[gi]['node']:
            name = fmt % lst[j - gi]
            self.gates[j]['selects'] = name
            arms.append((j, name))
            j += 1
        self.chains.append({'target': 'return', 'kind': 'first', 'default': _schema_attr(sibs[k + 1].value),
                            'arms': arms})


def _window_decorators(mod):
    """(qualified name, lo, hi or None, status, schema names referenced in the body) for every function
    decorated with microversion.version_handler, from the ast (the status code is not kept at run time)."""
    out = []
    for qual, fn in _functions(mod):
        for d in fn.decorator_list:
            if isinstance(d, ast.Call) and isinstance(d.func, ast.Attribute) and d.func.attr == 'version_handler':
                args = list(d.args)
                kw = {k.arg: k.value for k in d.keywords}
                names = ['min_ver', 'max_ver', 'status_code']
                vals = {}
                for i, a in enumerate(args):
                    if i >= 3:
                        raise ExtractError('%s: version_handler with %d positional arguments' % (qual, len(args)))
                    vals[names[i]] = a
                for k, v in kw.items():
                    if k not in names or k in vals:
                        raise ExtractError('%s: version_handler argument %r' % (qual, k))
                    vals[k] = v

                def const(node, typ, what):
                    if not isinstance(node, ast.Constant) or not isinstance(node.value, typ):
                        raise ExtractError('%s: version_handler %s is not a literal' % (qual, what))
                    return node.value
                lo = _parse_vs(const(vals['min_ver'], str, 'min_ver'), qual) if 'min_ver' in vals else None
                if lo is None:
                    raise ExtractError('%s: version_handler without min_ver' % qual)
                hi = None
                if 'max_ver' in vals and not (isinstance(vals['max_ver'], ast.Constant) and vals['max_ver'].value is None):
                    hi = _parse_vs(const(vals['max_ver'], str, 'max_ver'), qual)
                status = const(vals['status_code'], int, 'status_code') if 'status_code' in vals else 404
                schemas = sorted(set(_schema_attr(n) for n in ast.walk(fn)
                                     if _schema_attr(n) and isinstance(n.value, ast.Name)
                                     and n.value.id in ('schema', 'rp_schema')))
                out.append((qual, lo, hi, status, schemas))
            elif 'version_handler' in ast.dump(d):
                raise ExtractError('%s: decorator mentions version_handler in an unknown form' % qual)
    return out


def _parse_vs(s, what):
    m = re.match(r'^(\d+)\.(\d+)$', s)
    if not m:
        raise ExtractError('%s: version string %r' % (what, s))
    return _minor((int(m.group(1)), int(m.group(2))), what)


def _doc_sections():
    with open(_src('rest_api_version_history.rst')) as f:
        lines = f.read().split('\n')
    out = []
    for i in range(len(lines) - 1):
        m = re.match(r'^(\d+)\.(\d+) - (.+?)\s*$', lines[i])
        if m and re.match(r'^~{3,}\s*$', lines[i + 1]):
            out.append((_minor((int(m.group(1)), int(m.group(2))), 'rst'), m.group(3)))
    if not out:
        raise ExtractError('no version sections found in rest_api_version_history.rst')
    return out


def collect():
    pkg = _pkg_dir()
    from placement import handler  # noqa: importing the handlers fills microversion.VERSIONED_METHODS
    files = sorted(glob.glob(os.path.join(pkg, 'handlers', '*.py'))) + [
        os.path.join(pkg, 'util.py'), os.path.join(pkg, 'lib.py'), os.path.join(pkg, 'handler.py')]
    gates, chains, ast_windows = [], [], []
    for path in files:
        rel = os.path.relpath(path, os.path.dirname(pkg))
        modname = rel[:-3].replace(os.sep, '.')
        if modname.endswith('.__init__'):
            modname = modname[:-9]
        mod = _Module(path, modname)
        ordinal = {}
        for qual, fn in _functions(mod):
            sc = _FuncScan(mod, qual, fn).scan()
            base = ordinal.get(qual, 0)
            for i, g in enumerate(sc.gates):
                gates.append((qual, base + i, g['minor'], g['form'], g['negated'], g['selects']))
            for c in sc.chains:
                chains.append((qual, c['target'], c['kind'], c['default'],
                               [(base + gi, sc.gates[gi]['minor'], name) for gi, name in c['arms']]))
            ordinal[qual] = base + len(sc.gates)
        # module-level code must not touch the microversion
        for node in mod.tree.body:
            if not isinstance(node, (ast.FunctionDef, ast.ClassDef, ast.AsyncFunctionDef)):
                for n in ast.walk(node):
                    if isinstance(n, ast.Attribute) and n.attr == 'matches':
                        raise ExtractError('%s: module level .matches()' % rel)
        ast_windows += _window_decorators(mod)
    # a constant that looks like a gate version but is never used would be silently ignored otherwise
    vers = _versions()
    maxm = vers[-1]
    windows = sorted((q, lo, maxm if hi is None else hi, st, sch) for (q, lo, hi, st, sch) in ast_windows)
    rt = _runtime_windows()
    if sorted((q, lo, hi) for (q, lo, hi, _s, _c) in windows) != rt:
        raise ExtractError('version_handler decorators found by ast %r differ from microversion.VERSIONED_METHODS %r'
                           % (sorted((q, lo, hi) for (q, lo, hi, _s, _c) in windows), rt))
    gates.sort()
    chains.sort()
    return {'versions': vers, 'routes': _routes(), 'windows': windows, 'gates': gates, 'chains': chains,
            'docs': _doc_sections()}


def render(d):
    L = []
    w = L.append
    w('/-')
    w('  GENERATED by harness/extractors/versions.py from the working tree of placement. Do not edit.')
    w('  Sources: microversion.VERSIONS, microversion.VERSIONED_METHODS, handler.ROUTE_DECLARATIONS (runtime),')
    w('  ast of handlers/*.py, util.py, lib.py, handler.py, section titles of rest_api_version_history.rst.')
    w('-/')
    w('namespace Placement.Gen')
    w('')
    w('/-- minor numbers of `microversion.VERSIONS` in list order (every major is 1, checked by the translator) -/')
    w('def versionMinors : List Nat := [%s]' % ', '.join(str(v) for v in d['versions']))
    w('')
    names = sorted(set(h for (_p, _m, h, _v, _s) in d['routes']) | set(q for (q, _l, _h, _s, _c) in d['windows']))
    hid = {n: i for i, n in enumerate(names)}
    w('/-- handler function names (routed or registered with version_handler), sorted; `hid` fields below are')
    w('indices into this list (interned by the translator so that table checks compare numbers, not strings) -/')
    w('def handlerNames : List String := [')
    w(',\n'.join('  %s' % _lean_str(n) for n in names))
    w(']')
    w('')
    w('/-- one (route, method) of `handler.ROUTE_DECLARATIONS`; `missStatus` is the `status_code` captured by the')
    w('closure of `version_handler.decorated_func` that the route really points to (0 when not versioned) -/')
    w('structure Route where')
    w('  path : String')
    w('  method : String')
    w('  handler : String')
    w('  hid : Nat')
    w('  versioned : Bool')
    w('  missStatus : Nat')
    w('  deriving Repr, DecidableEq')
    w('')
    w('def routes : List Route := [')
    w(',\n'.join('  ⟨%s, %s, %s, %d, %s, %d⟩' % (_lean_str(p), _lean_str(m), _lean_str(h), hid[h],
                                                 'true' if v else 'false', s)
                 for (p, m, h, v, s) in d['routes']))
    w(']')
    w('')
    w('/-- one `@microversion.version_handler(min, max, status_code)` decorator; `hi` is the maximum version when')
    w('max is omitted; `schemas` are the schema constants the decorated body refers to -/')
    w('structure Window where')
    w('  handler : String')
    w('  hid : Nat')
    w('  lo : Nat')
    w('  hi : Nat')
    w('  status : Nat')
    w('  schemas : List (String × Option Nat)')
    w('  deriving Repr, DecidableEq')
    w('')
    w('def windows : List Window := [')
    w(',\n'.join('  ⟨%s, %d, %d, %d, %d, [%s]⟩' % (
        _lean_str(q), hid[q], lo, hi, st,
        ', '.join('(%s, %s)' % (_lean_str(s), _opt(_schema_minor(s))) for s in sch))
        for (q, lo, hi, st, sch) in d['windows']))
    w(']')
    w('')
    w('/-- one in-handler test of the request microversion: the `ord`-th in function `func` (source order),')
    w('open exactly for versions `(1, minor) ≤ v ≤ max`; `selects` is the schema constant chosen by the guarded')
    w('statement when there is one -/')
    w('structure Gate where')
    w('  func : String')
    w('  ord : Nat')
    w('  minor : Nat')
    w('  form : String')
    w('  negated : Bool')
    w('  selects : String')
    w('  deriving Repr, DecidableEq')
    w('')
    w('def gates : List Gate := [')
    w(',\n'.join('  ⟨%s, %d, %d, %s, %s, %s⟩' % (_lean_str(q), o, n, _lean_str(f), 'true' if neg else 'false', _lean_str(s))
                 for (q, o, n, f, neg, s) in d['gates']))
    w(']')
    w('')
    w('/-- a schema selection: `kind = "first"` is an if/elif chain or a loop returning on the first open gate,')
    w('`kind = "last"` a sequence of independent ifs each overwriting the variable. An arm is')
    w('(gate ordinal, gate minor, schema constant, minor named by the constant). -/')
    w('structure Arm where')
    w('  ord : Nat')
    w('  gateMinor : Nat')
    w('  schema : String')
    w('  nameMinor : Option Nat')
    w('  deriving Repr, DecidableEq')
    w('')
    w('structure SchemaChain where')
    w('  func : String')
    w('  target : String')
    w('  kind : String')
    w('  default : String')
    w('  arms : List Arm')
    w('  deriving Repr, DecidableEq')
    w('')
    w('def schemaChains : List SchemaChain := [')
    w(',\n'.join('  ⟨%s, %s, %s, %s, [%s]⟩' % (
        _lean_str(q), _lean_str(t), _lean_str(k), _lean_str(dflt),
        ', '.join('⟨%d, %d, %s, %s⟩' % (o, gm, _lean_str(nm), _opt(_schema_minor(nm))) for (o, gm, nm) in arms))
        for (q, t, k, dflt, arms) in d['chains']))
    w(']')
    w('')
    w('/-- sections `1.N - title` of rest_api_version_history.rst, in file order -/')
    w('def docSections : List (Nat × String) := [')
    w(',\n'.join('  (%d, %s)' % (n, _lean_str(t)) for (n, t) in d['docs']))
    w(']')
    w('')
    w('end Placement.Gen')
    return '\n'.join(L) + '\n'


def _opt(x):
    return 'none' if x is None else 'some %d' % x


def generate():
    return {'Versions.lean': render(collect())}


if __name__ == '__main__':
    import sys
    sys.stdout.write(generate()['Versions.lean'])
